/-
C04 — rewriting never changes what an expression denotes.
Only property statements, one-line proofs referring to `Lemmas/Rewriter*.lean`, and non-vacuity
examples live here.

Model: `Models/Rewriter.lean` (hand port of `functional_algorithms/rewrite.py` and of the
inference properties of `expr.py`), tied to the package on every run by the correspondence check
and by the regenerated tables `Generated/C04Tables.lean`.

Semantics (`Lemmas/RewriterSem.lean`): values are extended elements of an arbitrary linearly
ordered field `K` (booleans are 0/1); every arithmetic node computes `S.rnd (exact result)` and is
defined only when `S.ok (exact result)`.  `rnd = id` is exact real arithmetic; a monotone, odd,
idempotent `rnd` that never rounds a non-zero value to zero on `ok` results is floating point in
one working format away from NaN / overflow / underflow, read up to the sign of zero.

Strict mode (`Cfg.strict`) only adds checks to the model: a constant fold / cast must be exact,
the two constants of a fold must have the same type, named constants are cast only to the working
dtype.  The soundness theorems speak about runs on which the strict model returns a result; the
harness reports, for every expression, whether the strict run succeeds and that its result is the
plain model's result.
-/
import FAVerif.Lemmas.RewriterReal
import FAVerif.Generated.C04Tables

namespace FAVerif.Props.C04
open FAVerif.Rewriter FAVerif.SignAbs FAVerif.FP

variable {K : Type} [Field K] [LinearOrder K] [IsStrictOrderedRing K]

/-! ## inference -/

/-- **infer_sound.**  Whenever `_is_nonnegative`, `_is_nonpositive`, `_is_positive`, `_is_negative`,
`_is_zero`, `_is_finite` answer `True`/`False` (not `None`, no exception) the answer is true of the
value of the expression under *every* interpretation with the laws `S.Laws` (exact reals, regular
floating point) and every assignment on which the expression is defined.  Structural induction. -/
theorem infer_sound (S : Sem K) (L : S.Laws) (env : Env K) (e : Expr) (v : EV K) (hv : eval S env e = some v) :
    (∀ b, isNonneg e = .ok (some b) → SignFact true b v) ∧
    (∀ b, isNonpos e = .ok (some b) → SignFact false b v) ∧
    (∀ b, isPos e = .ok (some b) → SignFact false (!b) v) ∧
    (∀ b, isNeg e = .ok (some b) → SignFact true (!b) v) ∧
    (∀ b, isZero e = .ok (some b) → ZeroFact b v) ∧
    (∀ b, isFinite e = .ok (some b) → FinFact b v) :=
  ⟨fun _ h => isNonneg_sound L env hv h, fun _ h => isNonpos_sound L env hv h, fun _ h => isPos_sound L env hv h,
   fun _ h => isNeg_sound L env hv h, fun _ h => isZero_sound L env e v _ hv h, fun _ h => isFinite_sound L env e v _ hv h⟩

/- `_is_one`, full statement (FALSE of the code as written):
     ∀ e v b, eval S env e = some v → isOne e = .ok (some b) → OneFact b v
   It fails at `square` / `absolute`: `_is_one(square(-1))` is `False` although `(-1)^2 = 1`. -/

/-- **infer_sound for `_is_one`, partial**: exact arithmetic, and the recursion of `_is_one` does not
pass through `square` / `absolute`. -/
theorem infer_sound_is_one_partial (S : Sem K) (L : S.Laws) (hexact : ∀ z : K, S.rnd z = z) (env : Env K)
    (e : Expr) (v : EV K) (b : Bool) (hsafe : isOneSafe e = true) (hv : eval S env e = some v)
    (h : isOne e = .ok (some b)) : OneFact b v :=
  isOne_sound_partial L hexact env e v b hsafe hv h

/-- negation witness for `_is_one`: the model answers `False` for `square(-1)`, whose value is 1
in every interpretation (replayed on the real `Expr._is_one`). -/
theorem infer_is_one_witness :
    isOne (.un .square (.const (.int (-1)) symA)) = .ok (some false) ∧
    ∀ (S : Sem K) (L : S.Laws) (env : Env K), eval S env (.un .square (.const (.int (-1)) symA)) = some (.fin 1) := by
  refine ⟨witness_isOne_square, fun S L env => ?_⟩
  simp [eval, Sem.un, Sem.const, CVal.ext?, Sem.ofExt, Sem.arith, L.ok_neg, L.ok_one, L.rnd_neg_one, L.rnd_one]

/-! ## tables -/

/-- **tables_sound** (full statement; true since the `fix:` commit 6a4e7cd in /repo).  Every row of the
regenerated tables that `_compare` can consult — all of `_constant_relop_constant`, the rows of
`_constant_relop_any` keyed by a numeric constant, all of `_any_relop_any` — is judged sound by
`SignAbs.rowSound`: every non-`None` entry is the strongest sound entry.  Re-checked by the kernel
against the tables read from the module on every run (one obligation per row, by name, in
`Generated/C04Rows.lean`). -/
theorem tables_sound : TablesOK Generated.C04.tables = true := by decide

/-- **tables_sound, lifted**: for every linearly ordered field, every named-constant chain
`0 < smallest_subnormal < smallest < eps < 1 < largest`, every consulted row and every non-`None`
entry: the entry is the truth value of the relational operator on *all* pairs of extended values
denoted by the row's keys. -/
theorem tables_sound_lifted (nc : NC K) (t : Table)
    (ht : t = Generated.C04.tables.cc ∨ t = numericRows Generated.C04.tables.ca ∨ t = Generated.C04.tables.aa)
    (k1 k2 : Key) (row : Row) (hmem : ((k1, k2), row) ∈ t) (r : Rel) (b : Bool)
    (hb : (row[r.index]?).join = some b) (x y : EV K) (hx : InKey nc k1 x) (hy : InKey nc k2 y) :
    r.holds x y = b :=
  tables_lifted nc tables_sound t ht k1 k2 row hmem r b hb x y hx hy

/-- REGRESSION WITNESS about the OLD rows (nonnegative, nonpositive) / (nonpositive, nonnegative) of
`_any_relop_any` (literal data `badRows`; fixed in /repo by 6a4e7cd — kept so that the search
recognises the defect if it returns): the judge rejects them, and indeed 0 is nonpositive and
nonnegative while `0 < 0` is false — the old row said `True`. -/
theorem tables_unsound_witness (nc : NC K) :
    badRows.all (fun row => !rowSound row) = true ∧
    InKey nc (.name "nonpositive") (.fin 0) ∧ InKey nc (.name "nonnegative") (.fin 0) ∧
    Rel.lt.holds (.fin 0 : EV K) (.fin 0) = false ∧
    (badRows.lookup (.name "nonpositive", .name "nonnegative")).map (fun row => row[Rel.lt.index]?) = some (some (some true)) := by
  refine ⟨witness_rows_unsound, ?_, ?_, ?_, by decide⟩
  · simp [InKey, EV.le, EV.lt]
  · simp [InKey, EV.le, EV.lt]
  · simp [Rel.holds]

/-! ## rules -/

section rules
variable {S : Sem K} {env : Env K} {cfg : Cfg} (H : Hyp S env cfg)
include H

/-- each rule method: if it returns `e'` for `e` then `e'` is defined wherever `e` is, with the same value -/
theorem rule_sound_add {x y e' : Expr} (h : rAdd cfg x y = .ok (some e')) : Sound S env (.bin .add x y) e' := rAdd_sound H h
theorem rule_sound_subtract {x y e' : Expr} (h : rSubtract cfg x y = .ok (some e')) : Sound S env (.bin .subtract x y) e' := rSubtract_sound H h
theorem rule_sound_multiply {x y e' : Expr} (h : rMultiply cfg x y = .ok (some e')) : Sound S env (.bin .multiply x y) e' := rMultiply_sound H h
theorem rule_sound_divide {x y e' : Expr} (h : rDivide cfg x y = .ok (some e')) : Sound S env (.bin .divide x y) e' := rDivide_sound H h
theorem rule_sound_minimum {x y e' : Expr} (h : foldMinMax cfg true x y = .ok (some e')) : Sound S env (.bin .minimum x y) e' := foldMinMax_sound (isMin := true) H h
theorem rule_sound_maximum {x y e' : Expr} (h : foldMinMax cfg false x y = .ok (some e')) : Sound S env (.bin .maximum x y) e' := foldMinMax_sound (isMin := false) H h
theorem rule_sound_negative {x e' : Expr} (h : rNegative cfg x = .ok (some e')) : Sound S env (.un .negative x) e' := rNegative_sound H h
theorem rule_sound_absolute {x e' : Expr} (h : rAbsolute cfg x = .ok (some e')) : Sound S env (.un .absolute x) e' := rAbsolute_sound H h
theorem rule_sound_sqrt {x e' : Expr} (h : rSqrt cfg x = .ok (some e')) : Sound S env (.un .sqrt x) e' := rSqrt_sound H h
theorem rule_sound_square {x e' : Expr} (h : rSquare cfg x = .ok (some e')) : Sound S env (.un .square x) e' := rSquare_sound H h
theorem rule_sound_sign {x e' : Expr} (h : rSign cfg x = .ok (some e')) : Sound S env (.un .sign x) e' := rSign_sound H h
theorem rule_sound_constant {v : CVal} {l e' : Expr} (h : rConstant cfg v l = .ok (some e')) : Sound S env (.const v l) e' := rConstant_sound H h
theorem rule_sound_upcast {x e' : Expr} (h : rUpcast cfg x = .ok (some e')) : Sound S env (.un .upcast x) e' := rUpcast_sound H h
theorem rule_sound_downcast {x e' : Expr} (h : rDowncast cfg x = .ok (some e')) : Sound S env (.un .downcast x) e' := rDowncast_sound H h
theorem rule_sound_log {x e' : Expr} (h : rLog cfg x = .ok (some e')) : Sound S env (.un .log x) e' := rLog_sound H (Or.inl rfl) h
theorem rule_sound_log10 {x e' : Expr} (h : rLog cfg x = .ok (some e')) : Sound S env (.un .log10 x) e' := rLog_sound H (Or.inr (Or.inl rfl)) h
theorem rule_sound_log2 {x e' : Expr} (h : rLog cfg x = .ok (some e')) : Sound S env (.un .log2 x) e' := rLog_sound H (Or.inr (Or.inr rfl)) h
theorem rule_sound_log1p {x e' : Expr} (h : rLog1p cfg x = .ok (some e')) : Sound S env (.un .log1p x) e' := rLog1p_sound H h
theorem rule_sound_logical_and {x y e' : Expr} (h : rLogicalAnd cfg x y = .ok (some e')) : Sound S env (.bin .logical_and x y) e' := rLogicalAnd_sound H h
theorem rule_sound_logical_or {x y e' : Expr} (h : rLogicalOr cfg x y = .ok (some e')) : Sound S env (.bin .logical_or x y) e' := rLogicalOr_sound H h
theorem rule_sound_logical_not {x e' : Expr} (h : rLogicalNot cfg x = .ok (some e')) : Sound S env (.un .logical_not x) e' := rLogicalNot_sound H h
/-- `ge gt le lt eq ne` (`_compare`): table folding, `x rop x`, distribution over `select`, operand ordering -/
theorem rule_sound_compare {r : Rel} {x y e' : Expr} (h : rCompare cfg r x y = .ok (some e')) : Sound S env (.bin r.kind x y) e' := rCompare_sound H h
/-- the folding part of `_compare`: a returned constant is the truth value of the relation -/
theorem rule_sound_compare_fold {r : Rel} {x y : Expr} {b : Bool} {va vb : EV K} (h : compareFold cfg r x y = .ok (some b))
    (hx : eval S env x = some va) (hy : eval S env y = some vb) : r.holds va vb = b := compareFold_sound H h hx hy
theorem rule_sound_select {c x y e' : Expr} (h : rSelect cfg c x y = .ok (some e')) : Sound S env (.select c x y) e' := rSelect_sound H h
/-- the dispatcher `getattr(self, expr.kind)`, `_try_rewrite`, `__call__`, the per-node fixpoint -/
theorem rule_sound_dispatch {e e' : Expr} (h : rule cfg e = .ok (some e')) : Sound S env e e' := rule_sound H h
theorem rule_sound_call {e e' : Expr} (h : call cfg e = .ok (some e')) : Sound S env e e' := call_sound H h
theorem rule_sound_modifier {fuel : Nat} {e e' : Expr} (h : modifier cfg fuel e = .ok e') : Sound S env e e' := modifier_sound H h

end rules

/-! ## the whole pass -/

/-- **rewrite_sound_real.**  Exact arithmetic (`rnd = id`, casts are the identity): for every
expression, every assignment on which it is defined, every fuel, *every* operand order `cfg.ord`,
every table judged sound: if the (strict) pass returns `e'` then `e'` is defined on the assignment
and has the same value.  The rule `upcast(downcast(x)) -> x` is allowed here (`cfg.strictUD` free). -/
theorem rewrite_sound_real (S : Sem K) (L : S.Laws) (hexact : ∀ z : K, S.rnd z = z)
    (hcast : ∀ a : K, S.up (S.down a) = a) (env : Env K) (cfg : Cfg)
    (hstrict : cfg.strict = true) (hT : TablesOK cfg.T = true) (nc : NC K)
    (hnc : S.named "smallest_subnormal" = some (.fin nc.a) ∧ S.named "smallest" = some (.fin nc.b) ∧
           S.named "eps" = some (.fin nc.c) ∧ S.named "largest" = some (.fin nc.d))
    (hnamed : ∀ t s b, cfg.work = some t → namedBits t s = some b → S.named s = S.ofExt (extOfBits t.fmt b))
    (fuel : Nat) (e e' : Expr) (v : EV K)
    (h : rewriteDeep cfg fuel e = .ok e') (hv : eval S env e = some v) : eval S env e' = some v :=
  rewrite_sound_general S L env (fun _ _ a _ => hexact a) cfg hstrict hT nc hnc hnamed (fun _ q _ _ => hexact q)
    (Or.inr fun a _ => hcast a) fuel e e' v h hv

/-- **rewrite_sound_real_generated**: `rewrite_sound_real` for the tables regenerated from the package
on this run (all rows; the former exclusion of two rows is gone with the fix 6a4e7cd). -/
theorem rewrite_sound_real_generated (S : Sem K) (L : S.Laws) (hexact : ∀ z : K, S.rnd z = z)
    (hcast : ∀ a : K, S.up (S.down a) = a) (env : Env K) (cfg : Cfg)
    (hstrict : cfg.strict = true) (hT : cfg.T = Generated.C04.tables) (nc : NC K)
    (hnc : S.named "smallest_subnormal" = some (.fin nc.a) ∧ S.named "smallest" = some (.fin nc.b) ∧
           S.named "eps" = some (.fin nc.c) ∧ S.named "largest" = some (.fin nc.d))
    (hnamed : ∀ t s b, cfg.work = some t → namedBits t s = some b → S.named s = S.ofExt (extOfBits t.fmt b))
    (fuel : Nat) (e e' : Expr) (v : EV K)
    (h : rewriteDeep cfg fuel e = .ok e') (hv : eval S env e = some v) : eval S env e' = some v :=
  rewrite_sound_real S L hexact hcast env cfg hstrict (hT ▸ tables_sound) nc hnc hnamed fuel e e' v h hv

/-- **rewrite_sound_fp_partial.**  Floating-point reading: any rounding `S.rnd` with the laws, any
regularity predicate `S.ok`; every assignment of representable values; strict mode with `fp`
(constants that take part in a fold or in a constant-constant comparison are representable in the
working format) and with the rule `upcast(downcast(x)) -> x` excluded (`strictUD`; that rule
changes values, see `upcast_downcast_witness`).  If the pass returns `e'` then `e'` is defined
(regular) wherever `e` is and has the same value (same boolean; same real number, i.e. floats
equal up to the sign of zero). -/
theorem rewrite_sound_fp_partial (S : Sem K) (L : S.Laws) (env : Env K) (henv : EnvOK S env) (cfg : Cfg)
    (hstrict : cfg.strict = true) (hud : cfg.strictUD = true) (hfp : cfg.fp = true)
    (hwork : ∀ (v : CVal) (q : Rat), repOK cfg.work v = true → v.ext? = some (.fin q) → S.rnd (q : K) = (q : K))
    (hT : TablesOK cfg.T = true) (nc : NC K)
    (hnc : S.named "smallest_subnormal" = some (.fin nc.a) ∧ S.named "smallest" = some (.fin nc.b) ∧
           S.named "eps" = some (.fin nc.c) ∧ S.named "largest" = some (.fin nc.d))
    (hnamed : ∀ t s b, cfg.work = some t → namedBits t s = some b → S.named s = S.ofExt (extOfBits t.fmt b))
    (fuel : Nat) (e e' : Expr) (v : EV K)
    (h : rewriteDeep cfg fuel e = .ok e') (hv : eval S env e = some v) : eval S env e' = some v :=
  rewrite_sound_general S L env henv cfg hstrict hT nc hnc hnamed
    (fun v q hg hx => hwork v q (by simpa [repGuard, hfp] using hg) hx) (Or.inl hud) fuel e e' v h hv

/-! ## witnesses (findings and regression witnesses; replayed on the real code by the harness) -/

/-- REGRESSION WITNESS for the OLD rows (`witnessCfg` holds the literal `badRows`; fixed in /repo by
6a4e7cd — kept so that the search recognises the defect if it returns): with those rows the model
rewrites `-abs(a) < abs(b)` to `True`, but at `a = b = 0` its value is `False` in every interpretation. -/
theorem rewrite_unsound_witness :
    rewriteDeep witnessCfg 8 witnessExpr = .ok (boolConst true) ∧
    ∀ (S : Sem K) (L : S.Laws) (env : Env K), env "a" f32 = some (.fin 0) → env "b" f32 = some (.fin 0) →
      eval S env witnessExpr = some (EV.ofBool false) ∧ eval S env (boolConst true) = some (EV.ofBool true) := by
  refine ⟨witness_rewrites_to_true, fun S L env ha hb => ⟨?_, eval_boolConst L true⟩⟩
  simp [witnessExpr, symA, symB, eval, ha, hb, Sem.un, Sem.bin, EV.abs, EV.neg, Rel.holds, EV.ofBool]

/-- `upcast(downcast(x)) -> x` is applied by the model although narrowing and re-widening changes
values (binary64 0.1 → binary32 → binary64). -/
theorem upcast_downcast_witness :
    rewriteDeep witnessCfg 8 (.un .upcast (.un .downcast (.sym "x" f64))) = .ok (.sym "x" f64) ∧
    convert binary32 binary64 (convert binary64 binary32 0x3fb999999999999a) ≠ 0x3fb999999999999a :=
  ⟨witness_upcast_downcast, witness_roundtrip_lossy⟩

/- `no_raise`, full statement (FALSE of the code as written): on every well-typed expression the pass
   returns a result.  The three witnesses below are raised by the model exactly as by the package. -/

/-- `z == 0` for complex `z`: `AssertionError` (inside `_is_nonpositive`) -/
theorem no_raise_witness_complex :
    rewriteDeep witnessCfg 8 (.bin .eq (.sym "z" c64) (.const (.int 0) (.sym "z" c64))) = .error .assertion :=
  witness_complex_raises

/-- `upcast(a) < 0` for real `a`: `NotImplementedError` (`is_complex` has no case for `upcast`) -/
theorem no_raise_witness_upcast :
    rewriteDeep witnessCfg 8 (.bin .lt (.un .upcast symA) (.const (.int 0) symA)) = .error .notImpl :=
  witness_upcast_compare_raises

/-- `sqrt(-1.0)` with a Python-float typed constant: `ValueError` (`math.sqrt`) -/
theorem no_raise_witness_sqrt :
    rewriteDeep witnessCfg 8 (.un .sqrt (.const (.flt .py 0xbff0000000000000) (.sym "x" ⟨.float, none⟩))) = .error .valueError :=
  witness_sqrt_raises

/-! ## non-vacuity -/

/-- a strict configuration on the regenerated tables, working dtype float32 -/
def exampleCfg : Cfg :=
  { T := Generated.C04.tables, ord := fun _ _ => some false, strict := true, strictUD := true, work := some .f32, fp := true }

/-- `select(abs(a) < 0, b, (b * 1 + 0) - (-(-largest)))` with float32 symbols -/
def exampleExpr : Expr :=
  .select (.bin .lt (.un .absolute symA) (.const (.int 0) symA)) symB
    (.bin .subtract (.bin .add (.bin .multiply symB (.const (.int 1) symB)) (.const (.flt .py 0) symB))
      (.un .negative (.un .negative (.const (.name "largest") symA))))

/-- the strict model rewrites the example (to `b - largest`), so the hypotheses of the theorems are met ... -/
theorem example_rewrites : ∃ e', rewriteDeep exampleCfg 16 exampleExpr = .ok e' ∧ e' ≠ exampleExpr := by
  refine ⟨.bin .subtract symB (.const (.flt .f32 0x7f7fffff) symA), by decide +kernel, by decide⟩

/-- ... by the exact real interpretation with `Real.sqrt` and float32's named constants: -/
example (env : Env ℝ) (e' : Expr) (v : EV ℝ) (h : rewriteDeep exampleCfg 16 exampleExpr = .ok e')
    (hv : eval (realSem .f32) env exampleExpr = some v) : eval (realSem .f32) env e' = some v :=
  rewrite_sound_real_generated (realSem .f32) realSem_laws (fun _ => rfl) (fun _ => rfl) env exampleCfg rfl rfl nc32
    realSem_nc (fun t s b hw hb => realSem_named t s b .f32 hw hb) 16 _ _ v h hv

/-- the same instance satisfies the hypotheses of the floating-point form (`rnd = id` is a rounding) -/
example (env : Env ℝ) (e' : Expr) (v : EV ℝ) (h : rewriteDeep exampleCfg 16 exampleExpr = .ok e')
    (hv : eval (realSem .f32) env exampleExpr = some v) : eval (realSem .f32) env e' = some v :=
  rewrite_sound_fp_partial (realSem .f32) realSem_laws env (fun _ _ _ _ => rfl) exampleCfg rfl rfl rfl (fun _ _ _ _ => rfl)
    tables_sound nc32 realSem_nc (fun t s b hw hb => realSem_named t s b .f32 hw hb) 16 _ _ v h hv

/-- inference on concrete expressions: `-abs(a)` is nonpositive, `1 * sqrt(abs(a))` is nonnegative -/
example : isNonpos (.un .negative (.un .absolute symA)) = .ok (some true) := by decide
example : isNonneg (.bin .multiply (.const (.int 1) symA) (.un .sqrt (.un .absolute symA))) = .ok (some true) := by decide

end FAVerif.Props.C04
