/-
C01 — complex `square` on BIT PATTERNS with no assumption about the run: the verified overflow analyser accepts the regenerated
fully expanded programs for parts up to 2^62 (complex64) / 2^510 (complex128); with the forward refinement theorem the run
exists for all such finite parts, no node overflows, and the two outputs decode to the values `square_evalQ` computes with
round-to-nearest-even — so the accuracy bounds of `square_accuracy` hold of the bits.
-/
import FAVerif.Props.C01
import FAVerif.Props.C01AbsTotal
import FAVerif.Lemmas.OverflowSound

namespace FAVerif.Props.C01
open FAVerif.IR FAVerif.FP FAVerif.FPQ FAVerif.Gen.C01 FAVerif.Refine FAVerif.SoftRound FAVerif.Ovf FAVerif.EFT

/-- the checks, evaluated by the kernel on the regenerated programs -/
theorem square_overflow_checks :
    overflowFree binary32 [62, 62] square_c64.nodes = true ∧ overflowFree binary64 [510, 510] square_c128.nodes = true := by decide +kernel

theorem square_kinds :
    kindsOfS square_c64.nodes [] = some [false, true, false, false, false, true, true, false, false, false, false, false, false, false, false] ∧
    kindsOfS square_c128.nodes [] = some [false, true, false, false, false, true, true, false, false, false, false, false, false, false, false] := by
  decide +kernel

/-- **complex `square` on bit patterns, unconditional** (complex64): for ALL finite parts with |x|, |y| ≤ 2^62 the run exists, no
operation overflows, the outputs are finite and decode to
  re = 0 if |x| = |y| else RNE(RNE(x − y)·RNE(y + x)),   im = RNE(2·RNE(y·x)). -/
theorem square_total_c64 (lib : Libm) (x y : Nat) (qx qy : ℚ) (hx : isFiniteBits binary32 x = true) (hy : isFiniteBits binary32 y = true)
    (vx : toQ binary32 x = some qx) (vy : toQ binary32 y = some qy) (bx : |qx| ≤ 2 ^ (62 : ℤ)) (bY : |qy| ≤ 2 ^ (62 : ℤ)) :
    ∃ re im : Nat, square_c64.eval lib [x, y] = some [re, im] ∧ isFiniteBits binary32 re = true ∧ isFiniteBits binary32 im = true ∧
      toQ binary32 re = some (if (if qx < 0 then -qx else qx) = (if qy < 0 then -qy else qy) then 0
        else rne (qf binary32 (by decide)) (rne (qf binary32 (by decide)) (qx - qy) * rne (qf binary32 (by decide)) (qy + qx))) ∧
      toQ binary32 im = some (rne (qf binary32 (by decide)) (2 * rne (qf binary32 (by decide)) (qy * qx))) := by
  have hf : WF binary32 := ⟨by decide, by decide⟩
  have hq := (square_evalQ (rne (qf binary32 hf.hp)) qx qy).1
  exact total2 square_c64 hf Lmax_ge4.1 _ square_kinds.1
    (by intro o ho; have : o = 11 ∨ o = 14 := by simpa [square_c64] using ho
        rcases this with rfl | rfl <;> decide)
    [62, 62] square_overflow_checks.1 lib [x, y] [qx, qy] (insRel2 hx hy vx vy) (hE_two bx bY) _ _ hq

theorem square_total_c128 (lib : Libm) (x y : Nat) (qx qy : ℚ) (hx : isFiniteBits binary64 x = true) (hy : isFiniteBits binary64 y = true)
    (vx : toQ binary64 x = some qx) (vy : toQ binary64 y = some qy) (bx : |qx| ≤ 2 ^ (510 : ℤ)) (bY : |qy| ≤ 2 ^ (510 : ℤ)) :
    ∃ re im : Nat, square_c128.eval lib [x, y] = some [re, im] ∧ isFiniteBits binary64 re = true ∧ isFiniteBits binary64 im = true ∧
      toQ binary64 re = some (if (if qx < 0 then -qx else qx) = (if qy < 0 then -qy else qy) then 0
        else rne (qf binary64 (by decide)) (rne (qf binary64 (by decide)) (qx - qy) * rne (qf binary64 (by decide)) (qy + qx))) ∧
      toQ binary64 im = some (rne (qf binary64 (by decide)) (2 * rne (qf binary64 (by decide)) (qy * qx))) := by
  have hf : WF binary64 := ⟨by decide, by decide⟩
  have hq := (square_evalQ (rne (qf binary64 hf.hp)) qx qy).2
  exact total2 square_c128 hf Lmax_ge4.2 _ square_kinds.2
    (by intro o ho; have : o = 11 ∨ o = 14 := by simpa [square_c128] using ho
        rcases this with rfl | rfl <;> decide)
    [510, 510] square_overflow_checks.2 lib [x, y] [qx, qy] (insRel2 hx hy vx vy) (hE_two bx bY) _ _ hq

/-- **accuracy of complex `square` on bit patterns** (complex64): with the run of `square_total_c64`, the decoded real part errs by
at most ((1+u)³ − 1)·|x² − y²| when x − y, y + x and the product of their roundings are normal, exactly 0 when |x| = |y|; the
imaginary part by at most u·|2xy| when x·y is normal.  u = 2^−24. -/
theorem square_bits_accuracy_c64 (lib : Libm) (x y : Nat) (qx qy : ℚ) (hx : isFiniteBits binary32 x = true) (hy : isFiniteBits binary32 y = true)
    (vx : toQ binary32 x = some qx) (vy : toQ binary32 y = some qy) (bx : |qx| ≤ 2 ^ (62 : ℤ)) (bY : |qy| ≤ 2 ^ (62 : ℤ)) :
    ∃ (re im : Nat) (qre qim : ℚ), square_c64.eval lib [x, y] = some [re, im] ∧ toQ binary32 re = some qre ∧ toQ binary32 im = some qim ∧
      (|qx| = |qy| → qre = qx ^ 2 - qy ^ 2) ∧
      (|qx| ≠ |qy| → 2 ^ (-126 : ℤ) ≤ |qx - qy| → 2 ^ (-126 : ℤ) ≤ |qy + qx| →
        2 ^ (-126 : ℤ) ≤ |rne (qf binary32 (by decide)) (qx - qy) * rne (qf binary32 (by decide)) (qy + qx)| →
        |qre - (qx ^ 2 - qy ^ 2)| ≤ ((1 + (1 : ℚ) / 2 ^ 24) ^ 3 - 1) * |qx ^ 2 - qy ^ 2|) ∧
      (2 ^ (-126 : ℤ) ≤ |qy * qx| → |qim - 2 * qx * qy| ≤ (1 : ℚ) / 2 ^ 24 * |2 * qx * qy|) := by
  have hf : WF binary32 := ⟨by decide, by decide⟩
  obtain ⟨re, im, h1, h2, h3, h4, h5⟩ := square_total_c64 lib x y qx qy hx hy vx vy bx bY
  have e1 : ∀ t : ℚ, (if t < 0 then -t else t) = |t| := by
    intro t; split <;> [rw [abs_of_neg ‹_›]; rw [abs_of_nonneg (not_lt.mp ‹_›)]]
  have acc := square_accuracy (qf binary32 hf.hp) (rne (qf binary32 hf.hp)) (isRN_rne _) qx qy
  simp only [e1] at acc h4
  obtain ⟨a1, a2, a3⟩ := acc
  have hu : uro (qf binary32 hf.hp) = (1 : ℚ) / 2 ^ 24 := rfl
  have hem : (2 : ℚ) ^ ((qf binary32 hf.hp).emin + ((qf binary32 hf.hp).p : ℤ) - 1) = 2 ^ (-126 : ℤ) := by
    show (2 : ℚ) ^ (binary32.emin + (binary32.p : ℤ) - 1) = _
    have : binary32.emin + (binary32.p : ℤ) - 1 = -126 := by decide +kernel
    rw [this]
  rw [hu, hem] at a2 a3
  refine ⟨re, im, _, _, h1, h4, h5, a1, a2, fun h => a3 h ?_⟩
  -- 2·RNE(y·x) is representable: doubling never leaves the (exponent-unbounded) format
  obtain ⟨m, e, h1', h2', h3'⟩ := (isRN_rne (qf binary32 hf.hp)).rep (qy * qx)
  exact ⟨m, e + 1, by rw [h1', zpow_add₀ (by norm_num : (2 : ℚ) ≠ 0)]; ring, h2', by omega⟩

/-- **accuracy of complex `square` on bit patterns** (complex128): with the run of `square_total_c128`, the decoded real part errs by
at most ((1+u)³ − 1)·|x² − y²| when x − y, y + x and the product of their roundings are normal, exactly 0 when |x| = |y|; the
imaginary part by at most u·|2xy| when x·y is normal.  u = 2^−53. -/
theorem square_bits_accuracy_c128 (lib : Libm) (x y : Nat) (qx qy : ℚ) (hx : isFiniteBits binary64 x = true) (hy : isFiniteBits binary64 y = true)
    (vx : toQ binary64 x = some qx) (vy : toQ binary64 y = some qy) (bx : |qx| ≤ 2 ^ (510 : ℤ)) (bY : |qy| ≤ 2 ^ (510 : ℤ)) :
    ∃ (re im : Nat) (qre qim : ℚ), square_c128.eval lib [x, y] = some [re, im] ∧ toQ binary64 re = some qre ∧ toQ binary64 im = some qim ∧
      (|qx| = |qy| → qre = qx ^ 2 - qy ^ 2) ∧
      (|qx| ≠ |qy| → 2 ^ (-1022 : ℤ) ≤ |qx - qy| → 2 ^ (-1022 : ℤ) ≤ |qy + qx| →
        2 ^ (-1022 : ℤ) ≤ |rne (qf binary64 (by decide)) (qx - qy) * rne (qf binary64 (by decide)) (qy + qx)| →
        |qre - (qx ^ 2 - qy ^ 2)| ≤ ((1 + (1 : ℚ) / 2 ^ 53) ^ 3 - 1) * |qx ^ 2 - qy ^ 2|) ∧
      (2 ^ (-1022 : ℤ) ≤ |qy * qx| → |qim - 2 * qx * qy| ≤ (1 : ℚ) / 2 ^ 53 * |2 * qx * qy|) := by
  have hf : WF binary64 := ⟨by decide, by decide⟩
  obtain ⟨re, im, h1, h2, h3, h4, h5⟩ := square_total_c128 lib x y qx qy hx hy vx vy bx bY
  have e1 : ∀ t : ℚ, (if t < 0 then -t else t) = |t| := by
    intro t; split <;> [rw [abs_of_neg ‹_›]; rw [abs_of_nonneg (not_lt.mp ‹_›)]]
  have acc := square_accuracy (qf binary64 hf.hp) (rne (qf binary64 hf.hp)) (isRN_rne _) qx qy
  simp only [e1] at acc h4
  obtain ⟨a1, a2, a3⟩ := acc
  have hu : uro (qf binary64 hf.hp) = (1 : ℚ) / 2 ^ 53 := rfl
  have hem : (2 : ℚ) ^ ((qf binary64 hf.hp).emin + ((qf binary64 hf.hp).p : ℤ) - 1) = 2 ^ (-1022 : ℤ) := by
    show (2 : ℚ) ^ (binary64.emin + (binary64.p : ℤ) - 1) = _
    have : binary64.emin + (binary64.p : ℤ) - 1 = -1022 := by decide +kernel
    rw [this]
  rw [hu, hem] at a2 a3
  refine ⟨re, im, _, _, h1, h4, h5, a1, a2, fun h => a3 h ?_⟩
  -- 2·RNE(y·x) is representable: doubling never leaves the (exponent-unbounded) format
  obtain ⟨m, e, h1', h2', h3'⟩ := (isRN_rne (qf binary64 hf.hp)).rep (qy * qx)
  exact ⟨m, e + 1, by rw [h1', zpow_add₀ (by norm_num : (2 : ℚ) ≠ 0)]; ring, h2', by omega⟩

end FAVerif.Props.C01
