/-
C12 — products of expansions.  `apmath.multiply` / `apmath.square` (model: Models/Renorm.lean `mulRaw`, `squareRaw` +
renormalisation; tied to the real code by bit-level correspondence each run, with the REGENERATED traced `two_prod` as the
error-free product) equal the EXACT product whenever no size limit truncates the result — for every pair of lengths, every
precision, any round-to-nearest — given an error-free `two_prod` on the operands (Dekker's product: proved exact on its
documented domain in C10) and absent overflow.  Hence the property's "differs from the exact product by less than one unit
in the last place of its leading term" holds with error 0 in that case; the truncated case is decided by search.
-/
import FAVerif.Lemmas.RenormProd

namespace FAVerif.Props.C12
open FAVerif.FPQ FAVerif.Renorm

/-- **multiply**: eager and functional results have exactly the sum seq1.sum · seq2.sum -/
theorem multiply_exact (q : QFmt) (r : ℚ → ℚ) (hr : IsRN q r) (D : ℚ → ℚ → Prop) (tp : ℚ → ℚ → ℚ × ℚ) (htp : TwoProdOK q D tp)
    (seq1 seq2 : List ℚ) (h1 : ∀ a ∈ seq1, Rep q a) (h2 : ∀ a ∈ seq2, Rep q a) (hD : ∀ a ∈ seq1, ∀ b ∈ seq2, D a b)
    (hne1 : seq1 ≠ []) (hne2 : seq2 ≠ []) :
    (mulRaw (arithQ r) tp false seq1 seq2).sum = seq1.sum * seq2.sum ∧
    (renormEager (arithQ r) false (mulRaw (arithQ r) tp false seq1 seq2)).sum = seq1.sum * seq2.sum ∧
    (renormFunctional (arithQ r) false (mulRaw (arithQ r) tp false seq1 seq2)).sum = seq1.sum * seq2.sum := by
  obtain ⟨hs, hrep⟩ := mulRaw_sum hr tp htp seq1 seq2 h1 h2 hD hne1 hne2
  exact ⟨hs, by rw [(renormEager_sum hr _ hrep).1, hs], by rw [renormFunctional_sum hr _ hrep, hs]⟩

/-- **square**: eager and functional results have exactly the sum (seq.sum)² -/
theorem square_exact (q : QFmt) (r : ℚ → ℚ) (hr : IsRN q r) (D : ℚ → ℚ → Prop) (tp : ℚ → ℚ → ℚ × ℚ) (htp : TwoProdOK q D tp)
    (seq : List ℚ) (h1 : ∀ a ∈ seq, Rep q a) (hD : ∀ a ∈ seq, ∀ b ∈ seq, D a b) (hne : seq ≠ []) :
    (squareRaw (arithQ r) tp false seq).sum = seq.sum ^ 2 ∧
    (renormEager (arithQ r) false (squareRaw (arithQ r) tp false seq)).sum = seq.sum ^ 2 ∧
    (renormFunctional (arithQ r) false (squareRaw (arithQ r) tp false seq)).sum = seq.sum ^ 2 := by
  obtain ⟨hs, hrep⟩ := squareRaw_sum hr tp htp seq h1 hD hne
  exact ⟨hs, by rw [(renormEager_sum hr _ hrep).1, hs], by rw [renormFunctional_sum hr _ hrep, hs]⟩

/-- non-vacuity: an error-free product exists on the domain "the exact product is representable" (there `tp a b = (a·b, 0)`
— what Dekker's algorithm returns on such operands), and the hypotheses of `multiply_exact` are met by [1, 1/4] · [3, 1/8]. -/
example : ∃ (q : QFmt) (D : ℚ → ℚ → Prop) (tp : ℚ → ℚ → ℚ × ℚ), TwoProdOK q D tp ∧
    (∀ a ∈ [(1 : ℚ), 1 / 4], ∀ b ∈ [(3 : ℚ), 1 / 8], D a b) := by
  refine ⟨⟨24, -149, by norm_num⟩, fun a b => Rep ⟨24, -149, by norm_num⟩ (a * b), fun a b => (a * b, 0),
    ⟨fun a b _ _ _ => by simp, fun a b _ _ h => h, fun a b _ _ _ => ⟨0, -149, by simp, by norm_num, le_refl _⟩⟩, ?_⟩
  intro a ha b hb
  simp only [List.mem_cons, List.mem_nil_iff, or_false] at ha hb
  rcases ha with rfl | rfl <;> rcases hb with rfl | rfl
  · exact ⟨3, 0, by norm_num, by norm_num, by norm_num⟩
  · exact ⟨1, -3, by norm_num, by norm_num, by norm_num⟩
  · exact ⟨3, -2, by norm_num, by norm_num, by norm_num⟩
  · exact ⟨1, -5, by norm_num, by norm_num, by norm_num⟩

/-- the SPECIFICATION of `two_prod` — what Dekker's product returns on its domain (C10: `dekker_product`,
`dekker_product_scaled`: evalQ = [RN(xy), xy − RN(xy)]) -/
def twoProdSpec (r : ℚ → ℚ) (a b : ℚ) : ℚ × ℚ := (r (a * b), a * b - r (a * b))

/-- it is an error-free product on the domain "the rounding error of a·b is representable" (no underflow of the error term) -/
theorem twoProdSpec_ok (q : QFmt) (r : ℚ → ℚ) (hr : IsRN q r) :
    TwoProdOK q (fun a b => Rep q (a * b - r (a * b))) (twoProdSpec r) :=
  ⟨fun a b _ _ _ => by simp [twoProdSpec], fun a b _ _ _ => hr.rep _, fun a b _ _ h => h⟩

/-- **products with Dekker's two_prod**: `multiply` and `square` of expansions are exact whenever the rounding error of every
pairwise product is representable (Dekker's domain) and nothing is truncated -/
theorem multiply_exact_dekker (q : QFmt) (r : ℚ → ℚ) (hr : IsRN q r) (seq1 seq2 : List ℚ) (h1 : ∀ a ∈ seq1, Rep q a) (h2 : ∀ a ∈ seq2, Rep q a)
    (hD : ∀ a ∈ seq1, ∀ b ∈ seq2, Rep q (a * b - r (a * b))) (hne1 : seq1 ≠ []) (hne2 : seq2 ≠ []) :
    (renormEager (arithQ r) false (mulRaw (arithQ r) (twoProdSpec r) false seq1 seq2)).sum = seq1.sum * seq2.sum ∧
    (renormFunctional (arithQ r) false (mulRaw (arithQ r) (twoProdSpec r) false seq1 seq2)).sum = seq1.sum * seq2.sum :=
  (multiply_exact q r hr _ _ (twoProdSpec_ok q r hr) seq1 seq2 h1 h2 hD hne1 hne2).2

theorem square_exact_dekker (q : QFmt) (r : ℚ → ℚ) (hr : IsRN q r) (seq : List ℚ) (h1 : ∀ a ∈ seq, Rep q a)
    (hD : ∀ a ∈ seq, ∀ b ∈ seq, Rep q (a * b - r (a * b))) (hne : seq ≠ []) :
    (renormEager (arithQ r) false (squareRaw (arithQ r) (twoProdSpec r) false seq)).sum = seq.sum ^ 2 ∧
    (renormFunctional (arithQ r) false (squareRaw (arithQ r) (twoProdSpec r) false seq)).sum = seq.sum ^ 2 :=
  (square_exact q r hr _ _ (twoProdSpec_ok q r hr) seq h1 hD hne).2

end FAVerif.Props.C12
