import FAVerif.Models.C09Audited
import FAVerif.Generated.C09Census
namespace FAVerif.Props.C09
open FAVerif.Census

theorem census_audited : FAVerif.Gen.C09Census.entries = C09.audited.map (·.entry) := by decide +kernel

theorem audited_admissible : ∀ a ∈ C09.audited, admissible a.entry.cat a.disp = true := by decide +kernel

end FAVerif.Props.C09
