/-
C09 — code generation is deterministic and history independent.
Only property statements, one-line proofs (lemmas are in Lemmas/RefNames.lean) and non-vacuity
examples live here.

What these theorems are about: `Models/RefNames.lean`, a port of the reference-name allocator
(`make_symbol`, `Context.default_like`, `_register_expression`, `Expr.reference`, `Context.__call__`,
`Context.call`, `make_ref`, `_register_reference`) in which the state CPython keeps outside the
context object is an explicit `Ambient` (the `_tmp` counter, the definition registry, the warn
cache, other contexts' counters, and `seedPerm`: a permutation applied on every read of a hash-keyed
container).  The list of hidden-state reads in the SOURCE is tied to the model by `census_audited`.

NOT a theorem (decided by differential runs across processes and hash seeds, see fav/props/c09.py):
that CPython exposes no channel other than those of the census.
-/
import FAVerif.Lemmas.RefNames
import FAVerif.Models.C09Audited
import FAVerif.Generated.C09Census

namespace FAVerif.Props.C09
open FAVerif.RefNames FAVerif.Census

/-- **census_audited** (finite, kernel `decide`): the census of nondeterminism / hidden-state sources
regenerated from the current source on this run — every `id`, `hash`, iteration over a set,
`os`/`time`/`random`/`uuid`/`tempfile` use, module-level or class-level mutable, mutable default,
`global`, in-function mutation of such state, cache decorator, `__hash__`/`__eq__`/ordering dunder,
key-ordering comparison in expr.py, context.py, rewrite.py, algorithms.py, typesystem.py, targets/*.py
(and the utils.py functions they use) — is exactly the hand-audited list, entry by entry. -/
theorem census_audited : FAVerif.Gen.C09Census.entries = C09.audited.map (·.entry) := by decide +kernel

/-- **audited_admissible** (finite, kernel `decide`): every audited entry carries a disposition that is
admissible for its category; `id(` references, `global` statements and cache decorators have no admissible
disposition at all, an unsorted set iteration only as a listed finding. -/
theorem audited_admissible : ∀ a ∈ C09.audited, admissible a.entry.cat a.disp = true := by decide +kernel

/-- **no_listed_findings** (finite, kernel `decide`): no audited entry is a `listedFinding`, i.e. every hidden-state /
nondeterminism source the census finds in the current source is accounted for by the model or by a reasoned
disposition.  (Until /repo commit 05234cd the unsorted set iteration in `Context.dtype_index.find_dtype_index` was
listed here as a finding.) -/
theorem no_listed_findings : ∀ a ∈ C09.audited, a.disp ≠ .listedFinding := by decide +kernel

/-- **seed_irrelevant**: two ambients with the same `_tmp` counter — whatever their seed permutations,
registries, warn caches, other contexts' counters — drive every request from every context state to
the same state and the same outputs (all of them, unprinted names included).  Hash-keyed containers
are consumed through lookups only. -/
theorem seed_irrelevant (req : List Op) (amb₁ amb₂ : Ambient) (st : State)
    (h : amb₁.tmpCounter = amb₂.tmpCounter) :
    (run amb₁ st req).2 = (run amb₂ st req).2 :=
  (run_seed_irrel req amb₁ amb₂ st h).1

/-- **tmp_unprinted**: one `expr.ref` whose `make_ref` recursion does not reach an anonymous symbol
(`refSafe`, a condition on kinds / operands / which expressions have a `reference_name` — not on any
name or counter) returns the same name in any two context states that differ only in the numbers
carried by anonymous symbols, under any seed permutations and any rendering of construction counters.
(On the real pipeline the harness checks that every name the model flags as NOT safe is absent from
the emitted text.) -/
theorem tmp_unprinted (ks : Nat → String) (p q : SeedPerm) (st₁ st₂ : State) (h : st₁.erase = st₂.erase)
    (i : Nat) (hs : refSafe st₁ i = true) :
    (makeRef ks p (fuelOf st₁) st₁ i).2 = (makeRef ks q (fuelOf st₂) st₂ i).2 :=
  makeRef_tmp_unprinted ks p q h i hs

/- Full statement (false of the code as written, see `noninterference_needs_guard`):
     ∀ req amb₁ amb₂, names (run amb₁ State.fresh req).2.2 = names (run amb₂ State.fresh req).2.2 -/
/-- **noninterference** (= `noninterference_partial`; the extra hypothesis is exactly `safeRun`): for a
fresh context and ANY request (any sequence of symbol / default-like / constant / node constructions,
counter bumps, `reference`, `Context.__call__` naming, nested `Context.call`s, emitted and unprinted
`ref`s) whose EMITTED refs do not reach an anonymous symbol, the emitted names are the same under any
two ambients: any `_tmp` counters, any seed permutations, any registries / caches / other contexts.
The guard does not depend on the ambient either. -/
theorem noninterference (req : List Op) (amb₁ amb₂ : Ambient) (h : safeRun amb₁ State.fresh req = true) :
    names (run amb₁ State.fresh req).2.2 = names (run amb₂ State.fresh req).2.2 ∧
    safeRun amb₂ State.fresh req = true :=
  ⟨run_sim req amb₁ amb₂ State.fresh State.fresh rfl h,
   (safeRun_sim req amb₁ amb₂ State.fresh State.fresh rfl).symm.trans h⟩

/-- **noninterference_needs_guard** (negation witness of the unguarded statement, `decide`; replayed on
the real code every run: `Context(default_constant_type=…).default_like.ref`): emitting the reference
of the default-like symbol leaks the process-global counter. -/
theorem noninterference_needs_guard :
    names (run { tmpCounter := 0 } State.fresh [.defaultLike "float", .ref 0 true]).2.2 = ["symbol__tmp0"] ∧
    names (run { tmpCounter := 7 } State.fresh [.defaultLike "float", .ref 0 true]).2.2 = ["symbol__tmp7"] ∧
    safeRun {} State.fresh [.defaultLike "float", .ref 0 true] = false := by
  decide +kernel

/-- **order_equivariant**: relabel the construction counters (`intkey`s) of ANY context state by ANY
function `ρ` (in particular by an order-preserving one: the same request issued after other expressions
were constructed).  Then every sequence of `ref`s returns exactly the names of the original state with the
counter tokens rendered through `ρ` — the registry, the cached references, every registered name, every
suffix number are identical — and the resulting state is the relabelled original result. -/
theorem order_equivariant (ρ : Nat → Nat) (ks : Nat → String) (p : SeedPerm) (st : State) (ids : List Nat) :
    runRefs ks p (st.relabel ρ) ids =
      ((runRefs (ks ∘ ρ) p st ids).1.relabel ρ, (runRefs (ks ∘ ρ) p st ids).2) :=
  runRefs_relabel ρ ks p ids st

/-- **key_order_equivariant**: the decision `if x.key > y.key: swap` that orders commutative operands
(rewrite.py `logical_and`, `logical_or`, `_compare`) — Python's lexicographic comparison of keys made of
strings and construction counters — is invariant under every strictly increasing relabelling of the
counters: absolute counter values do not matter, only their order. -/
theorem key_order_equivariant (ρ : Nat → Nat) (hρ : ∀ a b, a < b → ρ a < ρ b) (kx ky : List KeyOrder.Tok) :
    KeyOrder.swapNeeded (KeyOrder.relabel ρ kx) (KeyOrder.relabel ρ ky) = KeyOrder.swapNeeded kx ky := by
  unfold KeyOrder.swapNeeded; rw [KeyOrder.cmp_relabel ρ hρ]

/-- **retrace_idempotent**: in ANY context state (hence after any history), asking for the same
references again returns the same names and leaves the registry and all props untouched: the second
pass is answered from the cached `props["ref"]` entries.  Stated for the printer's `ref` phase, both on
`runRefs` and on `run`. -/
theorem retrace_idempotent (amb : Ambient) (st : State) (ids : List Nat) :
    let refs := ids.map (fun i => Op.ref i true)
    (run amb (run amb st refs).2.1 refs).2 = (run amb st refs).2 ∧
    runRefs natStr amb.seedPerm (runRefs natStr amb.seedPerm st ids).1 ids =
      ((runRefs natStr amb.seedPerm st ids).1, (runRefs natStr amb.seedPerm st ids).2) := by
  have h := runRefs_idem natStr amb.seedPerm st ids
  refine ⟨?_, h⟩
  simp only [run_refs]
  rw [h]

/-- **rebuild_hits**: re-issuing the construction operations of a request (symbols, the default-like
symbol, constants, nodes) in the resulting context — under any ambient — returns the same expression ids
and changes nothing: hash-consing hits, the cached default-like symbol is reused, the `_tmp` counter is
not read again. -/
theorem rebuild_hits (amb amb' : Ambient) (st : State) (build : List Op) (hb : ∀ op ∈ build, isBuild op = true) :
    (run amb' (run amb st build).2.1 build).2 = ((run amb st build).2.1, (run amb st build).2.2) :=
  run_again amb' build amb st _ hb (Pre.refl _)

/-- **consumers_perm_invariant**: the ways the audited code consumes hash-ordered containers
(`sorted(s)`, `len(s)`, `k in s`) do not depend on the iteration order. -/
theorem consumers_perm_invariant {l₁ l₂ : List Nat} (h : l₁.Perm l₂) (k : Nat) :
    Consumers.sorted l₁ = Consumers.sorted l₂ ∧ Consumers.len l₁ = Consumers.len l₂ ∧
    Consumers.mem k l₁ = Consumers.mem k l₂ :=
  ⟨Consumers.sorted_perm_invariant h, Consumers.len_perm_invariant h, Consumers.mem_perm_invariant h k⟩

/-! ### Non-vacuity: concrete requests meeting the hypotheses -/

/-- A request with a name collision at top level (`r` → `_r_0_`), a nested call whose local also wants
`r` (→ `__hypot_1_r_0_`: origin prefix, then candidate 0 WITHOUT a lookup), an unprinted reference to the
anonymous default-like symbol, under a non-trivial ambient: the guard holds and the emitted names are
those the real code produces (this very history is part of the correspondence corpus). -/
def demo : List Op :=
  [.symbol "x" "float", .symbol "y" "float", .node "add" [0, 1], .name 0 "x", .name 1 "y", .ref 2 true,
   .name 2 "r", .ref 2 true, .node "multiply" [2, 2], .name 3 "r", .ref 3 true,
   .call "hypot", .node "sqrt" [3], .autoname 4 "r", .ret, .ref 4 true,
   .defaultLike "float", .ref 5 false, .node "negative" [5], .ref 6 true]

example :
    safeRun { tmpCounter := 3, seedPerm := SeedPerm.rev } State.fresh demo = true ∧
    names (run { tmpCounter := 3, seedPerm := SeedPerm.rev } State.fresh demo).2.2 =
      ["add_x_y", "r", "_r_0_", "__hypot_1_r_0_", "negative_6"] := by decide +kernel

example : (∀ op ∈ demo.filter isBuild, isBuild op = true) ∧ (demo.filter isBuild).length = 7 := by decide +kernel

/-- `relabel` moves a generated counter name and nothing else. -/
example :
    (runRefs natStr SeedPerm.id ((run {} State.fresh demo).2.1.relabel (· * 10 + 5)) [6, 4, 3]).2 =
      ["negative_65", "__hypot_1_r_0_", "_r_0_"] := by decide +kernel

example : KeyOrder.swapNeeded [.s "add", .s "symbol", .n 7, .s "symbol", .n 2] [.s "add", .s "symbol", .n 3, .s "symbol", .n 9] = true ∧
    KeyOrder.swapNeeded [.s "add", .s "symbol", .n 70, .s "symbol", .n 20] [.s "add", .s "symbol", .n 30, .s "symbol", .n 90] = true := by
  decide +kernel

/-- Side finding (not a C09 clause; replayed on the real code): inside a `Context.call` two DIFFERENT
expressions that both carry the reference name `r`, while `r` is taken at top level, receive the SAME
name `__f_1_r_0_` — the origin-prefixed candidate is free, so the suffix loop is skipped and candidate 0
is taken without looking it up. -/
theorem suffix_clash_witness :
    names (run {} State.fresh
      [.symbol "x" "float", .symbol "y" "float", .node "add" [0, 1], .name 2 "r", .ref 2 true,
       .call "f", .node "multiply" [0, 1], .name 3 "r", .node "subtract" [0, 1], .name 4 "r", .ret,
       .ref 3 true, .ref 4 true]).2.2 = ["r", "__f_1_r_0_", "__f_1_r_0_"] := by decide +kernel

end FAVerif.Props.C09
