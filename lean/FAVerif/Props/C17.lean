/-
C17 — argument reduction (exponential type).  Statements about the programs regenerated from
/repo's current `argument_reduction_exponent`; the reconstruction bounds and the trigonometric
reduction are decided by search (fav/props/c17.py).
-/
import FAVerif.Generated.C17

namespace FAVerif.Props.C17
open FAVerif.IR FAVerif.FP FAVerif.Gen.C17

abbrev fadd := FAVerif.FP.add
abbrev fsub := FAVerif.FP.sub
abbrev fmul := FAVerif.FP.mul
abbrev fneg := FAVerif.FP.neg

/-- documented constants, as bit patterns: (ln2inv, 1/2, ln2hi, ln2lo) per format -/
def consts16 : Nat × Nat × Nat × Nat := (15813, 14336, 14720, 7624)           -- 1.4424, .5, 0.6875, 0.005646
def consts32 : Nat × Nat × Nat × Nat := (1069066811, 1056964608, 1060205056, 901758606)   -- …, 0.69314575, 1.4286068e-06
def consts64 : Nat × Nat × Nat × Nat :=
  (4609176140021203710, 4602678819172646912, 4604418534311723008, 4461442080421002358)     -- …, 0.6931471803691238, 1.9082149292705877e-10

/-- The documented formula, on bit patterns, with `floor` supplied by the oracle `lib`. -/
def spec (f : Fmt) (c : Nat × Nat × Nat × Nat) (lib : Libm) (x : Nat) : Option (List Nat) :=
  match lib "floor" [fadd f (fmul f c.1 x) c.2.1] with
  | some k => some [k, fsub f x (fmul f k c.2.2.1), fmul f (fneg f k) c.2.2.2]
  | none => none

/-- Every regenerated program is well formed. -/
theorem generated_wf : ∀ p ∈ FAVerif.Gen.C17.all, p.2.wf = true := by decide +kernel

/-- **Shape**: for every input pattern and every `floor` oracle, the program traced from the
current source computes exactly  k = floor(x·ln2inv + ½),  r = x − k·ln2hi,  c = (−k)·ln2lo
with the documented double-word constants of its format (the dtype-dispatch `select`s on
`largest` fold to the right branch). -/
theorem exp_shape (lib : Libm) (x : Nat) :
    argred_exp_f16.eval lib [x] = spec binary16 consts16 lib x ∧
    argred_exp_f32.eval lib [x] = spec binary32 consts32 lib x ∧
    argred_exp_f64.eval lib [x] = spec binary64 consts64 lib x := by
  refine ⟨?_, ?_, ?_⟩
  · have h1 : FAVerif.FP.gt { p := 11, ew := 5 } 31743 31744 = false := by decide +kernel
    simp only [spec, consts16, fadd, fsub, fmul, fneg]
    simp [Prog.eval, argred_exp_f16, evalNodes, evalNode, h1, b2n, binary16]
    cases lib "floor" [FAVerif.FP.add { p := 11, ew := 5 } (FAVerif.FP.mul { p := 11, ew := 5 } 15813 x) 14336] <;> simp
  · have h1 : FAVerif.FP.gt { p := 24, ew := 8 } 2139095039 2139095040 = false := by decide +kernel
    have h2 : FAVerif.FP.gt { p := 24, ew := 8 } 2139095039 2123789977 = true := by decide +kernel
    simp only [spec, consts32, fadd, fsub, fmul, fneg]
    simp [Prog.eval, argred_exp_f32, evalNodes, evalNode, h1, h2, b2n, binary32]
    cases lib "floor" [FAVerif.FP.add { p := 24, ew := 8 } (FAVerif.FP.mul { p := 24, ew := 8 } 1069066811 x) 1056964608] <;> simp
  · have h1 : FAVerif.FP.gt { p := 53, ew := 11 } 9218868437227405311 9214871658872686752 = true := by decide +kernel
    simp only [spec, consts64, fadd, fsub, fmul, fneg]
    simp [Prog.eval, argred_exp_f64, evalNodes, evalNode, h1, b2n, binary64]
    cases lib "floor" [FAVerif.FP.add { p := 53, ew := 11 } (FAVerif.FP.mul { p := 53, ew := 11 } 4609176140021203710 x) 4602678819172646912] <;> simp

/-- number of significant bits of a finite pattern -/
def sigBits (f : Fmt) (b : Nat) : Nat :=
  match decode f b with
  | .fin _ m _ => if m = 0 then 0 else bitLen m - Nat.log2 (Nat.gcd m (2 ^ bitLen m))   -- bit length minus trailing zeros
  | _ => 0

/-- **k·ln2hi is an exact product over the whole domain**: ln2hi has so few significant bits
that, for every integer |k| ≤ kmax (= ⌈log(largest)/ln 2⌉: 16, 128, 1024), the product fits in
the p-bit significand: sigbits(ln2hi) + bitlen(kmax) ≤ p. -/
theorem ln2hi_short :
    sigBits binary16 consts16.2.2.1 + bitLen 16 ≤ 11 ∧
    sigBits binary32 consts32.2.2.1 + bitLen 128 ≤ 24 ∧
    sigBits binary64 consts64.2.2.1 + bitLen 1024 ≤ 53 := by decide +kernel

/-- A 40-digit rational approximation of ln 2 (its closeness to ln 2, 1e-39, is checked
numerically against mpmath on every run and is part of the trusted base — not a theorem). -/
def ln2Q : Rat := 6931471805599453094172321214581765680755 / 10000000000000000000000000000000000000000

def hiPlusLo (f : Fmt) (c : Nat × Nat × Nat × Nat) : Option Rat := do
  let a ← (decode f c.2.2.1).toRat?
  let b ← (decode f c.2.2.2).toRat?
  some (a + b)

/-- **ln2hi + ln2lo encloses (the rational approximant of) ln 2** within the documented absolute
errors: 1.43e-6 (float16), 5.5e-14 (float32), 1.2e-26 (float64). -/
theorem ln2_enclosure :
    (∃ v, hiPlusLo binary16 consts16 = some v ∧ (if v < ln2Q then ln2Q - v else v - ln2Q) ≤ 143 / 100000000) ∧
    (∃ v, hiPlusLo binary32 consts32 = some v ∧ (if v < ln2Q then ln2Q - v else v - ln2Q) ≤ 55 / 1000000000000000) ∧
    (∃ v, hiPlusLo binary64 consts64 = some v ∧ (if v < ln2Q then ln2Q - v else v - ln2Q) ≤ 12 / 1000000000000000000000000000) := by
  refine ⟨⟨_, rfl, ?_⟩, ⟨_, rfl, ?_⟩, ⟨_, rfl, ?_⟩⟩ <;> decide +kernel

end FAVerif.Props.C17
