/-
C17 — argument reduction (exponential type).  Statements about the programs regenerated from
/repo's current `argument_reduction_exponent`; the reconstruction bounds and the trigonometric
reduction are decided by search (fav/props/c17.py).
-/
import FAVerif.Generated.C17
import FAVerif.Lemmas.ExpRed
import FAVerif.Lemmas.ExpBits

namespace FAVerif.Props.C17
open FAVerif.IR FAVerif.FP FAVerif.FPQ FAVerif.Gen.C17

abbrev fadd := FAVerif.FP.add
abbrev fsub := FAVerif.FP.sub
abbrev fmul := FAVerif.FP.mul
abbrev fneg := FAVerif.FP.neg

/-- documented constants, as bit patterns: (ln2inv, 1/2, ln2hi, ln2lo) per format -/
def consts16 : Nat × Nat × Nat × Nat := (15813, 14336, 14720, 7624)           -- 1.4424, .5, 0.6875, 0.005646
def consts32 : Nat × Nat × Nat × Nat := (1069066811, 1056964608, 1060205056, 901758606)   -- …, 0.69314575, 1.4286068e-06
def consts64 : Nat × Nat × Nat × Nat :=
  (4609176140021203710, 4602678819172646912, 4604418534311723008, 4461442080421002358)     -- …, 0.6931471803691238, 1.9082149292705877e-10

/-- The documented formula, on bit patterns, with `floor` supplied by the oracle `lib`. -/
def spec (f : Fmt) (c : Nat × Nat × Nat × Nat) (lib : Libm) (x : Nat) : Option (List Nat) :=
  match lib "floor" [fadd f (fmul f c.1 x) c.2.1] with
  | some k => some [k, fsub f x (fmul f k c.2.2.1), fmul f (fneg f k) c.2.2.2]
  | none => none

/-- Every regenerated program is well formed. -/
theorem generated_wf : ∀ p ∈ FAVerif.Gen.C17.all, p.2.wf = true := by decide +kernel

/-- **Shape**: for every input pattern and every `floor` oracle, the program traced from the
current source computes exactly  k = floor(x·ln2inv + ½),  r = x − k·ln2hi,  c = (−k)·ln2lo
with the documented double-word constants of its format (the dtype-dispatch `select`s on
`largest` fold to the right branch). -/
theorem exp_shape (lib : Libm) (x : Nat) :
    argred_exp_f16.eval lib [x] = spec binary16 consts16 lib x ∧
    argred_exp_f32.eval lib [x] = spec binary32 consts32 lib x ∧
    argred_exp_f64.eval lib [x] = spec binary64 consts64 lib x := by
  refine ⟨?_, ?_, ?_⟩
  · have h1 : FAVerif.FP.gt { p := 11, ew := 5 } 31743 31744 = false := by decide +kernel
    simp only [spec, consts16, fadd, fsub, fmul, fneg]
    simp [Prog.eval, argred_exp_f16, evalNodes, evalNode, h1, b2n, binary16]
    cases lib "floor" [FAVerif.FP.add { p := 11, ew := 5 } (FAVerif.FP.mul { p := 11, ew := 5 } 15813 x) 14336] <;> simp
  · have h1 : FAVerif.FP.gt { p := 24, ew := 8 } 2139095039 2139095040 = false := by decide +kernel
    have h2 : FAVerif.FP.gt { p := 24, ew := 8 } 2139095039 2123789977 = true := by decide +kernel
    simp only [spec, consts32, fadd, fsub, fmul, fneg]
    simp [Prog.eval, argred_exp_f32, evalNodes, evalNode, h1, h2, b2n, binary32]
    cases lib "floor" [FAVerif.FP.add { p := 24, ew := 8 } (FAVerif.FP.mul { p := 24, ew := 8 } 1069066811 x) 1056964608] <;> simp
  · have h1 : FAVerif.FP.gt { p := 53, ew := 11 } 9218868437227405311 9214871658872686752 = true := by decide +kernel
    simp only [spec, consts64, fadd, fsub, fmul, fneg]
    simp [Prog.eval, argred_exp_f64, evalNodes, evalNode, h1, b2n, binary64]
    cases lib "floor" [FAVerif.FP.add { p := 53, ew := 11 } (FAVerif.FP.mul { p := 53, ew := 11 } 4609176140021203710 x) 4602678819172646912] <;> simp

/-- number of significant bits of a finite pattern -/
def sigBits (f : Fmt) (b : Nat) : Nat :=
  match decode f b with
  | .fin _ m _ => if m = 0 then 0 else bitLen m - Nat.log2 (Nat.gcd m (2 ^ bitLen m))   -- bit length minus trailing zeros
  | _ => 0

/-- **k·ln2hi is an exact product over the whole domain**: ln2hi has so few significant bits
that, for every integer |k| ≤ kmax (= ⌈log(largest)/ln 2⌉: 16, 128, 1024), the product fits in
the p-bit significand: sigbits(ln2hi) + bitlen(kmax) ≤ p. -/
theorem ln2hi_short :
    sigBits binary16 consts16.2.2.1 + bitLen 16 ≤ 11 ∧
    sigBits binary32 consts32.2.2.1 + bitLen 128 ≤ 24 ∧
    sigBits binary64 consts64.2.2.1 + bitLen 1024 ≤ 53 := by decide +kernel

/-- A 40-digit rational approximation of ln 2 (its closeness to ln 2, 1e-39, is checked
numerically against mpmath on every run and is part of the trusted base — not a theorem). -/
def ln2Q : Rat := 6931471805599453094172321214581765680755 / 10000000000000000000000000000000000000000

def hiPlusLo (f : Fmt) (c : Nat × Nat × Nat × Nat) : Option Rat := do
  let a ← (decode f c.2.2.1).toRat?
  let b ← (decode f c.2.2.2).toRat?
  some (a + b)

/-- **ln2hi + ln2lo encloses (the rational approximant of) ln 2** within the documented absolute
errors: 1.43e-6 (float16), 5.5e-14 (float32), 1.2e-26 (float64). -/
theorem ln2_enclosure :
    (∃ v, hiPlusLo binary16 consts16 = some v ∧ (if v < ln2Q then ln2Q - v else v - ln2Q) ≤ 143 / 100000000) ∧
    (∃ v, hiPlusLo binary32 consts32 = some v ∧ (if v < ln2Q then ln2Q - v else v - ln2Q) ≤ 55 / 1000000000000000) ∧
    (∃ v, hiPlusLo binary64 consts64 = some v ∧ (if v < ln2Q then ln2Q - v else v - ln2Q) ≤ 12 / 1000000000000000000000000000) := by
  refine ⟨⟨_, rfl, ?_⟩, ⟨_, rfl, ?_⟩, ⟨_, rfl, ?_⟩⟩ <;> decide +kernel


def q16 : QFmt := ⟨11, -24, by norm_num⟩
def V16 : ℚ := 1477 / 1024
def H16 : ℚ := 11 / 16
def L16 : ℚ := 185 / 32768

/-- **Exponential-type argument reduction, 16-bit format** (precision 11, emin -24, any round-to-nearest),
with the documented constants (their bit patterns are tied to these rationals by `exp_constants`): for
every representable |x| ≤ 11.09, with k = ⌊RN(RN(x·ln2inv) + ½)⌋, r = RN(x − RN(k·ln2hi)), c = −RN(k·ln2lo):
|k| ≤ 16; the products k·ln2hi and the subtraction are EXACT (r = x − k·ln2hi); k·(ln2hi+ln2lo) + (r + c)
differs from x only by the rounding error of k·ln2lo, at most 5e-5; |r + c| ≤ 0.361 (< 0.55·ln 2); and
for k = 0 the reduction is the identity. -/
theorem exp_reduction_16 (r : ℚ → ℚ) (hr : IsRN q16 r) (x : ℚ) (hx : Rep q16 x) (hX : |x| ≤ 1109 / 100) :
    let k : ℤ := ⌊r (r (x * V16) + 1 / 2)⌋
    let rr := r (x - r (k * H16))
    let c := -r (k * L16)
    |k| ≤ 16 ∧ rr = x - k * H16 ∧ k * (H16 + L16) + (rr + c) - x = k * L16 - r (k * L16) ∧
    |k * (H16 + L16) + (rr + c) - x| ≤ 5 / 10 ^ 5 ∧ |rr + c| ≤ 361 / 1000 ∧ (k = 0 → rr = x ∧ c = 0) := by
  intro k rr c
  have hu : uro q16 = 1 / 2 ^ 11 := rfl
  have ht0 : (0 : ℚ) ≤ 2 ^ q16.emin := by positivity
  have hem : (2 : ℚ) ^ q16.emin ≤ 1 / 2 ^ 24 := by
    show (2 : ℚ) ^ (-24 : ℤ) ≤ _
    rw [zpow_neg, ← one_div]
    exact one_div_le_one_div_of_le (by positivity) (pow_le_pow_right₀ (by norm_num) (by norm_num))
  have hshort : ∀ k : ℤ, |k| ≤ (16 : ℕ) → Rep q16 (k * H16) := by
    intro k hk
    refine ⟨k * 11, -4, ?_, ?_, by norm_num [q16]⟩
    · show (k : ℚ) * H16 = ((k * 11 : ℤ) : ℚ) * 2 ^ (-4 : ℤ)
      rw [zpow_neg]; push_cast; norm_num [H16]; ring
    · rw [abs_mul]
      have : |k| ≤ 16 := by exact_mod_cast hk
      show |k| * |(11 : ℤ)| < 2 ^ 11
      norm_num
      nlinarith [abs_nonneg k]
  have key := exp_reduction hr V16 H16 L16 (-4) 16 (1109 / 100) (16 / 1000) (58 / 10000) x (by norm_num [V16])
    ⟨11, by rw [zpow_neg]; norm_num [H16]⟩ (by norm_num [q16]) (by norm_num [q16]) hshort hx hX
    (by
      rw [hu]
      have h1 := hem; have h0 := ht0
      generalize (2 : ℚ) ^ q16.emin = t at h1 h0 ⊢
      norm_num [V16] at h1 ⊢
      linarith) (by norm_num [V16, H16, abs_le]) (16 / 100000) (by norm_num [V16, H16, L16, abs_le])
    (by norm_num [V16]) (by norm_num [V16]) (by norm_num [V16])
  obtain ⟨h1, h2, h3, h4, h5, h6, h7⟩ := key
  have hkq : |(k : ℚ)| ≤ 16 := by
    have : ((|k| : ℤ) : ℚ) ≤ ((16 : ℕ) : ℤ) := by exact_mod_cast h1
    rw [Int.cast_abs] at this; exact_mod_cast this
  have hkL : |(k : ℚ) * L16| ≤ 16 * L16 := by
    rw [abs_mul, abs_of_pos (by norm_num [L16] : (0 : ℚ) < L16)]
    exact mul_le_mul_of_nonneg_right hkq (by norm_num [L16])
  have h5' : |(k : ℚ) * L16 - r (k * L16)| ≤ 5 / 10 ^ 5 := by
    refine le_trans h5 ?_
    rw [hu]
    have : (1 : ℚ) / 2 ^ 11 * |(k : ℚ) * L16| ≤ 1 / 2 ^ 11 * (16 * L16) := mul_le_mul_of_nonneg_left hkL (by norm_num)
    refine le_trans (add_le_add this (le_refl _)) ?_
    have h1 := hem; have h0 := ht0
    generalize (2 : ℚ) ^ q16.emin = t at h1 h0 ⊢
    norm_num [L16] at h1 ⊢
    linarith
  refine ⟨by exact_mod_cast h1, h2, h4, by rw [h4]; exact h5', ?_, h7⟩
  have e : rr + c = (x - k * (H16 + L16)) + (k * L16 - r (k * L16)) := by
    show r (x - r (k * H16)) + -r (k * L16) = _
    have : r (x - r (k * H16)) = x - k * H16 := h2
    rw [this]; ring
  rw [e]
  refine le_trans (abs_add_le _ _) ?_
  refine le_trans (add_le_add h6 h5') ?_
  norm_num [V16]

def q32 : QFmt := ⟨24, -149, by norm_num⟩
def V32 : ℚ := 12102203 / 8388608
def H32 : ℚ := 22713 / 32768
def L32 : ℚ := 6283079 / 4398046511104

/-- **Exponential-type argument reduction, 32-bit format** (precision 24, emin -149, any round-to-nearest),
with the documented constants (their bit patterns are tied to these rationals by `exp_constants`): for
every representable |x| ≤ 88.73, with k = ⌊RN(RN(x·ln2inv) + ½)⌋, r = RN(x − RN(k·ln2hi)), c = −RN(k·ln2lo):
|k| ≤ 128; the products k·ln2hi and the subtraction are EXACT (r = x − k·ln2hi); k·(ln2hi+ln2lo) + (r + c)
differs from x only by the rounding error of k·ln2lo, at most 2e-11; |r + c| ≤ 0.348 (< 0.55·ln 2); and
for k = 0 the reduction is the identity. -/
theorem exp_reduction_32 (r : ℚ → ℚ) (hr : IsRN q32 r) (x : ℚ) (hx : Rep q32 x) (hX : |x| ≤ 8873 / 100) :
    let k : ℤ := ⌊r (r (x * V32) + 1 / 2)⌋
    let rr := r (x - r (k * H32))
    let c := -r (k * L32)
    |k| ≤ 128 ∧ rr = x - k * H32 ∧ k * (H32 + L32) + (rr + c) - x = k * L32 - r (k * L32) ∧
    |k * (H32 + L32) + (rr + c) - x| ≤ 2 / 10 ^ 11 ∧ |rr + c| ≤ 348 / 1000 ∧ (k = 0 → rr = x ∧ c = 0) := by
  intro k rr c
  have hu : uro q32 = 1 / 2 ^ 24 := rfl
  have ht0 : (0 : ℚ) ≤ 2 ^ q32.emin := by positivity
  have hem : (2 : ℚ) ^ q32.emin ≤ 1 / 2 ^ 100 := by
    show (2 : ℚ) ^ (-149 : ℤ) ≤ _
    rw [zpow_neg, ← one_div]
    exact one_div_le_one_div_of_le (by positivity) (pow_le_pow_right₀ (by norm_num) (by norm_num))
  have hshort : ∀ k : ℤ, |k| ≤ (128 : ℕ) → Rep q32 (k * H32) := by
    intro k hk
    refine ⟨k * 22713, -15, ?_, ?_, by norm_num [q32]⟩
    · show (k : ℚ) * H32 = ((k * 22713 : ℤ) : ℚ) * 2 ^ (-15 : ℤ)
      rw [zpow_neg]; push_cast; norm_num [H32]; ring
    · rw [abs_mul]
      have : |k| ≤ 128 := by exact_mod_cast hk
      show |k| * |(22713 : ℤ)| < 2 ^ 24
      norm_num
      nlinarith [abs_nonneg k]
  have key := exp_reduction hr V32 H32 L32 (-15) 128 (8873 / 100) (2 / 100000) (15 / 10000000) x (by norm_num [V32])
    ⟨22713, by rw [zpow_neg]; norm_num [H32]⟩ (by norm_num [q32]) (by norm_num [q32]) hshort hx hX
    (by
      rw [hu]
      have h1 := hem; have h0 := ht0
      generalize (2 : ℚ) ^ q32.emin = t at h1 h0 ⊢
      norm_num [V32] at h1 ⊢
      linarith) (by norm_num [V32, H32, abs_le]) (3 / 10 ^ 8) (by norm_num [V32, H32, L32, abs_le])
    (by norm_num [V32]) (by norm_num [V32]) (by norm_num [V32])
  obtain ⟨h1, h2, h3, h4, h5, h6, h7⟩ := key
  have hkq : |(k : ℚ)| ≤ 128 := by
    have : ((|k| : ℤ) : ℚ) ≤ ((128 : ℕ) : ℤ) := by exact_mod_cast h1
    rw [Int.cast_abs] at this; exact_mod_cast this
  have hkL : |(k : ℚ) * L32| ≤ 128 * L32 := by
    rw [abs_mul, abs_of_pos (by norm_num [L32] : (0 : ℚ) < L32)]
    exact mul_le_mul_of_nonneg_right hkq (by norm_num [L32])
  have h5' : |(k : ℚ) * L32 - r (k * L32)| ≤ 2 / 10 ^ 11 := by
    refine le_trans h5 ?_
    rw [hu]
    have : (1 : ℚ) / 2 ^ 24 * |(k : ℚ) * L32| ≤ 1 / 2 ^ 24 * (128 * L32) := mul_le_mul_of_nonneg_left hkL (by norm_num)
    refine le_trans (add_le_add this (le_refl _)) ?_
    have h1 := hem; have h0 := ht0
    generalize (2 : ℚ) ^ q32.emin = t at h1 h0 ⊢
    norm_num [L32] at h1 ⊢
    linarith
  refine ⟨by exact_mod_cast h1, h2, h4, by rw [h4]; exact h5', ?_, h7⟩
  have e : rr + c = (x - k * (H32 + L32)) + (k * L32 - r (k * L32)) := by
    show r (x - r (k * H32)) + -r (k * L32) = _
    have : r (x - r (k * H32)) = x - k * H32 := h2
    rw [this]; ring
  rw [e]
  refine le_trans (abs_add_le _ _) ?_
  refine le_trans (add_le_add h6 h5') ?_
  norm_num [V32]

def q64 : QFmt := ⟨53, -1074, by norm_num⟩
def V64 : ℚ := 3248660424278399 / 2251799813685248
def H64 : ℚ := 2977044471 / 4294967296
def L64 : ℚ := 3691024475790907 / 19342813113834066795298816

/-- **Exponential-type argument reduction, 64-bit format** (precision 53, emin -1074, any round-to-nearest),
with the documented constants (their bit patterns are tied to these rationals by `exp_constants`): for
every representable |x| ≤ 709.79, with k = ⌊RN(RN(x·ln2inv) + ½)⌋, r = RN(x − RN(k·ln2hi)), c = −RN(k·ln2lo):
|k| ≤ 1024; the products k·ln2hi and the subtraction are EXACT (r = x − k·ln2hi); k·(ln2hi+ln2lo) + (r + c)
differs from x only by the rounding error of k·ln2lo, at most 3e-23; |r + c| ≤ 0.347 (< 0.55·ln 2); and
for k = 0 the reduction is the identity. -/
theorem exp_reduction_64 (r : ℚ → ℚ) (hr : IsRN q64 r) (x : ℚ) (hx : Rep q64 x) (hX : |x| ≤ 70979 / 100) :
    let k : ℤ := ⌊r (r (x * V64) + 1 / 2)⌋
    let rr := r (x - r (k * H64))
    let c := -r (k * L64)
    |k| ≤ 1024 ∧ rr = x - k * H64 ∧ k * (H64 + L64) + (rr + c) - x = k * L64 - r (k * L64) ∧
    |k * (H64 + L64) + (rr + c) - x| ≤ 3 / 10 ^ 23 ∧ |rr + c| ≤ 347 / 1000 ∧ (k = 0 → rr = x ∧ c = 0) := by
  intro k rr c
  have hu : uro q64 = 1 / 2 ^ 53 := rfl
  have ht0 : (0 : ℚ) ≤ 2 ^ q64.emin := by positivity
  have hem : (2 : ℚ) ^ q64.emin ≤ 1 / 2 ^ 100 := by
    show (2 : ℚ) ^ (-1074 : ℤ) ≤ _
    rw [zpow_neg, ← one_div]
    exact one_div_le_one_div_of_le (by positivity) (pow_le_pow_right₀ (by norm_num) (by norm_num))
  have hshort : ∀ k : ℤ, |k| ≤ (1024 : ℕ) → Rep q64 (k * H64) := by
    intro k hk
    refine ⟨k * 2977044471, -32, ?_, ?_, by norm_num [q64]⟩
    · show (k : ℚ) * H64 = ((k * 2977044471 : ℤ) : ℚ) * 2 ^ (-32 : ℤ)
      rw [zpow_neg]; push_cast; norm_num [H64]; ring
    · rw [abs_mul]
      have : |k| ≤ 1024 := by exact_mod_cast hk
      show |k| * |(2977044471 : ℤ)| < 2 ^ 53
      norm_num
      nlinarith [abs_nonneg k]
  have key := exp_reduction hr V64 H64 L64 (-32) 1024 (70979 / 100) (3 / 10 ^ 13) (2 / 10 ^ 10) x (by norm_num [V64])
    ⟨2977044471, by rw [zpow_neg]; norm_num [H64]⟩ (by norm_num [q64]) (by norm_num [q64]) hshort hx hX
    (by
      rw [hu]
      have h1 := hem; have h0 := ht0
      generalize (2 : ℚ) ^ q64.emin = t at h1 h0 ⊢
      norm_num [V64] at h1 ⊢
      linarith) (by norm_num [V64, H64, abs_le]) (1 / 10 ^ 16) (by norm_num [V64, H64, L64, abs_le])
    (by norm_num [V64]) (by norm_num [V64]) (by norm_num [V64])
  obtain ⟨h1, h2, h3, h4, h5, h6, h7⟩ := key
  have hkq : |(k : ℚ)| ≤ 1024 := by
    have : ((|k| : ℤ) : ℚ) ≤ ((1024 : ℕ) : ℤ) := by exact_mod_cast h1
    rw [Int.cast_abs] at this; exact_mod_cast this
  have hkL : |(k : ℚ) * L64| ≤ 1024 * L64 := by
    rw [abs_mul, abs_of_pos (by norm_num [L64] : (0 : ℚ) < L64)]
    exact mul_le_mul_of_nonneg_right hkq (by norm_num [L64])
  have h5' : |(k : ℚ) * L64 - r (k * L64)| ≤ 3 / 10 ^ 23 := by
    refine le_trans h5 ?_
    rw [hu]
    have : (1 : ℚ) / 2 ^ 53 * |(k : ℚ) * L64| ≤ 1 / 2 ^ 53 * (1024 * L64) := mul_le_mul_of_nonneg_left hkL (by norm_num)
    refine le_trans (add_le_add this (le_refl _)) ?_
    have h1 := hem; have h0 := ht0
    generalize (2 : ℚ) ^ q64.emin = t at h1 h0 ⊢
    norm_num [L64] at h1 ⊢
    linarith
  refine ⟨by exact_mod_cast h1, h2, h4, by rw [h4]; exact h5', ?_, h7⟩
  have e : rr + c = (x - k * (H64 + L64)) + (k * L64 - r (k * L64)) := by
    show r (x - r (k * H64)) + -r (k * L64) = _
    have : r (x - r (k * H64)) = x - k * H64 := h2
    rw [this]; ring
  rw [e]
  refine le_trans (abs_add_le _ _) ?_
  refine le_trans (add_le_add h6 h5') ?_
  norm_num [V64]

/-- the documented constants (bit patterns in the regenerated programs, see `exp_shape`) are these rationals -/
theorem exp_constants :
    ((decode binary16 consts16.1).toRat?, (decode binary16 consts16.2.2.1).toRat?, (decode binary16 consts16.2.2.2).toRat?) = (some V16, some H16, some L16) ∧
    ((decode binary32 consts32.1).toRat?, (decode binary32 consts32.2.2.1).toRat?, (decode binary32 consts32.2.2.2).toRat?) = (some V32, some H32, some L32) ∧
    ((decode binary64 consts64.1).toRat?, (decode binary64 consts64.2.2.1).toRat?, (decode binary64 consts64.2.2.2).toRat?) = (some V64, some H64, some L64) ∧
    (binary16.p, binary16.emin, binary32.p, binary32.emin, binary64.p, binary64.emin) = (q16.p, q16.emin, q32.p, q32.emin, q64.p, q64.emin) := by
  decide +kernel

/-- against the 40-digit rational for ln 2 (`ln2_enclosure`): k·ln2Q + (r + c) is within 1.2e-4 / 2e-11 / 4e-23
of x over the whole domain — far below one ULP of x wherever k ≠ 0 (|x| ≥ 1/4: ulp(x) ≥ 2^-12 / 2^-25 / 2^-54). -/
theorem exp_reconstruction_bounds :
    (16 : ℚ) * |ln2Q - (H16 + L16)| + 5 / 10 ^ 5 ≤ 12 / 10 ^ 5 ∧
    (128 : ℚ) * |ln2Q - (H32 + L32)| + 2 / 10 ^ 11 ≤ 3 / 10 ^ 11 ∧
    (1024 : ℚ) * |ln2Q - (H64 + L64)| + 3 / 10 ^ 23 ≤ 5 / 10 ^ 23 ∧
    (361 / 1000 : ℚ) ≤ 55 / 100 * ln2Q := by
  refine ⟨?_, ?_, ?_, ?_⟩ <;> norm_num [ln2Q, H16, L16, H32, L32, H64, L64, abs_le, abs_of_nonneg, abs_of_nonpos] <;> norm_num [abs_le]

open FAVerif.Refine FAVerif.SoftRound in
/-- **The reduction on BIT PATTERNS (float32).**  For every finite input pattern x with |value| ≤ 88.73, if the
`floor` oracle returns a finite pattern denoting the mathematical floor of its (finite) argument and the five
arithmetic results are finite, then the program traced from the current source returns patterns (k, r, c) with
value(r) = value(x) − k·ln2hi EXACTLY, |k| ≤ 128, k·(ln2hi+ln2lo) + (value r + value c) within 2e-11 of value(x)
and |value r + value c| ≤ 0.348.  Chain: `exp_shape` (the program is the documented formula) →
`exp_spec_bits` (softfloat mul/add/sub correctly rounded) → `exp_reduction_32`. -/
theorem exp_reduction_bits_f32 (lib : Libm) (x kb : Nat) (qx : ℚ) (k : ℤ)
    (fx : isFiniteBits binary32 x = true) (vx : toQ binary32 x = some qx) (hX : |qx| ≤ 8873 / 100)
    (hlib : lib "floor" [fadd binary32 (fmul binary32 consts32.1 x) consts32.2.1] = some kb)
    (fk : isFiniteBits binary32 kb = true) (vk : toQ binary32 kb = some (k : ℚ))
    (hfloor : ∀ q2, toQ binary32 (fadd binary32 (fmul binary32 consts32.1 x) consts32.2.1) = some q2 → k = ⌊q2⌋)
    (f1 : isFiniteBits binary32 (fmul binary32 consts32.1 x) = true)
    (f2 : isFiniteBits binary32 (fadd binary32 (fmul binary32 consts32.1 x) consts32.2.1) = true)
    (fP : isFiniteBits binary32 (fmul binary32 kb consts32.2.2.1) = true)
    (fr : isFiniteBits binary32 (fsub binary32 x (fmul binary32 kb consts32.2.2.1)) = true)
    (fc : isFiniteBits binary32 (fmul binary32 (fneg binary32 kb) consts32.2.2.2) = true) :
    ∃ rb cb qr qc, argred_exp_f32.eval lib [x] = some [kb, rb, cb] ∧ toQ binary32 rb = some qr ∧ toQ binary32 cb = some qc ∧
      |k| ≤ 128 ∧ qr = qx - k * H32 ∧ |k * (H32 + L32) + (qr + qc) - qx| ≤ 2 / 10 ^ 11 ∧ |qr + qc| ≤ 348 / 1000 := by
  have hf : WF binary32 := ⟨by decide, by decide⟩
  have hq : qf binary32 hf.hp = q32 := by
    unfold qf q32
    have : binary32.emin = -149 := by decide
    simp only [this]; rfl
  obtain ⟨c1, c2, c3, c4⟩ := exp_constants
  have cV : toQ binary32 consts32.1 = some V32 := by have := congrArg (·.1) c2; simpa [toQ] using this
  have cH : toQ binary32 consts32.2.2.1 = some H32 := by have := congrArg (·.2.1) c2; simpa [toQ] using this
  have cL : toQ binary32 consts32.2.2.2 = some L32 := by have := congrArg (·.2.2) c2; simpa [toQ] using this
  have cHf : toQ binary32 consts32.2.1 = some (1 / 2) := by decide +kernel
  have fV : isFiniteBits binary32 consts32.1 = true := by decide +kernel
  have fHf : isFiniteBits binary32 consts32.2.1 = true := by decide +kernel
  have fH : isFiniteBits binary32 consts32.2.2.1 = true := by decide +kernel
  have fL : isFiniteBits binary32 consts32.2.2.2 = true := by decide +kernel
  have hx : Rep q32 qx := by
    obtain ⟨s, m, e, hd⟩ := finite_decode binary32 x fx
    have := rep_of_decode binary32 hf x s m e hd
    rw [toQ_fin binary32 x s m e hd] at vx; cases vx
    rw [hq] at this; exact this
  obtain ⟨b1, b2, b3⟩ := exp_spec_bits binary32 hf consts32.1 consts32.2.1 consts32.2.2.1 consts32.2.2.2 x kb V32 H32 L32 qx
    fV cV fHf cHf fH cH fL cL fx vx f1 f2 fk k vk hfloor fP fr fc
  rw [hq] at b1 b2 b3
  have hr : IsRN q32 (FAVerif.FPQ.rne q32) := FAVerif.FPQ.isRN_rne _
  obtain ⟨e1, e2, e3, e4, e5, e6⟩ := exp_reduction_32 (FAVerif.FPQ.rne q32) hr qx hx hX
  rw [← b1] at e1 e2 e3 e4 e5
  refine ⟨_, _, _, _, ?_, b2, b3, e1, e2, e4, e5⟩
  rw [(exp_shape lib x).2.1]
  simp only [spec, hlib]

open FAVerif.Refine FAVerif.SoftRound in
/-- **The reduction on BIT PATTERNS (float16).**  For every finite input pattern x with |value| ≤ 11.09, if the
`floor` oracle returns a finite pattern denoting the mathematical floor of its (finite) argument and the five
arithmetic results are finite, then the program traced from the current source returns patterns (k, r, c) with
value(r) = value(x) − k·ln2hi EXACTLY, |k| ≤ 16, k·(ln2hi+ln2lo) + (value r + value c) within 5e-5 of value(x)
and |value r + value c| ≤ 0.361.  Chain: `exp_shape` (the program is the documented formula) →
`exp_spec_bits` (softfloat mul/add/sub correctly rounded) → `exp_reduction_16`. -/
theorem exp_reduction_bits_f16 (lib : Libm) (x kb : Nat) (qx : ℚ) (k : ℤ)
    (fx : isFiniteBits binary16 x = true) (vx : toQ binary16 x = some qx) (hX : |qx| ≤ 1109 / 100)
    (hlib : lib "floor" [fadd binary16 (fmul binary16 consts16.1 x) consts16.2.1] = some kb)
    (fk : isFiniteBits binary16 kb = true) (vk : toQ binary16 kb = some (k : ℚ))
    (hfloor : ∀ q2, toQ binary16 (fadd binary16 (fmul binary16 consts16.1 x) consts16.2.1) = some q2 → k = ⌊q2⌋)
    (f1 : isFiniteBits binary16 (fmul binary16 consts16.1 x) = true)
    (f2 : isFiniteBits binary16 (fadd binary16 (fmul binary16 consts16.1 x) consts16.2.1) = true)
    (fP : isFiniteBits binary16 (fmul binary16 kb consts16.2.2.1) = true)
    (fr : isFiniteBits binary16 (fsub binary16 x (fmul binary16 kb consts16.2.2.1)) = true)
    (fc : isFiniteBits binary16 (fmul binary16 (fneg binary16 kb) consts16.2.2.2) = true) :
    ∃ rb cb qr qc, argred_exp_f16.eval lib [x] = some [kb, rb, cb] ∧ toQ binary16 rb = some qr ∧ toQ binary16 cb = some qc ∧
      |k| ≤ 16 ∧ qr = qx - k * H16 ∧ |k * (H16 + L16) + (qr + qc) - qx| ≤ 5 / 10 ^ 5 ∧ |qr + qc| ≤ 361 / 1000 := by
  have hf : WF binary16 := ⟨by decide, by decide⟩
  have hq : qf binary16 hf.hp = q16 := by
    unfold qf q16
    have : binary16.emin = -24 := by decide
    simp only [this]; rfl
  obtain ⟨c1, c2, c3, c4⟩ := exp_constants
  have cV : toQ binary16 consts16.1 = some V16 := by have := congrArg (·.1) c1; simpa [toQ] using this
  have cH : toQ binary16 consts16.2.2.1 = some H16 := by have := congrArg (·.2.1) c1; simpa [toQ] using this
  have cL : toQ binary16 consts16.2.2.2 = some L16 := by have := congrArg (·.2.2) c1; simpa [toQ] using this
  have cHf : toQ binary16 consts16.2.1 = some (1 / 2) := by decide +kernel
  have fV : isFiniteBits binary16 consts16.1 = true := by decide +kernel
  have fHf : isFiniteBits binary16 consts16.2.1 = true := by decide +kernel
  have fH : isFiniteBits binary16 consts16.2.2.1 = true := by decide +kernel
  have fL : isFiniteBits binary16 consts16.2.2.2 = true := by decide +kernel
  have hx : Rep q16 qx := by
    obtain ⟨s, m, e, hd⟩ := finite_decode binary16 x fx
    have := rep_of_decode binary16 hf x s m e hd
    rw [toQ_fin binary16 x s m e hd] at vx; cases vx
    rw [hq] at this; exact this
  obtain ⟨b1, b2, b3⟩ := exp_spec_bits binary16 hf consts16.1 consts16.2.1 consts16.2.2.1 consts16.2.2.2 x kb V16 H16 L16 qx
    fV cV fHf cHf fH cH fL cL fx vx f1 f2 fk k vk hfloor fP fr fc
  rw [hq] at b1 b2 b3
  have hr : IsRN q16 (FAVerif.FPQ.rne q16) := FAVerif.FPQ.isRN_rne _
  obtain ⟨e1, e2, e3, e4, e5, e6⟩ := exp_reduction_16 (FAVerif.FPQ.rne q16) hr qx hx hX
  rw [← b1] at e1 e2 e3 e4 e5
  refine ⟨_, _, _, _, ?_, b2, b3, e1, e2, e4, e5⟩
  rw [(exp_shape lib x).1]
  simp only [spec, hlib]

open FAVerif.Refine FAVerif.SoftRound in
/-- **The reduction on BIT PATTERNS (float64).**  For every finite input pattern x with |value| ≤ 709.79, if the
`floor` oracle returns a finite pattern denoting the mathematical floor of its (finite) argument and the five
arithmetic results are finite, then the program traced from the current source returns patterns (k, r, c) with
value(r) = value(x) − k·ln2hi EXACTLY, |k| ≤ 1024, k·(ln2hi+ln2lo) + (value r + value c) within 3e-23 of value(x)
and |value r + value c| ≤ 0.347.  Chain: `exp_shape` (the program is the documented formula) →
`exp_spec_bits` (softfloat mul/add/sub correctly rounded) → `exp_reduction_64`. -/
theorem exp_reduction_bits_f64 (lib : Libm) (x kb : Nat) (qx : ℚ) (k : ℤ)
    (fx : isFiniteBits binary64 x = true) (vx : toQ binary64 x = some qx) (hX : |qx| ≤ 70979 / 100)
    (hlib : lib "floor" [fadd binary64 (fmul binary64 consts64.1 x) consts64.2.1] = some kb)
    (fk : isFiniteBits binary64 kb = true) (vk : toQ binary64 kb = some (k : ℚ))
    (hfloor : ∀ q2, toQ binary64 (fadd binary64 (fmul binary64 consts64.1 x) consts64.2.1) = some q2 → k = ⌊q2⌋)
    (f1 : isFiniteBits binary64 (fmul binary64 consts64.1 x) = true)
    (f2 : isFiniteBits binary64 (fadd binary64 (fmul binary64 consts64.1 x) consts64.2.1) = true)
    (fP : isFiniteBits binary64 (fmul binary64 kb consts64.2.2.1) = true)
    (fr : isFiniteBits binary64 (fsub binary64 x (fmul binary64 kb consts64.2.2.1)) = true)
    (fc : isFiniteBits binary64 (fmul binary64 (fneg binary64 kb) consts64.2.2.2) = true) :
    ∃ rb cb qr qc, argred_exp_f64.eval lib [x] = some [kb, rb, cb] ∧ toQ binary64 rb = some qr ∧ toQ binary64 cb = some qc ∧
      |k| ≤ 1024 ∧ qr = qx - k * H64 ∧ |k * (H64 + L64) + (qr + qc) - qx| ≤ 3 / 10 ^ 23 ∧ |qr + qc| ≤ 347 / 1000 := by
  have hf : WF binary64 := ⟨by decide, by decide⟩
  have hq : qf binary64 hf.hp = q64 := by
    unfold qf q64
    have : binary64.emin = -1074 := by decide
    simp only [this]; rfl
  obtain ⟨c1, c2, c3, c4⟩ := exp_constants
  have cV : toQ binary64 consts64.1 = some V64 := by have := congrArg (·.1) c3; simpa [toQ] using this
  have cH : toQ binary64 consts64.2.2.1 = some H64 := by have := congrArg (·.2.1) c3; simpa [toQ] using this
  have cL : toQ binary64 consts64.2.2.2 = some L64 := by have := congrArg (·.2.2) c3; simpa [toQ] using this
  have cHf : toQ binary64 consts64.2.1 = some (1 / 2) := by decide +kernel
  have fV : isFiniteBits binary64 consts64.1 = true := by decide +kernel
  have fHf : isFiniteBits binary64 consts64.2.1 = true := by decide +kernel
  have fH : isFiniteBits binary64 consts64.2.2.1 = true := by decide +kernel
  have fL : isFiniteBits binary64 consts64.2.2.2 = true := by decide +kernel
  have hx : Rep q64 qx := by
    obtain ⟨s, m, e, hd⟩ := finite_decode binary64 x fx
    have := rep_of_decode binary64 hf x s m e hd
    rw [toQ_fin binary64 x s m e hd] at vx; cases vx
    rw [hq] at this; exact this
  obtain ⟨b1, b2, b3⟩ := exp_spec_bits binary64 hf consts64.1 consts64.2.1 consts64.2.2.1 consts64.2.2.2 x kb V64 H64 L64 qx
    fV cV fHf cHf fH cH fL cL fx vx f1 f2 fk k vk hfloor fP fr fc
  rw [hq] at b1 b2 b3
  have hr : IsRN q64 (FAVerif.FPQ.rne q64) := FAVerif.FPQ.isRN_rne _
  obtain ⟨e1, e2, e3, e4, e5, e6⟩ := exp_reduction_64 (FAVerif.FPQ.rne q64) hr qx hx hX
  rw [← b1] at e1 e2 e3 e4 e5
  refine ⟨_, _, _, _, ?_, b2, b3, e1, e2, e4, e5⟩
  rw [(exp_shape lib x).2.2]
  simp only [spec, hlib]

end FAVerif.Props.C17
