/-
C03, third part — the rotation identities, bit for bit, for EVERY input (NaN, infinities, zeros and
subnormals included; no hypothesis on the input):

  asinh(z) = −i·asin(i·z),   atan(z) = −i·atanh(i·z),
  acosh(z) = i·acos(z) if imag z is not negative (−i·acos(z) otherwise),   imag acos(z) = −imag asin(z).

Both sides of an identity are traced by the repo's tracer as ONE function of z
(`Generated/C03Rot.lean`, regenerated from the current source on every run; the harness checks on
every run that each half of a combined program computes what the separately generated
implementation computes).  In the canonical DAG the subgraphs the two sides share are shared nodes,
and the relation between the remaining nodes is decided by a verified checker (`Sym.relN`:
identity, negation nodes, `select` under an assumed condition, `atan2` odd in its first argument;
soundness `relN_sound` from the node equations `evalNodes_spec`).
-/
import FAVerif.Lemmas.RelNodesSound
import FAVerif.Generated.C03Rot

namespace FAVerif.Props.C03
open FAVerif.IR FAVerif.FP FAVerif.Sym FAVerif.SoftRound FAVerif.Gen.C03Rot

/-- **Soundness of the output relation checker**, for every well-formed program, format (p ≥ 2, ew ≥ 2),
oracle satisfying `LibOK`, input vector and assumption list that holds in the run. -/
theorem rel_outs_sound (p : Prog) (hwf : p.wf = true) (hf : 2 ≤ p.fmt.p ∧ 2 ≤ p.fmt.ew) (lib : Libm) (hlib : LibOK p.fmt lib)
    (ins : List Nat) (env : Array Nat) (he : evalNodes p.fmt lib ins p.nodes #[] = some env)
    (asm : List (Nat × Bool)) (hasm : AsmOK asm env) (k1 k2 i j vi vj : Nat)
    (h1 : p.outs[k1]? = some i) (h2 : p.outs[k2]? = some j) (e1 : env[i]? = some vi) (e2 : env[j]? = some vj) :
    Rel p.fmt (relOuts p asm k1 k2) vi vj := by
  unfold relOuts
  rw [h1, h2]
  exact relN_sound p hwf lib ins env he ⟨hf.1, hf.2⟩ hlib asm hasm _ i j vi vj e1 e2

/-- the run of a program and its output list -/
lemma eval_env (p : Prog) (lib : Libm) (ins outs : List Nat) (h : p.eval lib ins = some outs) :
    ∃ env, evalNodes p.fmt lib ins p.nodes #[] = some env ∧ p.outs.mapM (fun k => env[k]?) = some outs := by
  unfold Prog.eval at h
  cases he : evalNodes p.fmt lib ins p.nodes #[] with
  | none => simp [he] at h
  | some env => simp only [he, Option.bind_eq_bind, Option.bind_some] at h; exact ⟨env, rfl, h⟩

theorem rot_wf : ∀ p ∈ [rot_asinh_complex64, rot_asinh_complex128, rot_atan_complex64, rot_atan_complex128,
    rot_acosh_complex64, rot_acosh_complex128], p.wf = true ∧ 2 ≤ p.fmt.p ∧ 2 ≤ p.fmt.ew := by decide +kernel

/-- what the checker decides on the regenerated combined programs of asinh/asin and atan/atanh:
output 0 (real part of the derived function) IS output 3 (imaginary part of the parent at i·z),
output 1 is the negation of output 2 -/
theorem rot_descs : ∀ p ∈ [rot_asinh_complex64, rot_asinh_complex128, rot_atan_complex64, rot_atan_complex128],
    relOuts p [] 0 3 = .same ∧ relOuts p [] 1 2 = .neg := by decide +kernel

/-- **asinh(z) = −i·asin(i·z) and atan(z) = −i·atanh(i·z)**, for EVERY input pattern x, y: the combined
program returns (f(z).re, f(z).im, g(iz).re, g(iz).im) with f.re = g.im and f.im = −g.re bit for bit (or
both NaN). -/
theorem rotation_minus_i (p : Prog) (hp : p ∈ [rot_asinh_complex64, rot_asinh_complex128, rot_atan_complex64, rot_atan_complex128])
    (lib : Libm) (hlib : LibOK p.fmt lib) (x y f_re f_im g_re g_im : Nat)
    (h : p.eval lib [x, y] = some [f_re, f_im, g_re, g_im]) :
    eqvN p.fmt f_re g_im ∧ eqvN p.fmt f_im (FAVerif.FP.neg p.fmt g_re) := by
  have hw := rot_wf p (by
    simp only [List.mem_cons, List.mem_nil_iff, or_false] at hp ⊢
    rcases hp with rfl | rfl | rfl | rfl <;> simp)
  obtain ⟨d1, d2⟩ := rot_descs p hp
  obtain ⟨env, he, ho⟩ := eval_env p lib _ _ h
  obtain ⟨i0, q0, e0⟩ := mapM_get p.outs _ ho 0 f_re rfl
  obtain ⟨i1, q1, e1⟩ := mapM_get p.outs _ ho 1 f_im rfl
  obtain ⟨i2, q2, e2⟩ := mapM_get p.outs _ ho 2 g_re rfl
  obtain ⟨i3, q3, e3⟩ := mapM_get p.outs _ ho 3 g_im rfl
  have hasm : AsmOK [] env := fun c t hc => by simp at hc
  have r1 := rel_outs_sound p hw.1 hw.2 lib hlib [x, y] env he [] hasm 0 3 i0 i3 f_re g_im q0 q3 e0 e3
  have r2 := rel_outs_sound p hw.1 hw.2 lib hlib [x, y] env he [] hasm 1 2 i1 i2 f_im g_re q1 q2 e1 e2
  rw [d1] at r1; rw [d2] at r2
  exact ⟨r1, r2⟩

/-- the condition node of the `select` that forms output `k` -/
def condOfOut (p : Prog) (k : Nat) : Nat :=
  match p.outs[k]? with
  | some o => (match p.nodes[o]? with
    | some n => (match n.op, n.args with
      | .select, c :: _ => c
      | _, _ => 0)
    | none => 0)
  | none => 0

/-- node `c` is the test `imag z < 0`: `lt [input 1, const +0]` -/
def isImagNegTest (p : Prog) (c : Nat) : Bool :=
  match p.nodes[c]? with
  | some n => (match n.op, n.args with
    | .lt, [a, b] => (match p.nodes[a]?, p.nodes[b]? with
      | some na, some nb => na.op == .input && na.imm == 1 && nb.op == .const && nb.imm == 0
      | _, _ => false)
    | _, _ => false)
  | none => false

lemma imag_neg_test_value (p : Prog) (hwf : p.wf = true) (lib : Libm) (x y : Nat) (env : Array Nat)
    (he : evalNodes p.fmt lib [x, y] p.nodes #[] = some env) (c : Nat) (hc : isImagNegTest p c = true) :
    env[c]? = some (b2n (FAVerif.FP.lt p.fmt y 0)) := by
  unfold isImagNegTest at hc
  cases hn : p.nodes[c]? with
  | none => simp [hn] at hc
  | some n =>
    simp only [hn] at hc
    split at hc
    · rename_i a b hop hargs
      cases hna : p.nodes[a]? with
      | none => simp [hna] at hc
      | some na =>
        cases hnb : p.nodes[b]? with
        | none => simp [hna, hnb] at hc
        | some nb =>
          simp only [hna, hnb, Bool.and_eq_true, beq_iff_eq] at hc
          obtain ⟨⟨⟨h1, h2⟩, h3⟩, h4⟩ := hc
          have sa := (evalNodes_spec p hwf lib [x, y] env he a na hna).1
          have sb := (evalNodes_spec p hwf lib [x, y] env he b nb hnb).1
          have sc := (evalNodes_spec p hwf lib [x, y] env he c n hn).1
          unfold evalNode at sa sb sc
          simp only [h1, h2, List.getElem?_cons_succ, List.getElem?_cons_zero] at sa
          simp only [h3, h4] at sb
          simp only [hop, hargs, List.getElem?_cons_zero, List.getElem?_cons_succ, Option.bind_eq_bind, Option.bind_some,
            ← sa, ← sb] at sc
          exact sc.symm
    · simp at hc

theorem acosh_descs : ∀ p ∈ [rot_acosh_complex64, rot_acosh_complex128],
    isImagNegTest p (condOfOut p 1) = true ∧
    relOuts p [(condOfOut p 1, false)] 0 3 = .neg ∧ relOuts p [(condOfOut p 1, false)] 1 2 = .same ∧
    relOuts p [(condOfOut p 1, true)] 0 3 = .same ∧ relOuts p [(condOfOut p 1, true)] 1 2 = .neg ∧
    relOuts p [(condOfOut p 1, false)] 3 5 = .neg ∧ relOuts p [(condOfOut p 1, true)] 3 5 = .neg := by decide +kernel

/-- **acosh(z) = i·acos(z) when imag z is not negative, −i·acos(z) otherwise, and imag acos(z) = −imag asin(z)**,
for EVERY input pattern x, y (the combined program returns acosh(z), acos(z), asin(z)). -/
theorem acosh_rotation (p : Prog) (hp : p ∈ [rot_acosh_complex64, rot_acosh_complex128])
    (lib : Libm) (hlib : LibOK p.fmt lib) (x y ach_re ach_im ac_re ac_im as_re as_im : Nat)
    (h : p.eval lib [x, y] = some [ach_re, ach_im, ac_re, ac_im, as_re, as_im]) :
    (FAVerif.FP.lt p.fmt y 0 = false →
      eqvN p.fmt ach_re (FAVerif.FP.neg p.fmt ac_im) ∧ eqvN p.fmt ach_im ac_re) ∧
    (FAVerif.FP.lt p.fmt y 0 = true →
      eqvN p.fmt ach_re ac_im ∧ eqvN p.fmt ach_im (FAVerif.FP.neg p.fmt ac_re)) ∧
    eqvN p.fmt ac_im (FAVerif.FP.neg p.fmt as_im) := by
  have hw := rot_wf p (by
    simp only [List.mem_cons, List.mem_nil_iff, or_false] at hp ⊢
    rcases hp with rfl | rfl <;> simp)
  obtain ⟨dc, d1, d2, d3, d4, d5, d6⟩ := acosh_descs p hp
  obtain ⟨env, he, ho⟩ := eval_env p lib _ _ h
  obtain ⟨i0, q0, e0⟩ := mapM_get p.outs _ ho 0 ach_re rfl
  obtain ⟨i1, q1, e1⟩ := mapM_get p.outs _ ho 1 ach_im rfl
  obtain ⟨i2, q2, e2⟩ := mapM_get p.outs _ ho 2 ac_re rfl
  obtain ⟨i3, q3, e3⟩ := mapM_get p.outs _ ho 3 ac_im rfl
  obtain ⟨i5, q5, e5⟩ := mapM_get p.outs _ ho 5 as_im rfl
  have hcv := imag_neg_test_value p hw.1 lib x y env he _ dc
  have hasm : ∀ t : Bool, FAVerif.FP.lt p.fmt y 0 = t → AsmOK [(condOfOut p 1, t)] env := by
    intro t ht c t' hc
    simp only [List.lookup_cons, List.lookup_nil] at hc
    by_cases hcc : c = condOfOut p 1
    · subst hcc
      simp only [beq_self_eq_true] at hc
      cases hc
      refine ⟨_, hcv, ?_⟩
      rw [ht]; cases t <;> rfl
    · have : (c == condOfOut p 1) = false := by simpa using hcc
      simp [this] at hc
  refine ⟨fun ht => ?_, fun ht => ?_, ?_⟩
  · have r1 := rel_outs_sound p hw.1 hw.2 lib hlib [x, y] env he _ (hasm false ht) 0 3 i0 i3 _ _ q0 q3 e0 e3
    have r2 := rel_outs_sound p hw.1 hw.2 lib hlib [x, y] env he _ (hasm false ht) 1 2 i1 i2 _ _ q1 q2 e1 e2
    rw [d1] at r1; rw [d2] at r2
    exact ⟨r1, r2⟩
  · have r1 := rel_outs_sound p hw.1 hw.2 lib hlib [x, y] env he _ (hasm true ht) 0 3 i0 i3 _ _ q0 q3 e0 e3
    have r2 := rel_outs_sound p hw.1 hw.2 lib hlib [x, y] env he _ (hasm true ht) 1 2 i1 i2 _ _ q1 q2 e1 e2
    rw [d3] at r1; rw [d4] at r2
    exact ⟨r1, r2⟩
  · cases ht : FAVerif.FP.lt p.fmt y 0
    · have r := rel_outs_sound p hw.1 hw.2 lib hlib [x, y] env he _ (hasm false ht) 3 5 i3 i5 _ _ q3 q5 e3 e5
      rw [d5] at r; exact r
    · have r := rel_outs_sound p hw.1 hw.2 lib hlib [x, y] env he _ (hasm true ht) 3 5 i3 i5 _ _ q3 q5 e3 e5
      rw [d6] at r; exact r

end FAVerif.Props.C03
