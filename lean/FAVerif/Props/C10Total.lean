/-
C10 — the error-free transformations on BIT PATTERNS with NO assumption about the run.  The verified overflow analyser
(Models/Overflow.lean, soundness Lemmas/OverflowSound.lean) accepts the regenerated programs for explicit input exponents
(a kernel-evaluated check); with the forward refinement theorem this gives: for all finite operand patterns in the box the
bit-exact run exists, no operation overflows, and the outputs are the exact transformation.
-/
import FAVerif.Props.C10
import FAVerif.Lemmas.OverflowSound

namespace FAVerif.Props.C10
open FAVerif.IR FAVerif.FP FAVerif.FPQ FAVerif.Gen.C10 FAVerif.Refine FAVerif.SoftRound FAVerif.Ovf

/-- **the overflow analyser is sound** (any program it accepts; see `Ovf.overflow_free_refines`) -/
theorem overflow_analyser_sound (f : Fmt) (hf : WF f) (hL : 4 ≤ Lmax f) (nodes : List Node) (kinds : List Bool) (hk : kindsOfS nodes [] = some kinds)
    (E : List Int) (hchk : overflowFree f E nodes = true)
    (lib : Libm) (ins : List Nat) (insQ : List ℚ) (hins : InsRel f ins insQ)
    (hE : ∀ (i : Nat) (k : Int), E[i]? = some k → ∃ q, insQ[i]? = some q ∧ |q| ≤ 2 ^ k) :
    ∃ (env : Array Nat) (envQ : List ℚ), evalNodes f lib ins nodes #[] = some env ∧
      evalNodesQ f (rne (qf f hf.hp)) insQ nodes [] = some envQ ∧ Inv f kinds env envQ ∧
      (∀ (i : Nat) (v : Nat), env[i]? = some v → kinds[i]? = some false → isFiniteBits f v = true) :=
  overflow_free_refines hf hL nodes kinds hk E hchk lib ins insQ hins hE

/-- the checks, evaluated by the kernel on the regenerated programs: 2Sum up to 2^10 / 2^122 / 2^1018, Fast2Sum up to
2^12 / 2^124 / 2^1020, the splitter up to 2^5 / 2^111 / 2^992, Dekker's product up to 2^−4 / 2^46 / 2^479 -/
theorem overflow_checks :
    overflowFree binary16 [10, 10] add_2sum_f16.nodes = true ∧ overflowFree binary32 [122, 122] add_2sum_f32.nodes = true ∧
    overflowFree binary64 [1018, 1018] add_2sum_f64.nodes = true ∧
    overflowFree binary16 [12, 12] add_2sum_fast_f16.nodes = true ∧ overflowFree binary32 [124, 124] add_2sum_fast_f32.nodes = true ∧
    overflowFree binary64 [1020, 1020] add_2sum_fast_f64.nodes = true ∧
    overflowFree binary16 [5] split_veltkamp_f16.nodes = true ∧ overflowFree binary32 [111] split_veltkamp_f32.nodes = true ∧
    overflowFree binary64 [992] split_veltkamp_f64.nodes = true ∧
    overflowFree binary16 [-4, -4] mul_dekker_f16.nodes = true ∧ overflowFree binary32 [46, 46] mul_dekker_f32.nodes = true ∧
    overflowFree binary64 [479, 479] mul_dekker_f64.nodes = true := by decide +kernel

theorem total_kinds :
    kindsOfS add_2sum_f16.nodes [] = some (List.replicate 8 false) ∧ kindsOfS add_2sum_f32.nodes [] = some (List.replicate 8 false) ∧
    kindsOfS add_2sum_f64.nodes [] = some (List.replicate 8 false) ∧
    kindsOfS mul_dekker_f16.nodes [] = some (List.replicate 21 false) ∧ kindsOfS mul_dekker_f32.nodes [] = some (List.replicate 21 false) ∧
    kindsOfS mul_dekker_f64.nodes [] = some (List.replicate 21 false) := by decide +kernel

theorem Lmax_ge4 : 4 ≤ Lmax binary16 ∧ 4 ≤ Lmax binary32 ∧ 4 ≤ Lmax binary64 := by
  have h0 : Lmax binary16 = ((2 : ℚ) ^ 11 - 1) * 2 ^ (5 : ℤ) := rfl
  have h1 : Lmax binary32 = ((2 : ℚ) ^ 24 - 1) * 2 ^ (104 : ℤ) := rfl
  have h2 : Lmax binary64 = ((2 : ℚ) ^ 53 - 1) * 2 ^ (971 : ℤ) := rfl
  refine ⟨?_, ?_, ?_⟩
  · rw [h0]; norm_num
  · rw [h1]
    have : (1 : ℚ) ≤ 2 ^ (104 : ℤ) := one_le_zpow₀ (by norm_num) (by norm_num)
    have h3 : (4 : ℚ) ≤ 2 ^ 24 - 1 := by norm_num
    calc (4 : ℚ) = 4 * 1 := by ring
      _ ≤ (2 ^ 24 - 1) * 2 ^ (104 : ℤ) := mul_le_mul h3 this (by norm_num) (by linarith)
  · rw [h2]
    have : (1 : ℚ) ≤ 2 ^ (971 : ℤ) := one_le_zpow₀ (by norm_num) (by norm_num)
    have h3 : (4 : ℚ) ≤ 2 ^ 53 - 1 := by norm_num
    calc (4 : ℚ) = 4 * 1 := by ring
      _ ≤ (2 ^ 53 - 1) * 2 ^ (971 : ℤ) := mul_le_mul h3 this (by norm_num) (by linarith)

lemma rep_of_finite (f : Fmt) (hf : WF f) {x : Nat} {qx : ℚ} (hx : isFiniteBits f x = true) (vx : toQ f x = some qx) : Rep (qf f hf.hp) qx := by
  obtain ⟨s, m, e, d⟩ := finite_decode f x hx
  rw [toQ_fin f x s m e d] at vx; cases vx
  exact rep_of_decode f hf x s m e d

lemma replicate_false {n : Nat} : ∀ o ∈ ([] : List Nat), (List.replicate n false)[o]? = some false := by simp

/-- **2Sum on bit patterns, unconditional** (float32): for ALL finite operand patterns with |x|, |y| ≤ 2^122 the run of the
regenerated `add_2sum` exists, none of its six operations overflows, and the outputs satisfy value(s) = RNE(x + y),
value(s) + value(t) = x + y exactly. -/
theorem twosum_total_f32 (lib : Libm) (x y : Nat) (qx qy : ℚ) (hx : isFiniteBits binary32 x = true) (hy : isFiniteBits binary32 y = true)
    (vx : toQ binary32 x = some qx) (vy : toQ binary32 y = some qy) (bx : |qx| ≤ 2 ^ (122 : ℤ)) (bY : |qy| ≤ 2 ^ (122 : ℤ)) :
    ∃ s t : Nat, add_2sum_f32.eval lib [x, y] = some [s, t] ∧ isFiniteBits binary32 s = true ∧ isFiniteBits binary32 t = true ∧
      ∃ qs qt : ℚ, toQ binary32 s = some qs ∧ toQ binary32 t = some qt ∧ qs = rne (qf binary32 (by decide)) (qx + qy) ∧ qs + qt = qx + qy := by
  have hf : WF binary32 := ⟨by decide, by decide⟩
  have hq := (twosum_generated (qf binary32 hf.hp) (rne (qf binary32 hf.hp)) (isRN_rne _) qx qy (rep_of_finite _ hf hx vx) (rep_of_finite _ hf hy vy)).1
  obtain ⟨s, t, h1, h2, h3, h4, h5⟩ := total2 add_2sum_f32 hf Lmax_ge4.2.1 _ total_kinds.2.1
    (by intro o ho; have : o = 2 ∨ o = 7 := by simpa [add_2sum_f32] using ho
        rcases this with rfl | rfl <;> decide)
    [122, 122] overflow_checks.2.1 lib [x, y] [qx, qy] (insRel2 hx hy vx vy) (hE_two bx bY) _ _ hq
  exact ⟨s, t, h1, h2, h3, _, _, h4, h5, rfl, by ring⟩

theorem twosum_total_f64 (lib : Libm) (x y : Nat) (qx qy : ℚ) (hx : isFiniteBits binary64 x = true) (hy : isFiniteBits binary64 y = true)
    (vx : toQ binary64 x = some qx) (vy : toQ binary64 y = some qy) (bx : |qx| ≤ 2 ^ (1018 : ℤ)) (bY : |qy| ≤ 2 ^ (1018 : ℤ)) :
    ∃ s t : Nat, add_2sum_f64.eval lib [x, y] = some [s, t] ∧ isFiniteBits binary64 s = true ∧ isFiniteBits binary64 t = true ∧
      ∃ qs qt : ℚ, toQ binary64 s = some qs ∧ toQ binary64 t = some qt ∧ qs = rne (qf binary64 (by decide)) (qx + qy) ∧ qs + qt = qx + qy := by
  have hf : WF binary64 := ⟨by decide, by decide⟩
  have hq := (twosum_generated (qf binary64 hf.hp) (rne (qf binary64 hf.hp)) (isRN_rne _) qx qy (rep_of_finite _ hf hx vx) (rep_of_finite _ hf hy vy)).2.2.1
  obtain ⟨s, t, h1, h2, h3, h4, h5⟩ := total2 add_2sum_f64 hf Lmax_ge4.2.2 _ total_kinds.2.2.1
    (by intro o ho; have : o = 2 ∨ o = 7 := by simpa [add_2sum_f64] using ho
        rcases this with rfl | rfl <;> decide)
    [1018, 1018] overflow_checks.2.2.1 lib [x, y] [qx, qy] (insRel2 hx hy vx vy) (hE_two bx bY) _ _ hq
  exact ⟨s, t, h1, h2, h3, _, _, h4, h5, rfl, by ring⟩

theorem twosum_total_f16 (lib : Libm) (x y : Nat) (qx qy : ℚ) (hx : isFiniteBits binary16 x = true) (hy : isFiniteBits binary16 y = true)
    (vx : toQ binary16 x = some qx) (vy : toQ binary16 y = some qy) (bx : |qx| ≤ 2 ^ (10 : ℤ)) (bY : |qy| ≤ 2 ^ (10 : ℤ)) :
    ∃ s t : Nat, add_2sum_f16.eval lib [x, y] = some [s, t] ∧ isFiniteBits binary16 s = true ∧ isFiniteBits binary16 t = true ∧
      ∃ qs qt : ℚ, toQ binary16 s = some qs ∧ toQ binary16 t = some qt ∧ qs = rne (qf binary16 (by decide)) (qx + qy) ∧ qs + qt = qx + qy := by
  have hf : WF binary16 := ⟨by decide, by decide⟩
  have hq := (twosum_generated (qf binary16 hf.hp) (rne (qf binary16 hf.hp)) (isRN_rne _) qx qy (rep_of_finite _ hf hx vx) (rep_of_finite _ hf hy vy)).2.1
  obtain ⟨s, t, h1, h2, h3, h4, h5⟩ := total2 add_2sum_f16 hf Lmax_ge4.1 _ total_kinds.1
    (by intro o ho; have : o = 2 ∨ o = 7 := by simpa [add_2sum_f16] using ho
        rcases this with rfl | rfl <;> decide)
    [10, 10] overflow_checks.1 lib [x, y] [qx, qy] (insRel2 hx hy vx vy) (hE_two bx bY) _ _ hq
  exact ⟨s, t, h1, h2, h3, _, _, h4, h5, rfl, by ring⟩

/-- **Dekker's product on bit patterns, unconditional** (float32): for ALL normal operand patterns with |x|, |y| ≤ 2^46 whose
product's error term does not underflow (ex + ey ≥ emin) the run of the regenerated `mul_dekker` exists, none of its 17
operations overflows, and value(h) = RNE(x·y), value(h) + value(l) = x·y exactly. -/
theorem dekker_total_f32 (lib : Libm) (x y : Nat) (sx sy : Bool) (mx my : Nat) (ex ey : Int)
    (dx : decode binary32 x = .fin sx mx ex) (dy : decode binary32 y = .fin sy my ey)
    (nx : 2 ^ 23 ≤ mx) (ny : 2 ^ 23 ≤ my) (hund : binary32.emin ≤ ex + ey)
    (bx : |valQ sx mx ex| ≤ 2 ^ (46 : ℤ)) (bY : |valQ sy my ey| ≤ 2 ^ (46 : ℤ)) :
    ∃ h l : Nat, mul_dekker_f32.eval lib [x, y] = some [h, l] ∧ isFiniteBits binary32 h = true ∧ isFiniteBits binary32 l = true ∧
      ∃ qh ql : ℚ, toQ binary32 h = some qh ∧ toQ binary32 l = some ql ∧
        qh = rne (qf binary32 (by decide)) (valQ sx mx ex * valQ sy my ey) ∧ qh + ql = valQ sx mx ex * valQ sy my ey := by
  have hf : WF binary32 := ⟨by decide, by decide⟩
  obtain ⟨bx1, bx2⟩ := decode_bounds binary32 hf x sx mx ex dx
  obtain ⟨by1, by2⟩ := decode_bounds binary32 hf y sy my ey dy
  have habs : ∀ (s : Bool) (m : Nat), |(if s then -(m : ℤ) else (m : ℤ))| = (m : ℤ) := by
    intro s m; cases s <;> simp
  have hq := ((dekker_generated (rne (qf binary32 hf.hp)) (if sx then -(mx : ℤ) else mx) (if sy then -(my : ℤ) else my) ex ey _ _
    (valQ_int sx mx ex) (valQ_int sy my ey)).2.1 (qf binary32 hf.hp) rfl (isRN_rne _)
    (by rw [habs]; exact_mod_cast nx) (by rw [habs]; exact_mod_cast bx1)
    (by rw [habs]; exact_mod_cast ny) (by rw [habs]; exact_mod_cast by1) bx2 by2 hund).1
  obtain ⟨h, l, h1, h2, h3, h4, h5⟩ := total2 mul_dekker_f32 hf Lmax_ge4.2.1 _ total_kinds.2.2.2.2.1
    (by intro o ho; have : o = 2 ∨ o = 20 := by simpa [mul_dekker_f32] using ho
        rcases this with rfl | rfl <;> decide)
    [46, 46] overflow_checks.2.2.2.2.2.2.2.2.2.2.1 lib [x, y] _
    (insRel2 (finite_of_decode _ _ _ _ _ dx) (finite_of_decode _ _ _ _ _ dy) (toQ_fin _ x sx mx ex dx) (toQ_fin _ y sy my ey dy))
    (hE_two bx bY) _ _ hq
  exact ⟨h, l, h1, h2, h3, _, _, h4, h5, rfl, by ring⟩

theorem dekker_total_f64 (lib : Libm) (x y : Nat) (sx sy : Bool) (mx my : Nat) (ex ey : Int)
    (dx : decode binary64 x = .fin sx mx ex) (dy : decode binary64 y = .fin sy my ey)
    (nx : 2 ^ 52 ≤ mx) (ny : 2 ^ 52 ≤ my) (hund : binary64.emin ≤ ex + ey)
    (bx : |valQ sx mx ex| ≤ 2 ^ (479 : ℤ)) (bY : |valQ sy my ey| ≤ 2 ^ (479 : ℤ)) :
    ∃ h l : Nat, mul_dekker_f64.eval lib [x, y] = some [h, l] ∧ isFiniteBits binary64 h = true ∧ isFiniteBits binary64 l = true ∧
      ∃ qh ql : ℚ, toQ binary64 h = some qh ∧ toQ binary64 l = some ql ∧
        qh = rne (qf binary64 (by decide)) (valQ sx mx ex * valQ sy my ey) ∧ qh + ql = valQ sx mx ex * valQ sy my ey := by
  have hf : WF binary64 := ⟨by decide, by decide⟩
  obtain ⟨bx1, bx2⟩ := decode_bounds binary64 hf x sx mx ex dx
  obtain ⟨by1, by2⟩ := decode_bounds binary64 hf y sy my ey dy
  have habs : ∀ (s : Bool) (m : Nat), |(if s then -(m : ℤ) else (m : ℤ))| = (m : ℤ) := by
    intro s m; cases s <;> simp
  have hq := ((dekker_generated (rne (qf binary64 hf.hp)) (if sx then -(mx : ℤ) else mx) (if sy then -(my : ℤ) else my) ex ey _ _
    (valQ_int sx mx ex) (valQ_int sy my ey)).2.2 (qf binary64 hf.hp) rfl (isRN_rne _)
    (by rw [habs]; exact_mod_cast nx) (by rw [habs]; exact_mod_cast bx1)
    (by rw [habs]; exact_mod_cast ny) (by rw [habs]; exact_mod_cast by1) bx2 by2 hund).1
  obtain ⟨h, l, h1, h2, h3, h4, h5⟩ := total2 mul_dekker_f64 hf Lmax_ge4.2.2 _ total_kinds.2.2.2.2.2
    (by intro o ho; have : o = 2 ∨ o = 20 := by simpa [mul_dekker_f64] using ho
        rcases this with rfl | rfl <;> decide)
    [479, 479] overflow_checks.2.2.2.2.2.2.2.2.2.2.2 lib [x, y] _
    (insRel2 (finite_of_decode _ _ _ _ _ dx) (finite_of_decode _ _ _ _ _ dy) (toQ_fin _ x sx mx ex dx) (toQ_fin _ y sy my ey dy))
    (hE_two bx bY) _ _ hq
  exact ⟨h, l, h1, h2, h3, _, _, h4, h5, rfl, by ring⟩

theorem total_kinds2 :
    kindsOfS add_2sum_fast_f32.nodes [] = some (List.replicate 5 false) ∧ kindsOfS split_veltkamp_f32.nodes [] = some (List.replicate 6 false) := by
  decide +kernel

/-- **Fast2Sum on bit patterns, unconditional** (float32): finite operand patterns with |y| ≤ |x| ≤ 2^124 -/
theorem fast2sum_total_f32 (lib : Libm) (x y : Nat) (qx qy : ℚ) (hx : isFiniteBits binary32 x = true) (hy : isFiniteBits binary32 y = true)
    (vx : toQ binary32 x = some qx) (vy : toQ binary32 y = some qy) (hxy : |qy| ≤ |qx|) (bx : |qx| ≤ 2 ^ (124 : ℤ)) :
    ∃ s t : Nat, add_2sum_fast_f32.eval lib [x, y] = some [s, t] ∧ isFiniteBits binary32 s = true ∧ isFiniteBits binary32 t = true ∧
      ∃ qs qt : ℚ, toQ binary32 s = some qs ∧ toQ binary32 t = some qt ∧ qs = rne (qf binary32 (by decide)) (qx + qy) ∧ qs + qt = qx + qy := by
  have hf : WF binary32 := ⟨by decide, by decide⟩
  have hq := (fast2sum_generated (qf binary32 hf.hp) (rne (qf binary32 hf.hp)) (isRN_rne _) qx qy (rep_of_finite _ hf hx vx) (rep_of_finite _ hf hy vy) hxy).1
  obtain ⟨s, t, h1, h2, h3, h4, h5⟩ := total2 add_2sum_fast_f32 hf Lmax_ge4.2.1 _ total_kinds2.1
    (by intro o ho; have : o = 2 ∨ o = 4 := by simpa [add_2sum_fast_f32] using ho
        rcases this with rfl | rfl <;> decide)
    [124, 124] overflow_checks.2.2.2.2.1 lib [x, y] [qx, qy] (insRel2 hx hy vx vy) (hE_two bx (le_trans hxy bx)) _ _ hq
  exact ⟨s, t, h1, h2, h3, _, _, h4, h5, rfl, by ring⟩

/-- **Veltkamp's splitter on bit patterns, unconditional** (float32): every normal pattern ±m·2^e with |x| ≤ 2^111: the run
exists, is finite, and value(xh) + value(xl) = x with xh on the grid 2^(e+12) and |xl| ≤ 2^(e+11). -/
theorem split_total_f32 (lib : Libm) (x : Nat) (s : Bool) (m : Nat) (e : Int) (dx : decode binary32 x = .fin s m e)
    (nm : 2 ^ 23 ≤ m) (bx : |valQ s m e| ≤ 2 ^ (111 : ℤ)) :
    ∃ h l : Nat, split_veltkamp_f32.eval lib [x] = some [h, l] ∧ isFiniteBits binary32 h = true ∧ isFiniteBits binary32 l = true ∧
      ∃ qh ql : ℚ, toQ binary32 h = some qh ∧ toQ binary32 l = some ql ∧ qh + ql = valQ s m e ∧ Mult (e + 12) qh ∧ |ql| ≤ 2 ^ (e + 12) / 2 := by
  have hf : WF binary32 := ⟨by decide, by decide⟩
  obtain ⟨b1, b2⟩ := decode_bounds binary32 hf x s m e dx
  have habs : |(if s then -(m : ℤ) else (m : ℤ))| = (m : ℤ) := by cases s <;> simp
  obtain ⟨xh, xl, hq, hsum, hM, -, -, hl⟩ := (split_generated (rne (qf binary32 hf.hp)) (if s then -(m : ℤ) else m) e).2.1 (qf binary32 hf.hp) rfl (isRN_rne _)
    (by rw [habs]; exact_mod_cast nm) (by rw [habs]; exact_mod_cast b1) b2
  rw [← valQ_int s m e] at hq hsum
  obtain ⟨h, l, h1, h2, h3, h4, h5⟩ := total2 split_veltkamp_f32 hf Lmax_ge4.2.1 _ total_kinds2.2
    (by intro o ho; have : o = 4 ∨ o = 5 := by simpa [split_veltkamp_f32] using ho
        rcases this with rfl | rfl <;> decide)
    [111] overflow_checks.2.2.2.2.2.2.2.1 lib [x] _ (insRel1 (finite_of_decode _ _ _ _ _ dx) (toQ_fin _ x s m e dx)) (hE_one bx) _ _ hq
  exact ⟨h, l, h1, h2, h3, xh, xl, h4, h5, hsum, hM, hl⟩

theorem fix_checks : overflowFree binary32 [122, 122] add_2sum_fix_f32.nodes = true ∧
    kindsOfS add_2sum_fix_f32.nodes [] = some [false, false, false, false, false, false, true, false, false, false, false, false, false] := by
  decide +kernel

lemma pow124_le_maxRat32 : (2 : ℚ) ^ (124 : ℤ) ≤ maxRat binary32 := by
  have h : maxRat binary32 = ((2 : ℚ) ^ 24 - 1) * 2 ^ (104 : ℕ) := by
    unfold maxRat pow2
    have e1 : binary32.emaxUlp = 104 := by decide +kernel
    have e2 : binary32.p = 24 := rfl
    simp only [e1, e2]
    have : Int.toNat 104 = 104 := rfl
    norm_num [this]
  rw [h]
  norm_num

/-- **2Sum with the overflow guard (`fix_overflow=True`) on bit patterns, unconditional** (float32, |x|, |y| ≤ 2^122): the guard
is not taken, the run exists, is finite, and (s, t) is the exact transformation. -/
theorem twosum_fix_total_f32 (lib : Libm) (x y : Nat) (qx qy : ℚ) (hx : isFiniteBits binary32 x = true) (hy : isFiniteBits binary32 y = true)
    (vx : toQ binary32 x = some qx) (vy : toQ binary32 y = some qy) (bx : |qx| ≤ 2 ^ (122 : ℤ)) (bY : |qy| ≤ 2 ^ (122 : ℤ)) :
    ∃ s t : Nat, add_2sum_fix_f32.eval lib [x, y] = some [s, t] ∧ isFiniteBits binary32 s = true ∧ isFiniteBits binary32 t = true ∧
      ∃ qs qt : ℚ, toQ binary32 s = some qs ∧ toQ binary32 t = some qt ∧ qs = rne (qf binary32 (by decide)) (qx + qy) ∧ qs + qt = qx + qy := by
  have hf : WF binary32 := ⟨by decide, by decide⟩
  have hr := isRN_rne (qf binary32 hf.hp)
  have hem : ∀ k : ℤ, 0 ≤ k → (qf binary32 hf.hp).emin ≤ k := fun k hk => by
    have : binary32.emin = -149 := by decide +kernel
    show binary32.emin ≤ k
    omega
  have p123 : (2 : ℚ) ^ (123 : ℤ) = 2 ^ (122 : ℤ) + 2 ^ (122 : ℤ) := by
    rw [show (123 : ℤ) = 122 + 1 by norm_num, zpow_add₀ (by norm_num : (2 : ℚ) ≠ 0)]; norm_num
  have p124 : (2 : ℚ) ^ (124 : ℤ) = 2 ^ (123 : ℤ) + 2 ^ (123 : ℤ) := by
    rw [show (124 : ℤ) = 123 + 1 by norm_num, zpow_add₀ (by norm_num : (2 : ℚ) ≠ 0)]; norm_num
  have b1 : |rne (qf binary32 hf.hp) (qx + qy)| ≤ 2 ^ (123 : ℤ) :=
    abs_rn_le_pow hr (hem _ (by norm_num)) (by rw [p123]; exact le_trans (abs_add_le _ _) (add_le_add bx bY))
  have b2 : |rne (qf binary32 hf.hp) (rne (qf binary32 hf.hp) (qx + qy) - qx)| ≤ 2 ^ (124 : ℤ) :=
    abs_rn_le_pow hr (hem _ (by norm_num)) (by
      rw [p124]
      refine le_trans (abs_sub _ _) (add_le_add b1 (le_trans bx ?_))
      exact zpow_le_zpow_right₀ (by norm_num) (by norm_num))
  have hq := (twosum_fix_generated (qf binary32 hf.hp) (rne (qf binary32 hf.hp)) hr qx qy (rep_of_finite _ hf hx vx) (rep_of_finite _ hf hy vy)).1
    (le_trans b2 pow124_le_maxRat32)
  obtain ⟨s, t, h1, h2, h3, h4, h5⟩ := total2 add_2sum_fix_f32 hf Lmax_ge4.2.1 _ fix_checks.2
    (by intro o ho; have : o = 2 ∨ o = 12 := by simpa [add_2sum_fix_f32] using ho
        rcases this with rfl | rfl <;> decide)
    [122, 122] fix_checks.1 lib [x, y] [qx, qy] (insRel2 hx hy vx vy) (hE_two bx bY) _ _ hq
  exact ⟨s, t, h1, h2, h3, _, _, h4, h5, rfl, by ring⟩

end FAVerif.Props.C10
