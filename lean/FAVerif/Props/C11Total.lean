/-
C11 — `next(x, up=True)` on BIT PATTERNS with NO assumption about the run (float32): for every pattern of a positive
normal x = m·2^e with x ≤ 2^126 the run exists, neither x/c nor x·c overflows, and the result is the successor (m+1)·2^e
(= nextafter(x, +inf)).  Overflow analyser + forward refinement theorem (see Props/C10Total.lean).
-/
import FAVerif.Props.C11
import FAVerif.Lemmas.OverflowSound

namespace FAVerif.Props.C11
open FAVerif.IR FAVerif.FP FAVerif.FPQ FAVerif.Gen.C11 FAVerif.Refine FAVerif.SoftRound FAVerif.Ovf

theorem next_overflow_checks :
    overflowFree binary16 [14] next_up_f16.nodes = true ∧ overflowFree binary32 [126] next_up_f32.nodes = true ∧
    overflowFree binary64 [1022] next_up_f64.nodes = true ∧ overflowFree binary32 [126] next_down_f32.nodes = true := by decide +kernel

theorem next_kindsS : kindsOfS next_up_f32.nodes [] = some nextKinds ∧ kindsOfS next_down_f32.nodes [] = some nextKinds ∧
    kindsOfS next_up_f16.nodes [] = some nextKinds ∧ kindsOfS next_up_f64.nodes [] = some nextKinds := by decide +kernel

theorem Lmax32_ge4 : 4 ≤ Lmax binary32 := by
  have h1 : Lmax binary32 = ((2 : ℚ) ^ 24 - 1) * 2 ^ (104 : ℤ) := rfl
  rw [h1]
  have : (1 : ℚ) ≤ 2 ^ (104 : ℤ) := one_le_zpow₀ (by norm_num) (by norm_num)
  have h3 : (4 : ℚ) ≤ 2 ^ 24 - 1 := by norm_num
  calc (4 : ℚ) = 4 * 1 := by ring
    _ ≤ (2 ^ 24 - 1) * 2 ^ (104 : ℤ) := mul_le_mul h3 this (by norm_num) (by linarith)

/-- **`next(x, up=True)` = nextafter(x, +inf) on bit patterns, unconditional** (float32, positive normal x ≤ 2^126) -/
theorem next_up_total_f32 (lib : Libm) (x : Nat) (m : Nat) (e : Int) (dx : decode binary32 x = .fin false m e)
    (nm : 2 ^ 23 ≤ m) (bx : (m : ℚ) * 2 ^ e ≤ 2 ^ (126 : ℤ)) :
    ∃ o : Nat, next_up_f32.eval lib [x] = some [o] ∧ isFiniteBits binary32 o = true ∧ toQ binary32 o = some (((m : ℚ) + 1) * 2 ^ e) := by
  have hf : WF binary32 := ⟨by decide, by decide⟩
  obtain ⟨b1, b2⟩ := decode_bounds binary32 hf x false m e dx
  have hins := insRel1 (finite_of_decode _ _ _ _ _ dx) (toQ_fin _ x false m e dx)
  have hv : valQ false m e = ((m : ℤ) : ℚ) * 2 ^ e := by simp [valQ]
  rw [hv] at hins
  have hq := (next_up_generated (rne (qf binary32 hf.hp)) (qf binary32 hf.hp) rfl (isRN_rne _) (m : ℤ) e
    (by exact_mod_cast nm) (by exact_mod_cast b1) b2).1
  have hb : |((m : ℤ) : ℚ) * 2 ^ e| ≤ 2 ^ (126 : ℤ) := by
    rw [abs_of_nonneg (by positivity)]; exact_mod_cast bx
  obtain ⟨o, h1, h2, h3⟩ := total1 next_up_f32 hf Lmax32_ge4 nextKinds next_kindsS.1 6 (by decide) (by decide)
    [126] next_overflow_checks.2.1 lib [x] _ hins (hE_one hb) _ hq
  have hfm : next_up_f32.fmt = binary32 := by decide
  rw [hfm] at h2 h3
  exact ⟨o, h1, h2, by simpa using h3⟩

lemma pow127_le_Lmax32 : (2 : ℚ) ^ (127 : ℤ) ≤ Lmax binary32 := by
  have h := pow_kmax_le_Lmax binary32 ⟨by decide, by decide⟩
  have hk : kmax binary32 = 127 := by decide +kernel
  have e : (2 : ℚ) ^ (127 : ℤ) = 2 ^ kmax binary32 := congrArg (fun k : ℤ => (2 : ℚ) ^ k) hk.symm
  rw [e]; exact h

/-- **`is_power_of_two` exact on bit patterns, unconditional** (float32): for EVERY pattern of a normal number ±m·2^e with
|x| ≤ 2^102 the traced program returns 1 if x is a power of two and 0 otherwise — the three finiteness hypotheses of
`is_power_of_two_bit_exact_f32` are proved from the bound (`mul_finite`, `sub_finite`). -/
theorem is_power_of_two_total_f32 (lib : Libm) (x : Nat) (s : Bool) (m : Nat) (e : Int)
    (dx : decode binary32 x = .fin s m e) (nm : 2 ^ 23 ≤ m) (bx : |valQ s m e| ≤ 2 ^ (102 : ℤ)) :
    is_power_of_two_f32.eval lib [x] = some [b2n (decide (m = 2 ^ 23))] := by
  have hf : WF binary32 := ⟨by decide, by decide⟩
  have hr := isRN_rne (qf binary32 hf.hp)
  have dP : decode binary32 1258291201 = .fin false 8388609 0 := by decide +kernel
  have dQ : decode binary32 1258291200 = .fin false 8388608 0 := by decide +kernel
  have hP : valQ false 8388609 0 = 2 ^ 23 + 1 := by simp [valQ]; norm_num
  have hQ : valQ false 8388608 0 = 2 ^ 23 := by simp [valQ]; norm_num
  have hem : (qf binary32 hf.hp).emin ≤ (126 : ℤ) := by show binary32.emin ≤ 126; decide
  have hem7 : (qf binary32 hf.hp).emin ≤ (127 : ℤ) := by show binary32.emin ≤ 127; decide
  have e126 : (2 : ℚ) ^ (126 : ℤ) = 2 ^ (24 : ℤ) * 2 ^ (102 : ℤ) := by rw [← zpow_add₀ (by norm_num : (2 : ℚ) ≠ 0)]; norm_num
  have bL : |valQ false 8388609 0 * valQ s m e| ≤ 2 ^ (126 : ℤ) := by
    rw [hP, abs_mul, e126]
    apply mul_le_mul _ bx (abs_nonneg _) (by positivity)
    rw [abs_of_pos (by norm_num)]; norm_num
  have bR : |valQ false 8388608 0 * valQ s m e| ≤ 2 ^ (126 : ℤ) := by
    rw [hQ, abs_mul, e126]
    apply mul_le_mul _ bx (abs_nonneg _) (by positivity)
    rw [abs_of_pos (by norm_num)]; norm_num
  have rL := abs_rn_le_pow hr hem bL
  have rR := abs_rn_le_pow hr hem bR
  have h126 : (2 : ℚ) ^ (126 : ℤ) ≤ Lmax binary32 := le_trans (zpow_le_zpow_right₀ (by norm_num) (by norm_num)) pow127_le_Lmax32
  have fL := mul_finite binary32 hf 1258291201 x false s 8388609 m 0 e dP dx (le_trans rL h126)
  have fR := mul_finite binary32 hf 1258291200 x false s 8388608 m 0 e dQ dx (le_trans rR h126)
  obtain ⟨sL, mL, eL, dL⟩ := finite_decode binary32 _ fL
  obtain ⟨sR, mR, eR, dR⟩ := finite_decode binary32 _ fR
  have vL := mul_correct binary32 hf _ x false s 8388609 m 0 e dP dx fL
  have vR := mul_correct binary32 hf _ x false s 8388608 m 0 e dQ dx fR
  have eL' : valQ sL mL eL = rne (qf binary32 hf.hp) (valQ false 8388609 0 * valQ s m e) := by
    have := toQ_fin binary32 _ sL mL eL dL; rw [vL] at this; exact (Option.some.inj this).symm
  have eR' : valQ sR mR eR = rne (qf binary32 hf.hp) (valQ false 8388608 0 * valQ s m e) := by
    have := toQ_fin binary32 _ sR mR eR dR; rw [vR] at this; exact (Option.some.inj this).symm
  have bD : |valQ sL mL eL - valQ sR mR eR| ≤ 2 ^ (127 : ℤ) := by
    rw [eL', eR']
    have e127 : (2 : ℚ) ^ (127 : ℤ) = 2 ^ (126 : ℤ) + 2 ^ (126 : ℤ) := by
      rw [show (127 : ℤ) = 126 + 1 by norm_num, zpow_add₀ (by norm_num : (2 : ℚ) ≠ 0)]; norm_num
    rw [e127]
    exact le_trans (abs_sub _ _) (add_le_add rL rR)
  have fD := sub_finite binary32 hf _ _ sL sR mL mR eL eR dL dR (le_trans (abs_rn_le_pow hr hem7 bD) pow127_le_Lmax32)
  exact is_power_of_two_bit_exact_f32 lib x s m e dx nm fL fR fD

theorem Lmax_ge4' : 4 ≤ Lmax binary16 ∧ 4 ≤ Lmax binary64 := by
  have h0 : Lmax binary16 = ((2 : ℚ) ^ 11 - 1) * 2 ^ (5 : ℤ) := rfl
  have h2 : Lmax binary64 = ((2 : ℚ) ^ 53 - 1) * 2 ^ (971 : ℤ) := rfl
  refine ⟨by rw [h0]; norm_num, ?_⟩
  rw [h2]
  have : (1 : ℚ) ≤ 2 ^ (971 : ℤ) := one_le_zpow₀ (by norm_num) (by norm_num)
  have h3 : (4 : ℚ) ≤ 2 ^ 53 - 1 := by norm_num
  calc (4 : ℚ) = 4 * 1 := by ring
    _ ≤ (2 ^ 53 - 1) * 2 ^ (971 : ℤ) := mul_le_mul h3 this (by norm_num) (by linarith)

/-- `next(x, up=True)` = nextafter(x, +inf), unconditional, float16 (positive normal x ≤ 2^14) and float64 (x ≤ 2^1022) -/
theorem next_up_total_f16 (lib : Libm) (x : Nat) (m : Nat) (e : Int) (dx : decode binary16 x = .fin false m e)
    (nm : 2 ^ 10 ≤ m) (bx : (m : ℚ) * 2 ^ e ≤ 2 ^ (14 : ℤ)) :
    ∃ o : Nat, next_up_f16.eval lib [x] = some [o] ∧ isFiniteBits binary16 o = true ∧ toQ binary16 o = some (((m : ℚ) + 1) * 2 ^ e) := by
  have hf : WF binary16 := ⟨by decide, by decide⟩
  obtain ⟨b1, b2⟩ := decode_bounds binary16 hf x false m e dx
  have hins := insRel1 (finite_of_decode _ _ _ _ _ dx) (toQ_fin _ x false m e dx)
  have hv : valQ false m e = ((m : ℤ) : ℚ) * 2 ^ e := by simp [valQ]
  rw [hv] at hins
  have hq := (next_up_generated_f16 (rne (qf binary16 hf.hp)) (qf binary16 hf.hp) rfl (isRN_rne _) (m : ℤ) e
    (by exact_mod_cast nm) (by exact_mod_cast b1) b2).1
  have hb : |((m : ℤ) : ℚ) * 2 ^ e| ≤ 2 ^ (14 : ℤ) := by
    rw [abs_of_nonneg (by positivity)]; exact_mod_cast bx
  obtain ⟨o, h1, h2, h3⟩ := total1 next_up_f16 hf Lmax_ge4'.1 nextKinds next_kindsS.2.2.1 6 (by decide) (by decide)
    [14] next_overflow_checks.1 lib [x] _ hins (hE_one hb) _ hq
  have hfm : next_up_f16.fmt = binary16 := by decide
  rw [hfm] at h2 h3
  exact ⟨o, h1, h2, by simpa using h3⟩

theorem next_up_total_f64 (lib : Libm) (x : Nat) (m : Nat) (e : Int) (dx : decode binary64 x = .fin false m e)
    (nm : 2 ^ 52 ≤ m) (bx : (m : ℚ) * 2 ^ e ≤ 2 ^ (1022 : ℤ)) :
    ∃ o : Nat, next_up_f64.eval lib [x] = some [o] ∧ isFiniteBits binary64 o = true ∧ toQ binary64 o = some (((m : ℚ) + 1) * 2 ^ e) := by
  have hf : WF binary64 := ⟨by decide, by decide⟩
  obtain ⟨b1, b2⟩ := decode_bounds binary64 hf x false m e dx
  have hins := insRel1 (finite_of_decode _ _ _ _ _ dx) (toQ_fin _ x false m e dx)
  have hv : valQ false m e = ((m : ℤ) : ℚ) * 2 ^ e := by simp [valQ]
  rw [hv] at hins
  have hq := (next_up_generated_f64 (rne (qf binary64 hf.hp)) (qf binary64 hf.hp) rfl (isRN_rne _) (m : ℤ) e
    (by exact_mod_cast nm) (by exact_mod_cast b1) b2).1
  have hb : |((m : ℤ) : ℚ) * 2 ^ e| ≤ 2 ^ (1022 : ℤ) := by
    rw [abs_of_nonneg (by positivity)]; exact_mod_cast bx
  obtain ⟨o, h1, h2, h3⟩ := total1 next_up_f64 hf Lmax_ge4'.2 nextKinds next_kindsS.2.2.2 6 (by decide) (by decide)
    [1022] next_overflow_checks.2.2.1 lib [x] _ hins (hE_one hb) _ hq
  have hfm : next_up_f64.fmt = binary64 := by decide
  rw [hfm] at h2 h3
  exact ⟨o, h1, h2, by simpa using h3⟩

/-- `next(x, up=False)` on a negative normal x = −m·2^e ≥ −2^126 is nextafter(x, −inf) = −(m+1)·2^e (float32) -/
theorem next_down_total_f32 (lib : Libm) (x : Nat) (m : Nat) (e : Int) (dx : decode binary32 x = .fin true m e)
    (nm : 2 ^ 23 ≤ m) (bx : (m : ℚ) * 2 ^ e ≤ 2 ^ (126 : ℤ)) :
    ∃ o : Nat, next_down_f32.eval lib [x] = some [o] ∧ isFiniteBits binary32 o = true ∧ toQ binary32 o = some (-(((m : ℚ) + 1) * 2 ^ e)) := by
  have hf : WF binary32 := ⟨by decide, by decide⟩
  obtain ⟨b1, b2⟩ := decode_bounds binary32 hf x true m e dx
  have hins := insRel1 (finite_of_decode _ _ _ _ _ dx) (toQ_fin _ x true m e dx)
  have hv : valQ true m e = -(((m : ℤ) : ℚ) * 2 ^ e) := by simp [valQ]
  rw [hv] at hins
  have hq := (next_up_generated (rne (qf binary32 hf.hp)) (qf binary32 hf.hp) rfl (isRN_rne _) (m : ℤ) e
    (by exact_mod_cast nm) (by exact_mod_cast b1) b2).2
  have hb : |(-(((m : ℤ) : ℚ) * 2 ^ e))| ≤ 2 ^ (126 : ℤ) := by
    rw [abs_neg, abs_of_nonneg (by positivity)]; exact_mod_cast bx
  obtain ⟨o, h1, h2, h3⟩ := total1 next_down_f32 hf Lmax32_ge4 nextKinds next_kindsS.2.1 6 (by decide) (by decide)
    [126] next_overflow_checks.2.2.2 lib [x] _ hins (hE_one hb) _ hq
  have hfm : next_down_f32.fmt = binary32 := by decide
  rw [hfm] at h2 h3
  exact ⟨o, h1, h2, by simpa using h3⟩

lemma pow15_le_Lmaxf16 : (2 : ℚ) ^ (15 : ℤ) ≤ Lmax binary16 := by
  have h := pow_kmax_le_Lmax binary16 ⟨by decide, by decide⟩
  have hk : kmax binary16 = 15 := by decide +kernel
  have e : (2 : ℚ) ^ (15 : ℤ) = 2 ^ kmax binary16 := congrArg (fun k : ℤ => (2 : ℚ) ^ k) hk.symm
  rw [e]; exact h

/-- **`is_power_of_two` exact on bit patterns, unconditional** (float16): for EVERY pattern of a normal number ±m·2^e with
|x| ≤ 2^3 the traced program returns 1 if x is a power of two and 0 otherwise — the three finiteness hypotheses of
`is_power_of_two_bit_exact_f16` are proved from the bound (`mul_finite`, `sub_finite`). -/
theorem is_power_of_two_total_f16 (lib : Libm) (x : Nat) (s : Bool) (m : Nat) (e : Int)
    (dx : decode binary16 x = .fin s m e) (nm : 2 ^ 10 ≤ m) (bx : |valQ s m e| ≤ 2 ^ (3 : ℤ)) :
    is_power_of_two_f16.eval lib [x] = some [b2n (decide (m = 2 ^ 10))] := by
  have hf : WF binary16 := ⟨by decide, by decide⟩
  have hr := isRN_rne (qf binary16 hf.hp)
  have dP : decode binary16 25601 = .fin false 1025 0 := by decide +kernel
  have dQ : decode binary16 25600 = .fin false 1024 0 := by decide +kernel
  have hP : valQ false 1025 0 = 2 ^ 10 + 1 := by simp [valQ]; norm_num
  have hQ : valQ false 1024 0 = 2 ^ 10 := by simp [valQ]; norm_num
  have hem : (qf binary16 hf.hp).emin ≤ (14 : ℤ) := by show binary16.emin ≤ 14; decide
  have hemK : (qf binary16 hf.hp).emin ≤ (15 : ℤ) := by show binary16.emin ≤ 15; decide
  have eK1 : (2 : ℚ) ^ (14 : ℤ) = 2 ^ (11 : ℤ) * 2 ^ (3 : ℤ) := by rw [← zpow_add₀ (by norm_num : (2 : ℚ) ≠ 0)]; norm_num
  have bL : |valQ false 1025 0 * valQ s m e| ≤ 2 ^ (14 : ℤ) := by
    rw [hP, abs_mul, eK1]
    apply mul_le_mul _ bx (abs_nonneg _) (by positivity)
    rw [abs_of_pos (by norm_num)]; norm_num
  have bR : |valQ false 1024 0 * valQ s m e| ≤ 2 ^ (14 : ℤ) := by
    rw [hQ, abs_mul, eK1]
    apply mul_le_mul _ bx (abs_nonneg _) (by positivity)
    rw [abs_of_pos (by norm_num)]; norm_num
  have rL := abs_rn_le_pow hr hem bL
  have rR := abs_rn_le_pow hr hem bR
  have hK1 : (2 : ℚ) ^ (14 : ℤ) ≤ Lmax binary16 := le_trans (zpow_le_zpow_right₀ (by norm_num) (by norm_num)) pow15_le_Lmaxf16
  have fL := mul_finite binary16 hf 25601 x false s 1025 m 0 e dP dx (le_trans rL hK1)
  have fR := mul_finite binary16 hf 25600 x false s 1024 m 0 e dQ dx (le_trans rR hK1)
  obtain ⟨sL, mL, eL, dL⟩ := finite_decode binary16 _ fL
  obtain ⟨sR, mR, eR, dR⟩ := finite_decode binary16 _ fR
  have vL := mul_correct binary16 hf _ x false s 1025 m 0 e dP dx fL
  have vR := mul_correct binary16 hf _ x false s 1024 m 0 e dQ dx fR
  have eL' : valQ sL mL eL = rne (qf binary16 hf.hp) (valQ false 1025 0 * valQ s m e) := by
    have := toQ_fin binary16 _ sL mL eL dL; rw [vL] at this; exact (Option.some.inj this).symm
  have eR' : valQ sR mR eR = rne (qf binary16 hf.hp) (valQ false 1024 0 * valQ s m e) := by
    have := toQ_fin binary16 _ sR mR eR dR; rw [vR] at this; exact (Option.some.inj this).symm
  have bD : |valQ sL mL eL - valQ sR mR eR| ≤ 2 ^ (15 : ℤ) := by
    rw [eL', eR']
    have eK : (2 : ℚ) ^ (15 : ℤ) = 2 ^ (14 : ℤ) + 2 ^ (14 : ℤ) := by
      rw [show (15 : ℤ) = 14 + 1 by norm_num, zpow_add₀ (by norm_num : (2 : ℚ) ≠ 0), zpow_one]; ring
    rw [eK]
    exact le_trans (abs_sub _ _) (add_le_add rL rR)
  have fD := sub_finite binary16 hf _ _ sL sR mL mR eL eR dL dR (le_trans (abs_rn_le_pow hr hemK bD) pow15_le_Lmaxf16)
  exact is_power_of_two_bit_exact_f16 lib x s m e dx nm fL fR fD


lemma pow1023_le_Lmaxf64 : (2 : ℚ) ^ (1023 : ℤ) ≤ Lmax binary64 := by
  have h := pow_kmax_le_Lmax binary64 ⟨by decide, by decide⟩
  have hk : kmax binary64 = 1023 := by decide +kernel
  have e : (2 : ℚ) ^ (1023 : ℤ) = 2 ^ kmax binary64 := congrArg (fun k : ℤ => (2 : ℚ) ^ k) hk.symm
  rw [e]; exact h

/-- **`is_power_of_two` exact on bit patterns, unconditional** (float64): for EVERY pattern of a normal number ±m·2^e with
|x| ≤ 2^969 the traced program returns 1 if x is a power of two and 0 otherwise — the three finiteness hypotheses of
`is_power_of_two_bit_exact_f64` are proved from the bound (`mul_finite`, `sub_finite`). -/
theorem is_power_of_two_total_f64 (lib : Libm) (x : Nat) (s : Bool) (m : Nat) (e : Int)
    (dx : decode binary64 x = .fin s m e) (nm : 2 ^ 52 ≤ m) (bx : |valQ s m e| ≤ 2 ^ (969 : ℤ)) :
    is_power_of_two_f64.eval lib [x] = some [b2n (decide (m = 2 ^ 52))] := by
  have hf : WF binary64 := ⟨by decide, by decide⟩
  have hr := isRN_rne (qf binary64 hf.hp)
  have dP : decode binary64 4841369599423283201 = .fin false 4503599627370497 0 := by decide +kernel
  have dQ : decode binary64 4841369599423283200 = .fin false 4503599627370496 0 := by decide +kernel
  have hP : valQ false 4503599627370497 0 = 2 ^ 52 + 1 := by simp [valQ]; norm_num
  have hQ : valQ false 4503599627370496 0 = 2 ^ 52 := by simp [valQ]; norm_num
  have hem : (qf binary64 hf.hp).emin ≤ (1022 : ℤ) := by show binary64.emin ≤ 1022; decide
  have hemK : (qf binary64 hf.hp).emin ≤ (1023 : ℤ) := by show binary64.emin ≤ 1023; decide
  have eK1 : (2 : ℚ) ^ (1022 : ℤ) = 2 ^ (53 : ℤ) * 2 ^ (969 : ℤ) := by rw [← zpow_add₀ (by norm_num : (2 : ℚ) ≠ 0)]; norm_num
  have bL : |valQ false 4503599627370497 0 * valQ s m e| ≤ 2 ^ (1022 : ℤ) := by
    rw [hP, abs_mul, eK1]
    apply mul_le_mul _ bx (abs_nonneg _) (by positivity)
    rw [abs_of_pos (by norm_num)]; norm_num
  have bR : |valQ false 4503599627370496 0 * valQ s m e| ≤ 2 ^ (1022 : ℤ) := by
    rw [hQ, abs_mul, eK1]
    apply mul_le_mul _ bx (abs_nonneg _) (by positivity)
    rw [abs_of_pos (by norm_num)]; norm_num
  have rL := abs_rn_le_pow hr hem bL
  have rR := abs_rn_le_pow hr hem bR
  have hK1 : (2 : ℚ) ^ (1022 : ℤ) ≤ Lmax binary64 := le_trans (zpow_le_zpow_right₀ (by norm_num) (by norm_num)) pow1023_le_Lmaxf64
  have fL := mul_finite binary64 hf 4841369599423283201 x false s 4503599627370497 m 0 e dP dx (le_trans rL hK1)
  have fR := mul_finite binary64 hf 4841369599423283200 x false s 4503599627370496 m 0 e dQ dx (le_trans rR hK1)
  obtain ⟨sL, mL, eL, dL⟩ := finite_decode binary64 _ fL
  obtain ⟨sR, mR, eR, dR⟩ := finite_decode binary64 _ fR
  have vL := mul_correct binary64 hf _ x false s 4503599627370497 m 0 e dP dx fL
  have vR := mul_correct binary64 hf _ x false s 4503599627370496 m 0 e dQ dx fR
  have eL' : valQ sL mL eL = rne (qf binary64 hf.hp) (valQ false 4503599627370497 0 * valQ s m e) := by
    have := toQ_fin binary64 _ sL mL eL dL; rw [vL] at this; exact (Option.some.inj this).symm
  have eR' : valQ sR mR eR = rne (qf binary64 hf.hp) (valQ false 4503599627370496 0 * valQ s m e) := by
    have := toQ_fin binary64 _ sR mR eR dR; rw [vR] at this; exact (Option.some.inj this).symm
  have bD : |valQ sL mL eL - valQ sR mR eR| ≤ 2 ^ (1023 : ℤ) := by
    rw [eL', eR']
    have eK : (2 : ℚ) ^ (1023 : ℤ) = 2 ^ (1022 : ℤ) + 2 ^ (1022 : ℤ) := by
      rw [show (1023 : ℤ) = 1022 + 1 by norm_num, zpow_add₀ (by norm_num : (2 : ℚ) ≠ 0), zpow_one]; ring
    rw [eK]
    exact le_trans (abs_sub _ _) (add_le_add rL rR)
  have fD := sub_finite binary64 hf _ _ sL sR mL mR eL eR dL dR (le_trans (abs_rn_le_pow hr hemK bD) pow1023_le_Lmaxf64)
  exact is_power_of_two_bit_exact_f64 lib x s m e dx nm fL fR fD


end FAVerif.Props.C11
