/-
C11 — `next(x, up=True)` on BIT PATTERNS with NO assumption about the run (float32): for every pattern of a positive
normal x = m·2^e with x ≤ 2^126 the run exists, neither x/c nor x·c overflows, and the result is the successor (m+1)·2^e
(= nextafter(x, +inf)).  Overflow analyser + forward refinement theorem (see Props/C10Total.lean).
-/
import FAVerif.Props.C11
import FAVerif.Lemmas.OverflowSound

namespace FAVerif.Props.C11
open FAVerif.IR FAVerif.FP FAVerif.FPQ FAVerif.Gen.C11 FAVerif.Refine FAVerif.SoftRound FAVerif.Ovf

theorem next_overflow_checks :
    overflowFree binary16 [14] next_up_f16.nodes = true ∧ overflowFree binary32 [126] next_up_f32.nodes = true ∧
    overflowFree binary64 [1022] next_up_f64.nodes = true ∧ overflowFree binary32 [126] next_down_f32.nodes = true := by decide +kernel

theorem next_kindsS : kindsOfS next_up_f32.nodes [] = some nextKinds ∧ kindsOfS next_down_f32.nodes [] = some nextKinds ∧
    kindsOfS next_up_f16.nodes [] = some nextKinds ∧ kindsOfS next_up_f64.nodes [] = some nextKinds := by decide +kernel

theorem Lmax32_ge4 : 4 ≤ Lmax binary32 := by
  have h1 : Lmax binary32 = ((2 : ℚ) ^ 24 - 1) * 2 ^ (104 : ℤ) := rfl
  rw [h1]
  have : (1 : ℚ) ≤ 2 ^ (104 : ℤ) := one_le_zpow₀ (by norm_num) (by norm_num)
  have h3 : (4 : ℚ) ≤ 2 ^ 24 - 1 := by norm_num
  calc (4 : ℚ) = 4 * 1 := by ring
    _ ≤ (2 ^ 24 - 1) * 2 ^ (104 : ℤ) := mul_le_mul h3 this (by norm_num) (by linarith)

/-- **`next(x, up=True)` = nextafter(x, +inf) on bit patterns, unconditional** (float32, positive normal x ≤ 2^126) -/
theorem next_up_total_f32 (lib : Libm) (x : Nat) (m : Nat) (e : Int) (dx : decode binary32 x = .fin false m e)
    (nm : 2 ^ 23 ≤ m) (bx : (m : ℚ) * 2 ^ e ≤ 2 ^ (126 : ℤ)) :
    ∃ o : Nat, next_up_f32.eval lib [x] = some [o] ∧ isFiniteBits binary32 o = true ∧ toQ binary32 o = some (((m : ℚ) + 1) * 2 ^ e) := by
  have hf : WF binary32 := ⟨by decide, by decide⟩
  obtain ⟨b1, b2⟩ := decode_bounds binary32 hf x false m e dx
  have hins := insRel1 (finite_of_decode _ _ _ _ _ dx) (toQ_fin _ x false m e dx)
  have hv : valQ false m e = ((m : ℤ) : ℚ) * 2 ^ e := by simp [valQ]
  rw [hv] at hins
  have hq := (next_up_generated (rne (qf binary32 hf.hp)) (qf binary32 hf.hp) rfl (isRN_rne _) (m : ℤ) e
    (by exact_mod_cast nm) (by exact_mod_cast b1) b2).1
  have hb : |((m : ℤ) : ℚ) * 2 ^ e| ≤ 2 ^ (126 : ℤ) := by
    rw [abs_of_nonneg (by positivity)]; exact_mod_cast bx
  obtain ⟨o, h1, h2, h3⟩ := total1 next_up_f32 hf Lmax32_ge4 nextKinds next_kindsS.1 6 (by decide) (by decide)
    [126] next_overflow_checks.2.1 lib [x] _ hins (hE_one hb) _ hq
  have hfm : next_up_f32.fmt = binary32 := by decide
  rw [hfm] at h2 h3
  exact ⟨o, h1, h2, by simpa using h3⟩

end FAVerif.Props.C11
