import FAVerif.Lemmas.Mpf
namespace FAVerif.Props.C15
end FAVerif.Props.C15
