/-
C15 — multiprecision reference values are rounded correctly to the target type.
Only property statements, their proofs' top level, and non-vacuity examples live here.

Vocabulary (Models/Mpf.lean, Lemmas/Mpf.lean):
  `mpf2float f flush x prec rnd`  the port of `utils.mpf2float` (returns a bit pattern or an exception kind);
                                  `prec = none`, `rnd = .n` is the call made by the backend (`mptonp`)
  `.fin s man exp`                the mpf value (-1)^s · man · 2^exp, `man` of ANY bit length
                                  (so "every precision ≥ p" is "every man")
  `roundBits f man exp`           magnitude bit pattern of IEEE round-to-nearest-even of man·2^exp in format f
                                  (`roundV_nearest`, `roundV_tie_even`, `roundV_canonical`, `decode_pack` say so)
  `Valid f`                       2 ≤ p ≤ 53, 2 ≤ ew, p ≤ 2^(ew-1); float16/32/64 are instances (`formats_valid`)
  `dyLe m1 e1 m2 e2`              m1·2^e1 ≤ m2·2^e2 on exact values;  `dyLt` likewise
  `top p man exp`                 exponent with RNE_p(man·2^exp) ∈ [2^(top-1), 2^top)  (RNE_p: to p bits, unbounded exponent)
  `q1 p man`                      the p-bit nearest-even significand of man
-/
import FAVerif.Lemmas.Mpf

namespace FAVerif.Props.C15
open FAVerif.FP FAVerif.Mpf

/-- float16, float32 and float64 satisfy the format hypotheses of every theorem below. -/
theorem formats_valid : Valid binary16 ∧ Valid binary32 ∧ Valid binary64 := ⟨valid16, valid32, valid64⟩

/-- **mpf2float_normal**: for every format, sign, mantissa (any length) and exponent: if the
round-to-nearest-even of the exact value is at least the smallest normal number (a normal number, or
infinity past the overflow threshold), `mpf2float` without flushing returns exactly it, sign included.
This includes values slightly BELOW the smallest normal that round up to it. -/
theorem mpf2float_normal {f : Fmt} (v : Valid f) (flush : PyVal) (hfl : flush.truthy = false) (s : Bool)
    (man : Nat) (exp : Int) (hn : f.minNormalBits ≤ roundBits f man exp) :
    mpf2float f flush (.fin s man exp) none .n = .bits (signBits f s + roundBits f man exp) := by
  by_cases hm : man = 0
  · subst hm
    have h0 : roundBits f 0 exp = 0 := by simp [roundBits, roundV, pack]
    have h1 : 0 < f.minNormalBits := Nat.two_pow_pos _
    omega
  · exact normal' v flush hfl s hm exp hn

/-- **mpf2float_ge_min_normal**: for every flush setting, every value of magnitude at least the smallest
normal (`bitlen man + exp ≥ minexp`, i.e. `man·2^exp ≥ 2^(minexp-1)`) is converted by a single correct
rounding — to a normal number or, past the threshold, to infinity. -/
theorem mpf2float_ge_min_normal {f : Fmt} (v : Valid f) (flush : PyVal) (s : Bool) (man : Nat) (hm : man ≠ 0) (exp : Int)
    (h : minexp f ≤ (bitlen man : Int) + exp) :
    mpf2float f flush (.fin s man exp) none .n = .bits (signBits f s + roundBits f man exp) :=
  ge_min_normal' v flush s hm exp h

/-- **overflow**: every value `≥ (2^(p+1)-1)·2^(emaxUlp-1)` = largest finite + half an ulp gives the signed
infinity (every flush setting) … -/
theorem overflow {f : Fmt} (v : Valid f) (flush : PyVal) (s : Bool) (man : Nat) (hm : man ≠ 0) (exp : Int)
    (h : dyLe (2 ^ (f.p + 1) - 1) (f.emaxUlp - 1) man exp) :
    mpf2float f flush (.fin s man exp) none .n = .bits (signBits f s + f.infBits) :=
  overflow' v flush s hm exp h

/-- … and nothing below that threshold does (the threshold is exact). -/
theorem overflow_iff {f : Fmt} (v : Valid f) (flush : PyVal) (s : Bool) (man : Nat) (hm : man ≠ 0) (exp : Int) :
    mpf2float f flush (.fin s man exp) none .n = .bits (signBits f s + f.infBits) ↔
      dyLe (2 ^ (f.p + 1) - 1) (f.emaxUlp - 1) man exp :=
  overflow_iff' v flush s hm exp

/-- **tiny**: below half the smallest subnormal (`man·2^exp < 2^(emin-1)`) the result is the signed zero. -/
theorem tiny {f : Fmt} (v : Valid f) (flush : PyVal) (s : Bool) (man : Nat) (hm : man ≠ 0) (exp : Int)
    (h : dyLt man exp 1 (f.emin - 1)) :
    mpf2float f flush (.fin s man exp) none .n = .bits (signBits f s) :=
  tiny' v flush s hm exp h

/-- **zero_iff** (what holds precisely near zero, no flushing): the result is the signed zero exactly for
`man·2^exp < (2^(p+1)-1)·2^(emin-p-1) = 2^emin·(1 - 2^-(p+1))`, i.e. when the p-bit rounding is still
below the smallest subnormal.  (IEEE would return the smallest subnormal above `2^(emin-1)`: a
permitted deviation, `subnormal_sliver_witness`.) -/
theorem zero_iff {f : Fmt} (v : Valid f) (flush : PyVal) (hfl : flush.truthy = false) (s : Bool) (man : Nat) (hm : man ≠ 0)
    (exp : Int) :
    mpf2float f flush (.fin s man exp) none .n = .bits (signBits f s) ↔
      dyLt man exp (2 ^ (f.p + 1) - 1) (f.emin - f.p - 1) :=
  zero_iff' v flush hfl s hm exp

/-- **two_step** (the complete description): `mpf2float` is the signed zero when the p-bit rounding
RNE_p(x) is below `2^(zexp-1)` (zexp = `float_minexp` when flushing, `float_subexp` otherwise), and
otherwise the correct rounding into the format of RNE_p(x) — not of x. -/
theorem two_step {f : Fmt} (v : Valid f) (flush : PyVal) (s : Bool) (man : Nat) (hm : man ≠ 0) (exp : Int) :
    mpf2float f flush (.fin s man exp) none .n =
      if top f.p man exp < (if flush.truthy then minexp f else subexp f) then .bits (signBits f s)
      else .bits (signBits f s + roundBits f (q1 f.p man) (exp + ((bitlen man - f.p : Nat) : Int))) :=
  two_step'' v flush s hm exp

/-- **representable_exact**: a value with at most p significant bits and magnitude at least the smallest
subnormal is rounded once, correctly, also into the subnormal range (so subnormal floats that went
through `float2mpf` come back unchanged: `identity`). -/
theorem representable_exact {f : Fmt} (v : Valid f) (flush : PyVal) (hfl : flush.truthy = false) (s : Bool) (man : Nat)
    (hm : man ≠ 0) (exp : Int) (hs : bitlen man ≤ f.p) (h : subexp f ≤ (bitlen man : Int) + exp) :
    mpf2float f flush (.fin s man exp) none .n = .bits (signBits f s + roundBits f man exp) :=
  representable' v flush hfl s hm exp hs h

/-- **loop_dead**: with the default precision the `while man > largest` loop never shifts, `dtype(man)` is
exact, and `ldexp` never overflows once the overflow test passed: the inf-retry loop is unreachable. -/
theorem loop_dead {f : Fmt} (v : Valid f) (s : Bool) (man : Nat) (hm : man ≠ 0) (exp : Int) :
    shiftLoop (largest f) (normalize s man exp f.p .n).man (normalize s man exp f.p .n).exp
        = ((normalize s man exp f.p .n).man, (normalize s man exp f.p .n).exp) ∧
    convInt f (normalize s man exp f.p .n).man = some (.fin (normalize s man exp f.p .n).man 0) ∧
    ((normalize s man exp f.p .n).exp + ((normalize s man exp f.p .n).bc : Int) ≤ maxexp f →
      ldexpV f (.fin (normalize s man exp f.p .n).man 0) (normalize s man exp f.p .n).exp ≠ .inf) :=
  loop_dead' v s hm exp

/-! ### flushing

Full statement of DESIGN `C15.flush` — "with flush_subnormals=True anything below the smallest normal → ±0":
  `∀ man exp, dyLt man exp 1 (minexp f - 1) → mpf2float f .true (.fin s man exp) none .n = .bits (signBits f s)`
is FALSE of the code as written (`flush_edge_witness`): values in
`[2^(minexp-1)·(1 - 2^-(p+1)), 2^(minexp-1))` round at p bits to the smallest normal and are kept.  This
agrees with the first clause of the property (their nearest representable value is the smallest normal,
a normal number), so it is recorded as an imprecision of the DESIGN statement, not as a finding. -/

/-- **flush_eq**: flushing changes nothing but this: when RNE_p(x) is below the smallest normal the result
is the signed zero. -/
theorem flush_eq {f : Fmt} (v : Valid f) (flush : PyVal) (hfl : flush.truthy = true) (s : Bool) (man : Nat) (hm : man ≠ 0)
    (exp : Int) :
    mpf2float f flush (.fin s man exp) none .n =
      if top f.p man exp < minexp f then .bits (signBits f s) else mpf2float f .false (.fin s man exp) none .n :=
  flush_eq' v flush hfl s hm exp

/-- **flush_partial**: with flushing, every `man·2^exp < (2^(p+1)-1)·2^(emin-2)` = smallest normal ·
`(1 - 2^-(p+1))` gives the signed zero; the condition is exact (`flush_threshold`). -/
theorem flush_partial {f : Fmt} (v : Valid f) (flush : PyVal) (hfl : flush.truthy = true) (s : Bool) (man : Nat) (hm : man ≠ 0)
    (exp : Int) (h : dyLt man exp (2 ^ (f.p + 1) - 1) (f.emin - 2)) :
    mpf2float f flush (.fin s man exp) none .n = .bits (signBits f s) := by
  rw [flush_eq v flush hfl s man hm exp, if_pos ((flush_iff v hm exp).2 h)]

theorem flush_threshold {f : Fmt} (v : Valid f) (man : Nat) (hm : man ≠ 0) (exp : Int) :
    top f.p man exp < minexp f ↔ dyLt man exp (2 ^ (f.p + 1) - 1) (f.emin - 2) :=
  flush_iff v hm exp

/-- Negation witness for the full flush statement (float32): `x = (2^25-1)·2^-151 < 2^-126` (smallest
normal) and yet `mpf2float(flush_subnormals=True)` returns the smallest normal `0x00800000`. -/
theorem flush_edge_witness :
    dyLt (2 ^ 25 - 1) (-151) 1 (minexp binary32 - 1) ∧
    mpf2float binary32 .true (.fin false (2 ^ 25 - 1) (-151)) none .n = .bits 0x00800000 := by
  decide +kernel

/-- `mpf2float_normal` does not extend to flushing: float32 `x = (2^24-1)·2^-150` rounds (ties-to-even) to the
smallest normal, but with flushing the result is +0.  With flushing the correct-rounding statement is
`mpf2float_ge_min_normal` (hypothesis `x ≥` smallest normal). -/
theorem normal_flush_witness :
    roundBits binary32 (2 ^ 24 - 1) (-150) = binary32.minNormalBits ∧
    mpf2float binary32 .true (.fin false (2 ^ 24 - 1) (-150)) none .n = .bits 0 := by
  decide +kernel

/-! ### subnormal results: double rounding (permitted by the property, stated precisely)

By `two_step` a subnormal result is RNE_fmt(RNE_p(x)), or zero when RNE_p(x) < 2^emin.  It equals
RNE_fmt(x) whenever x has at most p bits (`representable_exact`) but not in general: -/

/-- float32, `x = (5·2^29+1)·2^-179 = (2.5 + 2^-30)·2^-149`: IEEE gives the subnormal 3 (above the tie),
`mpf2float` first rounds to 24 bits (2.5, a tie) and then to even: 2. -/
theorem subnormal_double_rounding_witness :
    roundBits binary32 (5 * 2 ^ 29 + 1) (-179) = 3 ∧
    mpf2float binary32 .false (.fin false (5 * 2 ^ 29 + 1) (-179)) none .n = .bits 2 := by
  decide +kernel

/-- float32, `x = -3·2^-151 = -0.75·2^-149`: IEEE gives the smallest subnormal, `mpf2float` gives -0. -/
theorem subnormal_sliver_witness :
    roundBits binary32 3 (-151) = 1 ∧
    mpf2float binary32 .false (.fin true 3 (-151)) none .n = .bits 0x80000000 := by
  decide +kernel

/-! ### flag plumbing of `vectorize_with_mpmath.__init__` (full strength since /repo commit 724e786) -/

/-- **plumbing**: for every value of the `flush_subnormals` keyword (absent, `UNSPECIFIED`, `True`, `False`,
`None`, any int) and every module default, the setting `mpf2float` acts on (truthiness of the stored
attribute) is the requested one: the keyword's own truthiness when given, the module default otherwise. -/
theorem plumbing (kw : Option PyVal) (dflt : PyVal) : effectiveFlush kw dflt = requestedFlush kw dflt := by
  cases kw with
  | none => rfl
  | some v => cases v <;> rfl

/-- **plumbing_unspecified**: with the module default `default_flush_subnormals = False`, an absent or
`UNSPECIFIED` keyword means NO flushing, `True` means flushing, `False`/`None`/`0` mean none. -/
theorem plumbing_unspecified :
    effectiveFlush none .false = false ∧ effectiveFlush (some .unspecified) .false = false ∧
    effectiveFlush (some .true) .false = true ∧ effectiveFlush (some .false) .false = false ∧
    effectiveFlush (some .none) .false = false ∧ effectiveFlush (some (.int 0)) .false = false ∧
    effectiveFlush (some (.int 1)) .false = true := by
  decide

/-- **plumbing_regression**: the conditional as it was before the fix 724e786 (`initFlushPre724e786`) stored
the truthy `UNSPECIFIED` singleton when the keyword was unspecified (⇒ flushing although `False` was
requested) and stored `False` for `flush_subnormals=True` (⇒ the requested flushing never happened). -/
theorem plumbing_regression :
    (initFlushPre724e786 none .false).truthy = true ∧ requestedFlush none .false = false ∧
    initFlushPre724e786 (some .true) .false = .false ∧ requestedFlush (some .true) .false = true ∧
    initFlush none .false = .false ∧ initFlush (some .true) .false = .true := by
  decide

/-- **identity_flush_regression**, replayed on the real code (corpus/C15): the identity function through
`vectorize_with_mpmath` on float32 1e-40 (`0x000116C2`, subnormal): unspecified → returned unchanged,
`flush_subnormals=True` → +0.0 (flushed, as requested), `False` → unchanged.  (Before 724e786: 0.0 / 1e-40 / 1e-40.) -/
theorem identity_flush_regression :
    call binary32 none .false 0 1 0 .id 0x000116C2 0 = some (.bits 0x000116C2) ∧
    call binary32 (some .true) .false 0 1 0 .id 0x000116C2 0 = some (.bits 0) ∧
    call binary32 (some .false) .false 0 1 0 .id 0x000116C2 0 = some (.bits 0x000116C2) := by
  decide +kernel

/-- **work_prec**: with non-negative settings the working precision inside the call is
`p + trunc(p·mult) + extra_prec ≥ p` (so the backend result is an mpf "of precision ≥ p"). -/
theorem work_prec (p : Nat) (mnum : Int) (mden : Nat) (extra : Int) (h : 0 ≤ extraPrec p mnum mden extra) :
    (workPrec p mnum mden extra : Int) = max 1 ((p : Int) + (Int.tdiv ((p : Int) * mnum) mden + extra)) ∧
    p ≤ workPrec p mnum mden extra := by
  unfold workPrec
  unfold extraPrec at *
  omega

/-- **specials**: NaN, the infinities and zero (mpmath has a single zero: the result is +0). -/
theorem specials (f : Fmt) (flush : PyVal) (prec : Option Nat) (rnd : Rnd) (s : Bool) (exp : Int) :
    mpf2float f flush .nan prec rnd = .bits (nanBits f) ∧
    mpf2float f flush (.inf s) prec rnd = .bits (signBits f s + f.infBits) ∧
    (Valid f → mpf2float f flush (.fin s 0 exp) none .n = .bits 0) :=
  ⟨rfl, rfl, fun v => zero' v flush s exp⟩

/-- **tables**: the model's formulas give the literal entries of `float_subexp`, `float_minexp`,
`float_maxexp` and `int(float_max)` (also compared with the real class attributes on every run). -/
theorem tables :
    (subexp binary16, minexp binary16, maxexp binary16, largest binary16) = (-23, -13, 16, 65504) ∧
    (subexp binary32, minexp binary32, maxexp binary32, largest binary32) = (-148, -125, 128, 2 ^ 128 - 2 ^ 104) ∧
    (subexp binary64, minexp binary64, maxexp binary64, largest binary64) = (-1073, -1021, 1024, 2 ^ 1024 - 2 ^ 971) := by
  decide +kernel

/-! ### the reference rounding `roundBits` is IEEE round-to-nearest-even -/

/-- **roundV_canonical**: a finite rounding result `q·2^e` is a canonical member of the format: `q < 2^p`,
`emin ≤ e ≤ emaxUlp`, and `q ≥ 2^(p-1)` (normal) or `e = emin` (subnormal). -/
theorem roundV_canonical {f : Fmt} (v : Valid f) (man : Nat) (exp : Int) (q : Nat) (e : Int)
    (h : roundV f man exp = .fin q e) :
    q < 2 ^ f.p ∧ f.emin ≤ e ∧ e ≤ f.emaxUlp ∧ (2 ^ (f.p - 1) ≤ q ∨ e = f.emin) :=
  roundV_canonical' v man exp q e h

/-- **roundV_nearest**: no member `m'·2^e'` of the format (`m' < 2^p`, `e' ≥ emin`; any exponent, so also
beyond the largest finite number) is strictly closer to `x = man·2^exp` than the rounding result.
All three values are written as integers in units of `2^E` (`dyVal m e E = m·2^(e-E)`) for an arbitrary
common `E` below the three exponents. -/
theorem roundV_nearest {f : Fmt} (v : Valid f) (man : Nat) (exp : Int) (q : Nat) (e : Int)
    (h : roundV f man exp = .fin q e) (m' : Nat) (e' : Int) (hm' : m' < 2 ^ f.p) (he' : f.emin ≤ e')
    (E : Int) (h1 : E ≤ exp) (h2 : E < e) (h3 : E ≤ e') :
    (dyVal man exp E - dyVal q e E).natAbs ≤ (dyVal man exp E - dyVal m' e' E).natAbs :=
  roundV_nearest' v man exp q e h m' e' hm' he' E h1 h2 h3

/-- **roundV_tie_even**: if another member of the format is exactly as close, the result's significand is even. -/
theorem roundV_tie_even {f : Fmt} (v : Valid f) (man : Nat) (exp : Int) (q : Nat) (e : Int)
    (h : roundV f man exp = .fin q e) (m' : Nat) (e' : Int) (hm' : m' < 2 ^ f.p) (he' : f.emin ≤ e')
    (E : Int) (h1 : E ≤ exp) (h2 : E < e) (h3 : E ≤ e')
    (hd : (dyVal man exp E - dyVal q e E).natAbs = (dyVal man exp E - dyVal m' e' E).natAbs)
    (hne : dyVal q e E ≠ dyVal m' e' E) : q % 2 = 0 :=
  roundV_tie_even' v man exp q e h m' e' hm' he' E h1 h2 h3 hd hne

/-- **roundV_inf_iff**: the reference rounding overflows exactly from largest finite + half an ulp on. -/
theorem roundV_inf_iff {f : Fmt} (v : Valid f) (man : Nat) (hm : man ≠ 0) (exp : Int) :
    roundV f man exp = .inf ↔ dyLe (2 ^ (f.p + 1) - 1) (f.emaxUlp - 1) man exp :=
  roundV_inf_iff' v hm exp

/-- **decode_pack**: the bit pattern `pack` of a canonical result decodes (FP.decode) to exactly that value. -/
theorem decode_pack {f : Fmt} (v : Valid f) (q : Nat) (e : Int)
    (hq : q < 2 ^ f.p) (he : f.emin ≤ e) (he2 : e ≤ f.emaxUlp) (hc : 2 ^ (f.p - 1) ≤ q ∨ e = f.emin) :
    decode f (pack f (.fin q e)) = .fin false q e :=
  decode_pack' v q e hq he he2 hc

/-- **identity**: the identity function through the backend with flushing off (stored flag falsy) returns
every finite non-zero float unchanged — normal or subnormal, either sign. -/
theorem identity {f : Fmt} (v : Valid f) (kw : Option PyVal) (dflt : PyVal) (hfl : effectiveFlush kw dflt = false)
    (b : Nat) (hb : b < 2 ^ f.width) (s : Bool) (m : Nat) (e : Int) (hd : decode f b = .fin s m e) (hm : m ≠ 0) :
    call f kw dflt 0 1 0 .id b 0 = some (.bits b) :=
  identity' v kw dflt hfl b hb s m e hd hm

/-! ### non-vacuity: concrete non-trivial instances meeting the hypotheses -/

/-- `mpf2float_normal`: float32, 1 + 2^-24 + 2^-150 (174 bits ≥ p) rounds up to 1 + 2^-23 = 0x3F800001. -/
example : binary32.minNormalBits ≤ roundBits binary32 (2 ^ 150 + 2 ^ 126 + 1) (-150) ∧
    mpf2float binary32 .false (.fin false (2 ^ 150 + 2 ^ 126 + 1) (-150)) none .n = .bits 0x3F800001 := by
  decide +kernel

/-- the edge covered by `mpf2float_normal`: float16 `x = (2^12-1)·2^-26 <` smallest normal rounds to it. -/
example : binary16.minNormalBits ≤ roundBits binary16 (2 ^ 12 - 1) (-26) ∧ dyLt (2 ^ 12 - 1) (-26) 1 (-14) ∧
    mpf2float binary16 .false (.fin true (2 ^ 12 - 1) (-26)) none .n = .bits 0x8400 := by
  decide +kernel

/-- `overflow`: float16, 65520 = max + half ulp → +inf, while 65519 → 65504. -/
example : dyLe (2 ^ 12 - 1) (binary16.emaxUlp - 1) 65520 0 ∧
    mpf2float binary16 .false (.fin false 65520 0) none .n = .bits 0x7C00 ∧
    mpf2float binary16 .false (.fin false 65519 0) none .n = .bits 0x7BFF := by
  decide +kernel

/-- `tiny`: float64, -(2^60+1)·2^-1136 < 2^-1075 → -0. -/
example : dyLt (2 ^ 60 + 1) (-1136) 1 (binary64.emin - 1) ∧
    mpf2float binary64 .false (.fin true (2 ^ 60 + 1) (-1136)) none .n = .bits 0x8000000000000000 := by
  decide +kernel

/-- `flush_partial`: float32 1e-40-ish subnormal with flushing → +0; `representable_exact` without. -/
example : dyLt 71362 (-149) (2 ^ 25 - 1) (binary32.emin - 2) ∧
    mpf2float binary32 .true (.fin false 71362 (-149)) none .n = .bits 0 ∧
    mpf2float binary32 .false (.fin false 71362 (-149)) none .n = .bits 71362 := by
  decide +kernel

/-- `plumbing`: an explicit `flush_subnormals=2` (truthy int) is honoured; unspecified follows a default of `True`. -/
example : effectiveFlush (some (.int 2)) .false = true ∧ effectiveFlush none .true = true := by decide

/-- `work_prec`: float32 with `extra_prec_multiplier=1/2, extra_prec=3` works at 24 + 12 + 3 = 39 bits. -/
example : 0 ≤ extraPrec 24 1 2 3 ∧ workPrec 24 1 2 3 = 39 := by decide

/-- `identity`: float16 subnormal 0x8003 with `flush_subnormals=False`. -/
example : effectiveFlush (some .false) .false = false ∧ decode binary16 0x8003 = .fin true 3 (-24) ∧
    call binary16 (some .false) .false 0 1 0 .id 0x8003 0 = some (.bits 0x8003) := by
  decide +kernel

end FAVerif.Props.C15
