/-
C17 — the exponential argument reduction on BIT PATTERNS for EVERY input pattern of the documented domain: the five
finiteness hypotheses of `exp_reduction_bits_f16/f32/f64` are proved from |x| ≤ log(largest) (`exp_finite_of_bound`, built
on the no-overflow lemmas), so only the `floor` oracle remains an assumption.
-/
import FAVerif.Props.C17
import FAVerif.Lemmas.ExpTotal

namespace FAVerif.Props.C17
open FAVerif.IR FAVerif.FP FAVerif.FPQ FAVerif.Gen.C17 FAVerif.Refine FAVerif.SoftRound FAVerif.Ovf

theorem exp_kmax : (7 : ℤ) + 4 ≤ kmax binary32 ∧ (4 : ℤ) + 4 ≤ kmax binary16 ∧ (10 : ℤ) + 4 ≤ kmax binary64 ∧
    binary16.emin ≤ 0 ∧ binary32.emin ≤ 0 ∧ binary64.emin ≤ 0 := by decide +kernel

theorem exp_reduction_bits_total_f32 (lib : Libm) (x kb : Nat) (qx : ℚ) (k : ℤ)
    (fx : isFiniteBits binary32 x = true) (vx : toQ binary32 x = some qx) (hX : |qx| ≤ 8873 / 100)
    (hlib : lib "floor" [fadd binary32 (fmul binary32 consts32.1 x) consts32.2.1] = some kb)
    (fk : isFiniteBits binary32 kb = true) (vk : toQ binary32 kb = some (k : ℚ))
    (hfloor : ∀ q2, toQ binary32 (fadd binary32 (fmul binary32 consts32.1 x) consts32.2.1) = some q2 → k = ⌊q2⌋) :
    ∃ rb cb qr qc, argred_exp_f32.eval lib [x] = some [kb, rb, cb] ∧ toQ binary32 rb = some qr ∧ toQ binary32 cb = some qc ∧
      |k| ≤ 128 ∧ qr = qx - k * H32 ∧ |k * (H32 + L32) + (qr + qc) - qx| ≤ 2 / 10 ^ 11 ∧ |qr + qc| ≤ 348 / 1000 := by
  have hf : WF binary32 := ⟨by decide, by decide⟩
  obtain ⟨c1, c2, c3, c4⟩ := exp_constants
  have cV : toQ binary32 consts32.1 = some V32 := by have := congrArg (·.1) c2; simpa [toQ] using this
  have cH : toQ binary32 consts32.2.2.1 = some H32 := by have := congrArg (·.2.1) c2; simpa [toQ] using this
  have cL : toQ binary32 consts32.2.2.2 = some L32 := by have := congrArg (·.2.2) c2; simpa [toQ] using this
  have cHf : toQ binary32 consts32.2.1 = some (1 / 2) := by decide +kernel
  have fV : isFiniteBits binary32 consts32.1 = true := by decide +kernel
  have fHf : isFiniteBits binary32 consts32.2.1 = true := by decide +kernel
  have fH : isFiniteBits binary32 consts32.2.2.1 = true := by decide +kernel
  have fL : isFiniteBits binary32 consts32.2.2.2 = true := by decide +kernel
  obtain ⟨f1, f2, fP, fr, fc⟩ := exp_finite_of_bound binary32 hf consts32.1 consts32.2.1 consts32.2.2.1 consts32.2.2.2 x kb V32 H32 L32 qx 7
    (by norm_num) exp_kmax.1 exp_kmax.2.2.2.2.1 fV cV fHf cHf fH cH fL cL (by norm_num [V32, abs_of_pos]) (by norm_num [H32, abs_of_pos])
    (by norm_num [L32, abs_of_pos]) fx vx (le_trans hX (by norm_num)) fk k vk hfloor
  exact exp_reduction_bits_f32 lib x kb qx k fx vx hX hlib fk vk hfloor f1 f2 fP fr fc

theorem exp_reduction_bits_total_f16 (lib : Libm) (x kb : Nat) (qx : ℚ) (k : ℤ)
    (fx : isFiniteBits binary16 x = true) (vx : toQ binary16 x = some qx) (hX : |qx| ≤ 1109 / 100)
    (hlib : lib "floor" [fadd binary16 (fmul binary16 consts16.1 x) consts16.2.1] = some kb)
    (fk : isFiniteBits binary16 kb = true) (vk : toQ binary16 kb = some (k : ℚ))
    (hfloor : ∀ q2, toQ binary16 (fadd binary16 (fmul binary16 consts16.1 x) consts16.2.1) = some q2 → k = ⌊q2⌋) :
    ∃ rb cb qr qc, argred_exp_f16.eval lib [x] = some [kb, rb, cb] ∧ toQ binary16 rb = some qr ∧ toQ binary16 cb = some qc ∧
      |k| ≤ 16 ∧ qr = qx - k * H16 ∧ |k * (H16 + L16) + (qr + qc) - qx| ≤ 5 / 10 ^ 5 ∧ |qr + qc| ≤ 361 / 1000 := by
  have hf : WF binary16 := ⟨by decide, by decide⟩
  obtain ⟨c1, c2, c3, c4⟩ := exp_constants
  have cV : toQ binary16 consts16.1 = some V16 := by have := congrArg (·.1) c1; simpa [toQ] using this
  have cH : toQ binary16 consts16.2.2.1 = some H16 := by have := congrArg (·.2.1) c1; simpa [toQ] using this
  have cL : toQ binary16 consts16.2.2.2 = some L16 := by have := congrArg (·.2.2) c1; simpa [toQ] using this
  have cHf : toQ binary16 consts16.2.1 = some (1 / 2) := by decide +kernel
  have fV : isFiniteBits binary16 consts16.1 = true := by decide +kernel
  have fHf : isFiniteBits binary16 consts16.2.1 = true := by decide +kernel
  have fH : isFiniteBits binary16 consts16.2.2.1 = true := by decide +kernel
  have fL : isFiniteBits binary16 consts16.2.2.2 = true := by decide +kernel
  obtain ⟨f1, f2, fP, fr, fc⟩ := exp_finite_of_bound binary16 hf consts16.1 consts16.2.1 consts16.2.2.1 consts16.2.2.2 x kb V16 H16 L16 qx 4
    (by norm_num) exp_kmax.2.1 exp_kmax.2.2.2.1 fV cV fHf cHf fH cH fL cL (by norm_num [V16, abs_of_pos]) (by norm_num [H16, abs_of_pos])
    (by norm_num [L16, abs_of_pos]) fx vx (le_trans hX (by norm_num)) fk k vk hfloor
  exact exp_reduction_bits_f16 lib x kb qx k fx vx hX hlib fk vk hfloor f1 f2 fP fr fc

theorem exp_reduction_bits_total_f64 (lib : Libm) (x kb : Nat) (qx : ℚ) (k : ℤ)
    (fx : isFiniteBits binary64 x = true) (vx : toQ binary64 x = some qx) (hX : |qx| ≤ 70979 / 100)
    (hlib : lib "floor" [fadd binary64 (fmul binary64 consts64.1 x) consts64.2.1] = some kb)
    (fk : isFiniteBits binary64 kb = true) (vk : toQ binary64 kb = some (k : ℚ))
    (hfloor : ∀ q2, toQ binary64 (fadd binary64 (fmul binary64 consts64.1 x) consts64.2.1) = some q2 → k = ⌊q2⌋) :
    ∃ rb cb qr qc, argred_exp_f64.eval lib [x] = some [kb, rb, cb] ∧ toQ binary64 rb = some qr ∧ toQ binary64 cb = some qc ∧
      |k| ≤ 1024 ∧ qr = qx - k * H64 ∧ |k * (H64 + L64) + (qr + qc) - qx| ≤ 3 / 10 ^ 23 ∧ |qr + qc| ≤ 347 / 1000 := by
  have hf : WF binary64 := ⟨by decide, by decide⟩
  obtain ⟨c1, c2, c3, c4⟩ := exp_constants
  have cV : toQ binary64 consts64.1 = some V64 := by have := congrArg (·.1) c3; simpa [toQ] using this
  have cH : toQ binary64 consts64.2.2.1 = some H64 := by have := congrArg (·.2.1) c3; simpa [toQ] using this
  have cL : toQ binary64 consts64.2.2.2 = some L64 := by have := congrArg (·.2.2) c3; simpa [toQ] using this
  have cHf : toQ binary64 consts64.2.1 = some (1 / 2) := by decide +kernel
  have fV : isFiniteBits binary64 consts64.1 = true := by decide +kernel
  have fHf : isFiniteBits binary64 consts64.2.1 = true := by decide +kernel
  have fH : isFiniteBits binary64 consts64.2.2.1 = true := by decide +kernel
  have fL : isFiniteBits binary64 consts64.2.2.2 = true := by decide +kernel
  obtain ⟨f1, f2, fP, fr, fc⟩ := exp_finite_of_bound binary64 hf consts64.1 consts64.2.1 consts64.2.2.1 consts64.2.2.2 x kb V64 H64 L64 qx 10
    (by norm_num) exp_kmax.2.2.1 exp_kmax.2.2.2.2.2 fV cV fHf cHf fH cH fL cL (by norm_num [V64, abs_of_pos]) (by norm_num [H64, abs_of_pos])
    (by norm_num [L64, abs_of_pos]) fx vx (le_trans hX (by norm_num)) fk k vk hfloor
  exact exp_reduction_bits_f64 lib x kb qx k fx vx hX hlib fk vk hfloor f1 f2 fP fr fc

end FAVerif.Props.C17
