/-
C07 — Expression identity is structural identity (sound hash-consing).
Only property statements, their proofs' top level, and non-vacuity examples live here.
Model: FAVerif/Models/HashCons.lean (port of Context._register_expression, Expr._compute_serialized,
Expr._two_level_intkey, Type equality, and Python's ==/`is`/str on constant values), as of /repo ab6dc38
(the constant key carries str(value), so 0.0 and -0.0 are distinct constants).

FULL STATEMENT of the property (still FALSE of the code as written, see `same_iff_struct_fails`):

    theorem same_iff_struct (ops) (i j) (ci cj) (a b)
        (ops[i]? = some ci) (ops[j]? = some cj)
        (construction i returned id a) (construction j returned id b) :
        a = b ↔ StrictStructEq ci cj

where `StrictStructEq` compares constants by type name and exact content (sign of zero, NaN payload).
It fails in the ← direction only: two NaN objects of equal content are two expressions
(`fresh_nan_split`; duplication, never a wrong value).  What is proved instead:
`same_iff_struct_partial` (all histories; constants identified by type name + exact content incl. the sign
of zero, NaN-containing values by object identity) and `same_iff_struct_plain` (the full statement for all
histories whose constant values have no NaN component).  `neg_zero_distinct_regression` records the
repaired defect (before ab6dc38 the constant -0.0 was the expression of 0.0).
-/
import FAVerif.Lemmas.HashCons

namespace FAVerif.Props.C07
open FAVerif.HashCons

/-- The id returned by the `n`-th construction of a history (none if it raised). -/
def ret (ops : List Cand) (n : Nat) : Option Id := ((run State.empty ops).2[n]?).bind Out.id?

/-- **inv**: after every construction history (any interleaving of symbols, constants and
operations, including rejected and failing constructions) the registry satisfies `Inv`. -/
theorem inv (ops : List Cand) : Inv (run State.empty ops).1 :=
  (run_spec ops State.empty inv_empty).1

/-- What `Inv` says in plain terms: ids are dense (the counter equals the number of registered
expressions and the i-th registered expression carries id i); the table is a function from keys to
ids that is injective (two keys never map to one id) and total on the registered expressions;
operands of the expression with id i have ids smaller than i; no two registered expressions are
structurally equal in the code's own sense. -/
theorem inv_meaning (s : State) (h : Inv s) :
    s.counter = s.exprs.length ∧
    (∀ (i : Nat) (st : Stored), s.exprs[i]? = some st → st.id = i ∧ s.table.lookup st.key = some i) ∧
    (∀ (k k' : Key) (i : Nat), s.table.lookup k = some i → s.table.lookup k' = some i → k = k') ∧
    (∀ (k : Key) (i : Nat), s.table.lookup k = some i → i < s.counter) ∧
    (∀ (i : Nat) (st : Stored), s.exprs[i]? = some st → candOk i st.cand) ∧
    (∀ (i j : Nat) (si sj : Stored), s.exprs[i]? = some si → s.exprs[j]? = some sj →
        CodeStructEq si.cand sj.cand → i = j) :=
  inv_meaning' s h

/-- **key_inj** (the two-level-key argument): under the invariant, two candidate expressions over
registered operands have equal keys iff they are structurally identical in the code's sense —
same kind, same operand ids in order; for constants the same `==`-class of value, type name and
like operand; for symbols the same name and type. -/
theorem key_inj (s : State) (h : Inv s) (c1 c2 : Cand)
    (h1 : candOk s.exprs.length c1) (h2 : candOk s.exprs.length c2) :
    keyOf s c1 = keyOf s c2 ↔ CodeStructEq c1 c2 :=
  key_inj' h h1 h2

/-- The value classes the code identifies are exactly those of Python's tuple comparison:
same object, or `==` (exact numeric equality; NaN never equal). -/
theorem value_class (v w : PyVal) : canon v = canon w ↔ (v = w ∨ pyEq v.data w.data = true) := by
  rw [canon_eq_iff]; simp [tupleEq]

/-- `CodeStructEq` spelled out: for constants the same type name, the same `str` (exact content
with the sign of zero; 'nan' for NaNs) and the same object or `==`. -/
theorem code_struct_eq_iff (c c' : Cand) :
    CodeStructEq c c' ↔
      match c, c' with
      | .sym n t, .sym n' t' => n = n' ∧ t = t'
      | .const v l, .const v' l' =>
          (v = v' ∨ pyEq v.data v'.data = true) ∧ v.tname = v'.tname ∧ v.data.strRep = v'.data.strRep ∧ l = l'
      | .op k a, .op k' a' => k = k' ∧ a = a'
      | _, _ => False := by
  cases c <;> cases c' <;> simp [CodeStructEq, skel, value_class]

/-- **same_iff_struct_partial**: in every history, two constructions return the same id iff they
are structurally identical, where "same constant value" means: same `type(value).__name__`, same
`str(value)` (exact content, sign of zero included) and same class of Python `==` with the identity
shortcut (so NaN objects are told apart by identity; see `const_value_class_nan_free` for the
NaN-free reading). -/
theorem same_iff_struct_partial (ops : List Cand) (i j : Nat) (ci cj : Cand) (a b : Id)
    (hi : ops[i]? = some ci) (hj : ops[j]? = some cj) (ha : ret ops i = some a) (hb : ret ops j = some b) :
    a = b ↔ CodeStructEq ci cj :=
  same_iff_code ops i j ci cj a b hi hj ha hb

/-- For NaN-free values (content in canonical form) the code's identification of constant values
is exactly: same type name and same content, sign of zero included. -/
theorem const_value_class_nan_free (v w : PyVal) (hv : v.Plain) (hw : w.Plain) :
    (canon v = canon w ∧ v.tname = w.tname ∧ v.data.strRep = w.data.strRep) ↔ (v.tname = w.tname ∧ v.data = w.data) :=
  plain_canon hv hw

/-- **same_iff_struct_plain**: the FULL statement (constants compared by type and exact content,
sign of zero included) for every history whose constant values have no NaN component (negative
zeros allowed). -/
theorem same_iff_struct_plain (ops : List Cand) (hp : ∀ c ∈ ops, c.Plain) (i j : Nat) (ci cj : Cand) (a b : Id)
    (hi : ops[i]? = some ci) (hj : ops[j]? = some cj) (ha : ret ops i = some a) (hb : ret ops j = some b) :
    a = b ↔ StrictStructEq ci cj := by
  rw [same_iff_code ops i j ci cj a b hi hj ha hb]
  exact skel_eq_iff_strict (hp _ (List.mem_of_getElem? hi)) (hp _ (List.mem_of_getElem? hj))

/-- **no_late_alias**: a later construction never returns the expression of an earlier,
structurally different construction. -/
theorem no_late_alias (ops : List Cand) (i j : Nat) (_hij : i < j) (ci cj : Cand) (a : Id)
    (hi : ops[i]? = some ci) (hj : ops[j]? = some cj) (ha : ret ops i = some a) (hb : ret ops j = some a) :
    CodeStructEq ci cj :=
  (same_iff_code ops i j ci cj a a hi hj ha hb).1 rfl

/-- The expression found under a returned id — at the end of the history, whatever was constructed
in between — is structurally the requested one: registered expressions are never overwritten. -/
theorem returned_is_requested (ops : List Cand) (n : Nat) (c : Cand) (a : Id)
    (hc : ops[n]? = some c) (ha : ret ops n = some a) :
    ∃ st, (run State.empty ops).1.exprs[a]? = some st ∧ CodeStructEq st.cand c :=
  (run_spec ops State.empty inv_empty).2.2.2.1 n c a hc ha

/-- A construction that returns an already registered expression returns one that an earlier
construction of the same history created. -/
theorem hit_is_earlier_fresh (ops : List Cand) (n : Nat) (a : Id)
    (h : (run State.empty ops).2[n]? = some (Out.hit a)) :
    ∃ m, m < n ∧ (run State.empty ops).2[m]? = some (Out.fresh a) := by
  rcases (run_spec ops State.empty inv_empty).2.2.2.2.1 n a h with h0 | h0
  · exact absurd h0 (Nat.not_lt_zero _)
  · exact h0

/-- Ids are handed out densely in registration order: the construction that registers a new
expression gets as id the number of new expressions registered before it. -/
theorem fresh_ids_dense (ops : List Cand) (n a : Nat)
    (h : (run State.empty ops).2[n]? = some (Out.fresh a)) :
    a = countFresh ((run State.empty ops).2.take n) := by
  have := (fresh_ids' ops State.empty inv_empty).2 n a h
  simpa [State.empty] using this

/-- The `RuntimeError("attempt to re-register equivalent expression")` branch is dead whenever
type names determine type objects among the constant values of the history. -/
theorem no_runtime_error (ops : List Cand) (h : TidConsistent ops) (n : Nat) :
    (run State.empty ops).2[n]? ≠ some Out.runtimeError :=
  no_rte' ops State.empty inv_empty (by simpa [State.empty] using h) n

/-! ### Witnesses (concrete, `decide`) — replayed on the real code by fav/props/c07.py -/

def tyF32 : Ty := .mk "float" (.bits 32)
def symX : Cand := .sym "x" tyF32
def pzero : PyVal := { tid := 0, tname := "float", data := .flt (.fin false 0 0), oid := 1 }
def nzero : PyVal := { tid := 0, tname := "float", data := .flt (.fin true 0 0), oid := 2 }
def nanA : PyVal := { tid := 0, tname := "float", data := .flt (.nan false 0), oid := 3 }
def nanB : PyVal := { tid := 0, tname := "float", data := .flt (.nan false 0), oid := 4 }

/-- Regression theorem for the defect repaired by /repo ab6dc38 (the key used to be
`(value, type name)` and `0.0 == -0.0`): `x = symbol("x", float32); constant(0.0, x); constant(-0.0, x)`
now gives two expressions, also for a zero component of a complex value. -/
theorem neg_zero_distinct_regression :
    (run State.empty [symX, .const pzero 0, .const nzero 0, .const pzero 0, .const nzero 0,
        .const { tid := 1, tname := "complex", data := .cplx (.fin false 0 0) (.fin false 0 0), oid := 5 } 0,
        .const { tid := 1, tname := "complex", data := .cplx (.fin false 0 0) (.fin true 0 0), oid := 6 } 0]).2
      = [.fresh 0, .fresh 1, .fresh 2, .hit 1, .hit 2, .fresh 3, .fresh 4] ∧
    ¬ StrictStructEq (.const pzero 0) (.const nzero 0) := by decide

/-- Negation witness (duplication): two distinct NaN objects of identical type and content give
two expressions. -/
theorem fresh_nan_split :
    (run State.empty [symX, .const nanA 0, .const nanB 0]).2 = [.fresh 0, .fresh 1, .fresh 2] ∧
    StrictStructEq (.const nanA 0) (.const nanB 0) := by decide

/-- The same NaN object used twice gives one expression (identity shortcut). -/
theorem shared_nan_same :
    (run State.empty [symX, .const nanA 0, .const nanA 0]).2 = [.fresh 0, .fresh 1, .hit 1] := by decide

/-- The full statement is false of the code as written (← direction, NaN objects). -/
theorem same_iff_struct_fails :
    ¬ (∀ (ops : List Cand) (i j : Nat) (ci cj : Cand) (a b : Id),
        ops[i]? = some ci → ops[j]? = some cj → ret ops i = some a → ret ops j = some b →
        (a = b ↔ StrictStructEq ci cj)) := by
  intro h
  have := h [symX, .const nanA 0, .const nanB 0] 1 2 (.const nanA 0) (.const nanB 0) 1 2 rfl rfl
    (by decide) (by decide)
  exact absurd (this.2 fresh_nan_split.2) (by decide)

/-- Python's `==` identifications made explicit: `0.0 == -0.0`, `1 == True == 1.0 == (1+0j)`,
`2 == 2.0` (different dyadic forms), `nan != nan`, `"pi" == "pi"`, `1 != "1"`; `str` tells the zeros
apart and erases NaN sign/payload; and the type name keeps `1`, `True`, `1.0`, `numpy.float64(1)`
apart as constants. -/
theorem python_eq_facts :
    pyEq (.flt (.fin false 0 0)) (.flt (.fin true 0 0)) = true ∧
    pyEq (.int 1) (.flt (.fin false 1 0)) = true ∧
    pyEq (.int 2) (.flt (.fin false 1 1)) = true ∧
    pyEq (.flt (.fin false 1 0)) (.cplx (.fin false 1 0) (.fin true 0 0)) = true ∧
    pyEq (.flt (.nan false 0)) (.flt (.nan false 0)) = false ∧
    pyEq (.str "pi") (.str "pi") = true ∧
    pyEq (.int 1) (.str "1") = false ∧
    pyEq (.int (-1)) (.int 1) = false ∧
    PyData.strRep (.flt (.fin false 0 0)) ≠ PyData.strRep (.flt (.fin true 0 0)) ∧
    PyData.strRep (.flt (.fin false 2 0)) = PyData.strRep (.flt (.fin false 1 1)) ∧
    PyData.strRep (.flt (.nan true 5)) = PyData.strRep (.flt (.nan false 0)) ∧
    (run State.empty [symX,
        .const { tid := 1, tname := "int", data := .int 1, oid := 1 } 0,
        .const { tid := 2, tname := "bool", data := .int 1, oid := 2 } 0,
        .const { tid := 0, tname := "float", data := .flt (.fin false 1 0), oid := 3 } 0,
        .const { tid := 3, tname := "float64", data := .flt (.fin false 1 0), oid := 4 } 0,
        .const { tid := 1, tname := "int", data := .int 1, oid := 5 } 0]).2
      = [.fresh 0, .fresh 1, .fresh 2, .fresh 3, .fresh 4, .hit 1] := by decide

/-! ### Non-vacuity: a concrete 12-step history with sharing -/

/-- x, y : float32; c = constant(1.5, x); add(x,y) twice (shared); add(y,x) (different);
mul(add, c); constant(1.5, x) again (shared); constant(1.5, y) (different like);
neg(add) and neg(x): two-level keys ("negative", 0, 1) vs ("negative", 0); select of arity 3. -/
def demo : List Cand :=
  [ .sym "x" tyF32, .sym "y" tyF32,
    .const { tid := 0, tname := "float", data := .flt (.fin false 3 (-1)), oid := 1 } 0,
    .op "add" [0, 1], .op "add" [0, 1], .op "add" [1, 0],
    .op "multiply" [3, 2],
    .const { tid := 0, tname := "float", data := .flt (.fin false 3 (-1)), oid := 2 } 0,
    .const { tid := 0, tname := "float", data := .flt (.fin false 3 (-1)), oid := 2 } 1,
    .op "negative" [3], .op "negative" [0],
    .op "select" [3, 0, 1] ]

example : (run State.empty demo).2 =
    [.fresh 0, .fresh 1, .fresh 2, .fresh 3, .hit 3, .fresh 4, .fresh 5, .hit 2, .fresh 6,
     .fresh 7, .fresh 8, .fresh 9] := by decide

example : ∀ c ∈ demo, c.Plain := by decide

/-- negative zeros satisfy the hypothesis of `same_iff_struct_plain` -/
example : (Cand.const nzero 0).Plain ∧ ¬ (Cand.const nanA 0).Plain := by decide

example : TidConsistent demo := by
  intro v l v' l' h1 h2 _
  simp [demo] at h1 h2
  rcases h1 with h1 | h1 | h1 <;> rcases h2 with h2 | h2 | h2 <;> simp [h1.1, h2.1]

/-- `same_iff_struct_partial` instantiated: constructions 3 and 4 of `demo` share, 3 and 5 do not. -/
example : ret demo 3 = some 3 ∧ ret demo 4 = some 3 ∧ ret demo 5 = some 4 ∧
    CodeStructEq (.op "add" [0, 1]) (.op "add" [0, 1]) ∧ ¬ CodeStructEq (.op "add" [0, 1]) (.op "add" [1, 0]) := by
  decide

end FAVerif.Props.C07
