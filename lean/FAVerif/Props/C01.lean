/-
C01 — complex algorithms.  Theorems about the programs regenerated from the current source
(14 algorithms × complex64/complex128, every complex sub-operation expanded by the package's own
definitions).  The ULP accuracy clauses are decided by search (fav/props/c01.py).
-/
import FAVerif.Generated.C01
import FAVerif.IR.EvalQ
import FAVerif.Lemmas.RelErr

namespace FAVerif.Props.C01
open FAVerif.IR FAVerif.FP FAVerif.FPQ FAVerif.Gen.C01

/-- Every regenerated program is well formed: each argument refers to an earlier node, inputs
are in range, outputs exist. -/
theorem generated_wf : ∀ p ∈ FAVerif.Gen.C01.all, p.2.wf = true := by decide +kernel

/-- Interface: every program takes the two real components (re, im) of z, in binary32 or
binary64, and returns two real components — one for `absolute`; and only the primitives
the NumPy arithmetic core offers on real scalars occur (no unexpanded complex node can be
represented in the IR at all). -/
theorem generated_shape :
    ∀ p ∈ FAVerif.Gen.C01.all,
      p.2.nIn = 2 ∧ (p.2.fmt = binary32 ∨ p.2.fmt = binary64) ∧
      (p.2.outs.length = 2 ∨ (p.1.startsWith "absolute" ∧ p.2.outs.length = 1)) := by
  decide +kernel

/-! ### A first accuracy theorem: complex `square` -/

/-- the regenerated complex `square`, over ℚ with an abstract rounding `r`: the real part is
RN(RN(x−y)·RN(y+x)) — or exactly 0 when |x| = |y| — and the imaginary part RN(2·RN(y·x)). -/
theorem square_evalQ (r : ℚ → ℚ) (x y : ℚ) :
    square_c64.evalQ r [x, y] =
      some [if (if x < 0 then -x else x) = (if y < 0 then -y else y) then 0 else r (r (x - y) * r (y + x)), r (2 * r (y * x))] ∧
    square_c128.evalQ r [x, y] =
      some [if (if x < 0 then -x else x) = (if y < 0 then -y else y) then 0 else r (r (x - y) * r (y + x)), r (2 * r (y * x))] := by
  have c32 : (decode ⟨24, 8⟩ 1073741824).toRat? = some 2 := by decide +kernel
  have c64 : (decode ⟨53, 11⟩ 4611686018427387904).toRat? = some 2 := by decide +kernel
  have z32 : (decode ⟨24, 8⟩ 0).toRat? = some 0 := by decide +kernel
  have z64 : (decode ⟨53, 11⟩ 0).toRat? = some 0 := by decide +kernel
  constructor
  · simp only [Prog.evalQ, evalQ, square_c64]
    simp [evalNodesQ, evalNodeQ, c32, z32, q2b]
  · simp only [Prog.evalQ, evalQ, square_c128]
    simp [evalNodesQ, evalNodeQ, c64, z64, q2b]

/-- **Accuracy of complex `square`** (ℚ model: any precision p ≥ 2, any emin, any round-to-nearest;
x, y representable; no overflow).  With u = 2^−p:
* if |x| = |y| the real part is exactly x² − y² = 0;
* otherwise, when x − y, y + x and the product of their roundings are in the normal range, the real
  part errs by at most ((1+u)³ − 1)·|x² − y²| (< 3.01 u relative: within 4 ULP of the correctly rounded
  value);
* when x·y is in the normal range the imaginary part errs by at most u·|2xy| (1 ULP). -/
theorem square_accuracy (q : QFmt) (r : ℚ → ℚ) (hr : IsRN q r) (x y : ℚ) :
    let re := if (if x < 0 then -x else x) = (if y < 0 then -y else y) then 0 else r (r (x - y) * r (y + x))
    let im := r (2 * r (y * x))
    ((if x < 0 then -x else x) = (if y < 0 then -y else y) → re = x ^ 2 - y ^ 2) ∧
    ((if x < 0 then -x else x) ≠ (if y < 0 then -y else y) →
      2 ^ (q.emin + q.p - 1) ≤ |x - y| → 2 ^ (q.emin + q.p - 1) ≤ |y + x| → 2 ^ (q.emin + q.p - 1) ≤ |r (x - y) * r (y + x)| →
      |re - (x ^ 2 - y ^ 2)| ≤ ((1 + uro q) ^ 3 - 1) * |x ^ 2 - y ^ 2|) ∧
    (2 ^ (q.emin + q.p - 1) ≤ |y * x| → Rep q (2 * r (y * x)) → |im - 2 * x * y| ≤ uro q * |2 * x * y|) := by
  intro re im
  refine ⟨fun h => ?_, fun h h1 h2 h3 => ?_, fun h1 h2 => ?_⟩
  · have hre : re = 0 := by simp only [re, h, if_true]
    rw [hre]
    have : |x| = |y| := by
      have e1 : (if x < 0 then -x else x) = |x| := by split <;> [rw [abs_of_neg ‹_›]; rw [abs_of_nonneg (not_lt.mp ‹_›)]]
      have e2 : (if y < 0 then -y else y) = |y| := by split <;> [rw [abs_of_neg ‹_›]; rw [abs_of_nonneg (not_lt.mp ‹_›)]]
      rw [e1, e2] at h; exact h
    have := sq_eq_sq_iff_abs_eq_abs x y |>.mpr this
    linarith
  · have hre : re = r (r (x - y) * r (y + x)) := by simp only [re, h, if_false]
    rw [hre]
    have := prod_of_rounded_err hr (Or.inr h1) (Or.inr h2) (Or.inr h3)
    have e : (x - y) * (y + x) = x ^ 2 - y ^ 2 := by ring
    rw [e] at this; exact this
  · show |r (2 * r (y * x)) - 2 * x * y| ≤ _
    rw [rn_id hr h2]
    have := rn_rel_err hr (Or.inr h1)
    have e : 2 * r (y * x) - 2 * x * y = 2 * (r (y * x) - y * x) := by ring
    rw [e, abs_mul, show 2 * x * y = 2 * (y * x) by ring, abs_mul]
    have h2pos : |(2 : ℚ)| = 2 := by norm_num
    rw [h2pos]
    nlinarith [abs_nonneg (r (y * x) - y * x), abs_nonneg (y * x)]

end FAVerif.Props.C01
