/-
C01 — complex algorithms.  Theorems about the programs regenerated from the current source
(14 algorithms × complex64/complex128, every complex sub-operation expanded by the package's own
definitions).  The ULP accuracy clauses are decided by search (fav/props/c01.py).
-/
import FAVerif.Generated.C01

namespace FAVerif.Props.C01
open FAVerif.IR FAVerif.FP FAVerif.Gen.C01

/-- Every regenerated program is well formed: each argument refers to an earlier node, inputs
are in range, outputs exist. -/
theorem generated_wf : ∀ p ∈ FAVerif.Gen.C01.all, p.2.wf = true := by decide +kernel

/-- Interface: every program takes the two real components (re, im) of z, in binary32 or
binary64, and returns two real components — one for `absolute`; and only the primitives
the NumPy arithmetic core offers on real scalars occur (no unexpanded complex node can be
represented in the IR at all). -/
theorem generated_shape :
    ∀ p ∈ FAVerif.Gen.C01.all,
      p.2.nIn = 2 ∧ (p.2.fmt = binary32 ∨ p.2.fmt = binary64) ∧
      (p.2.outs.length = 2 ∨ (p.1.startsWith "absolute" ∧ p.2.outs.length = 1)) := by
  decide +kernel

end FAVerif.Props.C01
