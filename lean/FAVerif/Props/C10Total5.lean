/-
C10 — Dekker's product with the overflow guard (`mul_dekker(scale=False, fix_overflow=True)`) on bit patterns, unconditional,
for float32 and float64 (float16: the box is empty, see DESIGN): on the stated box the guard is not taken, no operation overflows and (h, l) is the exact pair.
-/
import FAVerif.Props.C10Total4

namespace FAVerif.Props.C10
open FAVerif.IR FAVerif.FP FAVerif.FPQ FAVerif.Gen.C10 FAVerif.Refine FAVerif.SoftRound FAVerif.Ovf FAVerif.EFT

theorem dekker_fix_checks :
    overflowFree binary32 [46, 46] mul_dekker_fix_f32.nodes = true ∧ overflowFree binary64 [479, 479] mul_dekker_fix_f64.nodes = true ∧
    kindsOfS mul_dekker_fix_f32.nodes [] = some ((List.replicate 12 false) ++ [true] ++ (List.replicate 14 false)) ∧
    kindsOfS mul_dekker_fix_f64.nodes [] = some ((List.replicate 12 false) ++ [true] ++ (List.replicate 14 false)) := by
  decide +kernel

/-- the high half computed by Veltkamp's three operations stays below 2^(k+c+2) when |x| ≤ 2^k and the constant is at most 2^c -/
lemma split_hi_bound (q : QFmt) (r : ℚ → ℚ) (hr : IsRN q r) (C : ℚ) (c k : ℤ) (hC0 : 0 ≤ C) (hC : C ≤ 2 ^ c) (hc : 0 ≤ c) (hk : q.emin ≤ k)
    (x : ℚ) (bx : |x| ≤ 2 ^ k) : |r (r (C * x) - r (r (C * x) - x))| ≤ 2 ^ (k + c + 2) := by
  have two : (2 : ℚ) ≠ 0 := by norm_num
  have p1 : (2 : ℚ) ^ (k + c + 1) = 2 ^ (k + c) + 2 ^ (k + c) := by
    rw [zpow_add₀ two (k + c), zpow_one]; ring
  have p2 : (2 : ℚ) ^ (k + c + 2) = 2 ^ (k + c + 1) + 2 ^ (k + c + 1) := by
    rw [show k + c + 2 = (k + c + 1) + 1 by ring, zpow_add₀ two (k + c + 1), zpow_one]; ring
  have hcx : |C * x| ≤ 2 ^ (k + c) := by
    rw [abs_mul, abs_of_nonneg hC0, zpow_add₀ two, mul_comm]
    exact mul_le_mul bx hC hC0 (by positivity)
  have ha : |r (C * x)| ≤ 2 ^ (k + c) := abs_rn_le_pow hr (by omega) hcx
  have hxk : |x| ≤ 2 ^ (k + c) := le_trans bx (zpow_le_zpow_right₀ (by norm_num) (by omega))
  have hb : |r (r (C * x) - x)| ≤ 2 ^ (k + c + 1) :=
    abs_rn_le_pow hr (by omega) (by rw [p1]; exact le_trans (abs_sub _ _) (add_le_add ha hxk))
  refine abs_rn_le_pow hr (by omega) ?_
  rw [p2]
  refine le_trans (abs_sub _ _) (add_le_add (le_trans ha ?_) hb)
  exact zpow_le_zpow_right₀ (by norm_num) (by omega)

/-- the guard quantity |RN(yh·xh)| of `mul_dekker(fix_overflow=True)` stays below 2^(2(k+c+2)) -/
lemma guard_bound (q : QFmt) (r : ℚ → ℚ) (hr : IsRN q r) (C : ℚ) (c k : ℤ) (hC0 : 0 ≤ C) (hC : C ≤ 2 ^ c) (hc : 0 ≤ c) (hk : q.emin ≤ k)
    (hk0 : 0 ≤ k) (x y : ℚ) (bx : |x| ≤ 2 ^ k) (bY : |y| ≤ 2 ^ k) :
    |r (r (r (C * y) - r (r (C * y) - y)) * r (r (C * x) - r (r (C * x) - x)))| ≤ 2 ^ ((k + c + 2) + (k + c + 2)) := by
  refine abs_rn_le_pow hr (by omega) ?_
  rw [abs_mul, zpow_add₀ (by norm_num : (2 : ℚ) ≠ 0)]
  exact mul_le_mul (split_hi_bound q r hr C c k hC0 hC hc hk y bY) (split_hi_bound q r hr C c k hC0 hC hc hk x bx) (abs_nonneg _) (by positivity)

theorem lmax32 : (decode binary32 2139095039).toRat? = some (16777215 * 2 ^ 104) ∧ (decode binary32 0).toRat? = some 0 ∧
    binary32.maxBits = 2139095039 := by decide +kernel

/-- **Dekker's product with the overflow guard on bit patterns, unconditional** (float32): all normal operand patterns with
|x|, |y| ≤ 2^46 whose product's error term does not underflow -/
theorem dekker_fix_total_f32 (lib : Libm) (x y : Nat) (sx sy : Bool) (mx my : Nat) (ex ey : Int)
    (dx : decode binary32 x = .fin sx mx ex) (dy : decode binary32 y = .fin sy my ey)
    (nx : 2 ^ 23 ≤ mx) (ny : 2 ^ 23 ≤ my) (hund : binary32.emin ≤ ex + ey)
    (bx : |valQ sx mx ex| ≤ 2 ^ (46 : ℤ)) (bY : |valQ sy my ey| ≤ 2 ^ (46 : ℤ)) :
    ∃ h l : Nat, mul_dekker_fix_f32.eval lib [x, y] = some [h, l] ∧ isFiniteBits binary32 h = true ∧ isFiniteBits binary32 l = true ∧
      ∃ qh ql : ℚ, toQ binary32 h = some qh ∧ toQ binary32 l = some ql ∧
        qh = rne (qf binary32 (by decide)) (valQ sx mx ex * valQ sy my ey) ∧ qh + ql = valQ sx mx ex * valQ sy my ey := by
  have hf : WF binary32 := ⟨by decide, by decide⟩
  have hr := isRN_rne (qf binary32 hf.hp)
  obtain ⟨bx1, bx2⟩ := decode_bounds binary32 hf x sx mx ex dx
  obtain ⟨by1, by2⟩ := decode_bounds binary32 hf y sy my ey dy
  have habs : ∀ (s : Bool) (m : Nat), |(if s then -(m : ℤ) else (m : ℤ))| = (m : ℤ) := by
    intro s m; cases s <;> simp
  have hem : (qf binary32 hf.hp).emin ≤ (46 : ℤ) := by
    have : binary32.emin = -149 := by decide +kernel
    show binary32.emin ≤ 46
    omega
  have hg := guard_bound _ _ hr ((2 : ℚ) ^ 12 + 1) 13 46 (by norm_num) (by norm_num) (by norm_num) hem (by norm_num) _ _ bx bY
  have hL : (2 : ℚ) ^ ((46 + 13 + 2 : ℤ) + (46 + 13 + 2)) ≤ 16777215 * 2 ^ 104 := by norm_num
  have t := ties_dekker_fix
  simp only [List.mem_cons, List.mem_nil_iff, or_false, forall_eq_or_imp, forall_eq] at t
  obtain ⟨-, ⟨t1, t2⟩, -⟩ := t
  have fm : mul_dekker_fix_f32.fmt = binary32 := by decide
  have hq : mul_dekker_fix_f32.evalQ (rne (qf binary32 hf.hp)) [valQ sx mx ex, valQ sy my ey] =
      some [rne (qf binary32 hf.hp) (valQ sx mx ex * valQ sy my ey), valQ sx mx ex * valQ sy my ey - rne (qf binary32 hf.hp) (valQ sx mx ex * valQ sy my ey)] := by
    unfold Prog.evalQ
    rw [t1, t2, fm, lmax32.2.2]
    exact dekker_product_fix_overflow (qf binary32 hf.hp) _ hr binary32 _ _ _ 12 _ split_constants.2.1 lmax32.1 lmax32.2.1
      (by show (24 : ℕ) ≤ 2 * 12; norm_num) (by show 2 * 12 ≤ (24 : ℕ) + 2; norm_num) (by show 12 + 2 ≤ (24 : ℕ); norm_num) (if sx then -(mx : ℤ) else mx) (if sy then -(my : ℤ) else my) ex ey
      (by rw [habs]; exact_mod_cast nx) (by rw [habs]; exact_mod_cast bx1) (by rw [habs]; exact_mod_cast ny) (by rw [habs]; exact_mod_cast by1)
      bx2 by2 hund _ _ (valQ_int sx mx ex) (valQ_int sy my ey) (le_trans hg hL)
  obtain ⟨h, l, h1, h2, h3, h4, h5⟩ := total2 mul_dekker_fix_f32 hf Lmax_ge4.2.1 _ dekker_fix_checks.2.2.1
    (by intro o ho; have : o = 14 ∨ o = 26 := by simpa [mul_dekker_fix_f32] using ho
        rcases this with rfl | rfl <;> decide)
    [46, 46] dekker_fix_checks.1 lib [x, y] _
    (insRel2 (finite_of_decode _ _ _ _ _ dx) (finite_of_decode _ _ _ _ _ dy) (toQ_fin _ x sx mx ex dx) (toQ_fin _ y sy my ey dy))
    (hE_two bx bY) _ _ hq
  exact ⟨h, l, h1, h2, h3, _, _, h4, h5, rfl, by ring⟩

theorem lmax64 : (decode binary64 9218868437227405311).toRat? = some (9007199254740991 * 2 ^ 971) ∧ (decode binary64 0).toRat? = some 0 ∧
    binary64.maxBits = 9218868437227405311 := by decide +kernel

/-- **Dekker's product with the overflow guard on bit patterns, unconditional** (float64): all normal operand patterns with
|x|, |y| ≤ 2^479 whose product's error term does not underflow -/
theorem dekker_fix_total_f64 (lib : Libm) (x y : Nat) (sx sy : Bool) (mx my : Nat) (ex ey : Int)
    (dx : decode binary64 x = .fin sx mx ex) (dy : decode binary64 y = .fin sy my ey)
    (nx : 2 ^ 52 ≤ mx) (ny : 2 ^ 52 ≤ my) (hund : binary64.emin ≤ ex + ey)
    (bx : |valQ sx mx ex| ≤ 2 ^ (479 : ℤ)) (bY : |valQ sy my ey| ≤ 2 ^ (479 : ℤ)) :
    ∃ h l : Nat, mul_dekker_fix_f64.eval lib [x, y] = some [h, l] ∧ isFiniteBits binary64 h = true ∧ isFiniteBits binary64 l = true ∧
      ∃ qh ql : ℚ, toQ binary64 h = some qh ∧ toQ binary64 l = some ql ∧
        qh = rne (qf binary64 (by decide)) (valQ sx mx ex * valQ sy my ey) ∧ qh + ql = valQ sx mx ex * valQ sy my ey := by
  have hf : WF binary64 := ⟨by decide, by decide⟩
  have hr := isRN_rne (qf binary64 hf.hp)
  obtain ⟨bx1, bx2⟩ := decode_bounds binary64 hf x sx mx ex dx
  obtain ⟨by1, by2⟩ := decode_bounds binary64 hf y sy my ey dy
  have habs : ∀ (s : Bool) (m : Nat), |(if s then -(m : ℤ) else (m : ℤ))| = (m : ℤ) := by
    intro s m; cases s <;> simp
  have hem : (qf binary64 hf.hp).emin ≤ (479 : ℤ) := by
    have : binary64.emin = -1074 := by decide +kernel
    show binary64.emin ≤ 479
    omega
  have hg := guard_bound _ _ hr ((2 : ℚ) ^ 27 + 1) 28 479 (by norm_num) (by norm_num) (by norm_num) hem (by norm_num) _ _ bx bY
  have hL : (2 : ℚ) ^ ((479 + 28 + 2 : ℤ) + (479 + 28 + 2)) ≤ 9007199254740991 * 2 ^ 971 := by
    have h1 : ((479 + 28 + 2 : ℤ) + (479 + 28 + 2)) = ((1018 : ℕ) : ℤ) := by norm_num
    rw [h1, zpow_natCast, show (1018 : ℕ) = 47 + 971 from rfl, pow_add]
    exact mul_le_mul_of_nonneg_right (by norm_num) (by positivity)
  have t := ties_dekker_fix
  simp only [List.mem_cons, List.mem_nil_iff, or_false, forall_eq_or_imp, forall_eq] at t
  obtain ⟨-, -, ⟨t1, t2⟩⟩ := t
  have fm : mul_dekker_fix_f64.fmt = binary64 := by decide
  have hq : mul_dekker_fix_f64.evalQ (rne (qf binary64 hf.hp)) [valQ sx mx ex, valQ sy my ey] =
      some [rne (qf binary64 hf.hp) (valQ sx mx ex * valQ sy my ey), valQ sx mx ex * valQ sy my ey - rne (qf binary64 hf.hp) (valQ sx mx ex * valQ sy my ey)] := by
    unfold Prog.evalQ
    rw [t1, t2, fm, lmax64.2.2]
    exact dekker_product_fix_overflow (qf binary64 hf.hp) _ hr binary64 _ _ _ 27 _ split_constants.2.2 lmax64.1 lmax64.2.1
      (by show (53 : ℕ) ≤ 2 * 27; norm_num) (by show 2 * 27 ≤ (53 : ℕ) + 2; norm_num) (by show 27 + 2 ≤ (53 : ℕ); norm_num) (if sx then -(mx : ℤ) else mx) (if sy then -(my : ℤ) else my) ex ey
      (by rw [habs]; exact_mod_cast nx) (by rw [habs]; exact_mod_cast bx1) (by rw [habs]; exact_mod_cast ny) (by rw [habs]; exact_mod_cast by1)
      bx2 by2 hund _ _ (valQ_int sx mx ex) (valQ_int sy my ey) (le_trans hg hL)
  obtain ⟨h, l, h1, h2, h3, h4, h5⟩ := total2 mul_dekker_fix_f64 hf Lmax_ge4.2.2 _ dekker_fix_checks.2.2.2
    (by intro o ho; have : o = 14 ∨ o = 26 := by simpa [mul_dekker_fix_f64] using ho
        rcases this with rfl | rfl <;> decide)
    [479, 479] dekker_fix_checks.2.1 lib [x, y] _
    (insRel2 (finite_of_decode _ _ _ _ _ dx) (finite_of_decode _ _ _ _ _ dy) (toQ_fin _ x sx mx ex dx) (toQ_fin _ y sy my ey dy))
    (hE_two bx bY) _ _ hq
  exact ⟨h, l, h1, h2, h3, _, _, h4, h5, rfl, by ring⟩


/-- non-vacuity: 3.0 × 3.0 in float32 meets every hypothesis of `dekker_fix_total_f32` -/
example : decode binary32 0x40400000 = .fin false 12582912 (-22) ∧ 2 ^ 23 ≤ 12582912 ∧ binary32.emin ≤ (-22 : Int) + (-22) := by decide +kernel

end FAVerif.Props.C10
