/-
Helper lemmas for C05 (printer model).  Statements the property is answerable to live in
Props/C05.lean; nothing here weakens them.
-/
import FAVerif.Models.Printer
import FAVerif.Models.RefAlloc
import FAVerif.Models.ConstName
import Std.Data.String.ToNat

namespace FAVerif.Printer

variable {L : Type}

/-! ### small facts -/

@[simp] theorem fail_defined (s : St L) (e : Option String) : (s.fail e).defined = s.defined := by
  unfold St.fail; cases s.err <;> rfl

@[simp] theorem fail_stmts (s : St L) (e : Option String) : (s.fail e).stmts = s.stmts := by
  unfold St.fail; cases s.err <;> rfl

/-- distinct nodes have distinct reference names (the conclusion of `no_alias`) -/
def RefInj (g : Graph L) : Prop :=
  ∀ (i j : Nat) (ni nj : Node L), g[i]? = some ni → g[j]? = some nj → ni.ref = nj.ref → i = j

theorem scan_append (b : List Name) (s1 s2 : List (Stmt L)) :
    scan b (s1 ++ s2) = (scan b s1).bind (fun b1 => scan b1 s2) := by
  induction s1 generalizing b with
  | nil => simp [scan]
  | cons st rest ih =>
    cases st with
    | assign r l e => simp only [List.cons_append, scan]; split <;> simp [ih]
    | check r l => simp only [List.cons_append, scan]; split <;> simp [ih]

theorem varsList_mem {es : List (TExp L)} {x : Name} :
    x ∈ varsList es ↔ ∃ e ∈ es, x ∈ e.vars := by
  induction es with
  | nil => simp [varsList]
  | cons a as ih => simp [varsList, ih]

/-! ### SSA / structure of the printed statements -/

/-- what a statement list appended by the printer looks like: every assignment assigns the
reference name of a node the operation of that node; every assertion checks a node's name -/
def FromNodes (g : Graph L) (ex : List (Stmt L)) : Prop :=
  ∀ st ∈ ex, match st with
    | .assign r l e => ∃ (j : Nat) (n : Node L) (es : List (TExp L)), g[j]? = some n ∧ n.ref = r ∧ l = n.lab ∧ e = .op n.lab es
    | .check r l => ∃ (j : Nat) (n : Node L), g[j]? = some n ∧ n.ref = r ∧ l = n.lab

structure SsaPost (g : Graph L) (D0 : List Name) (i : Nat) (s : St L) (e : TExp L) (s' : St L) : Prop where
  scan : scan D0 s'.stmts = some s'.defined
  sub : ∀ r ∈ s.defined, r ∈ s'.defined
  vars : ∀ r ∈ e.vars, r ∈ s'.defined
  new : ∀ r ∈ s'.defined, r ∈ s.defined ∨ ∃ (j : Nat) (n : Node L), j ≤ i ∧ g[j]? = some n ∧ n.ref = r
  ext : ∃ ex, s'.stmts = s.stmts ++ ex ∧ FromNodes g ex

theorem foldArgs_ssa {g : Graph L} {D0 : List Name} {p : St L → Nat → TExp L × St L} {bound : Nat}
    (hp : ∀ s i, i < bound → scan D0 s.stmts = some s.defined → SsaPost g D0 i s (p s i).1 (p s i).2) :
    ∀ (args : List Nat) (s : St L), (∀ a ∈ args, a < bound) → scan D0 s.stmts = some s.defined →
      scan D0 (foldArgs p s args).2.stmts = some (foldArgs p s args).2.defined ∧
      (∀ r ∈ s.defined, r ∈ (foldArgs p s args).2.defined) ∧
      (∀ r ∈ varsList (foldArgs p s args).1, r ∈ (foldArgs p s args).2.defined) ∧
      (∀ r ∈ (foldArgs p s args).2.defined, r ∈ s.defined ∨ ∃ (j : Nat) (n : Node L) (a : Nat), a ∈ args ∧ j ≤ a ∧ g[j]? = some n ∧ n.ref = r) ∧
      (∃ ex, (foldArgs p s args).2.stmts = s.stmts ++ ex ∧ FromNodes g ex) := by
  intro args
  induction args with
  | nil =>
    intro s _ hs
    refine ⟨by simpa [foldArgs] using hs, by simp [foldArgs], by simp [foldArgs, varsList], ?_, ⟨[], by simp [foldArgs], by simp [FromNodes]⟩⟩
    intro r hr; left; simpa [foldArgs] using hr
  | cons a as ih =>
    intro s hb hs
    have h1 := hp s a (hb a (by simp)) hs
    have h2 := ih (p s a).2 (fun x hx => hb x (by simp [hx])) h1.scan
    obtain ⟨h2s, h2sub, h2v, h2n, ex2, h2e, h2f⟩ := h2
    obtain ⟨ex1, h1e, h1f⟩ := h1.ext
    refine ⟨by simpa [foldArgs] using h2s, ?_, ?_, ?_, ?_⟩
    · intro r hr; simp only [foldArgs]; exact h2sub r (h1.sub r hr)
    · intro r hr
      simp only [foldArgs, varsList, List.mem_append] at hr ⊢
      rcases hr with hr | hr
      · exact h2sub r (h1.vars r hr)
      · exact h2v r hr
    · intro r hr
      simp only [foldArgs] at hr
      rcases h2n r hr with h | ⟨j, n, a', ha', hj, hg, hn⟩
      · rcases h1.new r h with h | ⟨j, n, hj, hg, hn⟩
        · left; exact h
        · right; exact ⟨j, n, a, by simp, hj, hg, hn⟩
      · right; exact ⟨j, n, a', by simp [ha'], hj, hg, hn⟩
    · refine ⟨ex1 ++ ex2, by simp [foldArgs, h2e, h1e], ?_⟩
      intro st hst
      rcases List.mem_append.1 hst with h | h
      · exact h1f st h
      · exact h2f st h

theorem pr_ssa {g : Graph L} (hwf : WF g) (hinj : RefInj g) (need : Name → Bool) (dbg : Nat) (D0 : List Name) :
    ∀ (f : Nat) (s : St L) (i : Nat), i < f → i < g.length → scan D0 s.stmts = some s.defined →
      SsaPost g D0 i s (pr g need dbg f s i).1 (pr g need dbg f s i).2 := by
  intro f
  induction f with
  | zero => intro s i h; omega
  | succ f ih =>
    intro s i hif hil hs
    obtain ⟨n, hn⟩ : ∃ n, g[i]? = some n := ⟨g[i], by simp [hil]⟩
    have hargs := (hwf i n hn).1
    unfold pr
    simp only [hn]
    split
    · -- reference already defined
      rename_i hdef
      refine ⟨?_, ?_, ?_, ?_, ⟨[], ?_, by simp [FromNodes]⟩⟩
      · split <;> simpa using hs
      · intro r hr; split <;> simpa using hr
      · intro r hr; simp [TExp.vars] at hr; subst hr; split <;> simpa using hdef
      · intro r hr; left; revert hr; split <;> simp
      · split <;> simp
    · rename_i hndef
      have hfa := foldArgs_ssa (g := g) (D0 := D0) (p := pr g need dbg f) (bound := min f g.length)
        (fun s' j hj hs' => ih s' j (by omega) (by omega) hs') n.pargs (s.fail n.preErr)
        (fun a ha => by have := hargs a ha; omega) (by simpa using hs)
      obtain ⟨hsc, hsub, hv, hnew, ex, hex, hfrom⟩ := hfa
      simp only [fail_defined, fail_stmts] at hsub hnew hex
      split
      · -- assigned
        -- the reference is still undefined after the operands were printed
        have hfresh : n.ref ∉ (foldArgs (pr g need dbg f) (s.fail n.preErr) n.pargs).2.defined := by
          intro hmem
          rcases hnew _ hmem with h | ⟨j, nj, a, ha, hj, hg, hr⟩
          · exact hndef h
          · have := hinj j i nj n hg hn hr
            have := hargs a ha
            omega
        refine ⟨?_, ?_, ?_, ?_, ?_⟩
        · simp only [fail_stmts, fail_defined]
          rw [scan_append, hsc]
          simp only [Option.bind_some]
          have hall : (TExp.op n.lab (foldArgs (pr g need dbg f) (s.fail n.preErr) n.pargs).1).vars.all
              (· ∈ (foldArgs (pr g need dbg f) (s.fail n.preErr) n.pargs).2.defined) = true := by
            simp only [TExp.vars, List.all_eq_true, decide_eq_true_eq]
            exact hv
          split
          · simp [scan, hall, hfresh]
          · simp [scan, hall, hfresh]
        · intro r hr; simp only [fail_defined]; exact List.mem_cons_of_mem _ (hsub r hr)
        · intro r hr; simp [TExp.vars] at hr; subst hr; simp
        · intro r hr
          simp only [fail_defined, List.mem_cons] at hr
          rcases hr with hr | hr
          · right; exact ⟨i, n, Nat.le_refl _, hn, hr.symm⟩
          · rcases hnew r hr with h | ⟨j, nj, a, ha, hj, hg, hr'⟩
            · left; exact h
            · right; exact ⟨j, nj, by have := hargs a ha; omega, hg, hr'⟩
        · refine ⟨ex ++ (Stmt.assign n.ref n.lab (TExp.op n.lab (foldArgs (pr g need dbg f) (s.fail n.preErr) n.pargs).1) ::
              (if dbg ≥ 1 ∧ ¬ n.noCheck then [Stmt.check n.ref n.lab] else [])), ?_, ?_⟩
          · simp [hex]
          · intro st hst
            rcases List.mem_append.1 hst with h | h
            · exact hfrom st h
            · rcases List.mem_cons.1 h with h | h
              · subst h; exact ⟨i, n, _, hn, rfl, rfl, rfl⟩
              · split at h
                · simp at h; subst h; exact ⟨i, n, hn, rfl, rfl⟩
                · simp at h
      · -- inlined
        refine ⟨hsc, hsub, ?_, ?_, ⟨ex, hex, hfrom⟩⟩
        · intro r hr; simp only [TExp.vars] at hr; exact hv r hr
        · intro r hr
          rcases hnew r hr with h | ⟨j, nj, a, ha, hj, hg, hr'⟩
          · left; exact h
          · right; exact ⟨j, nj, by have := hargs a ha; omega, hg, hr'⟩

/-! ### semantics -/

variable {V : Type} [Inhabited V]

theorem evalTs_eq_map (prim : L → List V → V) (env : Env V) (es : List (TExp L)) :
    evalTs prim env es = es.map (evalT prim env) := by
  induction es with
  | nil => simp [evalTs]
  | cons a as ih => simp [evalTs, ih]

mutual
theorem evalT_congr (prim : L → List V → V) (env1 env2 : Env V) :
    ∀ e : TExp L, (∀ x ∈ e.vars, env1.get? x = env2.get? x) → evalT prim env1 e = evalT prim env2 e
  | .var r, h => by
    have := h r (by simp [TExp.vars])
    simp [evalT, this]
  | .op l as, h => by
    simp only [evalT]
    rw [evalTs_congr prim env1 env2 as (by simpa [TExp.vars] using h)]
theorem evalTs_congr (prim : L → List V → V) (env1 env2 : Env V) :
    ∀ es : List (TExp L), (∀ x ∈ varsList es, env1.get? x = env2.get? x) → evalTs prim env1 es = evalTs prim env2 es
  | [], _ => rfl
  | a :: as, h => by
    simp only [evalTs]
    rw [evalT_congr prim env1 env2 a (fun x hx => h x (by simp [varsList, hx])),
      evalTs_congr prim env1 env2 as (fun x hx => h x (by simp [varsList, hx]))]
end

theorem execStmts_append (prim : L → List V → V) (env : Env V) (a b : List (Stmt L)) :
    execStmts prim env (a ++ b) = execStmts prim (execStmts prim env a) b := by
  simp [execStmts, List.foldl_append]

theorem execStmts_cons (prim : L → List V → V) (env : Env V) (st : Stmt L) (ss : List (Stmt L)) :
    execStmts prim env (st :: ss) = execStmts prim (execStmt prim env st) ss := rfl

theorem execStmts_nil (prim : L → List V → V) (env : Env V) : execStmts prim env ([] : List (Stmt L)) = env := rfl

omit [Inhabited V] in
theorem get?_cons (r x : Name) (v : V) (env : Env V) :
    Env.get? ((r, v) :: env) x = if r == x then some v else env.get? x := by
  unfold Env.get?
  simp only [List.find?]
  cases h : (r == x) <;> simp

theorem exec_strip (prim : L → List V → V) (env : Env V) (ss : List (Stmt L)) :
    execStmts prim env (stripChecks ss) = execStmts prim env ss := by
  induction ss generalizing env with
  | nil => rfl
  | cons st rest ih =>
    cases st with
    | assign r l e => simpa [stripChecks, Stmt.isCheck, execStmts, execStmt] using ih _
    | check r l => simpa [stripChecks, Stmt.isCheck, execStmts, execStmt] using ih _

theorem valOf_fuel {g : Graph L} (hwf : WF g) (prim : L → List V → V) :
    ∀ (f1 f2 i : Nat), i < f1 → i < f2 → valOf g prim f1 i = valOf g prim f2 i := by
  intro f1
  induction f1 with
  | zero => intro f2 i h; omega
  | succ f1 ih =>
    intro f2 i h1 h2
    cases f2 with
    | zero => omega
    | succ f2 =>
      simp only [valOf]
      cases hn : g[i]? with
      | none => rfl
      | some n =>
        simp only
        congr 1
        apply List.map_congr_left
        intro a ha
        have := (hwf i n hn).1 a ha
        exact ih f2 a (by omega) (by omega)

/-- every defined reference is bound, in the environment produced by the statements printed so far,
to the value of the node it names -/
def Bound (g : Graph L) (prim : L → List V → V) (env0 : Env V) (s : St L) : Prop :=
  ∀ r ∈ s.defined, ∃ (j : Nat) (n : Node L), g[j]? = some n ∧ n.ref = r ∧
    (execStmts prim env0 s.stmts).get? r = some (valOf g prim (j + 1) j)

theorem bound_stable {g : Graph L} (hinj : RefInj g) {prim : L → List V → V} {env0 : Env V} {s s' : St L}
    (hb : Bound g prim env0 s) (hb' : Bound g prim env0 s') (hsub : ∀ r ∈ s.defined, r ∈ s'.defined) :
    ∀ r ∈ s.defined, (execStmts prim env0 s'.stmts).get? r = (execStmts prim env0 s.stmts).get? r := by
  intro r hr
  obtain ⟨j, n, hg, hn, hv⟩ := hb r hr
  obtain ⟨j', n', hg', hn', hv'⟩ := hb' r (hsub r hr)
  have : j = j' := hinj j j' n n' hg hg' (by rw [hn, hn'])
  subst this
  rw [hv, hv']

theorem foldArgs_sem {g : Graph L} (hinj : RefInj g) {prim : L → List V → V} {env0 : Env V} {D0 : List Name}
    {p : St L → Nat → TExp L × St L} {bound : Nat}
    (hp : ∀ s i, i < bound → scan D0 s.stmts = some s.defined → SsaPost g D0 i s (p s i).1 (p s i).2)
    (hq : ∀ s i, i < bound → scan D0 s.stmts = some s.defined → Bound g prim env0 s →
      Bound g prim env0 (p s i).2 ∧
      evalT prim (execStmts prim env0 (p s i).2.stmts) (p s i).1 = valOf g prim (i + 1) i) :
    ∀ (args : List Nat) (s : St L), (∀ a ∈ args, a < bound) → scan D0 s.stmts = some s.defined →
      Bound g prim env0 s →
      Bound g prim env0 (foldArgs p s args).2 ∧
      evalTs prim (execStmts prim env0 (foldArgs p s args).2.stmts) (foldArgs p s args).1 =
        args.map (fun a => valOf g prim (a + 1) a) := by
  intro args
  induction args with
  | nil => intro s _ _ hb; exact ⟨by simpa [foldArgs] using hb, by simp [foldArgs, evalTs]⟩
  | cons a as ih =>
    intro s hbd hs hb
    have h1 := hp s a (hbd a (by simp)) hs
    have q1 := hq s a (hbd a (by simp)) hs hb
    have hbd' : ∀ x ∈ as, x < bound := fun x hx => hbd x (by simp [hx])
    have q2 := ih (p s a).2 hbd' h1.scan q1.1
    have f2 := foldArgs_ssa hp as (p s a).2 hbd' h1.scan
    refine ⟨by simpa [foldArgs] using q2.1, ?_⟩
    simp only [foldArgs, evalTs, List.map_cons]
    rw [q2.2]
    congr 1
    rw [← q1.2]
    apply evalT_congr
    intro x hx
    exact bound_stable hinj q1.1 q2.1 f2.2.1 x (h1.vars x hx)

theorem pr_sem {g : Graph L} (hwf : WF g) (hinj : RefInj g) (need : Name → Bool) (dbg : Nat) (D0 : List Name)
    (prim : L → List V → V) (env0 : Env V) :
    ∀ (f : Nat) (s : St L) (i : Nat), i < f → i < g.length → scan D0 s.stmts = some s.defined →
      Bound g prim env0 s →
      Bound g prim env0 (pr g need dbg f s i).2 ∧
      evalT prim (execStmts prim env0 (pr g need dbg f s i).2.stmts) (pr g need dbg f s i).1 =
        valOf g prim (i + 1) i := by
  intro f
  induction f with
  | zero => intro s i h; omega
  | succ f ih =>
    intro s i hif hil hs hb
    obtain ⟨n, hn⟩ : ∃ n, g[i]? = some n := ⟨g[i], by simp [hil]⟩
    have hargs := (hwf i n hn).1
    have hval : valOf g prim (i + 1) i = prim n.lab (n.pargs.map (fun a => valOf g prim (a + 1) a)) := by
      simp only [valOf, hn]
      congr 1
      apply List.map_congr_left
      intro a ha
      have := hargs a ha
      exact valOf_fuel hwf prim i (a + 1) a this (by omega)
    unfold pr
    simp only [hn]
    split
    · rename_i hdef
      obtain ⟨j, nj, hg, hr, hv⟩ := hb n.ref hdef
      have : j = i := hinj j i nj n hg hn hr
      subst this
      constructor
      · split
        · exact hb
        · intro r hr'; simpa using hb r (by simpa using hr')
      · have : (execStmts prim env0 (if need n.ref = true then s else s.fail (some "AssertionError")).stmts) =
            execStmts prim env0 s.stmts := by split <;> simp
        simp only [this, evalT, hv, Option.getD_some]
    · rename_i hndef
      have hs' : scan D0 (s.fail n.preErr).stmts = some (s.fail n.preErr).defined := by simpa using hs
      have hb' : Bound g prim env0 (s.fail n.preErr) := by intro r hr; simpa using hb r (by simpa using hr)
      have hpA : ∀ (s' : St L) (j : Nat), j < min f g.length → scan D0 s'.stmts = some s'.defined →
          SsaPost g D0 j s' (pr g need dbg f s' j).1 (pr g need dbg f s' j).2 :=
        fun s' j hj hs' => pr_ssa hwf hinj need dbg D0 f s' j (by omega) (by omega) hs'
      have hbnd : ∀ a ∈ n.pargs, a < min f g.length := fun a ha => by have := hargs a ha; omega
      have hfa := foldArgs_ssa hpA n.pargs (s.fail n.preErr) hbnd hs'
      have hfs := foldArgs_sem hinj (prim := prim) (env0 := env0) hpA
        (fun s' j hj hs' hb' => ih s' j (by omega) (by omega) hs' hb') n.pargs (s.fail n.preErr) hbnd hs' hb'
      obtain ⟨hsc, hsub, hv, hnew, ex, hex, hfrom⟩ := hfa
      obtain ⟨hbf, hvals⟩ := hfs
      simp only [fail_defined, fail_stmts] at hsub hnew hex
      have heval : evalT prim (execStmts prim env0 (foldArgs (pr g need dbg f) (s.fail n.preErr) n.pargs).2.stmts)
          (TExp.op n.lab (foldArgs (pr g need dbg f) (s.fail n.preErr) n.pargs).1) = valOf g prim (i + 1) i := by
        simp only [evalT, hvals, hval]
      split
      · have hfresh : n.ref ∉ (foldArgs (pr g need dbg f) (s.fail n.preErr) n.pargs).2.defined := by
          intro hmem
          rcases hnew _ hmem with h | ⟨j, nj, a, ha, hj, hg, hr⟩
          · exact hndef h
          · have := hinj j i nj n hg hn hr
            have := hargs a ha
            omega
        have henv : execStmts prim env0 (((foldArgs (pr g need dbg f) (s.fail n.preErr) n.pargs).2.fail n.tyErr).stmts ++
              (Stmt.assign n.ref n.lab (TExp.op n.lab (foldArgs (pr g need dbg f) (s.fail n.preErr) n.pargs).1) ::
                (if dbg ≥ 1 ∧ ¬ n.noCheck then [Stmt.check n.ref n.lab] else []))) =
            (n.ref, valOf g prim (i + 1) i) :: execStmts prim env0 (foldArgs (pr g need dbg f) (s.fail n.preErr) n.pargs).2.stmts := by
          rw [execStmts_append]
          simp only [fail_stmts]
          split <;> simp only [execStmts_cons, execStmts_nil, execStmt, heval]
        constructor
        · intro r hr
          simp only [fail_defined, List.mem_cons] at hr
          simp only
          rw [henv, get?_cons]
          rcases hr with hr | hr
          · subst hr; exact ⟨i, n, hn, rfl, by simp⟩
          · obtain ⟨j, nj, hg, hrj, hvj⟩ := hbf r hr
            refine ⟨j, nj, hg, hrj, ?_⟩
            have : (n.ref == r) = false := by
              simp only [beq_eq_false_iff_ne, ne_eq]
              intro h; subst h; exact hfresh hr
            simp [this, hvj]
        · simp only
          rw [henv]
          simp [evalT, get?_cons]
      · exact ⟨hbf, heval⟩

/-! ### debug level -/

def St.strip (s : St L) : St L := { s with stmts := stripChecks s.stmts }

@[simp] theorem strip_fail (s : St L) (e : Option String) : (s.fail e).strip = s.strip.fail e := by
  unfold St.fail St.strip; cases h : s.err <;> simp [h]

theorem stripChecks_append (a b : List (Stmt L)) : stripChecks (a ++ b) = stripChecks a ++ stripChecks b := by
  simp [stripChecks]

theorem foldArgs_debug {p1 p0 : St L → Nat → TExp L × St L}
    (h : ∀ s i, (p1 s i).1 = (p0 s.strip i).1 ∧ (p1 s i).2.strip = (p0 s.strip i).2) :
    ∀ (args : List Nat) (s : St L),
      (foldArgs p1 s args).1 = (foldArgs p0 s.strip args).1 ∧ (foldArgs p1 s args).2.strip = (foldArgs p0 s.strip args).2 := by
  intro args
  induction args with
  | nil => intro s; simp [foldArgs]
  | cons a as ih =>
    intro s
    have h1 := h s a
    have h2 := ih (p1 s a).2
    simp only [foldArgs]
    rw [h1.2] at h2
    exact ⟨by rw [h1.1, h2.1], h2.2⟩

theorem pr_debug (g : Graph L) (need : Name → Bool) (dbg : Nat) :
    ∀ (f : Nat) (s : St L) (i : Nat),
      (pr g need dbg f s i).1 = (pr g need 0 f s.strip i).1 ∧
      (pr g need dbg f s i).2.strip = (pr g need 0 f s.strip i).2 := by
  intro f
  induction f with
  | zero => intro s i; simp [pr]
  | succ f ih =>
    intro s i
    unfold pr
    cases hn : g[i]? with
    | none => simp
    | some n =>
      simp only
      have hd : s.strip.defined = s.defined := rfl
      rw [hd]
      split
      · split <;> simp
      · have hfa := foldArgs_debug (p1 := pr g need dbg f) (p0 := pr g need 0 f) ih n.pargs (s.fail n.preErr)
        rw [strip_fail] at hfa
        obtain ⟨h1, h2⟩ := hfa
        split
        · refine ⟨rfl, ?_⟩
          have e0 : (foldArgs (pr g need 0 f) (s.strip.fail n.preErr) n.pargs).2.fail n.tyErr
              = ((foldArgs (pr g need dbg f) (s.fail n.preErr) n.pargs).2.fail n.tyErr).strip := by
            rw [← h2, strip_fail]
          rw [e0, ← h1]
          generalize (foldArgs (pr g need dbg f) (s.fail n.preErr) n.pargs).2.fail n.tyErr = s1
          simp only [St.strip, stripChecks_append]
          split <;> simp [stripChecks, Stmt.isCheck]
        · exact ⟨by rw [h1], h2⟩

end FAVerif.Printer

namespace FAVerif.Printer

variable {L : Type}

/-! ### executable checks of the hypotheses (used by the examples and by the driver) -/

def wfCheck (g : Graph L) : Bool :=
  (List.range g.length).all fun i =>
    match g[i]? with
    | some n => n.pargs.all (· < i) && n.cargs.all (· < i)
    | none => true

theorem wf_of_check (g : Graph L) (h : wfCheck g = true) : WF g := by
  intro i n hn
  have hi : i < g.length := by
    obtain ⟨hh, _⟩ := List.getElem?_eq_some_iff.1 hn
    exact hh
  have := (List.all_eq_true.1 h) i (List.mem_range.2 hi)
  simp only [hn, Bool.and_eq_true, List.all_eq_true, decide_eq_true_eq] at this
  exact this

theorem nodup_getElem?_inj {α : Type} : ∀ (l : List α), l.Nodup → ∀ (i j : Nat) (a : α),
    l[i]? = some a → l[j]? = some a → i = j
  | [], _, i, j, a, h, _ => by simp at h
  | x :: xs, hnd, i, j, a, hi, hj => by
    have ⟨hx, hxs⟩ := List.nodup_cons.1 hnd
    cases i with
    | zero =>
      cases j with
      | zero => rfl
      | succ j =>
        simp at hi hj
        subst hi
        exact absurd (List.mem_of_getElem? hj) hx
    | succ i =>
      cases j with
      | zero =>
        simp at hi hj
        subst hj
        exact absurd (List.mem_of_getElem? hi) hx
      | succ j =>
        simp at hi hj
        exact congrArg _ (nodup_getElem?_inj xs hxs i j a hi hj)

theorem refInj_of_nodup (g : Graph L) (h : (g.map (·.ref)).Nodup) : RefInj g := by
  intro i j ni nj hi hj href
  apply nodup_getElem?_inj (g.map (·.ref)) h i j ni.ref
  · simp [hi]
  · simp [hj, href]

/-- what `scan = some` says: the assigned names are pairwise distinct, none of them was bound
before, and the bound names afterwards are exactly the old ones plus the assigned ones -/
theorem scan_spec : ∀ (ss : List (Stmt L)) (b b' : List Name), scan b ss = some b' →
    (∀ x ∈ assigned ss, x ∉ b) ∧ (assigned ss).Nodup ∧ b' = (assigned ss).reverse ++ b := by
  intro ss
  induction ss with
  | nil => intro b b' h; simp [scan] at h; simp [assigned, h]
  | cons st rest ih =>
    intro b b' h
    cases st with
    | assign r l e =>
      simp only [scan] at h
      split at h
      · rename_i hc
        obtain ⟨h1, h2, h3⟩ := ih _ _ h
        refine ⟨?_, ?_, ?_⟩
        · intro x hx
          simp only [assigned, List.mem_cons] at hx
          rcases hx with hx | hx
          · subst hx; exact hc.2
          · intro hb; exact h1 x hx (List.mem_cons_of_mem _ hb)
        · simp only [assigned, List.nodup_cons]
          exact ⟨fun hm => h1 r hm (by simp), h2⟩
        · simp [assigned, h3]
      · cases h
    | check r l =>
      simp only [scan] at h
      split at h
      · simpa [assigned] using ih _ _ h
      · cases h

end FAVerif.Printer

/-! ## reference registry -/

namespace FAVerif.RefAlloc

theorem loop_fresh (reg : List (RName × ExprId)) (e : ExprId) (base : RName) :
    ∀ (f k : Nat) (n : RName), loop reg e base f k = .fresh n → reg.lookup n = none := by
  intro f
  induction f with
  | zero => intro k n h; simp [loop] at h
  | succ f ih =>
    intro k n h
    unfold loop at h
    split at h
    · rename_i heq
      injection h with h
      subst h
      exact heq
    · split at h
      · simp at h
      · exact ih _ _ h

theorem consistent_empty : Consistent {} := by
  intro e n h; simp at h

theorem commit_consistent {s : RState} {e : ExprId} {n : RName} (hc : Consistent s)
    (hfree : s.reg.lookup n = none) : Consistent (commit s e n).1 := by
  intro e' n' h
  simp only [commit, List.lookup_cons] at h ⊢
  by_cases he : e' = e
  · subst he
    simp at h
    subst h
    simp
  · have hne : (e' == e) = false := by simpa using he
    rw [hne] at h
    have h2 := hc e' n' h
    have : (n' == n) = false := by
      simp only [beq_eq_false_iff_ne, ne_eq]
      intro hn; subst hn; rw [hfree] at h2; cases h2
    rw [this]
    exact h2

theorem register_consistent {s : RState} {e : ExprId} {origin : String} {name : RName} (hc : Consistent s)
    (hnew : s.refOf.lookup e = none) (hg : Guard s ⟨e, origin, name⟩) :
    Consistent (register s e origin name).1 := by
  unfold register
  split
  · rename_i h; exact commit_consistent hc h
  · rename_i o ho
    split
    · exact hc
    · rename_i hoe
      simp only
      split
      · rename_i hbase
        exact commit_consistent hc (hg hnew o ho hoe hbase)
      · split
        · exact hc
        · split
          · rename_i n hl
            exact commit_consistent hc (loop_fresh _ _ _ _ _ _ hl)
          · exact hc
          · exact hc

theorem step_consistent {s : RState} {c : Call} (hc : Consistent s) (hg : Guard s c) : Consistent (step s c) := by
  unfold step
  split
  · exact hc
  · rename_i h; exact register_consistent hc h hg

theorem run_consistent : ∀ (cs : List Call) (s : RState), Consistent s → GuardedRun s cs → Consistent (run s cs) := by
  intro cs
  induction cs with
  | nil => intro s hc _; exact hc
  | cons c cs ih =>
    intro s hc hg
    exact ih (step s c) (step_consistent hc hg.1) hg.2

theorem inj_of_consistent {s : RState} (hc : Consistent s) {e1 e2 : ExprId} {n : RName}
    (h1 : s.refOf.lookup e1 = some n) (h2 : s.refOf.lookup e2 = some n) : e1 = e2 := by
  have a := hc e1 n h1
  have b := hc e2 n h2
  rw [a] at b
  exact Option.some.inj b

/-- at top level (`origin = ""`) the unchecked branch cannot be taken -/
theorem guard_toplevel (s : RState) (c : Call) (h : c.origin = "") : Guard s c := by
  intro _ o ho _ hbase
  rw [h] at hbase
  simp [ho] at hbase

theorem guardedRun_toplevel : ∀ (cs : List Call) (s : RState), (∀ c ∈ cs, c.origin = "") → GuardedRun s cs := by
  intro cs
  induction cs with
  | nil => intro s _; trivial
  | cons c cs ih =>
    intro s h
    exact ⟨guard_toplevel s c (h c (by simp)), ih _ (fun c' hc' => h c' (by simp [hc']))⟩

/-- executable form of `Guard` -/
def guardB (s : RState) (c : Call) : Bool :=
  match s.refOf.lookup c.e with
  | some _ => true
  | none =>
    match s.reg.lookup c.name with
    | none => true
    | some o => o == c.e || (s.reg.lookup (c.origin ++ c.name)).isSome ||
        (s.reg.lookup (sfx (c.origin ++ c.name) 0)).isNone

theorem guard_of_guardB (s : RState) (c : Call) (h : guardB s c = true) : Guard s c := by
  intro hnew o ho hoe hbase
  unfold guardB at h
  simp only [hnew, ho, hbase, Option.isSome_none, Bool.or_false, Bool.or_eq_true, beq_iff_eq,
    Option.isNone_iff_eq_none] at h
  rcases h with h | h
  · exact absurd h hoe
  · exact h

def guardedRunB : RState → List Call → Bool
  | _, [] => true
  | s, c :: cs => guardB s c && guardedRunB (step s c) cs

theorem guardedRun_of_B : ∀ (cs : List Call) (s : RState), guardedRunB s cs = true → GuardedRun s cs := by
  intro cs
  induction cs with
  | nil => intro s _; trivial
  | cons c cs ih =>
    intro s h
    simp only [guardedRunB, Bool.and_eq_true] at h
    exact ⟨guard_of_guardB s c h.1, ih _ h.2⟩

end FAVerif.RefAlloc


/-! ## constant names -/

namespace FAVerif.ConstName

theorem identInt_inj (a b : Int) (h : identInt a = identInt b) : a = b := by
  unfold identInt at h
  have key : ∀ n m : Nat, toString n = toString m → n = m := fun n m hh => Nat.repr_injective hh
  have negne : ∀ n m : Nat, "neg" ++ toString n ≠ toString m := by
    intro n m hh
    have h1 : (toString m).toList = 'n' :: 'e' :: 'g' :: (toString n).toList := by
      rw [← hh]; simp [String.toList_append]
    have hd : ∀ c ∈ (toString m).toList, c.isDigit = true := by
      intro c hc
      have : (toString m).toList = Nat.toDigits 10 m := by simp [toString, Nat.repr]
      rw [this] at hc
      exact Nat.isDigit_of_mem_toDigits (by decide) (by decide) hc
    have := hd 'n' (by rw [h1]; simp)
    simp at this
  split at h <;> split at h
  · have := key _ _ (String.append_right_inj _ |>.1 h)
    omega
  · exact absurd h (negne _ _)
  · exact absurd h.symm (negne _ _)
  · have := key _ _ h
    omega

end FAVerif.ConstName
