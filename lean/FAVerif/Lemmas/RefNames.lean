/-
C09 — lemmas about the reference-name allocation model (Models/RefNames.lean).
  * hash-seed permutations are irrelevant (`Store.get_irrel`, `makeRef_perm`);
  * `make_ref` commutes with erasing the numbers of anonymous symbols (`makeRef_good`, `step_erase`);
  * relabelling construction counters, idempotence of `ref`, re-running construction operations.
Core Lean only (no Mathlib).
-/
import FAVerif.Models.RefNames

namespace FAVerif.RefNames

theorem lookup_perm {l₁ l₂ : Assoc} (h : l₁.Perm l₂) (nd : (l₁.map Prod.fst).Nodup) (k : String) :
    l₁.lookup k = l₂.lookup k := by
  induction h with
  | nil => rfl
  | cons x _ ih =>
    obtain ⟨a, b⟩ := x
    rw [List.map_cons, List.nodup_cons] at nd
    simp only [List.lookup_cons]
    split
    · rfl
    · exact ih nd.2
  | swap x y l =>
    obtain ⟨a, b⟩ := x
    obtain ⟨c, d⟩ := y
    simp only [List.map_cons, List.nodup_cons, List.mem_cons, not_or] at nd
    simp only [List.lookup_cons]
    by_cases hx : k == a <;> by_cases hy : k == c <;> simp [hx, hy]
    have h1 : k = a := by simpa using hx
    have h2 : k = c := by simpa using hy
    exact absurd (h2.symm.trans h1) nd.1.1
  | trans h₁ _ ih₁ ih₂ =>
    rw [ih₁ nd]
    exact ih₂ ((h₁.map Prod.fst).nodup nd)

theorem Store.get_irrel (p q : SeedPerm) (s : Store) (k : String) : s.get p k = s.get q k := by
  unfold Store.get
  have hp := p.perm s.val
  have hq := q.perm s.val
  rw [lookup_perm hp ((hp.symm.map Prod.fst).nodup s.property) k,
      lookup_perm hq ((hq.symm.map Prod.fst).nodup s.property) k]

theorem Store.get_eq (p q : SeedPerm) : Store.get p = Store.get q := by
  funext s k; exact Store.get_irrel p q s k

theorem register_perm (p q : SeedPerm) : register p = register q := by
  funext st id o n
  unfold register chooseName
  rw [Store.get_eq p q]

theorem makeRef_perm (ks : Nat → String) (p q : SeedPerm) : ∀ fuel, makeRef ks p fuel = makeRef ks q fuel := by
  intro fuel
  induction fuel with
  | zero => funext st id; simp [makeRef]
  | succ n ih =>
    funext st id
    simp only [makeRef, makeRefBody]
    rw [ih, register_perm p q]

def eraseP : Payload → Payload
  | .sym (.anon _) t => .sym (.anon 0) t
  | p => p

def eraseE (e : ExprInfo) : ExprInfo := { e with payload := eraseP e.payload }

def State.erase (st : State) : State := { st with exprs := st.exprs.map eraseE }

theorem updAt_map (g f : ExprInfo → ExprInfo) (h : ∀ e, g (f e) = f (g e)) :
    ∀ (l : List ExprInfo) (i : Nat), (updAt l i f).map g = updAt (l.map g) i f := by
  intro l
  induction l with
  | nil => intro i; simp [updAt]
  | cons e t ih =>
    intro i
    cases i with
    | zero => simp [updAt, h]
    | succ j => simp [updAt, ih]

theorem updAt_map_inv {β : Type} (g : ExprInfo → β) (f : ExprInfo → ExprInfo) (h : ∀ e, g (f e) = g e) :
    ∀ (l : List ExprInfo) (i : Nat), (updAt l i f).map g = l.map g := by
  intro l
  induction l with
  | nil => intro i; simp [updAt]
  | cons e t ih =>
    intro i
    cases i with
    | zero => simp [updAt, h]
    | succ j => simp [updAt, ih]

theorem skel_eraseE (e : ExprInfo) : skel (eraseE e) = skel e := by
  obtain ⟨k, pl, ops, ik, o, rn, r⟩ := e
  cases pl with
  | sym n t => cases n <;> rfl
  | const a b => rfl
  | node => rfl

theorem skel_erase (st : State) : st.erase.exprs.map skel = st.exprs.map skel := by
  simp [State.erase, List.map_map, Function.comp_def, skel_eraseE]

theorem commit_erase (st : State) (id : Nat) (nm : String) :
    commit st.erase id nm = ((commit st id nm).1.erase, (commit st id nm).2) := by
  simp only [commit, State.erase]
  congr 2
  exact (updAt_map eraseE (fun e => { e with ref := some nm }) (fun e => rfl) st.exprs id).symm

theorem commit_skel (st : State) (id : Nat) (nm : String) :
    (commit st id nm).1.exprs.map skel = st.exprs.map skel := by
  simp only [commit]
  exact updAt_map_inv skel (fun e => { e with ref := some nm }) (fun e => rfl) st.exprs id

theorem register_erase (p : SeedPerm) (st : State) (id : Nat) (o : Origin) (n : String) :
    register p st.erase id o n = ((register p st id o n).1.erase, (register p st id o n).2) :=
  commit_erase st id _

theorem register_skel (p : SeedPerm) (st : State) (id : Nat) (o : Origin) (n : String) :
    (register p st id o n).1.exprs.map skel = st.exprs.map skel :=
  commit_skel st id _

theorem firstNamed_erase (l : List ExprInfo) (ops : List Nat) :
    firstNamed (l.map eraseE) ops = firstNamed l ops := by
  cases ops with
  | nil => rfl
  | cons o os =>
    simp only [firstNamed, List.getElem?_map]
    cases l[o]? <;> rfl

theorem firstNamedS_skel (l : List ExprInfo) (ops : List Nat) :
    firstNamedS (l.map skel) ops = firstNamed l ops := by
  cases ops with
  | nil => rfl
  | cons o os =>
    simp only [firstNamed, firstNamedS, List.getElem?_map]
    cases l[o]? <;> rfl

/-- What the induction carries about `make_ref` for the operands. -/
structure Good (F : State → Nat → State × String) (safe : List Skel → Nat → Bool) : Prop where
  st_erase : ∀ st i, (F st.erase i).1 = (F st i).1.erase
  skel_pres : ∀ st i, (F st i).1.exprs.map skel = st.exprs.map skel
  name_eq : ∀ st i, safe (st.exprs.map skel) i = true → (F st.erase i).2 = (F st i).2

theorem threadMap_good {F : State → Nat → State × String} {safe : List Skel → Nat → Bool} (g : Good F safe) :
    ∀ (ops : List Nat) (st : State),
      (threadMap F st.erase ops).1 = (threadMap F st ops).1.erase ∧
      (threadMap F st ops).1.exprs.map skel = st.exprs.map skel ∧
      (ops.all (safe (st.exprs.map skel)) = true → (threadMap F st.erase ops).2 = (threadMap F st ops).2) := by
  intro ops
  induction ops with
  | nil => intro st; simp [threadMap]
  | cons o os ih =>
    intro st
    simp only [threadMap]
    rw [g.st_erase st o]
    obtain ⟨a, b, c⟩ := ih (F st o).1
    refine ⟨a, b.trans (g.skel_pres st o), ?_⟩
    intro hs
    simp only [List.all_cons, Bool.and_eq_true] at hs
    rw [g.name_eq st o hs.1, c (by rw [g.skel_pres st o]; exact hs.2)]

theorem body_good (ks : Nat → String) (p : SeedPerm) {rec : State → Nat → State × String}
    {safe : List Skel → Nat → Bool} (g : Good rec safe) (st : State) (id : Nat) (e : ExprInfo) :
    (makeRefBody ks p rec st.erase id (eraseE e)).1 = (makeRefBody ks p rec st id e).1.erase ∧
    (makeRefBody ks p rec st id e).1.exprs.map skel = st.exprs.map skel ∧
    (bodySafe safe (st.exprs.map skel) (skel e) = true →
      (makeRefBody ks p rec st.erase id (eraseE e)).2 = (makeRefBody ks p rec st id e).2) := by
  obtain ⟨kind, pl, ops, ik, og, rn, rf⟩ := e
  cases rf with
  | some r => simp [makeRefBody, eraseE]
  | none =>
    cases rn with
    | some n =>
      simp only [makeRefBody, eraseE]
      rw [register_erase]
      exact ⟨rfl, register_skel p st id og n, fun _ => rfl⟩
    | none =>
      cases pl with
      | sym n t =>
        cases n with
        | named s => simp [makeRefBody, eraseE, eraseP]
        | anon k => simp [makeRefBody, eraseE, eraseP, bodySafe, skel]
      | const a b => simp [makeRefBody, eraseE, eraseP]
      | node =>
        simp only [makeRefBody, eraseE, eraseP, bodySafe, skel]
        by_cases hk : (kind == "absolute") = true
        · simp only [hk, if_true]
          cases ops with
          | nil => simp
          | cons o os =>
            simp only []
            refine ⟨g.st_erase st o, g.skel_pres st o, ?_⟩
            intro hs
            simp at hs
            rw [g.name_eq st o hs]
        · simp only [hk]
          have hfe : firstNamed st.erase.exprs ops = firstNamed st.exprs ops := firstNamed_erase st.exprs ops
          simp only [hfe, firstNamedS_skel]
          by_cases hf : firstNamed st.exprs ops = true
          · simp only [hf, if_true]
            obtain ⟨a, b, c⟩ := threadMap_good g ops st
            refine ⟨a, b, ?_⟩
            intro hs
            simp only [Option.isSome_none, Bool.false_eq_true, if_false] at hs
            have hs' : ops.all (safe (List.map skel st.exprs)) = true := by simpa using hs
            rw [c hs']
            rfl
          · simp [hf]

theorem refSafeS_zero (sk : List Skel) (i : Nat) : refSafeS sk 0 i = true := rfl

theorem makeRef_good (ks : Nat → String) (p : SeedPerm) :
    ∀ fuel, Good (makeRef ks p fuel) (fun sk i => refSafeS sk fuel i) := by
  intro fuel
  induction fuel with
  | zero => exact ⟨fun _ _ => rfl, fun _ _ => rfl, fun _ _ _ => rfl⟩
  | succ n ih =>
    have key : ∀ (st : State) (i : Nat),
        (makeRef ks p (n + 1) st.erase i).1 = (makeRef ks p (n + 1) st i).1.erase ∧
        (makeRef ks p (n + 1) st i).1.exprs.map skel = st.exprs.map skel ∧
        (refSafeS (st.exprs.map skel) (n + 1) i = true →
          (makeRef ks p (n + 1) st.erase i).2 = (makeRef ks p (n + 1) st i).2) := by
      intro st i
      have he : st.erase.exprs[i]? = (st.exprs[i]?).map eraseE := by
        simp [State.erase, List.getElem?_map]
      simp only [makeRef, refSafeS, he, List.getElem?_map]
      cases h : st.exprs[i]? with
      | none => simp
      | some e =>
        simp only [Option.map_some]
        exact body_good ks p ih st i e
    exact ⟨fun st i => (key st i).1, fun st i => (key st i).2.1, fun st i => (key st i).2.2⟩

theorem eraseE_idem (e : ExprInfo) : eraseE (eraseE e) = eraseE e := by
  obtain ⟨k, pl, ops, ik, o, rn, r⟩ := e
  cases pl with
  | sym n t => cases n <;> rfl
  | const a b => rfl
  | node => rfl

theorem erase_erase (st : State) : st.erase.erase = st.erase := by
  simp [State.erase, List.map_map, Function.comp_def, eraseE_idem]

theorem erase_upd (st : State) (i : Nat) (f : ExprInfo → ExprInfo) (h : ∀ e, eraseE (f e) = f (eraseE e)) :
    State.erase { st with exprs := updAt st.exprs i f } = { st.erase with exprs := updAt st.erase.exprs i f } := by
  simp only [State.erase]
  rw [updAt_map eraseE f h]

theorem beq_false_of_ne {α : Type} [DecidableEq α] {a b : α} (h : a ≠ b) : (a == b) = false := by
  simp [h]

def Payload.isAnon : Payload → Bool
  | .sym (.anon _) _ => true
  | _ => false

theorem sameKey_erase (k : String) (p : Payload) (ops : List Nat) (hp : p.isAnon = false) (e : ExprInfo) :
    sameKey k p ops (eraseE e) = sameKey k p ops e := by
  obtain ⟨k', pl, ops', ik, o, rn, r⟩ := e
  cases pl with
  | sym n t =>
    cases n with
    | named s => rfl
    | anon c =>
      cases p with
      | sym n' t' =>
        cases n' with
        | named s' =>
          simp only [sameKey, eraseE, eraseP]
          rw [beq_false_of_ne (a := Payload.sym (SymName.anon 0) t) (by intro h; cases h),
              beq_false_of_ne (a := Payload.sym (SymName.anon c) t) (by intro h; cases h)]
        | anon c' => simp [Payload.isAnon] at hp
      | const a b =>
        simp only [sameKey, eraseE, eraseP]
        rw [beq_false_of_ne (a := Payload.sym (SymName.anon 0) t) (by intro h; cases h),
            beq_false_of_ne (a := Payload.sym (SymName.anon c) t) (by intro h; cases h)]
      | node =>
        simp only [sameKey, eraseE, eraseP]
        rw [beq_false_of_ne (a := Payload.sym (SymName.anon 0) t) (by intro h; cases h),
            beq_false_of_ne (a := Payload.sym (SymName.anon c) t) (by intro h; cases h)]
  | const a b => rfl
  | node => rfl

theorem eraseE_of_not_anon (e : ExprInfo) (h : e.payload.isAnon = false) : eraseE e = e := by
  obtain ⟨k', pl, ops', ik, o, rn, r⟩ := e
  cases pl with
  | sym n t =>
    cases n with
    | named s => rfl
    | anon c => simp [Payload.isAnon] at h
  | const a b => rfl
  | node => rfl

theorem appendExpr_erase (st : State) (k : String) (p : Payload) (ops : List Nat) :
    (appendExpr st.erase k (eraseP p) ops) = ((appendExpr st k p ops).1.erase, (appendExpr st k p ops).2) := by
  simp [appendExpr, State.erase, eraseE]

theorem eraseP_of_not_anon (p : Payload) (h : p.isAnon = false) : eraseP p = p := by
  cases p with
  | sym n t =>
    cases n with
    | named s => rfl
    | anon c => simp [Payload.isAnon] at h
  | const a b => rfl
  | node => rfl

theorem mkExpr_erase (st : State) (k : String) (p : Payload) (ops : List Nat) (hp : p.isAnon = false) :
    mkExpr st.erase k p ops = ((mkExpr st k p ops).1.erase, (mkExpr st k p ops).2) := by
  have hf : st.erase.exprs.findIdx? (sameKey k p ops) = st.exprs.findIdx? (sameKey k p ops) := by
    simp only [State.erase, List.findIdx?_map]
    congr 1
    funext e
    exact sameKey_erase k p ops hp e
  unfold mkExpr
  rw [hf]
  cases st.exprs.findIdx? (sameKey k p ops) with
  | some i => rfl
  | none =>
    have := appendExpr_erase st k p ops
    rw [eraseP_of_not_anon p hp] at this
    exact this

/-- Observable part of an output: emitted names (and ids), not the quiet names. -/
def Out.vis : Out → Out
  | .quiet _ => .unit
  | o => o

/-- One step on the erased state, under any other ambient, is the erasure of the step. -/
theorem step_erase (amb amb₀ : Ambient) (st : State) (op : Op) :
    (step amb₀ st.erase op).2.1.erase = (step amb st op).2.1.erase ∧
    ((match op with | .ref i true => refSafe st i | _ => true) = true →
      (step amb₀ st.erase op).2.2.vis = (step amb st op).2.2.vis) := by
  cases op with
  | symbol s t =>
    simp only [step]
    rw [mkExpr_erase st _ _ _ rfl]
    exact ⟨by rw [erase_erase], fun _ => rfl⟩
  | const a b l =>
    simp only [step]
    rw [mkExpr_erase st _ _ _ rfl]
    exact ⟨by rw [erase_erase], fun _ => rfl⟩
  | node k ops =>
    simp only [step]
    rw [mkExpr_erase st _ _ _ rfl]
    exact ⟨by rw [erase_erase], fun _ => rfl⟩
  | defaultLike t =>
    simp only [step]
    have hd : st.erase.defaultLike = st.defaultLike := rfl
    rw [hd]
    cases st.defaultLike with
    | some i => exact ⟨by rw [erase_erase], fun _ => rfl⟩
    | none =>
      simp [appendExpr, State.erase, eraseE_idem, Out.vis]
      simp [eraseE, eraseP]
  | bump n => exact ⟨by simp [step, State.erase, List.map_map, Function.comp_def, eraseE_idem], fun _ => rfl⟩
  | name i s =>
    refine ⟨?_, fun _ => rfl⟩
    have hF : ∀ e, eraseE ((fun e : ExprInfo => { e with refName := some s }) e) =
        (fun e : ExprInfo => { e with refName := some s }) (eraseE e) := fun e => rfl
    have e1 := erase_upd st i _ hF
    have e2 := erase_upd st.erase i _ hF
    rw [erase_erase] at e2
    exact e2.trans e1.symm
  | autoname i s =>
    refine ⟨?_, fun _ => rfl⟩
    have hF : ∀ e, eraseE ((fun e : ExprInfo =>
          if e.origin == st.stackName && e.refName.isNone then { e with refName := some s } else e) e) =
        (fun e : ExprInfo =>
          if e.origin == st.stackName && e.refName.isNone then { e with refName := some s } else e) (eraseE e) := by
      intro e
      by_cases h : (e.origin == st.stackName && e.refName.isNone) = true
      · have h' : ((eraseE e).origin == st.stackName && (eraseE e).refName.isNone) = true := h
        simp only [if_pos h, if_pos h']; rfl
      · have h' : ¬ ((eraseE e).origin == st.stackName && (eraseE e).refName.isNone) = true := h
        simp only [if_neg h, if_neg h']
    have e1 := erase_upd st i _ hF
    have e2 := erase_upd st.erase i _ hF
    rw [erase_erase] at e2
    exact e2.trans e1.symm
  | call f =>
    refine ⟨?_, fun _ => rfl⟩
    simp only [step]
    have hs : st.erase.stackCounts = st.stackCounts := rfl
    rw [hs, Store.get_irrel amb₀.seedPerm amb.seedPerm]
    simp [State.erase, List.map_map, Function.comp_def, eraseE_idem]
  | ret =>
    have hs : st.erase.saved = st.saved := rfl
    simp only [step, hs]
    cases st.saved with
    | nil => exact ⟨by rw [erase_erase], fun _ => rfl⟩
    | cons o t => exact ⟨by simp [State.erase, List.map_map, Function.comp_def, eraseE_idem], fun _ => rfl⟩
  | ref i emit =>
    simp only [step]
    have hfu : fuelOf st.erase = fuelOf st := by simp [fuelOf, State.erase]
    rw [hfu, makeRef_perm natStr amb₀.seedPerm amb.seedPerm]
    have g := makeRef_good natStr amb.seedPerm (fuelOf st)
    refine ⟨by rw [g.st_erase st i, erase_erase], ?_⟩
    intro hsafe
    cases emit with
    | false => rfl
    | true =>
      have hn := g.name_eq st i hsafe
      simp only [if_true, Out.vis]
      rw [hn]

theorem refSafe_erase (st : State) (i : Nat) : refSafe st.erase i = refSafe st i := by
  have hfu : fuelOf st.erase = fuelOf st := by simp [fuelOf, State.erase]
  unfold refSafe
  rw [skel_erase, hfu]

theorem refSafe_of_erase_eq {st₁ st₂ : State} (h : st₁.erase = st₂.erase) (i : Nat) :
    refSafe st₁ i = refSafe st₂ i := by
  rw [← refSafe_erase st₁, ← refSafe_erase st₂, h]

theorem names_cons_vis (o₁ o₂ : Out) (t₁ t₂ : List Out) (h : o₁.vis = o₂.vis) (ht : names t₁ = names t₂) :
    names (o₁ :: t₁) = names (o₂ :: t₂) := by
  cases o₁ <;> cases o₂ <;> simp [Out.vis] at h <;> simp [names, ht, h]

def guardOf (st : State) : Op → Bool
  | .ref i true => refSafe st i
  | _ => true

theorem guardOf_erase_eq {st₁ st₂ : State} (h : st₁.erase = st₂.erase) (op : Op) :
    guardOf st₁ op = guardOf st₂ op := by
  cases op with
  | ref i emit => cases emit <;> simp [guardOf, refSafe_of_erase_eq h]
  | _ => rfl

theorem safeRun_cons (amb : Ambient) (st : State) (op : Op) (ops : List Op) :
    safeRun amb st (op :: ops) = (guardOf st op && safeRun (step amb st op).1 (step amb st op).2.1 ops) := by
  cases op with
  | ref i emit => cases emit <;> rfl
  | _ => rfl

/-- Two states that agree up to the numbers of anonymous symbols stay so under one step taken under
two arbitrary ambients, and show the same visible output when the guard holds. -/
theorem step_sim (amb₁ amb₂ : Ambient) {st₁ st₂ : State} (h : st₁.erase = st₂.erase) (op : Op) :
    (step amb₁ st₁ op).2.1.erase = (step amb₂ st₂ op).2.1.erase ∧
    (guardOf st₁ op = true → (step amb₁ st₁ op).2.2.vis = (step amb₂ st₂ op).2.2.vis) := by
  have a := step_erase amb₁ amb₁ st₁ op
  have b := step_erase amb₂ amb₁ st₂ op
  rw [← h] at b
  refine ⟨a.1.symm.trans b.1, ?_⟩
  intro hg
  have hg2 : guardOf st₂ op = true := by rw [← guardOf_erase_eq h]; exact hg
  have ha := a.2 (by cases op <;> first | exact hg | rfl)
  have hb := b.2 (by cases op <;> first | exact hg2 | rfl)
  exact ha.symm.trans hb

theorem run_sim (ops : List Op) : ∀ (amb₁ amb₂ : Ambient) (st₁ st₂ : State), st₁.erase = st₂.erase →
    safeRun amb₁ st₁ ops = true → names (run amb₁ st₁ ops).2.2 = names (run amb₂ st₂ ops).2.2 := by
  induction ops with
  | nil => intros; rfl
  | cons op ops ih =>
    intro amb₁ amb₂ st₁ st₂ h hs
    rw [safeRun_cons, Bool.and_eq_true] at hs
    obtain ⟨s1, s2⟩ := step_sim amb₁ amb₂ h op
    simp only [run]
    exact names_cons_vis _ _ _ _ (s2 hs.1) (ih _ _ _ _ s1 hs.2)

theorem safeRun_sim (ops : List Op) : ∀ (amb₁ amb₂ : Ambient) (st₁ st₂ : State), st₁.erase = st₂.erase →
    safeRun amb₁ st₁ ops = safeRun amb₂ st₂ ops := by
  induction ops with
  | nil => intros; rfl
  | cons op ops ih =>
    intro amb₁ amb₂ st₁ st₂ h
    rw [safeRun_cons, safeRun_cons, guardOf_erase_eq h, ih _ _ _ _ (step_sim amb₁ amb₂ h op).1]

/-- Ambients that agree on the `_tmp` counter (they may differ in the seed permutation and everything
else) drive the machine identically: same states, same outputs (quiet names included). -/
theorem step_seed_irrel (amb₁ amb₂ : Ambient) (h : amb₁.tmpCounter = amb₂.tmpCounter) (st : State) (op : Op) :
    (step amb₁ st op).2 = (step amb₂ st op).2 ∧ (step amb₁ st op).1.tmpCounter = (step amb₂ st op).1.tmpCounter := by
  cases op with
  | defaultLike t =>
    simp only [step]
    cases st.defaultLike with
    | some i => exact ⟨rfl, h⟩
    | none => simp [h]
  | call f => simp [step, Store.get_irrel amb₁.seedPerm amb₂.seedPerm, h]
  | ref i emit => simp [step, makeRef_perm natStr amb₁.seedPerm amb₂.seedPerm, h]
  | ret => simp only [step]; cases st.saved <;> exact ⟨rfl, h⟩
  | _ => exact ⟨rfl, h⟩

theorem run_seed_irrel (ops : List Op) : ∀ (amb₁ amb₂ : Ambient) (st : State), amb₁.tmpCounter = amb₂.tmpCounter →
    (run amb₁ st ops).2 = (run amb₂ st ops).2 ∧ (run amb₁ st ops).1.tmpCounter = (run amb₂ st ops).1.tmpCounter := by
  induction ops with
  | nil => intro amb₁ amb₂ st h; exact ⟨rfl, h⟩
  | cons op ops ih =>
    intro amb₁ amb₂ st h
    obtain ⟨a, b⟩ := step_seed_irrel amb₁ amb₂ h st op
    simp only [run]
    have hst : (step amb₁ st op).2.1 = (step amb₂ st op).2.1 := congrArg Prod.fst a
    have hout : (step amb₁ st op).2.2 = (step amb₂ st op).2.2 := congrArg Prod.snd a
    rw [hst, hout]
    obtain ⟨c, d⟩ := ih (step amb₁ st op).1 (step amb₂ st op).1 (step amb₂ st op).2.1 b
    exact ⟨by rw [c], d⟩

/-! ### Relabelling of construction counters -/

theorem commit_relabel (ρ : Nat → Nat) (st : State) (id : Nat) (nm : String) :
    commit (st.relabel ρ) id nm = ((commit st id nm).1.relabel ρ, (commit st id nm).2) := by
  simp only [commit, State.relabel]
  congr 2
  exact (updAt_map (relabelE ρ) (fun e => { e with ref := some nm }) (fun e => rfl) st.exprs id).symm

theorem register_relabel (ρ : Nat → Nat) (p : SeedPerm) (st : State) (id : Nat) (o : Origin) (n : String) :
    register p (st.relabel ρ) id o n = ((register p st id o n).1.relabel ρ, (register p st id o n).2) :=
  commit_relabel ρ st id _

theorem firstNamed_relabel (ρ : Nat → Nat) (l : List ExprInfo) (ops : List Nat) :
    firstNamed (l.map (relabelE ρ)) ops = firstNamed l ops := by
  cases ops with
  | nil => rfl
  | cons o os =>
    simp only [firstNamed, List.getElem?_map]
    cases l[o]? <;> rfl

theorem threadMap_relabel (ρ : Nat → Nat) {F F' : State → Nat → State × String}
    (g : ∀ st i, F (st.relabel ρ) i = ((F' st i).1.relabel ρ, (F' st i).2)) :
    ∀ (ops : List Nat) (st : State),
      threadMap F (st.relabel ρ) ops = ((threadMap F' st ops).1.relabel ρ, (threadMap F' st ops).2) := by
  intro ops
  induction ops with
  | nil => intro st; rfl
  | cons o os ih =>
    intro st
    simp only [threadMap]
    rw [g st o]
    simp only []
    rw [ih (F' st o).1]

theorem body_relabel (ρ : Nat → Nat) (ks : Nat → String) (p : SeedPerm) {F F' : State → Nat → State × String}
    (g : ∀ st i, F (st.relabel ρ) i = ((F' st i).1.relabel ρ, (F' st i).2)) (st : State) (id : Nat) (e : ExprInfo) :
    makeRefBody ks p F (st.relabel ρ) id (relabelE ρ e) =
      ((makeRefBody (ks ∘ ρ) p F' st id e).1.relabel ρ, (makeRefBody (ks ∘ ρ) p F' st id e).2) := by
  obtain ⟨kind, pl, ops, ik, og, rn, rf⟩ := e
  cases rf with
  | some r => rfl
  | none =>
    cases rn with
    | some n =>
      simp only [makeRefBody, relabelE]
      exact register_relabel ρ p st id og n
    | none =>
      cases pl with
      | sym n t => rfl
      | const a b => rfl
      | node =>
        simp only [makeRefBody, relabelE]
        by_cases hk : (kind == "absolute") = true
        · simp only [hk, if_true]
          cases ops with
          | nil => rfl
          | cons o os =>
            simp only []
            rw [g st o]
        · simp only [hk]
          have hfe : firstNamed (st.relabel ρ).exprs ops = firstNamed st.exprs ops := firstNamed_relabel ρ st.exprs ops
          simp only [hfe]
          by_cases hf : firstNamed st.exprs ops = true
          · simp only [hf, if_true]
            rw [threadMap_relabel ρ g ops st]
            rfl
          · simp only [hf]
            rfl

/-- Relabelling the construction counters of a context by ANY function `ρ` is the same as rendering the
counter tokens through `ρ`: the registry, the cached references and every registered name are unchanged;
only the counter tokens inside generated (unregistered) names are relabelled. -/
theorem makeRef_relabel (ρ : Nat → Nat) (ks : Nat → String) (p : SeedPerm) : ∀ (fuel : Nat) (st : State) (i : Nat),
    makeRef ks p fuel (st.relabel ρ) i =
      ((makeRef (ks ∘ ρ) p fuel st i).1.relabel ρ, (makeRef (ks ∘ ρ) p fuel st i).2) := by
  intro fuel
  induction fuel with
  | zero => intro st i; rfl
  | succ n ih =>
    intro st i
    have he : (st.relabel ρ).exprs[i]? = (st.exprs[i]?).map (relabelE ρ) := by
      simp [State.relabel, List.getElem?_map]
    simp only [makeRef, he]
    cases h : st.exprs[i]? with
    | none => rfl
    | some e =>
      simp only [Option.map_some]
      exact body_relabel ρ ks p ih st i e

theorem runRefs_relabel (ρ : Nat → Nat) (ks : Nat → String) (p : SeedPerm) : ∀ (ids : List Nat) (st : State),
    runRefs ks p (st.relabel ρ) ids =
      ((runRefs (ks ∘ ρ) p st ids).1.relabel ρ, (runRefs (ks ∘ ρ) p st ids).2) := by
  intro ids
  induction ids with
  | nil => intro st; rfl
  | cons i is ih =>
    intro st
    have hfu : fuelOf (st.relabel ρ) = fuelOf st := by simp [fuelOf, State.relabel]
    simp only [runRefs, hfu]
    rw [makeRef_relabel ρ ks p (fuelOf st) st i]
    simp only []
    rw [ih]

/-! ### Key ordering -/

namespace KeyOrder

theorem cmp_relabel (ρ : Nat → Nat) (hρ : ∀ a b, a < b → ρ a < ρ b) :
    ∀ x y : List Tok, cmp (relabel ρ x) (relabel ρ y) = cmp x y := by
  intro x
  induction x with
  | nil => intro y; cases y with
    | nil => rfl
    | cons b y => cases b <;> rfl
  | cons a x ih =>
    intro y
    cases y with
    | nil => cases a <;> rfl
    | cons b y =>
      cases a with
      | s u =>
        cases b with
        | s v => simp only [relabel, cmp, ih]
        | n v => rfl
      | n u =>
        cases b with
        | s v => rfl
        | n v =>
          simp only [relabel, cmp, ih]
          by_cases h1 : u < v
          · simp [h1, hρ u v h1]
          · by_cases h2 : v < u
            · have := hρ v u h2
              have h3 : ¬ ρ u < ρ v := by omega
              simp [h1, h2, this, h3]
            · have : u = v := by omega
              subst this
              simp

end KeyOrder

/-! ### Order-insensitive consumers -/

namespace Consumers

theorem sorted_perm_invariant {l₁ l₂ : List Nat} (h : l₁.Perm l₂) : sorted l₁ = sorted l₂ := by
  unfold sorted
  apply List.Perm.eq_of_pairwise (le := fun a b => decide (a ≤ b) = true)
  · intro a b _ _ hab hba
    simp at hab hba
    omega
  · exact List.pairwise_mergeSort (by intro a b c; simp; omega) (by intro a b; simp; omega) l₁
  · exact List.pairwise_mergeSort (by intro a b c; simp; omega) (by intro a b; simp; omega) l₂
  · exact (List.mergeSort_perm l₁ _).trans (h.trans (List.mergeSort_perm l₂ _).symm)

theorem len_perm_invariant {l₁ l₂ : List Nat} (h : l₁.Perm l₂) : len l₁ = len l₂ := h.length_eq

theorem mem_perm_invariant {l₁ l₂ : List Nat} (h : l₁.Perm l₂) (k : Nat) : mem k l₁ = mem k l₂ := by
  unfold mem
  rw [Bool.eq_iff_iff]
  simp [h.mem_iff]

end Consumers

/-! ### Asking again: caches only grow, settled expressions answer from the caches -/

def strip (e : ExprInfo) : ExprInfo := { e with ref := none }

/-- `e'` is `e` with possibly a cached reference added (only named expressions ever get one). -/
def ExtE (e e' : ExprInfo) : Prop :=
  strip e = strip e' ∧ (e'.ref = e.ref ∨ (e.ref = none ∧ e.refName.isSome = true))

def Ext (l l' : List ExprInfo) : Prop :=
  l.length = l'.length ∧ ∀ (j : Nat) (e e' : ExprInfo), l[j]? = some e → l'[j]? = some e' → ExtE e e'

theorem ExtE.refl (e : ExprInfo) : ExtE e e := ⟨rfl, Or.inl rfl⟩

theorem strip_fields {e e' : ExprInfo} (h : strip e = strip e') :
    e.kind = e'.kind ∧ e.payload = e'.payload ∧ e.operands = e'.operands ∧ e.intkey = e'.intkey ∧
    e.origin = e'.origin ∧ e.refName = e'.refName := by
  obtain ⟨a, b, c, d, f, g, r⟩ := e
  obtain ⟨a', b', c', d', f', g', r'⟩ := e'
  simp only [strip, ExprInfo.mk.injEq] at h
  simp [h]

theorem ExtE.trans {a b c : ExprInfo} (h₁ : ExtE a b) (h₂ : ExtE b c) : ExtE a c := by
  refine ⟨h₁.1.trans h₂.1, ?_⟩
  have hn := (strip_fields h₁.1).2.2.2.2.2
  rcases h₁.2 with e1 | ⟨n1, s1⟩
  · rcases h₂.2 with e2 | ⟨n2, s2⟩
    · exact Or.inl (e2.trans e1)
    · exact Or.inr ⟨e1 ▸ n2, hn ▸ s2⟩
  · exact Or.inr ⟨n1, s1⟩

theorem Ext.refl (l : List ExprInfo) : Ext l l := by
  refine ⟨rfl, ?_⟩
  intro j e e' h h'
  rw [h] at h'
  cases h'
  exact ExtE.refl e

theorem getElem?_some_of_length {l l' : List ExprInfo} (hl : l.length = l'.length) {j : Nat} {e : ExprInfo}
    (h : l[j]? = some e) : ∃ e', l'[j]? = some e' := by
  have hj : j < l.length := by
    rcases List.getElem?_eq_some_iff.1 h with ⟨hj, _⟩
    exact hj
  exact ⟨l'[j]'(hl ▸ hj), List.getElem?_eq_getElem (hl ▸ hj)⟩

theorem Ext.get {l l' : List ExprInfo} (h : Ext l l') {j : Nat} {e : ExprInfo} (he : l[j]? = some e) :
    ∃ e', l'[j]? = some e' ∧ ExtE e e' := by
  obtain ⟨e', he'⟩ := getElem?_some_of_length h.1 he
  exact ⟨e', he', h.2 j e e' he he'⟩

theorem Ext.get_none {l l' : List ExprInfo} (h : Ext l l') {j : Nat} (he : l[j]? = none) : l'[j]? = none := by
  rw [List.getElem?_eq_none_iff] at he ⊢
  have := h.1
  omega

theorem Ext.trans {a b c : List ExprInfo} (h₁ : Ext a b) (h₂ : Ext b c) : Ext a c := by
  refine ⟨h₁.1.trans h₂.1, ?_⟩
  intro j e e'' he he''
  obtain ⟨e', he', x⟩ := h₁.get he
  exact x.trans (h₂.2 j e' e'' he' he'')

theorem updAt_length (l : List ExprInfo) (i : Nat) (f : ExprInfo → ExprInfo) : (updAt l i f).length = l.length := by
  induction l generalizing i with
  | nil => rfl
  | cons e t ih => cases i <;> simp [updAt, ih]

theorem updAt_get (l : List ExprInfo) (i j : Nat) (f : ExprInfo → ExprInfo) :
    (updAt l i f)[j]? = if j = i then (l[j]?).map f else l[j]? := by
  induction l generalizing i j with
  | nil => simp [updAt]
  | cons e t ih =>
    cases i with
    | zero => cases j <;> simp [updAt]
    | succ i' =>
      cases j with
      | zero => simp [updAt]
      | succ j' => simp [updAt, ih]

theorem Ext_updAt {l : List ExprInfo} {i : Nat} {f : ExprInfo → ExprInfo} (hf : ∀ e, l[i]? = some e → ExtE e (f e)) :
    Ext l (updAt l i f) := by
  refine ⟨(updAt_length l i f).symm, ?_⟩
  intro j e e' he he'
  rw [updAt_get] at he'
  by_cases hj : j = i
  · subst hj
    simp only [if_true, he, Option.map_some, Option.some.injEq] at he'
    subst he'
    exact hf e he
  · simp only [hj, if_false, he, Option.some.injEq] at he'
    subst he'
    exact ExtE.refl e

theorem firstNamed_ext {l l' : List ExprInfo} (h : Ext l l') (ops : List Nat) : firstNamed l' ops = firstNamed l ops := by
  cases ops with
  | nil => rfl
  | cons o os =>
    simp only [firstNamed]
    cases ho : l[o]? with
    | none => rw [h.get_none ho]
    | some e =>
      obtain ⟨e', he', x⟩ := h.get ho
      rw [he']
      simp only [(strip_fields x.1).2.2.2.2.2]

/-- The name of a settled expression, read off the caches. -/
def pureBody (ks : Nat → String) (rec : Nat → String) (l : List ExprInfo) (e : ExprInfo) : String :=
  match e.ref with
  | some r => r
  | none =>
    match e.payload with
    | .sym n _ => "symbol_" ++ n.render
    | .const ident _ => "constant_" ++ ident
    | .node =>
      if e.kind == "absolute" then
        match e.operands with
        | o :: _ => "abs_" ++ rec o
        | [] => "abs_?"
      else if firstNamed l e.operands then joinU (e.kind :: e.operands.map rec)
      else e.kind ++ "_" ++ ks e.intkey

def pureName (ks : Nat → String) (l : List ExprInfo) : Nat → Nat → String
  | 0, _ => "?"
  | fuel + 1, i =>
    match l[i]? with
    | none => "?"
    | some e => pureBody ks (pureName ks l fuel) l e

/-- Every named expression that `make_ref` would reach from here has its reference cached. -/
def settledBody (rec : Nat → Bool) (l : List ExprInfo) (e : ExprInfo) : Bool :=
  match e.ref with
  | some _ => true
  | none =>
    match e.refName with
    | some _ => false
    | none =>
      match e.payload with
      | .sym _ _ => true
      | .const _ _ => true
      | .node =>
        if e.kind == "absolute" then
          match e.operands with
          | o :: _ => rec o
          | [] => true
        else if firstNamed l e.operands then e.operands.all rec
        else true

def settled (l : List ExprInfo) : Nat → Nat → Bool
  | 0, _ => true
  | fuel + 1, i =>
    match l[i]? with
    | none => true
    | some e => settledBody (settled l fuel) l e

/-! Lemma A: a settled expression is answered without touching the state. -/

theorem threadMap_settled {F : State → Nat → State × String} {S : List ExprInfo → Nat → Bool}
    {N : List ExprInfo → Nat → String} (HA : ∀ st o, S st.exprs o = true → F st o = (st, N st.exprs o)) :
    ∀ (ops : List Nat) (st : State), ops.all (S st.exprs) = true → threadMap F st ops = (st, ops.map (N st.exprs)) := by
  intro ops
  induction ops with
  | nil => intro st _; rfl
  | cons o os ih =>
    intro st h
    simp only [List.all_cons, Bool.and_eq_true] at h
    simp only [threadMap, HA st o h.1, ih st h.2, List.map_cons]

theorem body_settled (ks : Nat → String) (p : SeedPerm) {F : State → Nat → State × String}
    {S : List ExprInfo → Nat → Bool} {N : List ExprInfo → Nat → String}
    (HA : ∀ st o, S st.exprs o = true → F st o = (st, N st.exprs o)) (st : State) (id : Nat) (e : ExprInfo)
    (h : settledBody (S st.exprs) st.exprs e = true) :
    makeRefBody ks p F st id e = (st, pureBody ks (N st.exprs) st.exprs e) := by
  obtain ⟨kind, pl, ops, ik, og, rn, rf⟩ := e
  cases rf with
  | some r => rfl
  | none =>
    cases rn with
    | some n => simp [settledBody] at h
    | none =>
      cases pl with
      | sym n t => rfl
      | const a b => rfl
      | node =>
        simp only [settledBody] at h
        simp only [makeRefBody, pureBody]
        by_cases hk : (kind == "absolute") = true
        · simp only [hk, if_true] at h ⊢
          cases ops with
          | nil => rfl
          | cons o os =>
            simp only [] at h ⊢
            rw [HA st o h]
        · simp only [hk, Bool.false_eq_true, if_false] at h ⊢
          by_cases hf : firstNamed st.exprs ops = true
          · simp only [hf, if_true] at h ⊢
            rw [threadMap_settled HA ops st h]
          · simp only [hf]
            rfl

theorem makeRef_settled (ks : Nat → String) (p : SeedPerm) : ∀ (fuel : Nat) (st : State) (i : Nat),
    settled st.exprs fuel i = true → makeRef ks p fuel st i = (st, pureName ks st.exprs fuel i) := by
  intro fuel
  induction fuel with
  | zero => intro st i _; rfl
  | succ n ih =>
    intro st i h
    simp only [makeRef, pureName]
    cases he : st.exprs[i]? with
    | none => rfl
    | some e =>
      simp only [settled, he] at h
      exact body_settled ks p (S := fun l => settled l n) (N := fun l => pureName ks l n) ih st i e h

/-! Lemma B: settledness and the cached names survive further caching. -/

theorem body_mono (ks : Nat → String) {S : List ExprInfo → Nat → Bool} {N : List ExprInfo → Nat → String}
    {l l' : List ExprInfo} (hx : Ext l l')
    (HB : ∀ o, S l o = true → S l' o = true ∧ N l' o = N l o)
    {e e' : ExprInfo} (x : ExtE e e') (h : settledBody (S l) l e = true) :
    settledBody (S l') l' e' = true ∧ pureBody ks (N l') l' e' = pureBody ks (N l) l e := by
  obtain ⟨hk, hp, ho, hi, _, hn⟩ := strip_fields x.1
  obtain ⟨kind, pl, ops, ik, og, rn, rf⟩ := e
  obtain ⟨kind', pl', ops', ik', og', rn', rf'⟩ := e'
  simp only at hk hp ho hi hn
  subst hk hp ho hi hn
  cases rf with
  | some r =>
    have : rf' = some r := by
      rcases x.2 with a | ⟨b, _⟩
      · exact a
      · cases b
    subst this
    exact ⟨rfl, rfl⟩
  | none =>
    cases rn with
    | some n => simp [settledBody] at h
    | none =>
      have : rf' = none := by
        rcases x.2 with a | ⟨_, b⟩
        · exact a
        · simp at b
      subst this
      cases pl with
      | sym n t => exact ⟨rfl, rfl⟩
      | const a b => exact ⟨rfl, rfl⟩
      | node =>
        simp only [settledBody, pureBody] at h ⊢
        by_cases hk : (kind == "absolute") = true
        · simp only [hk, if_true] at h ⊢
          cases ops with
          | nil => exact ⟨rfl, rfl⟩
          | cons o os =>
            simp only [] at h ⊢
            obtain ⟨a, b⟩ := HB o h
            exact ⟨a, by rw [b]⟩
        · simp only [hk, Bool.false_eq_true, if_false] at h ⊢
          rw [firstNamed_ext hx ops]
          by_cases hf : firstNamed l ops = true
          · simp only [hf, if_true] at h ⊢
            rw [List.all_eq_true] at h
            refine ⟨?_, ?_⟩
            · rw [List.all_eq_true]
              intro o ho
              exact (HB o (h o ho)).1
            · have : ops.map (N l') = ops.map (N l) := List.map_congr_left (fun o ho => (HB o (h o ho)).2)
              rw [this]
          · simp [hf]

theorem settled_mono (ks : Nat → String) {l l' : List ExprInfo} (hx : Ext l l') : ∀ (fuel i : Nat),
    settled l fuel i = true → settled l' fuel i = true ∧ pureName ks l' fuel i = pureName ks l fuel i := by
  intro fuel
  induction fuel with
  | zero => intro i _; exact ⟨rfl, rfl⟩
  | succ n ih =>
    intro i h
    cases he : l[i]? with
    | none => simp only [settled, pureName, hx.get_none he, he]; exact ⟨trivial, trivial⟩
    | some e =>
      obtain ⟨e', he', x⟩ := hx.get he
      simp only [settled, he] at h
      simp only [settled, pureName, he, he']
      exact body_mono ks (S := fun l => settled l n) (N := fun l => pureName ks l n) hx ih x h

/-! Lemma C: `make_ref` only adds caches, and leaves its argument settled with the returned name. -/

theorem ExtE_auto {e e' : ExprInfo} (x : ExtE e e') (hr : e.ref = none) (hn : e.refName = none) : e' = e := by
  obtain ⟨h1, h2⟩ := x
  obtain ⟨a, b, c, d, f, g, r⟩ := e
  obtain ⟨a', b', c', d', f', g', r'⟩ := e'
  simp only at hr hn
  subst hr hn
  simp only [strip, ExprInfo.mk.injEq] at h1
  have : r' = none := by
    rcases h2 with h | ⟨_, h⟩
    · exact h
    · simp at h
  subst this
  simp [h1]

theorem threadMap_ext {F : State → Nat → State × String} {S : List ExprInfo → Nat → Bool}
    {N : List ExprInfo → Nat → String}
    (HC : ∀ st o, Ext st.exprs (F st o).1.exprs ∧ S (F st o).1.exprs o = true ∧ (F st o).2 = N (F st o).1.exprs o)
    (HB : ∀ l l' o, Ext l l' → S l o = true → S l' o = true ∧ N l' o = N l o) :
    ∀ (ops : List Nat) (st : State),
      Ext st.exprs (threadMap F st ops).1.exprs ∧
      ops.all (S (threadMap F st ops).1.exprs) = true ∧
      (threadMap F st ops).2 = ops.map (N (threadMap F st ops).1.exprs) := by
  intro ops
  induction ops with
  | nil => intro st; exact ⟨Ext.refl _, rfl, rfl⟩
  | cons o os ih =>
    intro st
    obtain ⟨x1, s1, n1⟩ := HC st o
    obtain ⟨x2, s2, n2⟩ := ih (F st o).1
    obtain ⟨s1', n1'⟩ := HB _ _ o x2 s1
    simp only [threadMap, List.all_cons, List.map_cons, Bool.and_eq_true]
    exact ⟨x1.trans x2, ⟨s1', s2⟩, by rw [n1, n1', n2]⟩

theorem body_ext (ks : Nat → String) (p : SeedPerm) {F : State → Nat → State × String}
    {S : List ExprInfo → Nat → Bool} {N : List ExprInfo → Nat → String}
    (HC : ∀ st o, Ext st.exprs (F st o).1.exprs ∧ S (F st o).1.exprs o = true ∧ (F st o).2 = N (F st o).1.exprs o)
    (HB : ∀ l l' o, Ext l l' → S l o = true → S l' o = true ∧ N l' o = N l o)
    (st : State) (id : Nat) (e : ExprInfo) (he : st.exprs[id]? = some e) :
    Ext st.exprs (makeRefBody ks p F st id e).1.exprs ∧
    ∀ e', (makeRefBody ks p F st id e).1.exprs[id]? = some e' →
      settledBody (S (makeRefBody ks p F st id e).1.exprs) (makeRefBody ks p F st id e).1.exprs e' = true ∧
      (makeRefBody ks p F st id e).2 =
        pureBody ks (N (makeRefBody ks p F st id e).1.exprs) (makeRefBody ks p F st id e).1.exprs e' := by
  -- the recursive cases: the state moved from `st` to an extension `l'`, the entry at `id` is still `e`
  have same : ∀ {l' : List ExprInfo}, Ext st.exprs l' → e.ref = none → e.refName = none →
      ∀ e', l'[id]? = some e' → e' = e := by
    intro l' hx hr hn e' he'
    obtain ⟨e'', he'', x⟩ := hx.get he
    rw [he'] at he''
    cases he''
    exact ExtE_auto x hr hn
  obtain ⟨kind, pl, ops, ik, og, rn, rf⟩ := e
  cases rf with
  | some r =>
    refine ⟨Ext.refl _, ?_⟩
    intro e' he'
    have h2 : (makeRefBody ks p F st id
      { kind := kind, payload := pl, operands := ops, intkey := ik, origin := og, refName := rn, ref := some r }).1 = st := rfl
    rw [h2, he] at he'
    cases he'
    exact ⟨rfl, rfl⟩
  | none =>
    cases rn with
    | some n =>
      simp only [makeRefBody, register, commit]
      refine ⟨Ext_updAt (fun e1 he1 => ?_), ?_⟩
      · rw [he] at he1
        cases he1
        exact ⟨rfl, Or.inr ⟨rfl, rfl⟩⟩
      · intro e' he'
        rw [updAt_get, if_pos rfl, he] at he'
        simp only [Option.map_some, Option.some.injEq] at he'
        subst he'
        exact ⟨rfl, rfl⟩
    | none =>
      cases pl with
      | sym n t =>
        refine ⟨Ext.refl _, ?_⟩
        intro e' he'
        have : e' = _ := same (Ext.refl _) rfl rfl e' he'
        subst this
        exact ⟨rfl, rfl⟩
      | const a b =>
        refine ⟨Ext.refl _, ?_⟩
        intro e' he'
        have : e' = _ := same (Ext.refl _) rfl rfl e' he'
        subst this
        exact ⟨rfl, rfl⟩
      | node =>
        by_cases hk : (kind == "absolute") = true
        · cases ops with
          | nil =>
            simp only [makeRefBody, hk, if_true]
            refine ⟨Ext.refl _, ?_⟩
            intro e' he'
            have : e' = _ := same (Ext.refl _) rfl rfl e' he'
            subst this
            simp [settledBody, pureBody, hk]
          | cons o os =>
            simp only [makeRefBody, hk, if_true]
            obtain ⟨x1, s1, n1⟩ := HC st o
            refine ⟨x1, ?_⟩
            intro e' he'
            have : e' = _ := same x1 rfl rfl e' he'
            subst this
            simp [settledBody, pureBody, hk, s1, n1]
        · by_cases hf : firstNamed st.exprs ops = true
          · simp only [makeRefBody, hk, hf, if_true, Bool.false_eq_true, if_false]
            obtain ⟨x1, s1, n1⟩ := threadMap_ext HC HB ops st
            refine ⟨x1, ?_⟩
            intro e' he'
            have : e' = _ := same x1 rfl rfl e' he'
            subst this
            have hf' := firstNamed_ext x1 ops
            simp [settledBody, pureBody, hk, hf', hf, s1, n1]
          · simp only [makeRefBody, hk, hf, Bool.false_eq_true, if_false]
            refine ⟨Ext.refl _, ?_⟩
            intro e' he'
            have : e' = _ := same (Ext.refl _) rfl rfl e' he'
            subst this
            simp [settledBody, pureBody, hk, hf]

theorem makeRef_ext (ks : Nat → String) (p : SeedPerm) : ∀ (fuel : Nat) (st : State) (i : Nat),
    Ext st.exprs (makeRef ks p fuel st i).1.exprs ∧
    settled (makeRef ks p fuel st i).1.exprs fuel i = true ∧
    (makeRef ks p fuel st i).2 = pureName ks (makeRef ks p fuel st i).1.exprs fuel i := by
  intro fuel
  induction fuel with
  | zero => intro st i; exact ⟨Ext.refl _, rfl, rfl⟩
  | succ n ih =>
    intro st i
    cases he : st.exprs[i]? with
    | none =>
      have h2 : makeRef ks p (n + 1) st i = (st, "?") := by simp only [makeRef, he]
      rw [h2]
      simp only [settled, pureName, he]
      exact ⟨Ext.refl _, trivial, trivial⟩
    | some e =>
      have h2 : makeRef ks p (n + 1) st i = makeRefBody ks p (makeRef ks p n) st i e := by
        simp only [makeRef, he]
      rw [h2]
      obtain ⟨x, hb⟩ := body_ext ks p (S := fun l => settled l n) (N := fun l => pureName ks l n) ih
        (fun l l' o hx hs => settled_mono ks hx n o hs) st i e he
      obtain ⟨e', he', _⟩ := x.get he
      obtain ⟨a, b⟩ := hb e' he'
      refine ⟨x, ?_, ?_⟩
      · simp only [settled, he']; exact a
      · simp only [pureName, he']; exact b

theorem fuelOf_ext {st st' : State} (h : Ext st.exprs st'.exprs) : fuelOf st' = fuelOf st := by
  simp [fuelOf, h.1]

theorem runRefs_ext (ks : Nat → String) (p : SeedPerm) : ∀ (ids : List Nat) (st : State),
    Ext st.exprs (runRefs ks p st ids).1.exprs ∧
    ids.all (settled (runRefs ks p st ids).1.exprs (fuelOf st)) = true ∧
    (runRefs ks p st ids).2 = ids.map (pureName ks (runRefs ks p st ids).1.exprs (fuelOf st)) := by
  intro ids
  induction ids with
  | nil => intro st; exact ⟨Ext.refl _, rfl, rfl⟩
  | cons i is ih =>
    intro st
    obtain ⟨x1, s1, n1⟩ := makeRef_ext ks p (fuelOf st) st i
    obtain ⟨x2, s2, n2⟩ := ih (makeRef ks p (fuelOf st) st i).1
    rw [fuelOf_ext x1] at s2 n2
    obtain ⟨s1', n1'⟩ := settled_mono ks x2 (fuelOf st) i s1
    simp only [runRefs, List.all_cons, List.map_cons, Bool.and_eq_true]
    exact ⟨x1.trans x2, ⟨s1', s2⟩, by rw [n1, n1', n2]⟩

theorem runRefs_settled (ks : Nat → String) (p : SeedPerm) : ∀ (ids : List Nat) (st : State),
    ids.all (settled st.exprs (fuelOf st)) = true →
    runRefs ks p st ids = (st, ids.map (pureName ks st.exprs (fuelOf st))) := by
  intro ids
  induction ids with
  | nil => intro st _; rfl
  | cons i is ih =>
    intro st h
    simp only [List.all_cons, Bool.and_eq_true] at h
    simp only [runRefs, makeRef_settled ks p (fuelOf st) st i h.1, ih st h.2, List.map_cons]

/-- Asking again for the same references: same names, and the state does not move. -/
theorem runRefs_idem (ks : Nat → String) (p : SeedPerm) (st : State) (ids : List Nat) :
    runRefs ks p (runRefs ks p st ids).1 ids = ((runRefs ks p st ids).1, (runRefs ks p st ids).2) := by
  obtain ⟨x, s, n⟩ := runRefs_ext ks p ids st
  have hf := fuelOf_ext x
  rw [← hf] at s n
  rw [runRefs_settled ks p ids _ s, ← n]

/-! ### Re-running the construction operations of a request hits the existing expressions -/

def isBuild : Op → Bool
  | .symbol _ _ => true
  | .defaultLike _ => true
  | .const _ _ _ => true
  | .node _ _ => true
  | _ => false

/-- `st'` has all expressions of `st` (at the same indices) and the same cached default-like symbol. -/
def Pre (st st' : State) : Prop :=
  st.exprs <+: st'.exprs ∧ ∀ i, st.defaultLike = some i → st'.defaultLike = some i

theorem Pre.refl (st : State) : Pre st st := ⟨List.prefix_refl _, fun _ h => h⟩

theorem Pre.trans {a b c : State} (h₁ : Pre a b) (h₂ : Pre b c) : Pre a c :=
  ⟨List.IsPrefix.trans h₁.1 h₂.1, fun i h => h₂.2 i (h₁.2 i h)⟩

theorem find_prefix {l l' : List ExprInfo} {q : ExprInfo → Bool} {i : Nat} (h : l.findIdx? q = some i)
    (hp : l <+: l') : l'.findIdx? q = some i := by
  obtain ⟨t, rfl⟩ := hp
  simp [List.findIdx?_append, h]

theorem mkExpr_pre (st : State) (k : String) (p : Payload) (ops : List Nat) : Pre st (mkExpr st k p ops).1 := by
  unfold mkExpr
  cases st.exprs.findIdx? (sameKey k p ops) with
  | some i => exact Pre.refl st
  | none => exact ⟨List.prefix_append _ _, fun _ h => h⟩

theorem mkExpr_again (st st' : State) (k : String) (p : Payload) (ops : List Nat)
    (h : Pre (mkExpr st k p ops).1 st') : mkExpr st' k p ops = (st', (mkExpr st k p ops).2) := by
  unfold mkExpr at h ⊢
  cases hf : st.exprs.findIdx? (sameKey k p ops) with
  | some i =>
    rw [hf] at h
    simp only [] at h ⊢
    rw [find_prefix hf h.1]
  | none =>
    rw [hf] at h
    simp only [appendExpr] at h ⊢
    have hfind : ∀ e : ExprInfo, sameKey k p ops e = true →
        (st.exprs ++ [e]).findIdx? (sameKey k p ops) = some st.exprs.length := by
      intro e he
      simp [List.findIdx?_append, hf, List.findIdx?_cons, he]
    rw [find_prefix (hfind _ (by simp [sameKey])) h.1]

theorem step_pre (amb : Ambient) (st : State) (op : Op) (hb : isBuild op = true) : Pre st (step amb st op).2.1 := by
  cases op with
  | symbol s t => exact mkExpr_pre st _ _ _
  | const a b l => exact mkExpr_pre st _ _ _
  | node k ops => exact mkExpr_pre st _ _ _
  | defaultLike t =>
    simp only [step]
    cases hd : st.defaultLike with
    | some i => exact Pre.refl st
    | none => exact ⟨List.prefix_append _ _, fun i h => by rw [hd] at h; cases h⟩
  | _ => simp [isBuild] at hb

theorem step_again (amb amb' : Ambient) (st st' : State) (op : Op) (hb : isBuild op = true)
    (h : Pre (step amb st op).2.1 st') : (step amb' st' op).2 = (st', (step amb st op).2.2) := by
  cases op with
  | symbol s t =>
    simp only [step] at h ⊢
    rw [mkExpr_again st st' _ _ _ h]
  | const a b l =>
    simp only [step] at h ⊢
    rw [mkExpr_again st st' _ _ _ h]
  | node k ops =>
    simp only [step] at h ⊢
    rw [mkExpr_again st st' _ _ _ h]
  | defaultLike t =>
    simp only [step] at h ⊢
    cases hd : st.defaultLike with
    | some i =>
      rw [hd] at h
      rw [h.2 i hd]
    | none =>
      rw [hd] at h
      simp only [] at h ⊢
      rw [h.2 _ rfl]
  | _ => simp [isBuild] at hb

theorem run_pre (amb : Ambient) : ∀ (ops : List Op) (st : State), (∀ op ∈ ops, isBuild op = true) →
    Pre st (run amb st ops).2.1 := by
  intro ops
  induction ops generalizing amb with
  | nil => intro st _; exact Pre.refl st
  | cons op ops ih =>
    intro st hb
    simp only [run]
    exact (step_pre amb st op (hb op List.mem_cons_self)).trans
      (ih _ _ (fun o ho => hb o (List.mem_cons_of_mem _ ho)))

theorem run_again (amb' : Ambient) : ∀ (ops : List Op) (amb : Ambient) (st st' : State),
    (∀ op ∈ ops, isBuild op = true) → Pre (run amb st ops).2.1 st' →
    (run amb' st' ops).2 = (st', (run amb st ops).2.2) := by
  intro ops
  induction ops generalizing amb' with
  | nil => intro amb st st' _ _; rfl
  | cons op ops ih =>
    intro amb st st' hb h
    have hb1 := hb op List.mem_cons_self
    have hb2 : ∀ o ∈ ops, isBuild o = true := fun o ho => hb o (List.mem_cons_of_mem _ ho)
    simp only [run] at h ⊢
    have h1 : Pre (step amb st op).2.1 st' := (run_pre _ ops _ hb2).trans h
    have e1 := step_again amb amb' st st' op hb1 h1
    have e2 := ih (step amb' st' op).1 (step amb st op).1 (step amb st op).2.1 st' hb2 h
    have hs : (step amb' st' op).2.1 = st' := by rw [e1]
    have ho : (step amb' st' op).2.2 = (step amb st op).2.2 := by rw [e1]
    rw [hs, ho]
    have e3 : (run (step amb' st' op).1 st' ops).2.1 = st' := by rw [e2]
    have e4 : (run (step amb' st' op).1 st' ops).2.2 = (run (step amb st op).1 (step amb st op).2.1 ops).2.2 := by
      rw [e2]
    rw [e3, e4]

theorem fuelOf_erase (st : State) : fuelOf st.erase = fuelOf st := by simp [fuelOf, State.erase]

/-- A single safe `expr.ref`: whatever numbers the anonymous symbols carry and whatever the seed
permutation, the same name comes back. -/
theorem makeRef_tmp_unprinted (ks : Nat → String) (p q : SeedPerm) {st₁ st₂ : State} (h : st₁.erase = st₂.erase)
    (i : Nat) (hs : refSafe st₁ i = true) :
    (makeRef ks p (fuelOf st₁) st₁ i).2 = (makeRef ks q (fuelOf st₂) st₂ i).2 := by
  have hs2 : refSafe st₂ i = true := by rw [← refSafe_of_erase_eq h]; exact hs
  have g1 := (makeRef_good ks p (fuelOf st₁)).name_eq st₁ i hs
  have g2 := (makeRef_good ks q (fuelOf st₂)).name_eq st₂ i hs2
  have hf : fuelOf st₁ = fuelOf st₂ := by rw [← fuelOf_erase st₁, ← fuelOf_erase st₂, h]
  rw [← g1, ← g2, h, hf, makeRef_perm ks p q]

/-- A request that consists of emitted `ref` operations only is `runRefs`. -/
theorem run_refs (amb : Ambient) : ∀ (ids : List Nat) (st : State),
    run amb st (ids.map (fun i => Op.ref i true)) =
      (amb, (runRefs natStr amb.seedPerm st ids).1, (runRefs natStr amb.seedPerm st ids).2.map Out.name) := by
  intro ids
  induction ids with
  | nil => intro st; rfl
  | cons i is ih =>
    intro st
    simp only [List.map_cons, run, step, runRefs, if_true]
    rw [ih]

theorem names_map_name (l : List String) : names (l.map Out.name) = l := by
  induction l with
  | nil => rfl
  | cons a t ih => simp [names, ih]


end FAVerif.RefNames
