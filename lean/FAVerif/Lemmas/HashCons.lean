/-
Lemmas for C07 (hash-consing): the registry invariant is preserved by every registration, keys are
injective under the invariant (two-level-key argument), and along every construction history two
constructions return the same id iff they are structurally identical in the code's sense.
-/
import FAVerif.Models.HashCons

namespace FAVerif.HashCons

/-! ### Python value classes -/

theorem canon_eq_iff (v w : PyVal) : canon v = canon w ↔ tupleEq v w = true := by
  unfold canon tupleEq pyEq
  by_cases hv : v.data.den = .nan <;> by_cases hw : w.data.den = .nan <;> simp [hv, hw]
  all_goals grind

/-! ### Keys -/

theorem keyOf_skel (s : State) (c c' : Cand) (h : skel c = skel c') : keyOf s c = keyOf s c' := by
  cases c <;> cases c' <;> simp_all [skel, keyOf]

theorem candOk_mono {n m : Nat} (h : n ≤ m) {c : Cand} (hc : candOk n c) : candOk m c := by
  cases c with
  | sym => trivial
  | const v l => exact Nat.lt_of_lt_of_le hc h
  | op k args => exact ⟨hc.1, hc.2.1, fun a ha => Nat.lt_of_lt_of_le (hc.2.2 a ha) h⟩

/-- Two stored expressions with the same key are the same expression. -/
theorem Inv.key_unique {s : State} (hi : Inv s) {i j : Nat} {si sj : Stored}
    (h1 : s.exprs[i]? = some si) (h2 : s.exprs[j]? = some sj) (hk : si.key = sj.key) : i = j := by
  have a := (hi.table si.key i).2 ⟨si, h1, rfl⟩
  have b := (hi.table si.key j).2 ⟨sj, h2, hk.symm⟩
  rw [a] at b; exact Option.some.inj b

/-- No two stored expressions are structurally equal (in the code's sense). -/
theorem Inv.skel_unique {s : State} (hi : Inv s) {i j : Nat} {si sj : Stored}
    (h1 : s.exprs[i]? = some si) (h2 : s.exprs[j]? = some sj) (hk : skel si.cand = skel sj.cand) : i = j := by
  apply hi.key_unique h1 h2
  rw [(hi.keys i si h1).1, (hi.keys j sj h2).1]
  exact keyOf_skel s _ _ hk

theorem tlkAt_some {s : State} {i : Nat} {st : Stored} (h : s.exprs[i]? = some st) : tlkAt s i = tlkOf st := by
  unfold tlkAt; rw [h]

theorem keyAt_some {s : State} {i : Nat} {st : Stored} (h : s.exprs[i]? = some st) : keyAt s i = st.key := by
  unfold keyAt; rw [h]

theorem tlkAt_inj {s : State} (hi : Inv s) {i j : Nat} (h1 : i < s.exprs.length) (h2 : j < s.exprs.length)
    (h : tlkAt s i = tlkAt s j) : i = j := by
  obtain ⟨si, hsi⟩ : ∃ si, s.exprs[i]? = some si := ⟨s.exprs[i], List.getElem?_eq_getElem h1⟩
  obtain ⟨sj, hsj⟩ : ∃ sj, s.exprs[j]? = some sj := ⟨s.exprs[j], List.getElem?_eq_getElem h2⟩
  have idi := hi.ids i si hsi
  have idj := hi.ids j sj hsj
  have oki := (hi.keys i si hsi).2
  have okj := (hi.keys j sj hsj).2
  rw [tlkAt_some hsi, tlkAt_some hsj] at h
  unfold tlkOf at h
  rcases hci : si.cand with ⟨n, t⟩ | ⟨v, l⟩ | ⟨k, a⟩ <;> rcases hcj : sj.cand with ⟨n', t'⟩ | ⟨v', l'⟩ | ⟨k', a'⟩ <;>
    simp only [hci, hcj] at h <;> simp only [hci, hcj, candOk] at oki okj <;> simp at h
  all_goals first
    | (rw [← idi, ← idj]; exact h)
    | exact absurd h.1.symm okj.1
    | exact absurd h.1.symm okj.2.1
    | exact absurd h.1 oki.1
    | exact absurd h.1 oki.2.1
    | (apply hi.skel_unique hsi hsj
       rw [hci, hcj]; simp [skel, h.1, h.2])

theorem map_inj_on {α β} (f : α → β) : ∀ (l1 l2 : List α),
    (∀ a ∈ l1, ∀ b ∈ l2, f a = f b → a = b) → l1.map f = l2.map f → l1 = l2
  | [], [], _, _ => rfl
  | [], _ :: _, _, h => by simp at h
  | _ :: _, [], _, h => by simp at h
  | a :: l1, b :: l2, hinj, h => by
      simp only [List.map_cons, List.cons.injEq] at h
      have hab := hinj a (by simp) b (by simp) h.1
      have := map_inj_on f l1 l2 (fun x hx y hy => hinj x (by simp [hx]) y (by simp [hy])) h.2
      rw [hab, this]

/-- **Key injectivity** (the two-level-key argument). -/
theorem key_inj' {s : State} (hi : Inv s) {c1 c2 : Cand}
    (h1 : candOk s.exprs.length c1) (h2 : candOk s.exprs.length c2) :
    keyOf s c1 = keyOf s c2 ↔ skel c1 = skel c2 := by
  refine ⟨fun h => ?_, keyOf_skel s c1 c2⟩
  rcases c1 with ⟨n, t⟩ | ⟨v, l⟩ | ⟨k, a⟩ <;> rcases c2 with ⟨n', t'⟩ | ⟨v', l'⟩ | ⟨k', a'⟩ <;>
    simp only [keyOf, Key.sym.injEq, Key.const.injEq, Key.op.injEq, reduceCtorEq] at h
  · simp [skel, h.1, h.2]
  · simp only [candOk] at h1 h2
    obtain ⟨sl, hsl⟩ : ∃ sl, s.exprs[l]? = some sl := ⟨s.exprs[l], List.getElem?_eq_getElem h1⟩
    obtain ⟨sl', hsl'⟩ : ∃ sl', s.exprs[l']? = some sl' := ⟨s.exprs[l'], List.getElem?_eq_getElem h2⟩
    have hk := h.2.2.2
    rw [keyAt_some hsl, keyAt_some hsl'] at hk
    have := hi.key_unique hsl hsl' hk
    simp [skel, h.1, h.2.1, h.2.2.1, this]
  · simp only [candOk] at h1 h2
    have := map_inj_on (tlkAt s) a a' (fun x hx y hy hxy => tlkAt_inj hi (h1.2.2 x hx) (h2.2.2 y hy) hxy) h.2
    simp [skel, h.1, this]

theorem inv_meaning' (s : State) (h : Inv s) :
    s.counter = s.exprs.length ∧
    (∀ (i : Nat) (st : Stored), s.exprs[i]? = some st → st.id = i ∧ s.table.lookup st.key = some i) ∧
    (∀ (k k' : Key) (i : Nat), s.table.lookup k = some i → s.table.lookup k' = some i → k = k') ∧
    (∀ (k : Key) (i : Nat), s.table.lookup k = some i → i < s.counter) ∧
    (∀ (i : Nat) (st : Stored), s.exprs[i]? = some st → candOk i st.cand) ∧
    (∀ (i j : Nat) (si sj : Stored), s.exprs[i]? = some si → s.exprs[j]? = some sj →
        CodeStructEq si.cand sj.cand → i = j) := by
  refine ⟨h.dense, fun i st hs => ⟨h.ids i st hs, (h.table _ i).2 ⟨st, hs, rfl⟩⟩, ?_, ?_,
    fun i st hs => (h.keys i st hs).2, fun i j si sj h1 h2 hk => h.skel_unique h1 h2 hk⟩
  · intro k k' i h1 h2
    obtain ⟨st, hs, hk⟩ := (h.table k i).1 h1
    obtain ⟨st', hs', hk'⟩ := (h.table k' i).1 h2
    rw [hs] at hs'; cases hs'
    rw [← hk, ← hk']
  · intro k i h1
    obtain ⟨st, hs, _⟩ := (h.table k i).1 h1
    rw [h.dense]
    rcases Nat.lt_or_ge i s.exprs.length with h0 | h0
    · exact h0
    · rw [List.getElem?_eq_none h0] at hs; cases hs

/-! ### One registration -/

/-- Keys of candidates over existing operands do not change when the registry grows. -/
theorem keyOf_append (s : State) (t : State) (more : List Stored) (ht : t.exprs = s.exprs ++ more)
    {c : Cand} (hc : candOk s.exprs.length c) : keyOf t c = keyOf s c := by
  have get : ∀ i, i < s.exprs.length → t.exprs[i]? = s.exprs[i]? := fun i hi => by
    rw [ht, List.getElem?_append_left hi]
  cases c with
  | sym => rfl
  | const v l =>
      simp only [candOk] at hc
      simp only [keyOf, keyAt, get l hc]
  | op k args =>
      simp only [candOk] at hc
      simp only [keyOf, Key.op.injEq, true_and]
      apply List.map_congr_left
      intro a ha
      simp only [tlkAt, get a (hc.2.2 a ha)]

theorem inv_fresh {s : State} (hi : Inv s) {c : Cand} (hc : candOk s.exprs.length c)
    (hl : s.table.lookup (keyOf s c) = none) : Inv (freshState s c) := by
  have hext : (freshState s c).exprs = s.exprs ++ [{ id := s.counter, cand := c, key := keyOf s c }] := rfl
  have nokey : ∀ (i : Nat) (st : Stored), s.exprs[i]? = some st → st.key ≠ keyOf s c := by
    intro i st h hk
    have := (hi.table (keyOf s c) i).2 ⟨st, h, hk⟩
    rw [hl] at this; cases this
  have getNew : ∀ (i : Nat) (st : Stored), (freshState s c).exprs[i]? = some st →
      (i < s.exprs.length ∧ s.exprs[i]? = some st) ∨
      (i = s.exprs.length ∧ st = { id := s.counter, cand := c, key := keyOf s c }) := by
    intro i st h
    rw [hext] at h
    by_cases hlt : i < s.exprs.length
    · rw [List.getElem?_append_left hlt] at h; exact .inl ⟨hlt, h⟩
    · rw [List.getElem?_append_right (Nat.le_of_not_lt hlt)] at h
      have : i - s.exprs.length = 0 := by
        rcases Nat.eq_zero_or_pos (i - s.exprs.length) with h0 | h0
        · exact h0
        · rw [List.getElem?_eq_none (by simp only [List.length_cons, List.length_nil]; omega)] at h; cases h
      rw [this] at h
      simp only [List.getElem?_cons_zero, Option.some.injEq] at h
      exact .inr ⟨by omega, h.symm⟩
  refine ⟨?_, ?_, ?_, ?_⟩
  · simp [freshState, hi.dense]
  · intro i st h
    rcases getNew i st h with ⟨_, h'⟩ | ⟨h1, h2⟩
    · exact hi.ids i st h'
    · rw [h2, h1]; exact hi.dense
  · intro i st h
    rcases getNew i st h with ⟨hlt, h'⟩ | ⟨h1, h2⟩
    · have := hi.keys i st h'
      refine ⟨?_, this.2⟩
      rw [keyOf_append s _ _ hext (candOk_mono (Nat.le_of_lt hlt) this.2)]
      exact this.1
    · subst h2
      refine ⟨?_, h1 ▸ hc⟩
      exact (keyOf_append s _ _ hext hc).symm
  · intro k i
    show List.lookup k ((keyOf s c, s.counter) :: s.table) = some i ↔ _
    rw [List.lookup_cons]
    by_cases hk : k = keyOf s c
    · subst hk
      simp only [beq_self_eq_true, Option.some.injEq]
      constructor
      · intro h
        subst h
        refine ⟨{ id := s.counter, cand := c, key := keyOf s c }, ?_, rfl⟩
        rw [hext, hi.dense, List.getElem?_append_right (Nat.le_refl _)]; simp
      · rintro ⟨st, h, hkey⟩
        rcases getNew i st h with ⟨_, h'⟩ | ⟨h1, _⟩
        · exact absurd hkey (nokey i st h')
        · rw [h1, hi.dense]
    · have : (k == keyOf s c) = false := by simpa using hk
      simp only [this]
      rw [hi.table k i]
      constructor
      · rintro ⟨st, h, hkey⟩
        have hlt : i < s.exprs.length := by
          rcases Nat.lt_or_ge i s.exprs.length with h0 | h0
          · exact h0
          · rw [List.getElem?_eq_none h0] at h; cases h
        exact ⟨st, by rw [hext, List.getElem?_append_left hlt]; exact h, hkey⟩
      · rintro ⟨st, h, hkey⟩
        rcases getNew i st h with ⟨_, h'⟩ | ⟨_, h2⟩
        · exact ⟨st, h', hkey⟩
        · subst h2; exact absurd hkey.symm hk

theorem hitOut_cases (s : State) (c : Cand) (i : Id) :
    hitOut s c i = .hit i ∨
    (hitOut s c i = .runtimeError ∧
       ∃ v l v' l', c = .const v l ∧ candAt s i = some (.const v' l') ∧ v.tid ≠ v'.tid) := by
  unfold hitOut
  split
  · next v l v' l' hcand =>
      by_cases ht : v.tid ≠ v'.tid
      · rw [if_pos ht]; exact .inr ⟨rfl, v, l, v', l', rfl, hcand, ht⟩
      · rw [if_neg ht]; exact .inl rfl
  · exact .inl rfl

theorem register_cases (s : State) (c : Cand) :
    (¬ candOk s.exprs.length c ∧ register s c = (s, .badOp)) ∨
    (candOk s.exprs.length c ∧ s.table.lookup (keyOf s c) = none ∧
        register s c = (freshState s c, .fresh s.counter)) ∨
    (candOk s.exprs.length c ∧ ∃ i, s.table.lookup (keyOf s c) = some i ∧
        (register s c = (s, .hit i) ∨
         (register s c = (s, .runtimeError) ∧
            ∃ v l v' l', c = .const v l ∧ candAt s i = some (.const v' l') ∧ v.tid ≠ v'.tid))) := by
  by_cases hc : candOk s.exprs.length c
  · cases hl : s.table.lookup (keyOf s c) with
    | none => exact .inr (.inl ⟨hc, rfl, by unfold register; rw [if_pos hc, hl]⟩)
    | some i =>
        have hr : register s c = (s, hitOut s c i) := by unfold register; rw [if_pos hc, hl]
        refine .inr (.inr ⟨hc, i, rfl, ?_⟩)
        rcases hitOut_cases s c i with h | ⟨h, hw⟩
        · exact .inl (by rw [hr, h])
        · exact .inr ⟨by rw [hr, h], hw⟩
  · exact .inl ⟨hc, by unfold register; rw [if_neg hc]⟩

/-- One registration step under the invariant. -/
theorem register_spec {s : State} (hi : Inv s) (c : Cand) :
    Inv (register s c).1 ∧
    (∃ more, (register s c).1.exprs = s.exprs ++ more) ∧
    (∀ a, (register s c).2.id? = some a →
        ∃ st, (register s c).1.exprs[a]? = some st ∧ skel st.cand = skel c) ∧
    (∀ a, (register s c).2 = .fresh a → a = s.exprs.length ∧ (register s c).1.exprs.length = s.exprs.length + 1) ∧
    (∀ a, (register s c).2 = .hit a → a < s.exprs.length ∧ (register s c).1 = s) := by
  rcases register_cases s c with ⟨_, h⟩ | ⟨hc, hl, h⟩ | ⟨hc, i, hl, h⟩
  · rw [h]; exact ⟨hi, ⟨[], by simp⟩, by simp [Out.id?], by simp, by simp⟩
  · rw [h]
    refine ⟨inv_fresh hi hc hl, ⟨_, rfl⟩, ?_, ?_, by simp⟩
    · intro a ha
      simp only [Out.id?, Option.some.injEq] at ha
      subst ha
      refine ⟨{ id := s.counter, cand := c, key := keyOf s c }, ?_, rfl⟩
      show (s.exprs ++ _)[s.counter]? = _
      rw [hi.dense, List.getElem?_append_right (Nat.le_refl _)]; simp
    · intro a ha
      simp only [Out.fresh.injEq] at ha
      subst ha
      exact ⟨hi.dense, by simp [freshState]⟩
  · obtain ⟨st, hst, hkey⟩ := (hi.table _ i).1 hl
    have hlt : i < s.exprs.length := by
      rcases Nat.lt_or_ge i s.exprs.length with h0 | h0
      · exact h0
      · rw [List.getElem?_eq_none h0] at hst; cases hst
    have hsk : skel st.cand = skel c := by
      have hk := hi.keys i st hst
      apply (key_inj' hi (candOk_mono (Nat.le_of_lt hlt) hk.2) hc).1
      rw [← hk.1, hkey]
    rcases h with h | ⟨h, _⟩
    · rw [h]
      refine ⟨hi, ⟨[], by simp⟩, ?_, by simp, ?_⟩
      · intro a ha
        simp only [Out.id?, Option.some.injEq] at ha
        subst ha; exact ⟨st, hst, hsk⟩
      · intro a ha
        simp only [Out.hit.injEq] at ha
        subst ha; exact ⟨hlt, rfl⟩
    · rw [h]; exact ⟨hi, ⟨[], by simp⟩, by simp [Out.id?], by simp, by simp⟩

/-! ### Histories -/

theorem inv_empty : Inv State.empty :=
  ⟨rfl, by intro i st h; simp [State.empty] at h, by intro i st h; simp [State.empty] at h,
   by intro k i; simp [State.empty]⟩

theorem run_cons (s : State) (c : Cand) (cs : List Cand) :
    run s (c :: cs) = ((run (register s c).1 cs).1, (register s c).2 :: (run (register s c).1 cs).2) := rfl

theorem getElem?_prefix {α} {l more : List α} {a : Nat} {x : α} (h : l[a]? = some x) : (l ++ more)[a]? = some x := by
  have hlt : a < l.length := by
    rcases Nat.lt_or_ge a l.length with h0 | h0
    · exact h0
    · rw [List.getElem?_eq_none h0] at h; cases h
  rw [List.getElem?_append_left hlt]; exact h

/-- Along a history: the invariant is kept, stored expressions are never changed, and the
expression stored under a returned id is structurally (code sense) the requested one. -/
theorem run_spec : ∀ (ops : List Cand) (s : State), Inv s →
    Inv (run s ops).1 ∧
    (∃ more, (run s ops).1.exprs = s.exprs ++ more) ∧
    (run s ops).2.length = ops.length ∧
    (∀ (n : Nat) (c : Cand) (a : Id), ops[n]? = some c → ((run s ops).2[n]?).bind Out.id? = some a →
        ∃ st, (run s ops).1.exprs[a]? = some st ∧ skel st.cand = skel c) ∧
    (∀ (n : Nat) (a : Id), (run s ops).2[n]? = some (Out.hit a) →
        a < s.exprs.length ∨ ∃ m : Nat, m < n ∧ (run s ops).2[m]? = some (Out.fresh a)) ∧
    (∀ (n : Nat) (a : Id), (run s ops).2[n]? = some (Out.fresh a) → s.exprs.length ≤ a ∧ a < (run s ops).1.exprs.length)
  | [], s, hi => ⟨hi, ⟨[], by simp [run]⟩, rfl, by simp, by simp [run], by simp [run]⟩
  | c :: cs, s, hi => by
      obtain ⟨hi1, ⟨m1, hm1⟩, hret, hfresh, hhit⟩ := register_spec hi c
      obtain ⟨hi2, ⟨m2, hm2⟩, hlen, hall, hh, hf⟩ := run_spec cs (register s c).1 hi1
      rw [run_cons]
      refine ⟨hi2, ⟨m1 ++ m2, by rw [hm2, hm1, List.append_assoc]⟩, by simp [hlen], ?_, ?_, ?_⟩
      · intro n c' a hc' ha
        cases n with
        | zero =>
            simp only [List.getElem?_cons_zero, Option.some.injEq] at hc'
            subst hc'
            simp only [List.getElem?_cons_zero, Option.bind_some] at ha
            obtain ⟨st, hst, hsk⟩ := hret a ha
            exact ⟨st, by rw [hm2]; exact getElem?_prefix hst, hsk⟩
        | succ n =>
            simp only [List.getElem?_cons_succ] at hc' ha
            exact hall n c' a hc' ha
      · intro n a ha
        cases n with
        | zero =>
            simp only [List.getElem?_cons_zero, Option.some.injEq] at ha
            exact .inl (hhit a ha).1
        | succ n =>
            simp only [List.getElem?_cons_succ] at ha
            rcases hh n a ha with h | ⟨m, hm, hm'⟩
            · rcases Nat.lt_or_ge a s.exprs.length with h0 | h0
              · exact .inl h0
              · -- a was registered by this very step
                right
                refine ⟨0, Nat.succ_pos n, ?_⟩
                simp only [List.getElem?_cons_zero, Option.some.injEq]
                rcases register_cases s c with ⟨_, hr⟩ | ⟨_, _, hr⟩ | ⟨_, i, _, hr | ⟨hr, _⟩⟩
                · rw [hr] at h; exact absurd h (Nat.not_lt.2 h0)
                · rw [hr] at h ⊢
                  have : a = s.exprs.length := by
                    simp [freshState] at h
                    exact Nat.le_antisymm (Nat.le_of_lt_succ h) h0
                  rw [this, hi.dense]
                · rw [hr] at h; exact absurd h (Nat.not_lt.2 h0)
                · rw [hr] at h; exact absurd h (Nat.not_lt.2 h0)
            · exact .inr ⟨m + 1, Nat.succ_lt_succ hm, by simpa using hm'⟩
      · intro n a ha
        have hle : s.exprs.length ≤ (register s c).1.exprs.length := by rw [hm1]; simp
        cases n with
        | zero =>
            simp only [List.getElem?_cons_zero, Option.some.injEq] at ha
            obtain ⟨h1, h2⟩ := hfresh a ha
            refine ⟨Nat.le_of_eq h1.symm, ?_⟩
            rw [hm2, List.length_append, h2, h1]
            exact Nat.lt_of_lt_of_le (Nat.lt_succ_self _) (Nat.le_add_right _ _)
        | succ n =>
            simp only [List.getElem?_cons_succ] at ha
            obtain ⟨h1, h2⟩ := hf n a ha
            exact ⟨Nat.le_trans hle h1, h2⟩

/-- Two constructions of one history return the same id iff they are structurally identical in
the code's sense. -/
theorem same_iff_code (ops : List Cand) (i j : Nat) (ci cj : Cand) (a b : Id)
    (hi : ops[i]? = some ci) (hj : ops[j]? = some cj)
    (ha : ((run State.empty ops).2[i]?).bind Out.id? = some a)
    (hb : ((run State.empty ops).2[j]?).bind Out.id? = some b) :
    a = b ↔ skel ci = skel cj := by
  obtain ⟨hinv, _, _, hall, _, _⟩ := run_spec ops State.empty inv_empty
  obtain ⟨sa, hsa, hka⟩ := hall i ci a hi ha
  obtain ⟨sb, hsb, hkb⟩ := hall j cj b hj hb
  constructor
  · intro h
    subst h
    rw [hsa] at hsb
    cases hsb
    rw [← hka, hkb]
  · intro h
    exact hinv.skel_unique hsa hsb (by rw [hka, hkb, h])

def countFresh : List Out → Nat
  | [] => 0
  | .fresh _ :: l => countFresh l + 1
  | _ :: l => countFresh l

theorem fresh_ids' : ∀ (ops : List Cand) (s : State), Inv s →
    (run s ops).1.counter = s.counter + countFresh (run s ops).2 ∧
    ∀ (n : Nat) (a : Nat), (run s ops).2[n]? = some (Out.fresh a) → a = s.counter + countFresh ((run s ops).2.take n)
  | [], s, _ => by simp [run, countFresh]
  | c :: cs, s, hi => by
      have hi1 := (register_spec hi c).1
      obtain ⟨h1, h2⟩ := fresh_ids' cs (register s c).1 hi1
      rw [run_cons]
      have key : (register s c).1.counter = s.counter + countFresh [(register s c).2] := by
        rcases register_cases s c with ⟨_, hr⟩ | ⟨_, _, hr⟩ | ⟨_, i, _, hr | ⟨hr, _⟩⟩ <;> rw [hr] <;> simp [countFresh, freshState]
      have cf : ∀ (o : Out) (l : List Out), countFresh (o :: l) = countFresh [o] + countFresh l := by
        intro o l; cases o <;> simp [countFresh]; omega
      refine ⟨?_, ?_⟩
      · show (run (register s c).1 cs).1.counter = s.counter + countFresh ((register s c).2 :: (run (register s c).1 cs).2)
        rw [cf (register s c).2 (run (register s c).1 cs).2, h1, key]; omega
      · intro n a ha
        cases n with
        | zero =>
            simp only [List.getElem?_cons_zero, Option.some.injEq] at ha
            simp only [List.take_zero, countFresh, Nat.add_zero]
            rcases register_cases s c with ⟨_, hr⟩ | ⟨_, _, hr⟩ | ⟨_, i, _, hr | ⟨hr, _⟩⟩ <;> rw [hr] at ha <;> simp at ha
            exact ha.symm
        | succ n =>
            simp only [List.getElem?_cons_succ] at ha
            show a = s.counter + countFresh (((register s c).2 :: (run (register s c).1 cs).2).take (n + 1))
            have h3 := h2 n a ha
            rw [List.take_succ_cons, cf (register s c).2]; omega

theorem lookup_hit_skel {s : State} (hi : Inv s) {c : Cand} (hc : candOk s.exprs.length c) {i : Id}
    (hl : s.table.lookup (keyOf s c) = some i) : ∃ st, s.exprs[i]? = some st ∧ skel st.cand = skel c := by
  obtain ⟨st, hst, hkey⟩ := (hi.table _ i).1 hl
  have hlt : i < s.exprs.length := by
    rcases Nat.lt_or_ge i s.exprs.length with h0 | h0
    · exact h0
    · rw [List.getElem?_eq_none h0] at hst; cases hst
  have hk := hi.keys i st hst
  exact ⟨st, hst, (key_inj' hi (candOk_mono (Nat.le_of_lt hlt) hk.2) hc).1 (by rw [← hk.1, hkey])⟩

theorem no_rte' : ∀ (ops : List Cand) (s : State), Inv s →
    TidConsistent (s.exprs.map (·.cand) ++ ops) →
    ∀ n : Nat, (run s ops).2[n]? ≠ some Out.runtimeError
  | [], s, _, _ => by simp [run]
  | c :: cs, s, hi, ht => by
      intro n
      rw [run_cons]
      cases n with
      | zero =>
          simp only [List.getElem?_cons_zero, ne_eq, Option.some.injEq]
          intro hr
          rcases register_cases s c with ⟨_, h⟩ | ⟨_, _, h⟩ | ⟨hc, i, hl, h | ⟨_, v, l, v', l', hcv, hcand, hne⟩⟩
          · rw [h] at hr; cases hr
          · rw [h] at hr; cases hr
          · rw [h] at hr; cases hr
          · obtain ⟨st, hst, hsk⟩ := lookup_hit_skel hi hc hl
            have hst' : st.cand = .const v' l' := by
              unfold candAt at hcand; rw [hst] at hcand; exact Option.some.inj hcand
            rw [hst', hcv] at hsk
            simp only [skel, Skel.const.injEq] at hsk
            apply hne
            refine (ht v' l' v l ?_ ?_ hsk.2.1).symm
            · apply List.mem_append_left
              rw [← hst']; exact List.mem_map.2 ⟨st, List.mem_of_getElem? hst, rfl⟩
            · apply List.mem_append_right; rw [hcv]; simp
      | succ n =>
          simp only [List.getElem?_cons_succ]
          apply no_rte' cs (register s c).1 (register_spec hi c).1
          intro v l v' l' h1 h2
          have sub : ∀ x, x ∈ (register s c).1.exprs.map (·.cand) ++ cs → x ∈ s.exprs.map (·.cand) ++ c :: cs := by
            intro x hx
            rcases register_cases s c with ⟨_, h⟩ | ⟨_, _, h⟩ | ⟨_, i, _, h | ⟨h, _⟩⟩ <;> rw [h] at hx <;>
              simp only [freshState, List.map_append, List.map_cons, List.map_nil, List.mem_append, List.mem_cons,
                List.mem_map, List.not_mem_nil, or_false] at hx ⊢
            all_goals first | (rcases hx with hx | hx; exact .inl hx; exact .inr (.inr hx))
                            | (rcases hx with (hx | hx) | hx; exact .inl hx; exact .inr (.inl hx); exact .inr (.inr hx))
          exact ht v l v' l' (sub _ h1) (sub _ h2)

/-! ### NaN-free values: the code's value class is strict equality of type name and content -/

theorem PyFloat.plain_strRep {f : PyFloat} (hf : f.plain) : f.strRep = f := by
  cases f with
  | fin neg m e => exact hf
  | inf neg => rfl
  | nan neg p => exact absurd hf (by simp [PyFloat.plain])

theorem PyData.plain_strRep {d : PyData} (h : d.plain) : d.strRep = d := by
  cases d with
  | int z => rfl
  | flt f => simp only [PyData.strRep, PyFloat.plain_strRep h]
  | cplx re im => simp only [PyData.strRep, PyFloat.plain_strRep h.1, PyFloat.plain_strRep h.2]
  | str s => rfl

theorem PyFloat.plain_den_some {f : PyFloat} (hf : f.plain) : ∃ r, f.den = some r := by
  cases f <;> simp only [PyFloat.plain] at hf <;> simp [PyFloat.den]

theorem PyData.plain_not_nan {d : PyData} (h : d.plain) : d.den ≠ .nan := by
  cases d with
  | int z => simp [PyData.den]
  | flt f => obtain ⟨r, hr⟩ := PyFloat.plain_den_some h; simp [PyData.den, hr]
  | cplx re im =>
      obtain ⟨r, hr⟩ := PyFloat.plain_den_some h.1
      obtain ⟨i, hi⟩ := PyFloat.plain_den_some h.2
      simp [PyData.den, hr, hi]
  | str s => simp [PyData.den]

/-- For NaN-free values the code's constant identification (== class, type name, str) is strict
equality of type name and content, sign of zero included. -/
theorem plain_canon {v w : PyVal} (hv : v.Plain) (hw : w.Plain) :
    (canon v = canon w ∧ v.tname = w.tname ∧ v.data.strRep = w.data.strRep) ↔ (v.tname = w.tname ∧ v.data = w.data) := by
  have nv := PyData.plain_not_nan hv
  have nw := PyData.plain_not_nan hw
  unfold canon
  rw [if_neg nv, if_neg nw, PyData.plain_strRep hv, PyData.plain_strRep hw]
  constructor
  · rintro ⟨_, h2, h3⟩; exact ⟨h2, h3⟩
  · rintro ⟨h1, h2⟩; exact ⟨by rw [h2], h1, h2⟩

theorem skel_eq_iff_strict {c c' : Cand} (hc : c.Plain) (hc' : c'.Plain) :
    skel c = skel c' ↔ StrictStructEq c c' := by
  cases c <;> cases c' <;> simp only [skel, StrictStructEq, Skel.sym.injEq, Skel.const.injEq, Skel.op.injEq, reduceCtorEq]
  · next v l v' l' =>
    have := plain_canon hc hc'
    constructor
    · rintro ⟨h1, h2, h3, h4⟩; exact ⟨(this.1 ⟨h1, h2, h3⟩).1, (this.1 ⟨h1, h2, h3⟩).2, h4⟩
    · rintro ⟨h1, h2, h3⟩; exact ⟨(this.2 ⟨h1, h2⟩).1, (this.2 ⟨h1, h2⟩).2.1, (this.2 ⟨h1, h2⟩).2.2, h3⟩

end FAVerif.HashCons
