/-
Sign laws of the bit-exact softfloat (every format with p ≥ 2, ew ≥ 2, every pattern incl.
NaN / infinities / zeros):  |−a| = |a|,  a + b = b + a,  a · b = b · a,
(−a) · b = −(a · b) and a − (−b) = a + b up to the single-NaN convention.
Used to prove the symmetry theorems of C03 on regenerated programs.
-/
import FAVerif.Lemmas.SoftOps

namespace FAVerif.SoftRound
open FAVerif.FP

/-- negation that leaves the canonical NaN alone -/
def negN (f : Fmt) (a : Nat) : Nat := if isNaNBits f a then a else FP.neg f a

theorem abs_neg_eq (f : Fmt) (h : WF f) (a : Nat) : FP.abs f (FP.neg f a) = FP.abs f a := by
  have hS : 0 < f.signBit := by rw [signBit_eq f h]; positivity
  unfold FP.abs FP.neg
  split
  · rename_i hodd
    have hge : f.signBit ≤ a := by
      by_contra hlt; push Not at hlt
      rw [Nat.div_eq_of_lt hlt] at hodd; exact absurd hodd (by decide)
    obtain ⟨c, hc⟩ : ∃ c, a = c + f.signBit := ⟨a - f.signBit, by omega⟩
    rw [hc, Nat.add_sub_cancel, Nat.add_mod_right]
  · rw [Nat.add_mod_right]

/-- decode of a negated pattern: the sign flips, nothing else changes -/
theorem decode_neg_all (f : Fmt) (h : WF f) (a : Nat) :
    decode f (FP.neg f a) = match decode f a with
      | .nan => .nan
      | .inf s => .inf (!s)
      | .fin s m e => .fin (!s) m e := by
  have hfn := fields_neg f h a
  unfold decode
  rw [hfn]
  simp only
  split_ifs <;> rfl

theorem isNaN_neg (f : Fmt) (h : WF f) (a : Nat) : isNaNBits f (FP.neg f a) = isNaNBits f a := by
  unfold isNaNBits
  rw [decode_neg_all f h a]
  cases decode f a <;> rfl

theorem add_comm' (f : Fmt) (a b : Nat) : FP.add f a b = FP.add f b a := by
  unfold FP.add
  cases ha : decode f a <;> cases hb : decode f b <;> simp only []
  · rename_i s t
    by_cases hst : s = t
    · subst hst; simp
    · have : ¬ t = s := fun e => hst e.symm
      simp [hst, this]
  · rename_i s m e t n e'
    rw [min_comm e e', Int.add_comm (sInt s _) (sInt t _), Bool.and_comm s t]

theorem mul_comm' (f : Fmt) (a b : Nat) : FP.mul f a b = FP.mul f b a := by
  unfold FP.mul
  cases ha : decode f a <;> cases hb : decode f b <;> simp only [] <;>
    first
    | rfl
    | (rename_i s t; cases s <;> cases t <;> rfl)
    | (rename_i s t n e; cases s <;> cases t <;> rfl)
    | (rename_i s m e t; cases s <;> cases t <;> rfl)
    | (rename_i s m e t n e'
       rw [Nat.mul_comm m n, Int.add_comm e e']
       cases s <;> cases t <;> rfl)

end FAVerif.SoftRound

namespace FAVerif.SoftRound
open FAVerif.FP

theorem neg_neg' (f : Fmt) (h : WF f) (a : Nat) : FP.neg f (FP.neg f a) = a := by
  have hS : 0 < f.signBit := by rw [signBit_eq f h]; positivity
  set S := f.signBit with hSdef
  unfold FP.neg
  simp only [← hSdef]
  by_cases hodd : a / S % 2 = 1
  · simp only [hodd, if_true]
    have hd1 : 1 ≤ a / S := by
      rcases Nat.eq_zero_or_pos (a / S) with h0 | h0
      · rw [h0] at hodd; exact absurd hodd (by decide)
      · exact h0
    have hge : S ≤ a := by
      calc S = 1 * S := (Nat.one_mul S).symm
        _ ≤ a / S * S := Nat.mul_le_mul_right S hd1
        _ ≤ a := Nat.div_mul_le_self a S
    obtain ⟨c, hc⟩ : ∃ c, a = c + S := ⟨a - S, by omega⟩
    have e1 : a / S = (a - S) / S + 1 := by
      conv_lhs => rw [hc, Nat.add_div_right _ hS]
      rw [hc, Nat.add_sub_cancel]
    have hpar : ¬ ((a - S) / S % 2 = 1) := by rw [e1] at hodd; omega
    simp only [hpar, if_false]
    omega
  · simp only [hodd, if_false]
    have e1 : (a + S) / S = a / S + 1 := Nat.add_div_right _ hS
    have hpar : (a + S) / S % 2 = 1 := by rw [e1]; omega
    simp only [hpar, if_true]
    omega

/-- x − (−y) = x + y, for ALL patterns (NaN included) -/
theorem sub_neg_eq_add (f : Fmt) (h : WF f) (x y : Nat) : FP.sub f x (FP.neg f y) = FP.add f x y := by
  unfold FP.sub
  rw [isNaN_neg f h y, neg_neg' f h y]
  by_cases hn : isNaNBits f y = true
  · simp only [hn, if_true]
    -- y NaN ⇒ x + y = NaN
    unfold FP.add
    unfold isNaNBits at hn
    cases hy : decode f y <;> simp [hy, V.isNaN] at hn
    cases decode f x <;> rfl
  · simp [hn]

/-- (−y) + x = x − y, for ALL patterns -/
theorem neg_add_eq_sub (f : Fmt) (h : WF f) (x y : Nat) : FP.add f (FP.neg f y) x = FP.sub f x y := by
  unfold FP.sub
  by_cases hn : isNaNBits f y = true
  · simp only [hn, if_true]
    have hn' : isNaNBits f (FP.neg f y) = true := by rw [isNaN_neg f h y]; exact hn
    unfold FP.add
    unfold isNaNBits at hn'
    cases hy : decode f (FP.neg f y) <;> simp [hy, V.isNaN] at hn'
    rfl
  · simp only [hn, Bool.false_eq_true, if_false]
    exact add_comm' f _ _

/-- flipping the sign bit of a pattern whose non-sign part is below the sign bit -/
lemma neg_compose (f : Fmt) (h : WF f) (s : Bool) (rest : Nat) (hr : rest < f.signBit) :
    FP.neg f ((if s then f.signBit else 0) + rest) = (if !s then f.signBit else 0) + rest := by
  have hS : 0 < f.signBit := by rw [signBit_eq f h]; positivity
  unfold FP.neg
  cases s
  · simp only [Bool.false_eq_true, if_false, Nat.zero_add, Bool.not_false, if_true]
    rw [Nat.div_eq_of_lt hr]; simp; omega
  · simp only [if_true, Bool.not_true, Bool.false_eq_true, if_false, Nat.zero_add]
    have : (f.signBit + rest) / f.signBit = 1 := by
      rw [Nat.add_comm, Nat.add_div_right _ hS, Nat.div_eq_of_lt hr]
    rw [this]; simp

lemma packFin_rest (f : Fmt) (h : WF f) (s : Bool) (q : Nat) (e : Int) (hq : q < 2 ^ f.p) :
    ∃ rest, rest < f.signBit ∧ ∀ t, packFin f t q e = (if t then f.signBit else 0) + rest := by
  have hsb := signBit_eq f h
  have hfb : f.fracBits + 1 = f.p := by simp [Fmt.fracBits]; have := h.hp; omega
  have hpp : (2 : ℕ) ^ f.p = 2 * 2 ^ f.fracBits := by rw [← hfb, pow_succ]; ring
  have hB : 0 < 2 ^ f.fracBits := by positivity
  have hxm : f.expMax + 1 = 2 ^ f.ew := by
    simp only [Fmt.expMax]; have : 0 < 2 ^ f.ew := by positivity
    omega
  unfold packFin
  by_cases h1 : q < 2 ^ f.fracBits
  · refine ⟨q, ?_, fun t => by simp [h1]⟩
    rw [hsb]
    calc q < 2 ^ f.fracBits := h1
      _ = 1 * 2 ^ f.fracBits := (Nat.one_mul _).symm
      _ ≤ 2 ^ f.ew * 2 ^ f.fracBits := Nat.mul_le_mul_right _ (Nat.one_le_two_pow)
  · by_cases h2 : e - f.emin + 1 ≥ (f.expMax : Int)
    · refine ⟨f.infBits, ?_, fun t => by simp [h1, h2]⟩
      rw [hsb]; unfold Fmt.infBits
      exact Nat.mul_lt_mul_of_pos_right (by omega) hB
    · refine ⟨(e - f.emin + 1).toNat * 2 ^ f.fracBits + (q - 2 ^ f.fracBits), ?_, fun t => by simp [h1, h2]; ring⟩
      rw [hsb]
      have hE : (e - f.emin + 1).toNat + 1 ≤ 2 ^ f.ew := by omega
      calc (e - f.emin + 1).toNat * 2 ^ f.fracBits + (q - 2 ^ f.fracBits)
          < (e - f.emin + 1).toNat * 2 ^ f.fracBits + 2 ^ f.fracBits := by omega
        _ = ((e - f.emin + 1).toNat + 1) * 2 ^ f.fracBits := by ring
        _ ≤ 2 ^ f.ew * 2 ^ f.fracBits := Nat.mul_le_mul_right _ hE

theorem neg_packFin (f : Fmt) (h : WF f) (s : Bool) (q : Nat) (e : Int) (hq : q < 2 ^ f.p) :
    FP.neg f (packFin f s q e) = packFin f (!s) q e := by
  obtain ⟨rest, hr, hpk⟩ := packFin_rest f h s q e hq
  rw [hpk s, hpk (!s), neg_compose f h s rest hr]

/-- the exponent field of a packed value tells NaN apart: never NaN -/
theorem isNaN_packFin (f : Fmt) (h : WF f) (s : Bool) (q : Nat) (e : Int) (hq : q < 2 ^ f.p) :
    isNaNBits f (packFin f s q e) = false := by
  have hfb : f.fracBits + 1 = f.p := by simp [Fmt.fracBits]; have := h.hp; omega
  have hxm : f.expMax < 2 ^ f.ew := by
    simp only [Fmt.expMax]; have : 0 < 2 ^ f.ew := by positivity
    omega
  have hx1 : 1 ≤ f.expMax := by
    have : 2 ^ 1 ≤ 2 ^ f.ew := Nat.pow_le_pow_right (by norm_num) (by have := h.hew; omega)
    simp only [Fmt.expMax]; omega
  unfold packFin isNaNBits
  by_cases h1 : q < 2 ^ f.fracBits
  · simp only [h1, if_true]
    have := fields_compose f h s 0 q (by positivity) h1
    simp only [Nat.zero_mul, Nat.add_zero] at this
    unfold decode; rw [this]
    have h0 : (0 : ℕ) ≠ f.expMax := by omega
    simp [h0, V.isNaN]
  · simp only [h1, if_false]
    by_cases h2 : e - f.emin + 1 ≥ (f.expMax : Int)
    · simp only [h2, if_true]
      have := fields_compose f h s f.expMax 0 hxm (by positivity)
      simp only [Nat.add_zero] at this
      unfold decode Fmt.infBits; rw [this]
      simp [V.isNaN]
    · simp only [h2, if_false]
      have hpp : (2 : ℕ) ^ f.p = 2 * 2 ^ f.fracBits := by rw [← hfb, pow_succ]; ring
      have hM : q - 2 ^ f.fracBits < 2 ^ f.fracBits := by omega
      have hE : (e - f.emin + 1).toNat < 2 ^ f.ew := by omega
      have := fields_compose f h s (e - f.emin + 1).toNat (q - 2 ^ f.fracBits) hE hM
      unfold decode; rw [this]
      have hne : (e - f.emin + 1).toNat ≠ f.expMax := by omega
      simp only [hne, if_false]
      split_ifs <;> simp [V.isNaN]

end FAVerif.SoftRound

namespace FAVerif.SoftRound
open FAVerif.FP

lemma expMax_lt (f : Fmt) : f.expMax < 2 ^ f.ew := by
  simp only [Fmt.expMax]; have : 0 < 2 ^ f.ew := by positivity
  omega

theorem decode_nanBits (f : Fmt) (h : WF f) : decode f f.nanBits = .nan := by
  have hfb : 1 ≤ f.fracBits := by simp [Fmt.fracBits]; have := h.hp; omega
  have hlt : 2 ^ (f.fracBits - 1) < 2 ^ f.fracBits := Nat.pow_lt_pow_right (by norm_num) (by omega)
  have := fields_compose f h false f.expMax (2 ^ (f.fracBits - 1)) (expMax_lt f) hlt
  simp only [Bool.false_eq_true, if_false, Nat.zero_add] at this
  unfold decode Fmt.nanBits Fmt.infBits
  rw [this]
  have : 2 ^ (f.fracBits - 1) ≠ 0 := by positivity
  simp [this]

theorem decode_infBitsS (f : Fmt) (h : WF f) (s : Bool) : decode f (f.infBitsS s) = .inf s := by
  have := fields_compose f h s f.expMax 0 (expMax_lt f) (by positivity)
  simp only [Nat.add_zero] at this
  unfold decode Fmt.infBitsS Fmt.infBits
  rw [this]; simp

theorem isNaN_nanBits (f : Fmt) (h : WF f) : isNaNBits f f.nanBits = true := by
  simp [isNaNBits, decode_nanBits f h, V.isNaN]

theorem isNaN_infBitsS (f : Fmt) (h : WF f) (s : Bool) : isNaNBits f (f.infBitsS s) = false := by
  simp [isNaNBits, decode_infBitsS f h, V.isNaN]

theorem neg_infBitsS (f : Fmt) (h : WF f) (s : Bool) : FP.neg f (f.infBitsS s) = f.infBitsS (!s) := by
  have hr : f.infBits < f.signBit := by
    rw [signBit_eq f h]; unfold Fmt.infBits
    exact Nat.mul_lt_mul_of_pos_right (expMax_lt f) (by positivity)
  unfold Fmt.infBitsS
  exact neg_compose f h s f.infBits hr

theorem neg_zeroBits (f : Fmt) (h : WF f) (s : Bool) : FP.neg f (f.zeroBits s) = f.zeroBits (!s) := by
  have hS : 0 < f.signBit := by rw [signBit_eq f h]; positivity
  have := neg_compose f h s 0 hS
  simpa [Fmt.zeroBits] using this

theorem isNaN_zeroBits (f : Fmt) (h : WF f) (s : Bool) : isNaNBits f (f.zeroBits s) = false := by
  simp [isNaNBits, decode_zeroBits f h, V.isNaN]

/-- rounding is sign-symmetric (sticky-free case) and never produces NaN -/
theorem roundFin_neg (f : Fmt) (h : WF f) (s : Bool) (m : Nat) (e : Int) :
    FP.neg f (roundFin f s m e false) = roundFin f (!s) m e false ∧ isNaNBits f (roundFin f s m e false) = false := by
  have hfb : f.fracBits + 1 = f.p := by simp [Fmt.fracBits]; have := h.hp; omega
  have hpp : (2 : ℕ) ^ f.p = 2 * 2 ^ f.fracBits := by rw [← hfb, pow_succ]; ring
  have hB : 0 < 2 ^ f.fracBits := by positivity
  unfold roundFin
  by_cases hm : m = 0
  · simp only [hm, if_true]
    exact ⟨neg_zeroBits f h s, isNaN_zeroBits f h s⟩
  · simp only [hm, if_false]
    obtain ⟨hc1, _, _⟩ := roundCore_canon f h m (Nat.pos_of_ne_zero hm) e
    by_cases htop : (roundCore f m e false).1 = 2 ^ f.p
    · simp only [htop, if_true]
      exact ⟨neg_packFin f h s _ _ (by omega), isNaN_packFin f h s _ _ (by omega)⟩
    · simp only [htop, if_false]
      have hlt : (roundCore f m e false).1 < 2 ^ f.p := lt_of_le_of_ne hc1 htop
      exact ⟨neg_packFin f h s _ _ hlt, isNaN_packFin f h s _ _ hlt⟩

/-- **(−a)·b = −(a·b)**, with NaN staying the canonical NaN — all patterns -/
theorem mul_neg_left (f : Fmt) (h : WF f) (a b : Nat) : FP.mul f (FP.neg f a) b = negN f (FP.mul f a b) := by
  have hnn : negN f f.nanBits = f.nanBits := by simp [negN, isNaN_nanBits f h]
  have hinf : ∀ s, negN f (f.infBitsS s) = f.infBitsS (!s) := fun s => by
    simp [negN, isNaN_infBitsS f h, neg_infBitsS f h]
  unfold FP.mul
  rw [decode_neg_all f h a]
  cases ha : decode f a <;> cases hb : decode f b <;> simp only []
  all_goals first
    | exact hnn.symm
    | (rename_i s t; rw [hinf]; cases s <;> cases t <;> rfl)
    | (rename_i s t n e
       by_cases hn : n = 0
       · simp only [hn, if_true]; exact hnn.symm
       · simp only [hn, if_false]; rw [hinf]; cases s <;> cases t <;> rfl)
    | (rename_i s m e t
       by_cases hn : m = 0
       · simp only [hn, if_true]; exact hnn.symm
       · simp only [hn, if_false]; rw [hinf]; cases s <;> cases t <;> rfl)
    | (rename_i s m e t n e'
       obtain ⟨h1, h2⟩ := roundFin_neg f h (s != t) (m * n) (e + e')
       simp only [negN, h2, Bool.false_eq_true, if_false]
       rw [h1]
       cases s <;> cases t <;> rfl)

theorem mul_neg_right (f : Fmt) (h : WF f) (a b : Nat) : FP.mul f a (FP.neg f b) = negN f (FP.mul f a b) := by
  rw [mul_comm' f a (FP.neg f b), mul_neg_left f h b a, mul_comm' f b a]

theorem negN_negN (f : Fmt) (h : WF f) (a : Nat) : negN f (negN f a) = a := by
  unfold negN
  by_cases hn : isNaNBits f a = true
  · simp [hn]
  · simp only [hn, Bool.false_eq_true, if_false]
    rw [isNaN_neg f h a]; simp [hn, neg_neg' f h a]

theorem isNaN_negN (f : Fmt) (h : WF f) (a : Nat) : isNaNBits f (negN f a) = isNaNBits f a := by
  unfold negN
  by_cases hn : isNaNBits f a = true
  · simp [hn]
  · simp only [hn, Bool.false_eq_true, if_false]; rw [isNaN_neg f h a]; simpa using hn

/-- c·(negN w) = negN (c·w) -/
theorem mul_negN_right (f : Fmt) (h : WF f) (c w : Nat) : FP.mul f c (negN f w) = negN f (FP.mul f c w) := by
  unfold negN
  by_cases hn : isNaNBits f w = true
  · simp only [hn, if_true]
    -- w NaN ⇒ c·w = NaN
    have : FP.mul f c w = f.nanBits := by
      unfold FP.mul
      unfold isNaNBits at hn
      cases hw : decode f w <;> simp [hw, V.isNaN] at hn
      cases decode f c <;> rfl
    rw [this]; simp [isNaN_nanBits f h]
  · simp only [hn, Bool.false_eq_true, if_false]
    have := mul_neg_right f h c w
    unfold negN at this
    exact this

end FAVerif.SoftRound
