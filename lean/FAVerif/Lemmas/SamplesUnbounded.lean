/-
Helper lemmas for C19, part 4: the branch without user bounds.
-/
import FAVerif.Lemmas.SamplesStraddle
namespace FAVerif.Samples

/-! ### the branch without user bounds -/

theorem userBounds_false (p : Params) (h : p.userBounds = false) : p.minValue = none ∧ p.maxValue = none := by
  unfold Params.userBounds at h
  cases h1 : p.minValue <;> cases h2 : p.maxValue <;> simp_all

theorem maxFin_facts (c : Cfg) (hwf : c.WF) (p : Params) :
    c.mn + 1 ≤ c.maxFin ∧ c.maxFin < c.inf ∧ fl c p c.maxFin = c.maxFin := by
  have := hwf.mn_inf; have := hwf.inf_sb; have := hwf.mn_pos
  unfold Cfg.maxFin
  refine ⟨by omega, by omega, ?_⟩
  rw [fl_eq_self_iff]; right
  have h1 : c.inf - 1 < c.sb := by omega
  simp [isSubnormal, mag, h1]; omega

theorem resolve_unbounded (c : Cfg) (hwf : c.WF) (p : Params) (hub : p.userBounds = false) :
    resolveBounds c p = (minPos c p, c.maxFin) := by
  obtain ⟨e1, e2⟩ := userBounds_false p hub
  obtain ⟨m1, m2, m3, _, _⟩ := minPos_facts c hwf p
  obtain ⟨f1, f2, f3⟩ := maxFin_facts c hwf p
  have := hwf.mn_inf; have := hwf.inf_sb
  have hi' : c.inf < c.sb := by omega
  have d1 : defaultMin c p = minPos c p := by unfold defaultMin; rw [e1, e2]
  have hf : flt c (minPos c p) 0 = false :=
    flt_false_of_le c (by rw [skey_zero c hwf, skey_pos' c hi' (by omega)]; omega)
  have d2 : defaultMax c p (minPos c p) = c.maxFin := by unfold defaultMax; rw [e2]; simp [hf]
  unfold resolveBounds
  rw [d1, d2, adjustLo_of_fl c hwf p _ (by omega) m3, adjustHi_of_fl c hwf p _ (by omega) f3]

theorem rsF_unbounded (c : Cfg) (hwf : c.WF) (k : Nat) (p : Params) (hub : p.userBounds = false) :
    realSamplesF c (k + 1) p = unbounded c p (minPos c p) c.maxFin := by
  obtain ⟨m1, m2, _, _, _⟩ := minPos_facts c hwf p
  obtain ⟨f1, f2, _⟩ := maxFin_facts c hwf p
  have := hwf.inf_sb
  have hi' : c.inf < c.sb := by omega
  have kl := skey_pos' c hi' (by omega : minPos c p ≤ c.inf)
  have kh := skey_pos' c hi' (by omega : c.maxFin ≤ c.inf)
  have e1 : feq c (minPos c p) c.maxFin = false := feq_false_of_ne c (by rw [kl, kh]; omega)
  have e2 : fle c c.maxFin (minPos c p) = false := fle_false_of_lt c (by rw [kl, kh]; omega)
  simp only [realSamplesF, resolve_unbounded c hwf p hub, e1, e2, hub, Bool.false_eq_true, if_false, if_true, Bool.not_false]

/-- the unbounded branch before `unique` -/
def unboundedPre (c : Cfg) (p : Params) : List Nat :=
  let fp := patchTop p (numOf c p) c.maxFin (steps (minPos c p) (c.maxFin - minPos c p) (numOf c p).toNat)
  (if !p.nonnegative then fp.reverse.map (negB c) else []) ++ fp ++ extras c p

theorem unbounded_eq (c : Cfg) (hwf : c.WF) (p : Params) (hn : 2 ≤ numOf c p) :
    unbounded c p (minPos c p) c.maxFin = .ok (if p.unique then uniq c (unboundedPre c p) else unboundedPre c p) := by
  obtain ⟨m1, m2, _, _, _⟩ := minPos_facts c hwf p
  obtain ⟨f1, f2, _⟩ := maxFin_facts c hwf p
  have := hwf.inf_sb
  have hm : c.modulus = 2 * c.sb := rfl
  unfold unbounded
  rw [wrapSub_eq c (by omega) (by omega), stepVals_ok c _ _ _ hn (by omega)]
  simp only []
  have hne : (steps (minPos c p) (c.maxFin - minPos c p) (numOf c p).toNat).isEmpty = false := by
    rw [List.isEmpty_eq_false_iff_exists_mem]
    exact ⟨_, first_mem_steps _ _ _ (by omega)⟩
  rw [hne]
  rfl

theorem unbounded_err (c : Cfg) (p : Params) (lo hi : Nat) (hn : numOf c p < 2) :
    unbounded c p lo hi = .error (if numOf c p = 1 then .zeroDivision else .index) := by
  unfold unbounded stepVals
  by_cases h1 : numOf c p = 1
  · rw [if_neg (by omega), if_pos h1, if_pos h1]
  · rw [if_pos (by omega), if_neg h1]; rfl

theorem mem_patchTop (p : Params) (num : Int) (hi : Nat) (fp : List Nat) {x : Nat} (h : x ∈ patchTop p num hi fp) :
    x ∈ fp ∨ x = hi ∨ x = hi - 1 := by
  unfold patchTop at h
  split at h
  · rcases List.mem_or_eq_of_mem_set h with h | h
    · rcases List.mem_or_eq_of_mem_set h with h | h
      · exact Or.inl h
      · exact Or.inr (Or.inl h)
    · exact Or.inr (Or.inr h)
  · rcases List.mem_or_eq_of_mem_set h with h | h
    · exact Or.inl h
    · exact Or.inr (Or.inl h)

theorem patchTop_length (p : Params) (num : Int) (hi : Nat) (fp : List Nat) : (patchTop p num hi fp).length = fp.length := by
  unfold patchTop; split <;> simp

/-- first element survives (length ≥ 2, and ≥ 3 when huge is patched in), last element is `hi`,
    the one before is `hi - 1` when huge is patched in -/
theorem patchTop_get (p : Params) (num : Int) (hi : Nat) (fp : List Nat) (h2 : 2 ≤ fp.length)
    (h4 : 3 < num → 4 ≤ fp.length) :
    (patchTop p num hi fp)[0]'(by rw [patchTop_length]; omega) = fp[0] ∧
    (patchTop p num hi fp)[fp.length - 1]'(by rw [patchTop_length]; omega) = hi ∧
    (p.includeHuge = true → 3 < num → (patchTop p num hi fp)[fp.length - 2]'(by rw [patchTop_length]; omega) = hi - 1) := by
  unfold patchTop
  by_cases hc : (p.includeHuge && decide (3 < num)) = true
  · simp only [hc, if_true]
    have h3 : 3 < num := by simp at hc; exact hc.2
    have := h4 h3
    refine ⟨?_, ?_, ?_⟩
    · rw [List.getElem_set_ne (by simp; omega), List.getElem_set_ne (by omega)]
    · rw [List.getElem_set_ne (by simp; omega), List.getElem_set_self]
    · intro _ _; simp
  · simp only [hc, Bool.false_eq_true, if_false]
    refine ⟨?_, ?_, ?_⟩
    · rw [List.getElem_set_ne (by omega)]
    · rw [List.getElem_set_self]
    · intro g1 g2; simp [g1, g2] at hc


theorem eq_of_skey_eq_pos' (c : Cfg) (_h : c.inf < c.sb) {x y : Nat} (hx0 : 0 < x) (hx : x ≤ c.inf) (hk : skey c y = skey c x) : y = x := by
  rcases skey_cases c x with ⟨_, _, _, ex⟩ | ⟨_, _, _, ex⟩ | ⟨_, _, _, ex⟩ | ⟨_, _, _, ex⟩ <;>
  rcases skey_cases c y with ⟨_, _, _, ey⟩ | ⟨_, _, _, ey⟩ | ⟨_, _, _, ey⟩ | ⟨_, _, _, ey⟩ <;> omega

theorem eq_of_skey_eq_neg' (c : Cfg) (_h : c.inf < c.sb) {x y : Nat} (hx0 : c.sb < x) (hx : x ≤ c.sb + c.inf)
    (hk : skey c y = skey c x) : y = x := by
  rcases skey_cases c x with ⟨_, _, _, ex⟩ | ⟨_, _, _, ex⟩ | ⟨_, _, _, ex⟩ | ⟨_, _, _, ex⟩ <;>
  rcases skey_cases c y with ⟨_, _, _, ey⟩ | ⟨_, _, _, ey⟩ | ⟨_, _, _, ey⟩ | ⟨_, _, _, ey⟩ <;> omega

/-- a nonzero non-NaN element of the list survives `numpy.unique` as itself -/
theorem mem_uniq_of_mem (c : Cfg) (hwf : c.WF) (u : Bool) (l : List Nat) {x : Nat} (hx : x ∈ l)
    (hfin : (0 < x ∧ x ≤ c.inf) ∨ (c.sb < x ∧ x ≤ c.sb + c.inf)) : x ∈ (if u then uniq c l else l) := by
  have hi' : c.inf < c.sb := by have := hwf.inf_sb; omega
  cases u with
  | false => exact hx
  | true =>
    obtain ⟨z, hz, hk⟩ := uniq_key c x l hx
    rcases hfin with ⟨h1, h2⟩ | ⟨h1, h2⟩
    · rw [eq_of_skey_eq_pos' c hi' h1 h2 hk] at hz; exact hz
    · rw [eq_of_skey_eq_neg' c hi' h1 h2 hk] at hz; exact hz

theorem mem_result_sub (c : Cfg) (u : Bool) (l : List Nat) {x : Nat} (hx : x ∈ (if u then uniq c l else l)) : x ∈ l := by
  cases u with
  | false => exact hx
  | true => exact mem_uniq c x l hx

theorem key_mem_result (c : Cfg) (u : Bool) (l : List Nat) {x : Nat} (hx : x ∈ l) :
    ∃ y ∈ (if u then uniq c l else l), skey c y = skey c x := by
  cases u with
  | false => exact ⟨x, hx, rfl⟩
  | true => exact uniq_key c x l hx

/-- `finite_positive` of the unbounded branch -/
def unboundedFp (c : Cfg) (p : Params) : List Nat :=
  patchTop p (numOf c p) c.maxFin (steps (minPos c p) (c.maxFin - minPos c p) (numOf c p).toNat)

theorem unboundedPre_eq (c : Cfg) (p : Params) :
    unboundedPre c p = (if !p.nonnegative then (unboundedFp c p).reverse.map (negB c) else []) ++ unboundedFp c p ++ extras c p := rfl

theorem unboundedFp_facts (c : Cfg) (hwf : c.WF) (p : Params) (hn : 2 ≤ numOf c p) :
    (∀ x ∈ unboundedFp c p, minPos c p ≤ x ∧ x ≤ c.maxFin) ∧ minPos c p ∈ unboundedFp c p ∧ c.maxFin ∈ unboundedFp c p ∧
    (p.includeHuge = true → 3 < numOf c p → c.maxFin - 1 ∈ unboundedFp c p) := by
  obtain ⟨m1, m2, _, _, _⟩ := minPos_facts c hwf p
  obtain ⟨f1, f2, _⟩ := maxFin_facts c hwf p
  have hn' : 2 ≤ (numOf c p).toNat := by omega
  have hlen := steps_length (minPos c p) (c.maxFin - minPos c p) (numOf c p).toNat
  have hg := patchTop_get p (numOf c p) c.maxFin (steps (minPos c p) (c.maxFin - minPos c p) (numOf c p).toNat)
    (by rw [hlen]; exact hn') (by intro h; rw [hlen]; omega)
  refine ⟨?_, ?_, ?_, ?_⟩
  · intro x hx
    rcases mem_patchTop _ _ _ _ hx with h | h | h
    · have := mem_steps _ _ _ hn' h; omega
    · omega
    · omega
  · have h0 : (steps (minPos c p) (c.maxFin - minPos c p) (numOf c p).toNat)[0]'(by rw [hlen]; omega) = minPos c p := by
      simp [steps, seqAt_zero]
    exact List.mem_iff_getElem.2 ⟨_, _, hg.1.trans h0⟩
  · exact List.mem_iff_getElem.2 ⟨_, _, hg.2.1⟩
  · intro g1 g2
    exact List.mem_iff_getElem.2 ⟨_, _, hg.2.2 g1 g2⟩

theorem negB_facts (c : Cfg) {y : Nat} (hy : y < c.sb) : negB c y = c.sb + y ∧ mag c (negB c y) = y := by
  unfold negB mag
  rw [if_pos hy, if_neg (by omega)]
  omega

theorem extras_facts (c : Cfg) (p : Params) {x : Nat} (h : x ∈ extras c p) :
    (x = negB c c.inf ∧ p.nonnegative = false ∧ p.includeInfinity = true) ∨ (x = 0 ∧ p.includeZero = true) ∨
    (x = c.inf ∧ p.includeInfinity = true) ∨ (x = c.qnan ∧ p.includeNan = true) := by
  unfold extras at h
  simp only [List.mem_append] at h
  rcases h with ((h | h) | h) | h
  · split at h
    · rename_i hc; simp at h hc; exact Or.inl ⟨h, hc.1, hc.2⟩
    · simp at h
  · split at h
    · simp at h; exact Or.inr (Or.inl ⟨h, by assumption⟩)
    · simp at h
  · split at h
    · simp at h; exact Or.inr (Or.inr (Or.inl ⟨h, by assumption⟩))
    · simp at h
  · split at h
    · simp at h; exact Or.inr (Or.inr (Or.inr ⟨h, by assumption⟩))
    · simp at h

/-- The branch without user bounds, `num ≥ 2`: the call succeeds; every sample is a requested special
value or a finite value with `min_pos ≤ |x| ≤ max` (non-negative when `nonnegative`); `±max`, `±min_pos`,
every requested special value and (for `num > 3`) `±huge` are present. -/
theorem unbounded_spec (c : Cfg) (hwf : c.WF) (k : Nat) (p : Params) (hub : p.userBounds = false) (hn : 2 ≤ numOf c p) :
    ∃ L, realSamplesF c (k + 1) p = .ok L ∧
      (∀ x ∈ L, x ∈ extras c p ∨ (minPos c p ≤ mag c x ∧ mag c x ≤ c.maxFin ∧ (p.nonnegative = true → x < c.sb))) ∧
      (c.maxFin ∈ L ∧ minPos c p ∈ L) ∧
      (p.nonnegative = false → negB c c.maxFin ∈ L ∧ negB c (minPos c p) ∈ L) ∧
      (∀ e ∈ extras c p, ∃ y ∈ L, skey c y = skey c e) ∧
      (p.includeHuge = true → 3 < numOf c p →
        c.maxFin - 1 ∈ L ∧ (p.nonnegative = false → negB c (c.maxFin - 1) ∈ L)) ∧
      (p.unique = true → StrictSorted c L) := by
  obtain ⟨m1, m2, _, _, _⟩ := minPos_facts c hwf p
  obtain ⟨f1, f2, _⟩ := maxFin_facts c hwf p
  have := hwf.inf_sb; have := hwf.mn_pos
  have hi' : c.inf < c.sb := by omega
  obtain ⟨a1, a2, a3, a4⟩ := unboundedFp_facts c hwf p hn
  rw [rsF_unbounded c hwf k p hub, unbounded_eq c hwf p hn]
  refine ⟨_, rfl, ?_, ?_, ?_, ?_, ?_, ?_⟩
  · intro x hx
    have hx := mem_result_sub c _ _ hx
    rw [unboundedPre_eq] at hx
    rcases List.mem_append.1 hx with hx | hx
    · rcases List.mem_append.1 hx with hx | hx
      · right
        split at hx
        · rename_i hnn
          obtain ⟨y, hy, rfl⟩ := List.mem_map.1 hx
          have := a1 y (List.mem_reverse.1 hy)
          obtain ⟨_, e2⟩ := negB_facts c (by omega : y < c.sb)
          rw [e2]
          exact ⟨this.1, this.2, fun hnn' => by rw [hnn'] at hnn; simp at hnn⟩
        · simp at hx
      · right
        have := a1 x hx
        have hm : mag c x = x := by unfold mag; rw [if_pos (by omega)]
        rw [hm]; exact ⟨this.1, this.2, fun _ => by omega⟩
    · left; exact hx
  · have hmem : ∀ x ∈ unboundedFp c p, x ∈ unboundedPre c p := fun x hx => by
      rw [unboundedPre_eq]; exact List.mem_append_left _ (List.mem_append_right _ hx)
    exact ⟨mem_uniq_of_mem c hwf _ _ (hmem _ a3) (Or.inl ⟨by omega, by omega⟩),
      mem_uniq_of_mem c hwf _ _ (hmem _ a2) (Or.inl ⟨by omega, by omega⟩)⟩
  · intro hnn
    have hmem : ∀ x ∈ unboundedFp c p, negB c x ∈ unboundedPre c p := fun x hx => by
      rw [unboundedPre_eq]
      refine List.mem_append_left _ (List.mem_append_left _ ?_)
      rw [hnn]; simp only [Bool.not_false, if_true]
      exact List.mem_map.2 ⟨x, List.mem_reverse.2 hx, rfl⟩
    obtain ⟨e1, _⟩ := negB_facts c (by omega : c.maxFin < c.sb)
    obtain ⟨e2, _⟩ := negB_facts c (by omega : minPos c p < c.sb)
    exact ⟨mem_uniq_of_mem c hwf _ _ (hmem _ a3) (Or.inr ⟨by omega, by omega⟩),
      mem_uniq_of_mem c hwf _ _ (hmem _ a2) (Or.inr ⟨by omega, by omega⟩)⟩
  · intro e he
    exact key_mem_result c _ _ (by rw [unboundedPre_eq]; exact List.mem_append_right _ he)
  · intro g1 g2
    have a4 := a4 g1 g2
    refine ⟨mem_uniq_of_mem c hwf _ _ (by rw [unboundedPre_eq]; exact List.mem_append_left _ (List.mem_append_right _ a4))
      (Or.inl ⟨by omega, by omega⟩), ?_⟩
    intro hnn
    obtain ⟨e1, _⟩ := negB_facts c (by omega : c.maxFin - 1 < c.sb)
    refine mem_uniq_of_mem c hwf _ _ ?_ (Or.inr ⟨by omega, by omega⟩)
    rw [unboundedPre_eq]
    refine List.mem_append_left _ (List.mem_append_left _ ?_)
    rw [hnn]; simp only [Bool.not_false, if_true]
    exact List.mem_map.2 ⟨_, List.mem_reverse.2 a4, rfl⟩
  · intro hu; rw [hu]; exact strict_uniq c _


end FAVerif.Samples
