/-
Transfer of the ℚ-level exactness theorems to BIT PATTERNS through the refinement theorem
(`Refine.refines`): Veltkamp's splitter and Dekker's product as computed by the softfloat.
-/
import FAVerif.Lemmas.Refine
import FAVerif.Lemmas.EFT

namespace FAVerif.Refine
open FAVerif.IR FAVerif.FP FAVerif.FPQ FAVerif.SoftRound

variable {f : Fmt}

lemma decode_bounds (f : Fmt) (hf : WF f) (b : Nat) (s : Bool) (m : Nat) (e : Int) (hd : decode f b = .fin s m e) :
    m < 2 ^ f.p ∧ f.emin ≤ e := by
  have hfb : f.fracBits + 1 = f.p := by simp [Fmt.fracBits]; have := hf.hp; omega
  have hpp : (2 : ℕ) ^ f.p = 2 * 2 ^ f.fracBits := by rw [← hfb, pow_succ]; ring
  have hmlt : (fields f b).m < 2 ^ f.fracBits := by
    unfold fields; exact Nat.mod_lt _ (by positivity)
  unfold decode at hd
  simp only at hd
  split_ifs at hd with h1 h2 h3
  · cases hd; exact ⟨by omega, le_refl _⟩
  · cases hd
    constructor
    · omega
    · have : 1 ≤ (fields f b).e := Nat.pos_of_ne_zero h3
      omega

lemma finite_of_decode (f : Fmt) (b : Nat) (s : Bool) (m : Nat) (e : Int) (hd : decode f b = .fin s m e) :
    isFiniteBits f b = true := by
  unfold isFiniteBits
  by_contra hc
  have he : (fields f b).e = f.expMax := by simpa using hc
  unfold decode at hd
  simp only [he, if_true] at hd
  split_ifs at hd

/-- `valQ s m e` as (signed integer)·2^e -/
lemma valQ_int (s : Bool) (m : Nat) (e : Int) : valQ s m e = ((if s then -(m : ℤ) else (m : ℤ) : ℤ) : ℚ) * 2 ^ e := by
  cases s <;> simp [valQ]

lemma insRel2 {x y : Nat} {qx qy : ℚ} (hx : isFiniteBits f x = true) (hy : isFiniteBits f y = true)
    (vx : toQ f x = some qx) (vy : toQ f y = some qy) : InsRel f [x, y] [qx, qy] := by
  refine ⟨rfl, ?_⟩
  intro i v hv
  match i with
  | 0 => simp at hv; subst hv; exact ⟨qx, rfl, rv_float_mk hx vx⟩
  | 1 => simp at hv; subst hv; exact ⟨qy, rfl, rv_float_mk hy vy⟩
  | (k + 2) => simp at hv

lemma insRel1 {x : Nat} {qx : ℚ} (hx : isFiniteBits f x = true) (vx : toQ f x = some qx) : InsRel f [x] [qx] := by
  refine ⟨rfl, ?_⟩
  intro i v hv
  match i with
  | 0 => simp at hv; subst hv; exact ⟨qx, rfl, rv_float_mk hx vx⟩
  | (k + 1) => simp at hv

lemma mapM_length {g : Nat → Option Nat} : ∀ (l : List Nat) (r : List Nat), l.mapM g = some r → l.length = r.length := by
  intro l
  induction l with
  | nil => intro r h; simp at h; subst h; rfl
  | cons k ks ih =>
    intro r h
    simp only [List.mapM_cons, Option.bind_eq_bind] at h
    cases hk : g k with
    | none => simp [hk] at h
    | some w =>
      cases hr : ks.mapM g with
      | none => simp [hk, hr] at h
      | some r0 =>
        simp [hk, hr] at h
        subst h
        simp [ih r0 hr]

/-- two float outputs: the patterns denote the rationals the ℚ-run returns -/
theorem transfer2' (p : Prog) (hf : WF p.fmt) (kinds : List Bool) (hk : kindsOf p.nodes [] = some kinds)
    (hko : ∀ o ∈ p.outs, kinds[o]? = some false)
    (lib : Libm) (ins : List Nat) (insQ : List ℚ) (hins : InsRel p.fmt ins insQ) (env : Array Nat)
    (he : evalNodes p.fmt lib ins p.nodes #[] = some env)
    (hfin : ∀ (i : Nat) (v : Nat), env[i]? = some v → kinds[i]? = some false → isFiniteBits p.fmt v = true)
    (h l : Nat) (ho : p.eval lib ins = some [h, l]) (a b : ℚ) (hq : p.evalQ (rne (qf p.fmt hf.hp)) insQ = some [a, b]) :
    toQ p.fmt h = some a ∧ toQ p.fmt l = some b := by
  obtain ⟨qs, h1, h2⟩ := refines p hf kinds hk lib ins insQ hins env he hfin [h, l] ho
  rw [hq] at h1; cases h1
  have hlen : p.outs.length = 2 := by
    unfold Prog.eval at ho
    simp only [he, Option.bind_eq_bind, Option.bind_some] at ho
    have := mapM_length p.outs [h, l] ho
    simpa using this
  match hpo : p.outs, hlen with
  | [o1, o2], _ =>
    rw [hpo] at h2 hko
    simp only [List.zip_cons_cons, List.zip_nil_right] at h2
    cases h2 with
    | cons r1 rest =>
      cases rest with
      | cons r2 _ =>
        obtain ⟨k1, hk1, rv1⟩ := r1
        obtain ⟨k2, hk2, rv2⟩ := r2
        rw [hko o1 (by simp)] at hk1; rw [hko o2 (by simp)] at hk2
        cases hk1; cases hk2
        exact ⟨(rv_float rv1).2, (rv_float rv2).2⟩

theorem transfer2 (p : Prog) (hf : WF p.fmt) (kinds : List Bool) (hk : kindsOf p.nodes [] = some kinds)
    (hallf : ∀ (i : Nat) (k : Bool), kinds[i]? = some k → k = false)
    (lib : Libm) (ins : List Nat) (insQ : List ℚ) (hins : InsRel p.fmt ins insQ) (env : Array Nat)
    (he : evalNodes p.fmt lib ins p.nodes #[] = some env)
    (hfin : ∀ (i : Nat) (v : Nat), env[i]? = some v → isFiniteBits p.fmt v = true)
    (h l : Nat) (ho : p.eval lib ins = some [h, l]) (a b : ℚ) (hq : p.evalQ (rne (qf p.fmt hf.hp)) insQ = some [a, b]) :
    toQ p.fmt h = some a ∧ toQ p.fmt l = some b := by
  obtain ⟨qs, h1, h2⟩ := refines p hf kinds hk lib ins insQ hins env he (fun i v hv _ => hfin i v hv) [h, l] ho
  rw [hq] at h1; cases h1
  have hlen : p.outs.length = 2 := by
    unfold Prog.eval at ho
    simp only [he, Option.bind_eq_bind, Option.bind_some] at ho
    have := mapM_length p.outs [h, l] ho
    simpa using this
  match hpo : p.outs, hlen with
  | [o1, o2], _ =>
    rw [hpo] at h2
    simp only [List.zip_cons_cons, List.zip_nil_right] at h2
    cases h2 with
    | cons r1 rest =>
      cases rest with
      | cons r2 _ =>
        obtain ⟨k1, hk1, rv1⟩ := r1
        obtain ⟨k2, hk2, rv2⟩ := r2
        rw [hallf _ _ hk1] at rv1; rw [hallf _ _ hk2] at rv2
        exact ⟨(rv_float rv1).2, (rv_float rv2).2⟩

/-- one float output -/
theorem transfer1 (p : Prog) (hf : WF p.fmt) (kinds : List Bool) (hk : kindsOf p.nodes [] = some kinds)
    (lib : Libm) (ins : List Nat) (insQ : List ℚ) (hins : InsRel p.fmt ins insQ) (env : Array Nat)
    (he : evalNodes p.fmt lib ins p.nodes #[] = some env)
    (hfin : ∀ (i : Nat) (v : Nat), env[i]? = some v → kinds[i]? = some false → isFiniteBits p.fmt v = true)
    (o : Nat) (hpo : p.outs = [o]) (hko : kinds[o]? = some false)
    (h : Nat) (ho : p.eval lib ins = some [h]) (a : ℚ) (hq : p.evalQ (rne (qf p.fmt hf.hp)) insQ = some [a]) :
    isFiniteBits p.fmt h = true ∧ toQ p.fmt h = some a := by
  obtain ⟨qs, h1, h2⟩ := refines p hf kinds hk lib ins insQ hins env he hfin [h] ho
  rw [hq] at h1; cases h1
  rw [hpo] at h2
  simp only [List.zip_cons_cons, List.zip_nil_right] at h2
  cases h2 with
  | cons r1 _ =>
    obtain ⟨k1, hk1, rv1⟩ := r1
    rw [hko] at hk1; cases hk1
    exact rv_float rv1

/-- Dekker's product on bit patterns, generic form: a program `p` with all-float kinds whose ℚ-run on
normal operands is (RN(xy), xy − RN(xy)) for every round-to-nearest of the format's precision. -/
theorem dekker_bits_of (p : Prog) (hf : WF p.fmt) (kinds : List Bool) (hk : kindsOf p.nodes [] = some kinds)
    (hallf : ∀ (i : Nat) (k : Bool), kinds[i]? = some k → k = false)
    (hQ : ∀ (r : ℚ → ℚ) (kx ky ex ey : ℤ) (x y : ℚ), x = (kx : ℚ) * 2 ^ ex → y = (ky : ℚ) * 2 ^ ey →
      IsRN (qf p.fmt hf.hp) r → 2 ^ (p.fmt.p - 1) ≤ |kx| → |kx| < 2 ^ p.fmt.p → 2 ^ (p.fmt.p - 1) ≤ |ky| → |ky| < 2 ^ p.fmt.p →
      p.fmt.emin ≤ ex → p.fmt.emin ≤ ey → p.fmt.emin ≤ ex + ey → p.evalQ r [x, y] = some [r (x * y), x * y - r (x * y)])
    (lib : Libm) (x y : Nat) (sx sy : Bool) (mx my : Nat) (ex ey : Int)
    (dx : decode p.fmt x = .fin sx mx ex) (dy : decode p.fmt y = .fin sy my ey)
    (nx : 2 ^ (p.fmt.p - 1) ≤ mx) (ny : 2 ^ (p.fmt.p - 1) ≤ my) (hund : p.fmt.emin ≤ ex + ey)
    (env : Array Nat) (he : evalNodes p.fmt lib [x, y] p.nodes #[] = some env)
    (hfin : ∀ (i : Nat) (v : Nat), env[i]? = some v → isFiniteBits p.fmt v = true)
    (h l : Nat) (ho : p.eval lib [x, y] = some [h, l]) :
    ∃ qh ql : ℚ, toQ p.fmt h = some qh ∧ toQ p.fmt l = some ql ∧
      qh = rne (qf p.fmt hf.hp) (valQ sx mx ex * valQ sy my ey) ∧ qh + ql = valQ sx mx ex * valQ sy my ey := by
  obtain ⟨bx1, bx2⟩ := decode_bounds p.fmt hf x sx mx ex dx
  obtain ⟨by1, by2⟩ := decode_bounds p.fmt hf y sy my ey dy
  have hins := insRel2 (finite_of_decode _ _ _ _ _ dx) (finite_of_decode _ _ _ _ _ dy) (toQ_fin _ x sx mx ex dx) (toQ_fin _ y sy my ey dy)
  have habs : ∀ (s : Bool) (m : Nat), |(if s then -(m : ℤ) else (m : ℤ))| = (m : ℤ) := by
    intro s m; cases s <;> simp
  have hq := hQ (rne (qf p.fmt hf.hp)) (if sx then -(mx : ℤ) else mx) (if sy then -(my : ℤ) else my) ex ey _ _
    (valQ_int sx mx ex) (valQ_int sy my ey) (isRN_rne _)
    (by rw [habs]; exact_mod_cast nx) (by rw [habs]; exact_mod_cast bx1)
    (by rw [habs]; exact_mod_cast ny) (by rw [habs]; exact_mod_cast by1) bx2 by2 hund
  obtain ⟨t1, t2⟩ := transfer2 p hf kinds hk hallf lib [x, y] _ hins env he hfin h l ho _ _ hq
  exact ⟨_, _, t1, t2, rfl, by ring⟩


/-- Dekker's product on bit patterns for programs with boolean nodes (scaled / guarded variants): only the
float-kind nodes need to be finite -/
theorem dekker_bits_of' (p : Prog) (hf : WF p.fmt) (kinds : List Bool) (hk : kindsOf p.nodes [] = some kinds)
    (hko : ∀ o ∈ p.outs, kinds[o]? = some false)
    (hQ : ∀ (r : ℚ → ℚ) (kx ky ex ey : ℤ) (x y : ℚ), x = (kx : ℚ) * 2 ^ ex → y = (ky : ℚ) * 2 ^ ey →
      IsRN (qf p.fmt hf.hp) r → 2 ^ (p.fmt.p - 1) ≤ |kx| → |kx| < 2 ^ p.fmt.p → 2 ^ (p.fmt.p - 1) ≤ |ky| → |ky| < 2 ^ p.fmt.p →
      p.fmt.emin ≤ ex → p.fmt.emin ≤ ey → p.evalQ r [x, y] = some [r (x * y), x * y - r (x * y)])
    (lib : Libm) (x y : Nat) (sx sy : Bool) (mx my : Nat) (ex ey : Int)
    (dx : decode p.fmt x = .fin sx mx ex) (dy : decode p.fmt y = .fin sy my ey)
    (nx : 2 ^ (p.fmt.p - 1) ≤ mx) (ny : 2 ^ (p.fmt.p - 1) ≤ my)
    (env : Array Nat) (he : evalNodes p.fmt lib [x, y] p.nodes #[] = some env)
    (hfin : ∀ (i : Nat) (v : Nat), env[i]? = some v → kinds[i]? = some false → isFiniteBits p.fmt v = true)
    (h l : Nat) (ho : p.eval lib [x, y] = some [h, l]) :
    ∃ qh ql : ℚ, toQ p.fmt h = some qh ∧ toQ p.fmt l = some ql ∧
      qh = rne (qf p.fmt hf.hp) (valQ sx mx ex * valQ sy my ey) ∧ qh + ql = valQ sx mx ex * valQ sy my ey := by
  obtain ⟨bx1, bx2⟩ := decode_bounds p.fmt hf x sx mx ex dx
  obtain ⟨by1, by2⟩ := decode_bounds p.fmt hf y sy my ey dy
  have hins := insRel2 (finite_of_decode _ _ _ _ _ dx) (finite_of_decode _ _ _ _ _ dy) (toQ_fin _ x sx mx ex dx) (toQ_fin _ y sy my ey dy)
  have habs : ∀ (s : Bool) (m : Nat), |(if s then -(m : ℤ) else (m : ℤ))| = (m : ℤ) := by
    intro s m; cases s <;> simp
  have hq := hQ (rne (qf p.fmt hf.hp)) (if sx then -(mx : ℤ) else mx) (if sy then -(my : ℤ) else my) ex ey _ _
    (valQ_int sx mx ex) (valQ_int sy my ey) (isRN_rne _)
    (by rw [habs]; exact_mod_cast nx) (by rw [habs]; exact_mod_cast bx1)
    (by rw [habs]; exact_mod_cast ny) (by rw [habs]; exact_mod_cast by1) bx2 by2
  obtain ⟨t1, t2⟩ := transfer2' p hf kinds hk hko lib [x, y] _ hins env he hfin h l ho _ _ hq
  exact ⟨_, _, t1, t2, rfl, by ring⟩

end FAVerif.Refine
