/-
`hypot` on BIT PATTERNS: the refinement theorem with square roots (`refinesS`), the correct rounding of the softfloat's
square root (`ssoft_ok`) and the accuracy theorem over ℚ (`hypot_prog`) compose to a statement about the bit-exact run.
-/
import FAVerif.Lemmas.RefineS
import FAVerif.Lemmas.HypotProg
import FAVerif.Lemmas.SqrtExists

namespace FAVerif.Refine
open FAVerif.IR FAVerif.FP FAVerif.FPQ FAVerif.SoftRound FAVerif.Spec FAVerif.EFT

/-- kinds of the 25 nodes of the hypot program -/
def hypotKinds : List Bool :=
  [false, false, false, false, false, false, true, false, false, false, false, false, false, false, true, false, true, true,
   false, false, false, false, false, false, false]

/-- **hypot on bit patterns, generic form**: a program whose node list is the specification hypot program. -/
theorem hypot_bits_of (p : Prog) (hf : WF p.fmt) (hp : 8 ≤ p.fmt.p) (hem : p.fmt.emin + 2 * p.fmt.p + 2 ≤ 0)
    (s2b oneb zb twob : Nat) (σ2 : ℚ) (hn : p.nodes = hypotNodes s2b oneb zb twob) (hpo : p.outs = hypotOuts)
    (hk : kindsOfS p.nodes [] = some hypotKinds)
    (hC : (decode p.fmt s2b).toRat? = some σ2) (h1 : (decode p.fmt oneb).toRat? = some 1)
    (h0 : (decode p.fmt zb).toRat? = some 0) (h2 : (decode p.fmt twob).toRat? = some 2)
    (hσ0 : 0 ≤ σ2) (hσlo : (1 - uro (qf p.fmt hf.hp)) ^ 2 * 2 ≤ σ2 ^ 2) (hσhi : σ2 ^ 2 ≤ (1 + uro (qf p.fmt hf.hp)) ^ 2 * 2)
    (lib : Libm) (x y : Nat) (qx qy : ℚ) (hx : isFiniteBits p.fmt x = true) (hy : isFiniteBits p.fmt y = true)
    (vx : toQ p.fmt x = some qx) (vy : toQ p.fmt y = some qy)
    (hmx : 2 ^ (p.fmt.emin + (p.fmt.p : ℤ)) ≤ max |qx| |qy|)
    (env : Array Nat) (he : evalNodes p.fmt lib [x, y] p.nodes #[] = some env)
    (hfin : ∀ (i : Nat) (v : Nat), env[i]? = some v → hypotKinds[i]? = some false → isFiniteBits p.fmt v = true)
    (o : Nat) (ho : p.eval lib [x, y] = some [o]) :
    ∃ H : ℚ, isFiniteBits p.fmt o = true ∧ toQ p.fmt o = some H ∧ 0 ≤ H ∧
      (1 - uro (qf p.fmt hf.hp)) ^ 7 * (qx ^ 2 + qy ^ 2) ≤ H ^ 2 ∧ H ^ 2 ≤ (1 + uro (qf p.fmt hf.hp)) ^ 7 * (qx ^ 2 + qy ^ 2) := by
  obtain ⟨S0, hS0⟩ := sqrtOK_exists (qf p.fmt hf.hp) (by have := hf.hp; show 1 ≤ p.fmt.p; omega)
  have hS := ssoft_ok hf hem S0 hS0
  obtain ⟨qs, hq, hall⟩ := refinesS p hf S0 hypotKinds hk lib [x, y] [qx, qy] (insRel2 hx hy vx vy) env he hfin [o] ho
  obtain ⟨H, hH, hH0, hlo, hhi⟩ := hypot_prog (isRN_rne (qf p.fmt hf.hp)) hS hp hem p.fmt s2b oneb zb twob σ2 hC h1 h0 h2 hσ0 hσlo hσhi qx qy hmx
  rw [hn, hpo] at hq
  rw [hH] at hq
  cases hq
  rw [hpo] at hall
  simp only [hypotOuts, List.zip_cons_cons, List.zip_nil_right] at hall
  cases hall with
  | cons r1 _ =>
    obtain ⟨k1, hk1, rv1⟩ := r1
    have : hypotKinds[24]? = some false := by decide
    rw [this] at hk1; cases hk1
    obtain ⟨a, b⟩ := rv_float rv1
    exact ⟨H, a, b, hH0, hlo, hhi⟩

end FAVerif.Refine
