/-
Veltkamp's splitter and Dekker's product over ℚ, generic in the precision p, in emin and in the
round-to-nearest function (ties arbitrary), overflow excluded (no upper exponent bound).

  g = RN(C·x), d = RN(g − x), xh = RN(g − d), xl = RN(x − xh)        (C = 2^s + 1)

as coded in `split_veltkamp`.  For every x = k·2^e with 2^(p-1) ≤ |k| < 2^p, e ≥ emin (every
normal number), 1 ≤ s < p:  xh + xl = x exactly, xh is a multiple of 2^(e+s) with |xh| ≤ 2^p·2^e
(p − s significant bits), xl is a multiple of 2^e with |xl| ≤ 2^(s-1)·2^e (s − 1 bits and a sign).
-/
import FAVerif.Lemmas.FPTheory
import Mathlib.Algebra.Order.Round
import Mathlib.Data.Int.Log

namespace FAVerif.FPQ

variable {f : QFmt} {r : ℚ → ℚ}

/-- every rational is within half a grid step of a grid point, and that point does not exceed a
bound that is itself on the grid -/
lemma exists_grid_near (g : ℤ) (z : ℚ) (N : ℕ) (hz : |z| ≤ N * 2 ^ g) :
    ∃ k : ℤ, |(k : ℚ) * 2 ^ g - z| ≤ 2 ^ g / 2 ∧ |k| ≤ N := by
  have hG := two_zpow_pos g
  refine ⟨round (z / 2 ^ g), ?_, ?_⟩
  · have h := abs_sub_round (z / 2 ^ g)
    have : (round (z / 2 ^ g) : ℚ) * 2 ^ g - z = -((z / 2 ^ g - round (z / 2 ^ g)) * 2 ^ g) := by
      field_simp; ring
    rw [this, abs_neg, abs_mul, abs_of_pos hG]
    calc |z / 2 ^ g - round (z / 2 ^ g)| * 2 ^ g ≤ 1 / 2 * 2 ^ g := mul_le_mul_of_nonneg_right h hG.le
      _ = 2 ^ g / 2 := by ring
  · have hq : |z / 2 ^ g| ≤ N := by
      rw [abs_div, abs_of_pos hG, div_le_iff₀ hG]; exact hz
    have h := abs_sub_round (z / 2 ^ g)
    have h1 : |(round (z / 2 ^ g) : ℚ)| ≤ N + 1 / 2 := by
      have := abs_sub_abs_le_abs_sub ((round (z / 2 ^ g) : ℤ) : ℚ) (z / 2 ^ g)
      rw [abs_sub_comm] at this
      linarith
    have h2 : ((|round (z / 2 ^ g)| : ℤ) : ℚ) ≤ N + 1 / 2 := by
      rw [Int.cast_abs]; exact h1
    by_contra hc
    push Not at hc
    have : (N : ℤ) + 1 ≤ |round (z / 2 ^ g)| := by omega
    have : ((N : ℚ) + 1) ≤ ((|round (z / 2 ^ g)| : ℤ) : ℚ) := by exact_mod_cast this
    linarith

variable (hr : IsRN f r)
include hr

/-- rounding error on a grid: |z| ≤ 2^p·2^g, g ≥ emin ⇒ |RN(z) − z| ≤ 2^g / 2 -/
lemma rn_err_grid {g : ℤ} (hg : f.emin ≤ g) {z : ℚ} (hz : |z| ≤ 2 ^ f.p * 2 ^ g) : |r z - z| ≤ 2 ^ g / 2 := by
  obtain ⟨k, hk1, hk2⟩ := exists_grid_near g z (2 ^ f.p) (by push_cast; exact hz)
  have hG := two_zpow_pos g
  have hrep : Rep f ((k : ℚ) * 2 ^ g) := by
    apply rep_of_mult_le hg ⟨k, rfl⟩
    rw [abs_mul, abs_of_pos hG]
    apply mul_le_mul_of_nonneg_right _ hG.le
    have : (|k| : ℤ) ≤ ((2 ^ f.p : ℕ) : ℤ) := hk2
    have : ((|k| : ℤ) : ℚ) ≤ (((2 ^ f.p : ℕ) : ℤ) : ℚ) := by exact_mod_cast this
    rw [Int.cast_abs] at this
    simpa using this
  exact le_trans (hr.near z _ hrep) hk1

/-- error on a grid for values on the 2^emin lattice, also when the grid is finer than 2^emin (then exact) -/
lemma rn_err_grid' {g : ℤ} {z : ℚ} (hz0 : Mult f.emin z) (hz : |z| ≤ 2 ^ f.p * 2 ^ g) : |r z - z| ≤ 2 ^ g / 2 := by
  by_cases hg : f.emin ≤ g
  · exact rn_err_grid hr hg hz
  · have hle : (2 : ℚ) ^ g ≤ 2 ^ f.emin := zpow_le_zpow_right₀ (by norm_num) (by omega)
    have : Rep f z := rep_of_mult_le (le_refl _) hz0
      (le_trans hz (mul_le_mul_of_nonneg_left hle (by positivity)))
    rw [rn_id hr this]
    simp only [sub_self, abs_zero]
    positivity

omit hr in
/-- representable: on the grid 2^j and on the lattice 2^emin, bounded by 2^p·2^j -/
lemma rep_of_two_grids {j : ℤ} {z : ℚ} (hz : Mult j z) (hz0 : Mult f.emin z) (hb : |z| ≤ 2 ^ f.p * 2 ^ j) : Rep f z := by
  by_cases hj : f.emin ≤ j
  · exact rep_of_mult_le hj hz hb
  · have hle : (2 : ℚ) ^ j ≤ 2 ^ f.emin := zpow_le_zpow_right₀ (by norm_num) (by omega)
    exact rep_of_mult_le (le_refl _) hz0 (le_trans hb (mul_le_mul_of_nonneg_left hle (by positivity)))

/-- the rounding of a large value on the 2^emin lattice is on the grid 2^j -/
lemma mult_of_rn_big {j : ℤ} {z : ℚ} (hz0 : Mult f.emin z) (hb : 2 ^ f.p * 2 ^ (j - 1) ≤ |z|) : Mult j (r z) := by
  by_cases hj : f.emin ≤ j - 1
  · have h1 := abs_rn_ge hr hj hb
    have := mult_succ_of_rep_ge (hr.rep _) h1
    simpa using this
  · exact Mult.mono (by omega) (mult_rn hr (le_refl _) hz0)

/-- **Veltkamp's splitter**, both codings at once: σ = 1 is `fpa.split_veltkamp` (g = RN(C x),
d = RN(g − x), xh = RN(g − d)); σ = −1 is the coding of `utils.split_veltkamp` and of the complex
algorithms (d = RN(x − g), xh = RN(g + d)); xl = RN(x − xh). -/
theorem veltkamp_gen (σ : ℚ) (hσ : σ = 1 ∨ σ = -1) {s : ℕ} (hs1 : 1 ≤ s) (hsp : s < f.p) {k e : ℤ}
    (hk1 : 2 ^ (f.p - 1) ≤ |k|) (hk2 : |k| < 2 ^ f.p) (hx0 : Mult f.emin ((k : ℚ) * 2 ^ e)) :
    let x : ℚ := (k : ℚ) * 2 ^ e
    let g := r ((2 ^ s + 1) * x)
    let d := r (σ * (g - x))
    let xh := r (g - σ * d)
    let xl := r (x - xh)
    xh + xl = x ∧ Mult (e + s) xh ∧ |xh| ≤ 2 ^ f.p * 2 ^ e ∧ Mult e xl ∧ |xl| ≤ 2 ^ (e + s) / 2 := by
  intro x g d xh xl
  have hσσ : σ * σ = 1 := by rcases hσ with h | h <;> rw [h] <;> norm_num
  have hσabs : |σ| = 1 := by rcases hσ with h | h <;> rw [h] <;> norm_num
  have hσM : ∀ {e' : ℤ} {z : ℚ}, Mult e' z → Mult e' (σ * z) := by
    intro e' z hz
    rcases hσ with h | h
    · rw [h, one_mul]; exact hz
    · rw [h, neg_one_mul]; exact hz.neg
  obtain ⟨n, hn⟩ : ∃ n : ℕ, f.p = n + 1 := ⟨f.p - 1, by have := f.hp; omega⟩
  have hue := two_zpow_pos e
  set u : ℚ := 2 ^ e with hu
  have hS : (2 : ℚ) ^ (e + (s : ℤ)) = 2 ^ s * u := by
    rw [zpow_add₀ (by norm_num : (2 : ℚ) ≠ 0), zpow_natCast]; ring
  have h2s : (1 : ℚ) ≤ 2 ^ s := one_le_pow₀ (by norm_num)
  have h2s2 : (2 : ℚ) ≤ 2 ^ s := by
    calc (2 : ℚ) = 2 ^ 1 := by norm_num
      _ ≤ 2 ^ s := pow_le_pow_right₀ (by norm_num) hs1
  have hP : (2 : ℚ) ^ f.p = 2 * 2 ^ n := by rw [hn, pow_succ]; ring
  have hn1 : f.p - 1 = n := by omega
  have hkq1 : (2 : ℚ) ^ n ≤ |(k : ℚ)| := by
    rw [hn1] at hk1; rw [← Int.cast_abs]; exact_mod_cast hk1
  have hkq2 : |(k : ℚ)| ≤ 2 * 2 ^ n - 1 := by
    have : |k| ≤ 2 ^ f.p - 1 := by omega
    have : ((|k| : ℤ) : ℚ) ≤ 2 ^ f.p - 1 := by exact_mod_cast this
    rw [Int.cast_abs, hP] at this; exact this
  have hsn : (2 : ℚ) ^ s ≤ 2 ^ n := pow_le_pow_right₀ (by norm_num) (by omega)
  have h2n : (0 : ℚ) < 2 ^ n := by positivity
  have hxabs : |x| = |(k : ℚ)| * u := by
    show |(k : ℚ) * 2 ^ e| = _
    rw [abs_mul, abs_of_pos hue]
  have hxM : Mult e x := ⟨k, rfl⟩
  have hCx0 : Mult f.emin ((2 ^ s + 1) * x) := by
    obtain ⟨k0, hk0⟩ := hx0
    exact ⟨(2 ^ s + 1) * k0, by show ((2 : ℚ) ^ s + 1) * ((k : ℚ) * 2 ^ e) = _; rw [hk0]; push_cast; ring⟩
  have hg0' : Mult f.emin g := mult_rn hr (le_refl _) hCx0
  have hv0 : Mult f.emin (σ * (g - x)) := hσM (hg0'.sub hx0)
  have hd0' : Mult f.emin d := mult_rn hr (le_refl _) hv0
  -- Step 1: g
  have hCx : |((2 : ℚ) ^ s + 1) * x| = (2 ^ s + 1) * |(k : ℚ)| * u := by
    rw [abs_mul, abs_of_pos (by positivity), hxabs]; ring
  have hCx_hi : |((2 : ℚ) ^ s + 1) * x| ≤ 2 ^ f.p * 2 ^ (e + (s : ℤ) + 1) := by
    rw [hCx, zpow_add₀ (by norm_num : (2 : ℚ) ≠ 0), hS, hP]
    have : (2 ^ s + 1) * |(k : ℚ)| ≤ (2 ^ s + 1) * (2 * 2 ^ n - 1) :=
      mul_le_mul_of_nonneg_left hkq2 (by positivity)
    have h3 : ((2 : ℚ) ^ s + 1) * (2 * 2 ^ n - 1) ≤ 2 * 2 ^ n * (2 ^ s * 2) := by nlinarith
    calc (2 ^ s + 1) * |(k : ℚ)| * u ≤ 2 * 2 ^ n * (2 ^ s * 2) * u :=
          mul_le_mul_of_nonneg_right (le_trans this h3) hue.le
      _ = 2 * 2 ^ n * (2 ^ s * u * 2 ^ (1 : ℤ)) := by norm_num; ring
  have he1 : |g - (2 ^ s + 1) * x| ≤ 2 ^ s * u := by
    have := rn_err_grid' hr (g := e + s + 1) hCx0 hCx_hi
    rw [zpow_add₀ (by norm_num : (2 : ℚ) ≠ 0), hS] at this
    calc |g - (2 ^ s + 1) * x| ≤ 2 ^ s * u * 2 ^ (1 : ℤ) / 2 := this
      _ = 2 ^ s * u := by norm_num
  have hCx_lo : 2 ^ f.p * 2 ^ (e + (s : ℤ) - 1) ≤ |((2 : ℚ) ^ s + 1) * x| := by
    have hS1 : (2 : ℚ) ^ (e + (s : ℤ) - 1) = 2 ^ s * u / 2 := by
      rw [zpow_sub₀ (by norm_num : (2 : ℚ) ≠ 0), hS]; norm_num
    rw [hCx, hS1, hP]
    have : (2 ^ s + 1) * (2 : ℚ) ^ n ≤ (2 ^ s + 1) * |(k : ℚ)| := mul_le_mul_of_nonneg_left hkq1 (by positivity)
    calc 2 * 2 ^ n * (2 ^ s * u / 2) = 2 ^ s * 2 ^ n * u := by ring
      _ ≤ (2 ^ s + 1) * 2 ^ n * u := by nlinarith
      _ ≤ (2 ^ s + 1) * |(k : ℚ)| * u := mul_le_mul_of_nonneg_right this hue.le
  have hgM : Mult (e + s) g := mult_of_rn_big hr hCx0 hCx_lo
  -- Step 2: d = RN(v), v = g − x
  have hv_eq : g - x = 2 ^ s * x + (g - (2 ^ s + 1) * x) := by ring
  have hv_hi : |g - x| ≤ 2 ^ f.p * 2 ^ (e + (s : ℤ)) := by
    rw [hv_eq, hS, hP]
    calc |2 ^ s * x + (g - (2 ^ s + 1) * x)| ≤ |2 ^ s * x| + |g - (2 ^ s + 1) * x| := abs_add_le _ _
      _ ≤ 2 ^ s * ((2 * 2 ^ n - 1) * u) + 2 ^ s * u := by
          rw [abs_mul, abs_of_pos (by positivity : (0 : ℚ) < 2 ^ s), hxabs]
          have : |(k : ℚ)| * u ≤ (2 * 2 ^ n - 1) * u := mul_le_mul_of_nonneg_right hkq2 hue.le
          have := mul_le_mul_of_nonneg_left this (by positivity : (0 : ℚ) ≤ 2 ^ s)
          linarith
      _ = 2 * 2 ^ n * (2 ^ s * u) := by ring
  have hσv : |σ * (g - x)| = |g - x| := by rw [abs_mul, hσabs, one_mul]
  have he2 : |d - σ * (g - x)| ≤ 2 ^ (e + (s : ℤ)) / 2 := rn_err_grid' hr (g := e + s) hv0 (by rw [hσv]; exact hv_hi)
  have hv_lo : 2 ^ f.p * 2 ^ (e + (s : ℤ) - 1) ≤ |g - x| := by
    have hS1 : (2 : ℚ) ^ (e + (s : ℤ) - 1) = 2 ^ s * u / 2 := by
      rw [zpow_sub₀ (by norm_num : (2 : ℚ) ≠ 0), hS]; norm_num
    rw [hS1, hP]
    have hgoal : 2 ^ s * 2 ^ n * u ≤ |g - x| → 2 * 2 ^ n * (2 ^ s * u / 2) ≤ |g - x| := by
      intro h; calc 2 * 2 ^ n * (2 ^ s * u / 2) = 2 ^ s * 2 ^ n * u := by ring
        _ ≤ |g - x| := h
    apply hgoal
    rcases eq_or_lt_of_le hk1 with heq | hlt
    · -- |k| = 2^n: C x is representable, g = C x
      have hkabs : |(k : ℚ)| = 2 ^ n := by
        have h0 := heq
        rw [hn1] at h0; rw [← Int.cast_abs, ← h0]; push_cast; rfl
      have hrepCx : Rep f ((2 ^ s + 1) * x) := by
        have hen : (2 : ℚ) ^ (e + (n : ℤ)) = 2 ^ n * u := by
          rw [zpow_add₀ (by norm_num : (2 : ℚ) ≠ 0), zpow_natCast]; ring
        have hMn : Mult (e + n) ((2 ^ s + 1) * x) := by
          have h0 := heq
          rw [hn1] at h0
          rcases abs_eq (by positivity : (0 : ℤ) ≤ 2 ^ n) |>.mp h0.symm with hk | hk
          · refine ⟨2 ^ s + 1, ?_⟩
            show ((2 : ℚ) ^ s + 1) * ((k : ℚ) * 2 ^ e) = _
            rw [hen, hk]; push_cast; ring
          · refine ⟨-(2 ^ s + 1), ?_⟩
            show ((2 : ℚ) ^ s + 1) * ((k : ℚ) * 2 ^ e) = _
            rw [hen, hk]; push_cast; ring
        apply rep_of_two_grids hMn hCx0
        rw [hCx, hkabs, hen, hP]
        have h1 : (2 : ℚ) ^ s + 1 ≤ 2 * 2 ^ n := by linarith
        calc (2 ^ s + 1) * 2 ^ n * u ≤ 2 * 2 ^ n * 2 ^ n * u := by
              apply mul_le_mul_of_nonneg_right _ hue.le
              exact mul_le_mul_of_nonneg_right h1 h2n.le
          _ = 2 * 2 ^ n * (2 ^ n * u) := by ring
      have hg : g = (2 ^ s + 1) * x := rn_id hr hrepCx
      have : g - x = 2 ^ s * x := by rw [hg]; ring
      rw [this, abs_mul, abs_of_pos (by positivity : (0 : ℚ) < 2 ^ s), hxabs, hkabs]; ring_nf; rfl
    · -- |k| ≥ 2^n + 1
      have hk3 : (2 : ℚ) ^ n + 1 ≤ |(k : ℚ)| := by
        rw [hn1] at hlt
        have : (2 : ℤ) ^ n + 1 ≤ |k| := by omega
        rw [← Int.cast_abs]; exact_mod_cast this
      rw [hv_eq]
      have h1 : |2 ^ s * x| - |g - (2 ^ s + 1) * x| ≤ |2 ^ s * x + (g - (2 ^ s + 1) * x)| := by
        have := abs_sub (2 ^ s * x + (g - (2 ^ s + 1) * x)) (g - (2 ^ s + 1) * x)
        rw [add_sub_cancel_right] at this
        linarith
      have h2 : 2 ^ s * ((2 ^ n + 1) * u) ≤ |2 ^ s * x| := by
        rw [abs_mul, abs_of_pos (by positivity : (0 : ℚ) < 2 ^ s), hxabs]
        exact mul_le_mul_of_nonneg_left (mul_le_mul_of_nonneg_right hk3 hue.le) (by positivity)
      nlinarith
  have hdM : Mult (e + s) d := mult_of_rn_big hr hv0 (by rw [hσv]; exact hv_lo)
  -- Step 3: xh = g − d = x − ε2 exactly
  have hgd : g - σ * d = x - σ * (d - σ * (g - x)) := by
    have : σ * (d - σ * (g - x)) = σ * d - (σ * σ) * (g - x) := by ring
    rw [this, hσσ]; ring
  have he2' : |σ * (d - σ * (g - x))| ≤ 2 ^ s * u / 2 := by rw [abs_mul, hσabs, one_mul, ← hS]; exact he2
  have hgdM : Mult (e + s) (g - σ * d) := hgM.sub (hσM hdM)
  have hgd_hi : |g - σ * d| ≤ 2 ^ f.p * u := by
    -- as a multiple of 2^s u below 2^p u + 2^s u
    obtain ⟨j, hj⟩ := hgdM
    rw [hS] at hj
    have hlt : |g - σ * d| < 2 ^ f.p * u + 2 ^ s * u := by
      rw [hgd]
      calc |x - σ * (d - σ * (g - x))| ≤ |x| + |σ * (d - σ * (g - x))| := abs_sub _ _
        _ ≤ (2 * 2 ^ n - 1) * u + 2 ^ s * u / 2 := by
            rw [hxabs]; exact add_le_add (mul_le_mul_of_nonneg_right hkq2 hue.le) he2'
        _ < 2 ^ f.p * u + 2 ^ s * u := by rw [hP]; nlinarith
    rw [hj, abs_mul, abs_of_pos (by positivity : (0 : ℚ) < 2 ^ s * u)] at hlt ⊢
    -- |j| 2^s u < 2^p u + 2^s u, 2^p = 2^(p-s) 2^s
    obtain ⟨t, ht⟩ : ∃ t : ℕ, f.p = t + s := ⟨f.p - s, by omega⟩
    have hPt : (2 : ℚ) ^ f.p = 2 ^ t * 2 ^ s := by rw [ht, pow_add]
    rw [hPt] at hlt ⊢
    have hsu : (0 : ℚ) < 2 ^ s * u := by positivity
    have : |(j : ℚ)| < 2 ^ t + 1 := by
      have : |(j : ℚ)| * (2 ^ s * u) < (2 ^ t + 1) * (2 ^ s * u) := by nlinarith
      exact lt_of_mul_lt_mul_right this hsu.le
    have hji : |j| < 2 ^ t + 1 := by
      rw [← Int.cast_abs] at this; exact_mod_cast this
    have hji2 : |j| ≤ 2 ^ t := by omega
    have : |(j : ℚ)| ≤ 2 ^ t := by rw [← Int.cast_abs]; exact_mod_cast hji2
    calc |(j : ℚ)| * (2 ^ s * u) ≤ 2 ^ t * (2 ^ s * u) := mul_le_mul_of_nonneg_right this hsu.le
      _ = 2 ^ t * 2 ^ s * u := by ring
  have hgd_rep : Rep f (g - σ * d) := by
    apply rep_of_two_grids hgdM (hg0'.sub (hσM hd0'))
    rw [hS]
    calc |g - σ * d| ≤ 2 ^ f.p * u := hgd_hi
      _ ≤ 2 ^ f.p * (2 ^ s * u) := by
          apply mul_le_mul_of_nonneg_left _ (by positivity)
          nlinarith
  have hxh : xh = g - σ * d := rn_id hr hgd_rep
  -- Step 4: xl = σ ε2
  have hxmh : x - xh = σ * (d - σ * (g - x)) := by rw [hxh, hgd]; ring
  have hε2M : Mult e (σ * (d - σ * (g - x))) := by
    have hg0 : Mult e g := Mult.mono (by omega) hgM
    have hd0 : Mult e d := Mult.mono (by omega) hdM
    exact hσM (hd0.sub (hσM (hg0.sub hxM)))
  have hε2_rep : Rep f (σ * (d - σ * (g - x))) := by
    apply rep_of_two_grids hε2M (hσM (hd0'.sub hv0))
    calc |σ * (d - σ * (g - x))| ≤ 2 ^ s * u / 2 := he2'
      _ ≤ 2 * 2 ^ n * u := by
          have h1 : (2 : ℚ) ^ s / 2 ≤ 2 * 2 ^ n := by linarith
          calc 2 ^ s * u / 2 = 2 ^ s / 2 * u := by ring
            _ ≤ 2 * 2 ^ n * u := mul_le_mul_of_nonneg_right h1 hue.le
      _ = 2 ^ f.p * u := by rw [hP]
  have hxl : xl = σ * (d - σ * (g - x)) := by
    show r (x - xh) = _
    rw [hxmh]; exact rn_id hr hε2_rep
  refine ⟨by rw [hxl, hxh, hgd]; ring, by rw [hxh]; exact hgdM, by rw [hxh]; exact hgd_hi, by rw [hxl]; exact hε2M, ?_⟩
  rw [hxl, hS]; exact he2'


/-- `fpa.split_veltkamp`: g = RN(C x), d = RN(g − x), xh = RN(g − d), xl = RN(x − xh). -/
theorem veltkamp {s : ℕ} (hs1 : 1 ≤ s) (hsp : s < f.p) {k e : ℤ} (hk1 : 2 ^ (f.p - 1) ≤ |k|) (hk2 : |k| < 2 ^ f.p)
    (he : f.emin ≤ e) :
    let x : ℚ := (k : ℚ) * 2 ^ e
    let g := r ((2 ^ s + 1) * x)
    let d := r (g - x)
    let xh := r (g - d)
    let xl := r (x - xh)
    xh + xl = x ∧ Mult (e + s) xh ∧ |xh| ≤ 2 ^ f.p * 2 ^ e ∧ Mult e xl ∧ |xl| ≤ 2 ^ (e + s) / 2 := by
  have hx0 : Mult f.emin ((k : ℚ) * 2 ^ e) := Mult.mono he ⟨k, rfl⟩
  have := veltkamp_gen hr 1 (Or.inl rfl) hs1 hsp hk1 hk2 hx0
  simpa only [one_mul] using this

/-- `utils.split_veltkamp` and the copies inside the complex algorithms: d = RN(x − g), xh = RN(g + d). -/
theorem veltkamp' {s : ℕ} (hs1 : 1 ≤ s) (hsp : s < f.p) {k e : ℤ} (hk1 : 2 ^ (f.p - 1) ≤ |k|) (hk2 : |k| < 2 ^ f.p)
    (he : f.emin ≤ e) :
    let x : ℚ := (k : ℚ) * 2 ^ e
    let g := r ((2 ^ s + 1) * x)
    let d := r (x - g)
    let xh := r (g + d)
    let xl := r (x - xh)
    xh + xl = x ∧ Mult (e + s) xh ∧ |xh| ≤ 2 ^ f.p * 2 ^ e ∧ Mult e xl ∧ |xl| ≤ 2 ^ (e + s) / 2 := by
  have hx0 : Mult f.emin ((k : ℚ) * 2 ^ e) := Mult.mono he ⟨k, rfl⟩
  have := veltkamp_gen hr (-1) (Or.inr rfl) hs1 hsp hk1 hk2 hx0
  simp only [neg_one_mul, neg_sub, sub_neg_eq_add] at this
  exact this

end FAVerif.FPQ

namespace FAVerif.FPQ

variable {f : QFmt} {r : ℚ → ℚ}

/-- every non-zero representable number has a normalised form k·2^e with 2^(p-1) ≤ |k| < 2^p (e may lie below
emin: subnormals), and lies on the 2^emin lattice -/
lemma rep_normalise {x : ℚ} (hx : Rep f x) (hx0 : x ≠ 0) :
    ∃ k e : ℤ, x = (k : ℚ) * 2 ^ e ∧ 2 ^ (f.p - 1) ≤ |k| ∧ |k| < 2 ^ f.p ∧ Mult f.emin x := by
  obtain ⟨m, e0, rfl, hm, he0⟩ := hx
  have h2e0 := two_zpow_pos e0
  have hm0 : m ≠ 0 := by rintro rfl; simp at hx0
  have hxpos : 0 < |(m : ℚ) * 2 ^ e0| := abs_pos.mpr hx0
  set L := Int.log 2 |(m : ℚ) * 2 ^ e0| with hL
  have h1 : (2 : ℚ) ^ L ≤ |(m : ℚ) * 2 ^ e0| := Int.zpow_log_le_self (by norm_num) hxpos
  have h2 : |(m : ℚ) * 2 ^ e0| < (2 : ℚ) ^ (L + 1) := Int.lt_zpow_succ_log_self (by norm_num) _
  have habs : |(m : ℚ) * 2 ^ e0| = |(m : ℚ)| * 2 ^ e0 := by rw [abs_mul, abs_of_pos h2e0]
  have hmq : |(m : ℚ)| < 2 ^ f.p := by rw [← Int.cast_abs]; exact_mod_cast hm
  -- L < p + e0
  have hLlt : L < f.p + e0 := by
    by_contra hc
    push Not at hc
    have : (2 : ℚ) ^ ((f.p : ℤ) + e0) ≤ 2 ^ L := zpow_le_zpow_right₀ (by norm_num) hc
    rw [zpow_add₀ (by norm_num : (2 : ℚ) ≠ 0), zpow_natCast] at this
    have : |(m : ℚ)| * 2 ^ e0 < 2 ^ f.p * 2 ^ e0 := mul_lt_mul_of_pos_right hmq h2e0
    rw [habs] at h1
    linarith
  obtain ⟨t, ht⟩ : ∃ t : ℕ, e0 = L - (f.p - 1) + t := ⟨(e0 - (L - (f.p - 1))).toNat, by omega⟩
  set e := L - ((f.p : ℤ) - 1) with he
  refine ⟨m * 2 ^ t, e, ?_, ?_, ?_, Mult.mono he0 ⟨m, rfl⟩⟩
  · rw [ht, zpow_add₀ (by norm_num : (2 : ℚ) ≠ 0), zpow_natCast]; push_cast; ring
  · -- 2^(p-1) ≤ |m| 2^t
    have hkq : |(m : ℚ)| * 2 ^ e0 = |((m * 2 ^ t : ℤ) : ℚ)| * 2 ^ e := by
      rw [ht, zpow_add₀ (by norm_num : (2 : ℚ) ≠ 0), zpow_natCast]; push_cast
      rw [abs_mul, abs_of_pos (by positivity : (0 : ℚ) < 2 ^ t)]; ring
    have h2e := two_zpow_pos e
    have hLe : (2 : ℚ) ^ L = 2 ^ (f.p - 1) * 2 ^ e := by
      have hp := f.hp
      rw [he, ← zpow_natCast, ← zpow_add₀ (by norm_num : (2 : ℚ) ≠ 0)]
      congr 1
      have : ((f.p - 1 : ℕ) : ℤ) = (f.p : ℤ) - 1 := by omega
      rw [this]; ring
    rw [habs, hkq, hLe] at h1
    have := le_of_mul_le_mul_right h1 h2e
    rw [← Int.cast_abs] at this
    exact_mod_cast this
  · have hkq : |(m : ℚ)| * 2 ^ e0 = |((m * 2 ^ t : ℤ) : ℚ)| * 2 ^ e := by
      rw [ht, zpow_add₀ (by norm_num : (2 : ℚ) ≠ 0), zpow_natCast]; push_cast
      rw [abs_mul, abs_of_pos (by positivity : (0 : ℚ) < 2 ^ t)]; ring
    have h2e := two_zpow_pos e
    have hLe : (2 : ℚ) ^ (L + 1) = 2 ^ f.p * 2 ^ e := by
      rw [he, ← zpow_natCast, ← zpow_add₀ (by norm_num : (2 : ℚ) ≠ 0)]
      congr 1; ring
    rw [habs, hkq, hLe] at h2
    have := lt_of_mul_lt_mul_right h2 h2e.le
    rw [← Int.cast_abs] at this
    exact_mod_cast this

variable (hr : IsRN f r)
include hr

/-- **Veltkamp's splitter on EVERY representable number** (normal, subnormal, zero; both codings):
xh + xl = x exactly, no overflow assumed (unbounded exponents above). -/
theorem veltkamp_all (σ : ℚ) (hσ : σ = 1 ∨ σ = -1) {s : ℕ} (hs1 : 1 ≤ s) (hsp : s < f.p) {x : ℚ} (hx : Rep f x) :
    let g := r ((2 ^ s + 1) * x)
    let d := r (σ * (g - x))
    let xh := r (g - σ * d)
    let xl := r (x - xh)
    xh + xl = x := by
  intro g d xh xl
  by_cases hx0 : x = 0
  · have r0 : r 0 = 0 := rn_id hr ⟨0, f.emin, by simp, by positivity, le_refl _⟩
    simp only [xl, xh, d, g, hx0, mul_zero, r0, sub_self, zero_sub, neg_zero, zero_add, add_zero]
  · obtain ⟨k, e, rfl, hk1, hk2, hM⟩ := rep_normalise hx hx0
    exact (veltkamp_gen hr σ hσ hs1 hsp hk1 hk2 hM).1

end FAVerif.FPQ

namespace FAVerif.FPQ

variable {f : QFmt} {r : ℚ → ℚ}

lemma Mult.mul {a b : ℤ} {x y : ℚ} (hx : Mult a x) (hy : Mult b y) : Mult (a + b) (x * y) := by
  obtain ⟨k, rfl⟩ := hx; obtain ⟨l, rfl⟩ := hy
  exact ⟨k * l, by rw [zpow_add₀ (by norm_num : (2 : ℚ) ≠ 0)]; push_cast; ring⟩

variable (hr : IsRN f r)
include hr

/-- **Dekker's product**, core: given splittings x = xh + xl, y = yh + yl with the grid and size
properties Veltkamp's splitter delivers, the five-operation accumulation of `mul_dw` is exact:
every partial product and every partial sum is representable, and h + l = x·y with h = RN(x·y). -/
theorem dekker_core {s : ℕ} (h2s : f.p ≤ 2 * s) (h2s2 : 2 * s ≤ f.p + 2) (hs2 : s + 2 ≤ f.p)
    {kx ky ex ey : ℤ} (hkx1 : 2 ^ (f.p - 1) ≤ |kx|) (hkx2 : |kx| < 2 ^ f.p) (hky1 : 2 ^ (f.p - 1) ≤ |ky|) (hky2 : |ky| < 2 ^ f.p)
    (he : f.emin ≤ ex + ey)
    {xh xl yh yl : ℚ}
    (hx : xh + xl = (kx : ℚ) * 2 ^ ex) (hxhM : Mult (ex + s) xh) (hxhB : |xh| ≤ 2 ^ f.p * 2 ^ ex)
    (hxlM : Mult ex xl) (hxlB : |xl| ≤ 2 ^ (ex + (s : ℤ)) / 2)
    (hy : yh + yl = (ky : ℚ) * 2 ^ ey) (hyhM : Mult (ey + s) yh) (hyhB : |yh| ≤ 2 ^ f.p * 2 ^ ey)
    (hylM : Mult ey yl) (hylB : |yl| ≤ 2 ^ (ey + (s : ℤ)) / 2) :
    let x : ℚ := (kx : ℚ) * 2 ^ ex
    let y : ℚ := (ky : ℚ) * 2 ^ ey
    let h := r (x * y)
    Rep f (xh * yh) ∧ Rep f (xh * yl) ∧ Rep f (xl * yh) ∧ Rep f (xl * yl) ∧
    Rep f (xh * yh - h) ∧ Rep f (xh * yh - h + xh * yl) ∧ Rep f (xh * yh - h + xl * yh) ∧
    Rep f (xh * yh - h + xh * yl + xl * yh) ∧ Rep f (x * y - h) ∧
    x * y = xh * yh + xh * yl + xl * yh + xl * yl := by
  intro x y h
  obtain ⟨n, hn⟩ : ∃ n : ℕ, f.p = n + 1 := ⟨f.p - 1, by have := f.hp; omega⟩
  have hn1 : f.p - 1 = n := by omega
  have hu := two_zpow_pos ex
  have hv := two_zpow_pos ey
  set u : ℚ := 2 ^ ex with hu_def
  set v : ℚ := 2 ^ ey with hv_def
  set Pw : ℚ := 2 ^ f.p with hPw
  set Sw : ℚ := 2 ^ s with hSw
  have hw : (2 : ℚ) ^ (ex + ey) = u * v := zpow_add₀ (by norm_num) _ _
  have hSwpos : 0 < Sw := by positivity
  have hPwpos : 0 < Pw := by positivity
  -- relations between the powers
  have hPS : Pw ≤ Sw * Sw := by
    rw [hPw, hSw, ← pow_add]; exact pow_le_pow_right₀ (by norm_num) (by omega)
  have hSP : Sw * Sw ≤ 4 * Pw := by
    rw [hPw, hSw, ← pow_add, show (4 : ℚ) = 2 ^ 2 by norm_num, ← pow_add]
    exact pow_le_pow_right₀ (by norm_num) (by omega)
  have hS4 : 4 * Sw ≤ Pw := by
    rw [hPw, hSw, show (4 : ℚ) = 2 ^ 2 by norm_num, ← pow_add]
    exact pow_le_pow_right₀ (by norm_num) (by omega)
  have hSge4 : 4 ≤ Sw := by
    rw [hSw, show (4 : ℚ) = 2 ^ 2 by norm_num]; exact pow_le_pow_right₀ (by norm_num) (by omega)
  have hP8 : 16 ≤ Pw := by linarith
  have hPSpos : 0 < Pw * Sw := by positivity
  have hPP : 16 * Pw ≤ Pw * Pw := by nlinarith
  have hPSw : 4 * (Pw * Sw) ≤ Pw * Pw := by nlinarith
  have h4P : 4 * Pw ≤ Pw * Sw := by nlinarith
  have c1 : Sw * Sw / 4 ≤ Pw := by linarith
  have c3 : Pw / 2 + Pw * Sw + Sw * Sw / 4 ≤ Pw * (Pw / 2) := by
    have : Pw * (Pw / 2) = Pw * Pw / 2 := by ring
    rw [this]; linarith
  have c4 : Pw / 2 + Pw * Sw / 2 + Sw * Sw / 4 ≤ Pw * Sw := by linarith
  have c5 : Pw / 2 + Sw * Sw / 4 ≤ Pw * Sw := by linarith
  have c6 : Pw * Pw ≤ Pw * (Sw * Sw) := mul_le_mul_of_nonneg_left hPS hPwpos.le
  have hPn : Pw = 2 * 2 ^ n := by rw [hPw, hn, pow_succ]; ring
  -- exponent bookkeeping
  have hxs : (2 : ℚ) ^ (ex + (s : ℤ)) = Sw * u := by
    rw [zpow_add₀ (by norm_num : (2 : ℚ) ≠ 0), zpow_natCast]; ring
  have hys : (2 : ℚ) ^ (ey + (s : ℤ)) = Sw * v := by
    rw [zpow_add₀ (by norm_num : (2 : ℚ) ≠ 0), zpow_natCast]; ring
  rw [hxs] at hxlB; rw [hys] at hylB
  have hws : (2 : ℚ) ^ (ex + ey + (s : ℤ)) = Sw * (u * v) := by
    rw [zpow_add₀ (by norm_num : (2 : ℚ) ≠ 0), zpow_natCast, hw]; ring
  have hw2s : (2 : ℚ) ^ (ex + ey + 2 * (s : ℤ)) = Sw * Sw * (u * v) := by
    rw [zpow_add₀ (by norm_num : (2 : ℚ) ≠ 0), hw, show (2 : ℤ) * (s : ℤ) = ((s + s : ℕ) : ℤ) by push_cast; ring,
      zpow_natCast, pow_add]; ring
  have hwp1 : (2 : ℚ) ^ (ex + ey + (n : ℤ)) = 2 ^ n * (u * v) := by
    rw [zpow_add₀ (by norm_num : (2 : ℚ) ≠ 0), zpow_natCast, hw]; ring
  have huv : 0 < u * v := by positivity
  -- the partial products are representable
  have hA_M : Mult (ex + ey + 2 * s) (xh * yh) := by
    have := hxhM.mul hyhM
    rwa [show ex + (s : ℤ) + (ey + s) = ex + ey + 2 * s by ring] at this
  have hA_B : |xh * yh| ≤ Pw * Pw * (u * v) := by
    rw [abs_mul]
    calc |xh| * |yh| ≤ (Pw * u) * (Pw * v) := mul_le_mul hxhB hyhB (abs_nonneg _) (by positivity)
      _ = Pw * Pw * (u * v) := by ring
  have hA_rep : Rep f (xh * yh) := by
    apply rep_of_mult_le (by omega) hA_M
    rw [hw2s]
    calc |xh * yh| ≤ Pw * Pw * (u * v) := hA_B
      _ ≤ Pw * (Sw * Sw) * (u * v) := mul_le_mul_of_nonneg_right c6 huv.le
      _ = Pw * (Sw * Sw * (u * v)) := by ring
  have hB_M : Mult (ex + ey + s) (xh * yl) := by
    have := hxhM.mul hylM
    rwa [show ex + (s : ℤ) + ey = ex + ey + s by ring] at this
  have hB_B : |xh * yl| ≤ Pw * Sw / 2 * (u * v) := by
    rw [abs_mul]
    calc |xh| * |yl| ≤ (Pw * u) * (Sw * v / 2) := mul_le_mul hxhB hylB (abs_nonneg _) (by positivity)
      _ = Pw * Sw / 2 * (u * v) := by ring
  have hB_rep : Rep f (xh * yl) := by
    apply rep_of_mult_le (by omega) hB_M
    rw [hws]
    calc |xh * yl| ≤ Pw * Sw / 2 * (u * v) := hB_B
      _ ≤ Pw * Sw * (u * v) := mul_le_mul_of_nonneg_right (by linarith) huv.le
      _ = Pw * (Sw * (u * v)) := by ring
  have hC_M : Mult (ex + ey + s) (xl * yh) := by
    have := hxlM.mul hyhM
    rwa [show ex + (ey + (s : ℤ)) = ex + ey + s by ring] at this
  have hC_B : |xl * yh| ≤ Pw * Sw / 2 * (u * v) := by
    rw [abs_mul]
    calc |xl| * |yh| ≤ (Sw * u / 2) * (Pw * v) := mul_le_mul hxlB hyhB (abs_nonneg _) (by positivity)
      _ = Pw * Sw / 2 * (u * v) := by ring
  have hC_rep : Rep f (xl * yh) := by
    apply rep_of_mult_le (by omega) hC_M
    rw [hws]
    calc |xl * yh| ≤ Pw * Sw / 2 * (u * v) := hC_B
      _ ≤ Pw * Sw * (u * v) := mul_le_mul_of_nonneg_right (by linarith) huv.le
      _ = Pw * (Sw * (u * v)) := by ring
  have hD_M : Mult (ex + ey) (xl * yl) := hxlM.mul hylM
  have hD_B : |xl * yl| ≤ Sw * Sw / 4 * (u * v) := by
    rw [abs_mul]
    calc |xl| * |yl| ≤ (Sw * u / 2) * (Sw * v / 2) := mul_le_mul hxlB hylB (abs_nonneg _) (by positivity)
      _ = Sw * Sw / 4 * (u * v) := by ring
  have hD_rep : Rep f (xl * yl) := by
    apply rep_of_mult_le he hD_M
    rw [hw]
    calc |xl * yl| ≤ Sw * Sw / 4 * (u * v) := hD_B
      _ ≤ Pw * (u * v) := mul_le_mul_of_nonneg_right c1 huv.le
  -- x·y and h
  have hxy_split : x * y = xh * yh + xh * yl + xl * yh + xl * yl := by
    show ((kx : ℚ) * 2 ^ ex) * ((ky : ℚ) * 2 ^ ey) = _
    rw [← hx, ← hy]; ring
  have hxyM : Mult (ex + ey) (x * y) := Mult.mul ⟨kx, rfl⟩ ⟨ky, rfl⟩
  have hkxq1 : (2 : ℚ) ^ n ≤ |(kx : ℚ)| := by
    rw [hn1] at hkx1; rw [← Int.cast_abs]; exact_mod_cast hkx1
  have hkyq1 : (2 : ℚ) ^ n ≤ |(ky : ℚ)| := by
    rw [hn1] at hky1; rw [← Int.cast_abs]; exact_mod_cast hky1
  have hkxq2 : |(kx : ℚ)| ≤ Pw := by
    have : ((|kx| : ℤ) : ℚ) ≤ 2 ^ f.p := by exact_mod_cast hkx2.le
    rwa [Int.cast_abs] at this
  have hkyq2 : |(ky : ℚ)| ≤ Pw := by
    have : ((|ky| : ℤ) : ℚ) ≤ 2 ^ f.p := by exact_mod_cast hky2.le
    rwa [Int.cast_abs] at this
  have hxyabs : |x * y| = |(kx : ℚ)| * |(ky : ℚ)| * (u * v) := by
    show |((kx : ℚ) * 2 ^ ex) * ((ky : ℚ) * 2 ^ ey)| = _
    rw [abs_mul, abs_mul, abs_mul, abs_of_pos hu, abs_of_pos hv]; ring
  have h2n : (0 : ℚ) < 2 ^ n := by positivity
  have hxy_hi : |x * y| ≤ Pw * (Pw * (u * v)) := by
    rw [hxyabs]
    have : |(kx : ℚ)| * |(ky : ℚ)| ≤ Pw * Pw := mul_le_mul hkxq2 hkyq2 (abs_nonneg _) hPwpos.le
    calc |(kx : ℚ)| * |(ky : ℚ)| * (u * v) ≤ Pw * Pw * (u * v) := mul_le_mul_of_nonneg_right this huv.le
      _ = Pw * (Pw * (u * v)) := by ring
  have hwp : (2 : ℚ) ^ (ex + ey + (f.p : ℤ)) = Pw * (u * v) := by
    rw [zpow_add₀ (by norm_num : (2 : ℚ) ≠ 0), zpow_natCast, hw]; ring
  have hE : |h - x * y| ≤ Pw / 2 * (u * v) := by
    have := rn_err_grid hr (g := ex + ey + f.p) (by omega) (z := x * y) (by rw [hwp]; exact hxy_hi)
    rw [hwp] at this
    calc |h - x * y| ≤ Pw * (u * v) / 2 := this
      _ = Pw / 2 * (u * v) := by ring
  have hhM : Mult (ex + ey + n) h := by
    have hlo : 2 ^ f.p * 2 ^ (ex + ey + (n : ℤ) - 1) ≤ |x * y| := by
      have e1 : (2 : ℚ) ^ (ex + ey + (n : ℤ) - 1) = 2 ^ n * (u * v) / 2 := by
        rw [zpow_sub₀ (by norm_num : (2 : ℚ) ≠ 0), hwp1]; norm_num
      rw [e1, hxyabs, ← hPw, hPn]
      have : (2 : ℚ) ^ n * 2 ^ n ≤ |(kx : ℚ)| * |(ky : ℚ)| := mul_le_mul hkxq1 hkyq1 h2n.le (abs_nonneg _)
      calc 2 * 2 ^ n * (2 ^ n * (u * v) / 2) = 2 ^ n * 2 ^ n * (u * v) := by ring
        _ ≤ |(kx : ℚ)| * |(ky : ℚ)| * (u * v) := mul_le_mul_of_nonneg_right this huv.le
    have h1 := abs_rn_ge hr (e := ex + ey + n - 1) (by omega) hlo
    have := mult_succ_of_rep_ge (hr.rep _) h1
    simpa using this
  -- t1
  have hT1 : -h + xh * yh = (x * y - h) - xh * yl - xl * yh - xl * yl := by rw [hxy_split]; ring
  have hE' : |x * y - h| ≤ Pw / 2 * (u * v) := by rw [abs_sub_comm]; exact hE
  have hT1M : Mult (ex + ey + n) (-h + xh * yh) := by
    apply hhM.neg.add
    exact Mult.mono (by omega) hA_M
  have hT1B : |-h + xh * yh| ≤ (Pw / 2 + Pw * Sw + Sw * Sw / 4) * (u * v) := by
    rw [hT1]
    have t := abs_sub (x * y - h - xh * yl - xl * yh) (xl * yl)
    have t' := abs_sub (x * y - h - xh * yl) (xl * yh)
    have t'' := abs_sub (x * y - h) (xh * yl)
    have e : (Pw / 2 + Pw * Sw + Sw * Sw / 4) * (u * v) = Pw / 2 * (u * v) + Pw * Sw / 2 * (u * v) + Pw * Sw / 2 * (u * v) + Sw * Sw / 4 * (u * v) := by ring
    rw [e]; linarith
  have hT1rep : Rep f (-h + xh * yh) := by
    apply rep_of_mult_le (by omega) hT1M
    rw [hwp1, ← hPw]
    calc |-h + xh * yh| ≤ (Pw / 2 + Pw * Sw + Sw * Sw / 4) * (u * v) := hT1B
      _ ≤ Pw * (2 ^ n * (u * v)) := by
          have h1 : Pw / 2 + Pw * Sw + Sw * Sw / 4 ≤ Pw * 2 ^ n := by
            have : (2 : ℚ) ^ n = Pw / 2 := by rw [hPn]; ring
            rw [this]; exact c3
          calc (Pw / 2 + Pw * Sw + Sw * Sw / 4) * (u * v) ≤ Pw * 2 ^ n * (u * v) := mul_le_mul_of_nonneg_right h1 huv.le
            _ = Pw * (2 ^ n * (u * v)) := by ring
  have hT1rep' : Rep f (xh * yh - h) := by
    have : xh * yh - h = -h + xh * yh := by ring
    rw [this]; exact hT1rep
  -- t2 (both orders of accumulation)
  have hT2 : xh * yh - h + xh * yl = (x * y - h) - xl * yh - xl * yl := by rw [hxy_split]; ring
  have hT2' : xh * yh - h + xl * yh = (x * y - h) - xh * yl - xl * yl := by rw [hxy_split]; ring
  have hT1M' : Mult (ex + ey + s) (xh * yh - h) := by
    have : xh * yh - h = -h + xh * yh := by ring
    rw [this]; exact Mult.mono (by omega) hT1M
  have hT2M : Mult (ex + ey + s) (xh * yh - h + xh * yl) := hT1M'.add hB_M
  have hT2M' : Mult (ex + ey + s) (xh * yh - h + xl * yh) := hT1M'.add hC_M
  have e2 : (Pw / 2 + Pw * Sw / 2 + Sw * Sw / 4) * (u * v) = Pw / 2 * (u * v) + Pw * Sw / 2 * (u * v) + Sw * Sw / 4 * (u * v) := by ring
  have hT2B : |xh * yh - h + xh * yl| ≤ (Pw / 2 + Pw * Sw / 2 + Sw * Sw / 4) * (u * v) := by
    rw [hT2]
    have t := abs_sub (x * y - h - xl * yh) (xl * yl)
    have t' := abs_sub (x * y - h) (xl * yh)
    rw [e2]; linarith
  have hT2B' : |xh * yh - h + xl * yh| ≤ (Pw / 2 + Pw * Sw / 2 + Sw * Sw / 4) * (u * v) := by
    rw [hT2']
    have t := abs_sub (x * y - h - xh * yl) (xl * yl)
    have t' := abs_sub (x * y - h) (xh * yl)
    rw [e2]; linarith
  have hbnd2 : (Pw / 2 + Pw * Sw / 2 + Sw * Sw / 4) * (u * v) ≤ Pw * (Sw * (u * v)) := by
    calc (Pw / 2 + Pw * Sw / 2 + Sw * Sw / 4) * (u * v) ≤ Pw * Sw * (u * v) := mul_le_mul_of_nonneg_right c4 huv.le
      _ = Pw * (Sw * (u * v)) := by ring
  have hT2rep : Rep f (xh * yh - h + xh * yl) := by
    apply rep_of_mult_le (by omega) hT2M
    rw [hws]; exact le_trans hT2B hbnd2
  have hT2rep' : Rep f (xh * yh - h + xl * yh) := by
    apply rep_of_mult_le (by omega) hT2M'
    rw [hws]; exact le_trans hT2B' hbnd2
  -- t3
  have hT3 : xh * yh - h + xh * yl + xl * yh = (x * y - h) - xl * yl := by rw [hxy_split]; ring
  have hT3M : Mult (ex + ey + s) (xh * yh - h + xh * yl + xl * yh) := hT2M.add hC_M
  have hT3B : |xh * yh - h + xh * yl + xl * yh| ≤ (Pw / 2 + Sw * Sw / 4) * (u * v) := by
    rw [hT3]
    have t := abs_sub (x * y - h) (xl * yl)
    have e : (Pw / 2 + Sw * Sw / 4) * (u * v) = Pw / 2 * (u * v) + Sw * Sw / 4 * (u * v) := by ring
    rw [e]; linarith
  have hT3rep : Rep f (xh * yh - h + xh * yl + xl * yh) := by
    apply rep_of_mult_le (by omega) hT3M
    rw [hws]
    calc |xh * yh - h + xh * yl + xl * yh| ≤ (Pw / 2 + Sw * Sw / 4) * (u * v) := hT3B
      _ ≤ Pw * Sw * (u * v) := mul_le_mul_of_nonneg_right c5 huv.le
      _ = Pw * (Sw * (u * v)) := by ring
  -- l
  have hLM : Mult (ex + ey) (x * y - h) := hxyM.sub (Mult.mono (by omega) hhM)
  have hLrep : Rep f (x * y - h) := by
    apply rep_of_mult_le he hLM
    rw [hw]
    calc |x * y - h| ≤ Pw / 2 * (u * v) := hE'
      _ ≤ Pw * (u * v) := mul_le_mul_of_nonneg_right (by linarith) huv.le
  exact ⟨hA_rep, hB_rep, hC_rep, hD_rep, hT1rep', hT2rep, hT2rep', hT3rep, hLrep, hxy_split⟩

end FAVerif.FPQ

namespace FAVerif.FPQ

variable {f : QFmt} {r : ℚ → ℚ} (hr : IsRN f r)
include hr

/-- **Dekker's product** as coded in `mul_dekker(scale=False)` / `mul_dw`: both operands split by
Veltkamp's splitter with C = 2^s + 1, then the five-operation accumulation.  For normal x, y whose
product does not underflow (ex + ey ≥ emin), p ≤ 2s ≤ p + 2, s + 2 ≤ p:  h = RN(x·y), h + l = x·y. -/
theorem dekker {s : ℕ} (h2s : f.p ≤ 2 * s) (h2s2 : 2 * s ≤ f.p + 2) (hs2 : s + 2 ≤ f.p)
    {kx ky ex ey : ℤ} (hkx1 : 2 ^ (f.p - 1) ≤ |kx|) (hkx2 : |kx| < 2 ^ f.p) (hky1 : 2 ^ (f.p - 1) ≤ |ky|) (hky2 : |ky| < 2 ^ f.p)
    (hex : f.emin ≤ ex) (hey : f.emin ≤ ey) (he : f.emin ≤ ex + ey) :
    let x : ℚ := (kx : ℚ) * 2 ^ ex
    let y : ℚ := (ky : ℚ) * 2 ^ ey
    let gx := r ((2 ^ s + 1) * x)
    let xh := r (gx - r (gx - x))
    let xl := r (x - xh)
    let gy := r ((2 ^ s + 1) * y)
    let yh := r (gy - r (gy - y))
    let yl := r (y - yh)
    let h := r (x * y)
    let t1 := r (-h + r (xh * yh))
    let t2 := r (t1 + r (xh * yl))
    let t3 := r (t2 + r (xl * yh))
    let l := r (t3 + r (xl * yl))
    h + l = x * y := by
  intro x y gx xh xl gy yh yl h t1 t2 t3 l
  have hs1 : 1 ≤ s := by omega
  have hsp : s < f.p := by omega
  obtain ⟨a1, a2, a3, a4, a5⟩ := veltkamp hr hs1 hsp hkx1 hkx2 hex
  obtain ⟨b1, b2, b3, b4, b5⟩ := veltkamp hr hs1 hsp hky1 hky2 hey
  obtain ⟨fA, fB, fC, fD, fT1, fT2, -, fT3, fE, fS⟩ :=
    dekker_core hr h2s h2s2 hs2 hkx1 hkx2 hky1 hky2 he a1 a2 a3 a4 a5 b1 b2 b3 b4 b5
  have e1 : t1 = xh * yh - h := by
    show r (-h + r (xh * yh)) = _
    rw [rn_id hr fA, show -h + xh * yh = xh * yh - h by ring, rn_id hr fT1]
  have e2 : t2 = xh * yh - h + xh * yl := by
    show r (t1 + r (xh * yl)) = _
    rw [rn_id hr fB, e1, rn_id hr fT2]
  have e3 : t3 = xh * yh - h + xh * yl + xl * yh := by
    show r (t2 + r (xl * yh)) = _
    rw [rn_id hr fC, e2, rn_id hr fT3]
  have e4 : l = x * y - h := by
    show r (t3 + r (xl * yl)) = _
    rw [rn_id hr fD, e3, show xh * yh - h + xh * yl + xl * yh + xl * yl = x * y - h by rw [fS]; ring, rn_id hr fE]
  rw [e4]; ring

end FAVerif.FPQ
