/-
Helper lemmas for C19, part 3: the split at zero (recursive calls land in the same-sign regimes;
gluing the parts preserves the result properties).
-/
import FAVerif.Lemmas.SamplesBounded
namespace FAVerif.Samples

theorem fl_congr (c : Cfg) (p q : Params) (h : q.includeSubnormal = p.includeSubnormal) (v : Nat) :
    fl c q v = fl c p v := by unfold fl; rw [h]

theorem minPos_congr (c : Cfg) (p q : Params) (h : q.includeSubnormal = p.includeSubnormal) :
    minPos c q = minPos c p := by unfold minPos; rw [h]

theorem minPos_facts (c : Cfg) (hwf : c.WF) (p : Params) :
    1 ≤ minPos c p ∧ minPos c p ≤ c.mn ∧ fl c p (minPos c p) = minPos c p ∧
    fl c p (negB c (minPos c p)) = negB c (minPos c p) ∧ negB c (minPos c p) = c.sb + minPos c p := by
  have := hwf.mn_pos; have := hwf.mn_inf; have := hwf.inf_sb
  obtain ⟨_, _, z3, z4⟩ := isSubnormal_false_of c hwf
  unfold minPos
  cases hs : p.includeSubnormal with
  | true =>
    simp only [if_true]
    refine ⟨by omega, by omega, ?_, ?_, ?_⟩
    · rw [fl_eq_self_iff]; left; exact hs
    · rw [fl_eq_self_iff]; left; exact hs
    · unfold negB; rw [if_pos (by omega)]; omega
  | false =>
    simp only [Bool.false_eq_true, if_false]
    refine ⟨by omega, by omega, ?_, ?_, ?_⟩
    · rw [fl_eq_self_iff]; right; exact z3
    · rw [fl_eq_self_iff]; right; exact z4
    · unfold negB; rw [if_pos (by omega)]; omega

theorem fl_zero (c : Cfg) (hwf : c.WF) (p : Params) : fl c p 0 = 0 ∧ fl c p c.sb = c.sb := by
  obtain ⟨z1, z2, _, _⟩ := isSubnormal_false_of c hwf
  constructor <;> (rw [fl_eq_self_iff]; right; assumption)

theorem numOf_userBounds (c : Cfg) (q : Params) (h : q.userBounds = true) : numOf c q = min q.size (c.cap : Int) := by
  unfold numOf; simp [h]

theorem finish_key_mem (c : Cfg) (_hwf : c.WF) (p : Params) (L : List Nat) (y : Nat) (hy : y ∈ L) :
    ∃ x ∈ finish c p L, skey c x = skey c (fl c p y) := by
  rw [finish_eq]
  have : fl c p y ∈ L.map (fl c p) := List.mem_map.2 ⟨y, hy, rfl⟩
  split
  · exact uniq_key c _ _ this
  · exact ⟨_, this, rfl⟩


/-! ### the split at zero -/

/-- upper bound of the negative part -/
def negHi (c : Cfg) (p : Params) (lo : Nat) : Nat :=
  if flt c lo (negB c (minPos c p)) then negB c (minPos c p) else c.negZero
/-- lower bound of the positive part -/
def posLo (c : Cfg) (p : Params) (hi : Nat) : Nat :=
  if flt c (minPos c p) hi then minPos c p else 0

theorem straddle_unfold (c : Cfg) (hwf : c.WF) (k : Nat) (p : Params) (hub : p.userBounds = true) (lo hi : Nat)
    (hr : resolveBounds c p = (lo, hi)) (h : Straddle c lo hi) :
    realSamplesF c (k + 2) p =
      match realSamplesF c (k + 1) (negCall c p lo hi) with
      | .error e => .error e
      | .ok negPart =>
        match realSamplesF c (k + 1) (posCall c p lo hi) with
        | .error e => .error e
        | .ok posPart =>
          .ok (finish c p (if p.includeZero then negPart ++ [0] ++ posPart else negPart ++ posPart)) := by
  have hi' : c.inf < c.sb := by have := hwf.inf_sb; omega
  obtain ⟨h1, h2, h3, h4⟩ := h
  have kl := skey_neg' c (by omega : c.sb ≤ lo) h2
  have kh := skey_pos' c hi' h4
  have e1 : feq c lo hi = false := feq_false_of_ne c (by rw [kl, kh]; omega)
  have e2 : fle c hi lo = false := fle_false_of_lt c (by rw [kl, kh]; omega)
  have e3 : fle c 0 lo = false := fle_false_of_lt c (by rw [kl, skey_zero c hwf]; omega)
  have e4 : fle c hi c.negZero = false := fle_false_of_lt c (by unfold Cfg.negZero; rw [kh, skey_negZero c hwf]; omega)
  rw [show k + 2 = (k + 1) + 1 from rfl, realSamplesF]
  simp only [hr, e1, e2, e3, e4, hub, Bool.false_eq_true, if_false, Bool.not_true]
  rfl

theorem negCall_facts (c : Cfg) (hwf : c.WF) (p : Params) (lo hi : Nat) (h : Straddle c lo hi) (hlo : fl c p lo = lo) :
    (negCall c p lo hi).userBounds = true ∧
    resolveBounds c (negCall c p lo hi) = (lo, negHi c p lo) ∧
    SameNeg c lo (negHi c p lo) ∧
    numOf c (negCall c p lo hi) = min (apportion c p lo hi).1 (c.cap : Int) ∧
    fl c (negCall c p lo hi) = fl c p ∧
    fl c p (negHi c p lo) = negHi c p lo ∧
    skey c (negHi c p lo) ≤ 0 := by
  have hi' : c.inf < c.sb := by have := hwf.inf_sb; omega
  obtain ⟨h1, h2, h3, h4⟩ := h
  obtain ⟨m1, m2, m3, m4, m5⟩ := minPos_facts c hwf p
  have := hwf.mn_inf
  have hub : (negCall c p lo hi).userBounds = true := by simp [negCall, Params.userBounds]
  have hinc : (negCall c p lo hi).includeSubnormal = p.includeSubnormal := rfl
  have hfl : fl c (negCall c p lo hi) = fl c p := funext (fl_congr c p _ hinc)
  have hmp : minPos c (negCall c p lo hi) = minPos c p := minPos_congr c p _ hinc
  have kl := skey_neg' c (by omega : c.sb ≤ lo) h2
  -- the upper bound
  have hnh : (negHi c p lo = c.sb + minPos c p ∧ c.sb + minPos c p < lo) ∨ negHi c p lo = c.sb := by
    unfold negHi
    split
    · rename_i hf
      left
      rw [m5] at hf ⊢
      refine ⟨rfl, ?_⟩
      have := ((flt_iff c _ _).1 hf).2.2
      rw [kl, skey_neg' c (by omega) (by omega)] at this; omega
    · right; rfl
  have hflnh : fl c p (negHi c p lo) = negHi c p lo := by
    unfold negHi; split
    · exact m4
    · exact (fl_zero c hwf p).2
  have hsn : SameNeg c lo (negHi c p lo) := by
    rcases hnh with ⟨e, hlt⟩ | e <;> rw [e] <;> exact ⟨by omega, by omega, h2⟩
  refine ⟨hub, ?_, hsn, ?_, hfl, hflnh, ?_⟩
  · unfold resolveBounds
    have d1 : defaultMin c (negCall c p lo hi) = lo := rfl
    have d2 : defaultMax c (negCall c p lo hi) lo = negHi c p lo := rfl
    rw [d1, d2, adjustLo_of_fl c hwf _ lo (by omega) (by rw [hfl]; exact hlo),
      adjustHi_of_fl c hwf _ _ (by rcases hnh with ⟨e, _⟩ | e <;> omega) (by rw [hfl]; exact hflnh)]
  · rw [numOf_userBounds c _ hub]; rfl
  · rcases hnh with ⟨e, hlt⟩ | e <;> rw [e, skey_neg' c (by omega) (by omega)] <;> omega

theorem posCall_facts (c : Cfg) (hwf : c.WF) (p : Params) (lo hi : Nat) (h : Straddle c lo hi) (hhi : fl c p hi = hi) :
    (posCall c p lo hi).userBounds = true ∧
    resolveBounds c (posCall c p lo hi) = (posLo c p hi, hi) ∧
    SamePos c (posLo c p hi) hi ∧
    numOf c (posCall c p lo hi) = min (apportion c p lo hi).2 (c.cap : Int) ∧
    fl c (posCall c p lo hi) = fl c p ∧
    fl c p (posLo c p hi) = posLo c p hi ∧
    0 ≤ skey c (posLo c p hi) := by
  have hi' : c.inf < c.sb := by have := hwf.inf_sb; omega
  obtain ⟨h1, h2, h3, h4⟩ := h
  obtain ⟨m1, m2, m3, m4, m5⟩ := minPos_facts c hwf p
  have := hwf.mn_inf
  have hub : (posCall c p lo hi).userBounds = true := by simp [posCall, Params.userBounds]
  have hinc : (posCall c p lo hi).includeSubnormal = p.includeSubnormal := rfl
  have hfl : fl c (posCall c p lo hi) = fl c p := funext (fl_congr c p _ hinc)
  have kh := skey_pos' c hi' h4
  have hpl : (posLo c p hi = minPos c p ∧ minPos c p < hi) ∨ posLo c p hi = 0 := by
    unfold posLo
    split
    · rename_i hf
      left
      refine ⟨rfl, ?_⟩
      have := ((flt_iff c _ _).1 hf).2.2
      rw [kh, skey_pos' c hi' (by omega)] at this; omega
    · right; rfl
  have hflpl : fl c p (posLo c p hi) = posLo c p hi := by
    unfold posLo; split
    · exact m3
    · exact (fl_zero c hwf p).1
  have hsp : SamePos c (posLo c p hi) hi := by
    rcases hpl with ⟨e, hlt⟩ | e <;> rw [e] <;> exact ⟨by omega, h4⟩
  refine ⟨hub, ?_, hsp, ?_, hfl, hflpl, ?_⟩
  · unfold resolveBounds
    have d1 : defaultMin c (posCall c p lo hi) = posLo c p hi := rfl
    have d2 : defaultMax c (posCall c p lo hi) (posLo c p hi) = hi := rfl
    rw [d1, d2, adjustLo_of_fl c hwf _ _ (by rcases hpl with ⟨e, _⟩ | e <;> omega) (by rw [hfl]; exact hflpl),
      adjustHi_of_fl c hwf _ hi (by omega) (by rw [hfl]; exact hhi)]
  · rw [numOf_userBounds c _ hub]; rfl
  · rcases hpl with ⟨e, hlt⟩ | e <;> rw [e, skey_pos' c hi' (by omega)] <;> omega


/-- gluing the negative part, the optional zero and the positive part -/
theorem glue_resOK (c : Cfg) (hwf : c.WF) (lo nh pl hi qn qp : Nat) (N P : List Nat) (z : Bool)
    (hN : ResOK c lo nh qn qp N) (hP : ResOK c pl hi qn qp P)
    (hnh : skey c nh ≤ 0) (hpl : 0 ≤ skey c pl) (hlo : skey c lo ≤ skey c nh) (hhi : skey c pl ≤ skey c hi) :
    ResOK c lo hi qn qp (if z then N ++ [0] ++ P else N ++ P) := by
  have hi' : c.inf < c.sb := by have := hwf.inf_sb; omega
  have z0 := skey_zero c hwf
  have hNk : ∀ x ∈ N, skey c x ≤ 0 := fun x hx => by have := (hN.range x hx).2; omega
  have hPk : ∀ x ∈ P, 0 ≤ skey c x := fun x hx => by have := (hP.range x hx).1; omega
  -- pairs across the parts never meet the guards of `Gap`
  have cross : ∀ a b, skey c a ≤ 0 → 0 ≤ skey c b → Gap c qn qp a b := by
    intro a b ha hb
    constructor
    · intro _ _ g3 g4
      rw [skey_neg' c (by omega) (by omega)] at hb; omega
    · intro g1 g2 _ _
      rw [skey_pos' c hi' (by omega)] at ha; omega
  have hM : ResOK c lo hi qn qp (N ++ ((if z then [0] else []) ++ P)) := by
    refine ⟨?_, ?_, ?_, ?_, ?_⟩
    · unfold Sorted
      rw [List.pairwise_append]
      refine ⟨hN.sorted, ?_, ?_⟩
      · rw [List.pairwise_append]
        refine ⟨by cases z <;> simp, hP.sorted, ?_⟩
        intro a ha b hb
        cases z with
        | false => simp at ha
        | true => simp at ha; rw [ha, z0]; exact hPk b hb
      · intro a ha b hb
        have := hNk a ha
        rcases List.mem_append.1 hb with hb | hb
        · cases z with
          | false => simp at hb
          | true => simp at hb; rw [hb, z0]; exact this
        · have := hPk b hb; omega
    · intro x hx
      rcases List.mem_append.1 hx with hx | hx
      · have := hN.range x hx; omega
      · rcases List.mem_append.1 hx with hx | hx
        · cases z with
          | false => simp at hx
          | true => simp at hx; rw [hx, z0]; omega
        · have := hP.range x hx; omega
    · obtain ⟨y, hy, hk⟩ := hN.has_lo
      exact ⟨y, List.mem_append_left _ hy, hk⟩
    · obtain ⟨y, hy, hk⟩ := hP.has_hi
      exact ⟨y, List.mem_append_right _ (List.mem_append_right _ hy), hk⟩
    · apply adj_append _ _ hN.gaps
      · apply adj_append _ _ _ hP.gaps
        · intro a ha b hb
          cases z with
          | false => simp at ha
          | true => simp at ha; exact cross a b (by rw [ha, z0]; omega) (hPk b hb)
        · cases z <;> trivial
      · intro a ha b hb
        refine cross a b (hNk a ha) ?_
        rcases List.mem_append.1 hb with hb | hb
        · cases z with
          | false => simp at hb
          | true => simp at hb; rw [hb, z0]; omega
        · exact hPk b hb
  cases z with
  | false => simpa using hM
  | true => simpa using hM

/-- Bounds straddling zero with at least two samples apportioned to each side: the call succeeds and
the result has every property (and contains a zero when `include_zero`). -/
theorem main_straddle (c : Cfg) (hwf : c.WF) (k : Nat) (p : Params) (hub : p.userBounds = true) (lo hi : Nat)
    (hr : resolveBounds c p = (lo, hi)) (h : Straddle c lo hi)
    (hlo : fl c p lo = lo) (hhi : fl c p hi = hi)
    (hneg : 2 ≤ (apportion c p lo hi).1) (hpos : 2 ≤ (apportion c p lo hi).2) :
    ∃ L qn qp, realSamplesF c (k + 2) p = .ok L ∧ ResOK c lo hi qn qp L ∧
      (p.unique = true → StrictSorted c L) ∧ (p.includeZero = true → ∃ z ∈ L, skey c z = 0) := by
  have hcap := hwf.cap_ge
  obtain ⟨n1, n2, n3, n4, n5, n6, n7⟩ := negCall_facts c hwf p lo hi h hlo
  obtain ⟨p1, p2, p3, p4, p5, p6, p7⟩ := posCall_facts c hwf p lo hi h hhi
  have hnn : 2 ≤ numOf c (negCall c p lo hi) := by rw [n4]; omega
  have hpn : 2 ≤ numOf c (posCall c p lo hi) := by rw [p4]; omega
  let qn := (lo - negHi c p lo) / ((numOf c (negCall c p lo hi)).toNat - 1)
  let qp := (hi - posLo c p hi) / ((numOf c (posCall c p lo hi)).toNat - 1)
  obtain ⟨N, eN, rN, _⟩ := main_neg c hwf k _ n1 lo (negHi c p lo) qp n2 n3 hnn (by rw [n5]; exact hlo) (by rw [n5]; exact n6)
  obtain ⟨P, eP, rP, _⟩ := main_pos c hwf k _ p1 (posLo c p hi) hi qn p2 p3 hpn (by rw [p5]; exact p6) (by rw [p5]; exact hhi)
  have hglue := glue_resOK c hwf lo (negHi c p lo) (posLo c p hi) hi qn qp N P p.includeZero rN rP n7 p7
    (by obtain ⟨y, hy, hk⟩ := rN.has_lo; have := (rN.range y hy).2; omega)
    (by obtain ⟨y, hy, hk⟩ := rP.has_hi; have := (rP.range y hy).1; omega)
  have hfin := finish_ok c hwf p lo hi qn qp _ hglue hlo hhi
  refine ⟨_, qn, qp, ?_, hfin.1, hfin.2, ?_⟩
  · rw [straddle_unfold c hwf k p hub lo hi hr h, eN, eP]
  · intro hz
    have hmem : (0 : Nat) ∈ (if p.includeZero then N ++ [0] ++ P else N ++ P) := by simp [hz]
    obtain ⟨x, hx, hk⟩ := finish_key_mem c hwf p _ 0 hmem
    exact ⟨x, hx, by rw [hk, (fl_zero c hwf p).1, skey_zero c hwf]⟩


end FAVerif.Samples
