/-
Encoding lemmas for the softfloat: `decode (packFin s q et)` recovers sign, significand and
exponent; the value of `roundFin` (when it does not overflow) is `rne` of the exact input.
-/
import FAVerif.Lemmas.SoftRound

namespace FAVerif.SoftRound
open FAVerif.FP FAVerif.FPQ

/-- decoded value of a finite `V` as a rational with zpow (the model's `V.toRat?` uses `pow2`) -/
lemma pow2_eq (e : ℤ) : pow2 e = (2 : ℚ) ^ e := by
  unfold pow2
  split
  · rename_i h
    obtain ⟨n, rfl⟩ : ∃ n : ℕ, e = n := ⟨e.toNat, by omega⟩
    simp
  · rename_i h
    obtain ⟨n, rfl⟩ : ∃ n : ℕ, e = -(n : ℤ) := ⟨(-e).toNat, by omega⟩
    simp [zpow_neg]

structure WF (f : Fmt) : Prop where
  hp : 2 ≤ f.p
  hew : 2 ≤ f.ew

lemma signBit_eq (f : Fmt) (h : WF f) : f.signBit = 2 ^ f.ew * 2 ^ f.fracBits := by
  have := h.hp
  simp only [Fmt.signBit, Fmt.width, Fmt.fracBits, ← pow_add]
  congr 1; omega

/-- the three bit fields of `S·signBit + E·2^fb + M` -/
lemma fields_compose (f : Fmt) (h : WF f) (s : Bool) (E M : Nat) (hE : E < 2 ^ f.ew) (hM : M < 2 ^ f.fracBits) :
    fields f ((if s then f.signBit else 0) + E * 2 ^ f.fracBits + M) = ⟨s, E, M⟩ := by
  have hsb := signBit_eq f h
  set B := 2 ^ f.fracBits with hB
  set X := 2 ^ f.ew with hX
  have hBpos : 0 < B := by positivity
  have hXpos : 0 < X := by positivity
  have hlow : E * B + M < X * B := by
    calc E * B + M < E * B + B := by omega
      _ = (E + 1) * B := by ring
      _ ≤ X * B := Nat.mul_le_mul_right B (by omega)
  unfold fields
  rw [hsb]
  cases s
  · simp only [Bool.false_eq_true, if_false, Nat.zero_add]
    have h1 : (E * B + M) / (X * B) = 0 := Nat.div_eq_of_lt hlow
    have h2 : (E * B + M) / B = E := by
      rw [Nat.add_comm, Nat.add_mul_div_right _ _ hBpos, Nat.div_eq_of_lt hM, Nat.zero_add]
    have h3 : (E * B + M) % B = M := by
      rw [Nat.add_comm, Nat.add_mul_mod_self_right, Nat.mod_eq_of_lt hM]
    simp [h1]
    rw [← hB, ← hX, h2, h3]
    exact ⟨Nat.mod_eq_of_lt hE, rfl⟩
  · simp only [if_true]
    have h1 : (X * B + E * B + M) / (X * B) = 1 := by
      rw [Nat.add_assoc, Nat.add_comm, Nat.add_div_right _ (by positivity), Nat.div_eq_of_lt hlow]
    have h2 : (X * B + E * B + M) / B = X + E := by
      rw [show X * B + E * B + M = M + (X + E) * B by ring, Nat.add_mul_div_right _ _ hBpos, Nat.div_eq_of_lt hM, Nat.zero_add]
    have h3 : (X * B + E * B + M) % B = M := by
      rw [show X * B + E * B + M = M + (X + E) * B by ring, Nat.add_mul_mod_self_right, Nat.mod_eq_of_lt hM]
    have h4 : (X + E) % X = E := by rw [Nat.add_mod_left, Nat.mod_eq_of_lt hE]
    simp [h1]
    rw [← hB, ← hX, h2, h3, h4]
    exact ⟨rfl, rfl⟩

/-- normal or subnormal significand/exponent pairs that `packFin` encodes without overflow -/
def Canon (f : Fmt) (q : Nat) (et : Int) : Prop :=
  q < 2 ^ f.p ∧ f.emin ≤ et ∧ (q < 2 ^ f.fracBits → et = f.emin) ∧ et - f.emin + 1 < (f.expMax : Int)

theorem decode_packFin (f : Fmt) (h : WF f) (s : Bool) (q : Nat) (et : Int) (hc : Canon f q et) :
    decode f (packFin f s q et) = .fin s q et := by
  obtain ⟨hq, hemin, hsub, hexp⟩ := hc
  have hp := h.hp
  have hfb : f.fracBits + 1 = f.p := by simp [Fmt.fracBits]; omega
  have hpp : (2 : ℕ) ^ f.p = 2 * 2 ^ f.fracBits := by rw [← hfb, pow_succ]; ring
  have hxm : f.expMax + 1 = 2 ^ f.ew := by
    simp only [Fmt.expMax]; have : 0 < 2 ^ f.ew := by positivity
    omega
  have hx1 : 1 ≤ f.expMax := by
    have : 2 ^ 1 ≤ 2 ^ f.ew := Nat.pow_le_pow_right (by norm_num) (by have := h.hew; omega)
    omega
  unfold packFin
  by_cases hsubn : q < 2 ^ f.fracBits
  · -- subnormal (or zero): exponent field 0
    simp only [hsubn, if_true]
    have := fields_compose f h s 0 q (by positivity) hsubn
    simp only [Nat.zero_mul, Nat.add_zero] at this
    unfold decode
    rw [this]
    have h0 : (0 : ℕ) ≠ f.expMax := by omega
    simp [h0, hsub hsubn]
  · simp only [hsubn, if_false]
    have hge : ¬ (et - f.emin + 1 ≥ (f.expMax : Int)) := by omega
    simp only [hge, if_false]
    set E := (et - f.emin + 1).toNat with hE
    have hEpos : 1 ≤ E := by omega
    have hElt : E < f.expMax := by omega
    have hM : q - 2 ^ f.fracBits < 2 ^ f.fracBits := by omega
    have := fields_compose f h s E (q - 2 ^ f.fracBits) (by omega) hM
    unfold decode
    rw [this]
    have h1 : E ≠ f.expMax := by omega
    have h2 : E ≠ 0 := by omega
    simp only [h1, h2, if_false]
    congr 1
    · omega
    · omega

/-- the canonical conditions hold for the result of `roundCore` below the overflow threshold -/
theorem roundCore_canon (f : Fmt) (h : WF f) (m : Nat) (hm : 0 < m) (e : Int) :
    let r := roundCore f m e false
    r.1 ≤ 2 ^ f.p ∧ f.emin ≤ r.2 ∧ (r.1 < 2 ^ f.fracBits → r.2 = f.emin) := by
  intro r
  have hrne := roundCore_isRNE f h.hp m hm e
  have hx : (0 : ℚ) < (m : ℚ) * 2 ^ e := by have := zpow_two_pos e; positivity
  obtain ⟨hb0, hb1⟩ := hrne.bounds hx
  refine ⟨by exact_mod_cast hb1, hrne.emin_le, ?_⟩
  intro hlt
  rcases hrne.ge_bot with h0 | h0
  · exact h0
  · exfalso
    -- x ≥ 2^(p-1)·2^et but the rounded significand is below 2^(p-1): impossible
    have hu := zpow_two_pos r.2
    have hnear := hrne.near
    have hq : ((r.1 : ℤ) : ℚ) ≤ 2 ^ (f.p - 1) - 1 := by
      have h1 : r.1 + 1 ≤ 2 ^ f.fracBits := hlt
      have : ((r.1 + 1 : ℕ) : ℚ) ≤ ((2 ^ f.fracBits : ℕ) : ℚ) := by exact_mod_cast h1
      push_cast at this
      simp only [Fmt.fracBits] at this
      push_cast; linarith
    have h0' : (2 : ℚ) ^ (f.p - 1) * 2 ^ r.2 ≤ (m : ℚ) * 2 ^ e := h0
    have := abs_le.1 hnear
    nlinarith

end FAVerif.SoftRound
