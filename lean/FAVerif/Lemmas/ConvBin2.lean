/-
Helper lemmas for C13, part 6: `float2bin` produces a frame; bin round trip and value.
-/
import FAVerif.Lemmas.ConvBin
import FAVerif.Lemmas.ConvRound

namespace FAVerif.Conv
open FAVerif.FP

theorem width_eq (f : Fmt) (hp : 1 ≤ f.p) : f.width = 1 + (f.ew + f.fracBits) := by
  unfold Fmt.width Fmt.fracBits; omega

theorem sign_true_ge (f : Fmt) (b : Nat) (h : (fields f b).sign = true) : f.signBit ≤ b := by
  unfold fields at h
  simp only [decide_eq_true_eq] at h
  by_contra hc
  have : b / f.signBit = 0 := Nat.div_eq_of_lt (by omega)
  rw [this] at h; simp at h

theorem digits_eq (f : Fmt) (b : Nat) (hp : 1 ≤ f.p) (hb : b < 2 ^ f.width) (hnan : isNaNb f b = false) :
    (if geZero f b then List.replicate (f.width - (binStr b).length) '0' ++ binStr b
     else binStr b ++ List.replicate (f.width - (binStr b).length) '0') = bitsW f.width b := by
  have hw : 1 ≤ f.width := by unfold Fmt.width; omega
  obtain ⟨h1, h2⟩ := pad_binStr f.width b hw hb
  by_cases hg : geZero f b = true
  · simp only [hg, if_true]; exact h2
  · simp only [hg]
    have hs : (fields f b).sign = true := by
      unfold geZero at hg
      rw [hnan] at hg
      cases hsg : (fields f b).sign
      · simp [hsg] at hg
      · rfl
    have hge := sign_true_ge f b hs
    have hlen : (binStr b).length = f.width := binStr_length_top f.width b hw hge hb
    rw [hlen] at h2 ⊢
    simp at h2 ⊢
    exact h2

theorem digits_slices (f : Fmt) (b : Nat) (hp : 1 ≤ f.p) :
    ((bitsW f.width b).drop 1).take f.ew = bitsW f.ew (b / 2 ^ f.fracBits) ∧
    (bitsW f.width b).drop (1 + f.ew) = bitsW f.fracBits b := by
  rw [width_eq f hp, bitsW_split 1 (f.ew + f.fracBits) b, bitsW_split f.ew f.fracBits b]
  constructor
  · rw [List.drop_left' (bitsW_length _ _), List.take_left' (bitsW_length _ _)]
  · rw [← List.append_assoc]
    apply List.drop_left'
    simp [bitsW_length]

/-- the exponent and significand strings that float2bin extracts -/
theorem float2bin_parts (f : Fmt) (b : Nat) (hew : 1 ≤ f.ew) (hp : 1 ≤ f.p) :
    (parseBinNat (bitsW f.ew (b / 2 ^ f.fracBits))).getD 0 = (fields f b).e ∧
    rstrip0 (bitsW f.fracBits b) =
      (if (fields f b).m = 0 then [] else bitsW (f.fracBits - tz (fields f b).m) (oddPart (fields f b).m)) := by
  constructor
  · have hne : bitsW f.ew (b / 2 ^ f.fracBits) ≠ [] := by
      intro h
      have := bitsW_length f.ew (b / 2 ^ f.fracBits)
      rw [h] at this; simp at this; omega
    rw [parseBinNat_isBin _ hne (isBin_bitsW _ _), binVal_bitsW]
    rfl
  · rw [← bitsW_mod]
    exact rstrip0_bitsW _ _ (Nat.mod_lt _ (Nat.two_pow_pos _))

theorem float2bin_unfold (f : Fmt) (b : Nat) (hew : 1 ≤ f.ew) (hp : 1 ≤ f.p) (hb : b < 2 ^ f.width)
    (hnan : isNaNb f b = false) :
    float2bin f b =
      (let sign : List Char := if geZero f b then [] else ['-']
       let sig := (if (fields f b).m = 0 then [] else bitsW (f.fracBits - tz (fields f b).m) (oddPart (fields f b).m))
       let eb : Int := 2 ^ (f.ew - 1)
       let e : Int := ((fields f b).e : Nat) - eb + 1
       if e = eb then sign ++ "inf".toList
       else if e = -eb + 1 then
         if sig = [] then ['0']
         else
           let sig' := lstrip0 sig
           let e := e - ((sig.length : Int) - sig'.length)
           let sig' := sig'.drop 1
           if sig' ≠ [] then sign ++ '1' :: '.' :: sig' ++ 'p' :: showExp e
           else sign ++ '1' :: 'p' :: showExp e
       else if sig ≠ [] then sign ++ '1' :: '.' :: sig ++ 'p' :: showExp e
       else sign ++ '1' :: 'p' :: showExp e) := by
  unfold float2bin
  simp only [hnan, Bool.false_eq_true, if_false]
  rw [digits_eq f b hp hb hnan]
  obtain ⟨s1, s2⟩ := digits_slices f b hp
  obtain ⟨p1, p2⟩ := float2bin_parts f b hew hp
  rw [s1, s2, p1, p2]

theorem geZero_fin (f : Fmt) (b : Nat) (hnan : isNaNb f b = false) :
    geZero f b = (!(fields f b).sign || isZerob f b) := by
  unfold geZero; rw [hnan]; simp

theorem frame_eq_nonempty (neg : Bool) (bits : List Char) (e : Int) (h : bits ≠ []) :
    (if neg then ['-'] else []) ++ '1' :: '.' :: bits ++ 'p' :: showExp e = frame neg bits e := by
  unfold frame frameBody mantStr
  simp [h]

theorem frame_eq_empty (neg : Bool) (e : Int) :
    (if neg then ['-'] else []) ++ '1' :: 'p' :: showExp e = frame neg [] e := by
  unfold frame frameBody mantStr
  simp

/-- float2bin of a normal number -/
theorem float2bin_normal (f : Fmt) (b : Nat) (hew : 2 ≤ f.ew) (hp : 1 ≤ f.p) (hb : b < 2 ^ f.width)
    (hfin : isFiniteBits f b = true) (hE : (fields f b).e ≠ 0) :
    float2bin f b = frame (fields f b).sign
      (if (fields f b).m = 0 then [] else bitsW (f.fracBits - tz (fields f b).m) (oddPart (fields f b).m))
      (((fields f b).e : Int) - 2 ^ (f.ew - 1) + 1) := by
  have hsp := fin_not_special f b hfin
  rw [float2bin_unfold f b (by omega) hp hb hsp.2]
  have hz : isZerob f b = false := by unfold isZerob; simp [hE]
  have hg : geZero f b = !(fields f b).sign := by rw [geZero_fin f b hsp.2, hz]; simp
  rw [isFiniteBits_iff] at hfin
  have hK := two_pow_ew_pos f hew
  have hexpMax : f.expMax = 2 * 2 ^ (f.ew - 1) - 1 := by
    unfold Fmt.expMax
    have : f.ew = (f.ew - 1) + 1 := by omega
    conv_lhs => rw [this, Nat.pow_succ]
    omega
  have hKi : (2:ℤ) ^ (f.ew - 1) = ((2 ^ (f.ew - 1) : Nat) : Int) := by push_cast; rfl
  simp only [hKi]
  generalize 2 ^ (f.ew - 1) = K at *
  generalize (fields f b).e = E at *
  have c1 : ¬ ((E : Int) - (K : Int) + 1 = (K : Int)) := by omega
  have c2 : ¬ ((E : Int) - (K : Int) + 1 = -(K : Int) + 1) := by omega
  simp only [c1, c2, if_false]
  have hsign : (if geZero f b = true then ([] : List Char) else ['-']) = (if (fields f b).sign then ['-'] else []) := by
    rw [hg]; cases (fields f b).sign <;> simp
  rw [hsign]
  by_cases hm : (fields f b).m = 0
  · simp only [hm, if_true, ne_eq, not_true_eq_false, if_false]
    exact frame_eq_empty _ _
  · simp only [hm, if_false]
    have hne : bitsW (f.fracBits - tz (fields f b).m) (oddPart (fields f b).m) ≠ [] := by
      intro h
      have hl := bitsW_length (f.fracBits - tz (fields f b).m) (oddPart (fields f b).m)
      rw [h] at hl
      have hlt := fields_m_lt f b
      have hdv := oddPart_mul (fields f b).m
      have hodd := oddPart_ne_zero _ hm
      have : 2 ^ tz (fields f b).m ≤ (fields f b).m := by
        calc 2 ^ tz (fields f b).m = 1 * 2 ^ tz (fields f b).m := by ring
          _ ≤ oddPart (fields f b).m * 2 ^ tz (fields f b).m := Nat.mul_le_mul_right _ (by omega)
          _ = (fields f b).m := hdv
      have : tz (fields f b).m < f.fracBits := by
        by_contra hc
        have := Nat.pow_le_pow_right (by omega : 2 > 0) (Nat.not_lt.mp hc)
        omega
      simp at hl; omega
    simp only [ne_eq, hne, not_false_eq_true, if_true]
    exact frame_eq_nonempty _ _ _ hne

theorem oddPart_lt (M w : Nat) (hM : M ≠ 0) (hlt : M < 2 ^ w) : tz M < w ∧ oddPart M < 2 ^ (w - tz M) := by
  have hdv := oddPart_mul M
  have hodd := oddPart_ne_zero _ hM
  have h1 : 2 ^ tz M ≤ M := by
    calc 2 ^ tz M = 1 * 2 ^ tz M := by ring
      _ ≤ oddPart M * 2 ^ tz M := Nat.mul_le_mul_right _ (by omega)
      _ = M := hdv
  have ht : tz M < w := by
    by_contra hc
    have := Nat.pow_le_pow_right (by omega : 2 > 0) (Nat.not_lt.mp hc)
    omega
  refine ⟨ht, ?_⟩
  by_contra hc
  have hge : 2 ^ (w - tz M) ≤ oddPart M := Nat.not_lt.mp hc
  have : 2 ^ (w - tz M) * 2 ^ tz M ≤ oddPart M * 2 ^ tz M := Nat.mul_le_mul_right _ hge
  rw [← Nat.pow_add, hdv] at this
  have e : w - tz M + tz M = w := by omega
  rw [e] at this; omega

/-- float2bin of a subnormal number -/
theorem float2bin_sub (f : Fmt) (b : Nat) (hew : 2 ≤ f.ew) (hp : 1 ≤ f.p) (hb : b < 2 ^ f.width)
    (hfin : isFiniteBits f b = true) (hE : (fields f b).e = 0) (hM : (fields f b).m ≠ 0) :
    float2bin f b = frame (fields f b).sign
      (bitsW (sigBits (fields f b).m - 1) (oddPart (fields f b).m))
      (1 - 2 ^ (f.ew - 1) - (((f.fracBits - tz (fields f b).m : Nat) : Int) - sigBits (fields f b).m)) := by
  have hsp := fin_not_special f b hfin
  rw [float2bin_unfold f b (by omega) hp hb hsp.2]
  have hz : isZerob f b = false := by unfold isZerob; simp [hM]
  have hg : geZero f b = !(fields f b).sign := by rw [geZero_fin f b hsp.2, hz]; simp
  have hK := two_pow_ew_pos f hew
  have hKi : (2:ℤ) ^ (f.ew - 1) = ((2 ^ (f.ew - 1) : Nat) : Int) := by push_cast; rfl
  simp only [hKi, hE]
  generalize 2 ^ (f.ew - 1) = K at *
  have c0 : ((0:Nat) : Int) - (K : Int) + 1 = -(K : Int) + 1 := by omega
  have c1 : ¬ (-(K : Int) + 1 = (K : Int)) := by omega
  simp only [c0, c1, if_false, if_true, hM]
  have hsign : (if geZero f b = true then ([] : List Char) else ['-']) = (if (fields f b).sign then ['-'] else []) := by
    rw [hg]; cases (fields f b).sign <;> simp
  rw [hsign]
  have hlt := fields_m_lt f b
  generalize (fields f b).m = M at *
  obtain ⟨ht, holt⟩ := oddPart_lt M f.fracBits hM hlt
  have hodd := oddPart_ne_zero _ hM
  obtain ⟨hls, hle⟩ := lstrip0_bitsW (f.fracBits - tz M) (oddPart M) hodd holt
  have hsigne : bitsW (f.fracBits - tz M) (oddPart M) ≠ [] := by
    intro h
    have hl := bitsW_length (f.fracBits - tz M) (oddPart M)
    rw [h] at hl; simp at hl; omega
  simp only [hsigne, if_false, hls, bitsW_length, List.length_cons, List.drop_succ_cons, List.drop_zero]
  have hsb : bitLen (oddPart M) = sigBits M := rfl
  rw [hsb]
  have hL := bitLen_pos _ hodd
  rw [hsb] at hL
  have hexp : -(K : Int) + 1 - (((f.fracBits - tz M : Nat) : Int) - ((sigBits M - 1 + 1 : Nat) : Int))
      = 1 - (K : Int) - (((f.fracBits - tz M : Nat) : Int) - (sigBits M : Int)) := by
    have : ((sigBits M - 1 + 1 : Nat) : Int) = (sigBits M : Int) := by omega
    rw [this]; omega
  rw [hexp]
  by_cases hne : bitsW (sigBits M - 1) (oddPart M) = []
  · simp only [hne, ne_eq, not_true_eq_false, if_false]
    exact frame_eq_empty _ _
  · simp only [ne_eq, hne, not_false_eq_true, if_true]
    exact frame_eq_nonempty _ _ _ hne

theorem negBits_small (f : Fmt) (x : Nat) (h : x < f.signBit) : negBits f x = f.signBit + x := by
  unfold negBits
  have : x / f.signBit = 0 := Nat.div_eq_of_lt h
  rw [this]; simp; omega

theorem signBit_lt_W (f : Fmt) (hp : 1 ≤ f.p) : 2 ^ (f.p - 1) ≤ f.signBit ∧ f.signBit < 2 ^ f.width := by
  have h1 := signBit_eq f hp
  have h2 := width_pow f hp
  have hfb : f.fracBits = f.p - 1 := rfl
  rw [hfb] at h1
  constructor
  · rw [h1]
    calc 2 ^ (f.p - 1) = 1 * 2 ^ (f.p - 1) := by ring
      _ ≤ 2 ^ f.ew * 2 ^ (f.p - 1) := Nat.mul_le_mul_right _ (Nat.two_pow_pos _)
  · have := Nat.two_pow_pos f.ew
    have := Nat.two_pow_pos (f.p - 1)
    have : 0 < f.signBit := by rw [h1]; positivity
    omega

/-- arithmetic tail of bin2float, positive biased exponent -/
theorem b2fCore_pos (f : Fmt) (hp : 1 ≤ f.p) (neg : Bool) (bits : List Char) (hb : isBin bits) (hne : bits ≠ [])
    (E : Nat) (hE0 : 0 < E) (hE : E < 2 ^ f.ew) (M : Nat) (hlen : bits.length ≤ f.p - 1)
    (hv : binVal bits * 2 ^ (f.p - 1 - bits.length) = M) (hM : M < 2 ^ (f.p - 1)) :
    b2fCore f neg bits (E : Int) = .ok ((if neg then f.signBit else 0) + E * 2 ^ (f.p - 1) + M) := by
  obtain ⟨hs1, hs2⟩ := signBit_lt_W f hp
  have hsb := signBit_eq f hp
  have hfb : f.fracBits = f.p - 1 := rfl
  rw [hfb] at hsb
  unfold b2fCore
  have hpos : ¬ ((E : Int) ≤ 0) := by omega
  simp only [hpos, if_false, parseBin_isBin bits hne hb]
  have hvle : binVal bits ≤ M := by
    rw [← hv]; exact Nat.le_mul_of_pos_right _ (Nat.two_pow_pos _)
  have c1 : ¬ (((binVal bits : Nat) : Int) < 0 ∨ ((binVal bits : Nat) : Int) ≥ ((2 ^ f.width : Nat) : Int)) := by
    omega
  have c2 : ¬ (((f.p - 1 : Nat) : Int) - (bits.length : Int) < 0) := by omega
  simp only [c1, c2, if_false]
  have e1 : (((f.p - 1 : Nat) : Int) - (bits.length : Int)).toNat = f.p - 1 - bits.length := by omega
  have e2 : ((binVal bits : Nat) : Int).toNat = binVal bits := by simp
  have e3 : ((E : Nat) : Int).toNat = E := by simp
  rw [e1, e2, e3, hv]
  have hEW : E * 2 ^ (f.p - 1) + M < f.signBit := by
    rw [hsb]
    calc E * 2 ^ (f.p - 1) + M < E * 2 ^ (f.p - 1) + 2 ^ (f.p - 1) := by omega
      _ = (E + 1) * 2 ^ (f.p - 1) := by ring
      _ ≤ 2 ^ f.ew * 2 ^ (f.p - 1) := Nat.mul_le_mul_right _ (by omega)
  have c3 : ¬ (E * 2 ^ (f.p - 1) ≥ 2 ^ f.width) := by omega
  have e4 : M % 2 ^ f.width = M := Nat.mod_eq_of_lt (by omega)
  have e5 : (M + E * 2 ^ (f.p - 1)) % 2 ^ f.width = M + E * 2 ^ (f.p - 1) := Nat.mod_eq_of_lt (by omega)
  simp only [c3, if_false, e4, e5]
  cases neg
  · simp; omega
  · simp only [if_true]
    rw [negBits_small f _ (by omega)]; congr 1; omega

/-- arithmetic tail of bin2float, non-positive biased exponent (subnormal results) -/
theorem b2fCore_nonpos (f : Fmt) (hp : 1 ≤ f.p) (neg : Bool) (bits : List Char) (hb : isBin bits) (z : Nat) (M : Nat)
    (hM0 : M ≠ 0) (hlen : bits.length + 1 ≤ f.p - 1)
    (hv : binVal ('1' :: bits) * 2 ^ (f.p - 1 - bits.length - 1) = M * 2 ^ z) (hM : M * 2 ^ z < 2 ^ (f.p - 1)) :
    b2fCore f neg bits (-(z : Int)) = .ok ((if neg then f.signBit else 0) + M) := by
  obtain ⟨hs1, hs2⟩ := signBit_lt_W f hp
  have hbin1 : isBin ('1' :: bits) := by
    intro c hc
    simp only [List.mem_cons] at hc
    rcases hc with rfl | hc
    · right; rfl
    · exact hb c hc
  unfold b2fCore
  have hnp : (-(z : Int) ≤ 0) := by omega
  simp only [hnp, if_true, parseBin_isBin _ (List.cons_ne_nil _ _) hbin1]
  have hvle : binVal ('1' :: bits) ≤ M * 2 ^ z := by
    rw [← hv]; exact Nat.le_mul_of_pos_right _ (Nat.two_pow_pos _)
  have c1 : ¬ (((binVal ('1' :: bits) : Nat) : Int) < 0 ∨ ((binVal ('1' :: bits) : Nat) : Int) ≥ ((2 ^ f.width : Nat) : Int)) := by
    omega
  have c2 : ¬ (((f.p - 1 : Nat) : Int) - (bits.length : Int) - 1 < 0) := by omega
  simp only [c1, c2, if_false]
  have e1 : (((f.p - 1 : Nat) : Int) - (bits.length : Int) - 1).toNat = f.p - 1 - bits.length - 1 := by omega
  have e2 : ((binVal ('1' :: bits) : Nat) : Int).toNat = binVal ('1' :: bits) := by simp
  have e3 : (-(-(z : Int))).toNat = z := by omega
  rw [e1, e2, e3, hv]
  have hzlt : z < 2 ^ f.width := by
    have h1 : 2 ^ z ≤ M * 2 ^ z := Nat.le_mul_of_pos_left _ (by omega)
    have h2 : z < 2 ^ z := Nat.lt_two_pow_self
    omega
  have c3 : ¬ (z ≥ 2 ^ f.width) := by omega
  have e4 : M * 2 ^ z % 2 ^ f.width = M * 2 ^ z := Nat.mod_eq_of_lt (by omega)
  have e5 : M * 2 ^ z / 2 ^ z = M := Nat.mul_div_cancel _ (Nat.two_pow_pos _)
  simp only [c3, if_false, e4, e5]
  have hMlt : M < f.signBit := by
    have : M ≤ M * 2 ^ z := Nat.le_mul_of_pos_right _ (Nat.two_pow_pos _)
    omega
  cases neg
  · simp
  · simp only [if_true]
    rw [negBits_small f _ hMlt]

theorem isBin_ite (c : Prop) [Decidable c] (l : List Char) (h : isBin l) : isBin (if c then [] else l) := by
  split
  · intro x hx; simp at hx
  · exact h

/-- **bin round trip**: `bin2float (float2bin b) = b` for every finite pattern except `-0`. -/
theorem bin_roundtrip' (f : Fmt) (b : Nat) (hew : 2 ≤ f.ew) (hp : 3 ≤ f.p) (hb : b < 2 ^ f.width)
    (hfin : isFiniteBits f b = true) (hnz : b ≠ f.signBit) :
    bin2float f (float2bin f b) = .ok b := by
  have hp1 : 1 ≤ f.p := by omega
  have hdec := fields_decomp f b hp1 hb
  have hmlt := fields_m_lt f b
  have helt := fields_e_lt f b
  have hfb : f.fracBits = f.p - 1 := rfl
  have hK := two_pow_ew_pos f hew
  by_cases hE : (fields f b).e = 0
  · by_cases hM : (fields f b).m = 0
    · -- zero
      have hsp := fin_not_special f b hfin
      rw [float2bin_unfold f b (by omega) hp1 hb hsp.2]
      have hKi : (2:ℤ) ^ (f.ew - 1) = ((2 ^ (f.ew - 1) : Nat) : Int) := by push_cast; rfl
      simp only [hKi, hE, hM]
      generalize 2 ^ (f.ew - 1) = K at *
      have c0 : ((0:Nat) : Int) - (K : Int) + 1 = -(K : Int) + 1 := by omega
      have c1 : ¬ (-(K : Int) + 1 = (K : Int)) := by omega
      simp only [c0, c1, if_false, if_true]
      rw [hE, hM] at hdec
      have : b = 0 := by
        cases hs : (fields f b).sign
        · rw [hs] at hdec; simpa using hdec
        · rw [hs] at hdec; simp at hdec; exact absurd hdec hnz
      rw [this]; rfl
    · -- subnormal
      rw [float2bin_sub f b hew hp1 hb hfin hE hM, bin2float_frame _ _ _ _ (isBin_bitsW _ _)]
      generalize hMM : (fields f b).m = M at *
      obtain ⟨ht, holt⟩ := oddPart_lt M f.fracBits hM hmlt
      have hodd := oddPart_ne_zero _ hM
      have hL := bitLen_pos _ hodd
      have hle : bitLen (oddPart M) ≤ f.fracBits - tz M := bitLen_le_of_lt _ _ holt
      have hsb : bitLen (oddPart M) = sigBits M := rfl
      rw [hsb] at hL hle
      -- the biased exponent is −z
      obtain ⟨z, hz⟩ : ∃ z : Nat, z = f.fracBits - tz M - sigBits M := ⟨_, rfl⟩
      have hexp : (1 - (2:ℤ) ^ (f.ew - 1) - (((f.fracBits - tz M : Nat) : Int) - (sigBits M : Int)) + 2 ^ (f.ew - 1) - 1) = -(z : Int) := by
        omega
      rw [hexp]
      have hbits1 : isBin (if bitsW (sigBits M - 1) (oddPart M) = [] then ['0'] else bitsW (sigBits M - 1) (oddPart M)) := by
        split
        · intro c hc; simp at hc; left; exact hc
        · exact isBin_bitsW _ _
      have hlen1 : (if bitsW (sigBits M - 1) (oddPart M) = [] then ['0'] else bitsW (sigBits M - 1) (oddPart M)).length
          = max 1 (sigBits M - 1) := by
        split
        · rename_i h
          have := bitsW_length (sigBits M - 1) (oddPart M)
          rw [h] at this; simp at this ⊢; omega
        · rename_i h
          have hl := bitsW_length (sigBits M - 1) (oddPart M)
          have : sigBits M - 1 ≠ 0 := by
            intro h0; rw [h0] at h; simp [bitsW] at h
          rw [hl]; omega
      have hres := b2fCore_nonpos f hp1 (fields f b).sign _ hbits1 z M hM
        (by rw [hlen1]; rw [← hfb]; omega)
        (by
          -- value of the parsed significand
          rw [hlen1]
          have hmul := oddPart_mul M
          by_cases h1 : sigBits M = 1
          · have hbv : bitsW (sigBits M - 1) (oddPart M) = [] := by rw [h1]; rfl
            simp only [hbv, if_true]
            have ho1 : oddPart M = 1 := by
              have := lt_pow_bitLen (oddPart M)
              rw [hsb, h1] at this; omega
            have hv : binVal ['1', '0'] = 2 := by decide
            rw [hv, h1]
            rw [ho1] at hmul
            rw [← hmul]
            have e1 : f.p - 1 - max 1 (1 - 1) - 1 = f.p - 3 := by omega
            have e2 : tz M + z = f.p - 2 := by omega
            rw [e1, Nat.one_mul, ← Nat.pow_add, e2]
            have : f.p - 2 = (f.p - 3) + 1 := by omega
            rw [this, Nat.pow_succ]; ring
          · have hne : bitsW (sigBits M - 1) (oddPart M) ≠ [] := by
              intro h
              have := bitsW_length (sigBits M - 1) (oddPart M)
              rw [h] at this; simp at this; omega
            simp only [hne, if_false]
            have htop := bitsW_top (sigBits M) (oddPart M) hL (by rw [← hsb]; exact pow_bitLen_le _ hodd)
              (by rw [← hsb]; exact lt_pow_bitLen _)
            rw [← htop, binVal_bitsW, Nat.mod_eq_of_lt (by rw [← hsb]; exact lt_pow_bitLen _)]
            have e1 : f.p - 1 - max 1 (sigBits M - 1) - 1 = tz M + z := by omega
            rw [e1, Nat.pow_add, ← Nat.mul_assoc, hmul])
        (by
          calc M * 2 ^ z = oddPart M * 2 ^ (tz M + z) := by
                rw [Nat.pow_add, ← Nat.mul_assoc, oddPart_mul]
            _ < 2 ^ sigBits M * 2 ^ (tz M + z) := Nat.mul_lt_mul_of_lt_of_le (by rw [← hsb]; exact lt_pow_bitLen _) (Nat.le_refl _) (Nat.two_pow_pos _)
            _ = 2 ^ (f.p - 1) := by rw [← Nat.pow_add]; congr 1; omega)
      rw [hres]
      rw [hE] at hdec
      congr 1
      omega
  · -- normal
    rw [float2bin_normal f b hew hp1 hb hfin hE,
      bin2float_frame _ _ _ _ (isBin_ite _ _ (isBin_bitsW _ _))]
    generalize hMM : (fields f b).m = M at *
    generalize hEE : (fields f b).e = E at *
    have hexp : ((E : Int) - (2:ℤ) ^ (f.ew - 1) + 1 + 2 ^ (f.ew - 1) - 1) = (E : Int) := by omega
    rw [hexp]
    by_cases hM : M = 0
    · subst hM
      simp only [if_true]
      have hres := b2fCore_pos f hp1 (fields f b).sign ['0'] (by intro c hc; simp at hc; left; exact hc) (by simp)
        E (by omega) helt 0 (by simp; omega) (by simp [binVal]) (Nat.two_pow_pos _)
      rw [hres]
      congr 1
      rw [hfb] at hdec
      exact hdec.symm
    · simp only [hM, if_false]
      obtain ⟨ht, holt⟩ := oddPart_lt M f.fracBits hM hmlt
      have hne : bitsW (f.fracBits - tz M) (oddPart M) ≠ [] := by
        intro h
        have := bitsW_length (f.fracBits - tz M) (oddPart M)
        rw [h] at this; simp at this; omega
      simp only [hne, if_false]
      have hres := b2fCore_pos f hp1 (fields f b).sign _ (isBin_bitsW _ _) hne
        E (by omega) helt M (by rw [bitsW_length, ← hfb]; omega)
        (by
          rw [bitsW_length, binVal_bitsW, Nat.mod_eq_of_lt holt, ← hfb]
          have : f.fracBits - (f.fracBits - tz M) = tz M := by omega
          rw [this, oddPart_mul])
        (by rw [← hfb]; exact hmlt)
      rw [hres]
      congr 1
      rw [hfb] at hdec
      exact hdec.symm

theorem nat_mul_pow2 (a k : Nat) (e : Int) : ((a * 2 ^ k : Nat) : ℚ) * pow2 e = (a : ℚ) * pow2 (e + k) := by
  rw [pow2_eq_zpow, pow2_eq_zpow, zpow_add₀ (by norm_num : (2:ℚ) ≠ 0), zpow_natCast]
  push_cast; ring

/-- **the float2bin string denotes the decoded value** (finite patterns). -/
theorem bin_value' (f : Fmt) (b : Nat) (hew : 2 ≤ f.ew) (hp : 1 ≤ f.p) (hb : b < 2 ^ f.width)
    (hfin : isFiniteBits f b = true) :
    valueOfBin (float2bin f b) = (decode f b).toRat? := by
  have hmlt := fields_m_lt f b
  have hfb : f.fracBits = f.p - 1 := rfl
  have hK := two_pow_ew_pos f hew
  have hemin := emin_eq f
  have hfin' := (isFiniteBits_iff f b).mp hfin
  by_cases hE : (fields f b).e = 0
  · rw [decode_sub f b hfin' hE]
    by_cases hM : (fields f b).m = 0
    · have hsp := fin_not_special f b hfin
      rw [float2bin_unfold f b (by omega) hp hb hsp.2]
      have hKi : (2:ℤ) ^ (f.ew - 1) = ((2 ^ (f.ew - 1) : Nat) : Int) := by push_cast; rfl
      simp only [hKi, hE, hM]
      generalize 2 ^ (f.ew - 1) = K at *
      have c0 : ((0:Nat) : Int) - (K : Int) + 1 = -(K : Int) + 1 := by omega
      have c1 : ¬ (-(K : Int) + 1 = (K : Int)) := by omega
      simp only [c0, c1, if_false, if_true]
      simp [valueOfBin, V.toRat?]
    · rw [float2bin_sub f b hew hp hb hfin hE hM, valueOfBin_frame _ _ _ (isBin_bitsW _ _)]
      generalize (fields f b).m = M at *
      obtain ⟨ht, holt⟩ := oddPart_lt M f.fracBits hM hmlt
      have hodd := oddPart_ne_zero _ hM
      have hL := bitLen_pos _ hodd
      have hsb : bitLen (oddPart M) = sigBits M := rfl
      rw [hsb] at hL
      have htop := bitsW_top (sigBits M) (oddPart M) hL (by rw [← hsb]; exact pow_bitLen_le _ hodd)
        (by rw [← hsb]; exact lt_pow_bitLen _)
      rw [← htop, binVal_bitsW, Nat.mod_eq_of_lt (by rw [← hsb]; exact lt_pow_bitLen _), bitsW_length]
      simp only [V.toRat?]
      congr 1
      rw [mul_assoc, mul_assoc]
      congr 1
      have hmul := oddPart_mul M
      conv_rhs => rw [← hmul, nat_mul_pow2]
      congr 2
      rw [hemin]
      have : (2:ℤ) ^ (f.ew - 1) = ((2 ^ (f.ew - 1) : Nat) : Int) := by push_cast; rfl
      rw [this]
      have e1 : ((sigBits M - 1 : Nat) : Int) = (sigBits M : Int) - 1 := by omega
      have e2 : ((f.fracBits - tz M : Nat) : Int) = (f.fracBits : Int) - tz M := by omega
      rw [e1, e2]; ring
  · rw [decode_normal f b hfin' hE, float2bin_normal f b hew hp hb hfin hE,
      valueOfBin_frame _ _ _ (isBin_ite _ _ (isBin_bitsW _ _))]
    generalize (fields f b).m = M at *
    generalize (fields f b).e = E at *
    simp only [V.toRat?]
    congr 1
    rw [mul_assoc, mul_assoc]
    congr 1
    have hKi : (2:ℤ) ^ (f.ew - 1) = ((2 ^ (f.ew - 1) : Nat) : Int) := by push_cast; rfl
    by_cases hM : M = 0
    · subst hM
      simp only [if_true, List.length_nil]
      have hv : binVal ['1'] = 1 := by decide
      rw [hv]
      have : (0 + 2 ^ f.fracBits : Nat) = 1 * 2 ^ f.fracBits := by ring
      rw [this, nat_mul_pow2]
      congr 2
      rw [hemin, hKi]; push_cast; ring
    · simp only [hM, if_false]
      obtain ⟨ht, holt⟩ := oddPart_lt M f.fracBits hM hmlt
      rw [binVal_cons, bitsW_length, binVal_bitsW, Nat.mod_eq_of_lt holt]
      simp only [if_true, Nat.one_mul]
      have hmul := oddPart_mul M
      have hsum : M + 2 ^ f.fracBits = (2 ^ (f.fracBits - tz M) + oddPart M) * 2 ^ tz M := by
        rw [Nat.add_mul, ← Nat.pow_add, hmul]
        have : f.fracBits - tz M + tz M = f.fracBits := by omega
        rw [this]; ring
      rw [hsum, nat_mul_pow2]
      congr 2
      rw [hemin, hKi]
      have e2 : ((f.fracBits - tz M : Nat) : Int) = (f.fracBits : Int) - tz M := by omega
      rw [e2]; ring

/-- infinities map to themselves through the bin string -/
theorem bin_roundtrip_inf' (f : Fmt) (b : Nat) (hew : 2 ≤ f.ew) (hp : 1 ≤ f.p) (hb : b < 2 ^ f.width)
    (hinf : isInfb f b = true) : bin2float f (float2bin f b) = .ok b := by
  have hdec := fields_decomp f b hp hb
  unfold isInfb at hinf
  simp only [Bool.and_eq_true, beq_iff_eq] at hinf
  obtain ⟨hE, hM⟩ := hinf
  have hnan : isNaNb f b = false := by unfold isNaNb; simp [hM]
  have hz : isZerob f b = false := by
    unfold isZerob; rw [hE]
    have := expMax_ge f hew
    simp; omega
  rw [float2bin_unfold f b (by omega) hp hb hnan]
  have hK := two_pow_ew_pos f hew
  have hexpMax : f.expMax = 2 * 2 ^ (f.ew - 1) - 1 := by
    unfold Fmt.expMax
    have : f.ew = (f.ew - 1) + 1 := by omega
    conv_lhs => rw [this, Nat.pow_succ]
    omega
  have hKi : (2:ℤ) ^ (f.ew - 1) = ((2 ^ (f.ew - 1) : Nat) : Int) := by push_cast; rfl
  simp only [hKi, hE, hM, hexpMax]
  generalize 2 ^ (f.ew - 1) = K at *
  have c1 : (((2 * K - 1 : Nat) : Int) - (K : Int) + 1 = (K : Int)) := by omega
  simp only [c1, if_true]
  rw [geZero_fin f b hnan, hz]
  have hsb := signBit_lt_W f hp
  have hinfB : f.infBits < f.signBit := by
    rw [signBit_eq f hp]
    unfold Fmt.infBits Fmt.expMax
    apply Nat.mul_lt_mul_of_lt_of_le _ (Nat.le_refl _) (Nat.two_pow_pos _)
    have := Nat.two_pow_pos f.ew; omega
  cases hs : (fields f b).sign
  · simp only [Bool.not_false, Bool.true_or, if_true, List.nil_append]
    have : bin2float f "inf".toList = .ok f.infBits := by
      unfold bin2float
      have t1 : "inf".toList ≠ ['0'] := by decide
      have t2 : "inf".toList ≠ "-inf".toList := by decide
      simp [t1, t2]
    rw [this]
    congr 1
    rw [hs, hE, hM] at hdec
    simp at hdec
    unfold Fmt.infBits; omega
  · simp only [Bool.not_true, Bool.false_or, Bool.false_eq_true, if_false]
    have : bin2float f (['-'] ++ "inf".toList) = .ok (negBits f f.infBits) := by
      unfold bin2float
      have t1 : ['-'] ++ "inf".toList ≠ ['0'] := by decide
      have t2 : ['-'] ++ "inf".toList = "-inf".toList := by decide
      simp [t1, t2]
    rw [this, negBits_small f _ hinfB]
    congr 1
    rw [hs, hE, hM] at hdec
    simp at hdec
    unfold Fmt.infBits; omega

/-- NaN maps to (the canonical) NaN through the bin string -/
theorem bin_roundtrip_nan' (f : Fmt) (b : Nat) (hnan : isNaNb f b = true) :
    bin2float f (float2bin f b) = .ok (nanBits f) := by
  unfold float2bin
  simp only [hnan, if_true]
  unfold bin2float
  have t1 : "nan".toList ≠ ['0'] := by decide
  have t2 : "nan".toList ≠ "-inf".toList := by decide
  have t3 : "nan".toList ≠ "inf".toList := by decide
  simp [t1, t2, t3]

end FAVerif.Conv
