import FAVerif.Lemmas.FPTheory
import FAVerif.Lemmas.Veltkamp
import FAVerif.IR.EvalQ
import FAVerif.Models.EFT

namespace FAVerif.EFT
open FAVerif.IR FAVerif.FPQ FAVerif.Spec FAVerif.FP

/-- Symbolic evaluation of the 2Sum program. -/
theorem evalQ_add2sum (f : Fmt) (r : ℚ → ℚ) (x y : ℚ) :
    evalQ f r add2sum add2sumOuts [x, y] =
      some [r (y + x), r (r (y - r (r (y + x) - x)) + r (x - r (r (y + x) - r (r (y + x) - x))))] := by
  simp [evalQ, evalNodesQ, evalNodeQ, add2sum, add2sumOuts]

theorem evalQ_fast2sum (f : Fmt) (r : ℚ → ℚ) (x y : ℚ) :
    evalQ f r fast2sum fast2sumOuts [x, y] = some [r (y + x), r (y - r (r (y + x) - x))] := by
  simp [evalQ, evalNodesQ, evalNodeQ, fast2sum, fast2sumOuts]

end FAVerif.EFT

namespace FAVerif.EFT
open FAVerif.IR FAVerif.FPQ FAVerif.Spec FAVerif.FP

variable {q : QFmt} {r : ℚ → ℚ}

theorem twosum_prog (hr : IsRN q r) (f : Fmt) {x y : ℚ} (hx : Rep q x) (hy : Rep q y) :
    evalQ f r add2sum add2sumOuts [x, y] = some [r (x + y), x + y - r (x + y)] := by
  rw [evalQ_add2sum]
  have h : r (x + y) + r (r (x - r (r (x + y) - r (r (x + y) - x))) + r (y - r (r (x + y) - x))) = x + y :=
    twosum_exact hr hx hy
  rw [add_comm y x, add_comm (r (y - _))]
  congr 2
  · congr 1
    linarith

theorem fast2sum_prog (hr : IsRN q r) (f : Fmt) {x y : ℚ} (hx : Rep q x) (hy : Rep q y)
    (hxy : |y| ≤ |x|) :
    evalQ f r fast2sum fast2sumOuts [x, y] = some [r (x + y), x + y - r (x + y)] := by
  rw [evalQ_fast2sum]
  have h : r (x + y) + r (y - r (r (x + y) - x)) = x + y := (fast2sum_exact hr hx hy hxy).2
  rw [add_comm y x]
  congr 2
  · congr 1
    linarith

theorem evalQ_add2sumFix (f : Fmt) (r : ℚ → ℚ) (x y L : ℚ) (lb zb : Nat)
    (hL : (decode f lb).toRat? = some L) (hZ : (decode f zb).toRat? = some 0) :
    evalQ f r (add2sumFix lb zb) add2sumFixOuts [x, y] =
      some [r (y + x),
        if (q2b (decide (L < (if r (r (y + x) - x) < 0 then -r (r (y + x) - x) else r (r (y + x) - x))))) ≠ 0 then 0
        else r (r (y - r (r (y + x) - x)) + r (x - r (r (y + x) - r (r (y + x) - x))))] := by
  simp [evalQ, evalNodesQ, evalNodeQ, add2sumFix, add2sumFixOuts, hL, hZ]

theorem evalQ_fast2sumFix (f : Fmt) (r : ℚ → ℚ) (x y L : ℚ) (lb zb : Nat)
    (hL : (decode f lb).toRat? = some L) (hZ : (decode f zb).toRat? = some 0) :
    evalQ f r (fast2sumFix lb zb) fast2sumFixOuts [x, y] =
      some [r (y + x),
        if (q2b (decide (L < (if r (r (y + x) - x) < 0 then -r (r (y + x) - x) else r (r (y + x) - x))))) ≠ 0 then 0
        else r (y - r (r (y + x) - x))] := by
  simp [evalQ, evalNodesQ, evalNodeQ, fast2sumFix, fast2sumFixOuts, hL, hZ]

theorem abs_ite (a : ℚ) : (if a < 0 then -a else a) = |a| := by
  split
  · rw [abs_of_neg ‹_›]
  · rw [abs_of_nonneg (not_lt.1 ‹_›)]

theorem twosum_fix_prog (hr : IsRN q r) (f : Fmt) {x y L : ℚ} (lb zb : Nat)
    (hL : (decode f lb).toRat? = some L) (hZ : (decode f zb).toRat? = some 0)
    (hx : Rep q x) (hy : Rep q y) (hno : |r (r (x + y) - x)| ≤ L) :
    evalQ f r (add2sumFix lb zb) add2sumFixOuts [x, y] = some [r (x + y), x + y - r (x + y)] := by
  rw [evalQ_add2sumFix f r x y L lb zb hL hZ, abs_ite, add_comm y x]
  have : ¬ L < |r (r (x + y) - x)| := not_lt.2 hno
  simp only [this, decide_false, q2b, Bool.false_eq_true, if_false, ne_eq, not_true_eq_false]
  have h : r (x + y) + r (r (x - r (r (x + y) - r (r (x + y) - x))) + r (y - r (r (x + y) - x))) = x + y :=
    twosum_exact hr hx hy
  rw [add_comm (r (y - _))]
  congr 2
  · congr 1
    linarith

theorem fast2sum_fix_prog (hr : IsRN q r) (f : Fmt) {x y L : ℚ} (lb zb : Nat)
    (hL : (decode f lb).toRat? = some L) (hZ : (decode f zb).toRat? = some 0)
    (hx : Rep q x) (hy : Rep q y) (hxy : |y| ≤ |x|) (hno : |r (r (x + y) - x)| ≤ L) :
    evalQ f r (fast2sumFix lb zb) fast2sumFixOuts [x, y] = some [r (x + y), x + y - r (x + y)] := by
  rw [evalQ_fast2sumFix f r x y L lb zb hL hZ, abs_ite, add_comm y x]
  have : ¬ L < |r (r (x + y) - x)| := not_lt.2 hno
  simp only [this, decide_false, q2b, Bool.false_eq_true, if_false, ne_eq, not_true_eq_false]
  have h : r (x + y) + r (y - r (r (x + y) - x)) = x + y := (fast2sum_exact hr hx hy hxy).2
  congr 2
  · congr 1
    linarith

end FAVerif.EFT

namespace FAVerif.EFT
open FAVerif.IR FAVerif.FPQ FAVerif.Spec FAVerif.FP

variable {q : QFmt} {r : ℚ → ℚ}

theorem evalQ_splitV (f : Fmt) (r : ℚ → ℚ) (x C : ℚ) (cb : Nat) (hC : (decode f cb).toRat? = some C) :
    evalQ f r (splitV cb) splitVOuts [x] =
      some [r (r (C * x) - r (r (C * x) - x)), r (x - r (r (C * x) - r (r (C * x) - x)))] := by
  simp [evalQ, evalNodesQ, evalNodeQ, splitV, splitVOuts, hC]

theorem evalQ_splitVU (f : Fmt) (r : ℚ → ℚ) (x C : ℚ) (cb : Nat) (hC : (decode f cb).toRat? = some C) :
    evalQ f r (splitVU cb) splitVOuts [x] =
      some [r (r (C * x) + r (x - r (C * x))), r (x - r (r (C * x) + r (x - r (C * x))))] := by
  simp [evalQ, evalNodesQ, evalNodeQ, splitVU, splitVOuts, hC]

/-- `fpa.split_veltkamp` as a program: for every normal x the outputs (xh, xl) satisfy xh + xl = x,
xh has at most p − s significant bits, xl at most s − 1 bits and a sign. -/
theorem splitV_prog (hr : IsRN q r) (f : Fmt) (cb : Nat) {s : ℕ} (hC : (decode f cb).toRat? = some (2 ^ s + 1))
    (hs1 : 1 ≤ s) (hsp : s < q.p) {k e : ℤ} (hk1 : 2 ^ (q.p - 1) ≤ |k|) (hk2 : |k| < 2 ^ q.p) (he : q.emin ≤ e) :
    ∃ xh xl : ℚ, evalQ f r (splitV cb) splitVOuts [(k : ℚ) * 2 ^ e] = some [xh, xl] ∧
      xh + xl = (k : ℚ) * 2 ^ e ∧ Mult (e + s) xh ∧ |xh| ≤ 2 ^ q.p * 2 ^ e ∧ Mult e xl ∧ |xl| ≤ 2 ^ (e + s) / 2 := by
  rw [evalQ_splitV f r _ _ cb hC]
  exact ⟨_, _, rfl, veltkamp hr hs1 hsp hk1 hk2 he⟩

theorem splitVU_prog (hr : IsRN q r) (f : Fmt) (cb : Nat) {s : ℕ} (hC : (decode f cb).toRat? = some (2 ^ s + 1))
    (hs1 : 1 ≤ s) (hsp : s < q.p) {k e : ℤ} (hk1 : 2 ^ (q.p - 1) ≤ |k|) (hk2 : |k| < 2 ^ q.p) (he : q.emin ≤ e) :
    ∃ xh xl : ℚ, evalQ f r (splitVU cb) splitVOuts [(k : ℚ) * 2 ^ e] = some [xh, xl] ∧
      xh + xl = (k : ℚ) * 2 ^ e ∧ Mult (e + s) xh ∧ |xh| ≤ 2 ^ q.p * 2 ^ e ∧ Mult e xl ∧ |xl| ≤ 2 ^ (e + s) / 2 := by
  rw [evalQ_splitVU f r _ _ cb hC]
  exact ⟨_, _, rfl, veltkamp' hr hs1 hsp hk1 hk2 he⟩

lemma ite_q2b {α : Type} (P : Prop) [Decidable P] (a b : α) : (if q2b (decide P) ≠ 0 then a else b) = if P then a else b := by
  by_cases h : P <;> simp [h, q2b]

/-- the scaled splitter as a function on ℚ -/
def scaledSplitQ (r : ℚ → ℚ) (C Xm iN N x : ℚ) : ℚ × ℚ :=
  let xn := if |x| < 1 then x else r (iN * x)
  let g := r (C * xn)
  let gd := r (g - r (g - xn))
  let xh := if Xm < |x| then (if x < 0 then -Xm else Xm) else (if |x| < 1 then gd else r (gd * N))
  (xh, r (x - xh))

/-- **The scaled splitter** on every normal |x| ≤ x_max: scaling by 2^−t and back is exact. -/
theorem veltkamp_scaled (hr : IsRN q r) {s t : ℕ} (Xm : ℚ) (hs1 : 1 ≤ s) (hsp : s < q.p) {k e : ℤ}
    (hk1 : 2 ^ (q.p - 1) ≤ |k|) (hk2 : |k| < 2 ^ q.p) (he : q.emin ≤ e - t) (hxm : |(k : ℚ) * 2 ^ e| ≤ Xm) :
    let xs := scaledSplitQ r (2 ^ s + 1) Xm (1 / 2 ^ t) (2 ^ t) ((k : ℚ) * 2 ^ e)
    xs.1 + xs.2 = (k : ℚ) * 2 ^ e ∧ Mult (e + s) xs.1 ∧ |xs.1| ≤ 2 ^ q.p * 2 ^ e ∧ Mult e xs.2 ∧ |xs.2| ≤ 2 ^ (e + s) / 2 := by
  obtain ⟨x, hx⟩ : ∃ x : ℚ, x = (k : ℚ) * 2 ^ e := ⟨_, rfl⟩
  rw [← hx] at hxm ⊢
  intro xs
  have hnot : ¬ (Xm < |x|) := not_lt.mpr hxm
  by_cases hlt : |x| < 1
  · have he' : q.emin ≤ e := by have : (0 : ℤ) ≤ t := Int.natCast_nonneg t; omega
    have := veltkamp hr hs1 hsp hk1 hk2 he'
    simp only [← hx] at this
    simp only [xs, scaledSplitQ, hnot, hlt, if_true, if_false]
    exact this
  · have h2t : (0 : ℚ) < 2 ^ t := by positivity
    have hxn : (1 / 2 ^ t : ℚ) * x = (k : ℚ) * 2 ^ (e - t) := by
      rw [hx, zpow_sub₀ (by norm_num : (2 : ℚ) ≠ 0), zpow_natCast]; field_simp
    have hrep_xn : Rep q ((k : ℚ) * 2 ^ (e - t)) := ⟨k, e - t, rfl, hk2, he⟩
    simp only [xs, scaledSplitQ, hnot, hlt, if_false]
    rw [hxn, rn_id hr hrep_xn]
    obtain ⟨a1, a2, a3, a4, a5⟩ := veltkamp hr hs1 hsp hk1 hk2 he
    generalize r (r ((2 ^ s + 1) * ((k : ℚ) * 2 ^ (e - ↑t))) - r (r ((2 ^ s + 1) * ((k : ℚ) * 2 ^ (e - ↑t))) - (k : ℚ) * 2 ^ (e - ↑t))) = gh at *
    generalize r ((k : ℚ) * 2 ^ (e - ↑t) - gh) = gl at *
    have hsc : ∀ {j : ℤ} {z : ℚ}, Mult (j - t) z → Mult j (z * 2 ^ t) := by
      intro j z hz
      obtain ⟨m, rfl⟩ := hz
      refine ⟨m, ?_⟩
      rw [zpow_sub₀ (by norm_num : (2 : ℚ) ≠ 0), zpow_natCast]; field_simp
    have hM : Mult (e + s) (gh * 2 ^ t) := hsc (by rwa [show e + (s : ℤ) - t = e - t + s by ring])
    have h2e : (2 : ℚ) ^ (e - t) * 2 ^ t = 2 ^ e := by
      rw [zpow_sub₀ (by norm_num : (2 : ℚ) ≠ 0), zpow_natCast]; field_simp
    have hB : |gh * 2 ^ t| ≤ 2 ^ q.p * 2 ^ e := by
      rw [abs_mul, abs_of_pos h2t]
      calc |gh| * 2 ^ t ≤ 2 ^ q.p * 2 ^ (e - t) * 2 ^ t := mul_le_mul_of_nonneg_right a3 h2t.le
        _ = 2 ^ q.p * 2 ^ e := by rw [mul_assoc, h2e]
    have hs2 : (2 : ℚ) ^ (e + (s : ℤ)) = 2 ^ e * 2 ^ s := by rw [zpow_add₀ (by norm_num : (2 : ℚ) ≠ 0), zpow_natCast]
    have hrep_xh : Rep q (gh * 2 ^ t) := by
      apply rep_of_mult_le (by have : (0 : ℤ) ≤ t := Int.natCast_nonneg t; omega) hM
      refine le_trans hB ?_
      rw [hs2]
      have : (1 : ℚ) ≤ 2 ^ s := one_le_pow₀ (by norm_num)
      have h2e' : (0 : ℚ) < 2 ^ e := zpow_pos (by norm_num) _
      have hp : (0 : ℚ) < 2 ^ q.p := by positivity
      nlinarith [mul_pos hp h2e']
    rw [rn_id hr hrep_xh]
    have hxl_eq : x - gh * 2 ^ t = gl * 2 ^ t := by
      have : (k : ℚ) * 2 ^ (e - t) = gh + gl := a1.symm
      rw [hx, ← h2e, ← mul_assoc, this]; ring
    have hMl : Mult e (gl * 2 ^ t) := hsc a4
    have hs3 : (2 : ℚ) ^ (e - t + (s : ℤ)) * 2 ^ t = 2 ^ (e + (s : ℤ)) := by
      rw [show e - (t : ℤ) + s = e + s - t by ring, zpow_sub₀ (by norm_num : (2 : ℚ) ≠ 0), zpow_natCast]; field_simp
    have hBl : |gl * 2 ^ t| ≤ 2 ^ (e + (s : ℤ)) / 2 := by
      rw [abs_mul, abs_of_pos h2t, ← hs3]
      calc |gl| * 2 ^ t ≤ 2 ^ (e - t + (s : ℤ)) / 2 * 2 ^ t := mul_le_mul_of_nonneg_right a5 h2t.le
        _ = 2 ^ (e - t + (s : ℤ)) * 2 ^ t / 2 := by ring
    have hrep_xl : Rep q (gl * 2 ^ t) := by
      apply rep_of_mult_le (by have : (0 : ℤ) ≤ t := Int.natCast_nonneg t; omega) hMl
      refine le_trans hBl ?_
      rw [hs2]
      have hsn : (2 : ℚ) ^ s ≤ 2 ^ q.p := pow_le_pow_right₀ (by norm_num) (by omega)
      have h2e' : (0 : ℚ) < 2 ^ e := zpow_pos (by norm_num) _
      nlinarith [mul_pos h2e' (by positivity : (0 : ℚ) < 2 ^ s)]
    rw [hxl_eq, rn_id hr hrep_xl]
    exact ⟨by rw [← hxl_eq]; ring, hM, hB, hMl, hBl⟩

theorem evalQ_splitVScale (f : Fmt) (r : ℚ → ℚ) (x C Xm iN N : ℚ) (xmb zb oneb cb invb nb : Nat)
    (hC : (decode f cb).toRat? = some C) (hXm : (decode f xmb).toRat? = some Xm) (hZ : (decode f zb).toRat? = some 0)
    (h1 : (decode f oneb).toRat? = some 1) (hi : (decode f invb).toRat? = some iN) (hN : (decode f nb).toRat? = some N) :
    evalQ f r (splitVScale xmb zb oneb cb invb nb) splitVScaleOuts [x] =
      (let ax := if x < 0 then -x else x
       let xn := if ax < 1 then x else r (iN * x)
       let g := r (C * xn)
       let gd := r (g - r (g - xn))
       let xh := if Xm < ax then (if x < 0 then -Xm else Xm) else (if ax < 1 then gd else r (gd * N))
       some [xh, r (x - xh)]) := by
  simp only [evalQ, evalNodesQ, evalNodeQ, splitVScale, splitVScaleOuts, hC, hXm, hZ, h1, hi, hN, List.getElem?_cons_zero,
    List.getElem?_cons_succ, List.nil_append, List.cons_append, Option.bind_eq_bind, Option.bind_some, List.mapM_cons, List.mapM_nil,
    ite_q2b, Option.pure_def, Option.bind_some]

/-- the scaled splitter as a program -/
theorem splitVScale_prog (hr : IsRN q r) (f : Fmt) (xmb zb oneb cb invb nb : Nat) {s t : ℕ} (Xm : ℚ)
    (hC : (decode f cb).toRat? = some (2 ^ s + 1)) (hXm : (decode f xmb).toRat? = some Xm) (hZ : (decode f zb).toRat? = some 0)
    (h1 : (decode f oneb).toRat? = some 1) (hi : (decode f invb).toRat? = some (1 / 2 ^ t)) (hN : (decode f nb).toRat? = some (2 ^ t))
    (hs1 : 1 ≤ s) (hsp : s < q.p) {k e : ℤ} (hk1 : 2 ^ (q.p - 1) ≤ |k|) (hk2 : |k| < 2 ^ q.p) (he : q.emin ≤ e - t)
    (hxm : |(k : ℚ) * 2 ^ e| ≤ Xm) :
    ∃ xh xl : ℚ, evalQ f r (splitVScale xmb zb oneb cb invb nb) splitVScaleOuts [(k : ℚ) * 2 ^ e] = some [xh, xl] ∧
      xh + xl = (k : ℚ) * 2 ^ e ∧ Mult (e + s) xh ∧ |xh| ≤ 2 ^ q.p * 2 ^ e ∧ Mult e xl ∧ |xl| ≤ 2 ^ (e + s) / 2 := by
  rw [evalQ_splitVScale f r _ _ Xm _ _ xmb zb oneb cb invb nb hC hXm hZ h1 hi hN]
  have habs : ∀ z : ℚ, (if z < 0 then -z else z) = |z| := by
    intro z; split
    · rw [abs_of_neg ‹_›]
    · rw [abs_of_nonneg (not_lt.mp ‹_›)]
  simp only [habs]
  have := veltkamp_scaled hr Xm hs1 hsp hk1 hk2 he hxm
  simp only [scaledSplitQ] at this
  exact ⟨_, _, rfl, this⟩

set_option maxHeartbeats 2000000 in
/-- the unscaled splitters on EVERY representable x (normal, subnormal, zero): xh + xl = x -/
theorem splitV_all (hr : IsRN q r) (f : Fmt) (cb : Nat) {s : ℕ} (hC : (decode f cb).toRat? = some (2 ^ s + 1))
    (hs1 : 1 ≤ s) (hsp : s < q.p) {x : ℚ} (hx : Rep q x) :
    (∃ xh xl : ℚ, evalQ f r (splitV cb) splitVOuts [x] = some [xh, xl] ∧ xh + xl = x) ∧
    (∃ xh xl : ℚ, evalQ f r (splitVU cb) splitVOuts [x] = some [xh, xl] ∧ xh + xl = x) := by
  constructor
  · rw [evalQ_splitV f r _ _ cb hC]
    have := veltkamp_all hr 1 (Or.inl rfl) hs1 hsp hx
    simp only [one_mul] at this
    exact ⟨_, _, rfl, this⟩
  · rw [evalQ_splitVU f r _ _ cb hC]
    have := veltkamp_all hr (-1) (Or.inr rfl) hs1 hsp hx
    simp only [neg_one_mul, neg_sub, sub_neg_eq_add] at this
    exact ⟨_, _, rfl, this⟩

theorem evalQ_mulDekkerScale (f : Fmt) (r : ℚ → ℚ) (x y C Xm iN N : ℚ) (xmb zb oneb cb invb nb : Nat)
    (hC : (decode f cb).toRat? = some C) (hXm : (decode f xmb).toRat? = some Xm) (hZ : (decode f zb).toRat? = some 0)
    (h1 : (decode f oneb).toRat? = some 1) (hi : (decode f invb).toRat? = some iN) (hN : (decode f nb).toRat? = some N) :
    evalQ f r (mulDekkerScale xmb zb oneb cb invb nb) mulDekkerScaleOuts [x, y] =
      (let ax := if x < 0 then -x else x
       let xn := if ax < 1 then x else r (iN * x)
       let gx := r (C * xn)
       let gdx := r (gx - r (gx - xn))
       let xh := if Xm < ax then (if x < 0 then -Xm else Xm) else (if ax < 1 then gdx else r (gdx * N))
       let ay := if y < 0 then -y else y
       let yn := if ay < 1 then y else r (y * iN)
       let gy := r (C * yn)
       let gdy := r (gy - r (gy - yn))
       let yh := if Xm < ay then (if y < 0 then -Xm else Xm) else (if ay < 1 then gdy else r (N * gdy))
       let yl := r (y - yh)
       let xl := r (x - xh)
       let h := r (y * x)
       let t1 := r (r (yh * xh) + -h)
       let t2 := r (r (xh * yl) + t1)
       let t3 := r (t2 + r (yh * xl))
       some [h, r (t3 + r (yl * xl))]) := by
  simp only [evalQ, evalNodesQ, evalNodeQ, mulDekkerScale, mulDekkerScaleOuts, hC, hXm, hZ, h1, hi, hN, List.getElem?_cons_zero,
    List.getElem?_cons_succ, List.nil_append, List.cons_append, Option.bind_eq_bind, Option.bind_some, List.mapM_cons, List.mapM_nil,
    ite_q2b, Option.pure_def, Option.bind_some]

/-- **Dekker's product with the default options** (`mul_dekker(scale=True)`): for normal operands with
|x|, |y| ≤ x_max whose product's error term cannot underflow: h = RN(x·y), h + l = x·y exactly. -/
theorem mulDekkerScale_prog (hr : IsRN q r) (f : Fmt) (xmb zb oneb cb invb nb : Nat) {s t : ℕ} (Xm : ℚ)
    (hC : (decode f cb).toRat? = some (2 ^ s + 1)) (hXm : (decode f xmb).toRat? = some Xm) (hZ : (decode f zb).toRat? = some 0)
    (h1 : (decode f oneb).toRat? = some 1) (hi : (decode f invb).toRat? = some (1 / 2 ^ t)) (hN : (decode f nb).toRat? = some (2 ^ t))
    (h2s : q.p ≤ 2 * s) (h2s2 : 2 * s ≤ q.p + 2) (hs2 : s + 2 ≤ q.p)
    {kx ky ex ey : ℤ} (hkx1 : 2 ^ (q.p - 1) ≤ |kx|) (hkx2 : |kx| < 2 ^ q.p) (hky1 : 2 ^ (q.p - 1) ≤ |ky|) (hky2 : |ky| < 2 ^ q.p)
    (hex : q.emin ≤ ex - t) (hey : q.emin ≤ ey - t) (he : q.emin ≤ ex + ey)
    (x y : ℚ) (hx : x = (kx : ℚ) * 2 ^ ex) (hy : y = (ky : ℚ) * 2 ^ ey) (hxm : |x| ≤ Xm) (hym : |y| ≤ Xm) :
    evalQ f r (mulDekkerScale xmb zb oneb cb invb nb) mulDekkerScaleOuts [x, y] = some [r (x * y), x * y - r (x * y)] := by
  rw [evalQ_mulDekkerScale f r _ _ _ Xm _ _ xmb zb oneb cb invb nb hC hXm hZ h1 hi hN]
  have hs1 : 1 ≤ s := by omega
  have hsp : s < q.p := by omega
  have habs : ∀ z : ℚ, (if z < 0 then -z else z) = |z| := by
    intro z; split
    · rw [abs_of_neg ‹_›]
    · rw [abs_of_nonneg (not_lt.mp ‹_›)]
  have A := veltkamp_scaled hr Xm hs1 hsp hkx1 hkx2 hex (by rw [← hx]; exact hxm)
  have B := veltkamp_scaled hr Xm hs1 hsp hky1 hky2 hey (by rw [← hy]; exact hym)
  simp only [scaledSplitQ, ← hx, ← hy] at A B
  obtain ⟨a1, a2, a3, a4, a5⟩ := A
  obtain ⟨b1, b2, b3, b4, b5⟩ := B
  have hex' : q.emin ≤ ex := by have : (0 : ℤ) ≤ t := Int.natCast_nonneg t; omega
  have hey' : q.emin ≤ ey := by have : (0 : ℤ) ≤ t := Int.natCast_nonneg t; omega
  simp only [habs, mul_comm y (1 / 2 ^ t), mul_comm ((2 : ℚ) ^ t) _]
  rw [mul_comm y x]
  generalize (if Xm < |x| then if x < 0 then -Xm else Xm else if |x| < 1 then
      r (r ((2 ^ s + 1) * if |x| < 1 then x else r (1 / 2 ^ t * x)) - r (r ((2 ^ s + 1) * if |x| < 1 then x else r (1 / 2 ^ t * x)) - if |x| < 1 then x else r (1 / 2 ^ t * x)))
      else r (r (r ((2 ^ s + 1) * if |x| < 1 then x else r (1 / 2 ^ t * x)) - r (r ((2 ^ s + 1) * if |x| < 1 then x else r (1 / 2 ^ t * x)) - if |x| < 1 then x else r (1 / 2 ^ t * x))) * 2 ^ t)) = xh at *
  generalize (if Xm < |y| then if y < 0 then -Xm else Xm else if |y| < 1 then
      r (r ((2 ^ s + 1) * if |y| < 1 then y else r (1 / 2 ^ t * y)) - r (r ((2 ^ s + 1) * if |y| < 1 then y else r (1 / 2 ^ t * y)) - if |y| < 1 then y else r (1 / 2 ^ t * y)))
      else r (r (r ((2 ^ s + 1) * if |y| < 1 then y else r (1 / 2 ^ t * y)) - r (r ((2 ^ s + 1) * if |y| < 1 then y else r (1 / 2 ^ t * y)) - if |y| < 1 then y else r (1 / 2 ^ t * y))) * 2 ^ t)) = yh at *
  generalize r (x - xh) = xl at *
  generalize r (y - yh) = yl at *
  have a1' : xh + xl = (kx : ℚ) * 2 ^ ex := by rw [← hx]; exact a1
  have b1' : yh + yl = (ky : ℚ) * 2 ^ ey := by rw [← hy]; exact b1
  obtain ⟨fA, fB, fC, fD, fT1, fT2, -, fT3, fE, fS⟩ :=
    dekker_core hr h2s h2s2 hs2 hkx1 hkx2 hky1 hky2 he a1' a2 a3 a4 a5 b1' b2 b3 b4 b5
  simp only [← hx, ← hy] at fA fB fC fD fT1 fT2 fT3 fE fS
  generalize r (x * y) = h at *
  rw [mul_comm yh xh, rn_id hr fA, ← sub_eq_add_neg, rn_id hr fT1, rn_id hr fB,
    add_comm (xh * yl), rn_id hr fT2, mul_comm yh xl, rn_id hr fC, rn_id hr fT3, mul_comm yl xl, rn_id hr fD,
    show xh * yh - h + xh * yl + xl * yh + xl * yl = x * y - h by rw [fS]; ring, rn_id hr fE]

set_option maxHeartbeats 2000000 in
theorem evalQ_mulDekkerScaleFix (f : Fmt) (r : ℚ → ℚ) (x y C Xm iN N Lm : ℚ) (xmb zb oneb cb invb nb lb : Nat)
    (hC : (decode f cb).toRat? = some C) (hXm : (decode f xmb).toRat? = some Xm) (hZ : (decode f zb).toRat? = some 0)
    (h1 : (decode f oneb).toRat? = some 1) (hi : (decode f invb).toRat? = some iN) (hN : (decode f nb).toRat? = some N)
    (hL : (decode f lb).toRat? = some Lm) :
    evalQ f r (mulDekkerScaleFix xmb zb oneb cb invb nb lb) mulDekkerScaleFixOuts [x, y] =
      (let ay := if y < 0 then -y else y
       let yn := if ay < 1 then y else r (y * iN)
       let gy := r (C * yn)
       let gdy := r (gy - r (gy - yn))
       let yh := if Xm < ay then (if y < 0 then -Xm else Xm) else (if ay < 1 then gdy else r (N * gdy))
       let ax := if x < 0 then -x else x
       let xn := if ax < 1 then x else r (iN * x)
       let gx := r (C * xn)
       let gdx := r (gx - r (gx - xn))
       let xh := if Xm < ax then (if x < 0 then -Xm else Xm) else (if ax < 1 then gdx else r (gdx * N))
       let pp := r (yh * xh)
       let h := r (y * x)
       let yl := r (y - yh)
       let t1 := r (pp + -h)
       let t2 := r (r (xh * yl) + t1)
       let xl := r (x - xh)
       let t3 := r (t2 + r (yh * xl))
       some [h, if Lm < (if pp < 0 then -pp else pp) then 0 else r (t3 + r (yl * xl))]) := by
  simp only [evalQ, evalNodesQ, evalNodeQ, mulDekkerScaleFix, mulDekkerScaleFixOuts, hC, hXm, hZ, h1, hi, hN, hL, List.getElem?_cons_zero,
    List.getElem?_cons_succ, List.nil_append, List.cons_append, Option.bind_eq_bind, Option.bind_some, List.mapM_cons, List.mapM_nil,
    ite_q2b, Option.pure_def, Option.bind_some, ite_self]

/-- `mul_dekker(scale=True, fix_overflow=True)`: exact whenever the product of the high halves does not overflow. -/
theorem mulDekkerScaleFix_prog (hr : IsRN q r) (f : Fmt) (xmb zb oneb cb invb nb lb : Nat) {s t : ℕ} (Xm Lm : ℚ)
    (hC : (decode f cb).toRat? = some (2 ^ s + 1)) (hXm : (decode f xmb).toRat? = some Xm) (hZ : (decode f zb).toRat? = some 0)
    (h1 : (decode f oneb).toRat? = some 1) (hi : (decode f invb).toRat? = some (1 / 2 ^ t)) (hN : (decode f nb).toRat? = some (2 ^ t))
    (hL : (decode f lb).toRat? = some Lm)
    (h2s : q.p ≤ 2 * s) (h2s2 : 2 * s ≤ q.p + 2) (hs2 : s + 2 ≤ q.p)
    {kx ky ex ey : ℤ} (hkx1 : 2 ^ (q.p - 1) ≤ |kx|) (hkx2 : |kx| < 2 ^ q.p) (hky1 : 2 ^ (q.p - 1) ≤ |ky|) (hky2 : |ky| < 2 ^ q.p)
    (hex : q.emin ≤ ex - t) (hey : q.emin ≤ ey - t) (he : q.emin ≤ ex + ey)
    (x y : ℚ) (hx : x = (kx : ℚ) * 2 ^ ex) (hy : y = (ky : ℚ) * 2 ^ ey) (hxm : |x| ≤ Xm) (hym : |y| ≤ Xm)
    (hno : |r ((scaledSplitQ r (2 ^ s + 1) Xm (1 / 2 ^ t) (2 ^ t) y).1 * (scaledSplitQ r (2 ^ s + 1) Xm (1 / 2 ^ t) (2 ^ t) x).1)| ≤ Lm) :
    evalQ f r (mulDekkerScaleFix xmb zb oneb cb invb nb lb) mulDekkerScaleFixOuts [x, y] = some [r (x * y), x * y - r (x * y)] := by
  rw [evalQ_mulDekkerScaleFix f r _ _ _ Xm _ _ Lm xmb zb oneb cb invb nb lb hC hXm hZ h1 hi hN hL]
  have hs1 : 1 ≤ s := by omega
  have hsp : s < q.p := by omega
  have habs : ∀ z : ℚ, (if z < 0 then -z else z) = |z| := by
    intro z; split
    · rw [abs_of_neg ‹_›]
    · rw [abs_of_nonneg (not_lt.mp ‹_›)]
  have A := veltkamp_scaled hr Xm hs1 hsp hkx1 hkx2 hex (by rw [← hx]; exact hxm)
  have B := veltkamp_scaled hr Xm hs1 hsp hky1 hky2 hey (by rw [← hy]; exact hym)
  simp only [scaledSplitQ, ← hx, ← hy] at A B hno
  obtain ⟨a1, a2, a3, a4, a5⟩ := A
  obtain ⟨b1, b2, b3, b4, b5⟩ := B
  simp only [habs, mul_comm y (1 / 2 ^ t), mul_comm ((2 : ℚ) ^ t) _]
  rw [mul_comm y x]
  generalize (if Xm < |x| then if x < 0 then -Xm else Xm else if |x| < 1 then
      r (r ((2 ^ s + 1) * if |x| < 1 then x else r (1 / 2 ^ t * x)) - r (r ((2 ^ s + 1) * if |x| < 1 then x else r (1 / 2 ^ t * x)) - if |x| < 1 then x else r (1 / 2 ^ t * x)))
      else r (r (r ((2 ^ s + 1) * if |x| < 1 then x else r (1 / 2 ^ t * x)) - r (r ((2 ^ s + 1) * if |x| < 1 then x else r (1 / 2 ^ t * x)) - if |x| < 1 then x else r (1 / 2 ^ t * x))) * 2 ^ t)) = xh at *
  generalize (if Xm < |y| then if y < 0 then -Xm else Xm else if |y| < 1 then
      r (r ((2 ^ s + 1) * if |y| < 1 then y else r (1 / 2 ^ t * y)) - r (r ((2 ^ s + 1) * if |y| < 1 then y else r (1 / 2 ^ t * y)) - if |y| < 1 then y else r (1 / 2 ^ t * y)))
      else r (r (r ((2 ^ s + 1) * if |y| < 1 then y else r (1 / 2 ^ t * y)) - r (r ((2 ^ s + 1) * if |y| < 1 then y else r (1 / 2 ^ t * y)) - if |y| < 1 then y else r (1 / 2 ^ t * y))) * 2 ^ t)) = yh at *
  generalize r (x - xh) = xl at *
  generalize r (y - yh) = yl at *
  have a1' : xh + xl = (kx : ℚ) * 2 ^ ex := by rw [← hx]; exact a1
  have b1' : yh + yl = (ky : ℚ) * 2 ^ ey := by rw [← hy]; exact b1
  obtain ⟨fA, fB, fC, fD, fT1, fT2, -, fT3, fE, fS⟩ :=
    dekker_core hr h2s h2s2 hs2 hkx1 hkx2 hky1 hky2 he a1' a2 a3 a4 a5 b1' b2 b3 b4 b5
  simp only [← hx, ← hy] at fA fB fC fD fT1 fT2 fT3 fE fS
  generalize r (x * y) = h at *
  have hcond : ¬ (Lm < |r (yh * xh)|) := not_lt.mpr hno
  simp only [hcond, if_false]
  rw [mul_comm yh xh, rn_id hr fA, ← sub_eq_add_neg, rn_id hr fT1, rn_id hr fB,
    add_comm (xh * yl), rn_id hr fT2, mul_comm yh xl, rn_id hr fC, rn_id hr fT3, mul_comm yl xl, rn_id hr fD,
    show xh * yh - h + xh * yl + xl * yh + xl * yl = x * y - h by rw [fS]; ring, rn_id hr fE]

theorem evalQ_mulDekker (f : Fmt) (r : ℚ → ℚ) (x y C : ℚ) (cb : Nat) (hC : (decode f cb).toRat? = some C) :
    evalQ f r (mulDekker cb) mulDekkerOuts [x, y] =
      (let xh := r (r (C * x) - r (r (C * x) - x))
       let xl := r (x - xh)
       let yh := r (r (y * C) - r (r (y * C) - y))
       let yl := r (y - yh)
       let h := r (y * x)
       let t1 := r (r (yh * xh) + -h)
       let t2 := r (r (yl * xh) + t1)
       let t3 := r (t2 + r (xl * yh))
       some [h, r (r (xl * yl) + t3)]) := by
  simp [evalQ, evalNodesQ, evalNodeQ, mulDekker, mulDekkerOuts, hC]

theorem evalQ_mulDekkerU (f : Fmt) (r : ℚ → ℚ) (x y C : ℚ) (cb : Nat) (hC : (decode f cb).toRat? = some C) :
    evalQ f r (mulDekkerU cb) mulDekkerOuts [x, y] =
      (let yh := r (r (y * C) + r (y - r (y * C)))
       let yl := r (y - yh)
       let xh := r (r (C * x) + r (x - r (C * x)))
       let xl := r (x - xh)
       let h := r (y * x)
       let t1 := r (r (yh * xh) + -h)
       let t2 := r (r (yl * xh) + t1)
       let t3 := r (r (yh * xl) + t2)
       some [h, r (r (yl * xl) + t3)]) := by
  simp [evalQ, evalNodesQ, evalNodeQ, mulDekkerU, mulDekkerOuts, hC]

theorem evalQ_squareDekkerU (f : Fmt) (r : ℚ → ℚ) (x C : ℚ) (cb : Nat) (hC : (decode f cb).toRat? = some C) :
    evalQ f r (squareDekkerU cb) squareDekkerUOuts [x] =
      (let xh := r (r (C * x) + r (x - r (C * x)))
       let xl := r (x - xh)
       let h := r (x * x)
       let t1 := r (r (xh * xh) + -h)
       let t2 := r (r (xl * xh) + t1)
       let t3 := r (r (xl * xh) + t2)
       some [h, r (r (xl * xl) + t3)]) := by
  simp [evalQ, evalNodesQ, evalNodeQ, squareDekkerU, squareDekkerUOuts, hC]

/-- **Dekker's product as a program** (`fpa.mul_dekker`, scale=False): h = RN(x·y), h + l = x·y. -/
theorem mulDekker_prog (hr : IsRN q r) (f : Fmt) (cb : Nat) {s : ℕ} (hC : (decode f cb).toRat? = some (2 ^ s + 1))
    (h2s : q.p ≤ 2 * s) (h2s2 : 2 * s ≤ q.p + 2) (hs2 : s + 2 ≤ q.p)
    {kx ky ex ey : ℤ} (hkx1 : 2 ^ (q.p - 1) ≤ |kx|) (hkx2 : |kx| < 2 ^ q.p) (hky1 : 2 ^ (q.p - 1) ≤ |ky|) (hky2 : |ky| < 2 ^ q.p)
    (hex : q.emin ≤ ex) (hey : q.emin ≤ ey) (he : q.emin ≤ ex + ey) (x y : ℚ) (hx : x = (kx : ℚ) * 2 ^ ex) (hy : y = (ky : ℚ) * 2 ^ ey) :
    evalQ f r (mulDekker cb) mulDekkerOuts [x, y] = some [r (x * y), x * y - r (x * y)] := by
  rw [evalQ_mulDekker f r _ _ _ cb hC]
  have hs1 : 1 ≤ s := by omega
  have hsp : s < q.p := by omega
  obtain ⟨a1, a2, a3, a4, a5⟩ := veltkamp hr hs1 hsp hkx1 hkx2 hex
  obtain ⟨b1, b2, b3, b4, b5⟩ := veltkamp hr hs1 hsp hky1 hky2 hey
  obtain ⟨fA, fB, fC, fD, fT1, fT2, -, fT3, fE, fS⟩ :=
    dekker_core hr h2s h2s2 hs2 hkx1 hkx2 hky1 hky2 he a1 a2 a3 a4 a5 b1 b2 b3 b4 b5
  simp only [← hx, ← hy] at fA fB fC fD fT1 fT2 fT3 fE fS
  simp only
  rw [mul_comm y (2 ^ s + 1), mul_comm y x]
  generalize r (r ((2 ^ s + 1) * x) - r (r ((2 ^ s + 1) * x) - x)) = xh at *
  generalize r (r ((2 ^ s + 1) * y) - r (r ((2 ^ s + 1) * y) - y)) = yh at *
  generalize r (x - xh) = xl at *
  generalize r (y - yh) = yl at *
  generalize r (x * y) = h at *
  rw [mul_comm yh xh, rn_id hr fA, ← sub_eq_add_neg, rn_id hr fT1, mul_comm yl xh, rn_id hr fB,
    add_comm (xh * yl), rn_id hr fT2, rn_id hr fC, rn_id hr fT3, rn_id hr fD,
    show xl * yl + (xh * yh - h + xh * yl + xl * yh) = x * y - h by rw [fS]; ring, rn_id hr fE]

theorem evalQ_mulDekkerFix (f : Fmt) (r : ℚ → ℚ) (x y C Lm : ℚ) (cb lb zb : Nat) (hC : (decode f cb).toRat? = some C)
    (hL : (decode f lb).toRat? = some Lm) (hZ : (decode f zb).toRat? = some 0) :
    evalQ f r (mulDekkerFix cb lb zb) mulDekkerFixOuts [x, y] =
      (let xh := r (r (C * x) - r (r (C * x) - x))
       let xl := r (x - xh)
       let yh := r (r (y * C) - r (r (y * C) - y))
       let yl := r (y - yh)
       let h := r (y * x)
       let pp := r (yh * xh)
       let t1 := r (pp + -h)
       let t2 := r (r (yl * xh) + t1)
       let t3 := r (t2 + r (xl * yh))
       some [h, if (q2b (decide (Lm < (if pp < 0 then -pp else pp)))) ≠ 0 then 0 else r (r (xl * yl) + t3)]) := by
  simp [evalQ, evalNodesQ, evalNodeQ, mulDekkerFix, mulDekkerFixOuts, hC, hL, hZ]

/-- `fpa.mul_dekker(scale=False, fix_overflow=True)`: when the product of the high halves does not exceed
the largest finite value (no overflow), the `select`s keep Dekker's exact pair. -/
theorem mulDekkerFix_prog (hr : IsRN q r) (f : Fmt) (cb lb zb : Nat) {s : ℕ} (Lm : ℚ) (hC : (decode f cb).toRat? = some (2 ^ s + 1))
    (hL : (decode f lb).toRat? = some Lm) (hZ : (decode f zb).toRat? = some 0)
    (h2s : q.p ≤ 2 * s) (h2s2 : 2 * s ≤ q.p + 2) (hs2 : s + 2 ≤ q.p)
    {kx ky ex ey : ℤ} (hkx1 : 2 ^ (q.p - 1) ≤ |kx|) (hkx2 : |kx| < 2 ^ q.p) (hky1 : 2 ^ (q.p - 1) ≤ |ky|) (hky2 : |ky| < 2 ^ q.p)
    (hex : q.emin ≤ ex) (hey : q.emin ≤ ey) (he : q.emin ≤ ex + ey) (x y : ℚ) (hx : x = (kx : ℚ) * 2 ^ ex) (hy : y = (ky : ℚ) * 2 ^ ey)
    (hno : |r (r (r ((2 ^ s + 1) * y) - r (r ((2 ^ s + 1) * y) - y)) * r (r ((2 ^ s + 1) * x) - r (r ((2 ^ s + 1) * x) - x)))| ≤ Lm) :
    evalQ f r (mulDekkerFix cb lb zb) mulDekkerFixOuts [x, y] = some [r (x * y), x * y - r (x * y)] := by
  rw [evalQ_mulDekkerFix f r _ _ _ Lm cb lb zb hC hL hZ]
  have hs1 : 1 ≤ s := by omega
  have hsp : s < q.p := by omega
  obtain ⟨a1, a2, a3, a4, a5⟩ := veltkamp hr hs1 hsp hkx1 hkx2 hex
  obtain ⟨b1, b2, b3, b4, b5⟩ := veltkamp hr hs1 hsp hky1 hky2 hey
  obtain ⟨fA, fB, fC, fD, fT1, fT2, -, fT3, fE, fS⟩ :=
    dekker_core hr h2s h2s2 hs2 hkx1 hkx2 hky1 hky2 he a1 a2 a3 a4 a5 b1 b2 b3 b4 b5
  simp only [← hx, ← hy] at fA fB fC fD fT1 fT2 fT3 fE fS
  simp only
  rw [mul_comm y (2 ^ s + 1), mul_comm y x]
  generalize r (r ((2 ^ s + 1) * x) - r (r ((2 ^ s + 1) * x) - x)) = xh at *
  generalize r (r ((2 ^ s + 1) * y) - r (r ((2 ^ s + 1) * y) - y)) = yh at *
  generalize r (x - xh) = xl at *
  generalize r (y - yh) = yl at *
  generalize r (x * y) = h at *
  have hcond : ¬ (Lm < (if r (yh * xh) < 0 then -r (yh * xh) else r (yh * xh))) := by
    have : (if r (yh * xh) < 0 then -r (yh * xh) else r (yh * xh)) = |r (yh * xh)| := by
      split
      · rw [abs_of_neg ‹_›]
      · rw [abs_of_nonneg (not_lt.mp ‹_›)]
    rw [this]; exact not_lt.mpr hno
  simp only [hcond, decide_false, q2b, Bool.false_eq_true, if_false, ne_eq, not_true_eq_false]
  rw [mul_comm yh xh, rn_id hr fA, ← sub_eq_add_neg, rn_id hr fT1, mul_comm yl xh, rn_id hr fB,
    add_comm (xh * yl), rn_id hr fT2, rn_id hr fC, rn_id hr fT3, rn_id hr fD,
    show xl * yl + (xh * yh - h + xh * yl + xl * yh) = x * y - h by rw [fS]; ring, rn_id hr fE]

/-- Dekker's product for operands given in normalised form k·2^e with e possibly BELOW emin (subnormal operands):
only x, y on the 2^emin lattice and ex + ey ≥ emin are needed. -/
theorem mulDekker_prog_all (hr : IsRN q r) (f : Fmt) (cb : Nat) {s : ℕ} (hC : (decode f cb).toRat? = some (2 ^ s + 1))
    (h2s : q.p ≤ 2 * s) (h2s2 : 2 * s ≤ q.p + 2) (hs2 : s + 2 ≤ q.p)
    {kx ky ex ey : ℤ} (hkx1 : 2 ^ (q.p - 1) ≤ |kx|) (hkx2 : |kx| < 2 ^ q.p) (hky1 : 2 ^ (q.p - 1) ≤ |ky|) (hky2 : |ky| < 2 ^ q.p)
    (he : q.emin ≤ ex + ey) (x y : ℚ) (hx : x = (kx : ℚ) * 2 ^ ex) (hy : y = (ky : ℚ) * 2 ^ ey)
    (hx0 : Mult q.emin x) (hy0 : Mult q.emin y) :
    evalQ f r (mulDekker cb) mulDekkerOuts [x, y] = some [r (x * y), x * y - r (x * y)] := by
  rw [evalQ_mulDekker f r _ _ _ cb hC]
  have hs1 : 1 ≤ s := by omega
  have hsp : s < q.p := by omega
  have A := veltkamp_gen hr 1 (Or.inl rfl) hs1 hsp hkx1 hkx2 (by rw [← hx]; exact hx0)
  have B := veltkamp_gen hr 1 (Or.inl rfl) hs1 hsp hky1 hky2 (by rw [← hy]; exact hy0)
  simp only [one_mul] at A B
  obtain ⟨a1, a2, a3, a4, a5⟩ := A
  obtain ⟨b1, b2, b3, b4, b5⟩ := B
  obtain ⟨fA, fB, fC, fD, fT1, fT2, -, fT3, fE, fS⟩ :=
    dekker_core hr h2s h2s2 hs2 hkx1 hkx2 hky1 hky2 he a1 a2 a3 a4 a5 b1 b2 b3 b4 b5
  simp only [← hx, ← hy] at fA fB fC fD fT1 fT2 fT3 fE fS
  simp only
  rw [mul_comm y (2 ^ s + 1), mul_comm y x]
  generalize r (r ((2 ^ s + 1) * x) - r (r ((2 ^ s + 1) * x) - x)) = xh at *
  generalize r (r ((2 ^ s + 1) * y) - r (r ((2 ^ s + 1) * y) - y)) = yh at *
  generalize r (x - xh) = xl at *
  generalize r (y - yh) = yl at *
  generalize r (x * y) = h at *
  rw [mul_comm yh xh, rn_id hr fA, ← sub_eq_add_neg, rn_id hr fT1, mul_comm yl xh, rn_id hr fB,
    add_comm (xh * yl), rn_id hr fT2, rn_id hr fC, rn_id hr fT3, rn_id hr fD,
    show xl * yl + (xh * yh - h + xh * yl + xl * yh) = x * y - h by rw [fS]; ring, rn_id hr fE]

/-- `utils.multiply_dekker` (Veltkamp form of the splitter, the other order of accumulation). -/
theorem mulDekkerU_prog (hr : IsRN q r) (f : Fmt) (cb : Nat) {s : ℕ} (hC : (decode f cb).toRat? = some (2 ^ s + 1))
    (h2s : q.p ≤ 2 * s) (h2s2 : 2 * s ≤ q.p + 2) (hs2 : s + 2 ≤ q.p)
    {kx ky ex ey : ℤ} (hkx1 : 2 ^ (q.p - 1) ≤ |kx|) (hkx2 : |kx| < 2 ^ q.p) (hky1 : 2 ^ (q.p - 1) ≤ |ky|) (hky2 : |ky| < 2 ^ q.p)
    (hex : q.emin ≤ ex) (hey : q.emin ≤ ey) (he : q.emin ≤ ex + ey) (x y : ℚ) (hx : x = (kx : ℚ) * 2 ^ ex) (hy : y = (ky : ℚ) * 2 ^ ey) :
    evalQ f r (mulDekkerU cb) mulDekkerOuts [x, y] = some [r (x * y), x * y - r (x * y)] := by
  rw [evalQ_mulDekkerU f r _ _ _ cb hC]
  have hs1 : 1 ≤ s := by omega
  have hsp : s < q.p := by omega
  obtain ⟨a1, a2, a3, a4, a5⟩ := veltkamp' hr hs1 hsp hkx1 hkx2 hex
  obtain ⟨b1, b2, b3, b4, b5⟩ := veltkamp' hr hs1 hsp hky1 hky2 hey
  obtain ⟨fA, fB, fC, fD, fT1, fT2, -, fT3, fE, fS⟩ :=
    dekker_core hr h2s h2s2 hs2 hkx1 hkx2 hky1 hky2 he a1 a2 a3 a4 a5 b1 b2 b3 b4 b5
  simp only [← hx, ← hy] at fA fB fC fD fT1 fT2 fT3 fE fS
  simp only
  rw [mul_comm y (2 ^ s + 1), mul_comm y x]
  generalize r (r ((2 ^ s + 1) * x) + r (x - r ((2 ^ s + 1) * x))) = xh at *
  generalize r (r ((2 ^ s + 1) * y) + r (y - r ((2 ^ s + 1) * y))) = yh at *
  generalize r (x - xh) = xl at *
  generalize r (y - yh) = yl at *
  generalize r (x * y) = h at *
  rw [mul_comm yh xh, rn_id hr fA, ← sub_eq_add_neg, rn_id hr fT1, mul_comm yl xh, rn_id hr fB,
    add_comm (xh * yl), rn_id hr fT2, mul_comm yh xl, rn_id hr fC, add_comm (xl * yh), rn_id hr fT3,
    mul_comm yl xl, rn_id hr fD,
    show xl * yl + (xh * yh - h + xh * yl + xl * yh) = x * y - h by rw [fS]; ring, rn_id hr fE]

/-- `utils.square_dekker`: h = RN(x²), h + l = x² exactly. -/
theorem squareDekkerU_prog (hr : IsRN q r) (f : Fmt) (cb : Nat) {s : ℕ} (hC : (decode f cb).toRat? = some (2 ^ s + 1))
    (h2s : q.p ≤ 2 * s) (h2s2 : 2 * s ≤ q.p + 2) (hs2 : s + 2 ≤ q.p)
    {kx ex : ℤ} (hkx1 : 2 ^ (q.p - 1) ≤ |kx|) (hkx2 : |kx| < 2 ^ q.p)
    (hex : q.emin ≤ ex) (he : q.emin ≤ ex + ex) (x : ℚ) (hx : x = (kx : ℚ) * 2 ^ ex) :
    evalQ f r (squareDekkerU cb) squareDekkerUOuts [x] = some [r (x * x), x * x - r (x * x)] := by
  rw [evalQ_squareDekkerU f r _ _ cb hC]
  have hs1 : 1 ≤ s := by omega
  have hsp : s < q.p := by omega
  obtain ⟨a1, a2, a3, a4, a5⟩ := veltkamp' hr hs1 hsp hkx1 hkx2 hex
  obtain ⟨fA, fB, fC, fD, fT1, fT2, -, fT3, fE, fS⟩ :=
    dekker_core hr h2s h2s2 hs2 hkx1 hkx2 hkx1 hkx2 he a1 a2 a3 a4 a5 a1 a2 a3 a4 a5
  simp only [← hx] at fA fB fC fD fT1 fT2 fT3 fE fS
  simp only
  generalize r (r ((2 ^ s + 1) * x) + r (x - r ((2 ^ s + 1) * x))) = xh at *
  generalize r (x - xh) = xl at *
  generalize r (x * x) = h at *
  rw [mul_comm xl xh] at fT3 fS
  rw [rn_id hr fA, ← sub_eq_add_neg, rn_id hr fT1, mul_comm xl xh, rn_id hr fB, add_comm (xh * xl) (xh * xh - h), rn_id hr fT2,
    add_comm (xh * xl), rn_id hr fT3, rn_id hr fD,
    show xl * xl + (xh * xh - h + xh * xl + xh * xl) = x * x - h by rw [fS]; ring, rn_id hr fE]

end FAVerif.EFT
