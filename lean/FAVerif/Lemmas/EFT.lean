import FAVerif.Lemmas.FPTheory
import FAVerif.IR.EvalQ
import FAVerif.Models.EFT

namespace FAVerif.EFT
open FAVerif.IR FAVerif.FPQ FAVerif.Spec FAVerif.FP

/-- Symbolic evaluation of the 2Sum program. -/
theorem evalQ_add2sum (f : Fmt) (r : ℚ → ℚ) (x y : ℚ) :
    evalQ f r add2sum add2sumOuts [x, y] =
      some [r (y + x), r (r (y - r (r (y + x) - x)) + r (x - r (r (y + x) - r (r (y + x) - x))))] := by
  simp [evalQ, evalNodesQ, evalNodeQ, add2sum, add2sumOuts]

theorem evalQ_fast2sum (f : Fmt) (r : ℚ → ℚ) (x y : ℚ) :
    evalQ f r fast2sum fast2sumOuts [x, y] = some [r (y + x), r (y - r (r (y + x) - x))] := by
  simp [evalQ, evalNodesQ, evalNodeQ, fast2sum, fast2sumOuts]

end FAVerif.EFT

namespace FAVerif.EFT
open FAVerif.IR FAVerif.FPQ FAVerif.Spec FAVerif.FP

variable {q : QFmt} {r : ℚ → ℚ}

theorem twosum_prog (hr : IsRN q r) (f : Fmt) {x y : ℚ} (hx : Rep q x) (hy : Rep q y) :
    evalQ f r add2sum add2sumOuts [x, y] = some [r (x + y), x + y - r (x + y)] := by
  rw [evalQ_add2sum]
  have h : r (x + y) + r (r (x - r (r (x + y) - r (r (x + y) - x))) + r (y - r (r (x + y) - x))) = x + y :=
    twosum_exact hr hx hy
  rw [add_comm y x, add_comm (r (y - _))]
  congr 2
  · congr 1
    linarith

theorem fast2sum_prog (hr : IsRN q r) (f : Fmt) {x y : ℚ} (hx : Rep q x) (hy : Rep q y)
    (hxy : |y| ≤ |x|) :
    evalQ f r fast2sum fast2sumOuts [x, y] = some [r (x + y), x + y - r (x + y)] := by
  rw [evalQ_fast2sum]
  have h : r (x + y) + r (y - r (r (x + y) - x)) = x + y := (fast2sum_exact hr hx hy hxy).2
  rw [add_comm y x]
  congr 2
  · congr 1
    linarith

theorem evalQ_add2sumFix (f : Fmt) (r : ℚ → ℚ) (x y L : ℚ) (lb zb : Nat)
    (hL : (decode f lb).toRat? = some L) (hZ : (decode f zb).toRat? = some 0) :
    evalQ f r (add2sumFix lb zb) add2sumFixOuts [x, y] =
      some [r (y + x),
        if (q2b (decide (L < (if r (r (y + x) - x) < 0 then -r (r (y + x) - x) else r (r (y + x) - x))))) ≠ 0 then 0
        else r (r (y - r (r (y + x) - x)) + r (x - r (r (y + x) - r (r (y + x) - x))))] := by
  simp [evalQ, evalNodesQ, evalNodeQ, add2sumFix, add2sumFixOuts, hL, hZ]

theorem evalQ_fast2sumFix (f : Fmt) (r : ℚ → ℚ) (x y L : ℚ) (lb zb : Nat)
    (hL : (decode f lb).toRat? = some L) (hZ : (decode f zb).toRat? = some 0) :
    evalQ f r (fast2sumFix lb zb) fast2sumFixOuts [x, y] =
      some [r (y + x),
        if (q2b (decide (L < (if r (r (y + x) - x) < 0 then -r (r (y + x) - x) else r (r (y + x) - x))))) ≠ 0 then 0
        else r (y - r (r (y + x) - x))] := by
  simp [evalQ, evalNodesQ, evalNodeQ, fast2sumFix, fast2sumFixOuts, hL, hZ]

theorem abs_ite (a : ℚ) : (if a < 0 then -a else a) = |a| := by
  split
  · rw [abs_of_neg ‹_›]
  · rw [abs_of_nonneg (not_lt.1 ‹_›)]

theorem twosum_fix_prog (hr : IsRN q r) (f : Fmt) {x y L : ℚ} (lb zb : Nat)
    (hL : (decode f lb).toRat? = some L) (hZ : (decode f zb).toRat? = some 0)
    (hx : Rep q x) (hy : Rep q y) (hno : |r (r (x + y) - x)| ≤ L) :
    evalQ f r (add2sumFix lb zb) add2sumFixOuts [x, y] = some [r (x + y), x + y - r (x + y)] := by
  rw [evalQ_add2sumFix f r x y L lb zb hL hZ, abs_ite, add_comm y x]
  have : ¬ L < |r (r (x + y) - x)| := not_lt.2 hno
  simp only [this, decide_false, q2b, Bool.false_eq_true, if_false, ne_eq, not_true_eq_false]
  have h : r (x + y) + r (r (x - r (r (x + y) - r (r (x + y) - x))) + r (y - r (r (x + y) - x))) = x + y :=
    twosum_exact hr hx hy
  rw [add_comm (r (y - _))]
  congr 2
  · congr 1
    linarith

theorem fast2sum_fix_prog (hr : IsRN q r) (f : Fmt) {x y L : ℚ} (lb zb : Nat)
    (hL : (decode f lb).toRat? = some L) (hZ : (decode f zb).toRat? = some 0)
    (hx : Rep q x) (hy : Rep q y) (hxy : |y| ≤ |x|) (hno : |r (r (x + y) - x)| ≤ L) :
    evalQ f r (fast2sumFix lb zb) fast2sumFixOuts [x, y] = some [r (x + y), x + y - r (x + y)] := by
  rw [evalQ_fast2sumFix f r x y L lb zb hL hZ, abs_ite, add_comm y x]
  have : ¬ L < |r (r (x + y) - x)| := not_lt.2 hno
  simp only [this, decide_false, q2b, Bool.false_eq_true, if_false, ne_eq, not_true_eq_false]
  have h : r (x + y) + r (y - r (r (x + y) - x)) = x + y := (fast2sum_exact hr hx hy hxy).2
  congr 2
  · congr 1
    linarith

end FAVerif.EFT
