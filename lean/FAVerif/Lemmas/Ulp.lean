/-
Lemmas for C14 (ULP metric).  Everything is generic in the format `f : Fmt` under the
hypothesis `WF f` (`2 ≤ p`, `2 ≤ ew`), and quantifies over every bit pattern.
-/
import FAVerif.Models.Ulp
import Mathlib.Tactic.Ring
import Mathlib.Tactic.FieldSimp
import Mathlib.Tactic.Positivity
import Mathlib.Tactic.Linarith
import Mathlib.Algebra.Order.Field.Power

namespace FAVerif.Ulp
open FAVerif.FP

/-- well-formed format: at least one fraction bit and at least two exponent bits -/
structure WF (f : Fmt) : Prop where
  hp : 2 ≤ f.p
  hew : 2 ≤ f.ew

/-! ### layout -/

theorem F_pos (f : Fmt) : 0 < 2 ^ f.fracBits := Nat.two_pow_pos _

theorem signBit_eq (f : Fmt) (h : WF f) : f.signBit = 2 ^ f.fracBits * 2 ^ f.ew := by
  have := h.hp
  unfold Fmt.signBit Fmt.width Fmt.fracBits
  rw [← Nat.pow_add]; congr 1; omega

theorem width_eq (f : Fmt) (h : WF f) : 2 ^ f.width = 2 * f.signBit := by
  have := h.hp
  unfold Fmt.signBit Fmt.width
  have : f.ew + f.p = (f.ew + f.p - 1) + 1 := by omega
  rw [this, Nat.pow_succ]; simp; omega

theorem E_ge4 (f : Fmt) (h : WF f) : 4 ≤ 2 ^ f.ew := by
  have := h.hew
  calc 4 = 2 ^ 2 := rfl
    _ ≤ 2 ^ f.ew := Nat.pow_le_pow_right (by decide) this

theorem infBits_add (f : Fmt) (h : WF f) : f.infBits + 2 ^ f.fracBits = f.signBit := by
  rw [signBit_eq f h]; unfold Fmt.infBits Fmt.expMax
  have := E_ge4 f h
  have h2 : 2 ^ f.fracBits * 2 ^ f.ew = (2 ^ f.ew - 1) * 2 ^ f.fracBits + 2 ^ f.fracBits := by
    rw [Nat.mul_comm, Nat.sub_mul]; simp
    have : 2 ^ f.fracBits ≤ 2 ^ f.ew * 2 ^ f.fracBits := Nat.le_mul_of_pos_left _ (by omega)
    omega
  omega

theorem minNormal_le_inf (f : Fmt) (h : WF f) : 3 * 2 ^ f.fracBits ≤ f.infBits := by
  unfold Fmt.infBits Fmt.expMax
  have := E_ge4 f h
  exact Nat.mul_le_mul_right _ (by omega)

theorem fracBits_succ (f : Fmt) (h : WF f) : f.fracBits + 1 = f.p := by
  have := h.hp; unfold Fmt.fracBits; omega

theorem F_ge2 (f : Fmt) (h : WF f) : 2 ≤ 2 ^ f.fracBits := by
  have := h.hp
  have : 1 ≤ f.fracBits := by unfold Fmt.fracBits; omega
  calc 2 = 2 ^ 1 := rfl
    _ ≤ 2 ^ f.fracBits := Nat.pow_le_pow_right (by decide) this

/-- sign bit and magnitude of a pattern -/
theorem sign_mag_cases (f : Fmt) (h : WF f) (b : Nat) (hb : b < 2 ^ f.width) :
    ((fields f b).sign = false ∧ magBits f b = b ∧ b < f.signBit) ∨
    ((fields f b).sign = true ∧ magBits f b + f.signBit = b ∧ magBits f b < f.signBit) := by
  rw [width_eq f h] at hb
  have hS : 0 < f.signBit := by rw [signBit_eq f h]; exact Nat.mul_pos (F_pos f) (Nat.two_pow_pos _)
  unfold fields magBits
  by_cases hlt : b < f.signBit
  · left
    refine ⟨?_, Nat.mod_eq_of_lt hlt, hlt⟩
    simp [Nat.div_eq_of_lt hlt]
  · right
    have hge : f.signBit ≤ b := Nat.le_of_not_lt hlt
    have hdiv : b / f.signBit = 1 := by
      apply Nat.div_eq_of_lt_le <;> omega
    have hmod : b % f.signBit = b - f.signBit := by
      rw [Nat.mod_eq_sub_mod hge, Nat.mod_eq_of_lt (by omega)]
    refine ⟨by simp [hdiv], by omega, by omega⟩

theorem fields_e (f : Fmt) (h : WF f) (b : Nat) : (fields f b).e = magBits f b / 2 ^ f.fracBits := by
  unfold fields magBits
  simp only
  rw [signBit_eq f h, Nat.mod_mul_right_div_self]

theorem fields_m (f : Fmt) (h : WF f) (b : Nat) : (fields f b).m = magBits f b % 2 ^ f.fracBits := by
  unfold fields magBits
  simp only
  rw [signBit_eq f h, Nat.mod_mul_right_mod]

theorem magBits_idem (f : Fmt) (b : Nat) : magBits f (magBits f b) = magBits f b := by
  unfold magBits; exact Nat.mod_mod _ _

theorem magBits_lt (f : Fmt) (h : WF f) (b : Nat) : magBits f b < f.signBit := by
  unfold magBits; apply Nat.mod_lt
  rw [signBit_eq f h]; exact Nat.mul_pos (F_pos f) (Nat.two_pow_pos _)

theorem magBits_of_lt (f : Fmt) (a : Nat) (ha : a < f.signBit) : magBits f a = a := Nat.mod_eq_of_lt ha

theorem sign_of_lt (f : Fmt) (a : Nat) (ha : a < f.signBit) : (fields f a).sign = false := by
  unfold fields; simp [Nat.div_eq_of_lt ha]

/-- finiteness is a bound on the magnitude -/
theorem finite_iff (f : Fmt) (h : WF f) (b : Nat) : isFiniteBits f b = true ↔ magBits f b < f.infBits := by
  unfold isFiniteBits
  rw [fields_e f h]
  have hlt := magBits_lt f h b
  rw [signBit_eq f h] at hlt
  have hE := E_ge4 f h
  have hdiv : magBits f b / 2 ^ f.fracBits < 2 ^ f.ew := (Nat.div_lt_iff_lt_mul (F_pos f)).2 (by rw [Nat.mul_comm]; exact hlt)
  unfold Fmt.infBits Fmt.expMax
  rw [← Nat.div_lt_iff_lt_mul (F_pos f)]
  simp only [bne_iff_ne, ne_eq]
  omega

theorem finite_abs (f : Fmt) (h : WF f) (b : Nat) : isFiniteBits f (absBits f b) = isFiniteBits f b := by
  rw [Bool.eq_iff_iff, finite_iff f h, finite_iff f h]; unfold absBits; rw [magBits_idem]

/-! ### NaN / sign -/

theorem notNaN_of_finite (f : Fmt) (b : Nat) (hb : isFiniteBits f b = true) : isNaNBits f b = false := by
  unfold isFiniteBits at hb
  unfold isNaNBits decode
  simp only [bne_iff_ne, ne_eq] at hb
  simp [hb]
  split <;> rfl

/-- the sign Python computes for a finite value: 0 for both zeros -/
def sg (s : Bool) (a : Nat) : Int := if a = 0 then 0 else if s then -1 else 1

theorem sgn_finite (f : Fmt) (b : Nat) (hb : isFiniteBits f b = true) :
    sgn f b = sg (fields f b).sign (magBits f b) := by
  unfold sgn pyLt0 pyGt0 sg
  rw [notNaN_of_finite f b hb]
  by_cases h0 : magBits f b = 0 <;> cases hs : (fields f b).sign <;> simp [h0]

theorem flushMap_zero (f : Fmt) : flushMap f 0 = 0 := by
  unfold flushMap; simp

/-- arithmetic core of the finite branch of `diff_ulp` -/
theorem dist_core (sx sy : Bool) (a b ia ib : Nat) (ha : a = 0 → ia = 0) (hb : b = 0 → ib = 0) :
    (if sg sx a ≠ sg sy b then ia + ib else if ia ≥ ib then ia - ib else ib - ia)
      = ((if sx then -(ia : Int) else (ia : Int)) - (if sy then -(ib : Int) else (ib : Int))).natAbs := by
  unfold sg
  have ha' : a = 0 → ia = 0 := ha
  have hb' : b = 0 → ib = 0 := hb
  by_cases h1 : a = 0 <;> by_cases h2 : b = 0 <;> cases sx <;> cases sy <;> simp only [h1, h2, if_true, if_false] <;>
    (try have := ha' h1) <;> (try have := hb' h2) <;> simp <;> (try split) <;> omega

/-! ### diff_ulp on finite patterns -/

theorem diffUlp_finite (f : Fmt) (h : WF f) (fl : Option Bool) (en : Bool) (x y : Nat)
    (hx : isFiniteBits f x = true) (hy : isFiniteBits f y = true) :
    diffUlp f fl en x y =
      (if sg (fields f x).sign (magBits f x) ≠ sg (fields f y).sign (magBits f y) then
        (if flushArg fl then flushMap f (magBits f x) else magBits f x) +
        (if flushArg fl then flushMap f (magBits f y) else magBits f y)
      else if (if flushArg fl then flushMap f (magBits f x) else magBits f x) ≥
              (if flushArg fl then flushMap f (magBits f y) else magBits f y) then
        (if flushArg fl then flushMap f (magBits f x) else magBits f x) -
        (if flushArg fl then flushMap f (magBits f y) else magBits f y)
      else
        (if flushArg fl then flushMap f (magBits f y) else magBits f y) -
        (if flushArg fl then flushMap f (magBits f x) else magBits f x)) := by
  unfold diffUlp
  have hx' := finite_abs f h x
  have hy' := finite_abs f h y
  unfold absBits at hx' hy'
  simp only [absBits, hx', hy', hx, hy, sgn_finite f x hx, sgn_finite f y hy, Bool.and_self, if_true]
  rfl

/-- `diff_ulp` without flushing is the distance of the ordinals -/
theorem diff_eq' (f : Fmt) (h : WF f) (fl : Option Bool) (en : Bool) (x y : Nat) (hfl : flushArg fl = false)
    (hx : isFiniteBits f x = true) (hy : isFiniteBits f y = true) :
    diffUlp f fl en x y = (ord f x - ord f y).natAbs := by
  rw [diffUlp_finite f h fl en x y hx hy]
  simp only [hfl, Bool.false_eq_true, if_false]
  rw [dist_core _ _ _ _ _ _ (fun h => h) (fun h => h)]
  unfold ord
  cases (fields f x).sign <;> cases (fields f y).sign <;> simp

/-- `diff_ulp` with flushing is the distance of the flushed ordinals -/
theorem flush_eq' (f : Fmt) (h : WF f) (fl : Option Bool) (en : Bool) (x y : Nat) (hfl : flushArg fl = true)
    (hx : isFiniteBits f x = true) (hy : isFiniteBits f y = true) :
    diffUlp f fl en x y = (flushOrd f x - flushOrd f y).natAbs := by
  rw [diffUlp_finite f h fl en x y hx hy]
  simp only [hfl, if_true]
  rw [dist_core _ _ _ _ _ _ (fun h => by rw [h, flushMap_zero]) (fun h => by rw [h, flushMap_zero])]
  unfold flushOrd
  cases (fields f x).sign <;> cases (fields f y).sign <;> simp

/-! ### ordinals -/

theorem ord_bounds (f : Fmt) (_h : WF f) (b : Nat) :
    (ord f b).natAbs = magBits f b := by
  unfold ord; split <;> simp

theorem finite_iff_ord (f : Fmt) (h : WF f) (b : Nat) :
    isFiniteBits f b = true ↔ (ord f b).natAbs ≤ f.maxBits := by
  rw [finite_iff f h, ord_bounds f h]
  have := minNormal_le_inf f h
  have := F_pos f
  unfold Fmt.maxBits; omega

theorem ord_succ' (f : Fmt) (h : WF f) (b : Nat) (hb : b < 2 ^ f.width) (hfin : isFiniteBits f b = true) :
    ord f (nextUp f b) = ord f b + 1 ∧ nextUp f b < 2 ^ f.width := by
  have hm := (finite_iff f h b).1 hfin
  have hinf := infBits_add f h
  have hF := F_ge2 f h
  have hw := width_eq f h
  rcases sign_mag_cases f h b hb with ⟨hs, hmag, hlt⟩ | ⟨hs, hmag, hlt⟩
  · have hn : nextUp f b = b + 1 := by unfold nextUp; simp [hs]
    have hlt' : b + 1 < f.signBit := by omega
    rw [hn]; refine ⟨?_, by omega⟩
    unfold ord
    rw [hs, sign_of_lt f _ hlt', magBits_of_lt f _ hlt', hmag]; simp
  · by_cases h0 : magBits f b = 0
    · have hn : nextUp f b = 1 := by unfold nextUp; simp [hs, h0]
      have h1 : 1 < f.signBit := by omega
      rw [hn]; refine ⟨?_, by omega⟩
      unfold ord
      rw [hs, sign_of_lt f _ h1, magBits_of_lt f _ h1, h0]; simp
    · have hn : nextUp f b = b - 1 := by unfold nextUp; simp [hs, h0]
      rw [hn]; refine ⟨?_, by omega⟩
      have hb1 : b - 1 < 2 ^ f.width := by omega
      rcases sign_mag_cases f h (b - 1) hb1 with ⟨_, _, hlt2⟩ | ⟨hs2, hmag2, _⟩
      · omega
      · unfold ord
        rw [hs, hs2]; simp only [if_true]; omega

theorem nextUp_finite (f : Fmt) (h : WF f) (b : Nat) (hb : b < 2 ^ f.width) (hfin : isFiniteBits f b = true)
    (hmax : b ≠ f.maxBits) : isFiniteBits f (nextUp f b) = true := by
  have hsucc := (ord_succ' f h b hb hfin).1
  have hm := (finite_iff f h b).1 hfin
  have h3 := minNormal_le_inf f h
  have hF := F_pos f
  rw [finite_iff_ord f h, hsucc]
  rcases sign_mag_cases f h b hb with ⟨hs, hmag, hlt⟩ | ⟨hs, hmag, hlt⟩
  · have : ord f b = b := by unfold ord; rw [hs, hmag]; simp
    unfold Fmt.maxBits at *; omega
  · have : ord f b = -(magBits f b : Int) := by unfold ord; rw [hs]; simp
    unfold Fmt.maxBits at *; omega

theorem nextUp_max' (f : Fmt) (h : WF f) : nextUp f f.maxBits = f.infBits ∧ isFiniteBits f f.maxBits = true := by
  have hinf := infBits_add f h
  have hF := F_ge2 f h
  have h3 := minNormal_le_inf f h
  have hlt : f.maxBits < f.signBit := by unfold Fmt.maxBits; omega
  refine ⟨?_, ?_⟩
  · unfold nextUp; rw [sign_of_lt f _ hlt]; unfold Fmt.maxBits; simp; omega
  · rw [finite_iff f h, magBits_of_lt f _ hlt]; unfold Fmt.maxBits; omega

theorem ord_maxBits (f : Fmt) (h : WF f) : ord f f.maxBits = (f.maxBits : Int) := by
  have hinf := infBits_add f h
  have hF := F_ge2 f h
  have hlt : f.maxBits < f.signBit := by unfold Fmt.maxBits; omega
  unfold ord; rw [sign_of_lt f _ hlt, magBits_of_lt f _ hlt]; simp

/-- equal ordinals: the same pattern, or the two zeros -/
theorem ord_eq_iff (f : Fmt) (h : WF f) (x y : Nat) (hx : x < 2 ^ f.width) (hy : y < 2 ^ f.width) :
    ord f x = ord f y ↔ (x = y ∨ (magBits f x = 0 ∧ magBits f y = 0)) := by
  unfold ord
  rcases sign_mag_cases f h x hx with ⟨hs, hmag, hlt⟩ | ⟨hs, hmag, hlt⟩ <;>
  rcases sign_mag_cases f h y hy with ⟨hs', hmag', hlt'⟩ | ⟨hs', hmag', hlt'⟩ <;>
  simp only [hs, hs', if_true, if_false, Bool.false_eq_true] <;> omega

theorem nextUpN_spec (f : Fmt) (h : WF f) : ∀ (k : Nat) (b : Nat), b < 2 ^ f.width → isFiniteBits f b = true →
    ord f b + k ≤ f.maxBits →
    nextUpN f k b < 2 ^ f.width ∧ isFiniteBits f (nextUpN f k b) = true ∧ ord f (nextUpN f k b) = ord f b + k := by
  intro k
  induction k with
  | zero => intro b hb hfin _; exact ⟨hb, hfin, by simp [nextUpN]⟩
  | succ k ih =>
    intro b hb hfin hle
    have hne : b ≠ f.maxBits := by
      intro he; rw [he, ord_maxBits f h] at hle; omega
    obtain ⟨hs, hw⟩ := ord_succ' f h b hb hfin
    have hf := nextUp_finite f h b hb hfin hne
    obtain ⟨h1, h2, h3⟩ := ih (nextUp f b) hw hf (by rw [hs]; omega)
    refine ⟨h1, h2, ?_⟩
    show ord f (nextUpN f k (nextUp f b)) = _
    rw [h3, hs]; omega

/-! ### flush mode -/

theorem flushMap_mono (f : Fmt) (a b : Nat) (hab : a ≤ b) : flushMap f a ≤ flushMap f b := by
  unfold flushMap
  simp only
  split <;> split <;> (try split) <;> (try split) <;> omega

theorem flushMap_sub (f : Fmt) (a : Nat) (ha : a < f.minNormalBits) :
    flushMap f a = if 2 * a < f.minNormalBits then 0 else 1 := by
  unfold flushMap flushI
  simp only
  split <;> split <;> (try split) <;> omega

theorem flushMap_normal (f : Fmt) (a : Nat) (ha : f.minNormalBits ≤ a) :
    flushMap f a = a - f.minNormalBits + 1 := by
  have : 0 < f.minNormalBits := F_pos f
  unfold flushMap flushI
  simp only
  split <;> omega

theorem flushOrd_mono (f : Fmt) (h : WF f) (x y : Nat) (hx : x < 2 ^ f.width) (hy : y < 2 ^ f.width)
    (hxy : ord f x ≤ ord f y) : flushOrd f x ≤ flushOrd f y := by
  unfold ord at hxy
  unfold flushOrd
  have h0 := flushMap_zero f
  rcases sign_mag_cases f h x hx with ⟨hs, hmag, hlt⟩ | ⟨hs, hmag, hlt⟩ <;>
  rcases sign_mag_cases f h y hy with ⟨hs', hmag', hlt'⟩ | ⟨hs', hmag', hlt'⟩ <;>
  simp only [hs, hs', if_true, if_false, Bool.false_eq_true] at hxy ⊢
  · have := flushMap_mono f _ _ (by omega : magBits f x ≤ magBits f y); omega
  · have h1 : magBits f x = 0 := by omega
    have h2 : magBits f y = 0 := by omega
    rw [h1, h2, h0]; omega
  · omega
  · have := flushMap_mono f _ _ (by omega : magBits f y ≤ magBits f x); omega

theorem flushOrd_normal (f : Fmt) (b : Nat) (hn : f.minNormalBits ≤ magBits f b) :
    flushOrd f b = if 0 < ord f b then ord f b - (flushI f : Int) else ord f b + (flushI f : Int) := by
  have : 0 < f.minNormalBits := F_pos f
  unfold flushOrd ord
  rw [flushMap_normal f _ hn]
  unfold flushI
  cases (fields f b).sign <;> simp <;> split <;> omega

/-! ### values: `magVal` is strictly increasing, `decode` agrees with `sval` -/

theorem magVal_lt_bound (f : Fmt) (a : Nat) : magVal f a < 2 ^ f.fracBits * 2 ^ (a / 2 ^ f.fracBits) := by
  have hF := F_pos f
  have hm : a % 2 ^ f.fracBits < 2 ^ f.fracBits := Nat.mod_lt _ hF
  unfold magVal
  simp only
  split
  · next h0 => rw [h0]; simpa using hm
  · next h0 =>
    obtain ⟨e, he⟩ := Nat.exists_eq_succ_of_ne_zero h0
    rw [he]; simp only [Nat.succ_eq_add_one, Nat.add_sub_cancel, Nat.pow_succ]
    have hp : 0 < 2 ^ e := Nat.two_pow_pos e
    nlinarith

theorem magVal_ge_bound (f : Fmt) (a : Nat) (he : a / 2 ^ f.fracBits ≠ 0) :
    2 ^ f.fracBits * 2 ^ (a / 2 ^ f.fracBits - 1) ≤ magVal f a := by
  unfold magVal
  simp only [he, if_false]
  exact Nat.mul_le_mul_right _ (Nat.le_add_left _ _)

theorem magVal_lt (f : Fmt) (a b : Nat) (hab : a < b) : magVal f a < magVal f b := by
  have hF := F_pos f
  have hma : a % 2 ^ f.fracBits < 2 ^ f.fracBits := Nat.mod_lt _ hF
  have hmb : b % 2 ^ f.fracBits < 2 ^ f.fracBits := Nat.mod_lt _ hF
  have hda := Nat.div_add_mod a (2 ^ f.fracBits)
  have hdb := Nat.div_add_mod b (2 ^ f.fracBits)
  have hle : a / 2 ^ f.fracBits ≤ b / 2 ^ f.fracBits := Nat.div_le_div_right (Nat.le_of_lt hab)
  rcases Nat.lt_or_eq_of_le hle with hlt | heq
  · have hb0 : b / 2 ^ f.fracBits ≠ 0 := Nat.pos_iff_ne_zero.mp (Nat.lt_of_le_of_lt (Nat.zero_le _) hlt)
    have h1 := magVal_lt_bound f a
    have h2 := magVal_ge_bound f b hb0
    have h3 : 2 ^ (a / 2 ^ f.fracBits) ≤ 2 ^ (b / 2 ^ f.fracBits - 1) :=
      Nat.pow_le_pow_right (by decide) (Nat.le_sub_one_of_lt hlt)
    have h4 := Nat.mul_le_mul_left (2 ^ f.fracBits) h3
    exact Nat.lt_of_lt_of_le h1 (Nat.le_trans h4 h2)
  · have hm : a % 2 ^ f.fracBits < b % 2 ^ f.fracBits := by
      have e1 : 2 ^ f.fracBits * (a / 2 ^ f.fracBits) = 2 ^ f.fracBits * (b / 2 ^ f.fracBits) := by rw [heq]
      omega
    unfold magVal
    simp only [heq]
    split
    · exact hm
    · exact Nat.mul_lt_mul_of_pos_right (by omega) (Nat.two_pow_pos _)

theorem magVal_zero (f : Fmt) : magVal f 0 = 0 := by
  have hF := F_pos f
  unfold magVal; simp [Nat.div_eq_of_lt hF]

theorem magVal_lt_iff (f : Fmt) (a b : Nat) : magVal f a < magVal f b ↔ a < b := by
  constructor
  · intro hlt
    rcases Nat.lt_trichotomy a b with h | h | h
    · exact h
    · rw [h] at hlt; omega
    · have := magVal_lt f b a h; omega
  · exact magVal_lt f a b

theorem magVal_eq_zero_iff (f : Fmt) (a : Nat) : magVal f a = 0 ↔ a = 0 := by
  constructor
  · intro h0
    rcases Nat.eq_zero_or_pos a with h | h
    · exact h
    · have := magVal_lt f 0 a h; rw [magVal_zero] at this; omega
  · intro h; rw [h, magVal_zero]

/-- the scaled value orders patterns exactly as the ordinal does -/
theorem sval_lt_iff (f : Fmt) (x y : Nat) : sval f x < sval f y ↔ ord f x < ord f y := by
  unfold sval ord
  have h1 := magVal_lt_iff f (magBits f x) (magBits f y)
  have h2 := magVal_lt_iff f (magBits f y) (magBits f x)
  have h3 := magVal_eq_zero_iff f (magBits f x)
  have h4 := magVal_eq_zero_iff f (magBits f y)
  cases (fields f x).sign <;> cases (fields f y).sign <;> simp only [if_true, if_false, Bool.false_eq_true] <;> omega

theorem sval_eq_iff (f : Fmt) (x y : Nat) : sval f x = sval f y ↔ ord f x = ord f y := by
  have h1 := sval_lt_iff f x y
  have h2 := sval_lt_iff f y x
  omega

theorem pow2_eq_zpow (e : Int) : pow2 e = (2 : Rat) ^ e := by
  unfold pow2
  split
  · next h =>
    obtain ⟨n, rfl⟩ := Int.eq_ofNat_of_zero_le h
    simp
  · next h =>
    obtain ⟨n, rfl⟩ : ∃ n : Nat, e = -(n : Int) := ⟨(-e).toNat, by omega⟩
    simp

theorem pow2_pos (e : Int) : 0 < pow2 e := by
  rw [pow2_eq_zpow]; positivity

theorem pow2_add_nat (z : Int) (n : Nat) : pow2 ((n : Int) + z) = ((2 ^ n : Nat) : Rat) * pow2 z := by
  rw [pow2_eq_zpow, pow2_eq_zpow, zpow_add₀ (by norm_num : (2 : Rat) ≠ 0)]
  simp

theorem decode_finite (f : Fmt) (h : WF f) (b : Nat) (hfin : isFiniteBits f b = true) :
    decode f b =
      if magBits f b / 2 ^ f.fracBits = 0 then .fin (fields f b).sign (magBits f b % 2 ^ f.fracBits) f.emin
      else .fin (fields f b).sign (magBits f b % 2 ^ f.fracBits + 2 ^ f.fracBits)
            (((magBits f b / 2 ^ f.fracBits : Nat) : Int) - 1 + f.emin) := by
  unfold isFiniteBits at hfin
  simp only [bne_iff_ne, ne_eq] at hfin
  unfold decode
  simp only [hfin, if_false]
  rw [fields_e f h, fields_m f h]

theorem sval_cast (f : Fmt) (b : Nat) :
    ((sval f b : Int) : Rat) = (if (fields f b).sign then -1 else 1) * ((magVal f (magBits f b) : Nat) : Rat) := by
  unfold sval; cases (fields f b).sign <;> simp

/-- the decoded rational value of a finite pattern is `sval * 2^emin` -/
theorem decode_sval' (f : Fmt) (h : WF f) (b : Nat) (hfin : isFiniteBits f b = true) :
    (decode f b).toRat? = some ((sval f b : Rat) * pow2 f.emin) := by
  rw [decode_finite f h b hfin, sval_cast]
  generalize magBits f b = a
  unfold magVal
  simp only
  split
  · simp only [V.toRat?]
  · next h0 =>
    obtain ⟨e, he⟩ := Nat.exists_eq_succ_of_ne_zero h0
    rw [he]
    simp only [V.toRat?, Nat.succ_eq_add_one, Nat.add_sub_cancel]
    have : ((e + 1 : Nat) : Int) - 1 + f.emin = (e : Int) + f.emin := by omega
    rw [this, pow2_add_nat]
    congr 1
    push_cast
    ring

/-! ### ulp -/

theorem bitLen_normal (f : Fmt) (m : Nat) (hm : m < 2 ^ f.fracBits) : bitLen (m + 2 ^ f.fracBits) = f.fracBits + 1 := by
  have hF := F_pos f
  have hne : m + 2 ^ f.fracBits ≠ 0 := by omega
  have hl : (m + 2 ^ f.fracBits).log2 = f.fracBits :=
    (Nat.log2_eq_iff hne).2 ⟨by omega, by rw [Nat.pow_succ]; omega⟩
  unfold bitLen
  rw [if_neg hne, hl]

theorem bitLen_sub (f : Fmt) (m : Nat) (h0 : m ≠ 0) (hm : m < 2 ^ f.fracBits) : bitLen m ≤ f.fracBits := by
  unfold bitLen
  rw [if_neg h0]
  have := (Nat.log2_lt h0).2 hm
  omega

/-- decode depends on the pattern only through the sign bit and the magnitude -/
theorem decode_mag (f : Fmt) (h : WF f) (b : Nat) :
    (decode f b).isZero = (decode f (magBits f b)).isZero ∧
    (decode f b).isInf = (decode f (magBits f b)).isInf ∧
    (decode f b).isNaN = (decode f (magBits f b)).isNaN := by
  unfold decode
  simp only [fields_e f h, fields_m f h, magBits_idem]
  refine ⟨?_, ?_, ?_⟩ <;> split <;> (try split) <;> rfl

theorem quot_lt_expMax (f : Fmt) (a : Nat) (ha : a < f.infBits) : a / 2 ^ f.fracBits < f.expMax := by
  unfold Fmt.infBits at ha
  exact (Nat.div_lt_iff_lt_mul (F_pos f)).2 ha

/-- `ulp` on a finite positive pattern is the last line of the Python function -/
theorem ulp_pos (f : Fmt) (h : WF f) (a : Nat) (h0 : a ≠ 0) (ha : a < f.infBits) : ulpOld f a = ulpPos f a := by
  have hF := F_pos f
  have hinf := infBits_add f h
  have hlt : a < f.signBit := by omega
  have hmag := magBits_of_lt f a hlt
  have hs := sign_of_lt f a hlt
  have hfin : isFiniteBits f a = true := (finite_iff f h a).2 (by rw [hmag]; exact ha)
  have hF := F_pos f
  have hd := decode_finite f h a hfin
  rw [hmag, hs] at hd
  have hlt0 : pyLt0 f a = false := by unfold pyLt0; simp [hs]
  unfold ulpOld
  simp only [hd, hlt0]
  split
  · next hq =>
    have hm : a % 2 ^ f.fracBits = a := Nat.mod_eq_of_lt ((Nat.div_eq_zero_iff_lt hF).1 hq)
    simp [V.isZero, V.isInf, V.isNaN, hm, h0]
  · simp [V.isZero, V.isInf, V.isNaN]

theorem frexpExp_normal (f : Fmt) (h : WF f) (a : Nat) (hn : 2 ^ f.fracBits ≤ a) (ha : a < f.infBits) :
    frexpExp f a = ((a / 2 ^ f.fracBits - 1 : Nat) : Int) + f.emin + (f.p : Int) := by
  have hF := F_pos f
  have hinf := infBits_add f h
  have hlt : a < f.signBit := by omega
  have hmag := magBits_of_lt f a hlt
  have hfin : isFiniteBits f a = true := (finite_iff f h a).2 (by rw [hmag]; exact ha)
  have hF := F_pos f
  have hq : a / 2 ^ f.fracBits ≠ 0 := Nat.pos_iff_ne_zero.mp ((Nat.le_div_iff_mul_le hF).2 (by simpa using hn))
  have hd := decode_finite f h a hfin
  rw [hmag] at hd
  obtain ⟨e, he⟩ := Nat.exists_eq_succ_of_ne_zero hq
  unfold frexpExp
  rw [hd, if_neg hq]
  simp only
  rw [if_neg (by omega), bitLen_normal f _ (Nat.mod_lt _ hF), fracBits_succ f h, he]
  simp only [Nat.succ_eq_add_one, Nat.add_sub_cancel]
  push_cast; omega

theorem frexpExp_sub (f : Fmt) (h : WF f) (a : Nat) (h0 : a ≠ 0) (hs : a < 2 ^ f.fracBits) :
    frexpExp f a = f.emin + (bitLen a : Int) := by
  have hF := F_pos f
  have hinf := infBits_add f h
  have h3 := minNormal_le_inf f h
  have hlt : a < f.signBit := by omega
  have hmag := magBits_of_lt f a hlt
  have hfin : isFiniteBits f a = true := (finite_iff f h a).2 (by rw [hmag]; omega)
  have hF := F_pos f
  have hq : a / 2 ^ f.fracBits = 0 := Nat.div_eq_of_lt hs
  have hd := decode_finite f h a hfin
  rw [hmag, if_pos hq, Nat.mod_eq_of_lt hs] at hd
  unfold frexpExp
  rw [hd]
  simp only
  rw [if_neg h0]

/-- **the defect**: for every positive subnormal pattern `ldexp` underflows and `ulp` returns `+0` -/
theorem ulp_sub_zero (f : Fmt) (h : WF f) (a : Nat) (h0 : a ≠ 0) (hs : a < 2 ^ f.fracBits) : ulpOld f a = 0 := by
  have h3 := minNormal_le_inf f h
  rw [ulp_pos f h a h0 (by omega)]
  unfold ulpPos ldexpOne negep
  rw [frexpExp_sub f h a h0 hs]
  have hb := bitLen_sub f a h0 hs
  have hp := fracBits_succ f h
  rw [if_pos (by omega)]

theorem ldexpOne_nat (f : Fmt) (n : Nat) :
    ldexpOne f ((n : Int) + f.emin) =
      if n < f.fracBits then 2 ^ n
      else if f.expMax ≤ n - f.fracBits + 1 then f.infBits else (n - f.fracBits + 1) * 2 ^ f.fracBits := by
  unfold ldexpOne
  rw [if_neg (by omega)]
  by_cases hn : n < f.fracBits
  · rw [if_pos (by omega), if_pos hn]
    congr 1; omega
  · rw [if_neg (by omega), if_neg hn]
    simp only
    have he : (n : Int) + f.emin - f.emin - (f.fracBits : Int) + 1 = ((n - f.fracBits + 1 : Nat) : Int) := by omega
    rw [he]
    simp only [ge_iff_le, Int.ofNat_le, Int.toNat_natCast]

/-- value and range of `ldexp(1, n + emin)` when it does not overflow -/
theorem magVal_ldexpOne (f : Fmt) (h : WF f) (n : Nat) (hn : n + 1 < f.expMax + f.fracBits) :
    magVal f (ldexpOne f ((n : Int) + f.emin)) = 2 ^ n ∧ ldexpOne f ((n : Int) + f.emin) < f.infBits := by
  have hF := F_pos f
  rw [ldexpOne_nat]
  by_cases h1 : n < f.fracBits
  · rw [if_pos h1]
    have hlt : 2 ^ n < 2 ^ f.fracBits := Nat.pow_lt_pow_right (by decide) h1
    refine ⟨?_, ?_⟩
    · unfold magVal; simp only [Nat.div_eq_of_lt hlt, if_true, Nat.mod_eq_of_lt hlt]
    · unfold Fmt.infBits
      have : 1 ≤ f.expMax := by have := E_ge4 f h; unfold Fmt.expMax; omega
      calc 2 ^ n < 2 ^ f.fracBits := hlt
        _ = 1 * 2 ^ f.fracBits := (Nat.one_mul _).symm
        _ ≤ f.expMax * 2 ^ f.fracBits := Nat.mul_le_mul_right _ this
  · rw [if_neg h1, if_neg (by omega)]
    refine ⟨?_, ?_⟩
    · unfold magVal
      simp only [Nat.mul_div_cancel _ hF, Nat.mul_mod_left, Nat.add_sub_cancel, Nat.zero_add]
      rw [if_neg (by omega), ← Nat.pow_add]
      congr 1; omega
    · unfold Fmt.infBits
      exact Nat.mul_lt_mul_of_pos_right (by omega) hF

theorem ulp_normal' (f : Fmt) (h : WF f) (a : Nat) (hn : 2 ^ f.fracBits ≤ a) (ha : a < f.infBits) :
    magVal f (ulpOld f a) = 2 ^ (a / 2 ^ f.fracBits - 1) ∧ ulpOld f a < f.infBits := by
  have hF := F_pos f
  have hq := quot_lt_expMax f a ha
  have hq1 : 1 ≤ a / 2 ^ f.fracBits := (Nat.le_div_iff_mul_le hF).2 (by simpa using hn)
  rw [ulp_pos f h a (by omega) ha]
  unfold ulpPos negep
  rw [frexpExp_normal f h a hn ha]
  have : ((a / 2 ^ f.fracBits - 1 : Nat) : Int) + f.emin + (f.p : Int) + -(f.p : Int)
      = ((a / 2 ^ f.fracBits - 1 : Nat) : Int) + f.emin := by omega
  rw [this]
  exact magVal_ldexpOne f h _ (by omega)

/-! ### negation, signed values -/

theorem negBits_spec (f : Fmt) (h : WF f) (b : Nat) (hb : b < 2 ^ f.width) :
    negBits f b < 2 ^ f.width ∧ magBits f (negBits f b) = magBits f b ∧
    (fields f (negBits f b)).sign = !(fields f b).sign := by
  have hw := width_eq f h
  rcases sign_mag_cases f h b hb with ⟨hs, hmag, hlt⟩ | ⟨hs, hmag, hlt⟩
  · have hn : negBits f b = b + f.signBit := by unfold negBits; simp [hs]
    have hb2 : b + f.signBit < 2 ^ f.width := by omega
    rw [hn, hs]
    rcases sign_mag_cases f h _ hb2 with ⟨_, _, hlt2⟩ | ⟨hs2, hmag2, _⟩
    · omega
    · exact ⟨hb2, by omega, by simp [hs2]⟩
  · have hn : negBits f b = magBits f b := by unfold negBits; simp [hs]
    rw [hn, hs, magBits_idem]
    exact ⟨by omega, rfl, by simp [sign_of_lt f _ hlt]⟩

theorem ord_neg (f : Fmt) (h : WF f) (b : Nat) (hb : b < 2 ^ f.width) : ord f (negBits f b) = -ord f b := by
  obtain ⟨_, hm, hs⟩ := negBits_spec f h b hb
  unfold ord; rw [hm, hs]
  cases (fields f b).sign <;> simp

theorem finite_neg (f : Fmt) (h : WF f) (b : Nat) (hb : b < 2 ^ f.width) :
    isFiniteBits f (negBits f b) = isFiniteBits f b := by
  obtain ⟨_, hm, _⟩ := negBits_spec f h b hb
  rw [Bool.eq_iff_iff, finite_iff f h, finite_iff f h, hm]

theorem ord_pred' (f : Fmt) (h : WF f) (b : Nat) (hb : b < 2 ^ f.width) (hfin : isFiniteBits f b = true) :
    ord f (nextDown f b) = ord f b - 1 := by
  obtain ⟨hnb, _, _⟩ := negBits_spec f h b hb
  have hfn : isFiniteBits f (negBits f b) = true := by rw [finite_neg f h b hb]; exact hfin
  obtain ⟨hs, hw⟩ := ord_succ' f h _ hnb hfn
  unfold nextDown
  rw [ord_neg f h _ hw, hs, ord_neg f h b hb]; omega

theorem sval_of_lt (f : Fmt) (a : Nat) (ha : a < f.signBit) : sval f a = (magVal f a : Int) := by
  unfold sval; rw [sign_of_lt f a ha, magBits_of_lt f a ha]; simp

theorem decode_zero (f : Fmt) (h : WF f) : decode f 0 = .fin false 0 f.emin := by
  have := E_ge4 f h
  unfold decode fields
  have : (0 : Nat) ≠ f.expMax := by unfold Fmt.expMax; omega
  simp [this]

theorem ulp_zero' (f : Fmt) (h : WF f) : ulpOld f 0 = 1 := by
  unfold ulpOld; rw [decode_zero f h]; simp [V.isZero]

theorem ulp_abs (f : Fmt) (h : WF f) (b : Nat) (hb : b < 2 ^ f.width) : ulpOld f b = ulpOld f (magBits f b) := by
  rcases sign_mag_cases f h b hb with ⟨hs, hmag, hlt⟩ | ⟨hs, hmag, hlt⟩
  · rw [hmag]
  · obtain ⟨hz, hi, hn⟩ := decode_mag f h b
    have hs' := sign_of_lt f _ hlt
    have hneg : negBits f b = magBits f b := by unfold negBits; simp [hs]
    have hlt0 : pyLt0 f (magBits f b) = false := by unfold pyLt0; simp [hs']
    unfold ulpOld
    simp only [hz, hi, hn, hlt0, hneg]
    by_cases c1 : (decode f (magBits f b)).isZero = true
    · simp [c1]
    · by_cases c2 : (decode f (magBits f b)).isInf = true
      · simp [c1, c2]
      · by_cases c3 : (decode f (magBits f b)).isNaN = true
        · simp [c1, c2, c3]
        · have hne : magBits f b ≠ 0 := by
            intro h0; apply c1; rw [h0, decode_zero f h]; rfl
          have : pyLt0 f b = true := by
            unfold pyLt0 isNaNBits; rw [hn]; simp [c3, hs, hne]
          simp [c1, c2, c3, this]

theorem ulp_neg' (f : Fmt) (h : WF f) (b : Nat) (hb : b < 2 ^ f.width) : ulpOld f (negBits f b) = ulpOld f b := by
  obtain ⟨hnb, hm, _⟩ := negBits_spec f h b hb
  rw [ulp_abs f h _ hnb, hm, ← ulp_abs f h b hb]

theorem magVal_succ_normal (f : Fmt) (a : Nat) (hn : 2 ^ f.fracBits ≤ a) :
    magVal f (a + 1) = magVal f a + 2 ^ (a / 2 ^ f.fracBits - 1) := by
  have hF := F_pos f
  have hq1 : 1 ≤ a / 2 ^ f.fracBits := (Nat.le_div_iff_mul_le hF).2 (by simpa using hn)
  have hm : a % 2 ^ f.fracBits < 2 ^ f.fracBits := Nat.mod_lt _ hF
  have hda := Nat.div_add_mod a (2 ^ f.fracBits)
  obtain ⟨e, he⟩ := Nat.exists_eq_succ_of_ne_zero (Nat.pos_iff_ne_zero.mp hq1)
  by_cases hc : a % 2 ^ f.fracBits + 1 < 2 ^ f.fracBits
  · have hu := (Nat.div_mod_unique (a := a + 1) (d := a / 2 ^ f.fracBits) (c := a % 2 ^ f.fracBits + 1) hF).2
      ⟨by omega, hc⟩
    unfold magVal
    simp only [hu.1, hu.2, he, Nat.succ_eq_add_one, Nat.add_sub_cancel]
    rw [if_neg (Nat.succ_ne_zero e), if_neg (Nat.succ_ne_zero e)]
    ring
  · have hu := (Nat.div_mod_unique (a := a + 1) (d := a / 2 ^ f.fracBits + 1) (c := 0) hF).2
      ⟨by rw [Nat.mul_succ]; omega, hF⟩
    have hmF : a % 2 ^ f.fracBits + 2 ^ f.fracBits + 1 = 2 ^ f.fracBits + 2 ^ f.fracBits := by omega
    unfold magVal
    simp only [hu.1, hu.2, he, Nat.succ_eq_add_one, Nat.add_sub_cancel]
    rw [if_neg (by omega), if_neg (by omega)]
    have : (a % 2 ^ f.fracBits + 2 ^ f.fracBits) * 2 ^ e + 2 ^ e = (a % 2 ^ f.fracBits + 2 ^ f.fracBits + 1) * 2 ^ e := by ring
    rw [this, hmF, Nat.pow_succ]
    ring

theorem magVal_small (f : Fmt) (a : Nat) (ha : a < 2 ^ f.fracBits) : magVal f a = a := by
  unfold magVal; simp [Nat.div_eq_of_lt ha, Nat.mod_eq_of_lt ha]

/-- `x ≥ 0`, zero or normal, below max: the exact sum `x + ulp x` is the value of the upper neighbour -/
theorem ulp_next' (f : Fmt) (h : WF f) (x : Nat) (hx : x < 2 ^ f.width) (hfin : isFiniteBits f x = true)
    (hge : pyLt0 f x = false) (hcls : magBits f x = 0 ∨ f.minNormalBits ≤ magBits f x) (hmax : x ≠ f.maxBits) :
    sval f (nextUp f x) = sval f x + sval f (ulpOld f x) := by
  have hF := F_ge2 f h
  have hinf := infBits_add f h
  have h3 := minNormal_le_inf f h
  have h1S : 1 < f.signBit := by omega
  have hsv1 : sval f 1 = 1 := by rw [sval_of_lt f 1 h1S, magVal_small f 1 (by omega)]; rfl
  have hm := (finite_iff f h x).1 hfin
  rcases sign_mag_cases f h x hx with ⟨hs, hmag, hlt⟩ | ⟨hs, hmag, hlt⟩
  · rcases hcls with h0 | hn
    · have hx0 : x = 0 := by omega
      subst hx0
      have hn : nextUp f 0 = 1 := by unfold nextUp; simp [hs]
      rw [hn, ulp_zero' f h, hsv1, sval_of_lt f 0 hlt, magVal_zero]; rfl
    · rw [hmag] at hn hm
      have hnu : nextUp f x = x + 1 := by unfold nextUp; simp [hs]
      obtain ⟨hv, hul⟩ := ulp_normal' f h x hn hm
      rw [hnu, sval_of_lt f _ (by omega), sval_of_lt f _ hlt, sval_of_lt f _ (by omega), hv,
        magVal_succ_normal f x hn]
      push_cast; rfl
  · have h0 : magBits f x = 0 := by
      unfold pyLt0 at hge
      rw [notNaN_of_finite f x hfin, hs] at hge
      simpa using hge
    have hn : nextUp f x = 1 := by unfold nextUp; simp [hs, h0]
    have hsx : sval f x = 0 := by unfold sval; rw [hs, h0, magVal_zero]; simp
    rw [hn, ulp_abs f h x hx, h0, ulp_zero' f h, hsv1, hsx]; rfl

theorem magVal_infBits (f : Fmt) (h : WF f) : magVal f f.infBits = 2 ^ f.fracBits * 2 ^ (f.expMax - 1) := by
  have hF := F_pos f
  have hE := E_ge4 f h
  have he : f.expMax ≠ 0 := by unfold Fmt.expMax; omega
  unfold magVal Fmt.infBits
  simp only [Nat.mul_div_cancel _ hF, Nat.mul_mod_left, Nat.zero_add, if_neg he]

/-- at `max` the exact sum is `2^(emax+1)` (in units of `2^emin`), above every finite value -/
theorem ulp_next_max' (f : Fmt) (h : WF f) :
    sval f f.maxBits + sval f (ulpOld f f.maxBits) = ((2 ^ f.fracBits * 2 ^ (f.expMax - 1) : Nat) : Int) ∧
    ∀ y, isFiniteBits f y = true → sval f y < ((2 ^ f.fracBits * 2 ^ (f.expMax - 1) : Nat) : Int) := by
  have hF := F_ge2 f h
  have hinf := infBits_add f h
  have h3 := minNormal_le_inf f h
  have hmn : 2 ^ f.fracBits ≤ f.maxBits := by unfold Fmt.maxBits; omega
  have hmi : f.maxBits < f.infBits := by unfold Fmt.maxBits; omega
  refine ⟨?_, ?_⟩
  · obtain ⟨hv, hul⟩ := ulp_normal' f h _ hmn hmi
    have hsucc := magVal_succ_normal f _ hmn
    have : f.maxBits + 1 = f.infBits := by unfold Fmt.maxBits; omega
    rw [this, magVal_infBits f h] at hsucc
    rw [sval_of_lt f _ (by omega), sval_of_lt f _ (by omega), hv]
    rw [hsucc]; push_cast; rfl
  · intro y hy
    have hm := (finite_iff f h y).1 hy
    have hb := magVal_lt f _ _ hm
    rw [magVal_infBits f h] at hb
    unfold sval
    split <;> omega

/-- `x < 0` normal, above `-max`: the exact difference `x - ulp x` is the value of the lower neighbour -/
theorem ulp_prev' (f : Fmt) (h : WF f) (x : Nat) (hx : x < 2 ^ f.width) (hfin : isFiniteBits f x = true)
    (hlt0 : pyLt0 f x = true) (hn : f.minNormalBits ≤ magBits f x) :
    sval f (nextDown f x) = sval f x - sval f (ulpOld f x) := by
  have hF := F_ge2 f h
  have hinf := infBits_add f h
  have hw := width_eq f h
  have hm := (finite_iff f h x).1 hfin
  have hs : (fields f x).sign = true := by
    unfold pyLt0 at hlt0; simp at hlt0; exact hlt0.1.2
  have hneg : negBits f x = magBits f x := by unfold negBits; simp [hs]
  have hltS := magBits_lt f h x
  have hnu : nextUp f (magBits f x) = magBits f x + 1 := by unfold nextUp; simp [sign_of_lt f _ hltS]
  have hlt1 : magBits f x + 1 < f.signBit := by omega
  have hnd : nextDown f x = magBits f x + 1 + f.signBit := by
    unfold nextDown; rw [hneg, hnu]; unfold negBits; simp [sign_of_lt f _ hlt1]
  obtain ⟨hv, hul⟩ := ulp_normal' f h _ hn hm
  have hb2 : magBits f x + 1 + f.signBit < 2 ^ f.width := by omega
  have hsv : sval f (magBits f x + 1 + f.signBit) = -(magVal f (magBits f x + 1) : Int) := by
    rcases sign_mag_cases f h _ hb2 with ⟨_, _, hlt2⟩ | ⟨hs2, hmag2, _⟩
    · omega
    · unfold sval; rw [hs2]
      have : magBits f (magBits f x + 1 + f.signBit) = magBits f x + 1 := by omega
      rw [this]; simp
  have hsx : sval f x = -(magVal f (magBits f x) : Int) := by unfold sval; rw [hs]; simp
  rw [hnd, hsv, hsx, ulp_abs f h x hx, sval_of_lt f _ (by omega), hv, magVal_succ_normal f _ hn]
  push_cast; omega

/-- every subnormal (either sign): `ulp` returns `+0`, so `x ± ulp x = x` is not the neighbour -/
theorem ulp_subnormal (f : Fmt) (h : WF f) (x : Nat) (hx : x < 2 ^ f.width)
    (h0 : magBits f x ≠ 0) (hs : magBits f x < f.minNormalBits) : ulpOld f x = 0 := by
  rw [ulp_abs f h x hx]; exact ulp_sub_zero f h _ h0 hs

theorem ulp_inf' (f : Fmt) (b : Nat) (hb : (decode f b).isInf = true) : ulpOld f b = f.infBits := by
  unfold ulpOld
  cases hd : decode f b <;> simp [hd, V.isInf, V.isZero] at hb ⊢

theorem decode_nanBits (f : Fmt) (h : WF f) : decode f (nanBits f) = .nan := by
  have hF := F_ge2 f h
  have hinf := infBits_add f h
  have hfb : 1 ≤ f.fracBits := by have := h.hp; unfold Fmt.fracBits; omega
  have hhalf : 2 ^ (f.fracBits - 1) < 2 ^ f.fracBits := Nat.pow_lt_pow_right (by decide) (by omega)
  have hpos : 0 < 2 ^ (f.fracBits - 1) := Nat.two_pow_pos _
  have hlt : nanBits f < f.signBit := by unfold nanBits; omega
  have hu := (Nat.div_mod_unique (a := nanBits f) (d := f.expMax) (c := 2 ^ (f.fracBits - 1)) (F_pos f)).2
    ⟨by unfold nanBits Fmt.infBits; rw [Nat.mul_comm]; omega, hhalf⟩
  unfold decode
  simp only [fields_e f h, fields_m f h, magBits_of_lt f _ hlt, hu.1, hu.2, if_true]
  rw [if_neg (by omega)]

theorem ulp_nan' (f : Fmt) (h : WF f) (b : Nat) (hb : (decode f b).isNaN = true) : isNaNBits f (ulpOld f b) = true := by
  have : ulpOld f b = nanBits f := by
    unfold ulpOld
    cases hd : decode f b <;> simp [hd, V.isNaN, V.isZero, V.isInf] at hb ⊢
  rw [this]; unfold isNaNBits; rw [decode_nanBits f h]; rfl

/-! ### metric corollaries, uniform in the flush setting -/

/-- the lattice coordinate the distance is measured in: the ordinal, or the flushed ordinal -/
def key (f : Fmt) (fl : Option Bool) (b : Nat) : Int := if flushArg fl then flushOrd f b else ord f b

theorem diff_key (f : Fmt) (h : WF f) (fl : Option Bool) (en : Bool) (x y : Nat)
    (hx : isFiniteBits f x = true) (hy : isFiniteBits f y = true) :
    diffUlp f fl en x y = (key f fl x - key f fl y).natAbs := by
  unfold key
  cases hfl : flushArg fl
  · simpa using diff_eq' f h fl en x y hfl hx hy
  · simpa using flush_eq' f h fl en x y hfl hx hy

theorem key_mono (f : Fmt) (h : WF f) (fl : Option Bool) (x y : Nat) (hx : x < 2 ^ f.width) (hy : y < 2 ^ f.width)
    (hxy : ord f x ≤ ord f y) : key f fl x ≤ key f fl y := by
  unfold key
  cases flushArg fl
  · simpa using hxy
  · simpa using flushOrd_mono f h x y hx hy hxy

theorem flushMap_le (f : Fmt) (a : Nat) : flushMap f a ≤ a := by
  unfold flushMap; simp only
  split <;> (try split) <;> omega

theorem key_abs_le (f : Fmt) (fl : Option Bool) (b : Nat) : (key f fl b).natAbs ≤ magBits f b := by
  unfold key flushOrd ord
  have := flushMap_le f (magBits f b)
  cases flushArg fl <;> cases (fields f b).sign <;> simp <;> omega

theorem chain3 (f : Fmt) (h : WF f) (fl : Option Bool) (en : Bool) (x y z : Nat)
    (hx : x < 2 ^ f.width) (hy : y < 2 ^ f.width) (hz : z < 2 ^ f.width)
    (fx : isFiniteBits f x = true) (fy : isFiniteBits f y = true) (fz : isFiniteBits f z = true)
    (hxy : ord f x ≤ ord f y) (hyz : ord f y ≤ ord f z) :
    diffUlp f fl en x z = diffUlp f fl en x y + diffUlp f fl en y z := by
  rw [diff_key f h fl en x z fx fz, diff_key f h fl en x y fx fy, diff_key f h fl en y z fy fz]
  have h1 := key_mono f h fl x y hx hy hxy
  have h2 := key_mono f h fl y z hy hz hyz
  omega

theorem triangle' (f : Fmt) (h : WF f) (fl : Option Bool) (en : Bool) (x y z : Nat)
    (fx : isFiniteBits f x = true) (fy : isFiniteBits f y = true) (fz : isFiniteBits f z = true) :
    diffUlp f fl en x z ≤ diffUlp f fl en x y + diffUlp f fl en y z := by
  rw [diff_key f h fl en x z fx fz, diff_key f h fl en x y fx fy, diff_key f h fl en y z fy fz]
  omega

theorem lt_sentinel (f : Fmt) (h : WF f) (fl : Option Bool) (en : Bool) (x y : Nat)
    (fx : isFiniteBits f x = true) (fy : isFiniteBits f y = true) :
    diffUlp f fl en x y < sentinel f := by
  rw [diff_key f h fl en x y fx fy]
  have h1 := key_abs_le f fl x
  have h2 := key_abs_le f fl y
  have h3 := (finite_iff f h x).1 fx
  have h4 := (finite_iff f h y).1 fy
  have hinf := infBits_add f h
  have hw := width_eq f h
  have hF := F_pos f
  unfold sentinel
  omega

/-- a chain of finite patterns whose ordinals do not decrease -/
def MonoChain (f : Fmt) : List Nat → Prop
  | [] => True
  | [x] => x < 2 ^ f.width ∧ isFiniteBits f x = true
  | x :: y :: t => x < 2 ^ f.width ∧ isFiniteBits f x = true ∧ ord f x ≤ ord f y ∧ MonoChain f (y :: t)

/-- last element of `x :: l` -/
def lastOf : Nat → List Nat → Nat
  | x, [] => x
  | _, y :: t => lastOf y t

theorem chain_list (f : Fmt) (h : WF f) (fl : Option Bool) : ∀ (l : List Nat) (x : Nat), MonoChain f (x :: l) →
    (lastOf x l < 2 ^ f.width ∧ isFiniteBits f (lastOf x l) = true ∧ ord f x ≤ ord f (lastOf x l)) ∧
    chainSum f fl (x :: l) = diffUlp f fl false x (lastOf x l) := by
  intro l
  induction l with
  | nil =>
    intro x hc
    obtain ⟨hx, fx⟩ := hc
    refine ⟨⟨hx, fx, Int.le_refl _⟩, ?_⟩
    show 0 = diffUlp f fl false x x
    rw [diff_key f h fl false x x fx fx]; simp
  | cons y t ih =>
    intro x hc
    obtain ⟨hx, fx, hxy, hrest⟩ := hc
    obtain ⟨⟨hl, fl', hyl⟩, hsum⟩ := ih y hrest
    have hy : y < 2 ^ f.width ∧ isFiniteBits f y = true := by
      cases t with
      | nil => exact hrest
      | cons z t' => exact ⟨hrest.1, hrest.2.1⟩
    refine ⟨⟨hl, fl', Int.le_trans hxy hyl⟩, ?_⟩
    show diffUlp f fl false x y + chainSum f fl (y :: t) = diffUlp f fl false x (lastOf y t)
    rw [hsum, chain3 f h fl false x y (lastOf y t) hx hy.1 hl fx hy.2 fl' hxy hyl]

/-! ### the repaired `ulp` satisfies the identities on subnormals too -/

/-- bridge: the pre-fix function plus the one branch added by the fix -/
def ulpRepaired (f : Fmt) (b : Nat) : Nat :=
  if magBits f b ≠ 0 ∧ magBits f b < f.minNormalBits then 1 else ulpOld f b

theorem magVal_le_F (f : Fmt) (a : Nat) (ha : a ≤ 2 ^ f.fracBits) : magVal f a = a := by
  have hF := F_pos f
  rcases Nat.lt_or_eq_of_le ha with hlt | heq
  · exact magVal_small f a hlt
  · unfold magVal; rw [heq]; simp [Nat.div_self hF]

theorem ulp_next_repaired' (f : Fmt) (h : WF f) (x : Nat) (hx : x < 2 ^ f.width) (hfin : isFiniteBits f x = true)
    (hge : pyLt0 f x = false) (hmax : x ≠ f.maxBits) :
    sval f (nextUp f x) = sval f x + sval f (ulpRepaired f x) := by
  have hF := F_ge2 f h
  have hinf := infBits_add f h
  have h3 := minNormal_le_inf f h
  have hmn : f.minNormalBits = 2 ^ f.fracBits := rfl
  by_cases hsub : magBits f x ≠ 0 ∧ magBits f x < f.minNormalBits
  · have h1S : 1 < f.signBit := by omega
    have hsv1 : sval f 1 = 1 := by rw [sval_of_lt f 1 h1S, magVal_small f 1 (by omega)]; rfl
    unfold ulpRepaired; rw [if_pos hsub, hsv1]
    rcases sign_mag_cases f h x hx with ⟨hs, hmag, hlt⟩ | ⟨hs, hmag, hlt⟩
    · rw [hmag] at hsub
      have hnu : nextUp f x = x + 1 := by unfold nextUp; simp [hs]
      rw [hnu, sval_of_lt f _ (by omega), sval_of_lt f _ hlt, magVal_le_F f _ (by omega), magVal_le_F f _ (by omega)]
      push_cast; rfl
    · exfalso
      unfold pyLt0 at hge
      rw [notNaN_of_finite f x hfin, hs] at hge
      simp at hge; exact hsub.1 hge
  · have hcls : magBits f x = 0 ∨ f.minNormalBits ≤ magBits f x := by omega
    unfold ulpRepaired; rw [if_neg hsub]
    exact ulp_next' f h x hx hfin hge hcls hmax

/-! ### the current `ulp` (with the subnormal branch of d4402b6) is the repaired function -/

theorem finite_iff_class (f : Fmt) (b : Nat) :
    isFiniteBits f b = true ↔ ((decode f b).isInf = false ∧ (decode f b).isNaN = false) := by
  unfold isFiniteBits decode
  simp only [bne_iff_ne, ne_eq]
  by_cases he : (fields f b).e = f.expMax
  · simp only [he, not_true_eq_false, if_true, false_iff]
    split <;> simp [V.isInf, V.isNaN]
  · simp only [he, not_false_eq_true, if_false, true_iff]
    split <;> simp [V.isInf, V.isNaN]

theorem ulp_eq_repaired (f : Fmt) (h : WF f) (b : Nat) (hb : b < 2 ^ f.width) : ulp f b = ulpRepaired f b := by
  have h3 := minNormal_le_inf f h
  have hF := F_pos f
  have hmn : f.minNormalBits = 2 ^ f.fracBits := rfl
  unfold ulpRepaired
  by_cases c1 : (decode f b).isZero = true
  · have e1 : ulp f b = 1 := by unfold ulp; simp [c1]
    have e2 : ulpOld f b = 1 := by unfold ulpOld; simp [c1]
    rw [e1, e2]; split <;> rfl
  · by_cases hfin : isFiniteBits f b = true
    · obtain ⟨c2, c3⟩ := (finite_iff_class f b).1 hfin
      obtain ⟨hz, hi, hn⟩ := decode_mag f h b
      have hne : magBits f b ≠ 0 := by
        intro h0; apply c1; rw [hz, h0, decode_zero f h]; rfl
      have hnanb : isNaNBits f b = false := c3
      rcases sign_mag_cases f h b hb with ⟨hs, hmag, hlt⟩ | ⟨hs, hmag, hlt⟩
      · have hlt0 : pyLt0 f b = false := by unfold pyLt0; simp [hs]
        have e1 : ulp f b = ulpTail f b := by unfold ulp; simp [c1, c2, c3, hlt0]
        have e2 : ulpOld f b = ulpPos f b := by unfold ulpOld; simp [c1, c2, c3, hlt0]
        rw [e1, e2]; unfold ulpTail pyLtMinNormal
        rw [hnanb, hs]
        by_cases hsub : magBits f b < f.minNormalBits <;> simp [hsub, hne]
      · have hlt0 : pyLt0 f b = true := by unfold pyLt0; simp [hnanb, hs, hne]
        have hneg : negBits f b = magBits f b := by unfold negBits; simp [hs]
        have e1 : ulp f b = ulpTail f (magBits f b) := by unfold ulp; simp [c1, c2, c3, hlt0, hneg]
        have e2 : ulpOld f b = ulpPos f (magBits f b) := by unfold ulpOld; simp [c1, c2, c3, hlt0, hneg]
        have hnana : isNaNBits f (magBits f b) = false := by unfold isNaNBits; rw [← hn]; exact c3
        rw [e1, e2]; unfold ulpTail pyLtMinNormal
        rw [hnana, sign_of_lt f _ hlt, magBits_idem]
        by_cases hsub : magBits f b < f.minNormalBits <;> simp [hsub, hne]
    · have hm : ¬ magBits f b < f.infBits := fun hlt => hfin ((finite_iff f h b).2 hlt)
      rw [if_neg (by omega)]
      have hcl : ¬ ((decode f b).isInf = false ∧ (decode f b).isNaN = false) := fun hc => hfin ((finite_iff_class f b).2 hc)
      by_cases c2 : (decode f b).isInf = true
      · unfold ulp ulpOld; simp [c1, c2]
      · have c3 : (decode f b).isNaN = true := by
          cases hn : (decode f b).isNaN
          · exact absurd ⟨by simpa using c2, hn⟩ hcl
          · rfl
        unfold ulp ulpOld; simp [c1, c2, c3]

theorem ulp_of_normal (f : Fmt) (h : WF f) (x : Nat) (hx : x < 2 ^ f.width)
    (hcls : magBits f x = 0 ∨ f.minNormalBits ≤ magBits f x) : ulp f x = ulpOld f x := by
  rw [ulp_eq_repaired f h x hx]; unfold ulpRepaired; rw [if_neg (by omega)]

theorem ulp_of_subnormal (f : Fmt) (h : WF f) (x : Nat) (hx : x < 2 ^ f.width)
    (h0 : magBits f x ≠ 0) (hs : magBits f x < f.minNormalBits) : ulp f x = 1 := by
  rw [ulp_eq_repaired f h x hx]; unfold ulpRepaired; rw [if_pos ⟨h0, hs⟩]

theorem ulp_neg_new (f : Fmt) (h : WF f) (b : Nat) (hb : b < 2 ^ f.width) : ulp f (negBits f b) = ulp f b := by
  obtain ⟨hnb, hm, _⟩ := negBits_spec f h b hb
  rw [ulp_eq_repaired f h _ hnb, ulp_eq_repaired f h b hb]
  unfold ulpRepaired; rw [hm, ulp_neg' f h b hb]

theorem ulp_inf_new (f : Fmt) (b : Nat) (hb : (decode f b).isInf = true) : ulp f b = f.infBits := by
  unfold ulp
  cases hd : decode f b <;> simp [hd, V.isInf, V.isZero] at hb ⊢

theorem ulp_nan_new (f : Fmt) (h : WF f) (b : Nat) (hb : (decode f b).isNaN = true) : isNaNBits f (ulp f b) = true := by
  have : ulp f b = nanBits f := by
    unfold ulp
    cases hd : decode f b <;> simp [hd, V.isNaN, V.isZero, V.isInf] at hb ⊢
  rw [this]; unfold isNaNBits; rw [decode_nanBits f h]; rfl

/-- every finite `x ≥ 0` below max: the exact sum `x + ulp x` is the value of the upper neighbour -/
theorem ulp_next_full (f : Fmt) (h : WF f) (x : Nat) (hx : x < 2 ^ f.width) (hfin : isFiniteBits f x = true)
    (hge : pyLt0 f x = false) (hmax : x ≠ f.maxBits) :
    sval f (nextUp f x) = sval f x + sval f (ulp f x) := by
  rw [ulp_eq_repaired f h x hx]; exact ulp_next_repaired' f h x hx hfin hge hmax

/-- every finite `x < 0`: the exact difference `x − ulp x` is the value of the lower neighbour -/
theorem ulp_prev_full (f : Fmt) (h : WF f) (x : Nat) (hx : x < 2 ^ f.width) (hfin : isFiniteBits f x = true)
    (hlt0 : pyLt0 f x = true) :
    sval f (nextDown f x) = sval f x - sval f (ulp f x) := by
  have hmn : f.minNormalBits = 2 ^ f.fracBits := rfl
  by_cases hn : f.minNormalBits ≤ magBits f x
  · rw [ulp_of_normal f h x hx (Or.inr hn)]; exact ulp_prev' f h x hx hfin hlt0 hn
  · have hF := F_ge2 f h
    have hinf := infBits_add f h
    have h3 := minNormal_le_inf f h
    have hw := width_eq f h
    have hs : (fields f x).sign = true := by
      unfold pyLt0 at hlt0; simp at hlt0; exact hlt0.1.2
    have hne : magBits f x ≠ 0 := by
      unfold pyLt0 at hlt0; simp at hlt0; exact hlt0.2
    have hneg : negBits f x = magBits f x := by unfold negBits; simp [hs]
    have hltS := magBits_lt f h x
    have hnu : nextUp f (magBits f x) = magBits f x + 1 := by unfold nextUp; simp [sign_of_lt f _ hltS]
    have hlt1 : magBits f x + 1 < f.signBit := by omega
    have hnd : nextDown f x = magBits f x + 1 + f.signBit := by
      unfold nextDown; rw [hneg, hnu]; unfold negBits; simp [sign_of_lt f _ hlt1]
    have hb2 : magBits f x + 1 + f.signBit < 2 ^ f.width := by omega
    have hsv : sval f (magBits f x + 1 + f.signBit) = -(magVal f (magBits f x + 1) : Int) := by
      rcases sign_mag_cases f h _ hb2 with ⟨_, _, hlt2⟩ | ⟨hs2, hmag2, _⟩
      · omega
      · unfold sval; rw [hs2]
        have : magBits f (magBits f x + 1 + f.signBit) = magBits f x + 1 := by omega
        rw [this]; simp
    have hsx : sval f x = -(magVal f (magBits f x) : Int) := by unfold sval; rw [hs]; simp
    have hsv1 : sval f 1 = 1 := by rw [sval_of_lt f 1 (by omega), magVal_small f 1 (by omega)]; rfl
    rw [hnd, hsv, hsx, ulp_of_subnormal f h x hx hne (by omega), hsv1,
      magVal_le_F f _ (by omega), magVal_le_F f _ (by omega)]
    push_cast; omega

end FAVerif.Ulp
