/-
`algorithms.hypot` as a program: symbolic evaluation of the specification node list over ℚ (abstract rounding and
square root) to a closed form, and the accuracy theorem `hypot_core` transported to the program.
-/
import FAVerif.Lemmas.Hypot

namespace FAVerif.EFT
open FAVerif.IR FAVerif.FPQ FAVerif.Spec FAVerif.FP

lemma min_ite (a b : ℚ) : (if b < a then b else a) = min a b := by
  rw [min_def]; split_ifs <;> linarith
lemma max_ite (a b : ℚ) : (if a < b then b else a) = max a b := by
  rw [max_def]; split_ifs <;> linarith
lemma q2b_ne_zero (P : Prop) [Decidable P] : q2b (decide P) ≠ 0 ↔ P := by
  unfold q2b; by_cases h : P <;> simp [h]

theorem evalNodesQS_append (fm : Fmt) (r S : ℚ → ℚ) (ins : List ℚ) (a b : List Node) (env : List ℚ) :
    evalNodesQS fm r S ins (a ++ b) env = (evalNodesQS fm r S ins a env).bind (evalNodesQS fm r S ins b) := by
  induction a generalizing env with
  | nil => simp [evalNodesQS]
  | cons n ns ih =>
    simp only [List.cons_append, evalNodesQS, Option.bind_eq_bind]
    cases evalNodeQS fm r S ins env n with
    | none => simp
    | some v => simp [ih]

/-- the value computed by `hypot`, as a function of mx = max(|x|,|y|), mn = min(|x|,|y|) -/
def hypotQ (r S : ℚ → ℚ) (σ2 mx mn : ℚ) : ℚ :=
  if mn = mx then r (σ2 * mx) else
    if (1 = S (r (1 + r (r (mn / mx) * r (mn / mx)))) ∧ 0 < r (r (mn / mx) * r (mn / mx)))
    then r (r (r (mx * r (r (mn / mx) * r (mn / mx))) / 2) + mx) else r (S (r (1 + r (r (mn / mx) * r (mn / mx)))) * mx)

set_option maxHeartbeats 1000000 in
/-- symbolic evaluation of the hypot program (needs mx ≠ 0 for the division and a non-negative argument of sqrt) -/
theorem evalQS_hypot (fm : Fmt) (r S : ℚ → ℚ) (s2b oneb zb twob : Nat) (σ2 : ℚ)
    (hC : (decode fm s2b).toRat? = some σ2) (h1 : (decode fm oneb).toRat? = some 1)
    (h0 : (decode fm zb).toRat? = some 0) (h2 : (decode fm twob).toRat? = some 2) (x y : ℚ)
    (hmx0 : ¬ max |x| |y| = 0)
    (ht : ¬ r (1 + r (r (min |x| |y| / max |x| |y|) * r (min |x| |y| / max |x| |y|))) < 0) :
    evalQS fm r S (hypotNodes s2b oneb zb twob) hypotOuts [x, y] = some [hypotQ r S σ2 (max |x| |y|) (min |x| |y|)] := by
  have e : hypotNodes s2b oneb zb twob = (hypotNodes s2b oneb zb twob).take 11 ++ (hypotNodes s2b oneb zb twob).drop 11 := by
    simp [hypotNodes]
  unfold evalQS hypotQ
  rw [e, evalNodesQS_append]
  have s1 : evalNodesQS fm r S [x, y] ((hypotNodes s2b oneb zb twob).take 11) [] = some
      [x, |x|, y, |y|, min |x| |y|, max |x| |y|, q2b (decide (min |x| |y| = max |x| |y|)), σ2,
        r (σ2 * max |x| |y|), 1, r (min |x| |y| / max |x| |y|)] := by
    simp only [evalNodesQS, evalNodeQS, evalNodeQ, hypotNodes, hC, h1, List.take,
      List.getElem?_cons_zero, List.getElem?_cons_succ, List.nil_append, List.cons_append,
      Option.bind_eq_bind, Option.bind_some, Option.bind_some,
      abs_ite, min_ite, max_ite, hmx0, if_false]
  rw [s1]
  generalize r (min |x| |y| / max |x| |y|) = q at *
  generalize max |x| |y| = mx at *
  generalize min |x| |y| = mn at *
  simp only [Option.bind_some, hypotNodes, List.drop]
  have e2 : ∀ l : List Node, l = l.take 3 ++ l.drop 3 := fun l => (List.take_append_drop 3 l).symm
  rw [e2 [_, _, _, _, _, _, _, _, _, _, _, _, _, _], evalNodesQS_append]
  have s2 : evalNodesQS fm r S [x, y] (List.take 3
                  [{ op := Op.mul, args := [10, 10] }, { op := Op.add, args := [9, 11] },
                    { op := Op.sqrt, args := [12] }, { op := Op.eq, args := [9, 13] }, { op := Op.const, imm := zb },
                    { op := Op.gt, args := [11, 15] }, { op := Op.and, args := [14, 16] },
                    { op := Op.mul, args := [5, 11] }, { op := Op.const, imm := twob },
                    { op := Op.div, args := [18, 19] }, { op := Op.add, args := [20, 5] },
                    { op := Op.mul, args := [13, 5] }, { op := Op.select, args := [17, 21, 22] },
                    { op := Op.select, args := [6, 8, 23] }])
                [x, |x|, y, |y|, mn, mx, q2b (decide (mn = mx)), σ2, r (σ2 * mx), 1, q] = some
      [x, |x|, y, |y|, mn, mx, q2b (decide (mn = mx)), σ2, r (σ2 * mx), 1, q, r (q * q), r (1 + r (q * q)), S (r (1 + r (q * q)))] := by
    simp only [evalNodesQS, evalNodeQS, evalNodeQ, List.take,
      List.getElem?_cons_zero, List.getElem?_cons_succ, List.nil_append, List.cons_append,
      Option.bind_eq_bind, Option.bind_some, ht, if_false]
  rw [s2]
  generalize S (r (1 + r (q * q))) = s at *
  generalize r (q * q) = rr at *
  simp only [Option.bind_some, List.drop]
  simp only [evalNodesQS, evalNodeQS, evalNodeQ, h0, h2, hypotOuts,
      List.getElem?_cons_zero, List.getElem?_cons_succ, List.nil_append, List.cons_append,
      Option.bind_eq_bind, Option.bind_some, Option.pure_def, ite_q2b, List.mapM_cons, List.mapM_nil, two_ne_zero, if_false,
      q2b_ne_zero]

/-- **Accuracy of `hypot` as a program.**  For every precision p ≥ 8 with emin + 2p + 2 ≤ 0, any round-to-nearest,
any square root with relative error ≤ u, the constant σ2 within u of √2, and all rational x, y with
max(|x|,|y|) ≥ 2^(emin+p) (absent overflow): the program returns H ≥ 0 with
(1−u)^7 (x²+y²) ≤ H² ≤ (1+u)^7 (x²+y²). -/
theorem hypot_prog {q : QFmt} {r S : ℚ → ℚ} (hr : IsRN q r) (hS : SqrtOK q S) (hp : 8 ≤ q.p) (hem : q.emin + 2 * q.p + 2 ≤ 0)
    (fm : Fmt) (s2b oneb zb twob : Nat) (σ2 : ℚ)
    (hC : (decode fm s2b).toRat? = some σ2) (h1 : (decode fm oneb).toRat? = some 1)
    (h0 : (decode fm zb).toRat? = some 0) (h2 : (decode fm twob).toRat? = some 2)
    (hσ0 : 0 ≤ σ2) (hσlo : (1 - uro q) ^ 2 * 2 ≤ σ2 ^ 2) (hσhi : σ2 ^ 2 ≤ (1 + uro q) ^ 2 * 2)
    (x y : ℚ) (hmx : 2 ^ (q.emin + (q.p : ℤ)) ≤ max |x| |y|) :
    ∃ H, evalQS fm r S (hypotNodes s2b oneb zb twob) hypotOuts [x, y] = some [H] ∧ 0 ≤ H ∧
      (1 - uro q) ^ 7 * (x ^ 2 + y ^ 2) ≤ H ^ 2 ∧ H ^ 2 ≤ (1 + uro q) ^ 7 * (x ^ 2 + y ^ 2) := by
  have hmn0 : 0 ≤ min |x| |y| := le_min (abs_nonneg _) (abs_nonneg _)
  have hmnx : min |x| |y| ≤ max |x| |y| := le_trans (min_le_left _ _) (le_max_left _ _)
  obtain ⟨ht0, hH0, hlo, hhi⟩ := hypot_core hr hS hp hem hσ0 hσlo hσhi hmn0 hmnx hmx
    (hypotQ r S σ2 (max |x| |y|) (min |x| |y|)) rfl
  have hmxpos : 0 < max |x| |y| := lt_of_lt_of_le (by positivity) hmx
  have hsq : max |x| |y| ^ 2 + min |x| |y| ^ 2 = x ^ 2 + y ^ 2 := by
    rcases le_total |x| |y| with h | h
    · rw [max_eq_right h, min_eq_left h, sq_abs, sq_abs]; ring
    · rw [max_eq_left h, min_eq_right h, sq_abs, sq_abs]
  rw [hsq] at hlo hhi
  exact ⟨_, evalQS_hypot fm r S s2b oneb zb twob σ2 hC h1 h0 h2 x y hmxpos.ne' (not_lt.mpr ht0), hH0, hlo, hhi⟩

end FAVerif.EFT
