/-
NaN absorption and sign laws of every softfloat primitive, phrased for the symmetry analyser:
`eqvN a' a` (equal, or both NaN) is preserved by every primitive, and negating operands
negates / preserves results as expected — for every format with p ≥ 2, ew ≥ 2 and every pattern.
-/
import FAVerif.Lemmas.SoftSign
import FAVerif.Lemmas.SoftDiv

namespace FAVerif.SoftRound
open FAVerif.FP

/-- equal, or both NaN ("NaN matching NaN") -/
def eqvN (f : Fmt) (a' a : Nat) : Prop := a' = a ∨ (isNaNBits f a' = true ∧ isNaNBits f a = true)

theorem eqvN_refl (f : Fmt) (a : Nat) : eqvN f a a := Or.inl rfl

theorem eqvN_nan {f : Fmt} {a' a : Nat} (h : eqvN f a' a) : isNaNBits f a' = isNaNBits f a := by
  rcases h with rfl | ⟨h1, h2⟩
  · rfl
  · rw [h1, h2]

lemma isNaN_cases (f : Fmt) (a : Nat) (h : isNaNBits f a = true) : decode f a = .nan := by
  unfold isNaNBits at h
  cases hd : decode f a <;> simp [hd, V.isNaN] at h ⊢

lemma notNaN_cases (f : Fmt) (a : Nat) (h : isNaNBits f a = false) : decode f a ≠ .nan := by
  intro hd; simp [isNaNBits, hd, V.isNaN] at h

theorem add_nan_l (f : Fmt) (a b : Nat) (h : isNaNBits f a = true) : FP.add f a b = f.nanBits := by
  unfold FP.add; rw [isNaN_cases f a h]

theorem add_nan_r (f : Fmt) (a b : Nat) (h : isNaNBits f b = true) : FP.add f a b = f.nanBits := by
  unfold FP.add; rw [isNaN_cases f b h]; cases decode f a <;> rfl

theorem mul_nan_l (f : Fmt) (a b : Nat) (h : isNaNBits f a = true) : FP.mul f a b = f.nanBits := by
  unfold FP.mul; rw [isNaN_cases f a h]

theorem mul_nan_r (f : Fmt) (a b : Nat) (h : isNaNBits f b = true) : FP.mul f a b = f.nanBits := by
  unfold FP.mul; rw [isNaN_cases f b h]; cases decode f a <;> rfl

theorem div_nan_l (f : Fmt) (a b : Nat) (h : isNaNBits f a = true) : FP.div f a b = f.nanBits := by
  unfold FP.div; rw [isNaN_cases f a h]

theorem div_nan_r (f : Fmt) (a b : Nat) (h : isNaNBits f b = true) : FP.div f a b = f.nanBits := by
  unfold FP.div; rw [isNaN_cases f b h]; cases decode f a <;> rfl

theorem sub_nan_l (f : Fmt) (hf : WF f) (a b : Nat) (h : isNaNBits f a = true) : FP.sub f a b = f.nanBits := by
  unfold FP.sub; split
  · rfl
  · exact add_nan_l f a _ h

theorem sub_nan_r (f : Fmt) (a b : Nat) (h : isNaNBits f b = true) : FP.sub f a b = f.nanBits := by
  unfold FP.sub; simp [h]

theorem sqrt_nan (f : Fmt) (a : Nat) (h : isNaNBits f a = true) : FP.sqrt f a = f.nanBits := by
  unfold FP.sqrt; rw [isNaN_cases f a h]

/-- binary arithmetic operations respect `eqvN` -/
theorem add_congr (f : Fmt) (hf : WF f) {a' a b' b : Nat} (ha : eqvN f a' a) (hb : eqvN f b' b) :
    eqvN f (FP.add f a' b') (FP.add f a b) := by
  rcases ha with rfl | ⟨h1, h2⟩
  · rcases hb with rfl | ⟨h3, h4⟩
    · exact Or.inl rfl
    · rw [add_nan_r f _ b' h3, add_nan_r f _ b h4]; exact Or.inl rfl
  · rw [add_nan_l f a' _ h1, add_nan_l f a _ h2]; exact Or.inl rfl

theorem sub_congr (f : Fmt) (hf : WF f) {a' a b' b : Nat} (ha : eqvN f a' a) (hb : eqvN f b' b) :
    eqvN f (FP.sub f a' b') (FP.sub f a b) := by
  rcases ha with rfl | ⟨h1, h2⟩
  · rcases hb with rfl | ⟨h3, h4⟩
    · exact Or.inl rfl
    · rw [sub_nan_r f _ b' h3, sub_nan_r f _ b h4]; exact Or.inl rfl
  · rw [sub_nan_l f hf a' _ h1, sub_nan_l f hf a _ h2]; exact Or.inl rfl

theorem mul_congr (f : Fmt) (hf : WF f) {a' a b' b : Nat} (ha : eqvN f a' a) (hb : eqvN f b' b) :
    eqvN f (FP.mul f a' b') (FP.mul f a b) := by
  rcases ha with rfl | ⟨h1, h2⟩
  · rcases hb with rfl | ⟨h3, h4⟩
    · exact Or.inl rfl
    · rw [mul_nan_r f _ b' h3, mul_nan_r f _ b h4]; exact Or.inl rfl
  · rw [mul_nan_l f a' _ h1, mul_nan_l f a _ h2]; exact Or.inl rfl

theorem div_congr (f : Fmt) (hf : WF f) {a' a b' b : Nat} (ha : eqvN f a' a) (hb : eqvN f b' b) :
    eqvN f (FP.div f a' b') (FP.div f a b) := by
  rcases ha with rfl | ⟨h1, h2⟩
  · rcases hb with rfl | ⟨h3, h4⟩
    · exact Or.inl rfl
    · rw [div_nan_r f _ b' h3, div_nan_r f _ b h4]; exact Or.inl rfl
  · rw [div_nan_l f a' _ h1, div_nan_l f a _ h2]; exact Or.inl rfl

theorem sqrt_congr (f : Fmt) {a' a : Nat} (ha : eqvN f a' a) : eqvN f (FP.sqrt f a') (FP.sqrt f a) := by
  rcases ha with rfl | ⟨h1, h2⟩
  · exact Or.inl rfl
  · rw [sqrt_nan f a' h1, sqrt_nan f a h2]; exact Or.inl rfl

theorem neg_congr (f : Fmt) (hf : WF f) {a' a : Nat} (ha : eqvN f a' a) : eqvN f (FP.neg f a') (FP.neg f a) := by
  rcases ha with rfl | ⟨h1, h2⟩
  · exact Or.inl rfl
  · exact Or.inr ⟨by rw [isNaN_neg f hf]; exact h1, by rw [isNaN_neg f hf]; exact h2⟩

/-- fields of |a|: sign cleared -/
lemma fields_abs (f : Fmt) (hf : WF f) (a : Nat) :
    fields f (FP.abs f a) = ⟨false, (fields f a).e, (fields f a).m⟩ := by
  have hsb := signBit_eq f hf
  set S := f.signBit with hS
  set B := 2 ^ f.fracBits with hB
  set X := 2 ^ f.ew with hX
  have hSpos : 0 < S := by rw [hsb]; positivity
  have hBpos : 0 < B := by positivity
  unfold fields FP.abs
  simp only [← hS, ← hB, ← hX]
  have hlt : a % S < S := Nat.mod_lt _ hSpos
  have e1 : a % S / S = 0 := Nat.div_eq_of_lt hlt
  have hdecomp : a = a % S + (a / S) * S := by
    have := Nat.mod_add_div a S; rw [Nat.mul_comm] at this; omega
  have e2 : a / B % X = a % S / B % X := by
    conv_lhs => rw [hdecomp, hsb, ← Nat.mul_assoc, Nat.add_mul_div_right _ _ hBpos, Nat.add_mul_mod_self_right]
    rw [hsb]
  have e3 : a % B = a % S % B := by
    conv_lhs => rw [hdecomp, hsb, ← Nat.mul_assoc, Nat.add_mul_mod_self_right]
    rw [hsb]
  simp [e1, ← e2, ← e3]

theorem isNaN_abs (f : Fmt) (hf : WF f) (a : Nat) : isNaNBits f (FP.abs f a) = isNaNBits f a := by
  unfold isNaNBits decode
  rw [fields_abs f hf a]
  simp only
  split_ifs <;> rfl

theorem abs_congr (f : Fmt) (hf : WF f) {a' a : Nat} (ha : eqvN f a' a) : eqvN f (FP.abs f a') (FP.abs f a) := by
  rcases ha with rfl | ⟨h1, h2⟩
  · exact Or.inl rfl
  · exact Or.inr ⟨by rw [isNaN_abs f hf]; exact h1, by rw [isNaN_abs f hf]; exact h2⟩

/-- |a| is unchanged by negating a, also up to `eqvN` -/
theorem abs_of_neg_congr (f : Fmt) (hf : WF f) {a' a : Nat} (ha : eqvN f a' (FP.neg f a)) :
    eqvN f (FP.abs f a') (FP.abs f a) := by
  have := abs_congr f hf ha
  rwa [abs_neg_eq f hf a] at this

/-- comparisons ignore NaN patterns (NaN is unordered) -/
theorem lt_nan_l (f : Fmt) (a b : Nat) (h : isNaNBits f a = true) : FP.lt f a b = false := by simp [FP.lt, h]
theorem lt_nan_r (f : Fmt) (a b : Nat) (h : isNaNBits f b = true) : FP.lt f a b = false := by simp [FP.lt, h]
theorem le_nan_l (f : Fmt) (a b : Nat) (h : isNaNBits f a = true) : FP.le f a b = false := by simp [FP.le, h]
theorem le_nan_r (f : Fmt) (a b : Nat) (h : isNaNBits f b = true) : FP.le f a b = false := by simp [FP.le, h]
theorem eq_nan_l (f : Fmt) (a b : Nat) (h : isNaNBits f a = true) : FP.eq f a b = false := by simp [FP.eq, h]
theorem eq_nan_r (f : Fmt) (a b : Nat) (h : isNaNBits f b = true) : FP.eq f a b = false := by simp [FP.eq, h]

theorem lt_congr (f : Fmt) {a' a b' b : Nat} (ha : eqvN f a' a) (hb : eqvN f b' b) : FP.lt f a' b' = FP.lt f a b := by
  rcases ha with rfl | ⟨h1, h2⟩
  · rcases hb with rfl | ⟨h3, h4⟩
    · rfl
    · rw [lt_nan_r f _ b' h3, lt_nan_r f _ b h4]
  · rw [lt_nan_l f a' _ h1, lt_nan_l f a _ h2]

theorem le_congr (f : Fmt) {a' a b' b : Nat} (ha : eqvN f a' a) (hb : eqvN f b' b) : FP.le f a' b' = FP.le f a b := by
  rcases ha with rfl | ⟨h1, h2⟩
  · rcases hb with rfl | ⟨h3, h4⟩
    · rfl
    · rw [le_nan_r f _ b' h3, le_nan_r f _ b h4]
  · rw [le_nan_l f a' _ h1, le_nan_l f a _ h2]

theorem eq_congr (f : Fmt) {a' a b' b : Nat} (ha : eqvN f a' a) (hb : eqvN f b' b) : FP.eq f a' b' = FP.eq f a b := by
  rcases ha with rfl | ⟨h1, h2⟩
  · rcases hb with rfl | ⟨h3, h4⟩
    · rfl
    · rw [eq_nan_r f _ b' h3, eq_nan_r f _ b h4]
  · rw [eq_nan_l f a' _ h1, eq_nan_l f a _ h2]

/-- the ordinal of a negated pattern -/
theorem ord_neg (f : Fmt) (hf : WF f) (a : Nat) : ord f (FP.neg f a) = -ord f a := by
  have hfn := fields_neg f hf a
  have hm : magBits f (FP.neg f a) = magBits f a := by
    have := abs_neg_eq f hf a
    simpa [FP.abs, magBits] using this
  unfold ord
  rw [hfn, hm]
  cases (fields f a).sign <;> simp

theorem isFinite_neg (f : Fmt) (hf : WF f) (a : Nat) : isFiniteBits f (FP.neg f a) = isFiniteBits f a := by
  unfold isFiniteBits; rw [fields_neg f hf a]

theorem eq_neg_neg (f : Fmt) (hf : WF f) (a b : Nat) : FP.eq f (FP.neg f a) (FP.neg f b) = FP.eq f a b := by
  unfold FP.eq
  rw [isNaN_neg f hf, isNaN_neg f hf, ord_neg f hf, ord_neg f hf]
  congr 1
  simp only [decide_eq_decide]
  omega

end FAVerif.SoftRound

namespace FAVerif.SoftRound
open FAVerif.FP FAVerif.FPQ

theorem eqvN_trans {f : Fmt} {a b c : Nat} (h1 : eqvN f a b) (h2 : eqvN f b c) : eqvN f a c := by
  rcases h1 with rfl | ⟨x1, x2⟩
  · exact h2
  · rcases h2 with rfl | ⟨y1, y2⟩
    · exact Or.inr ⟨x1, x2⟩
    · exact Or.inr ⟨x1, y2⟩

theorem eqvN_negN_neg (f : Fmt) (hf : WF f) (w : Nat) : eqvN f (negN f w) (FP.neg f w) := by
  unfold negN
  by_cases h : isNaNBits f w = true
  · simp only [h, if_true]; exact Or.inr ⟨h, by rw [isNaN_neg f hf]; exact h⟩
  · simp only [h, Bool.false_eq_true, if_false]; exact Or.inl rfl

theorem eqvN_neg_neg (f : Fmt) (hf : WF f) {a' a : Nat} (h : eqvN f a' (FP.neg f a)) : eqvN f (FP.neg f a') a := by
  have := neg_congr f hf h
  rwa [neg_neg' f hf a] at this

/-- (−a)·b ~ −(a·b) and the other sign combinations, up to `eqvN` -/
theorem mul_rel_neg_same (f : Fmt) (hf : WF f) {a' a b' b : Nat} (ha : eqvN f a' (FP.neg f a)) (hb : eqvN f b' b) :
    eqvN f (FP.mul f a' b') (FP.neg f (FP.mul f a b)) := by
  refine eqvN_trans (mul_congr f hf ha hb) ?_
  rw [mul_neg_left f hf a b]; exact eqvN_negN_neg f hf _

theorem mul_rel_same_neg (f : Fmt) (hf : WF f) {a' a b' b : Nat} (ha : eqvN f a' a) (hb : eqvN f b' (FP.neg f b)) :
    eqvN f (FP.mul f a' b') (FP.neg f (FP.mul f a b)) := by
  refine eqvN_trans (mul_congr f hf ha hb) ?_
  rw [mul_neg_right f hf a b]; exact eqvN_negN_neg f hf _

theorem mul_rel_neg_neg (f : Fmt) (hf : WF f) {a' a b' b : Nat} (ha : eqvN f a' (FP.neg f a)) (hb : eqvN f b' (FP.neg f b)) :
    eqvN f (FP.mul f a' b') (FP.mul f a b) := by
  refine eqvN_trans (mul_congr f hf ha hb) ?_
  rw [mul_neg_left f hf a (FP.neg f b), mul_neg_right f hf a b, negN_negN f hf]
  exact eqvN_refl f _

/-- the rounding core used by division: its significand never exceeds 2^p -/
lemma div_core_le (f : Fmt) (h : WF f) (m n : Nat) (hm : m ≠ 0) (hn : n ≠ 0) (e : Int) :
    let k := f.p + 2 + bitLen n - bitLen m
    let num := m * 2 ^ k
    (roundCore f (num / n) e (num % n != 0)).1 ≤ 2 ^ f.p := by
  intro k num
  have hmpos : 0 < m := Nat.pos_of_ne_zero hm
  have hnpos : 0 < n := Nat.pos_of_ne_zero hn
  obtain ⟨hm1, hm2, hm3⟩ := bitLen_bounds hmpos
  obtain ⟨hn1, hn2, hn3⟩ := bitLen_bounds hnpos
  have hqbig : 2 ^ (f.p + 1) ≤ num / n := by
    rw [Nat.le_div_iff_mul_le hnpos]
    have hk' : f.p + 2 + bitLen n ≤ bitLen m + k := by omega
    calc 2 ^ (f.p + 1) * n ≤ 2 ^ (f.p + 1) * 2 ^ bitLen n := Nat.mul_le_mul_left _ hn2.le
      _ = 2 ^ (f.p + 1 + bitLen n) := (pow_add 2 (f.p + 1) (bitLen n)).symm
      _ ≤ 2 ^ (bitLen m - 1 + k) := Nat.pow_le_pow_right (by norm_num) (by omega)
      _ = 2 ^ (bitLen m - 1) * 2 ^ k := pow_add 2 (bitLen m - 1) k
      _ ≤ m * 2 ^ k := Nat.mul_le_mul_right _ hm1
  have hqpos : 0 < num / n := lt_of_lt_of_le (by positivity) hqbig
  have hq0 : num / n ≠ 0 := by omega
  have hlen : f.p + 2 ≤ bitLen (num / n) := by
    have : (num / n).log2 ≥ f.p + 1 := (Nat.le_log2 hq0).2 hqbig
    simp only [bitLen, hq0, if_false]; omega
  have hue := zpow_two_pos e
  have hnq : (0 : ℚ) < n := by exact_mod_cast hnpos
  set x : ℚ := ((num : ℚ) / n) * 2 ^ e with hxdef
  have hxpos : 0 < x := by
    have : (0 : ℚ) < num := by simp only [num]; positivity
    positivity
  have hdm : num = (num / n) * n + num % n := by
    have := Nat.div_add_mod num n; rw [Nat.mul_comm] at this; omega
  have hrem : num % n < n := Nat.mod_lt _ hnpos
  have hrne : IsRNE (qf f h.hp) x ((roundCore f (num / n) e (num % n != 0)).1 : ℤ) (roundCore f (num / n) e (num % n != 0)).2 := by
    by_cases hr0 : num % n = 0
    · have hst : (num % n != 0) = false := by simp [hr0]
      rw [hst]
      have hx' : x = ((num / n : ℕ) : ℚ) * 2 ^ e := by
        rw [hxdef]; congr 1
        have : (num : ℚ) = ((num / n : ℕ) : ℚ) * n := by
          have := hdm; rw [hr0, Nat.add_zero] at this
          exact_mod_cast this
        rw [this]; field_simp
      rw [hx']
      exact roundCore_isRNE f h.hp (num / n) hqpos _
    · have hst : (num % n != 0) = true := by simp [hr0]
      rw [hst]
      have hnumq : (num : ℚ) = ((num / n : ℕ) : ℚ) * n + ((num % n : ℕ) : ℚ) := by exact_mod_cast hdm
      have hr1 : (0 : ℚ) < ((num % n : ℕ) : ℚ) := by exact_mod_cast Nat.pos_of_ne_zero hr0
      have hr2 : ((num % n : ℕ) : ℚ) < n := by exact_mod_cast hrem
      apply roundCore_isRNE_sticky f h.hp (num / n) _ hlen x
      · rw [hxdef]; apply mul_lt_mul_of_pos_right _ hue
        rw [lt_div_iff₀ hnq, hnumq]; linarith
      · rw [hxdef]; apply mul_lt_mul_of_pos_right _ hue
        rw [div_lt_iff₀ hnq, hnumq]; nlinarith
  exact (canon_of_isRNE f h hxpos hrne).1

/-- sign symmetry of `roundFin` for any sticky flag, given the significand bound -/
theorem roundFin_neg_of_le (f : Fmt) (h : WF f) (s : Bool) (m : Nat) (e : Int) (st : Bool)
    (hle : (roundCore f m e st).1 ≤ 2 ^ f.p) :
    FP.neg f (roundFin f s m e st) = roundFin f (!s) m e st ∧ isNaNBits f (roundFin f s m e st) = false := by
  have hfb : f.fracBits + 1 = f.p := by simp [Fmt.fracBits]; have := h.hp; omega
  have hpp : (2 : ℕ) ^ f.p = 2 * 2 ^ f.fracBits := by rw [← hfb, pow_succ]; ring
  have hB : 0 < 2 ^ f.fracBits := by positivity
  unfold roundFin
  by_cases hm : m = 0
  · simp only [hm, if_true]
    exact ⟨neg_zeroBits f h s, isNaN_zeroBits f h s⟩
  · simp only [hm, if_false]
    by_cases htop : (roundCore f m e st).1 = 2 ^ f.p
    · simp only [htop, if_true]
      exact ⟨neg_packFin f h s _ _ (by omega), isNaN_packFin f h s _ _ (by omega)⟩
    · simp only [htop, if_false]
      have hlt : (roundCore f m e st).1 < 2 ^ f.p := lt_of_le_of_ne hle htop
      exact ⟨neg_packFin f h s _ _ hlt, isNaN_packFin f h s _ _ hlt⟩

/-- **(−a)/b = −(a/b)**, NaN staying NaN — all patterns -/
theorem div_neg_left (f : Fmt) (h : WF f) (a b : Nat) : FP.div f (FP.neg f a) b = negN f (FP.div f a b) := by
  have hnn : negN f f.nanBits = f.nanBits := by simp [negN, isNaN_nanBits f h]
  have hinf : ∀ s, negN f (f.infBitsS s) = f.infBitsS (!s) := fun s => by
    simp [negN, isNaN_infBitsS f h, neg_infBitsS f h]
  have hzero : ∀ s, negN f (f.zeroBits s) = f.zeroBits (!s) := fun s => by
    simp [negN, isNaN_zeroBits f h, neg_zeroBits f h]
  unfold FP.div
  rw [decode_neg_all f h a]
  cases ha : decode f a <;> cases hb : decode f b <;> simp only []
  all_goals first
    | exact hnn.symm
    | (rename_i s t n e; rw [hinf]; cases s <;> cases t <;> rfl)
    | (rename_i s m e t; rw [hzero]; cases s <;> cases t <;> rfl)
    | (rename_i s m e t n e'
       by_cases hn : n = 0
       · simp only [hn, if_true]
         by_cases hm : m = 0
         · simp only [hm, if_true]; exact hnn.symm
         · simp only [hm, if_false]; rw [hinf]; cases s <;> cases t <;> rfl
       · simp only [hn, if_false]
         by_cases hm : m = 0
         · simp only [hm, if_true]; rw [hzero]; cases s <;> cases t <;> rfl
         · simp only [hm, if_false]
           have hle := div_core_le f h m n hm hn (e - e' - ((f.p + 2 + bitLen n - bitLen m : ℕ) : Int))
           simp only at hle
           obtain ⟨h1, h2⟩ := roundFin_neg_of_le f h (s != t) _ _ _ hle
           simp only [negN, h2, Bool.false_eq_true, if_false]
           rw [h1]
           cases s <;> cases t <;> rfl)

end FAVerif.SoftRound

namespace FAVerif.SoftRound
open FAVerif.FP FAVerif.FPQ

/-- **a/(−b) = −(a/b)**, NaN staying NaN — all patterns -/
theorem div_neg_right (f : Fmt) (h : WF f) (a b : Nat) : FP.div f a (FP.neg f b) = negN f (FP.div f a b) := by
  have hnn : negN f f.nanBits = f.nanBits := by simp [negN, isNaN_nanBits f h]
  have hinf : ∀ s, negN f (f.infBitsS s) = f.infBitsS (!s) := fun s => by
    simp [negN, isNaN_infBitsS f h, neg_infBitsS f h]
  have hzero : ∀ s, negN f (f.zeroBits s) = f.zeroBits (!s) := fun s => by
    simp [negN, isNaN_zeroBits f h, neg_zeroBits f h]
  unfold FP.div
  rw [decode_neg_all f h b]
  cases ha : decode f a <;> cases hb : decode f b <;> simp only []
  all_goals first
    | exact hnn.symm
    | (rename_i s t n e; rw [hinf]; cases s <;> cases t <;> rfl)
    | (rename_i s m e t; rw [hzero]; cases s <;> cases t <;> rfl)
    | (rename_i s m e t n e'
       by_cases hn : n = 0
       · simp only [hn, if_true]
         by_cases hm : m = 0
         · simp only [hm, if_true]; exact hnn.symm
         · simp only [hm, if_false]; rw [hinf]; cases s <;> cases t <;> rfl
       · simp only [hn, if_false]
         by_cases hm : m = 0
         · simp only [hm, if_true]; rw [hzero]; cases s <;> cases t <;> rfl
         · simp only [hm, if_false]
           have hle := div_core_le f h m n hm hn (e - e' - ((f.p + 2 + bitLen n - bitLen m : ℕ) : Int))
           simp only at hle
           obtain ⟨h1, h2⟩ := roundFin_neg_of_le f h (s != t) _ _ _ hle
           simp only [negN, h2, Bool.false_eq_true, if_false]
           rw [h1]
           cases s <;> cases t <;> rfl)

end FAVerif.SoftRound

namespace FAVerif.SoftRound
open FAVerif.FP

/-- (−a) + (−a) = −(a + a) for every pattern (doubling never cancels). -/
theorem add_neg_neg_self (f : Fmt) (h : WF f) (a : Nat) :
    FP.add f (FP.neg f a) (FP.neg f a) = negN f (FP.add f a a) := by
  unfold FP.add
  rw [decode_neg_all f h a]
  cases hd : decode f a with
  | nan =>
    simp only
    unfold negN; rw [isNaN_nanBits f h]; rfl
  | inf s =>
    simp only [if_true]
    unfold negN
    rw [isNaN_infBitsS f h s, neg_infBitsS f h s]; rfl
  | fin s m e =>
    simp only [min_self, sub_self, Int.toNat_zero, pow_zero, mul_one]
    have hM : sInt (!s) m + sInt (!s) m = -(sInt s m + sInt s m) := by
      cases s <;> simp [sInt] <;> ring
    rw [hM]
    by_cases hz : sInt s m + sInt s m = 0
    · simp only [hz, neg_zero, if_true, Bool.and_self]
      unfold negN
      rw [isNaN_zeroBits f h s, neg_zeroBits f h s]; rfl
    · have hz' : ¬ (-(sInt s m + sInt s m) = 0) := by simpa using hz
      simp only [hz, hz', if_false, Int.natAbs_neg]
      obtain ⟨e1, e2⟩ := roundFin_neg f h (decide (sInt s m + sInt s m < 0)) (sInt s m + sInt s m).natAbs e
      unfold negN
      rw [e2]
      simp only [Bool.false_eq_true, if_false]
      rw [e1]
      congr 1
      rw [← decide_not]
      exact decide_eq_decide.mpr (by omega)

theorem eq_comm' (f : Fmt) (a b : Nat) : FP.eq f a b = FP.eq f b a := by
  unfold FP.eq
  rw [Bool.and_comm (!isNaNBits f a) (!isNaNBits f b)]
  congr 1
  exact decide_eq_decide.mpr eq_comm

theorem magBits_neg (f : Fmt) (h : WF f) (a : Nat) : magBits f (FP.neg f a) = magBits f a := by
  have := abs_neg_eq f h a
  simpa [FP.abs, magBits] using this

lemma isNaN_of_mag0 (f : Fmt) (h : WF f) {z : Nat} (hz : magBits f z = 0) : isNaNBits f z = false := by
  have hzabs : FP.abs f z = 0 := by simpa [FP.abs, magBits] using hz
  have := isNaN_abs f h z
  rw [hzabs] at this
  have n0 : isNaNBits f 0 = false := by
    have := isNaN_zeroBits f h false
    simpa [Fmt.zeroBits] using this
  rw [n0] at this; exact this.symm

lemma ord_of_mag0 (f : Fmt) {z : Nat} (hz : magBits f z = 0) : ord f z = 0 := by
  unfold ord; rw [hz]; split <;> simp

/-- comparing −a with ±0 for equality is comparing a with ±0 -/
theorem eq_neg_zero (f : Fmt) (h : WF f) (a z : Nat) (hz : magBits f z = 0) : FP.eq f (FP.neg f a) z = FP.eq f a z := by
  unfold FP.eq
  rw [isNaN_neg f h a, ord_neg f h a, ord_of_mag0 f hz]
  congr 1
  exact decide_eq_decide.mpr (by omega)

/-- a + (−b) ≈ a − b (equal, or both NaN) -/
theorem add_neg_eqv_sub (f : Fmt) (h : WF f) (a b : Nat) : eqvN f (FP.add f a (FP.neg f b)) (FP.sub f a b) := by
  unfold FP.sub
  by_cases hn : isNaNBits f b = true
  · simp only [hn, if_true]
    have hn' : isNaNBits f (FP.neg f b) = true := by rw [isNaN_neg f h b]; exact hn
    rw [add_nan_r f a _ hn']; exact eqvN_refl f _
  · simp only [hn, Bool.false_eq_true, if_false]; exact eqvN_refl f _

end FAVerif.SoftRound
