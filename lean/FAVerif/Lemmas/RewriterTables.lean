/-
C04 — soundness of the SignAbs judge (`Models/SignAbs.lean`) over every linearly ordered field:
if `rowSound row = true` then every non-`None` entry of the row is the truth value of the
relational operator on *all* extended values denoted by the two keys.
-/
import FAVerif.Lemmas.RewriterSem
import FAVerif.Models.SignAbs

set_option linter.unusedSectionVars false
set_option linter.unusedVariables false

namespace FAVerif.SignAbs
open FAVerif.Rewriter

variable {K : Type} [Field K] [LinearOrder K] [IsStrictOrderedRing K]

/-- class of a finite value relative to a list of cut points (odd: strictly between / outside,
even: on a cut point) -/
def clsL : List K → K → Nat
  | [], _ => 1
  | b :: bs, x => if x < b then 1 else if x = b then 2 else 2 + clsL bs x

theorem clsL_pos (l : List K) (x : K) : 1 ≤ clsL l x := by
  induction l with
  | nil => simp [clsL]
  | cons b bs ih => simp only [clsL]; split_ifs <;> omega

theorem clsL_le (l : List K) (x : K) : clsL l x ≤ 2 * l.length + 1 := by
  induction l with
  | nil => simp [clsL]
  | cons b bs ih => simp only [clsL, List.length_cons]; split_ifs <;> omega

theorem clsL_cons_lt {b x : K} (bs : List K) (h : x < b) : clsL (b :: bs) x = 1 := by simp [clsL, h]
theorem clsL_cons_eq (b : K) (bs : List K) : clsL (b :: bs) b = 2 := by simp [clsL]
theorem clsL_cons_gt {b x : K} (bs : List K) (h : b < x) : clsL (b :: bs) x = 2 + clsL bs x := by
  have n1 : ¬ x < b := not_lt.2 (le_of_lt h)
  have n2 : x ≠ b := ne_of_gt h
  simp [clsL, n1, n2]

theorem clsL_lt (l : List K) : ∀ {x y : K}, clsL l x < clsL l y → x < y := by
  induction l with
  | nil => intro x y h; simp [clsL] at h
  | cons b bs ih =>
    intro x y h
    have hx := clsL_pos bs x
    have hy := clsL_pos bs y
    rcases lt_trichotomy x b with hxb | hxb | hxb <;> rcases lt_trichotomy y b with hyb | hyb | hyb
    · rw [clsL_cons_lt bs hxb, clsL_cons_lt bs hyb] at h; omega
    · subst hyb; exact hxb
    · exact lt_trans hxb hyb
    · subst hxb; rw [clsL_cons_eq, clsL_cons_lt bs hyb] at h; omega
    · subst hxb; subst hyb; rw [clsL_cons_eq] at h; omega
    · subst hxb; exact hyb
    · rw [clsL_cons_gt bs hxb, clsL_cons_lt bs hyb] at h; omega
    · subst hyb; rw [clsL_cons_gt bs hxb, clsL_cons_eq] at h; omega
    · rw [clsL_cons_gt bs hxb, clsL_cons_gt bs hyb] at h; exact ih (by omega)

theorem clsL_even (l : List K) : ∀ {x y : K}, clsL l x = clsL l y → clsL l x % 2 = 0 → x = y := by
  induction l with
  | nil => intro x y h he; simp [clsL] at he
  | cons b bs ih =>
    intro x y h he
    have hx := clsL_pos bs x
    have hy := clsL_pos bs y
    rcases lt_trichotomy x b with hxb | hxb | hxb <;> rcases lt_trichotomy y b with hyb | hyb | hyb
    · rw [clsL_cons_lt bs hxb] at he; omega
    · rw [clsL_cons_lt bs hxb] at he; omega
    · rw [clsL_cons_lt bs hxb] at he; omega
    · subst hxb; rw [clsL_cons_eq, clsL_cons_lt bs hyb] at h; omega
    · subst hxb; subst hyb; rfl
    · subst hxb; rw [clsL_cons_eq, clsL_cons_gt bs hyb] at h; omega
    · rw [clsL_cons_gt bs hxb, clsL_cons_lt bs hyb] at h; omega
    · subst hyb; rw [clsL_cons_gt bs hxb, clsL_cons_eq] at h; omega
    · rw [clsL_cons_gt bs hxb, clsL_cons_gt bs hyb] at h
      rw [clsL_cons_gt bs hxb] at he
      exact ih (by omega) (by omega)

/-- the named points, ordered -/
structure NC (K : Type) [Field K] [LinearOrder K] where
  a : K
  b : K
  c : K
  d : K
  h : 0 < a ∧ a < b ∧ b < c ∧ c < 1 ∧ 1 < d

def NC.bps (nc : NC K) : List K := [0, nc.a, nc.b, nc.c, 1, nc.d]

def cls (nc : NC K) : EV K → Nat
  | .ninf => 0
  | .fin x => clsL nc.bps x
  | .pinf => 14

theorem bps_bounds (nc : NC K) (x : K) : 1 ≤ clsL nc.bps x ∧ clsL nc.bps x ≤ 13 := by
  constructor
  · exact clsL_pos _ _
  · have := clsL_le nc.bps x
    simp only [NC.bps, List.length_cons, List.length_nil] at this
    simp only [NC.bps]
    omega

theorem cls_lt (nc : NC K) {x y : EV K} (h : cls nc x < cls nc y) : EV.lt x y := by
  cases x with
  | ninf =>
    cases y with
    | ninf => simp [cls] at h
    | fin y => trivial
    | pinf => trivial
  | fin x =>
    have bx := bps_bounds nc x
    cases y with
    | ninf => simp only [cls] at h; omega
    | fin y => exact clsL_lt _ h
    | pinf => trivial
  | pinf =>
    cases y with
    | ninf => simp [cls] at h
    | fin y => have := bps_bounds nc y; simp only [cls] at h; omega
    | pinf => simp [cls] at h

theorem cls_even (nc : NC K) {x y : EV K} (h : cls nc x = cls nc y) (he : cls nc x % 2 = 0) : x = y := by
  cases x with
  | ninf =>
    cases y with
    | ninf => rfl
    | fin y => have := bps_bounds nc y; simp only [cls] at h; omega
    | pinf => simp [cls] at h
  | fin x =>
    have bx := bps_bounds nc x
    cases y with
    | ninf => simp only [cls] at h; omega
    | fin y => simp only [cls] at h he; rw [clsL_even _ h he]
    | pinf => simp only [cls] at h; omega
  | pinf =>
    cases y with
    | ninf => simp [cls] at h
    | fin y => have := bps_bounds nc y; simp only [cls] at h; omega
    | pinf => rfl

/-- values denoted by a table key -/
def InKey (nc : NC K) : Key → EV K → Prop
  | .name s, v =>
    if s = "positive" then EV.lt (.fin 0) v
    else if s = "nonnegative" then EV.le (.fin 0) v
    else if s = "negative" then EV.lt v (.fin 0)
    else if s = "nonpositive" then EV.le v (.fin 0)
    else if s = "finite" then ∃ x, v = .fin x
    else if s = "neginf" then v = .ninf
    else if s = "smallest_subnormal" then v = .fin nc.a
    else if s = "smallest" then v = .fin nc.b
    else if s = "eps" then v = .fin nc.c
    else if s = "largest" then v = .fin nc.d
    else if s = "posinf" then v = .pinf
    else False
  | .num n, v => v = .fin (n : K)

theorem clsL_zero (nc : NC K) : clsL nc.bps 0 = 2 := by rw [NC.bps, clsL_cons_eq]

theorem clsL_of_pos (nc : NC K) {x : K} (h : 0 < x) : 3 ≤ clsL nc.bps x := by
  rw [NC.bps, clsL_cons_gt _ h]
  have := clsL_pos [nc.a, nc.b, nc.c, 1, nc.d] x
  omega

theorem clsL_of_neg (nc : NC K) {x : K} (h : x < 0) : clsL nc.bps x = 1 := by
  rw [NC.bps, clsL_cons_lt _ h]

theorem clsL_a (nc : NC K) : clsL nc.bps nc.a = 4 := by
  obtain ⟨ha, hab, hbc, hc1, h1d⟩ := nc.h
  rw [NC.bps, clsL_cons_gt _ ha, clsL_cons_eq]
theorem clsL_b (nc : NC K) : clsL nc.bps nc.b = 6 := by
  obtain ⟨ha, hab, hbc, hc1, h1d⟩ := nc.h
  rw [NC.bps, clsL_cons_gt _ (by linarith), clsL_cons_gt _ hab, clsL_cons_eq]
theorem clsL_c (nc : NC K) : clsL nc.bps nc.c = 8 := by
  obtain ⟨ha, hab, hbc, hc1, h1d⟩ := nc.h
  rw [NC.bps, clsL_cons_gt _ (by linarith), clsL_cons_gt _ (by linarith), clsL_cons_gt _ hbc, clsL_cons_eq]
theorem clsL_one (nc : NC K) : clsL nc.bps 1 = 10 := by
  obtain ⟨ha, hab, hbc, hc1, h1d⟩ := nc.h
  rw [NC.bps, clsL_cons_gt _ (by linarith), clsL_cons_gt _ (by linarith), clsL_cons_gt _ (by linarith),
    clsL_cons_gt _ hc1, clsL_cons_eq]
theorem clsL_d (nc : NC K) : clsL nc.bps nc.d = 12 := by
  obtain ⟨ha, hab, hbc, hc1, h1d⟩ := nc.h
  rw [NC.bps, clsL_cons_gt _ (by linarith), clsL_cons_gt _ (by linarith), clsL_cons_gt _ (by linarith),
    clsL_cons_gt _ (by linarith), clsL_cons_gt _ h1d, clsL_cons_eq]

theorem inKey_cls (nc : NC K) {k : Key} {ci : List Nat} {v : EV K} (hk : keyClasses k = some ci) (hv : InKey nc k v) :
    cls nc v ∈ ci := by
  cases k with
  | num n =>
    simp only [keyClasses] at hk
    simp only [InKey] at hv
    subst hv
    by_cases h0 : n = 0
    · rw [if_pos h0] at hk; cases hk; subst h0
      simp only [cls, Int.cast_zero, clsL_zero, List.mem_singleton]
    · rw [if_neg h0] at hk
      by_cases h1 : n = 1
      · rw [if_pos h1] at hk; cases hk; subst h1
        simp only [cls, Int.cast_one, clsL_one, List.mem_singleton]
      · rw [if_neg h1] at hk; cases hk
  | name s =>
    simp only [keyClasses] at hk
    simp only [InKey] at hv
    by_cases h1 : s = "positive"
    · rw [if_pos h1] at hk hv; cases hk
      simp only [List.mem_range'_1]
      cases v with
      | ninf => simp [EV.lt] at hv
      | fin x =>
        have := clsL_of_pos nc (show 0 < x from hv)
        have := (bps_bounds nc x).2
        simp only [cls]; omega
      | pinf => simp [cls]
    rw [if_neg h1] at hk hv
    by_cases h2 : s = "nonnegative"
    · rw [if_pos h2] at hk hv; cases hk
      simp only [List.mem_range'_1]
      cases v with
      | ninf => simp [EV.le, EV.lt] at hv
      | fin x =>
        have hx : 0 ≤ x := by simpa using hv
        have hb := (bps_bounds nc x).2
        rcases lt_or_eq_of_le hx with h | h
        · have := clsL_of_pos nc h; simp only [cls]; omega
        · subst h; simp only [cls, clsL_zero]; omega
      | pinf => simp [cls]
    rw [if_neg h2] at hk hv
    by_cases h3 : s = "negative"
    · rw [if_pos h3] at hk hv; cases hk
      simp only [List.mem_range'_1]
      cases v with
      | ninf => simp [cls]
      | fin x => simp only [cls, clsL_of_neg nc (show x < 0 from hv)]; omega
      | pinf => simp [EV.lt] at hv
    rw [if_neg h3] at hk hv
    by_cases h4 : s = "nonpositive"
    · rw [if_pos h4] at hk hv; cases hk
      simp only [List.mem_range'_1]
      cases v with
      | ninf => simp [cls]
      | fin x =>
        have hx : x ≤ 0 := by simpa using hv
        rcases lt_or_eq_of_le hx with h | h
        · simp only [cls, clsL_of_neg nc h]; omega
        · subst h; simp only [cls, clsL_zero]; omega
      | pinf => simp [EV.le, EV.lt] at hv
    rw [if_neg h4] at hk hv
    by_cases h5 : s = "finite"
    · rw [if_pos h5] at hk hv; cases hk
      simp only [List.mem_range'_1]
      obtain ⟨x, rfl⟩ := hv
      have := bps_bounds nc x
      simp only [cls]; omega
    rw [if_neg h5] at hk hv
    by_cases h6 : s = "neginf"
    · rw [if_pos h6] at hk hv; cases hk; subst hv; simp [cls]
    rw [if_neg h6] at hk hv
    by_cases h7 : s = "smallest_subnormal"
    · rw [if_pos h7] at hk hv; cases hk; subst hv; simp [cls, clsL_a]
    rw [if_neg h7] at hk hv
    by_cases h8 : s = "smallest"
    · rw [if_pos h8] at hk hv; cases hk; subst hv; simp [cls, clsL_b]
    rw [if_neg h8] at hk hv
    by_cases h9 : s = "eps"
    · rw [if_pos h9] at hk hv; cases hk; subst hv; simp [cls, clsL_c]
    rw [if_neg h9] at hk hv
    by_cases h10 : s = "largest"
    · rw [if_pos h10] at hk hv; cases hk; subst hv; simp [cls, clsL_d]
    rw [if_neg h10] at hk hv
    by_cases h11 : s = "posinf"
    · rw [if_pos h11] at hk hv; cases hk; subst hv; simp [cls]
    rw [if_neg h11] at hk hv
    exact absurd hv (by simp)

theorem holds_of_lt {x y : EV K} (h : EV.lt x y) (r : Rel) : rowLT[r.index]? = some (r.holds x y) := by
  have h' := EV.lt_asymm' h
  have hne : x ≠ y := by rintro rfl; exact EV.lt_irrefl' _ h
  cases r <;> simp [rowLT, Rel.index, Rel.holds, EV.le, h, h', hne]

theorem holds_of_gt {x y : EV K} (h : EV.lt y x) (r : Rel) : rowGT[r.index]? = some (r.holds x y) := by
  have h' := EV.lt_asymm' h
  have hne : x ≠ y := by rintro rfl; exact EV.lt_irrefl' _ h
  cases r <;> simp [rowGT, Rel.index, Rel.holds, EV.le, h, h', hne]

theorem holds_of_eq (x : EV K) (r : Rel) : rowEQ[r.index]? = some (r.holds x x) := by
  cases r <;> simp [rowEQ, Rel.index, Rel.holds, EV.le]

theorem determined_correct (nc : NC K) {x y : EV K} {r : Rel} {b : Bool}
    (h : determined (cls nc x) (cls nc y) r.index = some b) : r.holds x y = b := by
  unfold determined at h
  split_ifs at h with h1 h2 h3
  · have := holds_of_lt (cls_lt nc h1) r; rw [h] at this; exact (Option.some.inj this).symm
  · have := holds_of_gt (cls_lt nc h2) r; rw [h] at this; exact (Option.some.inj this).symm
  · have he : cls nc x = cls nc y := by omega
    have := cls_even nc he h3
    subst this
    have := holds_of_eq x r; rw [h] at this; exact (Option.some.inj this).symm

theorem entrySound_correct (nc : NC K) {ci cj : List Nat} {r : Rel} {b : Bool} {x y : EV K}
    (h : entrySound ci cj r.index b = true) (hx : cls nc x ∈ ci) (hy : cls nc y ∈ cj) : r.holds x y = b := by
  simp only [entrySound, List.all_eq_true, beq_iff_eq] at h
  exact determined_correct nc (h _ hx _ hy)

/-- **soundness of the judge**: a row judged sound is sound on all values denoted by its keys -/
theorem rowSound_correct (nc : NC K) {k1 k2 : Key} {row : Row} {r : Rel} {b : Bool} {x y : EV K}
    (h : rowSound ((k1, k2), row) = true) (he : (row[r.index]?).join = some b)
    (hx : InKey nc k1 x) (hy : InKey nc k2 y) : r.holds x y = b := by
  simp only [rowSound] at h
  split at h
  · rename_i ci cj h1 h2
    simp only [List.all_eq_true, List.mem_range] at h
    have := h r.index (by cases r <;> simp [Rel.index])
    simp only [he] at this
    exact entrySound_correct nc this (inKey_cls nc h1 hx) (inKey_cls nc h2 hy)
  · cases h

theorem lookup_mem {α β : Type} [BEq α] [LawfulBEq α] {l : List (α × β)} {k : α} {v : β} (h : l.lookup k = some v) :
    (k, v) ∈ l := by
  induction l with
  | nil => simp at h
  | cons p rest ih =>
    obtain ⟨a, b⟩ := p
    simp only [List.lookup] at h
    split at h
    · rename_i heq
      have : k = a := by simpa using heq
      subst this; cases h; simp
    · simp [ih h]

end FAVerif.SignAbs
