/-
Round-to-nearest-even over ℚ as a relation `IsRNE`, its uniqueness, existence, and the fact
that it is a round-to-nearest in the sense of `FPTheory.IsRN`.  This is the bridge between the
abstract theory (any round-to-nearest `r`) and the executable softfloat (`FP.roundCore`).
-/
import Mathlib.Tactic
import Mathlib.Data.Int.Log
import FAVerif.Lemmas.FPTheory

namespace FAVerif.FPQ

variable (q : QFmt)

/-- `n · 2^et` is the round-to-nearest-even of the positive rational `x` in format `q`
(gradual underflow at `emin`, no overflow): `et` is the grid exponent of `x`'s binade. -/
structure IsRNE (x : ℚ) (n : ℤ) (et : ℤ) : Prop where
  emin_le : q.emin ≤ et
  lt_top : x < 2 ^ q.p * 2 ^ et
  ge_bot : et = q.emin ∨ 2 ^ (q.p - 1) * 2 ^ et ≤ x
  near : |(n : ℚ) * 2 ^ et - x| ≤ 2 ^ et / 2
  even : |(n : ℚ) * 2 ^ et - x| = 2 ^ et / 2 → Even n

variable {q}

lemma zpow_two_pos (e : ℤ) : (0 : ℚ) < 2 ^ e := zpow_pos (by norm_num) e

lemma two_pow_p (q : QFmt) : (2 : ℚ) ^ q.p = 2 * 2 ^ (q.p - 1) := by
  have := q.hp
  obtain ⟨n, hn⟩ : ∃ n, q.p = n + 1 := ⟨q.p - 1, by omega⟩
  rw [hn, pow_succ]; simp; ring

theorem IsRNE.exp_unique {x : ℚ} {n n' et et' : ℤ} (h : IsRNE q x n et) (h' : IsRNE q x n' et') : et = et' := by
  -- if et < et' then et' > emin, so 2^(p-1+et') ≤ x < 2^(p+et) ≤ 2^(p+et'-1)
  have key : ∀ {a b : ℤ} {m m' : ℤ}, IsRNE q x m a → IsRNE q x m' b → ¬ a < b := by
    intro a b m m' ha hb hlt
    have hb' : 2 ^ (q.p - 1) * 2 ^ b ≤ x := by
      rcases hb.ge_bot with hb0 | hb0
      · have := ha.emin_le; omega
      · exact hb0
    have h1 : (2 : ℚ) ^ a ≤ 2 ^ (b - 1) := zpow_le_zpow_right₀ (by norm_num) (by omega)
    have h2 : (2 : ℚ) ^ b = 2 * 2 ^ (b - 1) := by
      rw [show b = (b - 1) + 1 by ring, zpow_add₀ (by norm_num : (2 : ℚ) ≠ 0)]; simp; ring
    have hp := two_pow_p q
    have hpos : (0 : ℚ) < 2 ^ (q.p - 1) := by positivity
    have := ha.lt_top
    have : x < 2 ^ (q.p - 1) * 2 ^ b := by
      calc x < 2 ^ q.p * 2 ^ a := ha.lt_top
        _ ≤ 2 ^ q.p * 2 ^ (b - 1) := mul_le_mul_of_nonneg_left h1 (by positivity)
        _ = 2 ^ (q.p - 1) * 2 ^ b := by rw [hp, h2]; ring
    linarith
  rcases lt_trichotomy et et' with h1 | h1 | h1
  · exact absurd h1 (key h h')
  · exact h1
  · exact absurd h1 (key h' h)

theorem IsRNE.unique {x : ℚ} {n n' et et' : ℤ} (h : IsRNE q x n et) (h' : IsRNE q x n' et') :
    et = et' ∧ n = n' := by
  have he := h.exp_unique h'
  subst he
  refine ⟨rfl, ?_⟩
  have hu := zpow_two_pos et
  -- |n - n'| * u ≤ u, with equality only if both are exact ties
  have hd : |((n : ℚ) - n') * 2 ^ et| ≤ 2 ^ et := by
    calc |((n : ℚ) - n') * 2 ^ et| = |((n : ℚ) * 2 ^ et - x) - ((n' : ℚ) * 2 ^ et - x)| := by ring_nf
      _ ≤ |(n : ℚ) * 2 ^ et - x| + |(n' : ℚ) * 2 ^ et - x| := abs_sub _ _
      _ ≤ 2 ^ et / 2 + 2 ^ et / 2 := add_le_add h.near h'.near
      _ = 2 ^ et := by ring
  rw [abs_mul, abs_of_pos hu] at hd
  have hd' : |(n : ℚ) - n'| ≤ 1 := by
    have := le_of_mul_le_mul_right (by linarith : |(n : ℚ) - n'| * 2 ^ et ≤ 1 * 2 ^ et) hu
    exact this
  have hd'' : |n - n'| ≤ 1 := by exact_mod_cast hd'
  by_contra hne
  have habs : |n - n'| = 1 := by
    have : 0 < |n - n'| := abs_pos.mpr (sub_ne_zero.mpr hne)
    omega
  -- then both distances are exactly u/2
  have hsum : |(n : ℚ) * 2 ^ et - x| + |(n' : ℚ) * 2 ^ et - x| ≥ 2 ^ et := by
    have : |((n : ℚ) - n') * 2 ^ et| = 2 ^ et := by
      rw [abs_mul, abs_of_pos hu]
      have : |(n : ℚ) - n'| = 1 := by exact_mod_cast habs
      rw [this, one_mul]
    calc (2 : ℚ) ^ et = |((n : ℚ) - n') * 2 ^ et| := this.symm
      _ = |((n : ℚ) * 2 ^ et - x) - ((n' : ℚ) * 2 ^ et - x)| := by ring_nf
      _ ≤ _ := abs_sub _ _
  have e1 : |(n : ℚ) * 2 ^ et - x| = 2 ^ et / 2 := by linarith [h.near, h'.near]
  have e2 : |(n' : ℚ) * 2 ^ et - x| = 2 ^ et / 2 := by linarith [h.near, h'.near]
  have ev1 := h.even e1
  have ev2 := h'.even e2
  obtain ⟨a, ha⟩ := ev1
  obtain ⟨b, hb⟩ := ev2
  rw [ha, hb] at habs
  rcases abs_cases (a + a - (b + b)) with ⟨h1, _⟩ | ⟨h1, _⟩ <;> omega

/-- the rounded value is nonnegative and at most 2^p·2^et -/
theorem IsRNE.bounds {x : ℚ} {n et : ℤ} (hx : 0 < x) (h : IsRNE q x n et) : 0 ≤ n ∧ n ≤ 2 ^ q.p := by
  have hu := zpow_two_pos et
  have h1 := abs_le.1 h.near
  constructor
  · by_contra hneg
    push Not at hneg
    have : (n : ℚ) ≤ -1 := by exact_mod_cast (by omega : n ≤ -1)
    nlinarith
  · by_contra hgt
    push Not at hgt
    have : (2 : ℚ) ^ q.p + 1 ≤ n := by exact_mod_cast (by omega : (2 : ℤ) ^ q.p + 1 ≤ n)
    have := h.lt_top
    nlinarith

theorem IsRNE.rep {x : ℚ} {n et : ℤ} (hx : 0 < x) (h : IsRNE q x n et) : Rep q ((n : ℚ) * 2 ^ et) := by
  obtain ⟨h0, h1⟩ := h.bounds hx
  apply rep_of_mult_le h.emin_le ⟨n, rfl⟩
  have hu := zpow_two_pos et
  rw [abs_mul, abs_of_pos hu, abs_of_nonneg (by exact_mod_cast h0)]
  exact mul_le_mul_of_nonneg_right (by exact_mod_cast h1) hu.le

/-- nearest among ALL multiples of the grid -/
lemma IsRNE.near_mult {x : ℚ} {n et : ℤ} (h : IsRNE q x n et) (j : ℤ) :
    |(n : ℚ) * 2 ^ et - x| ≤ |(j : ℚ) * 2 ^ et - x| := by
  have hu := zpow_two_pos et
  by_cases hj : j = n
  · rw [hj]
  · have : (1 : ℚ) ≤ |(j : ℚ) - n| := by
      have : 1 ≤ |j - n| := by
        have : 0 < |j - n| := abs_pos.mpr (sub_ne_zero.mpr hj)
        omega
      exact_mod_cast this
    have h1 : (2 : ℚ) ^ et ≤ |((j : ℚ) - n) * 2 ^ et| := by
      rw [abs_mul, abs_of_pos hu]; nlinarith
    have h2 : |((j : ℚ) - n) * 2 ^ et| ≤ |(j : ℚ) * 2 ^ et - x| + |(n : ℚ) * 2 ^ et - x| := by
      calc |((j : ℚ) - n) * 2 ^ et| = |((j : ℚ) * 2 ^ et - x) - ((n : ℚ) * 2 ^ et - x)| := by ring_nf
        _ ≤ _ := abs_sub _ _
    linarith [h.near]

/-- **RNE is a nearest representable number.** -/
theorem IsRNE.nearest {x : ℚ} {n et : ℤ} (hx : 0 < x) (h : IsRNE q x n et) {z : ℚ} (hz : Rep q z) :
    |(n : ℚ) * 2 ^ et - x| ≤ |z - x| := by
  have hu := zpow_two_pos et
  by_contra hc
  push Not at hc
  obtain ⟨mz, ez, rfl, hmz, hez⟩ := hz
  rcases le_or_gt et ez with hle | hlt
  · -- z is a multiple of the grid
    obtain ⟨d, rfl⟩ : ∃ d : ℕ, ez = et + d := ⟨(ez - et).toNat, by omega⟩
    have hz' : (mz : ℚ) * 2 ^ (et + (d : ℤ)) = ((mz * 2 ^ d : ℤ) : ℚ) * 2 ^ et := by
      rw [zpow_add₀ (by norm_num : (2 : ℚ) ≠ 0), zpow_natCast]; push_cast; ring
    rw [hz'] at hc
    exact absurd (h.near_mult (mz * 2 ^ d)) (not_le.2 hc)
  · -- z lives on a finer grid: it is below the binade, and the binade's lower end is a grid point at least as close
    have het : et ≠ q.emin := by omega
    have hB : 2 ^ (q.p - 1) * 2 ^ et ≤ x := by
      rcases h.ge_bot with h0 | h0
      · exact absurd h0 het
      · exact h0
    have hzlt : |(mz : ℚ) * 2 ^ ez| < 2 ^ (q.p - 1) * 2 ^ et := by
      have huz := zpow_two_pos ez
      have h1 : (2 : ℚ) ^ ez ≤ 2 ^ (et - 1) := zpow_le_zpow_right₀ (by norm_num) (by omega)
      have h2 : (2 : ℚ) ^ et = 2 * 2 ^ (et - 1) := by
        rw [show et = (et - 1) + 1 by ring, zpow_add₀ (by norm_num : (2 : ℚ) ≠ 0)]; simp; ring
      have hm' : |(mz : ℚ)| < 2 ^ q.p := by exact_mod_cast hmz
      calc |(mz : ℚ) * 2 ^ ez| = |(mz : ℚ)| * 2 ^ ez := by rw [abs_mul, abs_of_pos huz]
        _ < 2 ^ q.p * 2 ^ ez := mul_lt_mul_of_pos_right hm' huz
        _ ≤ 2 ^ q.p * 2 ^ (et - 1) := mul_le_mul_of_nonneg_left h1 (by positivity)
        _ = 2 ^ (q.p - 1) * 2 ^ et := by rw [two_pow_p q, h2]; ring
    have hzx : (mz : ℚ) * 2 ^ ez < 2 ^ (q.p - 1) * 2 ^ et := lt_of_le_of_lt (le_abs_self _) hzlt
    have hgrid := h.near_mult (2 ^ (q.p - 1))
    push_cast at hgrid
    have : |(2 : ℚ) ^ (q.p - 1) * 2 ^ et - x| < |(mz : ℚ) * 2 ^ ez - x| := by
      rw [abs_of_nonpos (by linarith), abs_of_nonpos (by linarith)]
      linarith
    linarith

/-- existence of the round-to-nearest-even of every positive rational -/
theorem exists_rne (q : QFmt) {x : ℚ} (hx : 0 < x) : ∃ n et, IsRNE q x n et := by
  set L := Int.log 2 x with hL
  have hL1 : (2 : ℚ) ^ L ≤ x := Int.zpow_log_le_self (by norm_num) hx
  have hL2 : x < (2 : ℚ) ^ (L + 1) := Int.lt_zpow_succ_log_self (by norm_num) x
  set et : ℤ := max (L - q.p + 1) q.emin with het
  have hu := zpow_two_pos et
  set t : ℚ := x / 2 ^ et with ht
  have hxt : x = t * 2 ^ et := by rw [ht]; field_simp
  set fl : ℤ := ⌊t⌋ with hfl
  have hf1 : (fl : ℚ) ≤ t := Int.floor_le t
  have hf2 : t < fl + 1 := Int.lt_floor_add_one t
  -- choose n
  obtain ⟨n, hn1, hn2⟩ : ∃ n : ℤ, |(n : ℚ) - t| ≤ 1 / 2 ∧ (|(n : ℚ) - t| = 1 / 2 → Even n) := by
    rcases lt_trichotomy (t - fl) (1 / 2) with hlt | heq | hgt
    · refine ⟨fl, ?_, ?_⟩
      · rw [abs_of_nonpos (by linarith)]; linarith
      · intro h; rw [abs_of_nonpos (by linarith)] at h; linarith
    · rcases Int.even_or_odd fl with hev | hodd
      · refine ⟨fl, ?_, fun _ => hev⟩
        rw [abs_of_nonpos (by linarith)]; linarith
      · refine ⟨fl + 1, ?_, fun _ => hodd.add_one⟩
        push_cast; rw [abs_of_nonneg (by linarith)]; linarith
    · refine ⟨fl + 1, ?_, ?_⟩
      · push_cast; rw [abs_of_nonneg (by linarith)]; linarith
      · intro h; push_cast at h; rw [abs_of_nonneg (by linarith)] at h; linarith
  refine ⟨n, et, ⟨le_max_right _ _, ?_, ?_, ?_, ?_⟩⟩
  · -- x < 2^(L+1) ≤ 2^p 2^et
    have : (2 : ℚ) ^ (L + 1) ≤ 2 ^ q.p * 2 ^ et := by
      have h1 : L + 1 ≤ (q.p : ℤ) + et := by have := le_max_left (L - q.p + 1) q.emin; omega
      calc (2 : ℚ) ^ (L + 1) ≤ 2 ^ ((q.p : ℤ) + et) := zpow_le_zpow_right₀ (by norm_num) h1
        _ = 2 ^ q.p * 2 ^ et := by rw [zpow_add₀ (by norm_num : (2 : ℚ) ≠ 0), zpow_natCast]
    linarith
  · rcases le_total (L - q.p + 1) q.emin with h | h
    · left; exact max_eq_right h
    · right
      have hetv : et = L - q.p + 1 := max_eq_left h
      have : (2 : ℚ) ^ (q.p - 1) * 2 ^ et = 2 ^ L := by
        rw [hetv, ← zpow_natCast, ← zpow_add₀ (by norm_num : (2 : ℚ) ≠ 0)]
        congr 1
        have := q.hp
        push_cast [Nat.cast_sub (by omega : 1 ≤ q.p)]
        ring
      rw [this]; exact hL1
  · have : (n : ℚ) * 2 ^ et - x = ((n : ℚ) - t) * 2 ^ et := by rw [hxt]; ring
    rw [this, abs_mul, abs_of_pos hu]
    nlinarith
  · intro h
    apply hn2
    have : (n : ℚ) * 2 ^ et - x = ((n : ℚ) - t) * 2 ^ et := by rw [hxt]; ring
    rw [this, abs_mul, abs_of_pos hu] at h
    have : |(n : ℚ) - t| * 2 ^ et = (1 / 2) * 2 ^ et := by rw [h]; ring
    exact mul_right_cancel₀ hu.ne' this

/-- The round-to-nearest-even function on ℚ (no overflow, gradual underflow). -/
noncomputable def rne (q : QFmt) (x : ℚ) : ℚ :=
  if h : 0 < x then
    ((Classical.choose (exists_rne q h) : ℤ) : ℚ) * 2 ^ (Classical.choose (Classical.choose_spec (exists_rne q h)))
  else if h' : x < 0 then
    -(((Classical.choose (exists_rne q (neg_pos.2 h')) : ℤ) : ℚ) *
        2 ^ (Classical.choose (Classical.choose_spec (exists_rne q (neg_pos.2 h')))))
  else 0

theorem rne_pos {x : ℚ} (hx : 0 < x) {n et : ℤ} (h : IsRNE q x n et) : rne q x = (n : ℚ) * 2 ^ et := by
  unfold rne
  rw [dif_pos hx]
  have hs := Classical.choose_spec (Classical.choose_spec (exists_rne q hx))
  obtain ⟨h1, h2⟩ := hs.unique h
  rw [h1, h2]

theorem rne_neg (x : ℚ) : rne q (-x) = -rne q x := by
  unfold rne
  rcases lt_trichotomy x 0 with h | h | h
  · have h1 : 0 < -x := neg_pos.2 h
    have h2 : ¬ 0 < x := by linarith
    rw [dif_pos h1, dif_neg h2, dif_pos h]
    simp
  · subst h; simp
  · have h1 : ¬ 0 < -x := by linarith
    have h2 : -x < 0 := by linarith
    rw [dif_neg h1, dif_pos h2, dif_pos h]
    simp only [neg_neg]

theorem rne_zero : rne q 0 = 0 := by simp [rne]

/-- **`rne` is a round-to-nearest**: every theorem of `FPTheory` applies to it. -/
theorem isRN_rne (q : QFmt) : IsRN q (rne q) where
  rep x := by
    rcases lt_trichotomy x 0 with h | h | h
    · have hx : 0 < -x := neg_pos.2 h
      obtain ⟨n, et, hne⟩ := exists_rne q hx
      have : rne q x = -((n : ℚ) * 2 ^ et) := by
        have := rne_neg (q := q) (-x); rw [neg_neg] at this; rw [this, rne_pos hx hne]
      rw [this]
      obtain ⟨m, e, hm, hb, he⟩ := hne.rep hx
      exact ⟨-m, e, by rw [hm]; push_cast; ring, by simpa using hb, he⟩
    · subst h; rw [rne_zero]; exact ⟨0, q.emin, by simp, by positivity, le_refl _⟩
    · obtain ⟨n, et, hne⟩ := exists_rne q h
      rw [rne_pos h hne]; exact hne.rep h
  near x y hy := by
    rcases lt_trichotomy x 0 with h | h | h
    · have hx : 0 < -x := neg_pos.2 h
      obtain ⟨n, et, hne⟩ := exists_rne q hx
      have hr : rne q x = -((n : ℚ) * 2 ^ et) := by
        have := rne_neg (q := q) (-x); rw [neg_neg] at this; rw [this, rne_pos hx hne]
      have hy' : Rep q (-y) := by
        obtain ⟨m, e, hm, hb, he⟩ := hy
        exact ⟨-m, e, by rw [hm]; push_cast; ring, by simpa using hb, he⟩
      have := hne.nearest hx hy'
      rw [hr]
      calc |-((n : ℚ) * 2 ^ et) - x| = |(n : ℚ) * 2 ^ et - -x| := by rw [← abs_neg]; ring_nf
        _ ≤ |-y - -x| := this
        _ = |y - x| := by rw [← abs_neg]; ring_nf
    · subst h; rw [rne_zero]; simp
    · obtain ⟨n, et, hne⟩ := exists_rne q h
      rw [rne_pos h hne]; exact hne.nearest h hy

end FAVerif.FPQ
