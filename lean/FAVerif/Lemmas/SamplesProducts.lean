/-
Helper lemmas for C19, part 6: the product constructors (`tile`, `repeatEach`, pair / triple / complex grids).
-/
import FAVerif.Models.Samples
namespace FAVerif.Samples

/-! ### product constructors -/

theorem tile_succ {α} (k : Nat) (l : List α) : tile (k + 1) l = l ++ tile k l := by
  simp [tile, List.replicate_succ]

theorem tile_zero {α} (l : List α) : tile 0 l = [] := by simp [tile]

theorem tile_length {α} (k : Nat) (l : List α) : (tile k l).length = k * l.length := by
  induction k with
  | zero => simp [tile]
  | succ k ih => rw [tile_succ, List.length_append, ih]; rw [Nat.succ_mul]; omega

theorem tile_add {α} (a b : Nat) (l : List α) : tile (a + b) l = tile a l ++ tile b l := by
  induction a with
  | zero => simp [tile_zero]
  | succ a ih => rw [show a + 1 + b = (a + b) + 1 by omega, tile_succ, tile_succ, ih, List.append_assoc]

theorem repeatEach_cons {α} (k : Nat) (a : α) (l : List α) : repeatEach k (a :: l) = List.replicate k a ++ repeatEach k l := by
  simp [repeatEach]

theorem repeatEach_nil {α} (k : Nat) : repeatEach k ([] : List α) = [] := rfl

theorem repeatEach_length {α} (k : Nat) (l : List α) : (repeatEach k l).length = k * l.length := by
  induction l with
  | nil => simp [repeatEach]
  | cons a l ih => rw [repeatEach_cons, List.length_append, ih]; simp [Nat.mul_succ]; omega

theorem zip_replicate_right {α β} (l : List α) (b : β) : l.zip (List.replicate l.length b) = l.map (fun a => (a, b)) := by
  induction l with
  | nil => rfl
  | cons a l ih => simp [List.replicate_succ, ih]

theorem zip_replicate_left {α β} (a : α) (l : List β) : (List.replicate l.length a).zip l = l.map (fun b => (a, b)) := by
  induction l with
  | nil => rfl
  | cons b l ih => simp [List.replicate_succ, ih]

/-- `zip (tile |s2| s1) (repeatEach |s1| s2)`: `s1` varies fastest -/
theorem zip_tile_repeat {α β} (s1 : List α) (s2 : List β) :
    (tile s2.length s1).zip (repeatEach s1.length s2) = s2.flatMap (fun b => s1.map (fun a => (a, b))) := by
  induction s2 with
  | nil => simp [tile_zero, repeatEach_nil]
  | cons b t ih =>
    rw [List.length_cons, tile_succ, repeatEach_cons, List.zip_append (by simp), ih, zip_replicate_right]
    simp

/-- `zip (repeatEach |s2| s1) (tile |s1| s2)`: `s2` varies fastest -/
theorem zip_repeat_tile {α β} (s1 : List α) (s2 : List β) :
    (repeatEach s2.length s1).zip (tile s1.length s2) = s1.flatMap (fun a => s2.map (fun b => (a, b))) := by
  induction s1 with
  | nil => simp [tile_zero, repeatEach_nil]
  | cons a t ih =>
    rw [List.length_cons, tile_succ, repeatEach_cons, List.zip_append (by simp), ih, zip_replicate_left]
    simp

theorem pair_product {α} (s1 s2 : List α) :
    (pairSamples s1 s2).1.zip (pairSamples s1 s2).2 = s2.flatMap (fun b => s1.map (fun a => (a, b))) ∧
    (pairSamples s1 s2).1.length = s1.length * s2.length ∧ (pairSamples s1 s2).2.length = s1.length * s2.length := by
  refine ⟨zip_tile_repeat s1 s2, ?_, ?_⟩
  · simp [pairSamples, tile_length, Nat.mul_comm]
  · simp [pairSamples, repeatEach_length]

theorem map_zip_replicate {α β} (a : α) (l : List β) (n : Nat) (h : n = l.length) :
    (List.replicate n a).zip l = l.map (fun b => (a, b)) := by
  subst h; exact zip_replicate_left a l

theorem triple_zip {α} (s1 s2 s3 : List α) :
    (repeatEach (s2.length * s3.length) s1).zip
        ((tile s1.length (repeatEach s3.length s2)).zip (tile (s1.length * s2.length) s3)) =
      s1.flatMap (fun a => s2.flatMap (fun b => s3.map (fun c => (a, b, c)))) := by
  have hin : (repeatEach s3.length s2).zip (tile s2.length s3) = s2.flatMap (fun b => s3.map (fun c => (b, c))) :=
    zip_repeat_tile s2 s3
  have hlen : ((repeatEach s3.length s2).zip (tile s2.length s3)).length = s2.length * s3.length := by
    simp [List.length_zip, repeatEach_length, tile_length, Nat.mul_comm]
  induction s1 with
  | nil => simp [tile_zero, repeatEach_nil]
  | cons a t ih =>
    rw [List.length_cons, tile_succ, repeatEach_cons, Nat.succ_mul, Nat.add_comm (t.length * s2.length), tile_add,
      List.zip_append (by simp [repeatEach_length, tile_length, Nat.mul_comm]),
      List.zip_append (by simp [repeatEach_length, tile_length, Nat.mul_comm]), ih,
      map_zip_replicate a _ _ hlen.symm, hin]
    simp [List.map_flatMap, List.flatMap_cons, Function.comp_def]

theorem triple_product {α} (s1 s2 s3 : List α) :
    (tripleSamples s1 s2 s3).1.zip ((tripleSamples s1 s2 s3).2.1.zip (tripleSamples s1 s2 s3).2.2) =
      s1.flatMap (fun a => s2.flatMap (fun b => s3.map (fun c => (a, b, c)))) ∧
    (tripleSamples s1 s2 s3).1.length = s1.length * s2.length * s3.length ∧
    (tripleSamples s1 s2 s3).2.1.length = s1.length * s2.length * s3.length ∧
    (tripleSamples s1 s2 s3).2.2.length = s1.length * s2.length * s3.length := by
  refine ⟨triple_zip s1 s2 s3, ?_, ?_, ?_⟩
  · simp [tripleSamples, repeatEach_length, Nat.mul_comm, Nat.mul_assoc]
  · simp [tripleSamples, repeatEach_length, tile_length, Nat.mul_comm, Nat.mul_assoc]
  · simp [tripleSamples, tile_length, Nat.mul_comm, Nat.mul_assoc]


theorem zipWith_replicate_left {α β γ} (f : α → β → γ) (a : α) (l : List β) :
    List.zipWith f (List.replicate l.length a) l = l.map (f a) := by
  induction l with
  | nil => rfl
  | cons b l ih => simp [List.replicate_succ, ih]

theorem zipWith_replicate_right {α β γ} (f : α → β → γ) (l : List α) (b : β) :
    List.zipWith f l (List.replicate l.length b) = l.map (fun a => f a b) := by
  induction l with
  | nil => rfl
  | cons a l ih => simp [List.replicate_succ, ih]

/-- `complex_samples`: row `j`, column `i` holds `(re[i] + 0.0, 0.0 + im[j])` -/
theorem complexGrid_eq (c : Cfg) (re im : List Nat) :
    complexGrid c re im = im.map (fun y => re.map (fun x => (addZero c x, addZero c y))) := by
  unfold complexGrid
  simp only []
  rw [List.zipWith_map_right, zipWith_replicate_left]
  apply List.map_congr_left
  intro y _
  have := zipWith_replicate_right (fun (a b : Nat × Nat) => (addZero c a.1, addZero c b.2)) (re.map fun x => (x, 0)) (0, y)
  rw [List.length_map] at this
  rw [this, List.map_map]
  rfl

theorem addZero_of_ne (c : Cfg) {x : Nat} (h : x ≠ c.negZero) : addZero c x = x := by
  simp [addZero, h]

/-- without a `-0.0` among the 1-D samples the grid is exactly the Cartesian product -/
theorem complexGrid_product (c : Cfg) (re im : List Nat) (hre : ∀ x ∈ re, x ≠ c.negZero) (him : ∀ y ∈ im, y ≠ c.negZero) :
    complexGrid c re im = im.map (fun y => re.map (fun x => (x, y))) := by
  rw [complexGrid_eq]
  apply List.map_congr_left
  intro y hy
  apply List.map_congr_left
  intro x hx
  rw [addZero_of_ne c (hre x hx), addZero_of_ne c (him y hy)]

/-! indices of `tile` / `repeatEach` -/

theorem getElem?_tile {α} (k : Nat) (l : List α) (i : Nat) :
    (tile k l)[i]? = if i < k * l.length then l[i % l.length]? else none := by
  induction k generalizing i with
  | zero => simp [tile_zero]
  | succ k ih =>
    rw [tile_succ, List.getElem?_append]
    split
    · rename_i h
      rw [if_pos (by rw [Nat.succ_mul]; omega), Nat.mod_eq_of_lt h]
    · rename_i h
      rw [ih]
      have h' : l.length ≤ i := by omega
      rw [← Nat.mod_eq_sub_mod h']
      by_cases h2 : i - l.length < k * l.length
      · rw [if_pos h2, if_pos (by rw [Nat.succ_mul]; omega)]
      · rw [if_neg h2, if_neg (by rw [Nat.succ_mul]; omega)]

theorem getElem?_repeatEach {α} (k : Nat) (hk : 0 < k) (l : List α) (i : Nat) :
    (repeatEach k l)[i]? = l[i / k]? := by
  induction l generalizing i with
  | nil => simp [repeatEach_nil]
  | cons a l ih =>
    rw [repeatEach_cons, List.getElem?_append]
    split
    · rename_i h
      simp only [List.length_replicate] at h
      rw [Nat.div_eq_of_lt h]
      simp [h]
    · rename_i h
      simp only [List.length_replicate] at h ⊢
      rw [ih]
      have : i / k = (i - k) / k + 1 := by
        rw [Nat.div_eq i k, if_pos ⟨hk, by omega⟩]
      rw [this]; simp

/-- `complex_pair_samples` on two rectangular grids (`m1 × n1` and `m2 × n2`): entry `(i, j)` of the first
result is entry `(i mod m1, j mod n1)` of the first grid, of the second result entry `(i div m1, j div n1)` of the
second grid — the map `(i, j) ↦ ((i mod m1, j mod n1), (i div m1, j div n1))` enumerates the Cartesian product. -/
theorem complexPair_index {α} (g1 g2 : List (List α)) (n1 n2 : Nat) (h1 : ∀ r ∈ g1, r.length = n1) (h2 : ∀ r ∈ g2, r.length = n2)
    (hg1 : g1 ≠ []) (hg2 : g2 ≠ []) (hn1 : 0 < n1) (i j : Nat) (hi : i < g1.length * g2.length) (hj : j < n1 * n2) :
    ((complexPairGrid g1 g2).1[i]?.bind (·[j]?)) = (g1[i % g1.length]?.bind (·[j % n1]?)) ∧
    ((complexPairGrid g1 g2).2[i]?.bind (·[j]?)) = (g2[i / g1.length]?.bind (·[j / n1]?)) := by
  have hm1 : 0 < g1.length := List.length_pos_iff.2 hg1
  have hm2 : 0 < g2.length := List.length_pos_iff.2 hg2
  have hd1 : (g1.headD []).length = n1 := by
    cases g1 with
    | nil => exact absurd rfl hg1
    | cons r t => exact h1 r (by simp)
  have hd2 : (g2.headD []).length = n2 := by
    cases g2 with
    | nil => exact absurd rfl hg2
    | cons r t => exact h2 r (by simp)
  unfold complexPairGrid
  simp only [hd1, hd2]
  constructor
  · rw [getElem?_tile, List.length_map, if_pos (by rw [Nat.mul_comm]; exact hi), List.getElem?_map]
    have hlt : i % g1.length < g1.length := Nat.mod_lt _ hm1
    rw [List.getElem?_eq_getElem hlt]
    simp only [Option.map_some, Option.bind_some]
    have hr := h1 _ (List.getElem_mem hlt)
    rw [getElem?_tile, hr, if_pos (by rw [Nat.mul_comm]; exact hj)]
  · rw [getElem?_repeatEach _ hm1, List.getElem?_map]
    have hlt : i / g1.length < g2.length := (Nat.div_lt_iff_lt_mul hm1).2 (by rw [Nat.mul_comm]; exact hi)
    rw [List.getElem?_eq_getElem hlt]
    simp only [Option.map_some, Option.bind_some]
    rw [getElem?_repeatEach _ hn1]


end FAVerif.Samples
