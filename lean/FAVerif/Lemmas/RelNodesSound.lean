/-
Soundness of the intra-run relation checker `relN` (Models/RelNodes.lean).
-/
import FAVerif.Models.RelNodes
import FAVerif.Lemmas.SymSound
import FAVerif.Lemmas.NodeSpec

namespace FAVerif.Sym
open FAVerif.IR FAVerif.FP FAVerif.SoftRound

variable {f : Fmt}

lemma rel_flip_left (hf : WF f) {d : Desc} {a b : Nat} (h : Rel f d a b) : Rel f (flipD d) (FP.neg f a) b := by
  cases d <;> simp only [flipD, Rel] at h ⊢
  · exact neg_congr f hf h
  · exact eqvN_neg_neg f hf h

lemma rel_flip_right (hf : WF f) {d : Desc} {a b : Nat} (h : Rel f d a b) : Rel f (flipD d) a (FP.neg f b) := by
  cases d <;> simp only [flipD, Rel] at h ⊢
  · rw [neg_neg' f hf]; exact h
  · exact h

/-- assumptions about condition nodes hold in the environment -/
def AsmOK (asm : List (Nat × Bool)) (env : Array Nat) : Prop :=
  ∀ (c : Nat) (t : Bool), asm.lookup c = some t → ∃ v, env[c]? = some v ∧ (v != 0) = t

section
variable (p : Prog) (hwf : p.wf = true) (lib : Libm) (ins : List Nat) (env : Array Nat)
  (he : evalNodes p.fmt lib ins p.nodes #[] = some env)
include hwf he

lemma node_select {k c a b : Nat} {n : Node} (hn : p.nodes[k]? = some n) (hop : n.op = .select) (hargs : n.args = [c, a, b])
    {v : Nat} (hv : env[k]? = some v) :
    ∃ vc va vb, env[c]? = some vc ∧ env[a]? = some va ∧ env[b]? = some vb ∧ v = if vc != 0 then va else vb := by
  have := (evalNodes_spec p hwf lib ins env he k n hn).1
  rw [hv] at this
  unfold evalNode at this
  simp only [hop, hargs, List.getElem?_cons_zero, List.getElem?_cons_succ, Option.bind_eq_bind, Option.bind_some] at this
  cases hc : env[c]? with
  | none => simp [hc] at this
  | some vc =>
    cases ha : env[a]? with
    | none => simp [hc, ha] at this
    | some va =>
      cases hb : env[b]? with
      | none => simp [hc, ha, hb] at this
      | some vb =>
        simp only [hc, ha, hb, Option.bind_some, Option.some.injEq] at this
        exact ⟨vc, va, vb, rfl, rfl, rfl, this.symm⟩

lemma node_neg {k a : Nat} {n : Node} (hn : p.nodes[k]? = some n) (hop : n.op = .neg) (hargs : n.args = [a])
    {v : Nat} (hv : env[k]? = some v) : ∃ va, env[a]? = some va ∧ v = FP.neg p.fmt va := by
  have := (evalNodes_spec p hwf lib ins env he k n hn).1
  rw [hv] at this
  unfold evalNode at this
  simp only [hop, hargs, List.getElem?_cons_zero, Option.bind_eq_bind, Option.bind_some] at this
  cases ha : env[a]? with
  | none => simp [ha] at this
  | some va =>
    simp only [ha, Option.bind_some, Option.some.injEq] at this
    exact ⟨va, rfl, this.symm⟩

lemma node_libm2 {k a b : Nat} {n : Node} {name : String} (hn : p.nodes[k]? = some n) (hop : n.op = .libm name) (hargs : n.args = [a, b])
    {v : Nat} (hv : env[k]? = some v) : ∃ va vb, env[a]? = some va ∧ env[b]? = some vb ∧ lib name [va, vb] = some v := by
  have := (evalNodes_spec p hwf lib ins env he k n hn).1
  rw [hv] at this
  unfold evalNode at this
  simp only [hop, hargs, List.mapM_cons, List.mapM_nil, Option.bind_eq_bind] at this
  cases ha : env[a]? with
  | none => simp [ha] at this
  | some va =>
    cases hb : env[b]? with
    | none => simp [ha, hb] at this
    | some vb =>
      simp [ha, hb] at this
      exact ⟨va, vb, rfl, rfl, this⟩

lemma lookup_of_node {k : Nat} {n : Node} (hn : p.nodes[k]? = some n) {a : Nat} (ha : a ∈ n.args) : ∃ va, env[a]? = some va := by
  -- arguments refer to earlier nodes, all of which have values
  have hgo : Prog.wf.go p p.nodes 0 = true := by
    have h := hwf; unfold Prog.wf at h; simp only [Bool.and_eq_true] at h; exact h.1
  have hlt := wf_go_args p p.nodes 0 hgo k n hn a ha
  have hk := (evalNodes_spec p hwf lib ins env he k n hn).2
  have : a < env.size := by omega
  exact ⟨env[a], Array.getElem?_eq_getElem this⟩

lemma selKnown_sound (asm : List (Nat × Bool)) (hasm : AsmOK asm env) {i a v : Nat} (h : selKnown p asm i = some a)
    (hv : env[i]? = some v) : env[a]? = some v := by
  unfold selKnown at h
  cases hn : p.nodes[i]? with
  | none => simp [hn] at h
  | some n =>
    simp only [hn] at h
    split at h
    · rename_i c x y hop hargs
      obtain ⟨vc, va, vb, ec, ea, eb, hvv⟩ := node_select p hwf lib ins env he hn hop hargs hv
      split at h
      · rename_i hl
        cases h
        obtain ⟨v0, e0, t0⟩ := hasm c true hl
        rw [ec] at e0; cases e0
        rw [hvv, t0]; simpa using ea
      · rename_i hl
        cases h
        obtain ⟨v0, e0, t0⟩ := hasm c false hl
        rw [ec] at e0; cases e0
        rw [hvv, t0]; simpa using eb
      · cases h
    · cases h

lemma negArg_sound {i a v : Nat} (h : negArg p i = some a) (hv : env[i]? = some v) :
    ∃ va, env[a]? = some va ∧ v = FP.neg p.fmt va := by
  unfold negArg at h
  cases hn : p.nodes[i]? with
  | none => simp [hn] at h
  | some n =>
    simp only [hn] at h
    split at h
    · rename_i x hop hargs
      cases h
      exact node_neg p hwf lib ins env he hn hop hargs hv
    · cases h

lemma libm2_sound {i a b v : Nat} {name : String} (h : libm2 p i = some (name, a, b)) (hv : env[i]? = some v) :
    ∃ va vb, env[a]? = some va ∧ env[b]? = some vb ∧ lib name [va, vb] = some v := by
  unfold libm2 at h
  cases hn : p.nodes[i]? with
  | none => simp [hn] at h
  | some n =>
    simp only [hn] at h
    split at h
    · rename_i nm x y hop hargs
      simp only [Option.some.injEq, Prod.mk.injEq] at h
      obtain ⟨rfl, rfl, rfl⟩ := h
      exact node_libm2 p hwf lib ins env he hn hop hargs hv
    · cases h

/-- **Soundness of `relN`.** -/
theorem relN_sound (hf : WF p.fmt) (hlib : LibOK p.fmt lib) (asm : List (Nat × Bool)) (hasm : AsmOK asm env) :
    ∀ (fuel i j : Nat) (vi vj : Nat), env[i]? = some vi → env[j]? = some vj → Rel p.fmt (relN p asm fuel i j) vi vj := by
  intro fuel
  induction fuel with
  | zero => intro i j vi vj _ _; simp [relN, Rel]
  | succ fuel ih =>
    intro i j vi vj hi hj
    unfold relN
    by_cases hij : i = j
    · subst hij
      rw [hi] at hj; cases hj
      simp only [if_true]; exact eqvN_refl _ _
    · simp only [hij, if_false]
      cases h1 : selKnown p asm i with
      | some a =>
        simp only
        exact ih a j vi vj (selKnown_sound p hwf lib ins env he asm hasm h1 hi) hj
      | none =>
        simp only
        cases h2 : negArg p i with
        | some a =>
          simp only
          obtain ⟨va, ea, hv⟩ := negArg_sound p hwf lib ins env he h2 hi
          rw [hv]; exact rel_flip_left hf (ih a j va vj ea hj)
        | none =>
          simp only
          cases h3 : selKnown p asm j with
          | some a =>
            simp only
            exact ih i a vi vj hi (selKnown_sound p hwf lib ins env he asm hasm h3 hj)
          | none =>
            simp only
            cases h4 : negArg p j with
            | some a =>
              simp only
              obtain ⟨va, ea, hv⟩ := negArg_sound p hwf lib ins env he h4 hj
              rw [hv]; exact rel_flip_right hf (ih i a vi va hi ea)
            | none =>
              simp only
              cases h5 : libm2 p i with
              | none => simp [Rel]
              | some t1 =>
                cases h6 : libm2 p j with
                | none => simp [Rel]
                | some t2 =>
                  obtain ⟨n1, a, b⟩ := t1
                  obtain ⟨n2, c, d⟩ := t2
                  simp only
                  obtain ⟨va, vb, ea, eb, l1⟩ := libm2_sound p hwf lib ins env he h5 hi
                  obtain ⟨vc, vd, ec, ed, l2⟩ := libm2_sound p hwf lib ins env he h6 hj
                  by_cases hn : n1 = n2
                  · subst hn
                    simp only [if_true]
                    have r1 := ih a c va vc ea ec
                    have r2 := ih b d vb vd eb ed
                    split
                    · rename_i h1' h2'
                      rw [h1'] at r1; rw [h2'] at r2
                      simp only [Rel] at r1 r2 ⊢
                      exact hlib.congr n1 [vc, vd] [va, vb] vj vi (List.Forall₂.cons r1 (List.Forall₂.cons r2 List.Forall₂.nil)) l2 l1
                    · rename_i h1' h2'
                      rw [h1'] at r1; rw [h2'] at r2
                      simp only [Rel] at r1 r2
                      split
                      · rename_i hat
                        subst hat
                        simp only [Rel]
                        exact hlib.atan2_odd vc va vd vb vj vi r1 r2 l2 l1
                      · simp [Rel]
                    · simp [Rel]
                  · simp [hn, Rel]

end

end FAVerif.Sym
