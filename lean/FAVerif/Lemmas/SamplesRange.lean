/-
Helper lemmas for C19, part 7: the clauses that do not need the bounds to be present (sorted, within the
bounds, equally spaced) hold for EVERY successful call whose resolved bounds are in one of the three regimes —
also when a side of the split at zero received no sample.
-/
import FAVerif.Lemmas.SamplesAll
namespace FAVerif.Samples

/-! ### outcome as a function of `num` -/

theorem finish_nil (c : Cfg) (p : Params) : finish c p [] = [] := by
  rw [finish_eq]; split <;> rfl

theorem sameSignPos_small (c : Cfg) (lo hi : Nat) (num : Int) :
    (num = 1 → sameSignPos c lo hi num = .error .zeroDivision) ∧
    (num = 0 → sameSignPos c lo hi num = .ok []) ∧
    (num < 0 → sameSignPos c lo hi num = .error .assertion) := by
  unfold sameSignPos stepVals
  refine ⟨?_, ?_, ?_⟩ <;> intro h
  · rw [if_neg (by omega), if_pos h]
  · rw [if_pos (by omega)]; simp only []; rw [if_neg (by omega)]
  · rw [if_pos (by omega)]; simp only []; rw [if_pos h]

theorem sameSignNeg_small (c : Cfg) (lo hi : Nat) (num : Int) :
    (num = 1 → sameSignNeg c lo hi num = .error .zeroDivision) ∧
    (num = 0 → sameSignNeg c lo hi num = .ok []) ∧
    (num < 0 → sameSignNeg c lo hi num = .error .assertion) := by
  unfold sameSignNeg stepVals
  refine ⟨?_, ?_, ?_⟩ <;> intro h
  · rw [if_neg (by omega), if_pos h]
  · rw [if_pos (by omega)]; simp only []; rw [if_neg (by omega)]; rfl
  · rw [if_pos (by omega)]; simp only []; rw [if_pos h]

/-- same-sign bounds: what the call returns for every value of `num` below 2 -/
theorem outcome_same_sign' (c : Cfg) (hwf : c.WF) (k : Nat) (q : Params) (hub : q.userBounds = true) (lo hi : Nat)
    (hr : resolveBounds c q = (lo, hi)) (h : SamePos c lo hi ∨ SameNeg c lo hi) :
    (numOf c q = 1 → realSamplesF c (k + 1) q = .error .zeroDivision) ∧
    (numOf c q = 0 → realSamplesF c (k + 1) q = .ok []) ∧
    (numOf c q < 0 → realSamplesF c (k + 1) q = .error .assertion) := by
  rcases h with h | h
  · rw [rsF_pos c hwf k q hub lo hi hr h]
    obtain ⟨a, b, d⟩ := sameSignPos_small c lo hi (numOf c q)
    refine ⟨fun e => by rw [a e]; rfl, fun e => by rw [b e]; simp [Except.map, finish_nil], fun e => by rw [d e]; rfl⟩
  · rw [rsF_neg c hwf k q hub lo hi hr h]
    obtain ⟨a, b, d⟩ := sameSignNeg_small c lo hi (numOf c q)
    refine ⟨fun e => by rw [a e]; rfl, fun e => by rw [b e]; simp [Except.map, finish_nil], fun e => by rw [d e]; rfl⟩

/-- `ResOK` without the presence of the bounds -/
structure RangeOK (c : Cfg) (lo hi qn qp : Nat) (L : List Nat) : Prop where
  sorted : Sorted c L
  range : ∀ x ∈ L, skey c lo ≤ skey c x ∧ skey c x ≤ skey c hi
  gaps : Adj (Gap c qn qp) L

theorem ResOK.toRange {c : Cfg} {lo hi qn qp : Nat} {L : List Nat} (h : ResOK c lo hi qn qp L) : RangeOK c lo hi qn qp L :=
  ⟨h.sorted, h.range, h.gaps⟩

theorem rangeOK_nil (c : Cfg) (lo hi qn qp : Nat) : RangeOK c lo hi qn qp [] :=
  ⟨by simp [Sorted], by simp, trivial⟩

theorem finish_rangeOK (c : Cfg) (hwf : c.WF) (p : Params) (lo hi qn qp : Nat) (L : List Nat)
    (h : RangeOK c lo hi qn qp L) (hlo : fl c p lo = lo) (hhi : fl c p hi = hi) :
    RangeOK c lo hi qn qp (finish c p L) := by
  have hM : RangeOK c lo hi qn qp (L.map (fl c p)) := by
    refine ⟨?_, ?_, ?_⟩
    · unfold Sorted; rw [List.pairwise_map]
      exact List.Pairwise.imp (fun h => fl_mono c hwf p h) h.sorted
    · intro x hx
      obtain ⟨y, hy, rfl⟩ := List.mem_map.1 hx
      have := h.range y hy
      have a := fl_mono c hwf p this.1
      have b := fl_mono c hwf p this.2
      rw [hlo] at a; rw [hhi] at b; exact ⟨a, b⟩
    · exact adj_map (fl c p) L (fun a b hab => gap_fl c hwf p qn qp a b hab) h.gaps
  rw [finish_eq]
  cases hu : p.unique with
  | false => simp only [Bool.false_eq_true, if_false]; exact hM
  | true =>
    simp only [if_true]
    have hs := strict_uniq c (L.map (fl c p))
    refine ⟨sorted_of_strict c _ hs, ?_, ?_⟩
    · intro x hx; exact hM.range x (mem_uniq c x _ hx)
    · rw [uniq_of_sorted c _ hM.sorted]
      exact adj_dedup c _ (fun x y z hk hxy hyz => gap_compat c hwf qn qp x y z hk hxy hyz) hM.gaps

theorem glue_rangeOK (c : Cfg) (hwf : c.WF) (lo nh pl hi qn qp : Nat) (N P : List Nat) (z : Bool)
    (hN : RangeOK c lo nh qn qp N) (hP : RangeOK c pl hi qn qp P)
    (hnh : skey c nh ≤ 0) (hpl : 0 ≤ skey c pl) (hlo : skey c lo ≤ skey c nh) (hhi : skey c pl ≤ skey c hi) :
    RangeOK c lo hi qn qp (if z then N ++ [0] ++ P else N ++ P) := by
  have hi' : c.inf < c.sb := by have := hwf.inf_sb; omega
  have z0 := skey_zero c hwf
  have hNk : ∀ x ∈ N, skey c x ≤ 0 := fun x hx => by have := (hN.range x hx).2; omega
  have hPk : ∀ x ∈ P, 0 ≤ skey c x := fun x hx => by have := (hP.range x hx).1; omega
  have cross : ∀ a b, skey c a ≤ 0 → 0 ≤ skey c b → Gap c qn qp a b := by
    intro a b ha hb
    constructor
    · intro _ _ g3 g4
      rw [skey_neg' c (by omega) (by omega)] at hb; omega
    · intro g1 g2 _ _
      rw [skey_pos' c hi' (by omega)] at ha; omega
  have hM : RangeOK c lo hi qn qp (N ++ ((if z then [0] else []) ++ P)) := by
    refine ⟨?_, ?_, ?_⟩
    · unfold Sorted
      rw [List.pairwise_append]
      refine ⟨hN.sorted, ?_, ?_⟩
      · rw [List.pairwise_append]
        refine ⟨by cases z <;> simp, hP.sorted, ?_⟩
        intro a ha b hb
        cases z with
        | false => simp at ha
        | true => simp at ha; rw [ha, z0]; exact hPk b hb
      · intro a ha b hb
        have := hNk a ha
        rcases List.mem_append.1 hb with hb | hb
        · cases z with
          | false => simp at hb
          | true => simp at hb; rw [hb, z0]; exact this
        · have := hPk b hb; omega
    · intro x hx
      rcases List.mem_append.1 hx with hx | hx
      · have := hN.range x hx; omega
      · rcases List.mem_append.1 hx with hx | hx
        · cases z with
          | false => simp at hx
          | true => simp at hx; rw [hx, z0]; omega
        · have := hP.range x hx; omega
    · apply adj_append _ _ hN.gaps
      · apply adj_append _ _ _ hP.gaps
        · intro a ha b hb
          cases z with
          | false => simp at ha
          | true => simp at ha; exact cross a b (by rw [ha, z0]; omega) (hPk b hb)
        · cases z <;> trivial
      · intro a ha b hb
        refine cross a b (hNk a ha) ?_
        rcases List.mem_append.1 hb with hb | hb
        · cases z with
          | false => simp at hb
          | true => simp at hb; rw [hb, z0]; omega
        · exact hPk b hb
  cases z with
  | false => simpa using hM
  | true => simpa using hM

/-- same-sign regimes: every successful call has the range properties (for `num = 0` the result is empty) -/
theorem same_sign_range (c : Cfg) (hwf : c.WF) (k : Nat) (q : Params) (hub : q.userBounds = true) (lo hi : Nat)
    (hr : resolveBounds c q = (lo, hi)) (h : SamePos c lo hi ∨ SameNeg c lo hi)
    (hlo : fl c q lo = lo) (hhi : fl c q hi = hi) (L : List Nat) (hL : realSamplesF c (k + 1) q = .ok L) :
    (SamePos c lo hi → ∃ qp, ∀ qn, RangeOK c lo hi qn qp L) ∧ (SameNeg c lo hi → ∃ qn, ∀ qp, RangeOK c lo hi qn qp L) := by
  obtain ⟨o1, o0, oneg⟩ := outcome_same_sign' c hwf k q hub lo hi hr h
  by_cases h2 : 2 ≤ numOf c q
  · constructor
    · intro hp
      refine ⟨(hi - lo) / ((numOf c q).toNat - 1), fun qn => ?_⟩
      obtain ⟨L', e, r, _⟩ := main_pos c hwf k q hub lo hi qn hr hp h2 hlo hhi
      rw [hL] at e; injection e with e; subst e; exact r.toRange
    · intro hn
      refine ⟨(lo - hi) / ((numOf c q).toNat - 1), fun qp => ?_⟩
      obtain ⟨L', e, r, _⟩ := main_neg c hwf k q hub lo hi qp hr hn h2 hlo hhi
      rw [hL] at e; injection e with e; subst e; exact r.toRange
  · have hnil : L = [] := by
      by_cases h1 : numOf c q = 1
      · rw [o1 h1] at hL; cases hL
      · by_cases h0 : numOf c q = 0
        · rw [o0 h0] at hL; injection hL with hL; exact hL.symm
        · rw [oneg (by omega)] at hL; cases hL
    subst hnil
    exact ⟨fun _ => ⟨0, fun _ => rangeOK_nil c _ _ _ _⟩, fun _ => ⟨0, fun _ => rangeOK_nil c _ _ _ _⟩⟩

/-- bounds straddling zero: every successful call has the range properties and contains a zero when requested -/
theorem straddle_range (c : Cfg) (hwf : c.WF) (p : Params) (hub : p.userBounds = true) (lo hi : Nat)
    (hr : resolveBounds c p = (lo, hi)) (h : Straddle c lo hi) (hlo : fl c p lo = lo) (hhi : fl c p hi = hi)
    (L : List Nat) (hL : realSamplesF c 2 p = .ok L) :
    ∃ qn qp, RangeOK c lo hi qn qp L ∧ (p.includeZero = true → ∃ z ∈ L, skey c z = 0) := by
  obtain ⟨n1, n2, n3, n4, n5, n6, n7⟩ := negCall_facts c hwf p lo hi h hlo
  obtain ⟨p1, p2, p3, p4, p5, p6, p7⟩ := posCall_facts c hwf p lo hi h hhi
  rw [show (2 : Nat) = 0 + 2 from rfl, straddle_unfold c hwf 0 p hub lo hi hr h] at hL
  cases eN : realSamplesF c (0 + 1) (negCall c p lo hi) with
  | error e => rw [eN] at hL; cases hL
  | ok N =>
    rw [eN] at hL
    cases eP : realSamplesF c (0 + 1) (posCall c p lo hi) with
    | error e => rw [eP] at hL; cases hL
    | ok P =>
      rw [eP] at hL
      injection hL with hL
      have rN := same_sign_range c hwf 0 _ n1 lo _ n2 (Or.inr n3) (by rw [n5]; exact hlo) (by rw [n5]; exact n6) N eN
      have rP := same_sign_range c hwf 0 _ p1 _ hi p2 (Or.inl p3) (by rw [p5]; exact p6) (by rw [p5]; exact hhi) P eP
      have rN' : ∃ qn, ∀ qp, RangeOK c lo (negHi c p lo) qn qp N := rN.2 n3
      have rP' : ∃ qp, ∀ qn, RangeOK c (posLo c p hi) hi qn qp P := rP.1 p3
      obtain ⟨qn, hN⟩ := rN'
      obtain ⟨qp, hP⟩ := rP'
      have hsn := n3; have hsp := p3
      have hglue := glue_rangeOK c hwf lo (negHi c p lo) (posLo c p hi) hi qn qp N P p.includeZero (hN qp) (hP qn) n7 p7
        (by obtain ⟨a, b, d⟩ := hsn; rw [skey_neg' c (by omega) d, skey_neg' c a (by omega)]; omega)
        (by
          have hi' : c.inf < c.sb := by have := hwf.inf_sb; omega
          obtain ⟨a, b⟩ := hsp; rw [skey_pos' c hi' (by omega), skey_pos' c hi' b]; omega)
      refine ⟨qn, qp, ?_, ?_⟩
      · rw [← hL]; exact finish_rangeOK c hwf p lo hi qn qp _ hglue hlo hhi
      · intro hz
        have hmem : (0 : Nat) ∈ (if p.includeZero then N ++ [0] ++ P else N ++ P) := by simp [hz]
        obtain ⟨x, hx, hk⟩ := finish_key_mem c hwf p _ 0 hmem
        exact ⟨x, by rw [← hL]; exact hx, by rw [hk, (fl_zero c hwf p).1, skey_zero c hwf]⟩

end FAVerif.Samples
