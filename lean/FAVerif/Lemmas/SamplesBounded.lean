/-
Helper lemmas for C19, part 2: the regimes of the resolved bounds (`SamePos`, `SameNeg`, `Straddle`),
the subnormal adjustment, unfolding of `realSamplesF` and the main theorems of the same-sign regimes.
-/
import FAVerif.Lemmas.SamplesCore
namespace FAVerif.Samples

/-- resolved bounds of equal sign, both `≥ +0` (as patterns: `+0 ≤ lo < hi ≤ +inf`) -/
def SamePos (c : Cfg) (lo hi : Nat) : Prop := lo < hi ∧ hi ≤ c.inf
/-- resolved bounds of equal sign, both `≤ -0` (as patterns: `-0 ≤ hi < lo ≤ -inf`) -/
def SameNeg (c : Cfg) (lo hi : Nat) : Prop := c.sb ≤ hi ∧ hi < lo ∧ lo ≤ c.sb + c.inf
/-- resolved bounds with `lo < 0 < hi` strictly -/
def Straddle (c : Cfg) (lo hi : Nat) : Prop := c.sb < lo ∧ lo ≤ c.sb + c.inf ∧ 0 < hi ∧ hi ≤ c.inf

theorem skey_pos' (c : Cfg) (h : c.inf < c.sb) {b : Nat} (hb : b ≤ c.inf) : skey c b = (b : Int) := by
  rcases skey_cases c b with ⟨_, _, _, e⟩ | ⟨_, _, _, e⟩ | ⟨_, _, _, e⟩ | ⟨_, _, _, e⟩ <;> omega

theorem skey_neg' (c : Cfg) {b : Nat} (h1 : c.sb ≤ b) (h2 : b ≤ c.sb + c.inf) : skey c b = (c.sb : Int) - (b : Int) := by
  rcases skey_cases c b with ⟨_, _, _, e⟩ | ⟨_, _, _, e⟩ | ⟨_, _, _, e⟩ | ⟨_, _, _, e⟩ <;> omega

theorem adj_imp_mem {α} {R S : α → α → Prop} (l : List α) (hRS : ∀ a b, a ∈ l → b ∈ l → R a b → S a b)
    (h : Adj R l) : Adj S l := by
  induction l with
  | nil => trivial
  | cons a l ih =>
    cases l with
    | nil => trivial
    | cons b l =>
      exact ⟨hRS _ _ (by simp) (by simp) h.1,
        ih (fun x y hx hy => hRS x y (List.mem_cons_of_mem _ hx) (List.mem_cons_of_mem _ hy)) h.2⟩

theorem wrapSub_eq (c : Cfg) {e s : Nat} (h : s ≤ e) (he : e < c.modulus) : wrapSub c e s = e - s := by
  unfold wrapSub
  have : e + c.modulus - s = (e - s) + c.modulus := by omega
  rw [this, Nat.add_mod_right, Nat.mod_eq_of_lt (by omega)]

theorem sameSignPos_eq (c : Cfg) (hwf : c.WF) (lo hi : Nat) (num : Int) (h : SamePos c lo hi) (hn : 2 ≤ num) :
    sameSignPos c lo hi num = .ok (steps lo (hi - lo) num.toNat) := by
  have := hwf.inf_sb
  have hm : c.modulus = 2 * c.sb := rfl
  unfold sameSignPos
  rw [wrapSub_eq c (Nat.le_of_lt h.1) (by have := h.2; omega), stepVals_ok c _ _ _ hn (by have := h.1; have := h.2; omega)]
  simp only []
  rw [if_neg (by omega)]

theorem sameSignNeg_eq (c : Cfg) (_hwf : c.WF) (lo hi : Nat) (num : Int) (h : SameNeg c lo hi) (hn : 2 ≤ num) :
    sameSignNeg c lo hi num = .ok (steps hi (lo - hi) num.toNat).reverse := by
  have hm : c.modulus = 2 * c.sb := rfl
  obtain ⟨h1, h2, h3⟩ := h
  unfold sameSignNeg
  have := _hwf.inf_sb
  rw [wrapSub_eq c (Nat.le_of_lt h2) (by omega), stepVals_ok c _ _ _ hn (by omega)]
  simp only []
  rw [if_neg (by omega)]

theorem samePos_resOK (c : Cfg) (hwf : c.WF) (lo hi n qn : Nat) (h : SamePos c lo hi) (hn : 2 ≤ n) :
    ResOK c lo hi qn ((hi - lo) / (n - 1)) (steps lo (hi - lo) n) := by
  have hi' : c.inf < c.sb := by have := hwf.inf_sb; omega
  obtain ⟨h1, h2⟩ := h
  have hmem : ∀ x ∈ steps lo (hi - lo) n, lo ≤ x ∧ x ≤ hi := by
    intro x hx; have := mem_steps _ _ _ hn hx; omega
  have hk : ∀ x, x ≤ hi → skey c x = (x : Int) := fun x hx => skey_pos' c hi' (by omega)
  refine ⟨?_, ?_, ?_, ?_, ?_⟩
  · unfold Sorted
    have := steps_pairwise lo (hi - lo) n
    refine List.Pairwise.imp_of_mem ?_ this
    intro a b ha hb hab
    rw [hk a (hmem a ha).2, hk b (hmem b hb).2]; omega
  · intro x hx
    have := hmem x hx
    rw [hk x this.2, hk lo (by omega), hk hi (by omega)]; omega
  · exact ⟨lo, first_mem_steps _ _ _ hn, rfl⟩
  · exact ⟨hi, by have := last_mem_steps lo (hi - lo) n hn; rwa [show lo + (hi - lo) = hi by omega] at this, rfl⟩
  · refine adj_imp_mem _ ?_ (steps_adj lo (hi - lo) n hn)
    intro a b ha hb hab
    have := hmem a ha; have := hmem b hb
    exact ⟨fun g1 _ _ _ => by omega, fun _ _ _ _ => hab⟩

theorem sameNeg_resOK (c : Cfg) (hwf : c.WF) (lo hi n qp : Nat) (h : SameNeg c lo hi) (hn : 2 ≤ n) :
    ResOK c lo hi ((lo - hi) / (n - 1)) qp (steps hi (lo - hi) n).reverse := by
  obtain ⟨h1, h2, h3⟩ := h
  have hmem : ∀ x ∈ (steps hi (lo - hi) n).reverse, hi ≤ x ∧ x ≤ lo := by
    intro x hx; have := mem_steps _ _ _ hn (List.mem_reverse.1 hx); omega
  have hk : ∀ x, hi ≤ x → x ≤ lo → skey c x = (c.sb : Int) - (x : Int) := fun x hx hx' => skey_neg' c (by omega) (by omega)
  refine ⟨?_, ?_, ?_, ?_, ?_⟩
  · unfold Sorted
    rw [List.pairwise_reverse]
    have := steps_pairwise hi (lo - hi) n
    refine List.Pairwise.imp_of_mem ?_ this
    intro a b ha hb hab
    have ha' := hmem a (List.mem_reverse.2 ha); have hb' := hmem b (List.mem_reverse.2 hb)
    rw [hk a ha'.1 ha'.2, hk b hb'.1 hb'.2]; omega
  · intro x hx
    have := hmem x hx
    rw [hk x this.1 this.2, hk lo (by omega) (by omega), hk hi (by omega) (by omega)]; omega
  · exact ⟨lo, List.mem_reverse.2 (by have := last_mem_steps hi (lo - hi) n hn; rwa [show hi + (lo - hi) = lo by omega] at this), rfl⟩
  · exact ⟨hi, List.mem_reverse.2 (first_mem_steps _ _ _ hn), rfl⟩
  · refine adj_imp_mem _ ?_ (adj_reverse _ (steps_adj hi (lo - hi) n hn))
    intro a b ha hb hab
    have := hmem a ha; have := hmem b hb
    have := hwf.inf_sb
    exact ⟨fun _ _ _ _ => hab, fun _ g2 _ _ => by omega⟩


theorem isNaN_false_pos (c : Cfg) (h : c.inf < c.sb) {b : Nat} (hb : b ≤ c.inf) : isNaN c b = false := by
  rcases skey_cases c b with ⟨_, _, e, _⟩ | ⟨_, _, e, _⟩ | ⟨_, _, e, _⟩ | ⟨_, _, e, _⟩ <;> first | exact e | omega

theorem isNaN_false_neg (c : Cfg) {b : Nat} (h1 : c.sb ≤ b) (h2 : b ≤ c.sb + c.inf) : isNaN c b = false := by
  rcases skey_cases c b with ⟨_, _, e, _⟩ | ⟨_, _, e, _⟩ | ⟨_, _, e, _⟩ | ⟨_, _, e, _⟩ <;> first | exact e | omega

/-! ### the subnormal adjustment -/

theorem fl_eq_self_iff (c : Cfg) (p : Params) (v : Nat) :
    fl c p v = v ↔ (p.includeSubnormal = true ∨ isSubnormal c v = false) := by
  unfold fl
  cases hs : p.includeSubnormal with
  | true => simp
  | false =>
    simp only [Bool.false_eq_true, if_false, false_or]
    rcases flush1_cases c v with ⟨e, h, _⟩ | ⟨h0, _, _, h, e⟩ | ⟨h0, _, h, e⟩
    · simp [e, h]
    · simp [e, h]; omega
    · simp [e, h]; omega

theorem mag_cases (c : Cfg) (b : Nat) : (b < c.sb ∧ mag c b = b) ∨ (c.sb ≤ b ∧ mag c b = b - c.sb) := by
  unfold mag; split
  · left; exact ⟨by assumption, rfl⟩
  · right; exact ⟨by omega, rfl⟩

/-- a subnormal `v` triggers the adjustment -/
theorem adjust_cond_of_subnormal (c : Cfg) (hwf : c.WF) (v : Nat) (h : isSubnormal c v = true) :
    (!feq c v 0 && flt c (mag c v) c.mn) = true := by
  have := hwf.mn_inf; have := hwf.inf_sb
  have z := skey_zero c hwf
  rcases flush1_cases c v with ⟨_, h', _⟩ | ⟨h0, h1, h2, _, _⟩ | ⟨h0, h1, _, _⟩
  · rw [h] at h'; cases h'
  · have e1 : feq c v 0 = false := feq_false_of_ne c (by rw [z, skey_pos' c (by omega) (by omega)]; omega)
    have e2 : flt c (mag c v) c.mn = true := by
      rcases mag_cases c v with ⟨_, e⟩ | ⟨_, e⟩
      · rw [e, flt_iff]
        exact ⟨isNaN_false_pos c (by omega) (by omega), isNaN_false_pos c (by omega) (by omega),
          by rw [skey_pos' c (by omega) (by omega), skey_pos' c (by omega) (by omega)]; omega⟩
      · omega
    simp [e1, e2]
  · have e1 : feq c v 0 = false := feq_false_of_ne c (by rw [z, skey_neg' c (by omega) (by omega)]; omega)
    have e2 : flt c (mag c v) c.mn = true := by
      rcases mag_cases c v with ⟨_, e⟩ | ⟨_, e⟩
      · omega
      · rw [e, flt_iff]
        exact ⟨isNaN_false_pos c (by omega) (by omega), isNaN_false_pos c (by omega) (by omega),
          by rw [skey_pos' c (by omega) (by omega), skey_pos' c (by omega) (by omega)]; omega⟩
    simp [e1, e2]

theorem isSubnormal_false_of (c : Cfg) (hwf : c.WF) :
    isSubnormal c 0 = false ∧ isSubnormal c c.sb = false ∧ isSubnormal c c.mn = false ∧ isSubnormal c (negB c c.mn) = false := by
  have := hwf.mn_inf; have := hwf.inf_sb; have := hwf.mn_pos
  have h1 : c.mn < c.sb := by omega
  have h2 : ¬ (c.mn + c.sb < c.sb) := by omega
  refine ⟨?_, ?_, ?_, ?_⟩ <;> simp [isSubnormal, mag, negB, h1, h2] <;> omega

theorem adjustLo_fl (c : Cfg) (hwf : c.WF) (p : Params) (v : Nat) : fl c p (adjustLo c p v) = adjustLo c p v := by
  rw [fl_eq_self_iff]
  cases hs : p.includeSubnormal with
  | true => left; rfl
  | false =>
    right
    obtain ⟨z1, _, _, z4⟩ := isSubnormal_false_of c hwf
    unfold adjustLo minPos
    simp only [hs, Bool.not_false, Bool.true_and, Bool.false_eq_true, if_false]
    split
    · split
      · exact z4
      · exact z1
    · rename_i hc
      cases hsub : isSubnormal c v with
      | false => rfl
      | true => exact absurd (adjust_cond_of_subnormal c hwf v hsub) hc

theorem adjustHi_fl (c : Cfg) (hwf : c.WF) (p : Params) (v : Nat) : fl c p (adjustHi c p v) = adjustHi c p v := by
  rw [fl_eq_self_iff]
  cases hs : p.includeSubnormal with
  | true => left; rfl
  | false =>
    right
    obtain ⟨_, z2, z3, _⟩ := isSubnormal_false_of c hwf
    unfold adjustHi minPos Cfg.negZero
    simp only [hs, Bool.not_false, Bool.true_and, Bool.false_eq_true, if_false]
    split
    · split
      · exact z2
      · exact z3
    · rename_i hc
      cases hsub : isSubnormal c v with
      | false => rfl
      | true => exact absurd (adjust_cond_of_subnormal c hwf v hsub) hc

/-- a value the post-flush leaves alone is not moved by the adjustment -/
theorem adjust_cond_false (c : Cfg) (hwf : c.WF) (p : Params) (v : Nat) (hv : v < 2 * c.sb) (h : fl c p v = v) :
    (!p.includeSubnormal && !feq c v 0 && flt c (mag c v) (minPos c p)) = false := by
  rw [fl_eq_self_iff] at h
  rcases h with h | h
  · simp [h]
  · cases hs : p.includeSubnormal with
    | true => simp
    | false =>
      have : minPos c p = c.mn := by simp [minPos, hs]
      rw [this]
      cases hcc : (!false && !feq c v 0 && flt c (mag c v) c.mn) with
      | false => rfl
      | true =>
      exfalso
      have hc := hcc
      simp only [Bool.not_false, Bool.true_and] at hc
      -- the condition says v is subnormal
      have := hwf.mn_inf; have := hwf.inf_sb
      simp only [Bool.and_eq_true, Bool.not_eq_true'] at hc
      obtain ⟨hc1, hc2⟩ := hc
      rw [flt_iff] at hc2
      obtain ⟨n1, _, hlt⟩ := hc2
      rcases flush1_cases c v with ⟨_, _, hh⟩ | ⟨_, _, _, h', _⟩ | ⟨_, _, h', _⟩
      · rcases mag_cases c v with ⟨hv, e⟩ | ⟨hv, e⟩
        · rw [e] at hlt
          rcases hh with ⟨_, rfl | hge⟩ | ⟨_, _⟩
          · have : feq c 0 0 = true := by rw [feq_iff]; exact ⟨isNaN_false_pos c (by omega) (by omega), isNaN_false_pos c (by omega) (by omega), rfl⟩
            rw [this] at hc1; cases hc1
          · rcases skey_cases c v with ⟨_, _, _, ev⟩ | ⟨_, _, _, ev⟩ | ⟨_, _, _, ev⟩ | ⟨_, _, _, ev⟩ <;>
              rw [skey_pos' c (by omega : c.inf < c.sb) (by omega : c.mn ≤ c.inf)] at hlt <;> omega
          · omega
        · rw [e] at hlt n1
          rcases hh with ⟨_, _⟩ | ⟨_, rfl | hge⟩
          · omega
          · have : feq c c.sb 0 = true := by
              rw [feq_iff]; exact ⟨isNaN_false_neg c (by omega) (by omega), isNaN_false_pos c (by omega) (by omega), by rw [skey_negZero c hwf, skey_zero c hwf]⟩
            rw [this] at hc1; cases hc1
          · rcases skey_cases c (v - c.sb) with ⟨_, _, en, ev⟩ | ⟨_, _, en, ev⟩ | ⟨_, _, en, ev⟩ | ⟨_, _, en, ev⟩ <;>
              rw [skey_pos' c (by omega : c.inf < c.sb) (by omega : c.mn ≤ c.inf)] at hlt <;>
              first | omega | (rw [en] at n1; cases n1)
      · rw [h] at h'; cases h'
      · rw [h] at h'; cases h'



theorem adjustLo_of_fl (c : Cfg) (hwf : c.WF) (p : Params) (v : Nat) (hv : v < 2 * c.sb) (h : fl c p v = v) :
    adjustLo c p v = v := by
  unfold adjustLo; rw [adjust_cond_false c hwf p v hv h]; simp

theorem adjustHi_of_fl (c : Cfg) (hwf : c.WF) (p : Params) (v : Nat) (hv : v < 2 * c.sb) (h : fl c p v = v) :
    adjustHi c p v = v := by
  unfold adjustHi; rw [adjust_cond_false c hwf p v hv h]; simp

/-! ### unfolding `realSamplesF` in the two same-sign regimes -/

theorem rsF_pos (c : Cfg) (hwf : c.WF) (k : Nat) (q : Params) (hub : q.userBounds = true) (lo hi : Nat)
    (hr : resolveBounds c q = (lo, hi)) (h : SamePos c lo hi) :
    realSamplesF c (k + 1) q = (sameSignPos c lo hi (numOf c q)).map (finish c q) := by
  have hi' : c.inf < c.sb := by have := hwf.inf_sb; omega
  obtain ⟨h1, h2⟩ := h
  have e1 : feq c lo hi = false := feq_false_of_ne c (by rw [skey_pos' c hi' (by omega), skey_pos' c hi' h2]; omega)
  have e2 : fle c hi lo = false := fle_false_of_lt c (by rw [skey_pos' c hi' (by omega), skey_pos' c hi' h2]; omega)
  have e3 : fle c 0 lo = true := by
    rw [fle_iff]
    exact ⟨isNaN_false_pos c hi' (by omega), isNaN_false_pos c hi' (by omega),
      by rw [skey_pos' c hi' (by omega), skey_pos' c hi' (by omega : lo ≤ c.inf)]; omega⟩
  simp only [realSamplesF, hr, e1, e2, e3, hub, Bool.false_eq_true, if_false, if_true, Bool.not_true]

theorem rsF_neg (c : Cfg) (hwf : c.WF) (k : Nat) (q : Params) (hub : q.userBounds = true) (lo hi : Nat)
    (hr : resolveBounds c q = (lo, hi)) (h : SameNeg c lo hi) :
    realSamplesF c (k + 1) q = (sameSignNeg c lo hi (numOf c q)).map (finish c q) := by
  have hi' : c.inf < c.sb := by have := hwf.inf_sb; omega
  obtain ⟨h1, h2, h3⟩ := h
  have kl := skey_neg' c (by omega : c.sb ≤ lo) h3
  have kh := skey_neg' c h1 (by omega : hi ≤ c.sb + c.inf)
  have e1 : feq c lo hi = false := feq_false_of_ne c (by rw [kl, kh]; omega)
  have e2 : fle c hi lo = false := fle_false_of_lt c (by rw [kl, kh]; omega)
  have e3 : fle c 0 lo = false := fle_false_of_lt c (by rw [kl, skey_zero c hwf]; omega)
  have e4 : fle c hi c.negZero = true := by
    rw [fle_iff]
    exact ⟨isNaN_false_neg c h1 (by omega), isNaN_false_neg c (Nat.le_refl _) (by unfold Cfg.negZero; omega),
      by rw [kh]; unfold Cfg.negZero; rw [skey_negZero c hwf]; omega⟩
  simp only [realSamplesF, hr, e1, e2, e3, e4, hub, Bool.false_eq_true, if_false, if_true, Bool.not_true]

/-- Same-sign regimes: the call succeeds and the result has every property. -/
theorem main_pos (c : Cfg) (hwf : c.WF) (k : Nat) (q : Params) (hub : q.userBounds = true) (lo hi qn : Nat)
    (hr : resolveBounds c q = (lo, hi)) (h : SamePos c lo hi) (hn : 2 ≤ numOf c q)
    (hlo : fl c q lo = lo) (hhi : fl c q hi = hi) :
    ∃ L, realSamplesF c (k + 1) q = .ok L ∧ ResOK c lo hi qn ((hi - lo) / ((numOf c q).toNat - 1)) L ∧
      (q.unique = true → StrictSorted c L) := by
  rw [rsF_pos c hwf k q hub lo hi hr h, sameSignPos_eq c hwf lo hi _ h hn]
  have := finish_ok c hwf q lo hi qn _ _ (samePos_resOK c hwf lo hi (numOf c q).toNat qn h (by omega)) hlo hhi
  exact ⟨_, rfl, this.1, this.2⟩

theorem main_neg (c : Cfg) (hwf : c.WF) (k : Nat) (q : Params) (hub : q.userBounds = true) (lo hi qp : Nat)
    (hr : resolveBounds c q = (lo, hi)) (h : SameNeg c lo hi) (hn : 2 ≤ numOf c q)
    (hlo : fl c q lo = lo) (hhi : fl c q hi = hi) :
    ∃ L, realSamplesF c (k + 1) q = .ok L ∧ ResOK c lo hi ((lo - hi) / ((numOf c q).toNat - 1)) qp L ∧
      (q.unique = true → StrictSorted c L) := by
  rw [rsF_neg c hwf k q hub lo hi hr h, sameSignNeg_eq c hwf lo hi _ h hn]
  have := finish_ok c hwf q lo hi _ qp _ (sameNeg_resOK c hwf lo hi (numOf c q).toNat qp h (by omega)) hlo hhi
  exact ⟨_, rfl, this.1, this.2⟩


end FAVerif.Samples
