import FAVerif.Lemmas.FPTheory
import FAVerif.Models.Renorm

namespace FAVerif.Renorm
open FAVerif.FPQ

/-- Arithmetic over ℚ with an abstract rounding `r`. -/
def arithQ (r : ℚ → ℚ) : Arith ℚ :=
  { add := fun a b => r (a + b), sub := fun a b => r (a - b), zero := 0, isZero := fun a => decide (a = 0) }

variable {q : QFmt} {r : ℚ → ℚ}

theorem errBranch_cons {α} (A : Arith α) (fast : Bool) (eps x : α) (xs : List α) :
    errBranch A fast eps (x :: xs) =
      if A.isZero (two A fast eps x).2 then errBranch A fast (two A fast eps x).1 xs
      else (two A fast eps x).1 :: errBranch A fast (two A fast eps x).2 xs := rfl

theorem errBranchF_cons {α} (A : Arith α) (fast : Bool) (eps x : α) (xs : List α) :
    errBranchF A fast eps (x :: xs) =
      if A.isZero (two A fast eps x).2 then A.zero :: errBranchF A fast (two A fast eps x).1 xs
      else (two A fast eps x).1 :: errBranchF A fast (two A fast eps x).2 xs := rfl

theorem rep_zero : Rep q (0 : ℚ) := ⟨0, q.emin, by simp, by positivity, le_refl _⟩

theorem twoSum_spec (hr : IsRN q r) {x y : ℚ} (hx : Rep q x) (hy : Rep q y) :
    (twoSum (arithQ r) x y).1 + (twoSum (arithQ r) x y).2 = x + y ∧
    Rep q (twoSum (arithQ r) x y).1 ∧ Rep q (twoSum (arithQ r) x y).2 := by
  refine ⟨?_, hr.rep _, hr.rep _⟩
  exact twosum_exact hr hx hy

theorem two_spec (hr : IsRN q r) {x y : ℚ} (hx : Rep q x) (hy : Rep q y) :
    (two (arithQ r) false x y).1 + (two (arithQ r) false x y).2 = x + y ∧
    Rep q (two (arithQ r) false x y).1 ∧ Rep q (two (arithQ r) false x y).2 := by
  simpa [two] using twoSum_spec hr hx hy

theorem vecsum_spec (hr : IsRN q r) : ∀ (l : List ℚ), (∀ a ∈ l, Rep q a) →
    (vecsum (arithQ r) false l).sum = l.sum ∧ (∀ b ∈ vecsum (arithQ r) false l, Rep q b) ∧
    (vecsum (arithQ r) false l).length = l.length
  | [], _ => by simp [vecsum]
  | [a], h => by simpa [vecsum] using h
  | a :: b :: rest, h => by
    have ih := vecsum_spec hr (b :: rest) (fun x hx => h x (List.mem_cons_of_mem _ hx))
    obtain ⟨ihs, ihr, ihl⟩ := ih
    have ha : Rep q a := h a (List.mem_cons_self ..)
    cases hv : vecsum (arithQ r) false (b :: rest) with
    | nil => simp [hv] at ihl
    | cons s es =>
      rw [hv] at ihs ihr ihl
      have hs : Rep q s := ihr s (List.mem_cons_self ..)
      obtain ⟨h1, h2, h3⟩ := two_spec hr ha hs
      have hunf : vecsum (arithQ r) false (a :: b :: rest) =
          (two (arithQ r) false a s).1 :: (two (arithQ r) false a s).2 :: es := by
        simp [vecsum, hv]
      rw [hunf]
      refine ⟨?_, ?_, ?_⟩
      · simp only [List.sum_cons] at ihs ⊢
        rw [← add_assoc, h1, add_assoc, ihs]
      · intro x hx
        simp only [List.mem_cons] at hx
        rcases hx with rfl | rfl | hx
        · exact h2
        · exact h3
        · exact ihr x (List.mem_cons_of_mem _ hx)
      · simp only [List.length_cons] at ihl ⊢
        omega

theorem errBranch_spec (hr : IsRN q r) : ∀ (xs : List ℚ) (eps : ℚ), Rep q eps → (∀ x ∈ xs, Rep q x) →
    (errBranch (arithQ r) false eps xs).sum = eps + xs.sum ∧
    (∀ b ∈ errBranch (arithQ r) false eps xs, Rep q b ∧ b ≠ 0)
  | [], eps, he, _ => by
    by_cases h0 : eps = 0
    · simp [errBranch, arithQ, h0]
    · simp [errBranch, arithQ, h0, he]
  | x :: xs, eps, he, hx => by
    obtain ⟨h1, h2, h3⟩ := two_spec hr he (hx x (List.mem_cons_self ..))
    have hxs : ∀ y ∈ xs, Rep q y := fun y hy => hx y (List.mem_cons_of_mem _ hy)
    by_cases hz : (two (arithQ r) false eps x).2 = 0
    · have ih := errBranch_spec hr xs _ h2 hxs
      have hz' : (arithQ r).isZero (two (arithQ r) false eps x).2 = true := decide_eq_true hz
      have hunf : errBranch (arithQ r) false eps (x :: xs) =
          errBranch (arithQ r) false (two (arithQ r) false eps x).1 xs := by
        rw [errBranch_cons, hz']; rfl
      rw [hunf]
      refine ⟨?_, ih.2⟩
      rw [ih.1, List.sum_cons, ← add_assoc, ← h1, hz, add_zero]
    · have ih := errBranch_spec hr xs _ h3 hxs
      have hz' : (arithQ r).isZero (two (arithQ r) false eps x).2 = false := decide_eq_false hz
      have hunf : errBranch (arithQ r) false eps (x :: xs) =
          (two (arithQ r) false eps x).1 :: errBranch (arithQ r) false (two (arithQ r) false eps x).2 xs := by
        rw [errBranch_cons, hz']; rfl
      rw [hunf]
      refine ⟨?_, ?_⟩
      · rw [List.sum_cons, ih.1, List.sum_cons, ← add_assoc, ← add_assoc, h1]
      · intro b hb
        rcases List.mem_cons.1 hb with rfl | hb
        · refine ⟨h2, ?_⟩
          -- the high word is non-zero when the low word is non-zero: if s = RN(x+y) = 0 then x + y = 0 and t = 0
          intro hs0
          apply hz
          have hsum := h1
          have hsdef : (two (arithQ r) false eps x).1 = r (eps + x) := by simp [two, twoSum, arithQ]
          have : eps + x = 0 := by
            by_contra hne
            have hrep : Rep q (eps + x - r (eps + x)) := add_err_rep hr he (hx x (List.mem_cons_self ..))
            rw [← hsdef, hs0, sub_zero] at hrep
            have := rn_id hr hrep
            rw [← hsdef, hs0] at this
            exact hne this.symm
          rw [hs0, this, zero_add] at hsum
          exact hsum
        · exact ih.2 b hb

/-- **Eager renormalisation preserves the exact sum, for every length.** -/
theorem renormEager_sum (hr : IsRN q r) (l : List ℚ) (h : ∀ a ∈ l, Rep q a) :
    (renormEager (arithQ r) false l).sum = l.sum ∧
    (∀ b ∈ renormEager (arithQ r) false l, Rep q b ∧ b ≠ 0) := by
  obtain ⟨hs, hrep, _⟩ := vecsum_spec hr l h
  unfold renormEager
  cases hv : vecsum (arithQ r) false l with
  | nil => rw [hv] at hs; simp only [List.sum_nil] at hs ⊢; exact ⟨hs, by simp⟩
  | cons e0 es =>
    rw [hv] at hs hrep
    have := errBranch_spec hr es e0 (hrep e0 (List.mem_cons_self ..)) (fun x hx => hrep x (List.mem_cons_of_mem _ hx))
    refine ⟨?_, this.2⟩
    rw [this.1, ← hs, List.sum_cons]

theorem errBranchF_spec (hr : IsRN q r) : ∀ (xs : List ℚ) (eps : ℚ), Rep q eps → (∀ x ∈ xs, Rep q x) →
    (errBranchF (arithQ r) false eps xs).sum = eps + xs.sum ∧
    (∀ b ∈ errBranchF (arithQ r) false eps xs, Rep q b) ∧
    (errBranchF (arithQ r) false eps xs).length = xs.length + 1
  | [], eps, he, _ => by simp [errBranchF, he]
  | x :: xs, eps, he, hx => by
    obtain ⟨h1, h2, h3⟩ := two_spec hr he (hx x (List.mem_cons_self ..))
    have hxs : ∀ y ∈ xs, Rep q y := fun y hy => hx y (List.mem_cons_of_mem _ hy)
    by_cases hz : (two (arithQ r) false eps x).2 = 0
    · have ih := errBranchF_spec hr xs _ h2 hxs
      have hz' : (arithQ r).isZero (two (arithQ r) false eps x).2 = true := decide_eq_true hz
      have hunf : errBranchF (arithQ r) false eps (x :: xs) =
          (arithQ r).zero :: errBranchF (arithQ r) false (two (arithQ r) false eps x).1 xs := by
        rw [errBranchF_cons, hz']; rfl
      rw [hunf]
      refine ⟨?_, ?_, ?_⟩
      · have hz0 : (arithQ r).zero = 0 := rfl
        rw [List.sum_cons, ih.1, List.sum_cons, hz0, zero_add, ← add_assoc, ← h1, hz, add_zero]
      · intro b hb
        rcases List.mem_cons.1 hb with rfl | hb
        · exact rep_zero
        · exact ih.2.1 b hb
      · simp [ih.2.2]
    · have ih := errBranchF_spec hr xs _ h3 hxs
      have hz' : (arithQ r).isZero (two (arithQ r) false eps x).2 = false := decide_eq_false hz
      have hunf : errBranchF (arithQ r) false eps (x :: xs) =
          (two (arithQ r) false eps x).1 :: errBranchF (arithQ r) false (two (arithQ r) false eps x).2 xs := by
        rw [errBranchF_cons, hz']; rfl
      rw [hunf]
      refine ⟨?_, ?_, ?_⟩
      · rw [List.sum_cons, ih.1, List.sum_cons, ← add_assoc, ← add_assoc, h1]
      · intro b hb
        rcases List.mem_cons.1 hb with rfl | hb
        · exact h2
        · exact ih.2.1 b hb
      · simp [ih.2.2]

theorem compact_sum (r : ℚ → ℚ) (l : List ℚ) : (compact (arithQ r) l).sum = l.sum := by
  unfold compact
  simp only [List.sum_append, List.sum_replicate, arithQ, smul_zero, add_zero]
  induction l with
  | nil => simp
  | cons a l ih =>
    by_cases h : a = 0
    · simp [List.filter, h, ih]
    · simp [List.filter, h, ih]

theorem compact_length (r : ℚ → ℚ) (l : List ℚ) : (compact (arithQ r) l).length = l.length := by
  unfold compact
  simp only [List.length_append, List.length_replicate]
  have := List.length_filter_le (fun a => !(arithQ r).isZero a) l
  omega

/-- **Functional (select-based, fixed-length) renormalisation preserves the exact sum and the
length, for every length.** -/
theorem renormFunctional_sum (hr : IsRN q r) (l : List ℚ) (h : ∀ a ∈ l, Rep q a) :
    (renormFunctional (arithQ r) false l).sum = l.sum := by
  obtain ⟨hs, hrep, hlen⟩ := vecsum_spec hr l h
  have general : (compact (arithQ r) (renormFunctionalRaw (arithQ r) false l)).sum = l.sum := by
    rw [compact_sum]
    unfold renormFunctionalRaw
    cases hv : vecsum (arithQ r) false l with
    | nil => rw [hv] at hs; simp only [List.sum_nil] at hs ⊢; exact hs
    | cons e0 es =>
      rw [hv] at hs hrep
      have := errBranchF_spec hr es e0 (hrep e0 (List.mem_cons_self ..)) (fun x hx => hrep x (List.mem_cons_of_mem _ hx))
      rw [this.1, ← hs, List.sum_cons]
  match l, h, hs, hrep, hlen, general with
  | [], _, _, _, _, g => simpa [renormFunctional] using g
  | [a], _, _, _, _, g => simpa [renormFunctional] using g
  | [a, b], h, hs, hrep, hlen, _ =>
    unfold renormFunctional
    cases hv : vecsum (arithQ r) false [a, b] with
    | nil => rw [hv] at hlen; simp at hlen
    | cons e0 es =>
      cases es with
      | nil => rw [hv] at hlen; simp at hlen
      | cons e1 es' =>
        cases es' with
        | cons _ _ => rw [hv] at hlen; simp at hlen
        | nil =>
          rw [hv] at hs hrep
          simp only
          rw [compact_sum]
          have := two_spec hr (hrep e0 (by simp)) (hrep e1 (by simp))
          simp only [List.sum_cons, List.sum_nil, add_zero] at hs ⊢
          rw [this.1, hs]
  | a :: b :: c :: rest, _, _, _, _, g => simpa [renormFunctional] using g

end FAVerif.Renorm

namespace FAVerif.Renorm
open FAVerif.FPQ

variable {q : QFmt} {r : ℚ → ℚ}

/-- **Two-term renormalisation yields a normalised double word**: the result of
`renormalize([a, b])` is `[]`, `[s]` or `[s, t]` with s + t = a + b, and in the last case
s = RN(s + t) — the leading term is the rounding of the whole, i.e. the terms do not overlap. -/
theorem renorm2_normal (hr : IsRN q r) {a b : ℚ} (ha : Rep q a) (hb : Rep q b) :
    let l := renormEager (arithQ r) false [a, b]
    l.sum = a + b ∧ l.length ≤ 2 ∧ (∀ s t, l = [s, t] → r (s + t) = s ∧ t ≠ 0) := by
  intro l
  have h1 := twoSum_spec hr ha hb
  set s := (twoSum (arithQ r) a b).1 with hs
  set e := (twoSum (arithQ r) a b).2 with he
  have hsdef : s = r (a + b) := rfl
  have hse : s + e = a + b := h1.1
  have h2 := twoSum_spec hr h1.2.1 h1.2.2
  -- second two_sum reproduces (s, e): s' = RN(s + e) = RN(a + b) = s
  have hs' : (twoSum (arithQ r) s e).1 = s := by
    show r (s + e) = s
    rw [hse]; exact hsdef.symm
  have he' : (twoSum (arithQ r) s e).2 = e := by
    have := h2.1
    rw [hs'] at this; linarith
  have hl : l = if decide (e = 0) then (if decide (s = 0) then [] else [s]) else (s :: (if decide (e = 0) then [] else [e])) := by
    show renormEager (arithQ r) false [a, b] = _
    simp only [renormEager, vecsum, two, Bool.false_eq_true, if_false]
    rw [errBranch_cons]
    simp only [two, Bool.false_eq_true, if_false]
    rw [← hs, ← he, hs', he']
    simp only [errBranch, arithQ]
    rfl
  by_cases hez : e = 0
  · by_cases hsz : s = 0
    · simp only [hl, hez, hsz, decide_true, if_true]
      refine ⟨by simp; linarith, by simp, fun s t h => by simp at h⟩
    · simp only [hl, hez, hsz, decide_true, decide_false, if_true, Bool.false_eq_true, if_false]
      refine ⟨by simp; linarith, by simp, fun s t h => by simp at h⟩
  · simp only [hl, hez, decide_false, Bool.false_eq_true, if_false]
    refine ⟨by simp; linarith, by simp, ?_⟩
    intro s0 t0 h
    simp only [List.cons.injEq, and_true] at h
    obtain ⟨h1', h2'⟩ := h
    subst h1'; subst h2'
    exact ⟨by rw [hse]; exact hsdef.symm, hez⟩

end FAVerif.Renorm
