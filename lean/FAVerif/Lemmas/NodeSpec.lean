/-
The environment computed by `evalNodes` is a fixed point of the node equations: for a well-formed
program, every node's value is `evalNode` of that node against the FINAL environment.  This lets
theorems about a few output nodes of a large regenerated program be proved from the local equations
of those nodes, without evaluating the program symbolically.
-/
import FAVerif.IR.Prog
import Mathlib.Tactic

namespace FAVerif.IR
open FAVerif.FP

lemma mapM_congr' {g g' : Nat → Option Nat} : ∀ (l : List Nat), (∀ j ∈ l, g j = g' j) → l.mapM g = l.mapM g' := by
  intro l
  induction l with
  | nil => intro _; rfl
  | cons j js ih =>
    intro h
    simp only [List.mapM_cons]
    rw [h j (by simp), ih (fun k hk => h k (by simp [hk]))]

/-- `evalNode` only looks at the entries of the environment named by the node's arguments -/
theorem evalNode_congr (f : Fmt) (lib : Libm) (ins : List Nat) (env env' : Array Nat) (n : Node)
    (h : ∀ j ∈ n.args, env[j]? = env'[j]?) : evalNode f lib ins env n = evalNode f lib ins env' n := by
  have ha : ∀ i : Nat, (n.args[i]? >>= fun k => env[k]?) = (n.args[i]? >>= fun k => env'[k]?) := by
    intro i
    cases hj : n.args[i]? with
    | none => rfl
    | some j =>
      simp only [Option.bind_eq_bind, Option.bind_some]
      exact h j (List.mem_of_getElem? hj)
  have hm : n.args.mapM (fun k => env[k]?) = n.args.mapM (fun k => env'[k]?) := mapM_congr' n.args h
  unfold evalNode
  cases n.op <;> simp only [ha 0, ha 1, ha 2, hm]

lemma evalNodes_prefix' (f : Fmt) (lib : Libm) (ins : List Nat) :
    ∀ (nodes : List Node) (env envF : Array Nat), evalNodes f lib ins nodes env = some envF →
      envF.size = env.size + nodes.length ∧ ∀ i, i < env.size → envF[i]? = env[i]? := by
  intro nodes
  induction nodes with
  | nil => intro env envF h; simp only [evalNodes, Option.some.injEq] at h; subst h; exact ⟨by simp, fun _ _ => rfl⟩
  | cons n ns ih =>
    intro env envF h
    simp only [evalNodes, Option.bind_eq_bind] at h
    cases hv : evalNode f lib ins env n with
    | none => simp [hv] at h
    | some v =>
      simp only [hv, Option.bind_some] at h
      obtain ⟨h1, h2⟩ := ih _ _ h
      simp only [Array.size_push] at h1 h2
      refine ⟨by simp only [List.length_cons]; omega, fun i hi => ?_⟩
      rw [h2 i (by omega), Array.getElem?_push_lt hi, Array.getElem?_eq_getElem hi]

/-- node equations relative to a starting environment: node `k` of `nodes` sits at index `env.size + k` -/
theorem evalNodes_spec_aux (f : Fmt) (lib : Libm) (ins : List Nat) :
    ∀ (nodes : List Node) (env envF : Array Nat), evalNodes f lib ins nodes env = some envF →
      (∀ (k : Nat) (n : Node), nodes[k]? = some n → ∀ a ∈ n.args, a < env.size + k) →
      ∀ (k : Nat) (n : Node), nodes[k]? = some n → evalNode f lib ins envF n = envF[env.size + k]? ∧ env.size + k < envF.size := by
  intro nodes
  induction nodes with
  | nil => intro env envF _ _ k n hk; simp at hk
  | cons n0 ns ih =>
    intro env envF h hwf k n hk
    simp only [evalNodes, Option.bind_eq_bind] at h
    cases hv : evalNode f lib ins env n0 with
    | none => simp [hv] at h
    | some v =>
      simp only [hv, Option.bind_some] at h
      obtain ⟨hsz, hpre⟩ := evalNodes_prefix' f lib ins ns _ _ h
      simp only [Array.size_push] at hsz hpre
      cases k with
      | zero =>
        simp only [List.getElem?_cons_zero, Option.some.injEq] at hk
        subst hk
        have hargs := hwf 0 n0 (by simp)
        have hc : evalNode f lib ins envF n0 = evalNode f lib ins env n0 := by
          apply evalNode_congr
          intro j hj
          have hjl : j < env.size := by have := hargs j hj; omega
          rw [hpre j (by omega), Array.getElem?_push_lt hjl, Array.getElem?_eq_getElem hjl]
        refine ⟨?_, by omega⟩
        rw [hc, hv, Nat.add_zero, hpre env.size (by omega)]
        simp
      | succ k =>
        simp only [List.getElem?_cons_succ] at hk
        have := ih _ _ h (fun k' n' hk' a ha => by
          have := hwf (k' + 1) n' (by simpa using hk') a ha
          simp only [Array.size_push]; omega) k n hk
        simp only [Array.size_push] at this
        rw [show env.size + (k + 1) = env.size + 1 + k by omega]
        exact this

lemma wf_go_args (p : Prog) : ∀ (nodes : List Node) (base : Nat), Prog.wf.go p nodes base = true →
    ∀ (k : Nat) (n : Node), nodes[k]? = some n → ∀ a ∈ n.args, a < base + k := by
  intro nodes
  induction nodes with
  | nil => intro base _ k n hk; simp at hk
  | cons n0 ns ih =>
    intro base h k n hk a ha
    simp only [Prog.wf.go, Bool.and_eq_true, List.all_eq_true, decide_eq_true_eq] at h
    cases k with
    | zero =>
      simp only [List.getElem?_cons_zero, Option.some.injEq] at hk
      subst hk
      have := h.1.1 a ha
      omega
    | succ k =>
      simp only [List.getElem?_cons_succ] at hk
      have := ih (base + 1) h.2 k n hk a ha
      omega

/-- **Node equations.**  For a well-formed program whose run is defined, the value of every node is
`evalNode` of that node against the final environment. -/
theorem evalNodes_spec (p : Prog) (hwf : p.wf = true) (lib : Libm) (ins : List Nat) (env : Array Nat)
    (he : evalNodes p.fmt lib ins p.nodes #[] = some env) :
    ∀ (k : Nat) (n : Node), p.nodes[k]? = some n → evalNode p.fmt lib ins env n = env[k]? ∧ k < env.size := by
  intro k n hk
  have hgo : Prog.wf.go p p.nodes 0 = true := by
    unfold Prog.wf at hwf
    simp only [Bool.and_eq_true] at hwf
    exact hwf.1
  have := evalNodes_spec_aux p.fmt lib ins p.nodes #[] env he (fun k' n' hk' a ha => by
    have := wf_go_args p p.nodes 0 hgo k' n' hk' a ha
    simpa using this) k n hk
  simpa using this

end FAVerif.IR
