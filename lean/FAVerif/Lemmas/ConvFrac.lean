/-
Helper lemmas for C13, part 2: fields of a pattern, `decode`, and `float2fraction` as a rational.
-/
import FAVerif.Lemmas.ConvBasic
import Mathlib.Tactic.FieldSimp
import Mathlib.Algebra.Order.Field.Rat
import Mathlib.Data.Rat.Lemmas

namespace FAVerif.Conv
open FAVerif.FP

theorem pow2_eq_zpow (e : Int) : pow2 e = (2:ℚ) ^ e := by
  unfold pow2
  split
  · rename_i h
    have : e = (e.toNat : Int) := (Int.toNat_of_nonneg h).symm
    conv_rhs => rw [this]
    rw [zpow_natCast]; push_cast; rfl
  · rename_i h
    have : e = -((-e).toNat : Int) := by rw [Int.toNat_of_nonneg (by omega)]; ring
    conv_rhs => rw [this]
    rw [zpow_neg, zpow_natCast]; push_cast; simp

/-! ### fields -/

theorem fields_m_lt (f : Fmt) (b : Nat) : (fields f b).m < 2 ^ f.fracBits :=
  Nat.mod_lt _ (Nat.two_pow_pos _)

theorem fields_e_lt (f : Fmt) (b : Nat) : (fields f b).e < 2 ^ f.ew :=
  Nat.mod_lt _ (Nat.two_pow_pos _)

theorem signBit_eq (f : Fmt) (hp : 1 ≤ f.p) : f.signBit = 2 ^ f.ew * 2 ^ f.fracBits := by
  unfold Fmt.signBit Fmt.width Fmt.fracBits
  rw [← Nat.pow_add]; congr 1; omega

theorem width_pow (f : Fmt) (hp : 1 ≤ f.p) : 2 ^ f.width = 2 * f.signBit := by
  unfold Fmt.signBit
  have : f.width = (f.width - 1) + 1 := by unfold Fmt.width; omega
  conv_lhs => rw [this, Nat.pow_succ]
  omega

/-- A pattern is the concatenation of its fields. -/
theorem fields_decomp (f : Fmt) (b : Nat) (hp : 1 ≤ f.p) (hb : b < 2 ^ f.width) :
    b = (if (fields f b).sign then f.signBit else 0) + (fields f b).e * 2 ^ f.fracBits + (fields f b).m := by
  have hs := signBit_eq f hp
  have hw := width_pow f hp
  unfold fields
  simp only
  rw [hs]
  generalize 2 ^ f.fracBits = A at *
  generalize 2 ^ f.ew = B at *
  have hA : 0 < A := by
    rcases Nat.eq_zero_or_pos A with h | h
    · subst h; simp at hs; omega
    · exact h
  have hB : 0 < B := by
    rcases Nat.eq_zero_or_pos B with h | h
    · subst h; simp at hs; omega
    · exact h
  have e1 : b / (B * A) = b / A / B := by rw [Nat.div_div_eq_div_mul, Nat.mul_comm]
  rw [e1]
  have hq := Nat.div_add_mod b A
  have hq2 := Nat.div_add_mod (b / A) B
  generalize b / A = q at *
  generalize b % A = m at *
  have hslt : q / B < 2 := by
    rw [Nat.div_lt_iff_lt_mul hB]
    have : q < 2 * B := by
      by_contra hc
      have : 2 * B ≤ q := by omega
      have : A * (2 * B) ≤ A * q := Nat.mul_le_mul_left _ this
      have e : A * (2 * B) = 2 * (B * A) := by ring
      omega
    omega
  generalize q % B = e at *
  generalize q / B = s at *
  have : s = 0 ∨ s = 1 := by omega
  rcases this with h | h
  · subst h
    simp
    have : q = e := by omega
    subst this
    rw [← hq]; ring
  · subst h
    simp
    have : q = B + e := by omega
    subst this
    rw [← hq]; ring

/-! ### decode of a finite pattern -/

theorem isFiniteBits_iff (f : Fmt) (b : Nat) : isFiniteBits f b = true ↔ (fields f b).e ≠ f.expMax := by
  simp [isFiniteBits]

theorem decode_sub (f : Fmt) (b : Nat) (hfin : (fields f b).e ≠ f.expMax) (h0 : (fields f b).e = 0) :
    decode f b = .fin (fields f b).sign (fields f b).m f.emin := by
  show (if (fields f b).e = f.expMax then _ else _) = _
  rw [if_neg hfin, if_pos h0]

theorem decode_normal (f : Fmt) (b : Nat) (hfin : (fields f b).e ≠ f.expMax) (h0 : (fields f b).e ≠ 0) :
    decode f b = .fin (fields f b).sign ((fields f b).m + 2 ^ f.fracBits) (((fields f b).e : Int) - 1 + f.emin) := by
  show (if (fields f b).e = f.expMax then _ else _) = _
  rw [if_neg hfin, if_neg h0]

theorem bias_eq (f : Fmt) (hew : 1 ≤ f.ew) : f.bias = ((2 ^ (f.ew - 1) : Nat) : Int) - 1 := by
  unfold Fmt.bias; push_cast; rfl

theorem emin_eq (f : Fmt) : f.emin = 2 - ((2 ^ (f.ew - 1) : Nat) : Int) - (f.fracBits : Nat) := by
  unfold Fmt.emin Fmt.bias Fmt.fracBits; push_cast; ring

/-! ### float2fraction -/

/-- The components computed by `float2fraction` are the fields of the pattern. -/
theorem f2q_fields (f : Fmt) (b : Nat) :
    (b % 2 ^ (f.ew + (f.p - 1))) % 2 ^ (f.p - 1) = (fields f b).m ∧
    ((b % 2 ^ (f.ew + (f.p - 1))) / 2 ^ (f.p - 1)) % 2 ^ f.ew = (fields f b).e := by
  unfold fields Fmt.fracBits
  constructor
  · exact Nat.mod_mod_of_dvd _ (Nat.pow_dvd_pow 2 (by omega))
  · simp only
    rw [Nat.add_comm, Nat.pow_add, Nat.mod_mul_right_div_self, Nat.mod_mod]

theorem ltZero_fin (f : Fmt) (b : Nat) (hfin : (fields f b).e ≠ f.expMax) :
    ltZero f b = ((fields f b).sign && !((fields f b).e == 0 && (fields f b).m == 0)) := by
  unfold ltZero isNaNb isZerob
  have : ((fields f b).e == f.expMax) = false := by simpa using hfin
  simp [this]

theorem two_pow_ew_pos (f : Fmt) (hew : 2 ≤ f.ew) : 2 ≤ 2 ^ (f.ew - 1) := by
  have : f.ew - 1 = (f.ew - 2) + 1 := by omega
  rw [this, Nat.pow_succ]
  have := Nat.two_pow_pos (f.ew - 2); omega

/-- **float2fraction is the decoded value** (finite patterns). -/
theorem f2q_value' (f : Fmt) (b : Nat) (hew : 2 ≤ f.ew) (hp : 1 ≤ f.p)
    (hfin : isFiniteBits f b = true) : (decode f b).toRat? = some (float2fraction f b) := by
  rw [isFiniteBits_iff] at hfin
  have hF := f2q_fields f b
  have hlt := ltZero_fin f b hfin
  have h2 := two_pow_ew_pos f hew
  unfold float2fraction
  simp only [hF.1, hF.2, hlt]
  have hemax : f.expMax = 2 ^ f.ew - 1 := rfl
  rw [hemax] at hfin
  generalize hE : (fields f b).e = E at *
  generalize hM : (fields f b).m = M at *
  generalize hS : (fields f b).sign = S at *
  have hfb : f.fracBits = f.p - 1 := rfl
  by_cases hE0 : E = 0
  · -- zero or subnormal
    have hd : decode f b = .fin S M f.emin := by
      have := decode_sub f b (by rw [hE, hemax]; exact hfin) (by rw [hE]; exact hE0)
      rw [this, hS, hM]
    rw [hd]
    subst hE0
    by_cases hM0 : M = 0
    · subst hM0
      simp [V.toRat?, Rat.divInt_eq_div]
    · simp only [hM0, and_false, if_false, if_true, V.toRat?]
      congr 1
      rw [Rat.divInt_eq_div, pow2_eq_zpow, emin_eq, hfb]
      simp only [minexp]
      generalize hK : 2 ^ (f.ew - 1) = K at *
      have hKi : (2:ℤ) ^ (f.ew - 1) = (K:ℤ) := by rw [← hK]; push_cast; rfl
      rw [hKi]
      have hk : (-(((0:ℕ):ℤ) + (2 - (K:ℤ)) - 1) - 1).toNat = K - 2 := by omega
      rw [hk]
      have hb : (S && !((0:ℕ) == 0 && M == 0)) = S := by cases S <;> simp [hM0]
      rw [hb]
      have e2 : (2:ℤ) - ((K:ℕ):ℤ) - ((f.p - 1 : ℕ) : ℤ) = -(((f.p - 1) + (K - 2) : ℕ) : ℤ) := by
        push_cast; omega
      rw [e2, zpow_neg, zpow_natCast, pow_add]
      cases S <;> simp <;> field_simp
  · have hd : decode f b = .fin S (M + 2 ^ f.fracBits) ((E : Int) - 1 + f.emin) := by
      have := decode_normal f b (by rw [hE, hemax]; exact hfin) (by rw [hE]; exact hE0)
      rw [this, hS, hM, hE]
    rw [hd]
    have hne : ¬ (E = 2 ^ f.ew - 1 ∧ M = 0) := fun h => hfin h.1
    simp only [hE0, false_and, if_false, hne, V.toRat?]
    congr 1
    rw [pow2_eq_zpow, emin_eq, hfb]
    simp only [minexp]
    generalize hK : 2 ^ (f.ew - 1) = K at *
    have hKi : (2:ℤ) ^ (f.ew - 1) = (K:ℤ) := by rw [← hK]; push_cast; rfl
    simp only [hKi]
    have hbool : (S && !(E == 0 && M == 0)) = S := by
      cases S <;> simp [hE0]
    rw [hbool]
    have hexp : (E:ℤ) - 1 + (2 - ((K:ℕ):ℤ) - ((f.p - 1 : ℕ):ℤ)) = ((E:ℤ) + (2 - (K:ℤ)) - 1) - ((f.p - 1 : ℕ):ℤ) := by ring
    rw [hexp, zpow_sub₀ (by norm_num : (2:ℚ) ≠ 0), zpow_natCast]
    by_cases hneg : (E:ℤ) + (2 - (K:ℤ)) - 1 < 0
    · simp only [hneg, if_true]
      rw [Rat.divInt_eq_div]
      have hk : ((E:ℤ) + (2 - (K:ℤ)) - 1) = -((-((E:ℤ) + (2 - (K:ℤ)) - 1)).toNat : ℤ) := by omega
      generalize (-((E:ℤ) + (2 - (K:ℤ)) - 1)).toNat = n at hk ⊢
      rw [hk, zpow_neg, zpow_natCast]
      cases S <;> simp <;> field_simp <;> ring
    · simp only [hneg, if_false]
      rw [Rat.divInt_eq_div]
      have hk : ((E:ℤ) + (2 - (K:ℤ)) - 1) = (((E:ℤ) + (2 - (K:ℤ)) - 1).toNat : ℤ) := by omega
      generalize ((E:ℤ) + (2 - (K:ℤ)) - 1).toNat = n at hk ⊢
      rw [hk, zpow_natCast]
      cases S <;> simp <;> field_simp <;> ring

end FAVerif.Conv
