/-
Helper lemmas for C13, part 7: mpf addition on a common grid `2^g`, `expansion2mpf` sums exactly
when the partial sums fit the precision, `mpf2expansion` for any rounding step satisfying `RSpec`.
-/
import FAVerif.Lemmas.ConvRound

namespace FAVerif.Conv
open FAVerif.FP

/-! ### canonical tuples of integers on a grid -/

/-- canonical tuple of `N * 2^g` -/
def canonI (N : Int) (g : Int) : MpfT := canonT (if N < 0 then 1 else 0) N.natAbs g

theorem canonI_zero (g : Int) : canonI 0 g = fzero := by simp [canonI, canonT]

theorem canonI_fields (N : Int) (g : Int) (hN : N ≠ 0) :
    canonI N g = ⟨if N < 0 then 1 else 0, oddPart N.natAbs, g + tz N.natAbs, sigBits N.natAbs⟩ := by
  unfold canonI
  exact canonT_fields _ _ _ (by omega)

theorem canonI_man_ne (N : Int) (g : Int) (hN : N ≠ 0) : (canonI N g).man ≠ 0 := by
  rw [canonI_fields N g hN]
  exact oddPart_ne_zero _ (by omega)

theorem canonI_sman (N : Int) (g : Int) (hN : N ≠ 0) :
    (canonI N g).sman * 2 ^ tz N.natAbs = N := by
  rw [canonI_fields N g hN]
  unfold MpfT.sman
  have hmul := oddPart_mul N.natAbs
  by_cases h : N < 0
  · simp only [h, if_true]
    have : (N.natAbs : Int) = -N := by omega
    have h2 : ((oddPart N.natAbs * 2 ^ tz N.natAbs : Nat) : Int) = -N := by rw [hmul]; exact this
    push_cast at h2
    simp
    linarith
  · simp only [h, if_false]
    have : (N.natAbs : Int) = N := by omega
    have h2 : ((oddPart N.natAbs * 2 ^ tz N.natAbs : Nat) : Int) = N := by rw [hmul]; exact this
    push_cast at h2
    simp
    linarith

theorem canonI_neg (N : Int) (g : Int) (hN : N ≠ 0) :
    ({ canonI N g with sign := 1 - (canonI N g).sign } : MpfT) = canonI (-N) g := by
  rw [canonI_fields N g hN, canonI_fields (-N) g (by omega)]
  simp only [Int.natAbs_neg]
  congr 1
  by_cases h : N < 0
  · have : ¬ (-N < 0) := by omega
    simp [h]; omega
  · have : (-N < 0) := by omega
    simp [h]; omega

/-- `from_man_exp` of a mantissa that lives on a finer exponent `e = g + k` -/
theorem fromManExp_grid (m : Int) (e g : Int) (k : Nat) (he : e = g + k) (prec : Nat)
    (h : sigBits (m * 2 ^ k).natAbs ≤ prec) : fromManExp m e prec = canonI (m * 2 ^ k) g := by
  unfold fromManExp canonI
  by_cases hm : m = 0
  · subst hm; simp [normalize, canonT]
  · have hnat : (m * 2 ^ k).natAbs = m.natAbs * 2 ^ k := by
      rw [Int.natAbs_mul, Int.natAbs_pow]; simp
    have hmn : m.natAbs ≠ 0 := by omega
    have hs : sigBits m.natAbs ≤ prec := by
      rw [hnat] at h
      unfold sigBits at h ⊢
      rw [(tz_mul_pow _ k hmn).2] at h
      exact h
    rw [normalize_exact _ _ _ _ hs, hnat, canonT_shift _ _ _ _ hmn, he]
    have hsign : (m * 2 ^ k < 0) ↔ (m < 0) := by
      have hp : (0:Int) < 2 ^ k := by positivity
      constructor
      · intro h'; by_contra hc; have : 0 ≤ m := by omega
        have : 0 ≤ m * 2 ^ k := Int.mul_nonneg this (by omega)
        omega
      · intro h'; exact Int.mul_neg_of_neg_of_pos h' hp
    by_cases hneg : m < 0
    · have := hsign.mpr hneg; simp [hneg, this]
    · have : ¬ (m * 2 ^ k < 0) := fun h' => hneg (hsign.mp h')
      simp [hneg, this]

theorem normalize_canonI (N : Int) (g : Int) (prec : Nat) (hN : N ≠ 0) (h : sigBits N.natAbs ≤ prec) :
    normalize (canonI N g).sign (canonI N g).man (canonI N g).exp prec = canonI N g := by
  have hn : N.natAbs ≠ 0 := by omega
  rw [canonI_fields N g hN]
  simp only
  have hid := oddPart_idem N.natAbs hn
  have : sigBits (oddPart N.natAbs) ≤ prec := by unfold sigBits at h ⊢; rw [hid.1]; exact h
  rw [normalize_exact _ _ _ _ this, canonT_fields _ _ _ (oddPart_ne_zero _ hn), hid.1, hid.2]
  unfold sigBits; rw [hid.1]; simp

/-- **mpf addition is exact on a common grid** when the sum fits the precision. -/
theorem mpfAdd_grid (prec : Nat) (A B : Int) (g : Int) (h : sigBits (A + B).natAbs ≤ prec) :
    mpfAdd prec (canonI A g) (canonI B g) = canonI (A + B) g := by
  by_cases hA : A = 0
  · subst hA
    rw [canonI_zero, Int.zero_add] at *
    unfold mpfAdd
    have z1 : fzero.man = 0 := rfl
    have z2 : fzero.exp = 0 := rfl
    simp only [z1, z2, ne_eq, not_true_eq_false, false_and, if_false, if_true]
    by_cases hB : B = 0
    · subst hB; simp [canonI_zero, fzero]
    · simp only [canonI_man_ne B g hB, not_false_eq_true, if_true]
      exact normalize_canonI B g prec hB h
  · by_cases hB : B = 0
    · subst hB
      rw [canonI_zero, Int.add_zero] at *
      unfold mpfAdd
      have z1 : fzero.man = 0 := rfl
      have z2 : fzero.exp = 0 := rfl
      simp only [z1, z2, ne_eq, not_true_eq_false, and_false, if_false, canonI_man_ne A g hA]
      exact normalize_canonI A g prec hA h
    · unfold mpfAdd
      simp only [ne_eq, canonI_man_ne A g hA, canonI_man_ne B g hB, not_false_eq_true, and_self, if_true]
      have hsA := canonI_sman A g hA
      have hsB := canonI_sman B g hB
      have heA : (canonI A g).exp = g + tz A.natAbs := by rw [canonI_fields A g hA]
      have heB : (canonI B g).exp = g + tz B.natAbs := by rw [canonI_fields B g hB]
      rw [heA, heB]
      generalize (canonI A g).sman = sa at *
      generalize (canonI B g).sman = sb at *
      generalize tz A.natAbs = ta at *
      generalize tz B.natAbs = tb at *
      obtain ⟨k, hk⟩ : ∃ k : Nat, (k : Int) = min (g + ta) (g + tb) - g := ⟨min ta tb, by omega⟩
      have hmin : min (g + (ta : Int)) (g + tb) = g + k := by omega
      rw [hmin]
      have e1 : (g + (ta : Int) - (g + k)).toNat = ta - k := by omega
      have e2 : (g + (tb : Int) - (g + k)).toNat = tb - k := by omega
      rw [e1, e2]
      have hka : k ≤ ta := by omega
      have hkb : k ≤ tb := by omega
      have hsum : (sa * 2 ^ (ta - k) + sb * 2 ^ (tb - k)) * 2 ^ k = A + B := by
        rw [Int.add_mul, Int.mul_assoc, Int.mul_assoc, ← pow_add, ← pow_add]
        have : ta - k + k = ta := by omega
        rw [this]
        have : tb - k + k = tb := by omega
        rw [this, hsA, hsB]
      rw [fromManExp_grid _ _ g k rfl prec (by rw [hsum]; exact h), hsum]

theorem mpfNeg_canonI (N : Int) (g : Int) : mpfNeg (canonI N g) = canonI (-N) g := by
  by_cases hN : N = 0
  · subst hN; simp [canonI_zero, mpfNeg, fzero]
  · unfold mpfNeg
    simp only [canonI_man_ne N g hN, if_false]
    exact canonI_neg N g hN

theorem mpfSub_grid (prec : Nat) (A B : Int) (g : Int) (h : sigBits (A - B).natAbs ≤ prec) :
    mpfSub prec (canonI A g) (canonI B g) = canonI (A - B) g := by
  have key : mpfSub prec (canonI A g) (canonI B g) = mpfAdd prec (canonI A g) (canonI (-B) g) := by
    unfold mpfSub
    split
    · rename_i hc
      have hB : B ≠ 0 := by
        intro h0; subst h0; rw [canonI_zero] at hc; exact hc.2 rfl
      rw [canonI_neg B g hB]
    · rw [mpfNeg_canonI]
  rw [key]
  have : A - B = A + -B := by omega
  rw [this] at h ⊢
  exact mpfAdd_grid prec A (-B) g h

/-! ### floats on the grid `2^emin` -/

/-- value of a finite pattern in units of `2^emin` -/
def gridInt (f : Fmt) (b : Nat) : Int :=
  let (s, m, e) := finParts f b
  (if s then -1 else 1) * ((m * 2 ^ (e - f.emin).toNat : Nat) : Int)

def gsum (f : Fmt) (ws : List Nat) : Int := (ws.map (gridInt f)).sum

/-- a good word: a finite pattern of the format -/
def GoodWord (f : Fmt) (b : Nat) : Prop := b < 2 ^ f.width ∧ isFiniteBits f b = true

theorem float2mpf_grid (f : Fmt) (b : Nat) (prec : Nat) (hew : 2 ≤ f.ew) (hp : 1 ≤ f.p) (hg : GoodWord f b)
    (hprec : f.p ≤ prec ∨ f = binary64) :
    float2mpf f prec b = .ok (canonI (gridInt f b) f.emin) := by
  obtain ⟨m, e, hd, hwf, _, _⟩ := finite_view f b hew hp hg.1 hg.2
  rw [float2mpf_canon f b prec _ m e hg.2 hd hwf hprec]
  congr 1
  unfold gridInt
  rw [finParts_of_decode f b _ m e hd]
  simp only
  generalize (fields f b).sign = s
  unfold canonI
  have hge := hwf.ge
  obtain ⟨k, hk⟩ : ∃ k : Nat, (e - f.emin).toNat = k := ⟨_, rfl⟩
  rw [hk]
  have hek : e = f.emin + k := by omega
  have hnat : ∀ n : Nat, ((if s = true then (-1:Int) else 1) * (n : Int)).natAbs = n := by
    intro n; cases s <;> simp
  rw [hnat]
  by_cases hm : m = 0
  · subst hm; simp [canonT]
  · rw [canonT_shift _ _ _ _ hm, ← hek]
    congr 1
    have hpos : (0:Int) < ((m * 2 ^ k : Nat) : Int) := by
      have : 0 < m * 2 ^ k := Nat.mul_pos (by omega) (Nat.two_pow_pos _)
      omega
    cases s <;> simp [sgnNat] <;> omega

theorem gridInt_zero_iff (f : Fmt) (b : Nat) (hew : 2 ≤ f.ew) (hp : 1 ≤ f.p) (hg : GoodWord f b) :
    gridInt f b = 0 ↔ isZerob f b = true := by
  obtain ⟨m, e, hd, hwf, _, hz⟩ := finite_view f b hew hp hg.1 hg.2
  unfold gridInt
  rw [finParts_of_decode f b _ m e hd]
  simp only
  rw [← hz]
  have hpos := Nat.two_pow_pos (e - f.emin).toNat
  constructor
  · intro h
    by_contra hm
    have : 0 < m * 2 ^ (e - f.emin).toNat := Nat.mul_pos (by omega) hpos
    cases hs : (fields f b).sign <;> rw [hs] at h <;> simp at h <;> omega
  · intro h; subst h; simp

/-! ### expansion2mpf -/

theorem e2m_single (f : Fmt) (prec : Nat) (w : Nat) : expansion2mpf f prec [w] = float2mpf f prec w := by
  simp [expansion2mpf]

theorem e2m_cons (f : Fmt) (prec : Nat) (w : Nat) (l : List Nat) (hl : l ≠ []) :
    expansion2mpf f prec (w :: l) =
      (match expansion2mpf f prec l, float2mpf f prec w with
        | .ok a, .ok t => .ok (mpfAdd prec a t)
        | .error x, _ => .error x
        | _, .error x => .error x) := by
  obtain ⟨last, r, hr⟩ : ∃ last r, l.reverse = last :: r := by
    cases h : l.reverse with
    | nil => exact absurd (List.reverse_eq_nil_iff.mp h) hl
    | cons a r => exact ⟨a, r, rfl⟩
  unfold expansion2mpf
  rw [List.reverse_cons, hr]
  simp only [List.cons_append, List.foldl_append, List.foldl_cons, List.foldl_nil]
  rfl

/-- every non-empty suffix sum has at most `prec` significant bits -/
def FitsAll (f : Fmt) (prec : Nat) : List Nat → Prop
  | [] => True
  | w :: rest => sigBits (gsum f (w :: rest)).natAbs ≤ prec ∧ FitsAll f prec rest

/-- **expansion2mpf / multiword2mpf sum exactly** when every partial sum (taken from the last word)
fits the context precision. -/
theorem e2m_value (f : Fmt) (prec : Nat) (hew : 2 ≤ f.ew) (hp : 1 ≤ f.p) (hprec : f.p ≤ prec ∨ f = binary64) :
    ∀ (ws : List Nat), ws ≠ [] → (∀ w ∈ ws, GoodWord f w) → FitsAll f prec ws →
      expansion2mpf f prec ws = .ok (canonI (gsum f ws) f.emin) := by
  intro ws
  induction ws with
  | nil => intro h; exact absurd rfl h
  | cons w l ih =>
    intro _ hgood hfit
    have hw := hgood w (by simp)
    by_cases hl : l = []
    · subst hl
      rw [e2m_single, float2mpf_grid f w prec hew hp hw hprec]
      simp [gsum]
    · rw [e2m_cons f prec w l hl, ih hl (fun x hx => hgood x (by simp [hx])) hfit.2,
        float2mpf_grid f w prec hew hp hw hprec]
      simp only
      have hs : gsum f (w :: l) = gsum f l + gridInt f w := by
        unfold gsum; simp; omega
      rw [mpfAdd_grid prec _ _ _ (by rw [← hs]; exact hfit.1), hs]

/-! ### mpf2expansion for a rounding step satisfying `RSpec` -/

/-- largest finite value of the format in units of `2^emin` -/
def gridMax (f : Fmt) : Nat := (2 ^ f.p - 1) * 2 ^ (f.emaxUlp - f.emin).toNat

/-- What C13 needs from the rounding step `R = mpf2float(dtype, ·)` on values `X·2^emin` that are
multiples of the smallest subnormal and not larger than the largest finite number: the result is a
finite non-zero float, strictly closer to `X` than `0` is, and a multiple of every power of two that
divides `X` (true for any rounding to a neighbouring float); `0 ↦ 0`.  Proved for the real `mpf2float`
by C15 (correct rounding implies it); checked on the real function by C13's search. -/
structure RSpec (f : Fmt) (R : MpfT → Nat) : Prop where
  zero : GoodWord f (R fzero) ∧ isZerob f (R fzero) = true
  step : ∀ X : Int, X ≠ 0 → X.natAbs ≤ gridMax f →
    GoodWord f (R (canonI X f.emin)) ∧ gridInt f (R (canonI X f.emin)) ≠ 0 ∧
    (X - gridInt f (R (canonI X f.emin))).natAbs < X.natAbs ∧
    ((2 ^ tz X.natAbs : Nat) : Int) ∣ gridInt f (R (canonI X f.emin))

theorem sigBits_zero : sigBits 0 = 0 := by simp [sigBits, oddPart, bitLen_zero]

theorem fits_of_dvd (X : Int) (t N0 prec : Nat) (hd : ((2 ^ t : Nat) : Int) ∣ X) (hle : X.natAbs ≤ N0)
    (hb : bitLen (N0 / 2 ^ t) ≤ prec) : sigBits X.natAbs ≤ prec := by
  have h1 : 2 ^ t ∣ X.natAbs := Int.natCast_dvd.mp hd
  have h2 := sigBits_le_of_dvd X.natAbs t h1
  have h3 : bitLen (X.natAbs / 2 ^ t) ≤ bitLen (N0 / 2 ^ t) := bitLen_mono (Nat.div_le_div_right hle)
  omega

theorem tz_ge_of_dvd (n t : Nat) (hn : n ≠ 0) (h : 2 ^ t ∣ n) : t ≤ tz n := by
  obtain ⟨c, hc⟩ := h
  have hc0 : c ≠ 0 := by intro h0; subst h0; simp at hc; exact hn hc
  have := (tz_mul_pow c t hc0).1
  rw [Nat.mul_comm] at this
  rw [hc, this]; omega

theorem expansionLoop_spec (R : MpfT → Nat) (f : Fmt) (prec : Nat) (hew : 2 ≤ f.ew) (hp : 1 ≤ f.p)
    (hprec : f.p ≤ prec ∨ f = binary64) (hR : RSpec f R) (t N0 : Nat) (hN0 : N0 ≤ gridMax f)
    (hbits : bitLen (N0 / 2 ^ t) ≤ prec) :
    ∀ (n : Nat) (X : Int), X.natAbs = n → ((2 ^ t : Nat) : Int) ∣ X → n ≤ N0 → ∀ (acc : List Nat) (fuel : Nat), n + 1 ≤ fuel →
      ∃ ws, expansionLoopG R f prec none fuel (canonI X f.emin) acc = .ok (acc ++ ws) ∧ ws ≠ [] ∧
        (∀ w ∈ ws, GoodWord f w) ∧ gsum f ws = X ∧ FitsAll f prec ws := by
  intro n
  induction n using Nat.strongRecOn with
  | _ n ih =>
    intro X hXn hdvd hle acc fuel hfuel
    obtain ⟨k, rfl⟩ : ∃ k, fuel = k + 1 := ⟨fuel - 1, by omega⟩
    by_cases hX : X = 0
    · subst hX
      rw [canonI_zero]
      refine ⟨[R fzero], ?_, by simp, ?_, ?_, ?_⟩
      · unfold expansionLoopG
        simp [hR.zero.2]
      · intro w hw; simp at hw; rw [hw]; exact hR.zero.1
      · unfold gsum; simp
        exact (gridInt_zero_iff f _ hew hp hR.zero.1).mpr hR.zero.2
      · refine ⟨?_, trivial⟩
        have : gsum f [R fzero] = 0 := by
          unfold gsum; simp
          exact (gridInt_zero_iff f _ hew hp hR.zero.1).mpr hR.zero.2
        rw [this]; simp [sigBits_zero]
    · obtain ⟨hgood, hY0, hlt, hYd⟩ := hR.step X hX (by omega)
      generalize hy : R (canonI X f.emin) = y at *
      generalize hYY : gridInt f y = Y at *
      have hzero : isZerob f y = false := by
        cases h : isZerob f y
        · rfl
        · exact absurd ((gridInt_zero_iff f y hew hp hgood).mpr h) (by rw [hYY]; exact hY0)
      have hinf : isInfb f y = false := (fin_not_special f y hgood.2).1
      have hXn0 : X.natAbs ≠ 0 := by omega
      have ht : t ≤ tz X.natAbs := tz_ge_of_dvd _ _ hXn0 (Int.natCast_dvd.mp hdvd)
      have hYdvd : ((2 ^ t : Nat) : Int) ∣ Y := by
        have : ((2 ^ t : Nat) : Int) ∣ ((2 ^ tz X.natAbs : Nat) : Int) :=
          Int.natCast_dvd_natCast.mpr (Nat.pow_dvd_pow 2 ht)
        exact Int.dvd_trans this hYd
      have hdiff : ((2 ^ t : Nat) : Int) ∣ (X - Y) := Int.dvd_sub hdvd hYdvd
      have hfit' : sigBits (X - Y).natAbs ≤ prec := fits_of_dvd _ t N0 prec hdiff (by omega) hbits
      obtain ⟨ws', hloop, _, hgood', hsum', hfits'⟩ :=
        ih (X - Y).natAbs (by omega) (X - Y) rfl hdiff (by omega) (acc ++ [y]) k (by omega)
      refine ⟨y :: ws', ?_, by simp, ?_, ?_, ?_⟩
      · unfold expansionLoopG
        simp only [hy, hinf, hzero, Bool.or_self, Bool.false_eq_true, if_false]
        rw [float2mpf_grid f y prec hew hp hgood hprec, hYY]
        simp only
        rw [mpfSub_grid prec X Y f.emin hfit']
        have : ¬ ((none : Option Nat) = some (acc ++ [y]).length) := by simp
        simp only [this, if_false]
        rw [hloop]; simp
      · intro w hw
        simp only [List.mem_cons] at hw
        rcases hw with rfl | hw
        · exact hgood
        · exact hgood' w hw
      · unfold gsum at hsum' ⊢
        simp only [List.map_cons, List.sum_cons, hYY]
        rw [hsum']; omega
      · have hs : gsum f (y :: ws') = X := by
          unfold gsum at hsum' ⊢
          simp only [List.map_cons, List.sum_cons, hYY]
          rw [hsum']; omega
        exact ⟨by rw [hs]; exact fits_of_dvd _ t N0 prec hdvd (by omega) hbits, hfits'⟩

theorem canonI_not_inf (N : Int) (g : Int) : (canonI N g).isInf = false := by
  by_cases hN : N = 0
  · subst hN; rw [canonI_zero]; decide
  · have hm := canonI_man_ne N g hN
    unfold MpfT.isInf
    have h1 : (canonI N g == finf) = false := by
      rw [beq_eq_false_iff_ne]; intro h; rw [h] at hm; exact hm rfl
    have h2 : (canonI N g == fninf) = false := by
      rw [beq_eq_false_iff_ne]; intro h; rw [h] at hm; exact hm rfl
    rw [h1, h2]; rfl

theorem canonI_not_nan (N : Int) (g : Int) : (canonI N g).isNaN = false := by
  by_cases hN : N = 0
  · subst hN; rw [canonI_zero]; decide
  · have hm := canonI_man_ne N g hN
    unfold MpfT.isNaN
    rw [beq_eq_false_iff_ne]; intro h; rw [h] at hm; exact hm rfl

/-- mpf2expansion on a grid value, for any rounding step satisfying `RSpec` -/
theorem expansion_spec (R : MpfT → Nat) (f : Fmt) (prec : Nat) (hew : 2 ≤ f.ew) (hp : 1 ≤ f.p)
    (hprec : f.p ≤ prec ∨ f = binary64) (hR : RSpec f R) (X : Int) (hX : X.natAbs ≤ gridMax f)
    (hbits : sigBits X.natAbs ≤ prec) (functional : Bool) (fuel : Nat) (hfuel : X.natAbs + 1 ≤ fuel) :
    ∃ ws, mpf2expansionG R f prec (canonI X f.emin) none functional fuel = .ok ws ∧ ws ≠ [] ∧
      (∀ w ∈ ws, GoodWord f w) ∧ gsum f ws = X ∧
      expansion2mpf f prec ws = .ok (canonI X f.emin) := by
  have hd : ((2 ^ tz X.natAbs : Nat) : Int) ∣ X := Int.natCast_dvd.mpr (tz_dvd _)
  obtain ⟨ws, hloop, hne, hgood, hsum, hfits⟩ :=
    expansionLoop_spec R f prec hew hp hprec hR (tz X.natAbs) X.natAbs hX hbits X.natAbs X rfl hd (Nat.le_refl _) [] fuel hfuel
  refine ⟨ws, ?_, hne, hgood, hsum, ?_⟩
  · unfold mpf2expansionG
    rw [canonI_not_inf, canonI_not_nan]
    simp only [Bool.or_self, Bool.false_eq_true, if_false, hloop, List.nil_append]
  · rw [e2m_value f prec hew hp hprec ws hne hgood hfits, hsum]

end FAVerif.Conv
