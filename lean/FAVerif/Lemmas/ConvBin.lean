/-
Helper lemmas for C13, part 5: binary digit strings (`bin(n)[2:]`, padding, slicing, `rstrip`, `lstrip`,
`int(s, 2)`), decimal exponent printing/parsing, and the frame of a `float2bin` string.
-/
import FAVerif.Lemmas.ConvMpf

namespace FAVerif.Conv
open FAVerif.FP

/-! ### fixed-width big-endian bit strings -/

/-- the `w` low bits of `n`, most significant first -/
def bitsW : Nat → Nat → List Char
  | 0, _ => []
  | w + 1, n => bitsW w (n / 2) ++ [bitChar n]

theorem bitsW_length (w n : Nat) : (bitsW w n).length = w := by
  induction w generalizing n with
  | zero => rfl
  | succ w ih => simp [bitsW, ih]

theorem bitsW_zero (w : Nat) : bitsW w 0 = List.replicate w '0' := by
  induction w with
  | zero => rfl
  | succ w ih =>
    simp only [bitsW, Nat.zero_div, ih, bitChar]
    rw [List.replicate_succ', ]
    simp

theorem binStr_ge2 (n : Nat) (h : 2 ≤ n) : binStr n = binStr (n / 2) ++ [bitChar n] := by
  obtain ⟨k, rfl⟩ : ∃ k, n = k + 2 := ⟨n - 2, by omega⟩
  rw [binStr]

theorem binStr_lt2 (n : Nat) (h : n < 2) : binStr n = [bitChar n] := by
  have : n = 0 ∨ n = 1 := by omega
  rcases this with rfl | rfl <;> simp [binStr, bitChar]

/-- left-padding `bin(n)[2:]` to width `w` gives the fixed-width string -/
theorem pad_binStr : ∀ (w n : Nat), 1 ≤ w → n < 2 ^ w →
    (binStr n).length ≤ w ∧ List.replicate (w - (binStr n).length) '0' ++ binStr n = bitsW w n := by
  intro w
  induction w with
  | zero => intro n h; omega
  | succ w ih =>
    intro n _ hn
    by_cases h2 : n < 2
    · rw [binStr_lt2 n h2]
      have hd : n / 2 = 0 := by omega
      simp only [List.length_singleton, bitsW, hd, bitsW_zero]
      constructor
      · omega
      · simp
    · have h2' : 2 ≤ n := by omega
      have hw : 1 ≤ w := by
        rcases Nat.eq_zero_or_pos w with h | h
        · subst h; simp at hn; omega
        · exact h
      have hlt : n / 2 < 2 ^ w := by rw [Nat.pow_succ] at hn; omega
      obtain ⟨h1, h3⟩ := ih (n / 2) hw hlt
      rw [binStr_ge2 n h2']
      simp only [List.length_append, List.length_singleton, bitsW]
      constructor
      · omega
      · rw [← h3]
        have : w + 1 - ((binStr (n / 2)).length + 1) = w - (binStr (n / 2)).length := by omega
        rw [this]; simp

theorem binStr_length_top (w n : Nat) (hw : 1 ≤ w) (h1 : 2 ^ (w - 1) ≤ n) (h2 : n < 2 ^ w) : (binStr n).length = w := by
  induction w generalizing n with
  | zero => omega
  | succ w ih =>
    by_cases hw0 : w = 0
    · subst hw0
      simp at h1 h2
      have : n = 1 := by omega
      subst this; simp [binStr]
    · have hn2 : 2 ≤ n := by
        have : 2 ^ (w + 1 - 1) = 2 ^ (w - 1) * 2 := by
          rw [← Nat.pow_succ]; congr 1; omega
        have := Nat.two_pow_pos (w - 1)
        omega
      rw [binStr_ge2 n hn2]
      simp only [List.length_append, List.length_singleton]
      have e : w + 1 - 1 = (w - 1) + 1 := by omega
      rw [e, Nat.pow_succ] at h1
      rw [Nat.pow_succ] at h2
      rw [ih (n / 2) (by omega) (by omega) (by omega)]

/-- slicing: the top `a` bits followed by the low `c` bits -/
theorem bitsW_split (a c n : Nat) : bitsW (a + c) n = bitsW a (n / 2 ^ c) ++ bitsW c n := by
  induction c generalizing n with
  | zero => simp [bitsW]
  | succ c ih =>
    have : a + (c + 1) = (a + c) + 1 := by omega
    rw [this]
    simp only [bitsW]
    rw [ih (n / 2), List.append_assoc]
    congr 2
    rw [Nat.div_div_eq_div_mul, Nat.pow_succ, Nat.mul_comm]

theorem bitsW_mod (w n : Nat) : bitsW w (n % 2 ^ w) = bitsW w n := by
  induction w generalizing n with
  | zero => rfl
  | succ w ih =>
    simp only [bitsW]
    have h1 : n % 2 ^ (w + 1) / 2 = (n / 2) % 2 ^ w := by
      rw [Nat.pow_succ, Nat.mul_comm, Nat.mod_mul_right_div_self]
    have h2 : bitChar (n % 2 ^ (w + 1)) = bitChar n := by
      unfold bitChar
      have : n % 2 ^ (w + 1) % 2 = n % 2 := by
        rw [Nat.pow_succ]; exact Nat.mod_mul_left_mod _ _ _
      rw [this]
    rw [h1, h2, ih]

/-! ### int(s, 2) -/

def isBin (l : List Char) : Prop := ∀ c ∈ l, c = '0' ∨ c = '1'

def binVal (l : List Char) : Nat := l.foldl (fun a c => 2 * a + (if c = '1' then 1 else 0)) 0

theorem bitChar_cases (n : Nat) : (n % 2 = 0 ∧ bitChar n = '0') ∨ (n % 2 = 1 ∧ bitChar n = '1') := by
  unfold bitChar
  rcases Nat.mod_two_eq_zero_or_one n with h | h <;> simp [h]

theorem isBin_bitsW (w n : Nat) : isBin (bitsW w n) := by
  induction w generalizing n with
  | zero => intro c hc; simp [bitsW] at hc
  | succ w ih =>
    intro c hc
    simp only [bitsW, List.mem_append, List.mem_singleton] at hc
    rcases hc with h | h
    · exact ih _ c h
    · rcases bitChar_cases n with ⟨_, h'⟩ | ⟨_, h'⟩ <;> rw [h, h'] <;> simp

theorem binVal_snoc (l : List Char) (c : Char) : binVal (l ++ [c]) = 2 * binVal l + (if c = '1' then 1 else 0) := by
  unfold binVal; rw [List.foldl_append]; rfl

theorem binVal_bitsW (w n : Nat) : binVal (bitsW w n) = n % 2 ^ w := by
  induction w generalizing n with
  | zero => simp [bitsW, binVal]; omega
  | succ w ih =>
    simp only [bitsW, binVal_snoc, ih]
    rw [Nat.pow_succ, Nat.mul_comm (2 ^ w) 2, Nat.mod_mul]
    rcases bitChar_cases n with ⟨h, h'⟩ | ⟨h, h'⟩ <;> rw [h'] <;> simp <;> omega

theorem foldl_binOpt (l : List Char) (h : isBin l) (a : Nat) :
    l.foldl (fun acc c => match acc with
      | none => none
      | some a => if c = '0' then some (2 * a) else if c = '1' then some (2 * a + 1) else none) (some a)
    = some (l.foldl (fun a c => 2 * a + (if c = '1' then 1 else 0)) a) := by
  induction l generalizing a with
  | nil => rfl
  | cons c l ih =>
    have hc := h c (by simp)
    have hl : isBin l := fun x hx => h x (by simp [hx])
    simp only [List.foldl_cons]
    rcases hc with rfl | rfl
    · simp; exact ih hl _
    · simp; exact ih hl _

theorem parseBinNat_isBin (l : List Char) (hne : l ≠ []) (h : isBin l) : parseBinNat l = some (binVal l) := by
  unfold parseBinNat binVal
  simp only [hne, if_false]
  exact foldl_binOpt l h 0

theorem binVal_cons_gen (l : List Char) (a : Nat) :
    l.foldl (fun a c => 2 * a + (if c = '1' then 1 else 0)) a = a * 2 ^ l.length + binVal l := by
  induction l generalizing a with
  | nil => simp [binVal]
  | cons c l ih =>
    simp only [List.foldl_cons, List.length_cons, binVal]
    rw [ih, ih (2 * 0 + _)]
    rw [Nat.pow_succ]; ring

theorem binVal_cons (c : Char) (l : List Char) :
    binVal (c :: l) = (if c = '1' then 1 else 0) * 2 ^ l.length + binVal l := by
  unfold binVal
  simp only [List.foldl_cons]
  rw [binVal_cons_gen]; simp [binVal]

/-! ### rstrip / lstrip -/

theorem rstrip0_snoc (l : List Char) (c : Char) :
    rstrip0 (l ++ [c]) = if c = '0' then rstrip0 l else l ++ [c] := by
  unfold rstrip0
  rw [List.reverse_append]
  simp only [List.reverse_cons, List.reverse_nil, List.nil_append, List.singleton_append, List.dropWhile_cons]
  by_cases h : c = '0'
  · simp [h]
  · simp [h]

/-- `rstrip("0")` of a fixed-width string keeps the bits above the trailing zeros -/
theorem rstrip0_bitsW : ∀ (w m : Nat), m < 2 ^ w →
    rstrip0 (bitsW w m) = if m = 0 then [] else bitsW (w - tz m) (oddPart m) := by
  intro w
  induction w with
  | zero =>
    intro m h
    have : m = 0 := by simpa using h
    subst this; simp [bitsW, rstrip0]
  | succ w ih =>
    intro m h
    simp only [bitsW, rstrip0_snoc]
    rcases bitChar_cases m with ⟨hm, hc⟩ | ⟨hm, hc⟩
    · rw [hc]; simp only [if_true]
      have hlt : m / 2 < 2 ^ w := by rw [Nat.pow_succ] at h; omega
      rw [ih (m / 2) hlt]
      by_cases h0 : m = 0
      · subst h0; simp
      · have h0' : m / 2 ≠ 0 := by omega
        simp only [h0, h0', if_false]
        have ht := tz_even m h0 hm
        have ho : oddPart m = oddPart (m / 2) := by
          unfold oddPart
          rw [ht, Nat.pow_succ, Nat.mul_comm, ← Nat.div_div_eq_div_mul]
        rw [ht, ho]
        congr 1; omega
    · rw [hc]
      have : ('1' : Char) ≠ '0' := by decide
      simp only [this, if_false]
      have h0 : m ≠ 0 := by omega
      simp only [h0, if_false]
      have ht := tz_odd m hm
      have ho : oddPart m = m := by unfold oddPart; rw [ht]; simp
      rw [ht, ho]
      simp [bitsW, hc]

theorem lstrip0_replicate (z : Nat) (l : List Char) (h : l.head? ≠ some '0') :
    lstrip0 (List.replicate z '0' ++ l) = l := by
  unfold lstrip0
  induction z with
  | zero =>
    simp
    cases l with
    | nil => rfl
    | cons c r =>
      simp at h
      simp [List.dropWhile_cons, h]
  | succ z ih =>
    simp [List.replicate_succ, List.dropWhile_cons]
    simpa using ih

/-- a string of exactly `bitLen n` bits starts with `'1'` -/
theorem bitsW_top (L n : Nat) (hL : 1 ≤ L) (h1 : 2 ^ (L - 1) ≤ n) (h2 : n < 2 ^ L) :
    bitsW L n = '1' :: bitsW (L - 1) n := by
  have e : L = 1 + (L - 1) := by omega
  conv_lhs => rw [e, bitsW_split]
  have hq : n / 2 ^ (L - 1) = 1 := by
    have hpos := Nat.two_pow_pos (L - 1)
    have hlt : n / 2 ^ (L - 1) < 2 := by
      rw [Nat.div_lt_iff_lt_mul hpos]
      have : 2 ^ L = 2 ^ (L - 1) * 2 := by rw [← Nat.pow_succ]; congr 1; omega
      omega
    have hge : 1 ≤ n / 2 ^ (L - 1) := (Nat.le_div_iff_mul_le hpos).mpr (by omega)
    omega
  rw [hq]
  simp [bitsW, bitChar]

/-- `lstrip("0")` of a fixed-width string of a non-zero number -/
theorem lstrip0_bitsW (k n : Nat) (hn : n ≠ 0) (hlt : n < 2 ^ k) :
    lstrip0 (bitsW k n) = '1' :: bitsW (bitLen n - 1) n ∧ bitLen n ≤ k := by
  have hL := bitLen_pos n hn
  have hle : bitLen n ≤ k := bitLen_le_of_lt _ _ hlt
  refine ⟨?_, hle⟩
  have e : k = (k - bitLen n) + bitLen n := by omega
  rw [e, bitsW_split]
  have hq : n / 2 ^ bitLen n = 0 := Nat.div_eq_of_lt (lt_pow_bitLen n)
  rw [hq, bitsW_zero, bitsW_top _ n hL (pow_bitLen_le n hn) (lt_pow_bitLen n)]
  apply lstrip0_replicate
  simp

/-! ### decimal exponent: `f"{e:+01d}"` and `int(...)` -/

theorem decVal_decChar (n : Nat) : decVal (decChar n) = some (n % 10) := by
  have h : n % 10 < 10 := Nat.mod_lt _ (by omega)
  unfold decChar decVal
  generalize n % 10 = r at *
  have : r = 0 ∨ r = 1 ∨ r = 2 ∨ r = 3 ∨ r = 4 ∨ r = 5 ∨ r = 6 ∨ r = 7 ∨ r = 8 ∨ r = 9 := by omega
  rcases this with rfl | rfl | rfl | rfl | rfl | rfl | rfl | rfl | rfl | rfl <;> decide

theorem natDec_unfold (n : Nat) : natDec n = if n < 10 then [decChar n] else natDec (n / 10) ++ [decChar n] := by
  rw [natDec]

theorem natDec_ne_nil (n : Nat) : natDec n ≠ [] := by
  rw [natDec_unfold]; split <;> simp

def decStep (acc : Option Nat) (c : Char) : Option Nat :=
  match acc, decVal c with
  | some a, some d => some (10 * a + d)
  | _, _ => none

theorem parseDecNat_eq (s : List Char) (h : s ≠ []) : parseDecNat s = s.foldl decStep (some 0) := by
  unfold parseDecNat; simp only [h, if_false]; rfl

theorem foldl_natDec (n : Nat) : (natDec n).foldl decStep (some 0) = some n := by
  induction n using Nat.strongRecOn with
  | _ n ih =>
    rw [natDec_unfold]
    by_cases h : n < 10
    · simp only [h, if_true, List.foldl_cons, List.foldl_nil, decStep, decVal_decChar]
      congr 1; omega
    · simp only [h, if_false, List.foldl_append, List.foldl_cons, List.foldl_nil]
      rw [ih (n / 10) (by omega)]
      simp only [decStep, decVal_decChar]
      congr 1; omega

theorem parseDecNat_natDec (n : Nat) : parseDecNat (natDec n) = some n := by
  rw [parseDecNat_eq _ (natDec_ne_nil n), foldl_natDec]

theorem parseInt_showExp (e : Int) : parseInt (showExp e) = some e := by
  unfold showExp
  by_cases h : e < 0
  · simp only [h, if_true]
    show (parseDecNat (natDec e.natAbs)).map (fun n => -(n : Int)) = some e
    rw [parseDecNat_natDec]
    show some (-(e.natAbs : Int)) = some e
    congr 1; omega
  · simp only [h, if_false]
    show (parseDecNat (natDec e.natAbs)).map (fun n => (n : Int)) = some e
    rw [parseDecNat_natDec]
    show some ((e.natAbs : Nat) : Int) = some e
    congr 1; omega

/-! ### the frame of a float2bin string -/

def mantStr (bits : List Char) : List Char := if bits = [] then ['1'] else '1' :: '.' :: bits
def frameBody (bits : List Char) (e : Int) : List Char := mantStr bits ++ 'p' :: showExp e
def frame (neg : Bool) (bits : List Char) (e : Int) : List Char := (if neg then ['-'] else []) ++ frameBody bits e

theorem indexP_append (pre rest : List Char) (h : 'p' ∉ pre) : indexP (pre ++ 'p' :: rest) = some pre.length := by
  induction pre with
  | nil => simp [indexP]
  | cons c l ih =>
    have hc : c ≠ 'p' := fun hh => h (by simp [hh])
    have hl : 'p' ∉ l := fun hh => h (by simp [hh])
    simp only [List.cons_append, indexP, hc, if_false, ih hl, Option.map_some, List.length_cons]

theorem p_notin_mantStr (bits : List Char) (h : isBin bits) : 'p' ∉ mantStr bits := by
  unfold mantStr
  split
  · simp
  · intro hm
    simp only [List.mem_cons] at hm
    rcases hm with hm | hm | hm
    · exact absurd hm (by decide)
    · exact absurd hm (by decide)
    · rcases h _ hm with h' | h' <;> exact absurd h' (by decide)

theorem mantStr_head (bits : List Char) : ∃ r, mantStr bits = '1' :: r := by
  unfold mantStr; split <;> exact ⟨_, rfl⟩

theorem frame_parse (neg : Bool) (bits : List Char) (e : Int) (h : isBin bits) :
    frame neg bits e ≠ ['0'] ∧ frame neg bits e ≠ ['-', 'i', 'n', 'f'] ∧ frame neg bits e ≠ ['i', 'n', 'f'] ∧
    frame neg bits e ≠ ['n', 'a', 'n'] ∧
    ((frame neg bits e).head? = some '-') = (neg = true) ∧
    (if neg then (frame neg bits e).drop 1 else frame neg bits e) = frameBody bits e ∧
    indexP (frameBody bits e) = some (mantStr bits).length ∧
    (frameBody bits e).drop ((mantStr bits).length + 1) = showExp e ∧
    (frameBody bits e).take (mantStr bits).length = mantStr bits := by
  obtain ⟨r, hr⟩ := mantStr_head bits
  have hb : frameBody bits e = '1' :: (r ++ 'p' :: showExp e) := by unfold frameBody; rw [hr]; rfl
  refine ⟨?_, ?_, ?_, ?_, ?_, ?_, ?_, ?_, ?_⟩
  · unfold frame; rw [hb]; cases neg <;> simp
  · unfold frame; rw [hb]; cases neg <;> simp
  · unfold frame; rw [hb]; cases neg <;> simp
  · unfold frame; rw [hb]; cases neg <;> simp
  · unfold frame; rw [hb]; cases neg <;> simp
  · unfold frame; cases neg <;> simp
  · unfold frameBody; exact indexP_append _ _ (p_notin_mantStr bits h)
  · unfold frameBody
    rw [List.drop_append]
    have e1 : (mantStr bits).length + 1 - (mantStr bits).length = 1 := by omega
    rw [e1, List.drop_of_length_le (by omega)]
    rfl
  · unfold frameBody; exact List.take_left' rfl

/-- the arithmetic tail of `bin2float` once the string has been taken apart -/
def b2fCore (f : Fmt) (isneg : Bool) (bits : List Char) (e : Int) : Except Err Nat :=
  let sw := f.p - 1
  let W : Nat := 2 ^ f.width
  let s : Int := (sw : Int) - bits.length
  let bits := if e ≤ 0 then '1' :: bits else bits
  let s := if e ≤ 0 then s - 1 else s
  match parseBin bits with
  | none => .error .valueError
  | some v =>
    if v < 0 ∨ v ≥ (W : Int) then .error .overflowError
    else if s < 0 then .error .overflowError
    else
      let sig := (v.toNat * 2 ^ s.toNat) % W
      if e ≤ 0 then
        if (-e).toNat ≥ W then .error .overflowError
        else
          let ivalue := sig / 2 ^ (-e).toNat
          .ok (if isneg then negBits f ivalue else ivalue)
      else if e.toNat * 2 ^ sw ≥ W then .error .overflowError
      else
        let ivalue := (sig + e.toNat * 2 ^ sw) % W
        .ok (if isneg then negBits f ivalue else ivalue)

theorem mantStr_bits (bits : List Char) :
    (if (mantStr bits).take 2 = ['1', '.'] then some ((mantStr bits).drop 2)
     else if mantStr bits = ['1'] then some ['0'] else none) = some (if bits = [] then ['0'] else bits) := by
  unfold mantStr
  by_cases h : bits = []
  · simp [h]
  · simp [h]

theorem bin2float_frame (f : Fmt) (neg : Bool) (bits : List Char) (e : Int) (h : isBin bits) :
    bin2float f (frame neg bits e) = b2fCore f neg (if bits = [] then ['0'] else bits) (e + 2 ^ (f.ew - 1) - 1) := by
  obtain ⟨h0, h1, h2, h3, h4, h5, h6, h7, h8⟩ := frame_parse neg bits e h
  unfold bin2float
  have t1 : "-inf".toList = ['-', 'i', 'n', 'f'] := by decide
  have t2 : "inf".toList = ['i', 'n', 'f'] := by decide
  have t3 : "nan".toList = ['n', 'a', 'n'] := by decide
  rw [t1, t2, t3, if_neg h0, if_neg h1, if_neg h2, if_neg h3]
  simp only [h4]
  have hdrop : (if neg = true then List.drop 1 (frame neg bits e) else frame neg bits e) = frameBody bits e := by
    cases neg
    · simpa using h5
    · simpa using h5
  simp only [hdrop, h6, h7, parseInt_showExp, h8, mantStr_bits]
  cases neg <;> rfl

theorem parseBin_isBin (l : List Char) (hne : l ≠ []) (h : isBin l) : parseBin l = some (binVal l : Int) := by
  cases l with
  | nil => exact absurd rfl hne
  | cons c r =>
    have hc := h c (by simp)
    have hp := parseBinNat_isBin (c :: r) hne h
    rcases hc with rfl | rfl
    · unfold parseBin; simp [hp]
    · unfold parseBin; simp [hp]

theorem valueOfBin_frame (neg : Bool) (bits : List Char) (e : Int) (h : isBin bits) :
    valueOfBin (frame neg bits e) =
      some ((if neg then -1 else 1) * ((binVal ('1' :: bits) : Nat) : Rat) * pow2 (e - bits.length)) := by
  obtain ⟨h0, h1, h2, h3, h4, h5, h6, h7, h8⟩ := frame_parse neg bits e h
  unfold valueOfBin
  rw [if_neg h0]
  simp only [h4]
  have hdrop : (if neg = true then List.drop 1 (frame neg bits e) else frame neg bits e) = frameBody bits e := by
    cases neg
    · simpa using h5
    · simpa using h5
  have hm : (if (mantStr bits).take 2 = ['1', '.'] then some ((mantStr bits).drop 2)
     else if mantStr bits = ['1'] then some [] else none) = some bits := by
    unfold mantStr
    by_cases hb : bits = []
    · simp [hb]
    · simp [hb]
  have hbin1 : isBin ('1' :: bits) := by
    intro c hc
    simp only [List.mem_cons] at hc
    rcases hc with rfl | hc
    · right; rfl
    · exact h c hc
  simp only [hdrop, h6, h7, parseInt_showExp, h8, hm, parseBinNat_isBin _ (List.cons_ne_nil _ _) hbin1]

end FAVerif.Conv
