/-
Lemmas for C08 (static types = run-time dtypes).  Core Lean only.
  * lattice laws of `Ty.max`, `complexPart` / `complexify`
  * the Typing induction: per-node agreement ⇒ whole-graph agreement (`agree_of_allOK`)
  * from table facts (checked by `decide` on the regenerated tables) to per-node agreement (`allOK_of_covered`)
-/
import FAVerif.Models.Typing

namespace FAVerif.Typing

/-! ## Lattice -/

def TKind.rank : TKind → Nat
  | .boolean => 0 | .integer => 1 | .float => 2 | .complex => 3

/-- maximum of optional widths, `none` (unsized) below every width -/
def omax : Option Nat → Option Nat → Option Nat
  | none, y => y
  | x, none => x
  | some x, some y => some (max x y)

theorem omax_comm (x y : Option Nat) : omax x y = omax y x := by
  cases x <;> cases y <;> simp [omax, Nat.max_comm]

theorem omax_idem (x : Option Nat) : omax x x = x := by
  cases x <;> simp [omax]

theorem omax_assoc (x y z : Option Nat) : omax (omax x y) z = omax x (omax y z) := by
  cases x <;> cases y <;> cases z <;> simp [omax, Nat.max_assoc]

theorem TKind.beq_iff (a b : TKind) : a.beq b = true ↔ a = b := by
  cases a <;> cases b <;> simp [TKind.beq]

theorem obeq_iff (a b : Option Nat) : obeq a b = true ↔ a = b := by
  cases a <;> cases b <;> simp [obeq]

theorem Ty.beq_iff (a b : Ty) : a.beq b = true ↔ a = b := by
  obtain ⟨ka, ba⟩ := a
  obtain ⟨kb, bb⟩ := b
  simp [Ty.beq, TKind.beq_iff, obeq_iff]

theorem tysBeq_iff : ∀ (a b : List Ty), tysBeq a b = true ↔ a = b
  | [], [] => by simp [tysBeq]
  | [], _ :: _ => by simp [tysBeq]
  | _ :: _, [] => by simp [tysBeq]
  | x :: xs, y :: ys => by simp [tysBeq, Ty.beq_iff, tysBeq_iff xs ys]

theorem Kind.beq_iff (a b : Kind) : a.beq b = true ↔ a = b := by
  cases a <;> cases b <;> simp [Kind.beq, Kind.ctorIdx]

theorem VC.beq_iff (a b : VC) : a.beq b = true ↔ a = b := by
  cases a <;> cases b <;> simp [VC.beq, VC.ctorIdx]

/-- `Type.max` in closed form: the operand of the larger kind wins outright; within one kind the widths are
maximised with "unsized" at the bottom.  (So an operand of a smaller kind, or an unsized one, never contributes.) -/
theorem Ty.max_eq (a b : Ty) :
    a.max b = if a.kind.rank < b.kind.rank then b
              else if b.kind.rank < a.kind.rank then a
              else ⟨a.kind, omax a.bits b.bits⟩ := by
  obtain ⟨ka, ba⟩ := a
  obtain ⟨kb, bb⟩ := b
  cases ka <;> cases kb <;> cases ba <;> cases bb <;>
    simp [Ty.max, Ty.beq, Ty.cand, TKind.beq, obeq, maxBits, omax, TKind.rank] <;>
    (intro h; simp [h])

theorem Ty.max_comm (a b : Ty) : a.max b = b.max a := by
  rw [Ty.max_eq, Ty.max_eq]
  obtain ⟨ka, ba⟩ := a
  obtain ⟨kb, bb⟩ := b
  cases ka <;> cases kb <;> simp [TKind.rank, omax_comm]

theorem Ty.max_idem (a : Ty) : a.max a = a := by
  have : a.beq a = true := (Ty.beq_iff a a).mpr rfl
  simp [Ty.max, this]

theorem Ty.max_assoc (a b c : Ty) : (a.max b).max c = a.max (b.max c) := by
  obtain ⟨ka, ba⟩ := a
  obtain ⟨kb, bb⟩ := b
  obtain ⟨kc, bc⟩ := c
  cases ka <;> cases kb <;> cases kc <;> simp [Ty.max_eq, TKind.rank, omax_assoc]

/-- the order of the semilattice -/
def Ty.le (a b : Ty) : Prop := a.max b = b

theorem Ty.max_mono (a b c : Ty) (h : Ty.le a b) : Ty.le (a.max c) (b.max c) := by
  unfold Ty.le at *
  calc (a.max c).max (b.max c) = a.max (c.max (b.max c)) := Ty.max_assoc ..
    _ = a.max ((c.max b).max c) := by rw [Ty.max_assoc]
    _ = a.max ((b.max c).max c) := by rw [Ty.max_comm c b]
    _ = a.max (b.max (c.max c)) := by rw [Ty.max_assoc]
    _ = a.max (b.max c) := by rw [Ty.max_idem]
    _ = (a.max b).max c := (Ty.max_assoc ..).symm
    _ = b.max c := by rw [h]

theorem Ty.le_max_left (a b : Ty) : Ty.le a (a.max b) := by
  unfold Ty.le; rw [← Ty.max_assoc, Ty.max_idem]

theorem Ty.le_max_right (a b : Ty) : Ty.le b (a.max b) := by
  unfold Ty.le; rw [Ty.max_comm a b, ← Ty.max_assoc, Ty.max_idem]

theorem Ty.max_valid (a b : Ty) (ha : a.valid = true) (hb : b.valid = true) : (a.max b).valid = true := by
  rw [Ty.max_eq]
  split
  · exact hb
  · split
    · exact ha
    · obtain ⟨ka, ba⟩ := a
      obtain ⟨kb, bb⟩ := b
      cases ba with
      | none => cases bb <;> simp_all [Ty.valid, omax]
      | some x =>
        cases bb with
        | none => simp_all [Ty.valid, omax]
        | some y =>
          simp only [Ty.valid, omax] at *
          rcases Nat.le_total x y with h | h
          · rw [Nat.max_eq_right h]; exact hb
          · rw [Nat.max_eq_left h]; exact ha

theorem validBits_cases {n : Nat} (h : validBits (some n) = true) :
    n = 1 ∨ n = 8 ∨ n = 16 ∨ n = 32 ∨ n = 64 ∨ n = 128 ∨ n = 256 ∨ n = 512 := by
  simpa [validBits, or_assoc] using h

/-- `complex_part` is a float type whose width is half the complex width. -/
theorem complexPart_halves (t u : Ty) (h : t.complexPart = some u) :
    t.kind = .complex ∧ u.kind = .float ∧ u.bits = t.bits.map (· / 2) := by
  unfold Ty.complexPart Ty.mk? at h
  split at h
  · rename_i hk
    split at h
    · cases h; exact ⟨(TKind.beq_iff _ _).mp hk, rfl, rfl⟩
    · cases h
  · cases h

/-- `complex_part` undoes complexification (the `complex` branch of get_type) on every valid float type. -/
theorem complexPart_complexify (t c : Ty) (hk : t.kind = .float) (hv : t.valid = true) (h : t.complexify = some c) :
    c.complexPart = some t := by
  obtain ⟨k, bits⟩ := t
  simp only at hk; subst hk
  unfold Ty.complexify Ty.mk? at h
  split at h
  · cases h
    cases bits with
    | none => simp [Ty.complexPart, Ty.mk?, validBits, TKind.beq]
    | some n =>
      have : n * 2 / 2 = n := by omega
      simp only [Ty.valid] at hv
      simp [Ty.complexPart, Ty.mk?, this, TKind.beq, hv]
  · cases h

/-- and complexification undoes `complex_part` wherever `complex_part` is defined. -/
theorem complexify_complexPart (c t : Ty) (hv : c.valid = true) (h : c.complexPart = some t) : t.complexify = some c := by
  obtain ⟨k, bits⟩ := c
  unfold Ty.complexPart Ty.mk? at h
  split at h
  · rename_i hk
    have hk' := (TKind.beq_iff _ _).mp hk
    simp only at hk'; subst hk'
    split at h
    · rename_i hb
      cases h
      cases bits with
      | none => simp [Ty.complexify, Ty.mk?, validBits]
      | some n =>
        simp only [Option.map_some] at hb
        simp only [Ty.valid] at hv
        have hn := validBits_cases hv
        have hh := validBits_cases hb
        have : n / 2 * 2 = n := by omega
        simp [Ty.complexify, Ty.mk?, this, hv]
    · cases h
  · cases h

/-! ## The Typing induction: per-node agreement ⇒ whole-graph agreement -/

section Induction
variable (np : NP) (canon : Ty → Option Ty)

/-- Agreement of one operation row under the oracle: whenever the node is typed and the code produces a single
dtype on operands carrying the printed dtypes of their static types, that dtype is the printed static type. -/
def OpAgree (k : Kind) (idx : Nat) (ts : List Ty) : Prop :=
  ∀ t ds d, nodeTy k (ts.map some) = some t → allSome (ts.map canon) = some ds →
    single (if k.isCast then np.cast k idx ts else np.op k idx ds) = some d → canon t = some d

def SymAgree (t : Ty) : Prop := ∀ d, single (np.symbol t) = some d → canon t = some d
def ConstAgree (vc : VC) (t : Ty) : Prop := ∀ d, single (np.const vc t) = some d → canon t = some d

/-- Per-node obligation, given the static types of the earlier nodes. -/
def NodeOK (senv : List (Option Ty)) : Node → Prop
  | .symbol t => SymAgree np canon t
  | .const vc l => ∀ t, senv.getD l none = some t → ConstAgree np canon vc t
  | .op k idx as => ∃ ts : List Ty, as.map (fun a => senv.getD a none) = ts.map some ∧ OpAgree np canon k idx ts

def AllOK : List (Option Ty) → List Node → Prop
  | _, [] => True
  | senv, n :: ns => NodeOK np canon senv n ∧ AllOK (senv ++ [nodeStatic senv n]) ns

/-- Invariant of the two forward passes. -/
def Inv (senv denv : List (Option Ty)) : Prop :=
  senv.length = denv.length ∧
  ∀ j t d, senv.getD j none = some t → denv.getD j none = some d → canon t = some d

theorem getD_append_one (l : List (Option Ty)) (x : Option Ty) (j : Nat) :
    (l ++ [x]).getD j none = if j < l.length then l.getD j none else if j = l.length then x else none := by
  simp only [List.getD_eq_getElem?_getD, List.getElem?_append]
  split
  · rfl
  · rename_i h
    split
    · rename_i h2; subst h2; simp
    · rename_i h2
      have : j - l.length ≠ 0 := by omega
      cases hj : j - l.length with
      | zero => omega
      | succ m => simp

theorem allSome_canon_of_inv {senv denv : List (Option Ty)} (hI : Inv canon senv denv) :
    ∀ (as : List Nat) (ts ds : List Ty),
      as.map (fun a => senv.getD a none) = ts.map some →
      allSome (as.map (fun a => denv.getD a none)) = some ds →
      allSome (ts.map canon) = some ds := by
  intro as
  induction as with
  | nil =>
    intro ts ds h1 h2
    cases ts with
    | nil => simpa [allSome] using h2
    | cons _ _ => simp at h1
  | cons a as ih =>
    intro ts ds h1 h2
    cases ts with
    | nil => simp at h1
    | cons t ts =>
      simp only [List.map_cons, List.cons.injEq] at h1
      obtain ⟨h1a, h1b⟩ := h1
      simp only [List.map_cons] at h2 ⊢
      cases hd : denv.getD a none with
      | none => rw [hd] at h2; simp [allSome] at h2
      | some d =>
        rw [hd] at h2
        simp only [allSome] at h2
        cases hrest : allSome (as.map (fun a => denv.getD a none)) with
        | none => rw [hrest] at h2; simp at h2
        | some ds' =>
          rw [hrest] at h2
          simp only [Option.map_some, Option.some.injEq] at h2
          subst h2
          have hc := hI.2 a t d h1a hd
          have := ih ts ds' h1b hrest
          rw [hc]
          simp only [allSome, this, Option.map_some]

theorem node_step {senv denv : List (Option Ty)} (hI : Inv canon senv denv) (n : Node) (hn : NodeOK np canon senv n) :
    ∀ t d, nodeStatic senv n = some t → nodeDyn np senv denv n = some d → canon t = some d := by
  intro t d hs hd
  cases n with
  | symbol t' =>
    simp only [nodeStatic, Option.some.injEq] at hs; subst hs
    exact hn d hd
  | const vc l =>
    simp only [nodeStatic] at hs
    simp only [nodeDyn, hs] at hd
    exact hn t hs d hd
  | op k idx as =>
    obtain ⟨ts, hts, hop⟩ := hn
    simp only [nodeStatic, hts] at hs
    simp only [nodeDyn] at hd
    cases hm : allSome (as.map (fun a => denv.getD a none)) with
    | none => rw [hm] at hd; simp at hd
    | some ds =>
      rw [hm] at hd
      simp only [Option.bind_some] at hd
      refine hop t ds d hs (allSome_canon_of_inv canon hI as ts ds hts hm) ?_
      by_cases hk : k.isCast = true
      · simp only [hk, if_true] at hd ⊢
        rw [hts] at hd
        have : allSome (ts.map some) = some ts := by
          clear hts hs hop hd
          induction ts with
          | nil => rfl
          | cons x xs ih => simp [allSome, ih]
        rw [this] at hd
        exact hd
      · simp only [hk] at hd ⊢
        exact hd

theorem inv_step {senv denv : List (Option Ty)} (hI : Inv canon senv denv) (n : Node) (hn : NodeOK np canon senv n) :
    Inv canon (senv ++ [nodeStatic senv n]) (denv ++ [nodeDyn np senv denv n]) := by
  refine ⟨by simp [hI.1], ?_⟩
  intro j t d hs hd
  rw [getD_append_one] at hs hd
  rw [← hI.1] at hd
  by_cases h1 : j < senv.length
  · simp only [h1, if_true] at hs hd
    exact hI.2 j t d hs hd
  · by_cases h2 : j = senv.length
    · simp only [h2, if_true, Nat.lt_irrefl, if_false] at hs hd
      exact node_step np canon hI n hn t d hs hd
    · simp [h1, h2] at hs

theorem inv_all : ∀ (ns : List Node) (senv denv : List (Option Ty)), Inv canon senv denv → AllOK np canon senv ns →
    Inv canon (staticFrom senv ns) (dynFrom np senv denv ns) := by
  intro ns
  induction ns with
  | nil => intro senv denv hI _; exact hI
  | cons n ns ih =>
    intro senv denv hI hall
    obtain ⟨hn, hrest⟩ := hall
    exact ih _ _ (inv_step np canon hI n hn) hrest

/-- **Typing induction.**  If every node of a graph meets its per-node obligation, then at EVERY node the dtype
the code produces (when it produces one) is the dtype its static type is printed as. -/
theorem agree_of_allOK (g : Graph) (h : AllOK np canon [] g) :
    ∀ i t d, staticTy g i = some t → dynTy np g i = some d → canon t = some d :=
  (inv_all np canon g [] [] ⟨rfl, by intro j t d hs; simp at hs⟩ h).2

end Induction

/-! ## From table facts to per-node obligations -/

theorem Status.isDisagree_iff (s : Status) : s.isDisagree = true ↔ s = .disagree := by
  cases s <;> simp [Status.isDisagree]

theorem Status.isAgree_iff (s : Status) : s.isAgree = true ↔ s = .agree := by
  cases s <;> simp [Status.isAgree]

theorem otyBeq_iff (a b : Option Ty) : otyBeq a b = true ↔ a = b := by
  cases a <;> cases b <;> simp [otyBeq, Ty.beq_iff]

theorem oboolBeq_iff (a b : Option Bool) : oboolBeq a b = true ↔ a = b := by
  cases a <;> cases b <;> simp [oboolBeq]

/-- Row facts, checked by `decide +kernel` on the regenerated tables: `T.allRows modelRow` (the hand port agrees with the
real `get_type` / `is_complex` on every row) and `T.allRows T.rowCheck` (per-row agreement). -/
def Tables.rowsOK (T : Tables) : Prop := T.allRows modelRow = true ∧ T.allRows T.rowCheck = true

theorem allRows_mem (T : Tables) (f : SRow → Bool) (h : T.allRows f = true) : ∀ r ∈ T.static, f r = true := by
  intro r hr
  unfold Tables.static at hr
  obtain ⟨k, hk, hrk⟩ := List.mem_flatMap.mp hr
  exact List.all_eq_true.mp (List.all_eq_true.mp h k hk) r hrk

/-- Leaf facts: an argument cast / a printed constant yields the dtype the (like's) static type is printed as,
or raises; the static type of a constant is its like's type. -/
def okObs (T : Tables) (t : Ty) (obs : List Ty) : Bool :=
  match obs with
  | [] => true
  | [d] => otyBeq (T.canonTy t) (some d)
  | _ => false

def Tables.leavesOK (T : Tables) : Bool :=
  T.symbols.all (fun r => okObs T r.ty r.obs) &&
  T.consts.all (fun r => okObs T r.like r.obs && (otyBeq r.ty (some r.like) || otyBeq r.ty none))

/-- Decidable coverage of one node: its row is in the table, is a well-typed use, has no known deviation, and its
static type (if any) can be printed. -/
def Tables.nodeCovered (T : Tables) (senv : List (Option Ty)) : Node → Bool
  | .symbol t => T.symbols.any (fun r => r.ty.beq t)
  | .const vc l =>
    match senv.getD l none with
    | some t => T.consts.any (fun r => r.vc.beq vc && r.like.beq t)
    | none => true
  | .op k idx as =>
    match allSome (as.map (fun a => senv.getD a none)) with
    | none => false
    | some ts =>
      T.kinds.any (·.beq k) && (T.rowAt k idx ts).isSome &&
      wtRow k ts && (cause k idx ts).isNone &&
      (match nodeTy k (ts.map some) with | some t => (T.canonTy t).isSome | none => true)

def Tables.coveredFrom (T : Tables) : List (Option Ty) → List Node → Bool
  | _, [] => true
  | senv, n :: ns => T.nodeCovered senv n && T.coveredFrom (senv ++ [nodeStatic senv n]) ns

/-- every node of the graph is covered (see `nodeCovered`) -/
def Tables.covered (T : Tables) (g : Graph) : Bool := T.coveredFrom [] g

theorem find?_obs_single {α} (l : List α) (p : α → Bool) (f : α → List Ty) (d : Ty)
    (h : single (((l.find? p).map f).getD []) = some d) : ∃ r ∈ l, p r = true ∧ f r = [d] := by
  cases hf : l.find? p with
  | none => simp [hf, single] at h
  | some r =>
    simp only [hf, Option.map_some, Option.getD_some] at h
    refine ⟨r, List.mem_of_find?_eq_some hf, List.find?_some hf, ?_⟩
    unfold single at h
    split at h
    · rename_i heq
      simp only [Option.some.injEq] at h
      subst h
      exact heq
    · cases h

theorem allSome_eq_some {l : List (Option Ty)} {ts : List Ty} (h : allSome l = some ts) : l = ts.map some := by
  induction l generalizing ts with
  | nil => simp [allSome] at h; subst h; rfl
  | cons x xs ih =>
    cases x with
    | none => simp [allSome] at h
    | some v =>
      simp only [allSome] at h
      cases hx : allSome xs with
      | none => rw [hx] at h; simp at h
      | some vs =>
        rw [hx] at h
        simp only [Option.map_some, Option.some.injEq] at h
        subst h
        simp [ih hx]

/-- a row found by position is a row of the table with the requested key -/
theorem rowAt_mem (T : Tables) (k : Kind) (idx : Nat) (ts : List Ty) (r : SRow) (hk : k ∈ T.kinds)
    (h : T.rowAt k idx ts = some r) : r ∈ T.static ∧ r.kind = k ∧ r.idx = idx ∧ r.args = ts := by
  unfold Tables.rowAt at h
  cases hcs : allSome (ts.map T.ucode) with
  | none => rw [hcs] at h; simp at h
  | some cs =>
    rw [hcs] at h
    simp only [Option.bind_some] at h
    split at h
    · rename_i r' hget
      split at h
      · rename_i hkey
        simp only [Option.some.injEq] at h
        subst h
        simp only [Bool.and_eq_true, beq_iff_eq] at hkey
        obtain ⟨⟨h1, h2⟩, h3⟩ := hkey
        refine ⟨?_, (Kind.beq_iff _ _).mp h1, h2, (tysBeq_iff _ _).mp h3⟩
        unfold Tables.static
        exact List.mem_flatMap.mpr ⟨k, hk, List.mem_of_getElem? hget⟩
      · cases h
    · cases h

theorem partial_of_rowCheck (T : Tables) (r : SRow) (h : T.rowCheck r = true) (hwt : wtRow r.kind r.args = true)
    (hc : cause r.kind r.idx r.args = none) : T.status r ≠ .disagree := by
  intro hd
  simp [Tables.rowCheck, hwt, hd, hc] at h

theorem exact_of_rowCheck (T : Tables) (r : SRow) (h : T.rowCheck r = true) (hwt : wtRow r.kind r.args = true)
    (hst : T.status r = .agree ∨ T.status r = .disagree) :
    (T.status r = .disagree ↔ (cause r.kind r.idx r.args).isSome = true) := by
  rcases hst with hst | hst <;> simp [Tables.rowCheck, hwt, hst] at h ⊢
  · cases hc : cause r.kind r.idx r.args <;> simp_all
  · exact h

theorem opAgree_of_row (T : Tables) (hrows : T.rowsOK) (k : Kind) (idx : Nat) (ts : List Ty)
    (hk : T.kinds.any (·.beq k) = true) (hrow : (T.rowAt k idx ts).isSome = true)
    (hwt : wtRow k ts = true) (hc : (cause k idx ts).isNone = true)
    (hp : (match nodeTy k (ts.map some) with | some t => (T.canonTy t).isSome | none => true) = true) :
    OpAgree T.toNP T.canonTy k idx ts := by
  intro t ds d hty hds hsingle
  have hk' : k ∈ T.kinds := by
    obtain ⟨k', hk1, hk2⟩ := List.any_eq_true.mp hk
    rw [(Kind.beq_iff _ _).mp hk2] at hk1; exact hk1
  obtain ⟨r, hr⟩ := Option.isSome_iff_exists.mp hrow
  obtain ⟨hmem, hrk, hri, hra⟩ := rowAt_mem T k idx ts r hk' hr
  have hmodel := allRows_mem T modelRow hrows.1 r hmem
  simp only [modelRow, Bool.and_eq_true] at hmodel
  have hmodel := (otyBeq_iff _ _).mp hmodel.1
  have hcheck := allRows_mem T T.rowCheck hrows.2 r hmem
  rw [hrk, hra] at hmodel
  rw [hty] at hmodel hp
  have hnd0 : T.status r ≠ .disagree :=
    partial_of_rowCheck T r hcheck (by rw [hrk, hra]; exact hwt)
      (by rw [hrk, hri, hra]; exact Option.isNone_iff_eq_none.mp hc)
  have hnd : (T.status r).isDisagree = false := by
    cases hs : T.status r <;> simp_all [Status.isDisagree]
  -- unfold the status of the row
  unfold Tables.status at hnd
  rw [← hmodel] at hnd
  simp only at hnd
  cases hct : T.canonTy t with
  | none => simp [hct] at hp
  | some ct =>
    simp only [hct] at hnd
    rw [hra, hds, hrk, hri] at hnd
    simp only [Option.bind_some] at hnd
    have hop : (if k.isCast then T.toNP.cast k idx ts else T.toNP.op k idx ds) = (T.npLookup k idx ds).getD [] := by
      by_cases hkc : k.isCast = true
      · simp only [hkc, if_true]
        show ((allSome (ts.map T.canonTy)).bind (T.npLookup k idx)).getD [] = _
        rw [hds]; rfl
      · simp only [hkc]; rfl
    rw [hop] at hsingle
    cases hl : T.npLookup k idx ds with
    | none => simp [hl, single] at hsingle
    | some obs =>
      simp only [hl, Option.getD_some] at hsingle
      simp only [hl] at hnd
      unfold single at hsingle
      split at hsingle
      · rename_i d'
        simp only [Option.some.injEq] at hsingle
        subst hsingle
        simp only at hnd
        by_cases hcd : ct.beq d' = true
        · rw [(Ty.beq_iff _ _).mp hcd]
        · simp [hcd, Status.isDisagree] at hnd
      · cases hsingle

theorem nodeOK_of_covered (T : Tables) (hrows : T.rowsOK) (hleaves : T.leavesOK = true)
    (senv : List (Option Ty)) (n : Node) (h : T.nodeCovered senv n = true) : NodeOK T.toNP T.canonTy senv n := by
  unfold Tables.leavesOK at hleaves
  simp only [Bool.and_eq_true] at hleaves
  obtain ⟨hsym, hconst⟩ := hleaves
  cases n with
  | symbol t =>
    intro d hd
    obtain ⟨r, hr, hp, hobs⟩ := find?_obs_single T.symbols (fun r => r.ty.beq t) (·.obs) d hd
    have := List.all_eq_true.mp hsym r hr
    rw [hobs, (Ty.beq_iff _ _).mp hp] at this
    exact (otyBeq_iff _ _).mp this
  | const vc l =>
    intro t ht d hd
    obtain ⟨r, hr, hp, hobs⟩ := find?_obs_single T.consts (fun r => r.vc.beq vc && r.like.beq t) (·.obs) d hd
    have := List.all_eq_true.mp hconst r hr
    simp only [Bool.and_eq_true] at hp this
    rw [hobs, (Ty.beq_iff _ _).mp hp.2] at this
    exact (otyBeq_iff _ _).mp this.1
  | op k idx as =>
    simp only [Tables.nodeCovered] at h
    cases hm : allSome (as.map (fun a => senv.getD a none)) with
    | none => rw [hm] at h; simp at h
    | some ts =>
      rw [hm] at h
      simp only [Bool.and_eq_true] at h
      obtain ⟨⟨⟨⟨hk, hrow⟩, hwt⟩, hc⟩, hp⟩ := h
      exact ⟨ts, allSome_eq_some hm, opAgree_of_row T hrows k idx ts hk hrow hwt hc hp⟩

theorem allOK_of_covered (T : Tables) (hrows : T.rowsOK) (hleaves : T.leavesOK = true) :
    ∀ (ns : List Node) (senv : List (Option Ty)), T.coveredFrom senv ns = true → AllOK T.toNP T.canonTy senv ns := by
  intro ns
  induction ns with
  | nil => intro _ _; trivial
  | cons n ns ih =>
    intro senv h
    simp only [Tables.coveredFrom, Bool.and_eq_true] at h
    exact ⟨nodeOK_of_covered T hrows hleaves senv n h.1, ih _ h.2⟩

/-- **Whole-graph agreement from the tables.** -/
theorem agree_of_covered (T : Tables) (hrows : T.rowsOK) (hleaves : T.leavesOK = true) (g : Graph)
    (hc : T.covered g = true) :
    ∀ i t d, staticTy g i = some t → dynTy T.toNP g i = some d → T.canonTy t = some d :=
  agree_of_allOK T.toNP T.canonTy g (allOK_of_covered T hrows hleaves g [] hc)

end FAVerif.Typing
