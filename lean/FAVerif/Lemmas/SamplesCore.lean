/-
Helper lemmas for C19, part 1: the stepping core over ℕ, insertion sort / dedup (`numpy.unique`),
the `Adj` (adjacent-elements) predicate, linear-arithmetic case lemmas for the bit-pattern
primitives, and preservation of the result properties (`ResOK`) by `finish`.  Core Lean only.
-/
import FAVerif.Models.Samples
namespace FAVerif.Samples

/-- element `i` of the stepping comprehension, without wrap-around -/
def seqAt (start step n i : Nat) : Nat := start + i * step / (n - 1)

theorem seqAt_zero (start step n : Nat) : seqAt start step n 0 = start := by
  simp [seqAt]

theorem seqAt_last (start step n : Nat) (hn : 2 ≤ n) : seqAt start step n (n - 1) = start + step := by
  unfold seqAt
  rw [Nat.mul_comm, Nat.mul_div_cancel _ (by omega : 0 < n - 1)]

theorem seqAt_mono (start step n : Nat) {i j : Nat} (h : i ≤ j) : seqAt start step n i ≤ seqAt start step n j := by
  unfold seqAt
  exact Nat.add_le_add_left (Nat.div_le_div_right (Nat.mul_le_mul_right _ h)) _

/-- the gap between consecutive elements is `⌊step/(n-1)⌋` or that plus one -/
theorem seqAt_succ (start step n i : Nat) (hn : 2 ≤ n) :
    seqAt start step n (i + 1) = seqAt start step n i + step / (n - 1) ∨
    seqAt start step n (i + 1) = seqAt start step n i + step / (n - 1) + 1 := by
  unfold seqAt
  have hm : 0 < n - 1 := by omega
  generalize n - 1 = m at hm
  have hs : step / m * m + step % m = step := Nat.div_add_mod' step m
  have hr : step % m < m := Nat.mod_lt _ hm
  have h1 : (i + 1) * step = (i * step + step % m) + (step / m) * m := by
    rw [Nat.add_mul, Nat.one_mul]; omega
  rw [h1, Nat.add_mul_div_right _ _ hm]
  have h2 : i * step / m ≤ (i * step + step % m) / m := Nat.div_le_div_right (Nat.le_add_right _ _)
  have h3 : (i * step + step % m) / m ≤ i * step / m + 1 := by
    have : (i * step + step % m) / m ≤ (i * step + m) / m := Nat.div_le_div_right (by omega)
    rwa [Nat.add_div_right _ hm] at this
  omega

theorem seqAt_strict_iff (start step n : Nat) (hn : 2 ≤ n) :
    (∀ i, i + 1 < n → seqAt start step n i < seqAt start step n (i + 1)) ↔ n - 1 ≤ step := by
  constructor
  · intro h
    have h0 := h 0 (by omega)
    unfold seqAt at h0
    simp only [Nat.zero_mul, Nat.zero_div, Nat.zero_add, Nat.one_mul, Nat.add_zero] at h0
    have : 0 < step / (n - 1) := by omega
    exact Nat.le_of_lt_succ (by
      rcases Nat.lt_or_ge step (n - 1) with hlt | hge
      · rw [Nat.div_eq_of_lt hlt] at this; omega
      · omega)
  · intro h i _
    have hq : 1 ≤ step / (n - 1) := (Nat.le_div_iff_mul_le (by omega)).2 (by omega)
    rcases seqAt_succ start step n i hn with e | e <;> omega

theorem seqAt_gaps (start step n i j : Nat) (hn : 2 ≤ n) :
    seqAt start step n (i + 1) - seqAt start step n i ≤ seqAt start step n (j + 1) - seqAt start step n j + 1 := by
  rcases seqAt_succ start step n i hn with e | e <;> rcases seqAt_succ start step n j hn with e' | e' <;> omega

/-- adjacent elements are related -/
def Adj {α} (R : α → α → Prop) : List α → Prop
  | [] => True
  | [_] => True
  | a :: b :: l => R a b ∧ Adj R (b :: l)

def Sorted (c : Cfg) (l : List Nat) : Prop := l.Pairwise (fun a b => skey c a ≤ skey c b)
def StrictSorted (c : Cfg) (l : List Nat) : Prop := l.Pairwise (fun a b => skey c a < skey c b)

theorem mem_ins (c : Cfg) (x y : Nat) (l : List Nat) : y ∈ ins c x l ↔ y = x ∨ y ∈ l := by
  induction l with
  | nil => simp [ins]
  | cons a l ih =>
    unfold ins
    split
    · simp
    · simp [ih]; constructor <;> (intro h; rcases h with h | h | h <;> simp [h])

theorem mem_isort (c : Cfg) (y : Nat) (l : List Nat) : y ∈ isort c l ↔ y ∈ l := by
  induction l with
  | nil => simp [isort]
  | cons a l ih =>
    have : isort c (a :: l) = ins c a (isort c l) := rfl
    rw [this, mem_ins, ih]; simp

theorem sorted_ins (c : Cfg) (x : Nat) (l : List Nat) (h : Sorted c l) : Sorted c (ins c x l) := by
  induction l with
  | nil => simp [ins, Sorted]
  | cons a l ih =>
    unfold ins
    unfold Sorted at h ih ⊢
    rw [List.pairwise_cons] at h
    split
    · rename_i hle
      rw [List.pairwise_cons]
      refine ⟨?_, List.pairwise_cons.2 h⟩
      intro b hb
      rcases List.mem_cons.1 hb with rfl | hb
      · exact hle
      · exact Int.le_trans hle (h.1 b hb)
    · rename_i hnle
      rw [List.pairwise_cons]
      refine ⟨?_, ih h.2⟩
      intro b hb
      rcases (mem_ins c x b l).1 hb with rfl | hb
      · omega
      · exact h.1 b hb

theorem sorted_isort (c : Cfg) (l : List Nat) : Sorted c (isort c l) := by
  induction l with
  | nil => simp [isort, Sorted]
  | cons a l ih => exact sorted_ins c a _ ih

theorem isort_of_sorted (c : Cfg) (l : List Nat) (h : Sorted c l) : isort c l = l := by
  induction l with
  | nil => rfl
  | cons a l ih =>
    unfold Sorted at h ih
    rw [List.pairwise_cons] at h
    have e : isort c (a :: l) = ins c a (isort c l) := rfl
    rw [e, ih h.2]
    cases l with
    | nil => rfl
    | cons b l => unfold ins; rw [if_pos (h.1 b (List.mem_cons_self ..))]

theorem dedup_cons (c : Cfg) (x : Nat) (l : List Nat) : dedup c (x :: l) = dedupStep c x (dedup c l) := rfl

theorem dedup_head (c : Cfg) (x : Nat) (l : List Nat) : ∃ r, dedup c (x :: l) = x :: r := by
  rw [dedup_cons]; unfold dedupStep; split
  · exact ⟨_, rfl⟩
  · split <;> exact ⟨_, rfl⟩

theorem mem_dedup (c : Cfg) (y : Nat) (l : List Nat) (h : y ∈ dedup c l) : y ∈ l := by
  induction l generalizing y with
  | nil => simp [dedup] at h
  | cons a l ih =>
    rw [dedup_cons] at h
    unfold dedupStep at h
    split at h
    · simp at h; simp [h]
    · rename_i z r hz
      split at h
      · rcases List.mem_cons.1 h with rfl | h
        · simp
        · exact List.mem_cons_of_mem _ (ih _ (by rw [hz]; exact List.mem_cons_of_mem _ h))
      · rcases List.mem_cons.1 h with rfl | h
        · simp
        · exact List.mem_cons_of_mem _ (ih _ (by rw [hz]; exact h))

theorem dedup_key (c : Cfg) (y : Nat) (l : List Nat) (h : y ∈ l) : ∃ z ∈ dedup c l, skey c z = skey c y := by
  induction l with
  | nil => simp at h
  | cons a l ih =>
    rw [dedup_cons]
    rcases List.mem_cons.1 h with rfl | h
    · obtain ⟨r, hr⟩ := dedup_head c y l
      rw [dedup_cons] at hr
      exact ⟨y, by rw [hr]; simp, rfl⟩
    · obtain ⟨z, hz, hk⟩ := ih h
      unfold dedupStep
      split
      · rename_i e; rw [e] at hz; simp at hz
      · rename_i w r e
        rw [e] at hz
        split
        · rename_i hk'
          rcases List.mem_cons.1 hz with rfl | hz
          · exact ⟨a, by simp, by rw [hk', hk]⟩
          · exact ⟨z, by simp [hz], hk⟩
        · exact ⟨z, List.mem_cons_of_mem _ hz, hk⟩

theorem strict_dedup (c : Cfg) (l : List Nat) (h : Sorted c l) : StrictSorted c (dedup c l) := by
  induction l with
  | nil => simp [dedup, StrictSorted]
  | cons a l ih =>
    unfold Sorted at h ih
    rw [List.pairwise_cons] at h
    have ih := ih h.2
    rw [dedup_cons]
    unfold dedupStep
    split
    · simp [StrictSorted]
    · rename_i w r e
      rw [e] at ih
      unfold StrictSorted at ih ⊢
      rw [List.pairwise_cons] at ih
      have hw : w ∈ l := mem_dedup c w l (by rw [e]; simp)
      have haw := h.1 w hw
      split
      · rename_i hk
        rw [List.pairwise_cons]
        exact ⟨fun b hb => by rw [hk]; exact ih.1 b hb, ih.2⟩
      · rename_i hk
        rw [List.pairwise_cons]
        refine ⟨?_, List.pairwise_cons.2 ih⟩
        intro b hb
        rcases List.mem_cons.1 hb with rfl | hb
        · omega
        · have := ih.1 b hb; omega

theorem mem_uniq (c : Cfg) (y : Nat) (l : List Nat) (h : y ∈ uniq c l) : y ∈ l :=
  (mem_isort c y l).1 (mem_dedup c y _ h)

theorem uniq_key (c : Cfg) (y : Nat) (l : List Nat) (h : y ∈ l) : ∃ z ∈ uniq c l, skey c z = skey c y :=
  dedup_key c y _ ((mem_isort c y l).2 h)

theorem strict_uniq (c : Cfg) (l : List Nat) : StrictSorted c (uniq c l) :=
  strict_dedup c _ (sorted_isort c l)

theorem uniq_of_sorted (c : Cfg) (l : List Nat) (h : Sorted c l) : uniq c l = dedup c l := by
  unfold uniq; rw [isort_of_sorted c l h]

/-! Adj -/
theorem adj_of_index {α} (R : α → α → Prop) (l : List α)
    (h : ∀ i (hi : i + 1 < l.length), R (l[i]'(by omega)) l[i + 1]) : Adj R l := by
  induction l with
  | nil => trivial
  | cons a l ih =>
    cases l with
    | nil => trivial
    | cons b l =>
      refine ⟨h 0 (by simp), ih ?_⟩
      intro i hi
      exact h (i + 1) (by simp at hi ⊢; omega)

theorem adj_index {α} (R : α → α → Prop) (l : List α) (h : Adj R l) :
    ∀ i (hi : i + 1 < l.length), R (l[i]'(by omega)) l[i + 1] := by
  induction l with
  | nil => intro i hi; simp at hi
  | cons a l ih =>
    cases l with
    | nil => intro i hi; simp at hi
    | cons b l =>
      intro i hi
      cases i with
      | zero => exact h.1
      | succ i => exact ih h.2 i (by simp at hi ⊢; omega)

theorem adj_imp {α} {R S : α → α → Prop} (l : List α) (hRS : ∀ a b, R a b → S a b) (h : Adj R l) : Adj S l := by
  induction l with
  | nil => trivial
  | cons a l ih =>
    cases l with
    | nil => trivial
    | cons b l => exact ⟨hRS _ _ h.1, ih h.2⟩

theorem adj_map {α β} {R : α → α → Prop} {S : β → β → Prop} (f : α → β) (l : List α)
    (hRS : ∀ a b, R a b → S (f a) (f b)) (h : Adj R l) : Adj S (l.map f) := by
  induction l with
  | nil => trivial
  | cons a l ih =>
    cases l with
    | nil => trivial
    | cons b l => exact ⟨hRS _ _ h.1, ih h.2⟩

theorem adj_append {α} {R : α → α → Prop} (l₁ l₂ : List α) (h₁ : Adj R l₁) (h₂ : Adj R l₂)
    (hx : ∀ a ∈ l₁, ∀ b ∈ l₂, R a b) : Adj R (l₁ ++ l₂) := by
  induction l₁ with
  | nil => exact h₂
  | cons a l ih =>
    cases l with
    | nil =>
      cases l₂ with
      | nil => trivial
      | cons b l₂ => exact ⟨hx a (by simp) b (by simp), h₂⟩
    | cons b l =>
      exact ⟨h₁.1, ih h₁.2 (fun x hx' y hy => hx x (List.mem_cons_of_mem _ hx') y hy)⟩

theorem adj_reverse {α} {R : α → α → Prop} (l : List α) (h : Adj R l) : Adj (fun a b => R b a) l.reverse := by
  apply adj_of_index
  intro i hi
  have hl : i + 1 < l.length := by simpa using hi
  simp only [List.getElem_reverse]
  have := adj_index R l h (l.length - 1 - (i + 1)) (by omega)
  have e : l.length - 1 - (i + 1) + 1 = l.length - 1 - i := by omega
  simp only [e] at this
  exact this

theorem adj_dedup (c : Cfg) {R : Nat → Nat → Prop} (l : List Nat)
    (hc : ∀ x y z, skey c x = skey c y → R x y → R y z → R x z) (h : Adj R l) : Adj R (dedup c l) := by
  induction l with
  | nil => trivial
  | cons a l ih =>
    cases l with
    | nil => simp [dedup, dedupStep, Adj]
    | cons b l =>
      have ih := ih h.2
      obtain ⟨r, hr⟩ := dedup_head c b l
      rw [dedup_cons, hr]
      rw [hr] at ih
      show Adj R (if skey c a = skey c b then a :: r else a :: b :: r)
      split
      · cases r with
        | nil => trivial
        | cons z r => exact ⟨hc _ _ _ (by assumption) h.1 ih.1, ih.2⟩
      · exact ⟨h.1, ih⟩

/-! ### bit-pattern facts: linear-arithmetic characterisations, to be used with `rcases … <;> omega` -/

theorem skey_cases (c : Cfg) (b : Nat) :
    (b < c.sb ∧ b ≤ c.inf ∧ isNaN c b = false ∧ skey c b = (b : Int)) ∨
    (b < c.sb ∧ c.inf < b ∧ isNaN c b = true ∧ skey c b = 2 * (c.sb : Int)) ∨
    (c.sb ≤ b ∧ b ≤ c.sb + c.inf ∧ isNaN c b = false ∧ skey c b = (c.sb : Int) - (b : Int)) ∨
    (c.sb ≤ b ∧ c.sb + c.inf < b ∧ isNaN c b = true ∧ skey c b = 2 * (c.sb : Int)) := by
  by_cases h : b < c.sb
  · by_cases h2 : b ≤ c.inf
    · left; refine ⟨h, h2, ?_, ?_⟩ <;> simp [skey, isNaN, mag, key, h] <;> omega
    · right; left; refine ⟨h, by omega, ?_, ?_⟩ <;> simp [skey, isNaN, mag, h] <;> omega
  · by_cases h2 : b ≤ c.sb + c.inf
    · right; right; left; refine ⟨by omega, h2, ?_, ?_⟩ <;> simp [skey, isNaN, mag, key, h] <;> omega
    · right; right; right; refine ⟨by omega, by omega, ?_, ?_⟩ <;> simp [skey, isNaN, mag, h] <;> omega

theorem flush1_cases (c : Cfg) (b : Nat) :
    (flush1 c b = b ∧ isSubnormal c b = false ∧
        ((b < c.sb ∧ (b = 0 ∨ c.mn ≤ b)) ∨ (c.sb ≤ b ∧ (b = c.sb ∨ c.sb + c.mn ≤ b)))) ∨
    (0 < b ∧ b < c.mn ∧ b < c.sb ∧ isSubnormal c b = true ∧ flush1 c b = 0) ∨
    (c.sb < b ∧ b < c.sb + c.mn ∧ isSubnormal c b = true ∧ flush1 c b = c.sb) := by
  by_cases h : b < c.sb
  · by_cases h2 : 0 < b ∧ b < c.mn
    · right; left; refine ⟨h2.1, h2.2, h, ?_, ?_⟩ <;> simp [flush1, isSubnormal, mag, h, h2]
    · left; refine ⟨?_, ?_, ?_⟩
      · simp [flush1, isSubnormal, mag, h]; omega
      · simp [isSubnormal, mag, h]; omega
      · omega
  · by_cases h2 : c.sb < b ∧ b < c.sb + c.mn
    · right; right; refine ⟨h2.1, h2.2, ?_, ?_⟩
      · simp [isSubnormal, mag, h]; omega
      · simp [flush1, isSubnormal, mag, h, Cfg.negZero]; omega
    · left; refine ⟨?_, ?_, ?_⟩
      · simp [flush1, isSubnormal, mag, h]; omega
      · simp [isSubnormal, mag, h]; omega
      · omega

theorem flush1_not_subnormal (c : Cfg) (hwf : c.WF) (b : Nat) : isSubnormal c (flush1 c b) = false := by
  have := hwf.mn_pos
  rcases flush1_cases c b with ⟨e, h, _⟩ | ⟨_, _, _, _, e⟩ | ⟨_, _, _, e⟩
  · rw [e]; exact h
  · rw [e]; simp [isSubnormal, mag]
  · rw [e]; simp [isSubnormal, mag]

theorem flush1_of_not_subnormal (c : Cfg) {b : Nat} (h : isSubnormal c b = false) : flush1 c b = b := by
  simp [flush1, h]

theorem skey_zero (c : Cfg) (hwf : c.WF) : skey c 0 = 0 := by
  have := hwf.inf_sb
  rcases skey_cases c 0 with ⟨_, _, _, e⟩ | ⟨_, _, _, e⟩ | ⟨_, _, _, e⟩ | ⟨_, _, _, e⟩ <;> omega

theorem skey_negZero (c : Cfg) (hwf : c.WF) : skey c c.sb = 0 := by
  have := hwf.inf_sb
  rcases skey_cases c c.sb with ⟨_, _, _, e⟩ | ⟨_, _, _, e⟩ | ⟨_, _, _, e⟩ | ⟨_, _, _, e⟩ <;> omega

theorem flush1_mono (c : Cfg) (hwf : c.WF) {a b : Nat} (h : skey c a ≤ skey c b) :
    skey c (flush1 c a) ≤ skey c (flush1 c b) := by
  have h1 := hwf.mn_inf
  have h2 := hwf.inf_sb
  have h3 := hwf.mn_pos
  have z1 := skey_zero c hwf
  have z2 := skey_negZero c hwf
  rcases flush1_cases c a with ⟨fa, _, _⟩ | ⟨_, _, _, _, fa⟩ | ⟨_, _, _, fa⟩ <;>
  rcases flush1_cases c b with ⟨fb, _, _⟩ | ⟨_, _, _, _, fb⟩ | ⟨_, _, _, fb⟩ <;>
  rw [fa, fb] <;>
  rcases skey_cases c a with ⟨_, _, _, ea⟩ | ⟨_, _, _, ea⟩ | ⟨_, _, _, ea⟩ | ⟨_, _, _, ea⟩ <;>
  rcases skey_cases c b with ⟨_, _, _, eb⟩ | ⟨_, _, _, eb⟩ | ⟨_, _, _, eb⟩ | ⟨_, _, _, eb⟩ <;>
  omega


/-- positive finite nonzero patterns are determined by their sort key -/
theorem eq_of_skey_eq_pos (c : Cfg) (_h : c.inf < c.sb) {x y : Nat} (hx0 : 0 < x) (hx : x < c.inf)
    (hk : skey c x = skey c y) : y = x := by
  rcases skey_cases c x with ⟨_, _, _, ex⟩ | ⟨_, _, _, ex⟩ | ⟨_, _, _, ex⟩ | ⟨_, _, _, ex⟩ <;>
  rcases skey_cases c y with ⟨_, _, _, ey⟩ | ⟨_, _, _, ey⟩ | ⟨_, _, _, ey⟩ | ⟨_, _, _, ey⟩ <;> omega

theorem eq_of_skey_eq_neg (c : Cfg) (_h : c.inf < c.sb) {x y : Nat} (hx0 : c.sb < x) (hx : x < c.sb + c.inf)
    (hk : skey c x = skey c y) : y = x := by
  rcases skey_cases c x with ⟨_, _, _, ex⟩ | ⟨_, _, _, ex⟩ | ⟨_, _, _, ex⟩ | ⟨_, _, _, ex⟩ <;>
  rcases skey_cases c y with ⟨_, _, _, ey⟩ | ⟨_, _, _, ey⟩ | ⟨_, _, _, ey⟩ | ⟨_, _, _, ey⟩ <;> omega

/-! ### `finish` (post-flush + unique) preserves the result properties -/

/-- spacing of positive finite nonzero neighbours: the gap in bit patterns is `q` or `q + 1` -/
def GapPos (c : Cfg) (q a b : Nat) : Prop :=
  0 < a → a < c.inf → 0 < b → b < c.inf → (b = a + q ∨ b = a + q + 1)
/-- spacing of negative finite nonzero neighbours (ascending in value = descending in pattern) -/
def GapNeg (c : Cfg) (q a b : Nat) : Prop :=
  c.sb < a → a < c.sb + c.inf → c.sb < b → b < c.sb + c.inf → (a = b + q ∨ a = b + q + 1)
def Gap (c : Cfg) (qn qp a b : Nat) : Prop := GapNeg c qn a b ∧ GapPos c qp a b

/-- what the post-flush does to one element -/
def fl (c : Cfg) (p : Params) (b : Nat) : Nat := if p.includeSubnormal then b else flush1 c b

theorem finish_eq (c : Cfg) (p : Params) (L : List Nat) :
    finish c p L = if p.unique then uniq c (L.map (fl c p)) else L.map (fl c p) := by
  unfold finish fl flush
  cases p.includeSubnormal <;> simp

theorem fl_mono (c : Cfg) (hwf : c.WF) (p : Params) {a b : Nat} (h : skey c a ≤ skey c b) :
    skey c (fl c p a) ≤ skey c (fl c p b) := by
  unfold fl; split
  · exact h
  · exact flush1_mono c hwf h

theorem fl_key_congr (c : Cfg) (hwf : c.WF) (p : Params) {a b : Nat} (h : skey c a = skey c b) :
    skey c (fl c p a) = skey c (fl c p b) :=
  Int.le_antisymm (fl_mono c hwf p (by omega)) (fl_mono c hwf p (by omega))

theorem fl_cases (c : Cfg) (p : Params) (b : Nat) : fl c p b = b ∨ fl c p b = 0 ∨ fl c p b = c.sb := by
  unfold fl; split
  · left; rfl
  · rcases flush1_cases c b with ⟨e, _⟩ | ⟨_, _, _, _, e⟩ | ⟨_, _, _, e⟩ <;> simp [e]

theorem gap_fl (c : Cfg) (hwf : c.WF) (p : Params) (qn qp a b : Nat) (h : Gap c qn qp a b) :
    Gap c qn qp (fl c p a) (fl c p b) := by
  have := hwf.inf_sb
  rcases fl_cases c p a with ea | ea | ea <;> rcases fl_cases c p b with eb | eb | eb <;> rw [ea, eb] <;>
    first
    | exact h
    | (constructor <;> intro h1 h2 h3 h4 <;> omega)

theorem gap_compat (c : Cfg) (hwf : c.WF) (qn qp x y z : Nat) (hk : skey c x = skey c y)
    (_hxy : Gap c qn qp x y) (hyz : Gap c qn qp y z) : Gap c qn qp x z := by
  have hi : c.inf < c.sb := by have := hwf.inf_sb; omega
  constructor
  · intro h1 h2 h3 h4
    have := eq_of_skey_eq_neg c hi h1 h2 hk
    subst this; exact hyz.1 h1 h2 h3 h4
  · intro h1 h2 h3 h4
    have := eq_of_skey_eq_pos c hi h1 h2 hk
    subst this; exact hyz.2 h1 h2 h3 h4

/-- Everything the property asks of a list of samples relative to the bounds `lo`, `hi`
(stated with the sort key; `lo`, `hi` are not NaN where this is used). -/
structure ResOK (c : Cfg) (lo hi qn qp : Nat) (L : List Nat) : Prop where
  sorted : Sorted c L
  range : ∀ x ∈ L, skey c lo ≤ skey c x ∧ skey c x ≤ skey c hi
  has_lo : ∃ y ∈ L, skey c y = skey c lo
  has_hi : ∃ y ∈ L, skey c y = skey c hi
  gaps : Adj (Gap c qn qp) L

theorem sorted_of_strict (c : Cfg) (L : List Nat) (h : StrictSorted c L) : Sorted c L :=
  List.Pairwise.imp (fun h => Int.le_of_lt h) h

theorem finish_ok (c : Cfg) (hwf : c.WF) (p : Params) (lo hi qn qp : Nat) (L : List Nat)
    (h : ResOK c lo hi qn qp L) (hlo : fl c p lo = lo) (hhi : fl c p hi = hi) :
    ResOK c lo hi qn qp (finish c p L) ∧ (p.unique = true → StrictSorted c (finish c p L)) := by
  have hM : ResOK c lo hi qn qp (L.map (fl c p)) := by
    refine ⟨?_, ?_, ?_, ?_, ?_⟩
    · unfold Sorted; rw [List.pairwise_map]
      exact List.Pairwise.imp (fun h => fl_mono c hwf p h) h.sorted
    · intro x hx
      obtain ⟨y, hy, rfl⟩ := List.mem_map.1 hx
      have := h.range y hy
      have a := fl_mono c hwf p this.1
      have b := fl_mono c hwf p this.2
      rw [hlo] at a; rw [hhi] at b; exact ⟨a, b⟩
    · obtain ⟨y, hy, hk⟩ := h.has_lo
      exact ⟨fl c p y, List.mem_map.2 ⟨y, hy, rfl⟩, by rw [fl_key_congr c hwf p hk, hlo]⟩
    · obtain ⟨y, hy, hk⟩ := h.has_hi
      exact ⟨fl c p y, List.mem_map.2 ⟨y, hy, rfl⟩, by rw [fl_key_congr c hwf p hk, hhi]⟩
    · exact adj_map (fl c p) L (fun a b hab => gap_fl c hwf p qn qp a b hab) h.gaps
  rw [finish_eq]
  cases hu : p.unique with
  | false => simp only [Bool.false_eq_true, if_false]; exact ⟨hM, by intro h; cases h⟩
  | true =>
    simp only [if_true]
    have hs := strict_uniq c (L.map (fl c p))
    refine ⟨⟨sorted_of_strict c _ hs, ?_, ?_, ?_, ?_⟩, fun _ => hs⟩
    · intro x hx; exact hM.range x (mem_uniq c x _ hx)
    · obtain ⟨y, hy, hk⟩ := hM.has_lo
      obtain ⟨z, hz, hk'⟩ := uniq_key c y _ hy
      exact ⟨z, hz, by rw [hk', hk]⟩
    · obtain ⟨y, hy, hk⟩ := hM.has_hi
      obtain ⟨z, hz, hk'⟩ := uniq_key c y _ hy
      exact ⟨z, hz, by rw [hk', hk]⟩
    · rw [uniq_of_sorted c _ hM.sorted]
      exact adj_dedup c _ (fun x y z hk hxy hyz => gap_compat c hwf qn qp x y z hk hxy hyz) hM.gaps

/-! ### float comparisons in terms of the sort key -/

theorem skey_eq_key (c : Cfg) {b : Nat} (h : isNaN c b = false) : skey c b = key c b := by
  simp [skey, h]

theorem fle_iff (c : Cfg) (a b : Nat) :
    fle c a b = true ↔ isNaN c a = false ∧ isNaN c b = false ∧ skey c a ≤ skey c b := by
  unfold fle
  cases ha : isNaN c a <;> cases hb : isNaN c b <;> simp [skey_eq_key, ha, hb]

theorem flt_iff (c : Cfg) (a b : Nat) :
    flt c a b = true ↔ isNaN c a = false ∧ isNaN c b = false ∧ skey c a < skey c b := by
  unfold flt
  cases ha : isNaN c a <;> cases hb : isNaN c b <;> simp [skey_eq_key, ha, hb]

theorem feq_iff (c : Cfg) (a b : Nat) :
    feq c a b = true ↔ isNaN c a = false ∧ isNaN c b = false ∧ skey c a = skey c b := by
  unfold feq
  cases ha : isNaN c a <;> cases hb : isNaN c b <;> simp [skey_eq_key, ha, hb]

theorem fle_false_of_lt (c : Cfg) {a b : Nat} (h : skey c b < skey c a) : fle c a b = false := by
  cases hf : fle c a b with
  | false => rfl
  | true => have := ((fle_iff c a b).1 hf).2.2; omega

theorem feq_false_of_ne (c : Cfg) {a b : Nat} (h : skey c a ≠ skey c b) : feq c a b = false := by
  cases hf : feq c a b with
  | false => rfl
  | true => exact absurd ((feq_iff c a b).1 hf).2.2 h

theorem flt_false_of_le (c : Cfg) {a b : Nat} (h : skey c b ≤ skey c a) : flt c a b = false := by
  cases hf : flt c a b with
  | false => rfl
  | true => have := ((flt_iff c a b).1 hf).2.2; omega

/-! ### the stepping list without wrap-around -/

def steps (start step n : Nat) : List Nat := (List.range n).map (seqAt start step n)

theorem stepVals_ok (c : Cfg) (start step : Nat) (num : Int) (h2 : 2 ≤ num) (hb : start + step < c.modulus) :
    stepVals c start step num = .ok (steps start step num.toNat) := by
  unfold stepVals steps
  rw [if_neg (by omega), if_neg (by omega)]
  congr 1
  apply List.map_congr_left
  intro k hk
  have hk' : k < num.toNat := List.mem_range.1 hk
  have hn : 2 ≤ num.toNat := by omega
  have h1 : seqAt start step num.toNat k ≤ seqAt start step num.toNat (num.toNat - 1) := seqAt_mono _ _ _ (by omega)
  rw [seqAt_last _ _ _ hn] at h1
  exact Nat.mod_eq_of_lt (by unfold seqAt at h1; omega)

theorem mem_steps (start step n : Nat) (hn : 2 ≤ n) {x : Nat} (h : x ∈ steps start step n) :
    start ≤ x ∧ x ≤ start + step := by
  obtain ⟨k, hk, rfl⟩ := List.mem_map.1 h
  have hk' : k < n := List.mem_range.1 hk
  have h1 : seqAt start step n k ≤ seqAt start step n (n - 1) := seqAt_mono _ _ _ (by omega)
  rw [seqAt_last _ _ _ hn] at h1
  exact ⟨Nat.le_add_right _ _, h1⟩

theorem first_mem_steps (start step n : Nat) (hn : 2 ≤ n) : start ∈ steps start step n :=
  List.mem_map.2 ⟨0, List.mem_range.2 (by omega), seqAt_zero _ _ _⟩

theorem last_mem_steps (start step n : Nat) (hn : 2 ≤ n) : start + step ∈ steps start step n :=
  List.mem_map.2 ⟨n - 1, List.mem_range.2 (by omega), seqAt_last _ _ _ hn⟩

theorem steps_length (start step n : Nat) : (steps start step n).length = n := by simp [steps]

theorem steps_adj (start step n : Nat) (hn : 2 ≤ n) :
    Adj (fun a b => b = a + step / (n - 1) ∨ b = a + step / (n - 1) + 1) (steps start step n) := by
  apply adj_of_index
  intro i hi
  simp only [steps, List.getElem_map, List.getElem_range]
  exact seqAt_succ start step n i hn

theorem steps_pairwise (start step n : Nat) : (steps start step n).Pairwise (· ≤ ·) := by
  unfold steps
  rw [List.pairwise_map]
  exact List.Pairwise.imp (fun h => seqAt_mono _ _ _ (Nat.le_of_lt h)) List.pairwise_lt_range


end FAVerif.Samples
