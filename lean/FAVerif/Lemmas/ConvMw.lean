/-
Helper lemmas for C13, part 8: a mantissa chunk is a float (`chunk_float`), bit slicing of
`mpf2multiword`.
-/
import FAVerif.Lemmas.ConvExp
import FAVerif.Lemmas.ConvBin2

namespace FAVerif.Conv
open FAVerif.FP

/-! ### patterns with the sign bit set -/

theorem fields_add_signBit (f : Fmt) (hp : 1 ≤ f.p) (x : Nat) (hx : x < f.signBit) :
    fields f (f.signBit + x) = ⟨true, (fields f x).e, (fields f x).m⟩ ∧ (fields f x).sign = false := by
  have hs := signBit_eq f hp
  unfold fields
  rw [hs] at hx ⊢
  generalize 2 ^ f.fracBits = A at *
  generalize 2 ^ f.ew = B at *
  have hA : 0 < A := by
    rcases Nat.eq_zero_or_pos A with h | h
    · subst h; simp at hx
    · exact h
  have hB : 0 < B := by
    rcases Nat.eq_zero_or_pos B with h | h
    · subst h; simp at hx
    · exact h
  have hBA : 0 < B * A := Nat.mul_pos hB hA
  have h0 : x / (B * A) = 0 := Nat.div_eq_of_lt hx
  have h1 : (B * A + x) / (B * A) = 1 := by
    rw [Nat.add_div_left _ hBA, h0]
  have h2 : (B * A + x) / A = B + x / A := by
    rw [Nat.mul_comm B A, Nat.mul_add_div hA]
  have h3 : (B * A + x) % A = x % A := by
    rw [Nat.mul_comm B A, Nat.mul_add_mod]
  rw [h1, h2, h3, Nat.add_mod_left, h0]
  simp

theorem decode_eq_of_fields (f : Fmt) (b b' : Nat) (h1 : (fields f b').e = (fields f b).e)
    (h2 : (fields f b').m = (fields f b).m) (s : Bool) (m : Nat) (e : Int) (hd : decode f b = .fin s m e) :
    decode f b' = .fin (fields f b').sign m e := by
  unfold decode at hd ⊢
  simp only at hd ⊢
  rw [h1, h2]
  by_cases c1 : (fields f b).e = f.expMax
  · simp only [c1, if_true] at hd
    split at hd <;> cases hd
  · simp only [c1, if_false] at hd ⊢
    by_cases c2 : (fields f b).e = 0
    · simp only [c2, if_true] at hd ⊢
      injection hd with _ hm he
      rw [hm, he]
    · simp only [c2, if_false] at hd ⊢
      injection hd with _ hm he
      rw [hm, he]

/-- decode of a signed packed float -/
theorem decode_pack (f : Fmt) (hew : 2 ≤ f.ew) (hp : 1 ≤ f.p) (s : Bool) (m : Nat) (e : Int) (hwf : WF f m e) :
    decode f ((if s then f.signBit else 0) + packMag f m e) = .fin s m e ∧
    (if s then f.signBit else 0) + packMag f m e < 2 ^ f.width ∧
    isFiniteBits f ((if s then f.signBit else 0) + packMag f m e) = true := by
  have hpf := packMag_facts f hew hp m e hwf
  have hsb := signBit_lt_W f hp
  have hw2 := width_pow f hp
  -- decode of the magnitude
  have hmag : decode f (packMag f m e) = .fin false m e ∧ (fields f (packMag f m e)).e ≠ f.expMax := by
    by_cases hsub : m < 2 ^ (f.p - 1)
    · have hpm : packMag f m e = m := by unfold packMag; simp [hsub]
      have hF := packMag_sub_facts f hew hp m hsub
      have hE3 := expMax_ge f hew
      rw [hpm]
      have hne : (fields f m).e ≠ f.expMax := by rw [hF]; simp; omega
      refine ⟨?_, hne⟩
      have := decode_sub f m hne (by rw [hF])
      rw [this, hF]
      rcases hwf.norm with h | h
      · omega
      · rw [h]
    · have hn : 2 ^ (f.p - 1) ≤ m := by omega
      have hd := decode_packMag_normal f hew hp m e hwf hn
      refine ⟨hd.1, ?_⟩
      intro hc
      have := hd.2.2
      unfold isInfb at this
      have hnan := hd.2.1
      unfold isNaNb at hnan
      rw [hc] at this hnan
      simp at this hnan
      exact this hnan
  cases s
  · simp only [Bool.false_eq_true, if_false, Nat.zero_add]
    refine ⟨hmag.1, by omega, ?_⟩
    rw [isFiniteBits_iff]; exact hmag.2
  · simp only [if_true]
    obtain ⟨hF, _⟩ := fields_add_signBit f hp _ hpf.2.2
    refine ⟨?_, by omega, ?_⟩
    · have := decode_eq_of_fields f (packMag f m e) (f.signBit + packMag f m e) (by rw [hF]) (by rw [hF]) _ _ _ hmag.1
      rw [this, hF]
    · rw [isFiniteBits_iff, hF]; exact hmag.2

theorem packMag_ne_zero (f : Fmt) (m : Nat) (e : Int) (hm : m ≠ 0) (hwf : WF f m e) : packMag f m e ≠ 0 := by
  unfold packMag
  split
  · exact hm
  · rename_i h
    have hpos := Nat.two_pow_pos (f.p - 1)
    have hge := hwf.ge
    have : 1 ≤ (e - f.emin + 1).toNat := by omega
    have : 2 ^ (f.p - 1) ≤ (e - f.emin + 1).toNat * 2 ^ (f.p - 1) := Nat.le_mul_of_pos_left _ (by omega)
    omega

/-- what `mpf2float` (support port) returns on the canonical tuple of a well-formed float -/
theorem wf_float (f : Fmt) (hew : 2 ≤ f.ew) (hp : 1 ≤ f.p) (hpm : f.p ≤ 2 ^ (f.ew - 1)) (s : Bool) (m : Nat) (e : Int)
    (hm : m ≠ 0) (hwf : WF f m e) :
    GoodWord f (mpf2floatC f (canonT (sgnNat s) m e)) ∧
    gridInt f (mpf2floatC f (canonT (sgnNat s) m e)) = (if s then -1 else 1) * ((m * 2 ^ (e - f.emin).toNat : Nat) : Int) ∧
    mpf2floatC f (canonT (sgnNat s) m e) % f.signBit ≠ 0 := by
  rw [mpf2floatC_canon f hew hp hpm s m e hwf hm]
  obtain ⟨hd, hlt, hfin⟩ := decode_pack f hew hp s m e hwf
  have hpf := packMag_facts f hew hp m e hwf
  refine ⟨⟨hlt, hfin⟩, ?_, ?_⟩
  · unfold gridInt
    rw [finParts_of_decode _ _ _ _ _ hd]
  · have hne := packMag_ne_zero f m e hm hwf
    cases s
    · simp only [Bool.false_eq_true, if_false, Nat.zero_add]
      rw [Nat.mod_eq_of_lt hpf.2.2]; exact hne
    · simp only [if_true]
      rw [Nat.add_mod_left, Nat.mod_eq_of_lt hpf.2.2]; exact hne

/-- **a mantissa chunk is a float**: `c·2^E` with at most `p` bits, inside the exponent range. -/
theorem chunk_float (f : Fmt) (hew : 2 ≤ f.ew) (hp : 1 ≤ f.p) (hpm : f.p ≤ 2 ^ (f.ew - 1)) (s : Bool) (c : Nat) (E : Int)
    (hc : c ≠ 0) (hL : bitLen c ≤ f.p) (hE : f.emin ≤ E) (htop : E + bitLen c ≤ maxexp f) :
    GoodWord f (mpf2floatC f (canonT (sgnNat s) c E)) ∧
    gridInt f (mpf2floatC f (canonT (sgnNat s) c E)) = (if s then -1 else 1) * ((c * 2 ^ (E - f.emin).toNat : Nat) : Int) ∧
    mpf2floatC f (canonT (sgnNat s) c E) % f.signBit ≠ 0 := by
  have hLpos := bitLen_pos c hc
  have hemax := emaxUlp_maxexp f hew hp
  have hpp := pow_p_eq f hp
  by_cases hA : f.emin ≤ E - ((f.p - bitLen c : Nat) : Int)
  · -- normal form
    obtain ⟨k, hk⟩ : ∃ k, k = f.p - bitLen c := ⟨_, rfl⟩
    rw [← hk] at hA
    have hm' : c * 2 ^ k ≠ 0 := by
      have := Nat.two_pow_pos k
      intro hz; rcases Nat.mul_eq_zero.mp hz with h' | h' <;> omega
    have hwf : WF f (c * 2 ^ k) (E - k) := by
      refine ⟨?_, hA, Or.inl ?_, ?_⟩
      · calc c * 2 ^ k < 2 ^ bitLen c * 2 ^ k := Nat.mul_lt_mul_of_lt_of_le (lt_pow_bitLen c) (Nat.le_refl _) (Nat.two_pow_pos _)
          _ = 2 ^ f.p := by rw [← Nat.pow_add]; congr 1; omega
      · calc 2 ^ (f.p - 1) = 2 ^ (bitLen c - 1) * 2 ^ k := by rw [← Nat.pow_add]; congr 1; omega
          _ ≤ c * 2 ^ k := Nat.mul_le_mul_right _ (pow_bitLen_le c hc)
      · rw [hemax]; omega
    have hcan : canonT (sgnNat s) c E = canonT (sgnNat s) (c * 2 ^ k) (E - k) := by
      rw [canonT_shift _ _ _ _ hc]; congr 1; omega
    rw [hcan]
    obtain ⟨h1, h2, h3⟩ := wf_float f hew hp hpm s _ _ hm' hwf
    refine ⟨h1, ?_, h3⟩
    rw [h2]
    congr 2
    rw [Nat.mul_assoc, ← Nat.pow_add]
    congr 2; omega
  · -- subnormal form
    obtain ⟨k, hk⟩ : ∃ k : Nat, (k : Int) = E - f.emin := ⟨(E - f.emin).toNat, by omega⟩
    have hm' : c * 2 ^ k ≠ 0 := by
      have := Nat.two_pow_pos k
      intro hz; rcases Nat.mul_eq_zero.mp hz with h' | h' <;> omega
    have hwf : WF f (c * 2 ^ k) f.emin := by
      have hlt : c * 2 ^ k < 2 ^ (f.p - 1) := by
        calc c * 2 ^ k < 2 ^ bitLen c * 2 ^ k := Nat.mul_lt_mul_of_lt_of_le (lt_pow_bitLen c) (Nat.le_refl _) (Nat.two_pow_pos _)
          _ = 2 ^ (bitLen c + k) := by rw [← Nat.pow_add]
          _ ≤ 2 ^ (f.p - 1) := Nat.pow_le_pow_right (by omega) (by omega)
      refine ⟨by omega, Int.le_refl _, Or.inr rfl, ?_⟩
      rw [hemax]
      have := two_pow_ew_pos f hew
      have he := emin_eq f
      have hmx : maxexp f = 2 ^ (f.ew - 1) := rfl
      have hfb : f.fracBits = f.p - 1 := rfl
      generalize 2 ^ (f.ew - 1) = K at *
      rw [he, hmx, hfb]; omega
    have hcan : canonT (sgnNat s) c E = canonT (sgnNat s) (c * 2 ^ k) f.emin := by
      rw [canonT_shift _ _ _ _ hc]; congr 1; omega
    rw [hcan]
    obtain ⟨h1, h2, h3⟩ := wf_float f hew hp hpm s _ _ hm' hwf
    refine ⟨h1, ?_, h3⟩
    rw [h2]
    have e1 : (f.emin - f.emin).toNat = 0 := by omega
    have e2 : (E - f.emin).toNat = k := by omega
    rw [e1, e2]; simp

/-! ### bit slicing -/

theorem mod_split (x a b : Nat) : x % 2 ^ (a + b) = (x / 2 ^ a % 2 ^ b) * 2 ^ a + x % 2 ^ a := by
  rw [Nat.pow_add, Nat.mod_mul]; ring

theorem div_pow_sub (man o d : Nat) (h : d ≤ o) : man / 2 ^ (o - d) / 2 ^ d = man / 2 ^ o := by
  rw [Nat.div_div_eq_div_mul, ← Nat.pow_add]; congr 2; omega

/-- the "skip heading zero bits" step: shifting a window with `d` leading zeros down by `d` -/
theorem adjust_window (man o w : Nat) (hw : 1 ≤ w)
    (hne : man / 2 ^ o % 2 ^ w ≠ 0) (hdo : w - bitLen (man / 2 ^ o % 2 ^ w) ≤ o) :
    let d := w - bitLen (man / 2 ^ o % 2 ^ w)
    bitLen (man / 2 ^ (o - d) % 2 ^ w) = w ∧ man % 2 ^ (o + w) = man % 2 ^ (o - d + w) := by
  intro d
  obtain ⟨m1, hm1⟩ : ∃ m1, m1 = man / 2 ^ o % 2 ^ w := ⟨_, rfl⟩
  have hm1lt : m1 < 2 ^ w := by rw [hm1]; exact Nat.mod_lt _ (Nat.two_pow_pos _)
  have hL : bitLen m1 ≤ w := bitLen_le_of_lt _ _ hm1lt
  have hLpos : 1 ≤ bitLen m1 := bitLen_pos _ (by rw [hm1]; exact hne)
  have hd : d = w - bitLen m1 := by rw [hm1]
  have hdw : d + bitLen m1 = w := by omega
  -- the shifted window
  have hx := mod_split (man / 2 ^ (o - d)) d (w - d)
  have e1 : d + (w - d) = w := by omega
  rw [e1, div_pow_sub man o d (by rw [hd]; rw [hm1]; exact hdo)] at hx
  have hy : man / 2 ^ o % 2 ^ (w - d) = m1 := by
    have h1 : m1 % 2 ^ (w - d) = man / 2 ^ o % 2 ^ (w - d) := by
      rw [hm1]; exact Nat.mod_mod_of_dvd _ (Nat.pow_dvd_pow 2 (by omega))
    have h2 : m1 < 2 ^ (w - d) := by
      have : w - d = bitLen m1 := by omega
      rw [this]; exact lt_pow_bitLen m1
    rw [← h1, Nat.mod_eq_of_lt h2]
  rw [hy] at hx
  obtain ⟨r, hr⟩ : ∃ r, r = man / 2 ^ (o - d) % 2 ^ d := ⟨_, rfl⟩
  have hrlt : r < 2 ^ d := by rw [hr]; exact Nat.mod_lt _ (Nat.two_pow_pos _)
  rw [← hr] at hx
  have hm1ne : m1 ≠ 0 := by rw [hm1]; exact hne
  constructor
  · rw [hx]
    apply bitLen_unique _ _ hw
    · have h1 := pow_bitLen_le m1 hm1ne
      calc 2 ^ (w - 1) = 2 ^ (bitLen m1 - 1) * 2 ^ d := by rw [← Nat.pow_add]; congr 1; omega
        _ ≤ m1 * 2 ^ d := Nat.mul_le_mul_right _ h1
        _ ≤ m1 * 2 ^ d + r := by omega
    · have h1 := lt_pow_bitLen m1
      calc m1 * 2 ^ d + r < m1 * 2 ^ d + 2 ^ d := by omega
        _ = (m1 + 1) * 2 ^ d := by ring
        _ ≤ 2 ^ bitLen m1 * 2 ^ d := Nat.mul_le_mul_right _ (by omega)
        _ = 2 ^ w := by rw [← Nat.pow_add]; congr 1; omega
  · -- the bits between the two window tops are zero
    have hsp := mod_split man o w
    rw [← hm1] at hsp
    have hlt : man % 2 ^ (o + w) < 2 ^ (o - d + w) := by
      rw [hsp]
      have h0 : man % 2 ^ o < 2 ^ o := Nat.mod_lt _ (Nat.two_pow_pos _)
      have h1 := lt_pow_bitLen m1
      calc m1 * 2 ^ o + man % 2 ^ o < m1 * 2 ^ o + 2 ^ o := by omega
        _ = (m1 + 1) * 2 ^ o := by ring
        _ ≤ 2 ^ bitLen m1 * 2 ^ o := Nat.mul_le_mul_right _ (by omega)
        _ = 2 ^ (o - d + w) := by
            rw [← Nat.pow_add]; congr 1
            have : d ≤ o := by rw [hd]; rw [hm1]; exact hdo
            omega
    have hdv : man % 2 ^ (o + w) % 2 ^ (o - d + w) = man % 2 ^ (o - d + w) :=
      Nat.mod_mod_of_dvd _ (Nat.pow_dvd_pow 2 (by omega))
    rw [← hdv, Nat.mod_eq_of_lt hlt]

/-- value of `±n·2^exp` in units of `2^emin` -/
def gridOf (f : Fmt) (s : Bool) (n : Nat) (exp : Int) : Int :=
  (if s then -1 else 1) * ((n * 2 ^ (exp - f.emin).toNat : Nat) : Int)

theorem gridOf_add (f : Fmt) (s : Bool) (c r o : Nat) (exp : Int) (hE : f.emin ≤ exp) :
    gridOf f s c (exp + o) + gridOf f s r exp = gridOf f s (c * 2 ^ o + r) exp := by
  unfold gridOf
  have e1 : (exp + (o : Int) - f.emin).toNat = (exp - f.emin).toNat + o := by omega
  rw [e1, Nat.pow_add]
  cases s <;> simp <;> push_cast <;> ring

theorem gridOf_fits (f : Fmt) (s : Bool) (n : Nat) (exp : Int) (prec : Nat) (h : bitLen n ≤ prec) :
    sigBits (gridOf f s n exp).natAbs ≤ prec := by
  have hgen : ∀ k : Nat, ((if s = true then (-1:Int) else 1) * (k : Int)).natAbs = k := by
    intro k; cases s <;> simp
  have hnat : (gridOf f s n exp).natAbs = n * 2 ^ (exp - f.emin).toNat := by
    unfold gridOf; exact hgen _
  rw [hnat]
  by_cases hn : n = 0
  · subst hn; simp [sigBits_zero]
  · unfold sigBits
    rw [(tz_mul_pow n _ hn).2]
    have := sigBits_le_bitLen n
    unfold sigBits at this; omega

/-- no window of `w` consecutive mantissa bits is entirely zero -/
def NoZeroWindow (man w : Nat) : Prop := ∀ k, k + w ≤ bitLen man → man / 2 ^ k % 2 ^ w ≠ 0

/-- one iteration of the window logic of `mpf2multiword` -/
theorem window_step (man o w p : Nat) (hw : 1 ≤ w) (hwp : w ≤ p) (hne : man / 2 ^ o % 2 ^ w ≠ 0) :
    ∃ o' c, (if w - bitLen (man / 2 ^ o % 2 ^ w) > 0 ∧ o ≥ w - bitLen (man / 2 ^ o % 2 ^ w)
              then o - (w - bitLen (man / 2 ^ o % 2 ^ w)) else o) = o' ∧
      (if w - bitLen (man / 2 ^ o % 2 ^ w) > 0 ∧ o ≥ w - bitLen (man / 2 ^ o % 2 ^ w)
              then man / 2 ^ o' % 2 ^ w else man / 2 ^ o % 2 ^ w) = c ∧
      o' ≤ o ∧ c = man / 2 ^ o' % 2 ^ w ∧ c ≠ 0 ∧ man % 2 ^ (o + w) = man % 2 ^ (o' + w) ∧ (p ≤ o' → bitLen c = w) := by
  have hlt : man / 2 ^ o % 2 ^ w < 2 ^ w := Nat.mod_lt _ (Nat.two_pow_pos _)
  have hL : bitLen (man / 2 ^ o % 2 ^ w) ≤ w := bitLen_le_of_lt _ _ hlt
  by_cases hadj : w - bitLen (man / 2 ^ o % 2 ^ w) > 0 ∧ o ≥ w - bitLen (man / 2 ^ o % 2 ^ w)
  · obtain ⟨hb, hm⟩ := adjust_window man o w hw hne hadj.2
    refine ⟨o - (w - bitLen (man / 2 ^ o % 2 ^ w)), man / 2 ^ (o - (w - bitLen (man / 2 ^ o % 2 ^ w))) % 2 ^ w, ?_, ?_, ?_, rfl, ?_, hm, fun _ => hb⟩
    · simp only [hadj, and_self, if_true]
    · simp only [hadj, and_self, if_true]
    · omega
    · intro h0; rw [h0, bitLen_zero] at hb; omega
  · refine ⟨o, man / 2 ^ o % 2 ^ w, ?_, ?_, Nat.le_refl _, rfl, hne, rfl, ?_⟩
    · simp only [hadj, if_false]
    · simp only [hadj, if_false]
    · intro hpo
      by_contra hc
      have : w - bitLen (man / 2 ^ o % 2 ^ w) > 0 := by omega
      have : ¬ (o ≥ w - bitLen (man / 2 ^ o % 2 ^ w)) := fun h => hadj ⟨this, h⟩
      omega

theorem odd_mod_pow (man w : Nat) (hodd : man % 2 = 1) (hw : 1 ≤ w) : man % 2 ^ w ≠ 0 := by
  have : man % 2 ^ w % 2 = man % 2 := by
    have e : w = (w - 1) + 1 := by omega
    rw [e, Nat.pow_succ]; exact Nat.mod_mul_left_mod _ _ _
  omega

theorem multiwordLoop_spec (f : Fmt) (prec : Nat) (hew : 2 ≤ f.ew) (hp : 1 ≤ f.p) (hpm : f.p ≤ 2 ^ (f.ew - 1))
    (s : Bool) (man : Nat) (exp bc : Int) (p : Nat) (hp1 : 1 ≤ p) (hpf : p ≤ f.p) (hpp : p ≤ prec)
    (hodd : man % 2 = 1) (hE : f.emin ≤ exp) (htop : exp + bitLen man ≤ maxexp f) (hbl : bitLen man ≤ prec)
    (hnz : NoZeroWindow man (min (bitLen man) p)) :
    ∀ (fuel : Nat) (st : MwState), st.offset + st.w + 1 ≤ fuel → st.offset + st.w ≤ bitLen man → 1 ≤ st.w →
      (st.w = min (bitLen man) p ∨ (st.offset = 0 ∧ st.w < p)) →
      ∃ tail, multiwordLoop f prec ⟨sgnNat s, man, exp, bc⟩ p none fuel st = .ok (st.result ++ tail) ∧
        tail ≠ [] ∧ (∀ w ∈ tail, GoodWord f w) ∧
        gsum f tail = gridOf f s (man % 2 ^ (st.offset + st.w)) exp ∧ FitsAll f prec tail := by
  intro fuel
  induction fuel with
  | zero => intro st h; omega
  | succ k ih =>
    intro st hfuel hT hw hmode
    obtain ⟨w, o, res⟩ := st
    simp only at hfuel hT hw hmode ⊢
    have hwp : w ≤ p := by
      rcases hmode with h | h
      · rw [h]; exact Nat.min_le_right _ _
      · omega
    -- the window is not zero
    have hne : man / 2 ^ o % 2 ^ w ≠ 0 := by
      rcases hmode with h | h
      · rw [h]; exact hnz o (by rw [← h]; exact hT)
      · rw [h.1]; simp; exact odd_mod_pow man w hodd hw
    obtain ⟨o', c, ho', hc, hle, hcdef, hc0, hmod, hfull⟩ := window_step man o w p hw hwp hne
    have hclt : c < 2 ^ w := by rw [hcdef]; exact Nat.mod_lt _ (Nat.two_pow_pos _)
    have hcL : bitLen c ≤ w := bitLen_le_of_lt _ _ hclt
    -- the chunk is a float
    have hsig : sigBits c ≤ prec := by have := sigBits_le_bitLen c; omega
    have hpos : mpfPos prec ⟨sgnNat s, c, exp + (o' : Int), (bitLen c : Int)⟩ = canonT (sgnNat s) c (exp + o') := by
      unfold mpfPos MpfT.isSpecial
      have hcb : (c == 0) = false := by simpa using hc0
      simp only [hcb, Bool.false_and, Bool.false_eq_true, if_false]
      exact normalize_exact _ _ _ _ hsig
    obtain ⟨hgood, hgrid, hnzero⟩ := chunk_float f hew hp hpm s c (exp + o') hc0 (by omega) (by omega) (by omega)
    generalize hx1 : mpf2floatC f (canonT (sgnNat s) c (exp + (o' : Int))) = x1 at *
    have hgx : gridInt f x1 = gridOf f s c (exp + o') := hgrid
    have hfitT : ∀ T, sigBits (gridOf f s (man % 2 ^ T) exp).natAbs ≤ prec := by
      intro T
      apply gridOf_fits
      have : man % 2 ^ T ≤ man := Nat.mod_le _ _
      have := bitLen_mono this
      omega
    have hsplit : man % 2 ^ (o' + w) = c * 2 ^ o' + man % 2 ^ o' := by rw [mod_split, ← hcdef]
    unfold multiwordLoop
    simp only [ho', hc, hpos, hx1, hnzero, if_false]
    by_cases ho0 : o' = 0
    · -- last word
      simp only [ho0, if_true]
      refine ⟨[x1], rfl, by simp, ?_, ?_, ?_⟩
      · intro y hy; simp at hy; rw [hy]; exact hgood
      · unfold gsum; simp only [List.map_cons, List.map_nil, List.sum_cons, List.sum_nil, Int.add_zero]
        rw [hgx, hmod, hsplit, ho0]
        simp [gridOf]
      · refine ⟨?_, trivial⟩
        have : gsum f [x1] = gridOf f s (man % 2 ^ (o + w)) exp := by
          unfold gsum; simp only [List.map_cons, List.map_nil, List.sum_cons, List.sum_nil, Int.add_zero]
          rw [hgx, hmod, hsplit, ho0]; simp [gridOf]
        rw [this]; exact hfitT _
    · simp only [ho0, if_false, Option.isSome_none, Bool.false_eq_true, false_and, false_or]
      -- both continuing branches lead to a state with window top `o'`
      have hnext : ∀ st' : MwState, st'.offset + st'.w = o' → 1 ≤ st'.w →
          (st'.w = min (bitLen man) p ∨ (st'.offset = 0 ∧ st'.w < p)) → st'.result = res ++ [x1] →
          ∃ tail, multiwordLoop f prec ⟨sgnNat s, man, exp, bc⟩ p none k st' = .ok (res ++ tail) ∧
            tail ≠ [] ∧ (∀ w ∈ tail, GoodWord f w) ∧
            gsum f tail = gridOf f s (man % 2 ^ (o + w)) exp ∧ FitsAll f prec tail := by
        intro st' hT' hw' hmode' hres'
        obtain ⟨tail', hl, _, hg', hs', hf'⟩ := ih st' (by omega) (by omega) hw' hmode'
        rw [hT'] at hs'
        have hsum : gsum f (x1 :: tail') = gridOf f s (man % 2 ^ (o + w)) exp := by
          unfold gsum at hs' ⊢
          simp only [List.map_cons, List.sum_cons]
          rw [hs', hgx, gridOf_add f s c _ o' exp hE, hmod, hsplit]
        refine ⟨x1 :: tail', ?_, by simp, ?_, hsum, ⟨by rw [hsum]; exact hfitT _, hf'⟩⟩
        · rw [hl, hres']; simp
        · intro y hy
          simp only [List.mem_cons] at hy
          rcases hy with rfl | hy
          · exact hgood
          · exact hg' y hy
      by_cases hlast : o' < p
      · simp only [hlast, if_true]
        exact hnext ⟨o', 0, res ++ [x1]⟩ (by simp) (by simp; omega) (Or.inr ⟨rfl, hlast⟩) rfl
      · simp only [hlast, if_false]
        have hfw : bitLen c = w := hfull (by omega)
        have hwfull : w = min (bitLen man) p := by
          rcases hmode with h | h
          · exact h
          · omega
        exact hnext ⟨w, o' - bitLen c, res ++ [x1]⟩ (by simp; omega) hw (Or.inl hwfull) rfl

theorem canonI_gridOf (f : Fmt) (s : Bool) (man : Nat) (exp : Int) (hodd : man % 2 = 1) (hE : f.emin ≤ exp) :
    canonI (gridOf f s man exp) f.emin = ⟨sgnNat s, man, exp, bitLen man⟩ := by
  have hm : man ≠ 0 := by omega
  obtain ⟨k, hk⟩ : ∃ k : Nat, (exp - f.emin).toNat = k := ⟨_, rfl⟩
  have hgen : ∀ n : Nat, ((if s = true then (-1:Int) else 1) * (n : Int)).natAbs = n := by
    intro n; cases s <;> simp
  unfold canonI gridOf
  rw [hk, hgen, canonT_shift _ _ _ _ hm]
  have he : f.emin + (k : Int) = exp := by omega
  rw [he, canonT_fields _ _ _ hm]
  have ht : tz man = 0 := tz_odd man hodd
  have ho : oddPart man = man := by unfold oddPart; rw [ht]; simp
  have hsb : sigBits man = bitLen man := by unfold sigBits; rw [ho]
  rw [ho, ht, hsb]
  have hpos : (0:Int) < ((man * 2 ^ k : Nat) : Int) := by
    have : 0 < man * 2 ^ k := Nat.mul_pos (by omega) (Nat.two_pow_pos _)
    omega
  congr 1
  · cases s <;> simp [sgnNat] <;> omega
  · simp

/-- **mpf2multiword** on a normalised in-range mpf whose mantissa has no all-zero window: the words are
finite floats, their exact sum is the input, and `multiword2mpf` returns the input tuple. -/
theorem multiword_spec (f : Fmt) (prec : Nat) (hew : 2 ≤ f.ew) (hp : 1 ≤ f.p) (hpm : f.p ≤ 2 ^ (f.ew - 1))
    (s : Bool) (man : Nat) (exp bc : Int) (p? : Option Nat)
    (hp1 : 1 ≤ p?.getD f.p) (hpf : p?.getD f.p ≤ f.p) (hpp : p?.getD f.p ≤ prec)
    (hodd : man % 2 = 1) (hE : f.emin ≤ exp) (htop : exp + bitLen man ≤ maxexp f) (hbl : bitLen man ≤ prec)
    (hnz : NoZeroWindow man (min (bitLen man) (p?.getD f.p))) :
    ∃ ws, mpf2multiword f prec ⟨sgnNat s, man, exp, bc⟩ p? none = .ok ws ∧ ws ≠ [] ∧
      (∀ w ∈ ws, GoodWord f w) ∧ gsum f ws = gridOf f s man exp ∧ FitsAll f prec ws := by
  have hm : man ≠ 0 := by omega
  have hblpos := bitLen_pos man hm
  obtain ⟨tail, hl, hne, hg, hs, hf⟩ := multiwordLoop_spec f prec hew hp hpm s man exp bc (p?.getD f.p) hp1 hpf hpp hodd hE htop hbl hnz
    (bitLen man + 2) ⟨min (bitLen man) (p?.getD f.p), bitLen man - p?.getD f.p, []⟩
    (by simp only; omega) (by simp only; omega) (by simp only; omega) (Or.inl rfl)
  refine ⟨tail, ?_, hne, hg, ?_, hf⟩
  · unfold mpf2multiword
    have : ¬ (p?.getD f.p > f.p) := by omega
    simp only [this, if_false]
    have h1 : ¬ ((none : Option Nat) = some 1) := by simp
    simp only [h1, if_false, hl, List.nil_append]
  · rw [hs]
    simp only
    have : bitLen man - p?.getD f.p + min (bitLen man) (p?.getD f.p) = bitLen man := by omega
    rw [this, Nat.mod_eq_of_lt (lt_pow_bitLen man)]

/-! ### `RSpec` is satisfiable: rounding toward zero (truncation to `p` bits) -/

/-- a concrete rounding step: keep the `p` leading bits of the mantissa (round toward zero) -/
def truncR (f : Fmt) (x : MpfT) : Nat :=
  if x.man = 0 then 0
  else
    let L := bitLen x.man
    let c := if L ≤ f.p then x.man else x.man / 2 ^ (L - f.p)
    let E : Int := if L ≤ f.p then x.exp else x.exp + ((L - f.p : Nat) : Int)
    mpf2floatC f (canonT x.sign c E)

theorem gridMax_bitLen (f : Fmt) (hew : 2 ≤ f.ew) (hp : 1 ≤ f.p) (n : Nat) (h : n ≤ gridMax f) :
    (bitLen n : Int) ≤ (maxexp f : Int) - f.emin := by
  have hemax := emaxUlp_maxexp f hew hp
  have hlt : n < 2 ^ (f.p + (f.emaxUlp - f.emin).toNat) := by
    unfold gridMax at h
    have : (2 ^ f.p - 1) * 2 ^ (f.emaxUlp - f.emin).toNat < 2 ^ f.p * 2 ^ (f.emaxUlp - f.emin).toNat :=
      Nat.mul_lt_mul_of_lt_of_le (by have := Nat.two_pow_pos f.p; omega) (Nat.le_refl _) (Nat.two_pow_pos _)
    rw [← Nat.pow_add] at this; omega
  have := bitLen_le_of_lt _ _ hlt
  have hK := two_pow_ew_pos f hew
  have he := emin_eq f
  have hmx : maxexp f = 2 ^ (f.ew - 1) := rfl
  have hfb : f.fracBits = f.p - 1 := rfl
  generalize 2 ^ (f.ew - 1) = K at *
  omega

theorem truncR_spec (f : Fmt) (hew : 2 ≤ f.ew) (hp : 1 ≤ f.p) (hpm : f.p ≤ 2 ^ (f.ew - 1)) : RSpec f (truncR f) := by
  constructor
  · have h0 : truncR f fzero = 0 := by simp [truncR, fzero]
    rw [h0]
    have hF : fields f 0 = ⟨false, 0, 0⟩ := by unfold fields; simp
    have hE3 := expMax_ge f hew
    refine ⟨⟨Nat.two_pow_pos _, ?_⟩, ?_⟩
    · rw [isFiniteBits_iff, hF]; simp; omega
    · unfold isZerob; rw [hF]; simp
  · intro X hX hle
    have hn : X.natAbs ≠ 0 := by omega
    have hodd := oddPart_ne_zero _ hn
    have hmul := oddPart_mul X.natAbs
    have hbl := bitLen_eq_sigBits_add_tz X.natAbs hn
    have hgm := gridMax_bitLen f hew hp _ hle
    have hsb : bitLen (oddPart X.natAbs) = sigBits X.natAbs := rfl
    rw [canonI_fields X f.emin hX]
    unfold truncR
    simp only [hodd, if_false]
    obtain ⟨sb, hsbd⟩ : ∃ sb : Bool, sb = decide (X < 0) := ⟨_, rfl⟩
    have hsg : (if X < 0 then 1 else 0) = sgnNat sb := by
      rw [hsbd]; unfold sgnNat; by_cases h : X < 0 <;> simp [h]
    rw [hsg]
    have hXval : X = (if sb then -1 else 1) * (X.natAbs : Int) := by
      rw [hsbd]
      by_cases h : X < 0
      · have : decide (X < 0) = true := by simpa using h
        rw [this]; simp only [if_true]; omega
      · have : decide (X < 0) = false := by simpa using h
        rw [this]; simp only [Bool.false_eq_true, if_false]; omega
    have hgen : ∀ n : Nat, ((if sb = true then (-1:Int) else 1) * (n : Int)).natAbs = n := by
      intro n; cases sb <;> simp
    generalize hO : oddPart X.natAbs = O at *
    generalize hL : sigBits X.natAbs = L at *
    generalize hT : tz X.natAbs = T at *
    rw [hsb]
    by_cases hfit : L ≤ f.p
    · simp only [hfit, if_true]
      obtain ⟨h1, h2, h3⟩ := chunk_float f hew hp hpm sb O (f.emin + T) hodd (by omega) (by omega) (by omega)
      have e1 : (f.emin + (T : Int) - f.emin).toNat = T := by omega
      rw [e1, hmul] at h2
      have hY : gridInt f (mpf2floatC f (canonT (sgnNat sb) O (f.emin + T))) = X := by rw [h2]; exact hXval.symm
      refine ⟨h1, by rw [hY]; exact hX, by rw [hY]; simp; omega, ?_⟩
      rw [hY]
      exact Int.natCast_dvd.mpr ⟨O, by rw [← hmul]; ring⟩
    · simp only [hfit, if_false]
      obtain ⟨k, hk⟩ : ∃ k, k = L - f.p := ⟨_, rfl⟩
      rw [← hk]
      have hkpos : 0 < k := by omega
      have hOlt := lt_pow_bitLen O
      have hOge := pow_bitLen_le O hodd
      rw [hsb] at hOlt hOge
      have hc0 : O / 2 ^ k ≠ 0 := by
        have : 2 ^ k ≤ O := by
          calc 2 ^ k ≤ 2 ^ (L - 1) := Nat.pow_le_pow_right (by omega) (by omega)
            _ ≤ O := hOge
        have := (Nat.le_div_iff_mul_le (Nat.two_pow_pos k)).mpr (by omega : 1 * 2 ^ k ≤ O)
        omega
      have hcL : bitLen (O / 2 ^ k) ≤ f.p := by
        apply bitLen_le_of_lt
        rw [Nat.div_lt_iff_lt_mul (Nat.two_pow_pos k), ← Nat.pow_add]
        have : f.p + k = L := by omega
        rw [this]; exact hOlt
      have hcL2 : bitLen (O / 2 ^ k) + k ≤ L := by
        have h1 : O / 2 ^ k * 2 ^ k ≤ O := Nat.div_mul_le_self _ _
        have h2 := bitLen_mul_pow (O / 2 ^ k) k hc0
        have h3 := bitLen_mono h1
        rw [hsb] at h3; omega
      obtain ⟨h1, h2, h3⟩ := chunk_float f hew hp hpm sb (O / 2 ^ k) (f.emin + T + k) hc0 hcL (by omega) (by omega)
      have e1 : (f.emin + (T : Int) + (k : Int) - f.emin).toNat = T + k := by omega
      rw [e1] at h2
      generalize hy : mpf2floatC f (canonT (sgnNat sb) (O / 2 ^ k) (f.emin + T + k)) = y at *
      -- |Y| = (O / 2^k) 2^k 2^T ≤ |X| and the remainder is smaller than |Y|
      have hYabs : (gridInt f y).natAbs = O / 2 ^ k * 2 ^ (T + k) := by
        rw [h2]; exact hgen _
      have hdm := Nat.div_add_mod O (2 ^ k)
      have hrem : O % 2 ^ k < 2 ^ k := Nat.mod_lt _ (Nat.two_pow_pos _)
      have hq1 : 1 ≤ O / 2 ^ k := Nat.pos_of_ne_zero hc0
      have hXabs : X.natAbs = (O / 2 ^ k * 2 ^ k + O % 2 ^ k) * 2 ^ T := by
        rw [← hmul]; congr 1; rw [Nat.mul_comm]; exact hdm.symm
      have hdiff : X - gridInt f y = (if sb then -1 else 1) * (((O % 2 ^ k) * 2 ^ T : Nat) : Int) := by
        rw [h2]
        conv_lhs => rw [hXval, hXabs]
        rw [Nat.pow_add]
        cases sb <;> simp <;> push_cast <;> ring
      refine ⟨h1, ?_, ?_, ?_⟩
      · intro h0; rw [h0] at hYabs
        simp only [Int.natAbs_zero] at hYabs
        have : 0 < O / 2 ^ k * 2 ^ (T + k) := Nat.mul_pos hq1 (Nat.two_pow_pos _)
        omega
      · rw [hdiff]
        rw [hgen, hXabs]
        have hpT := Nat.two_pow_pos T
        have : O % 2 ^ k < O / 2 ^ k * 2 ^ k + O % 2 ^ k := by
          have : 2 ^ k ≤ O / 2 ^ k * 2 ^ k := Nat.le_mul_of_pos_left _ (by omega)
          omega
        exact Nat.mul_lt_mul_of_lt_of_le this (Nat.le_refl _) hpT
      · rw [h2]
        have : ((O / 2 ^ k * 2 ^ (T + k) : Nat) : Int) = ((2 ^ T : Nat) : Int) * ((O / 2 ^ k * 2 ^ k : Nat) : Int) := by
          push_cast; rw [pow_add]; ring
        rw [this]
        exact Dvd.dvd.mul_left (Dvd.intro _ rfl) _

end FAVerif.Conv
