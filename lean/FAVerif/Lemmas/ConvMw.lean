/-
Helper lemmas for C13, part 8: bit slicing of `mpf2multiword`.
-/
import FAVerif.Lemmas.ConvExp

namespace FAVerif.Conv
open FAVerif.FP

end FAVerif.Conv
