/-
Refinement with square roots: the bit-exact run of a program of the arithmetic/comparison/select/sqrt fragment
refines the run over ℚ with round-to-nearest-even and the square-root oracle `Ssoft` — the value of the softfloat's
(correctly rounded, `sqrt_ok`) square root on representable arguments — whenever all float nodes are finite.
`Ssoft` satisfies the specification `SqrtOK` used by the accuracy theorems.
-/
import FAVerif.Lemmas.Refine
import FAVerif.Lemmas.SoftSqrt
import FAVerif.Lemmas.Hypot
import FAVerif.IR.EvalQS

namespace FAVerif.Refine
open FAVerif.IR FAVerif.FP FAVerif.FPQ FAVerif.SoftRound

variable {f : Fmt}

/-- a finite decode is in canonical form -/
lemma decode_norm (f : Fmt) (hf : WF f) (b : Nat) (s : Bool) (m : Nat) (e : Int) (hd : decode f b = .fin s m e) :
    2 ^ (f.p - 1) ≤ m ∨ e = f.emin := by
  have hfb : f.fracBits = f.p - 1 := by simp [Fmt.fracBits]
  unfold decode at hd
  simp only at hd
  split_ifs at hd with h1 h2 h3
  · cases hd; exact Or.inr rfl
  · cases hd; left; rw [← hfb]; omega

/-- the value of a finite non-zero pattern determines its decode -/
lemma decode_unique (f : Fmt) (hf : WF f) {a a' : Nat} {m m' : Nat} {e e' : Int}
    (ha : decode f a = .fin false m e) (ha' : decode f a' = .fin false m' e') (hm : m ≠ 0)
    (hv : valQ false m e = valQ false m' e') : m = m' ∧ e = e' := by
  obtain ⟨b1, b2⟩ := decode_bounds f hf a false m e ha
  obtain ⟨b1', b2'⟩ := decode_bounds f hf a' false m' e' ha'
  have n1 := decode_norm f hf a false m e ha
  have n1' := decode_norm f hf a' false m' e' ha'
  simp only [valQ, Bool.false_eq_true, if_false, one_mul] at hv
  have hpp : 2 ^ f.p = 2 * 2 ^ (f.p - 1) := by
    have := hf.hp
    rw [show f.p = (f.p - 1) + 1 by omega, pow_succ]; simp; ring
  have key : ∀ {m m' : Nat} {e e' : Int}, (m : ℚ) * 2 ^ e = (m' : ℚ) * 2 ^ e' → m ≠ 0 → m < 2 ^ f.p → (2 ^ (f.p - 1) ≤ m' ∨ e' = f.emin) →
      f.emin ≤ e → ¬ e < e' := by
    intro m m' e e' hv hm b1 n1' b2 hlt
    obtain ⟨d, hd⟩ : ∃ d : ℕ, e' = e + d ∧ 0 < d := ⟨(e' - e).toNat, by omega, by omega⟩
    have h2 : (m : ℚ) = (m' : ℚ) * 2 ^ d := by
      rw [hd.1, zpow_add₀ (by norm_num : (2 : ℚ) ≠ 0), zpow_natCast] at hv
      have h2e : (0 : ℚ) < 2 ^ e := by positivity
      have : (m : ℚ) * 2 ^ e = ((m' : ℚ) * 2 ^ d) * 2 ^ e := by rw [hv]; ring
      exact mul_right_cancel₀ h2e.ne' this
    have h3 : m = m' * 2 ^ d := by exact_mod_cast h2
    rcases n1' with hn | hn
    · have : 2 ^ (f.p - 1) * 2 ≤ m' * 2 ^ d := Nat.mul_le_mul hn (by
        calc 2 = 2 ^ 1 := by norm_num
          _ ≤ 2 ^ d := Nat.pow_le_pow_right (by norm_num) hd.2)
      omega
    · omega
  have hm' : m' ≠ 0 := by
    rintro rfl
    simp only [Nat.cast_zero, zero_mul, mul_eq_zero] at hv
    rcases hv with h | h
    · exact hm (by exact_mod_cast h)
    · exact absurd h (by positivity)
  have c1 := key hv hm b1 n1' b2
  have c2 := key hv.symm hm' b1' n1 b2'
  have he : e = e' := by omega
  subst he
  refine ⟨?_, rfl⟩
  have h2e : (0 : ℚ) < 2 ^ e := by positivity
  exact_mod_cast mul_right_cancel₀ h2e.ne' hv

/-- `FP.sqrt` depends on the decode only (non-zero operands) -/
lemma sqrt_congr_decode (f : Fmt) {a a' : Nat} {m : Nat} {e : Int} (ha : decode f a = .fin false m e)
    (ha' : decode f a' = .fin false m e) (hm : m ≠ 0) : FP.sqrt f a = FP.sqrt f a' := by
  unfold FP.sqrt; simp only [ha, ha', hm, if_false]

open Classical in
/-- the square-root oracle realised by the softfloat: on a positive representable t it is the value of `FP.sqrt` on the
pattern of t (when finite), elsewhere a fallback `S0` -/
noncomputable def Ssoft (f : Fmt) (S0 : ℚ → ℚ) (t : ℚ) : ℚ :=
  if h : ∃ a m e, decode f a = .fin false m e ∧ m ≠ 0 ∧ valQ false m e = t ∧ isFiniteBits f (FP.sqrt f a) = true
  then (toQ f (FP.sqrt f (Classical.choose h))).getD 0
  else if t = 0 then 0 else S0 t

lemma ssoft_spec (hf : WF f) (S0 : ℚ → ℚ) {a m : Nat} {e : Int} (ha : decode f a = .fin false m e) (hm : m ≠ 0)
    (hfin : isFiniteBits f (FP.sqrt f a) = true) {y : ℚ} (hy : toQ f (FP.sqrt f a) = some y) :
    Ssoft f S0 (valQ false m e) = y := by
  have h : ∃ a' m' e', decode f a' = .fin false m' e' ∧ m' ≠ 0 ∧ valQ false m' e' = valQ false m e ∧ isFiniteBits f (FP.sqrt f a') = true :=
    ⟨a, m, e, ha, hm, rfl, hfin⟩
  unfold Ssoft
  rw [dif_pos h]
  obtain ⟨m', e', h1, h2, h3, h4⟩ := Classical.choose_spec h
  obtain ⟨e1, e2⟩ := decode_unique f hf h1 ha h2 h3
  subst e1; subst e2
  rw [sqrt_congr_decode f h1 ha h2, hy]; rfl

lemma ssoft_zero (S0 : ℚ → ℚ) : Ssoft f S0 0 = 0 := by
  unfold Ssoft
  have : ¬ ∃ a m e, decode f a = .fin false m e ∧ m ≠ 0 ∧ valQ false m e = 0 ∧ isFiniteBits f (FP.sqrt f a) = true := by
    rintro ⟨a, m, e, _, hm, hv, _⟩
    simp only [valQ, Bool.false_eq_true, if_false, one_mul, mul_eq_zero] at hv
    rcases hv with h | h
    · exact hm (by exact_mod_cast h)
    · exact absurd h (by positivity)
  rw [dif_neg this, if_pos rfl]

/-- **the softfloat's square root meets the specification** of the accuracy theorems -/
theorem ssoft_ok (hf : WF f) (hem : f.emin + 2 * f.p + 2 ≤ 0) (S0 : ℚ → ℚ) (h0 : SqrtOK (qf f hf.hp) S0) :
    SqrtOK (qf f hf.hp) (Ssoft f S0) := by
  have key : ∀ t, 0 ≤ t → 0 ≤ Ssoft f S0 t ∧ (1 - uro (qf f hf.hp)) ^ 2 * t ≤ Ssoft f S0 t ^ 2 ∧
      Ssoft f S0 t ^ 2 ≤ (1 + uro (qf f hf.hp)) ^ 2 * t := by
    intro t ht
    by_cases h : ∃ a m e, decode f a = .fin false m e ∧ m ≠ 0 ∧ valQ false m e = t ∧ isFiniteBits f (FP.sqrt f a) = true
    · obtain ⟨a, m, e, h1, h2, h3, h4⟩ := h
      obtain ⟨y, hy, hy0, hlo, hhi⟩ := sqrt_ok f hf hem a m e h1 h2 h4
      have := ssoft_spec hf S0 h1 h2 h4 hy
      rw [h3] at this
      rw [this]
      have hv : valQ false m e = (m : ℚ) * 2 ^ e := by simp [valQ]
      rw [← h3, hv]
      exact ⟨hy0, hlo, hhi⟩
    · unfold Ssoft
      rw [dif_neg h]
      by_cases ht0 : t = 0
      · rw [if_pos ht0, ht0]; simp
      · rw [if_neg ht0]; exact ⟨h0.nonneg t ht, h0.lo t ht, h0.hi t ht⟩
  exact ⟨fun t ht => (key t ht).1, fun t ht => (key t ht).2.1, fun t ht => (key t ht).2.2⟩

/-! ### kinds with sqrt -/

def kindStepS (kinds : List Bool) (n : Node) : Option Bool :=
  if n.op = .sqrt then (if (n.args[0]? >>= fun j => kinds[j]?) = some false then some false else none)
  else kindStep kinds n

def kindsOfS : List Node → List Bool → Option (List Bool)
  | [], ks => some ks
  | n :: ns, ks => do
    let k ← kindStepS ks n
    kindsOfS ns (ks ++ [k])

lemma evalNodeQS_of_ne (r S : ℚ → ℚ) (ins env : List ℚ) (n : Node) (h : n.op ≠ .sqrt) :
    evalNodeQS f r S ins env n = evalNodeQ f r ins env n := by
  unfold evalNodeQS
  cases hop : n.op <;> simp_all

/-- one node, with sqrt -/
theorem stepS (hf : WF f) (S0 : ℚ → ℚ) (lib : Libm) (ins : List Nat) (insQ : List ℚ) (hins : InsRel f ins insQ)
    (kinds : List Bool) (env : Array Nat) (envQ : List ℚ) (hinv : Inv f kinds env envQ) (n : Node) (k : Bool)
    (hk : kindStepS kinds n = some k) (v : Nat) (hv : evalNode f lib ins env n = some v)
    (hfin : k = false → isFiniteBits f v = true) :
    ∃ q, evalNodeQS f (rne (qf f hf.hp)) (Ssoft f S0) insQ envQ n = some q ∧ Rv f k v q := by
  by_cases hop : n.op = .sqrt
  · unfold kindStepS at hk
    rw [if_pos hop] at hk
    split at hk
    · rename_i hk0
      cases hk
      -- the operand
      have hk0' : ∃ j, n.args[0]? = some j ∧ kinds[j]? = some false := by
        cases h1 : n.args[0]? with
        | none => simp [h1] at hk0
        | some j => exact ⟨j, rfl, by simpa [h1] using hk0⟩
      obtain ⟨j, hj, hkj⟩ := hk0'
      obtain ⟨a, qa, e1, e2, rr⟩ := hinv.rel j false hkj
      obtain ⟨afin, aval⟩ := rv_float rr
      unfold evalNode at hv
      simp only [hop, hj, Option.bind_eq_bind, Option.bind_some, e1] at hv
      have hv' : v = FP.sqrt f a := by
        simp only [Option.pure_def, Option.bind_some, Option.some.injEq] at hv
        exact hv.symm
      subst hv'
      have hF := hfin rfl
      obtain ⟨s, m, e, hd⟩ := finite_decode f a afin
      have hqa : qa = valQ s m e := by
        rw [toQ_fin f a s m e hd] at aval; exact (Option.some.inj aval).symm
      unfold evalNodeQS
      simp only [hop, hj, Option.bind_eq_bind, Option.bind_some, e2]
      by_cases hm : m = 0
      · -- ±0: the square root is the operand itself
        have hs : FP.sqrt f a = a := by unfold FP.sqrt; simp [hd, hm]
        have hq0 : qa = 0 := by rw [hqa, hm]; simp [valQ]
        rw [hq0]
        simp only [lt_irrefl, if_false, ssoft_zero]
        refine ⟨0, rfl, ?_⟩
        rw [hs]
        exact rv_float_mk afin (by rw [aval, hq0])
      · cases s with
        | true =>
          -- negative operand: NaN, excluded by finiteness
          exfalso
          have hs : FP.sqrt f a = f.nanBits := by unfold FP.sqrt; simp [hd, hm]
          rw [hs] at hF
          have := notNaN_of_finite f _ hF
          rw [isNaN_nanBits f hf] at this
          exact absurd this (by decide)
        | false =>
          have hpos : 0 < qa := by
            rw [hqa]; simp only [valQ, Bool.false_eq_true, if_false, one_mul]
            have : (0 : ℚ) < m := by exact_mod_cast Nat.pos_of_ne_zero hm
            positivity
          obtain ⟨y, hy⟩ := toQ_of_finite f _ hF
          have := ssoft_spec hf S0 hd hm hF hy
          rw [if_neg (by linarith), hqa, this]
          exact ⟨y, rfl, rv_float_mk hF hy⟩
    · cases hk
  · have hk' : kindStep kinds n = some k := by unfold kindStepS at hk; rwa [if_neg hop] at hk
    obtain ⟨q, hq, hr⟩ := step hf lib ins insQ hins kinds env envQ hinv n k hk' v hv hfin
    exact ⟨q, by rw [evalNodeQS_of_ne _ _ _ _ _ hop]; exact hq, hr⟩

lemma kindsOfS_prefix : ∀ (nodes : List Node) (ks ksF : List Bool), kindsOfS nodes ks = some ksF →
    ks.length ≤ ksF.length ∧ ∀ i, i < ks.length → ksF[i]? = ks[i]? := by
  intro nodes
  induction nodes with
  | nil => intro ks ksF h; simp only [kindsOfS, Option.some.injEq] at h; subst h; exact ⟨le_refl _, fun _ _ => rfl⟩
  | cons n ns ih =>
    intro ks ksF h
    simp only [kindsOfS, Option.bind_eq_bind] at h
    cases hk : kindStepS ks n with
    | none => simp [hk] at h
    | some k =>
      simp only [hk, Option.bind_some] at h
      obtain ⟨h1, h2⟩ := ih _ _ h
      simp only [List.length_append, List.length_singleton] at h1 h2
      refine ⟨by omega, fun i hi => ?_⟩
      rw [h2 i (by omega), List.getElem?_append_left hi]

/-- **Refinement with sqrt, node lists.** -/
theorem simS (hf : WF f) (S0 : ℚ → ℚ) (lib : Libm) (ins : List Nat) (insQ : List ℚ) (hins : InsRel f ins insQ) :
    ∀ (nodes : List Node) (kinds kindsF : List Bool) (env envF : Array Nat) (envQ : List ℚ),
      Inv f kinds env envQ → kindsOfS nodes kinds = some kindsF → evalNodes f lib ins nodes env = some envF →
      (∀ (i : Nat) (v : Nat), envF[i]? = some v → kindsF[i]? = some false → isFiniteBits f v = true) →
      ∃ envQF, evalNodesQS f (rne (qf f hf.hp)) (Ssoft f S0) insQ nodes envQ = some envQF ∧ Inv f kindsF envF envQF := by
  intro nodes
  induction nodes with
  | nil =>
    intro kinds kindsF env envF envQ hinv hk he _
    simp only [kindsOfS, Option.some.injEq] at hk
    simp only [evalNodes, Option.some.injEq] at he
    subst hk; subst he
    exact ⟨envQ, rfl, hinv⟩
  | cons n ns ih =>
    intro kinds kindsF env envF envQ hinv hk he hfin
    simp only [kindsOfS, Option.bind_eq_bind] at hk
    simp only [evalNodes, Option.bind_eq_bind] at he
    cases hks : kindStepS kinds n with
    | none => simp [hks] at hk
    | some k =>
      cases hv : evalNode f lib ins env n with
      | none => simp [hv] at he
      | some v =>
        simp only [hks, hv, Option.bind_some] at hk he
        have hvF : envF[env.size]? = some v := by
          have := (evalNodes_prefix lib ins ns _ _ he).2 env.size (by simp)
          rw [this]; simp
        have hkF : kindsF[env.size]? = some k := by
          have := (kindsOfS_prefix ns _ _ hk).2 kinds.length (by simp)
          rw [← hinv.len1, this]; simp
        have hfv : k = false → isFiniteBits f v = true := by
          intro hkf; subst hkf; exact hfin env.size v hvF hkF
        obtain ⟨q, hq, hr⟩ := stepS hf S0 lib ins insQ hins kinds env envQ hinv n k hks v hv hfv
        obtain ⟨envQF, h1, h2⟩ := ih _ _ _ _ _ (inv_push hinv hr) hk he hfin
        refine ⟨envQF, ?_, h2⟩
        simp only [evalNodesQS, hq, Option.bind_eq_bind, Option.bind_some]
        exact h1

/-- **Refinement theorem with sqrt, programs.** -/
theorem refinesS (p : Prog) (hf : WF p.fmt) (S0 : ℚ → ℚ) (kinds : List Bool) (hk : kindsOfS p.nodes [] = some kinds)
    (lib : Libm) (ins : List Nat) (insQ : List ℚ) (hins : InsRel p.fmt ins insQ) (env : Array Nat)
    (he : evalNodes p.fmt lib ins p.nodes #[] = some env)
    (hfin : ∀ (i : Nat) (v : Nat), env[i]? = some v → kinds[i]? = some false → isFiniteBits p.fmt v = true)
    (outs : List Nat) (ho : p.eval lib ins = some outs) :
    ∃ qs, evalQS p.fmt (rne (qf p.fmt hf.hp)) (Ssoft p.fmt S0) p.nodes p.outs insQ = some qs ∧
      List.Forall₂ (fun (kv : Nat × Nat) (q : ℚ) => ∃ k, kinds[kv.1]? = some k ∧ Rv p.fmt k kv.2 q) (p.outs.zip outs) qs := by
  have hinv0 : Inv p.fmt [] #[] [] := ⟨rfl, rfl, fun i k hk => by simp at hk⟩
  obtain ⟨envQ, h1, h2⟩ := simS hf S0 lib ins insQ hins p.nodes [] kinds #[] env [] hinv0 hk he hfin
  unfold Prog.eval at ho
  simp only [he, Option.bind_eq_bind, Option.bind_some] at ho
  obtain ⟨qs, hq, hall⟩ := mapM_rel h2 p.outs outs ho
  refine ⟨qs, ?_, hall⟩
  unfold evalQS
  simp only [h1, Option.bind_eq_bind, Option.bind_some]
  exact hq

end FAVerif.Refine
