/-
Forward refinement ("absent overflow, decided on the rational side"): if the run over ℚ (round-to-nearest-even with an
unbounded exponent range, square-root oracle `Ssoft`) of a program of the arithmetic/comparison/select/sqrt fragment is
defined and every float node of it stays within ±Lmax, then the bit-exact run is defined, every float node of it is
finite, and it refines the ℚ-run.  This turns the conditional bit-level theorems ("whenever no float node is
non-finite") into unconditional ones on explicit input domains.
-/
import FAVerif.Lemmas.RefineS
import FAVerif.Lemmas.SoftFinite

namespace FAVerif.Refine
open FAVerif.IR FAVerif.FP FAVerif.FPQ FAVerif.SoftRound

variable {f : Fmt}

lemma evalNodeQS_det {r S : ℚ → ℚ} {ins env : List ℚ} {n : Node} {q q' : ℚ}
    (h : evalNodeQS f r S ins env n = some q) (h' : evalNodeQS f r S ins env n = some q') : q = q' := by
  rw [h] at h'; exact Option.some.inj h'

lemma valQ_zero_iff {s : Bool} {m : Nat} {e : Int} : valQ s m e = 0 ↔ m = 0 := by
  constructor
  · intro h; by_contra hm; exact valQ_ne_zero hm h
  · rintro rfl; simp [valQ]

set_option maxHeartbeats 1000000 in
/-- one node, forward: from the rational side to the bit level -/
theorem fwd_step (hf : WF f) (hL : 4 ≤ Lmax f) (S0 : ℚ → ℚ) (lib : Libm) (ins : List Nat) (insQ : List ℚ) (hins : InsRel f ins insQ)
    (kinds : List Bool) (env : Array Nat) (envQ : List ℚ) (hinv : Inv f kinds env envQ) (n : Node) (k : Bool)
    (hk : kindStepS kinds n = some k) (q : ℚ)
    (hq : evalNodeQS f (rne (qf f hf.hp)) (Ssoft f S0) insQ envQ n = some q) (hb : k = false → |q| ≤ Lmax f) :
    ∃ v, evalNode f lib ins env n = some v ∧ (k = false → isFiniteBits f v = true) := by
  by_cases hop : n.op = .sqrt
  · unfold kindStepS at hk
    rw [if_pos hop] at hk
    split at hk
    · rename_i hk0
      cases hk
      obtain ⟨a, qa, ea, eqa, ra⟩ := arg_rel hinv hk0
      obtain ⟨s, m, e, da, hqa, fa⟩ := float_decode ra
      unfold evalNodeQS at hq
      simp only [hop, eqa, Option.bind_eq_bind, Option.bind_some] at hq
      refine ⟨FP.sqrt f a, ?_, fun _ => ?_⟩
      · unfold evalNode; simp only [hop, ea, Option.bind_eq_bind, Option.bind_some, Option.pure_def]
      · by_cases hm : m = 0
        · have hs : FP.sqrt f a = a := by unfold FP.sqrt; simp [da, hm]
          rw [hs]; exact fa
        · cases s with
          | true =>
            exfalso
            have hneg : qa < 0 := by
              rw [hqa]; simp only [valQ, if_true]
              have : (0 : ℚ) < (m : ℚ) * 2 ^ e := by
                have : (0 : ℚ) < m := by exact_mod_cast Nat.pos_of_ne_zero hm
                positivity
              linarith
            rw [if_pos hneg] at hq; cases hq
          | false => exact sqrt_finite f hf hL a m e da hm
    · cases hk
  · have hk' : kindStep kinds n = some k := by unfold kindStepS at hk; rwa [if_neg hop] at hk
    rw [evalNodeQS_of_ne _ _ _ _ _ hop] at hq
    unfold kindStep at hk'
    unfold evalNodeQ at hq
    unfold evalNode
    cases hop' : n.op <;> simp only [hop'] at hk' hq ⊢
    case input =>
      cases hk'
      have hlt : n.imm < insQ.length := by
        by_contra hc; push Not at hc
        rw [List.getElem?_eq_none hc] at hq; cases hq
      have hlt' : n.imm < ins.length := by rw [hins.1]; exact hlt
      refine ⟨ins[n.imm], List.getElem?_eq_getElem hlt', fun _ => ?_⟩
      obtain ⟨q', _, hr⟩ := hins.2 n.imm ins[n.imm] (List.getElem?_eq_getElem hlt')
      exact (rv_float hr).1
    case const =>
      cases hk'
      refine ⟨n.imm, rfl, fun _ => ?_⟩
      cases hd : decode f n.imm with
      | fin s m e => exact finite_of_decode f _ _ _ _ hd
      | inf s => rw [hd] at hq; simp [V.toRat?] at hq
      | nan => rw [hd] at hq; simp [V.toRat?] at hq
    case bconst =>
      split at hk'
      · cases hk'; exact ⟨n.imm, rfl, fun h => by cases h⟩
      · cases hk'
    case add =>
      split at hk'
      · rename_i hkk
        cases hk'
        obtain ⟨a, qa, ea, eqa, ra⟩ := arg_rel hinv hkk.1
        obtain ⟨b, qb, eb, eqb, rb⟩ := arg_rel hinv hkk.2
        simp only [ea, eb, eqa, eqb, Option.bind_eq_bind, Option.bind_some, Option.some.injEq] at hq ⊢
        obtain ⟨s, m, e, da, rfl, fa⟩ := float_decode ra
        obtain ⟨t, m', e', db, rfl, fb⟩ := float_decode rb
        refine ⟨_, rfl, fun _ => add_finite f hf a b s t m m' e e' da db ?_⟩
        rw [hq]; exact hb rfl
      · cases hk'
    case sub =>
      split at hk'
      · rename_i hkk
        cases hk'
        obtain ⟨a, qa, ea, eqa, ra⟩ := arg_rel hinv hkk.1
        obtain ⟨b, qb, eb, eqb, rb⟩ := arg_rel hinv hkk.2
        simp only [ea, eb, eqa, eqb, Option.bind_eq_bind, Option.bind_some, Option.some.injEq] at hq ⊢
        obtain ⟨s, m, e, da, rfl, fa⟩ := float_decode ra
        obtain ⟨t, m', e', db, rfl, fb⟩ := float_decode rb
        refine ⟨_, rfl, fun _ => sub_finite f hf a b s t m m' e e' da db ?_⟩
        rw [hq]; exact hb rfl
      · cases hk'
    case mul =>
      split at hk'
      · rename_i hkk
        cases hk'
        obtain ⟨a, qa, ea, eqa, ra⟩ := arg_rel hinv hkk.1
        obtain ⟨b, qb, eb, eqb, rb⟩ := arg_rel hinv hkk.2
        simp only [ea, eb, eqa, eqb, Option.bind_eq_bind, Option.bind_some, Option.some.injEq] at hq ⊢
        obtain ⟨s, m, e, da, rfl, fa⟩ := float_decode ra
        obtain ⟨t, m', e', db, rfl, fb⟩ := float_decode rb
        refine ⟨_, rfl, fun _ => mul_finite f hf a b s t m m' e e' da db ?_⟩
        rw [hq]; exact hb rfl
      · cases hk'
    case div =>
      split at hk'
      · rename_i hkk
        cases hk'
        obtain ⟨a, qa, ea, eqa, ra⟩ := arg_rel hinv hkk.1
        obtain ⟨b, qb, eb, eqb, rb⟩ := arg_rel hinv hkk.2
        simp only [ea, eb, eqa, eqb, Option.bind_eq_bind, Option.bind_some] at hq ⊢
        obtain ⟨s, m, e, da, rfl, fa⟩ := float_decode ra
        obtain ⟨t, m', e', db, rfl, fb⟩ := float_decode rb
        by_cases hz : valQ t m' e' = 0
        · rw [if_pos hz] at hq; cases hq
        · rw [if_neg hz] at hq
          have hn : m' ≠ 0 := fun h0 => hz (valQ_zero_iff.mpr h0)
          refine ⟨_, rfl, fun _ => div_finite f hf a b s t m m' e e' da db hn ?_⟩
          have := Option.some.inj hq
          rw [this]; exact hb rfl
      · cases hk'
    case neg =>
      split at hk'
      · rename_i hkk
        cases hk'
        obtain ⟨a, qa, ea, eqa, ra⟩ := arg_rel hinv hkk
        simp only [ea, Option.bind_eq_bind, Option.bind_some]
        obtain ⟨fa, va⟩ := rv_float ra
        exact ⟨_, rfl, fun _ => (neg_val hf fa va).1⟩
      · cases hk'
    case abs =>
      split at hk'
      · rename_i hkk
        cases hk'
        obtain ⟨a, qa, ea, eqa, ra⟩ := arg_rel hinv hkk
        simp only [ea, Option.bind_eq_bind, Option.bind_some]
        obtain ⟨fa, va⟩ := rv_float ra
        exact ⟨_, rfl, fun _ => (abs_val hf fa va).1⟩
      · cases hk'
    case pymax =>
      split at hk'
      · rename_i hkk
        cases hk'
        obtain ⟨a, qa, ea, eqa, ra⟩ := arg_rel hinv hkk.1
        obtain ⟨b, qb, eb, eqb, rb⟩ := arg_rel hinv hkk.2
        simp only [ea, eb, Option.bind_eq_bind, Option.bind_some]
        refine ⟨_, rfl, fun _ => ?_⟩
        split
        · exact (rv_float rb).1
        · exact (rv_float ra).1
      · cases hk'
    case pymin =>
      split at hk'
      · rename_i hkk
        cases hk'
        obtain ⟨a, qa, ea, eqa, ra⟩ := arg_rel hinv hkk.1
        obtain ⟨b, qb, eb, eqb, rb⟩ := arg_rel hinv hkk.2
        simp only [ea, eb, Option.bind_eq_bind, Option.bind_some]
        refine ⟨_, rfl, fun _ => ?_⟩
        split
        · exact (rv_float rb).1
        · exact (rv_float ra).1
      · cases hk'
    case lt =>
      split at hk'
      · rename_i hkk
        cases hk'
        obtain ⟨a, qa, ea, eqa, ra⟩ := arg_rel hinv hkk.1
        obtain ⟨b, qb, eb, eqb, rb⟩ := arg_rel hinv hkk.2
        simp only [ea, eb, Option.bind_eq_bind, Option.bind_some]
        exact ⟨_, rfl, fun h => by cases h⟩
      · cases hk'
    case le =>
      split at hk'
      · rename_i hkk
        cases hk'
        obtain ⟨a, qa, ea, eqa, ra⟩ := arg_rel hinv hkk.1
        obtain ⟨b, qb, eb, eqb, rb⟩ := arg_rel hinv hkk.2
        simp only [ea, eb, Option.bind_eq_bind, Option.bind_some]
        exact ⟨_, rfl, fun h => by cases h⟩
      · cases hk'
    case gt =>
      split at hk'
      · rename_i hkk
        cases hk'
        obtain ⟨a, qa, ea, eqa, ra⟩ := arg_rel hinv hkk.1
        obtain ⟨b, qb, eb, eqb, rb⟩ := arg_rel hinv hkk.2
        simp only [ea, eb, Option.bind_eq_bind, Option.bind_some]
        exact ⟨_, rfl, fun h => by cases h⟩
      · cases hk'
    case ge =>
      split at hk'
      · rename_i hkk
        cases hk'
        obtain ⟨a, qa, ea, eqa, ra⟩ := arg_rel hinv hkk.1
        obtain ⟨b, qb, eb, eqb, rb⟩ := arg_rel hinv hkk.2
        simp only [ea, eb, Option.bind_eq_bind, Option.bind_some]
        exact ⟨_, rfl, fun h => by cases h⟩
      · cases hk'
    case eq =>
      split at hk'
      · rename_i hkk
        cases hk'
        obtain ⟨a, qa, ea, eqa, ra⟩ := arg_rel hinv hkk.1
        obtain ⟨b, qb, eb, eqb, rb⟩ := arg_rel hinv hkk.2
        simp only [ea, eb, Option.bind_eq_bind, Option.bind_some]
        exact ⟨_, rfl, fun h => by cases h⟩
      · cases hk'
    case ne =>
      split at hk'
      · rename_i hkk
        cases hk'
        obtain ⟨a, qa, ea, eqa, ra⟩ := arg_rel hinv hkk.1
        obtain ⟨b, qb, eb, eqb, rb⟩ := arg_rel hinv hkk.2
        simp only [ea, eb, Option.bind_eq_bind, Option.bind_some]
        exact ⟨_, rfl, fun h => by cases h⟩
      · cases hk'
    case and =>
      split at hk'
      · rename_i hkk
        cases hk'
        obtain ⟨a, qa, ea, eqa, ra⟩ := arg_rel hinv hkk.1
        obtain ⟨b, qb, eb, eqb, rb⟩ := arg_rel hinv hkk.2
        simp only [ea, eb, Option.bind_eq_bind, Option.bind_some]
        exact ⟨_, rfl, fun h => by cases h⟩
      · cases hk'
    case or =>
      split at hk'
      · rename_i hkk
        cases hk'
        obtain ⟨a, qa, ea, eqa, ra⟩ := arg_rel hinv hkk.1
        obtain ⟨b, qb, eb, eqb, rb⟩ := arg_rel hinv hkk.2
        simp only [ea, eb, Option.bind_eq_bind, Option.bind_some]
        exact ⟨_, rfl, fun h => by cases h⟩
      · cases hk'
    case not =>
      split at hk'
      · rename_i hkk
        cases hk'
        obtain ⟨a, qa, ea, eqa, ra⟩ := arg_rel hinv hkk
        simp only [ea, Option.bind_eq_bind, Option.bind_some]
        exact ⟨_, rfl, fun h => by cases h⟩
      · cases hk'
    case isfinite =>
      split at hk'
      · rename_i hkk
        cases hk'
        obtain ⟨a, qa, ea, eqa, ra⟩ := arg_rel hinv hkk
        simp only [ea, Option.bind_eq_bind, Option.bind_some]
        exact ⟨_, rfl, fun h => by cases h⟩
      · cases hk'
    case select =>
      split at hk'
      · rename_i hkk
        obtain ⟨c, qc, ec, eqc, rc⟩ := arg_rel hinv hkk.1
        have hk1 : (n.args[1]? >>= fun j => kinds[j]?) = some k := hk'
        have hk2 : (n.args[2]? >>= fun j => kinds[j]?) = some k := by rw [← hkk.2]; exact hk'
        obtain ⟨a, qa, ea, eqa, ra⟩ := arg_rel hinv hk1
        obtain ⟨b, qb, eb, eqb, rb⟩ := arg_rel hinv hk2
        simp only [ec, ea, eb, Option.bind_eq_bind, Option.bind_some]
        refine ⟨_, rfl, fun hkf => ?_⟩
        subst hkf
        split
        · exact (rv_float ra).1
        · exact (rv_float rb).1
      · cases hk'
    all_goals (cases hk')

lemma evalNodesQS_prefix (r S : ℚ → ℚ) (insQ : List ℚ) :
    ∀ (nodes : List Node) (env envF : List ℚ), evalNodesQS f r S insQ nodes env = some envF →
      env.length ≤ envF.length ∧ ∀ i, i < env.length → envF[i]? = env[i]? := by
  intro nodes
  induction nodes with
  | nil => intro env envF h; simp only [evalNodesQS, Option.some.injEq] at h; subst h; exact ⟨le_refl _, fun _ _ => rfl⟩
  | cons n ns ih =>
    intro env envF h
    simp only [evalNodesQS, Option.bind_eq_bind] at h
    cases hv : evalNodeQS f r S insQ env n with
    | none => simp [hv] at h
    | some v =>
      simp only [hv, Option.bind_some] at h
      obtain ⟨h1, h2⟩ := ih _ _ h
      simp only [List.length_append, List.length_singleton] at h1 h2
      refine ⟨by omega, fun i hi => ?_⟩
      rw [h2 i (by omega), List.getElem?_append_left hi]

/-- **Forward refinement, node lists.** -/
theorem fwdS (hf : WF f) (hL : 4 ≤ Lmax f) (S0 : ℚ → ℚ) (lib : Libm) (ins : List Nat) (insQ : List ℚ) (hins : InsRel f ins insQ) :
    ∀ (nodes : List Node) (kinds kindsF : List Bool) (env : Array Nat) (envQ envQF : List ℚ),
      Inv f kinds env envQ → kindsOfS nodes kinds = some kindsF →
      evalNodesQS f (rne (qf f hf.hp)) (Ssoft f S0) insQ nodes envQ = some envQF →
      (∀ (i : Nat) (q : ℚ), envQF[i]? = some q → kindsF[i]? = some false → |q| ≤ Lmax f) →
      ∃ envF, evalNodes f lib ins nodes env = some envF ∧ Inv f kindsF envF envQF := by
  intro nodes
  induction nodes with
  | nil =>
    intro kinds kindsF env envQ envQF hinv hk he _
    simp only [kindsOfS, Option.some.injEq] at hk
    simp only [evalNodesQS, Option.some.injEq] at he
    subst hk; subst he
    exact ⟨env, rfl, hinv⟩
  | cons n ns ih =>
    intro kinds kindsF env envQ envQF hinv hk he hbd
    simp only [kindsOfS, Option.bind_eq_bind] at hk
    simp only [evalNodesQS, Option.bind_eq_bind] at he
    cases hks : kindStepS kinds n with
    | none => simp [hks] at hk
    | some k =>
      cases hq : evalNodeQS f (rne (qf f hf.hp)) (Ssoft f S0) insQ envQ n with
      | none => simp [hq] at he
      | some q =>
        simp only [hks, hq, Option.bind_some] at hk he
        have hqF : envQF[envQ.length]? = some q := by
          have := (evalNodesQS_prefix _ _ insQ ns _ _ he).2 envQ.length (by simp)
          rw [this]; simp
        have hkF : kindsF[envQ.length]? = some k := by
          have := (kindsOfS_prefix ns _ _ hk).2 kinds.length (by simp)
          rw [hinv.len2, ← hinv.len1, this]; simp
        have hb : k = false → |q| ≤ Lmax f := by
          intro hkf; subst hkf; exact hbd _ q hqF hkF
        obtain ⟨v, hv, hfv⟩ := fwd_step hf hL S0 lib ins insQ hins kinds env envQ hinv n k hks q hq hb
        obtain ⟨q', hq', hr⟩ := stepS hf S0 lib ins insQ hins kinds env envQ hinv n k hks v hv hfv
        have : q' = q := evalNodeQS_det hq' hq
        subst this
        obtain ⟨envF, h1, h2⟩ := ih _ _ _ _ _ (inv_push hinv hr) hk he hbd
        refine ⟨envF, ?_, h2⟩
        simp only [evalNodes, hv, Option.bind_eq_bind, Option.bind_some]
        exact h1

/-- every float node of a related pair of runs is finite -/
lemma inv_finite {kinds : List Bool} {env : Array Nat} {envQ : List ℚ} (hinv : Inv f kinds env envQ) :
    ∀ (i : Nat) (v : Nat), env[i]? = some v → kinds[i]? = some false → isFiniteBits f v = true := by
  intro i v hv hk
  obtain ⟨v0, q0, e1, _, r⟩ := hinv.rel i false hk
  rw [hv] at e1; cases e1
  exact (rv_float r).1

end FAVerif.Refine
