/-
Helper lemmas for C15 (model: Models/Mpf.lean).  Only single Mathlib tactic modules are imported.
-/
import FAVerif.Models.Mpf
import Mathlib.Tactic.Linarith
import Mathlib.Tactic.Ring

namespace FAVerif.Mpf
open FAVerif.FP

/-! ## integers: bit length, trailing zeros -/

theorem two_pow_pos' (n : Nat) : 0 < 2 ^ n := Nat.two_pow_pos n

theorem bitlen_zero : bitlen 0 = 0 := by simp [bitlen]

theorem bitlen_bounds {m : Nat} (h : m ≠ 0) : 2 ^ (bitlen m - 1) ≤ m ∧ m < 2 ^ bitlen m ∧ 1 ≤ bitlen m := by
  unfold bitlen
  simp only [h, if_false]
  refine ⟨?_, Nat.lt_log2_self, by omega⟩
  simpa using Nat.log2_self_le h

theorem bitlen_eq_of {m k : Nat} (h1 : 2 ^ k ≤ m) (h2 : m < 2 ^ (k + 1)) : bitlen m = k + 1 := by
  have hm : m ≠ 0 := by have := two_pow_pos' k; omega
  unfold bitlen
  simp only [hm, if_false]
  have a : m.log2 < k + 1 := (Nat.log2_lt hm).2 h2
  have b : ¬ m.log2 < k := by
    intro hlt
    have := (Nat.log2_lt hm).1 hlt
    omega
  omega

theorem bitlen_le_of_lt {m k : Nat} (h : m < 2 ^ k) : bitlen m ≤ k := by
  by_cases hm : m = 0
  · simp [hm, bitlen_zero]
  · unfold bitlen
    simp only [hm, if_false]
    have := (Nat.log2_lt hm).2 h
    omega

theorem lt_of_bitlen_le {m k : Nat} (h : bitlen m ≤ k) : m < 2 ^ k := by
  by_cases hm : m = 0
  · subst hm; exact two_pow_pos' k
  · have := (bitlen_bounds hm).2.1
    exact Nat.lt_of_lt_of_le this (Nat.pow_le_pow_right (by omega) h)

theorem bitlen_mul_pow {m : Nat} (h : m ≠ 0) (t : Nat) : bitlen (m * 2 ^ t) = bitlen m + t := by
  obtain ⟨h1, h2, h3⟩ := bitlen_bounds h
  have e : bitlen m + t = (bitlen m - 1 + t) + 1 := by omega
  rw [e]
  apply bitlen_eq_of
  · rw [Nat.pow_add]; exact Nat.mul_le_mul_right _ h1
  · have : bitlen m - 1 + t + 1 = bitlen m + t := by omega
    rw [this, Nat.pow_add]
    exact Nat.mul_lt_mul_of_pos_right h2 (two_pow_pos' t)

theorem bitlen_two_pow (k : Nat) : bitlen (2 ^ k) = k + 1 :=
  bitlen_eq_of (Nat.le_refl _) (Nat.pow_lt_pow_right (by omega) (by omega))

/-! trailing zeros -/
theorem tz_spec (n : Nat) (h : n ≠ 0) : n / 2 ^ tz n * 2 ^ tz n = n ∧ (n / 2 ^ tz n) % 2 = 1 := by
  induction n using Nat.strongRecOn with
  | _ n ih =>
    rw [tz]
    simp only [h, dite_false]
    by_cases hp : n % 2 = 0
    · simp only [hp, if_true]
      have hn2 : n / 2 ≠ 0 := by omega
      obtain ⟨a, b⟩ := ih (n / 2) (by omega) hn2
      have e : n / 2 ^ (tz (n / 2) + 1) = n / 2 / 2 ^ tz (n / 2) := by
        rw [Nat.pow_succ, Nat.mul_comm, Nat.div_div_eq_div_mul]
      rw [e]
      refine ⟨?_, b⟩
      rw [Nat.pow_succ, ← Nat.mul_assoc, a]; omega
    · simp only [hp, if_false]
      simp
      omega

/-! ## nearest-even division -/

/-- characterisation of a nearest-even quotient `q` of `m / D` -/
def IsRNE (m D q : Nat) : Prop :=
  2 * (q * D) ≤ 2 * m + D ∧ 2 * m ≤ 2 * (q * D) + D ∧
  (2 * m = 2 * (q * D) + D → q % 2 = 0) ∧ (2 * m + D = 2 * (q * D) → q % 2 = 0)

theorem rneDiv_spec (m n : Nat) : IsRNE m (2 ^ n) (rneDiv m n) := by
  have hD : 0 < 2 ^ n := Nat.two_pow_pos n
  generalize hDd : 2 ^ n = D at *
  have hm := Nat.div_add_mod m D
  have hr := Nat.mod_lt m hD
  unfold rneDiv IsRNE
  simp only [hDd]
  generalize hq : m / D = q at *
  generalize hrr : m % D = r at *
  have e1 : (q + 1) * D = q * D + D := by ring
  have e2 : D * q = q * D := by ring
  split
  · rename_i h
    rw [e1]
    rcases h with h | ⟨h, ho⟩
    · refine ⟨by omega, by omega, by omega, by omega⟩
    · refine ⟨by omega, by omega, by omega, ?_⟩
      intro _; omega
  · rename_i h
    have h' : ¬ (D < 2 * r) ∧ ¬ (2 * r = D ∧ q % 2 = 1) := by
      constructor
      · intro a; exact h (Or.inl a)
      · intro a; exact h (Or.inr a)
    refine ⟨by omega, by omega, ?_, by omega⟩
    intro a
    have : 2 * r = D := by omega
    have := h'.2
    omega

theorem isRNE_unique {m D q q' : Nat} (hD : 0 < D) (h : IsRNE m D q) (h' : IsRNE m D q') : q = q' := by
  unfold IsRNE at h h'
  rcases Nat.lt_trichotomy q q' with lt | eq | gt
  · exfalso
    have : (q + 1) * D ≤ q' * D := Nat.mul_le_mul_right D lt
    have e1 : (q + 1) * D = q * D + D := by ring
    rw [e1] at this
    obtain ⟨a1, a2, a3, a4⟩ := h
    obtain ⟨b1, b2, b3, b4⟩ := h'
    have hq : q' * D = q * D + D := by omega
    have t1 := a3 (by omega)
    have t2 := b4 (by omega)
    have : q' = q + 1 := by
      have : q' * D = (q + 1) * D := by rw [e1]; exact hq
      exact Nat.eq_of_mul_eq_mul_right hD this
    omega
  · exact eq
  · exfalso
    have : (q' + 1) * D ≤ q * D := Nat.mul_le_mul_right D gt
    have e1 : (q' + 1) * D = q' * D + D := by ring
    rw [e1] at this
    obtain ⟨a1, a2, a3, a4⟩ := h
    obtain ⟨b1, b2, b3, b4⟩ := h'
    have hq : q * D = q' * D + D := by omega
    have t1 := b3 (by omega)
    have t2 := a4 (by omega)
    have : q = q' + 1 := by
      have : q * D = (q' + 1) * D := by rw [e1]; exact hq
      exact Nat.eq_of_mul_eq_mul_right hD this
    omega

theorem rneDiv_eq_of {m n q : Nat} (h : IsRNE m (2 ^ n) q) : rneDiv m n = q :=
  isRNE_unique (Nat.two_pow_pos n) (rneDiv_spec m n) h

theorem rneDiv_zero (m : Nat) : rneDiv m 0 = m := by
  apply rneDiv_eq_of
  unfold IsRNE
  simp only [Nat.pow_zero, Nat.mul_one]
  refine ⟨by omega, by omega, by omega, by omega⟩

theorem rneDiv_mul (a n : Nat) : rneDiv (a * 2 ^ n) n = a := by
  apply rneDiv_eq_of
  have := Nat.two_pow_pos n
  unfold IsRNE
  refine ⟨by omega, by omega, by omega, by omega⟩

theorem rneDiv_scale (m n k : Nat) : rneDiv (m * 2 ^ k) (n + k) = rneDiv m n := by
  apply rneDiv_eq_of
  have h := rneDiv_spec m n
  have hk := Nat.two_pow_pos k
  generalize rneDiv m n = q at *
  unfold IsRNE at *
  rw [Nat.pow_add]
  generalize 2 ^ n = D at *
  generalize 2 ^ k = K at *
  obtain ⟨a1, a2, a3, a4⟩ := h
  have e1 : 2 * (q * (D * K)) = (2 * (q * D)) * K := by ring
  have e2 : 2 * (m * K) + D * K = (2 * m + D) * K := by ring
  have e3 : 2 * (m * K) = (2 * m) * K := by ring
  have e4 : 2 * (q * (D * K)) + D * K = (2 * (q * D) + D) * K := by ring
  refine ⟨?_, ?_, ?_, ?_⟩
  · rw [e1, e2]; exact Nat.mul_le_mul_right K a1
  · rw [e3, e4]; exact Nat.mul_le_mul_right K a2
  · rw [e3, e4]; intro h; exact a3 (Nat.eq_of_mul_eq_mul_right hk h)
  · rw [e1, e2]; intro h; exact a4 (Nat.eq_of_mul_eq_mul_right hk h)

theorem rneDiv_mono {m m' : Nat} (n : Nat) (h : m ≤ m') : rneDiv m n ≤ rneDiv m' n := by
  have s := rneDiv_spec m n
  have s' := rneDiv_spec m' n
  have hD := Nat.two_pow_pos n
  generalize rneDiv m n = q at *
  generalize rneDiv m' n = q' at *
  generalize 2 ^ n = D at *
  by_contra hlt
  have hlt : q' + 1 ≤ q := by omega
  have : (q' + 1) * D ≤ q * D := Nat.mul_le_mul_right D hlt
  have e1 : (q' + 1) * D = q' * D + D := by ring
  rw [e1] at this
  unfold IsRNE at s s'
  obtain ⟨a1, a2, a3, a4⟩ := s
  obtain ⟨b1, b2, b3, b4⟩ := s'
  have hq : q * D = q' * D + D := by omega
  have t1 := b3 (by omega)
  have t2 := a4 (by omega)
  have : q = q' + 1 := by
    have : q * D = (q' + 1) * D := by rw [e1]; exact hq
    exact Nat.eq_of_mul_eq_mul_right hD this
  omega

/-- bounds: `2^(k+n) ≤ m → 2^k ≤ rneDiv m n`, `m ≤ 2^(k+n) → rneDiv m n ≤ 2^k` -/
theorem rneDiv_ge_pow {m n k : Nat} (h : 2 ^ (k + n) ≤ m) : 2 ^ k ≤ rneDiv m n := by
  have := rneDiv_mono n h
  rwa [Nat.pow_add, rneDiv_mul] at this

theorem rneDiv_le_pow {m n k : Nat} (h : m ≤ 2 ^ (k + n)) : rneDiv m n ≤ 2 ^ k := by
  have := rneDiv_mono n h
  rwa [Nat.pow_add, rneDiv_mul] at this

/-- the half-way point above an odd quotient rounds up: threshold lemma. -/
theorem rneDiv_ge_succ_odd {m n a : Nat} (hn : 1 ≤ n) (ha : a % 2 = 1) :
    a + 1 ≤ rneDiv m n ↔ a * 2 ^ n + 2 ^ (n - 1) ≤ m := by
  have s := rneDiv_spec m n
  have hD := Nat.two_pow_pos (n - 1)
  have hDD : 2 ^ n = 2 * 2 ^ (n - 1) := by
    have : n = (n - 1) + 1 := by omega
    rw [this, Nat.pow_succ]; simp; ring
  generalize rneDiv m n = q at *
  rw [hDD] at s ⊢
  generalize 2 ^ (n - 1) = H at *
  unfold IsRNE at s
  obtain ⟨a1, a2, a3, a4⟩ := s
  constructor
  · intro h
    have : (a + 1) * (2 * H) ≤ q * (2 * H) := Nat.mul_le_mul_right _ h
    have e : (a + 1) * (2 * H) = a * (2 * H) + 2 * H := by ring
    omega
  · intro h
    by_contra hlt
    have hlt : q ≤ a := by omega
    have : q * (2 * H) ≤ a * (2 * H) := Nat.mul_le_mul_right _ hlt
    have hq : q * (2 * H) = a * (2 * H) := by omega
    have : q = a := Nat.eq_of_mul_eq_mul_right (by omega) hq
    have := a3 (by omega)
    omega

/-! ## formats -/

structure Valid (f : Fmt) : Prop where
  p2 : 2 ≤ f.p
  p53 : f.p ≤ 53
  ew2 : 2 ≤ f.ew
  pe : f.p ≤ 2 ^ (f.ew - 1)

theorem fmt_facts {f : Fmt} (v : Valid f) :
    ∃ B : Nat, B = 2 ^ (f.ew - 1) ∧ (f.p : Int) ≤ B ∧ 2 ≤ B ∧ f.emin = 3 - (B : Int) - f.p ∧ f.emaxUlp = (B : Int) - f.p
      ∧ f.expMax = 2 * B - 1 := by
  refine ⟨2 ^ (f.ew - 1), rfl, ?_, ?_, ?_, ?_, ?_⟩
  · exact_mod_cast v.pe
  · have : 2 ^ 1 ≤ 2 ^ (f.ew - 1) := Nat.pow_le_pow_right (by omega) (by have := v.ew2; omega)
    simpa using this
  · unfold Fmt.emin Fmt.bias
    have := v.p2
    have hp : ((f.p - 1 : Nat) : Int) = (f.p : Int) - 1 := by omega
    have hi : (2 : Int) ^ (f.ew - 1) = ((2 ^ (f.ew - 1) : Nat) : Int) := by norm_cast
    rw [hp, hi]
    omega
  · have hB : 2 ^ f.ew = 2 * 2 ^ (f.ew - 1) := by
      have : f.ew = (f.ew - 1) + 1 := by have := v.ew2; omega
      conv_lhs => rw [this, Nat.pow_succ]
      ring
    have h2 : 2 ≤ 2 ^ (f.ew - 1) := by
      have : 2 ^ 1 ≤ 2 ^ (f.ew - 1) := Nat.pow_le_pow_right (by omega) (by have := v.ew2; omega)
      simpa using this
    unfold Fmt.emaxUlp Fmt.expMax Fmt.emin Fmt.bias
    rw [hB]
    have := v.p2
    have hp : ((f.p - 1 : Nat) : Int) = (f.p : Int) - 1 := by omega
    have hc : ((2 * 2 ^ (f.ew - 1) - 1 - 2 : Nat) : Int) = 2 * ((2 ^ (f.ew - 1) : Nat) : Int) - 3 := by omega
    have hi : (2 : Int) ^ (f.ew - 1) = ((2 ^ (f.ew - 1) : Nat) : Int) := by norm_cast
    rw [hp, hc, hi]
    omega
  · have hB : 2 ^ f.ew = 2 * 2 ^ (f.ew - 1) := by
      have : f.ew = (f.ew - 1) + 1 := by have := v.ew2; omega
      conv_lhs => rw [this, Nat.pow_succ]
      ring
    unfold Fmt.expMax
    rw [hB]

/-! ## normalize, scale invariance, short significands -/

/-- the p-bit nearest-even significand of `man` -/
def q1 (p man : Nat) : Nat := rneDiv man (bitlen man - p)

/-- exponent just above the p-bit rounding of `man·2^exp`: `RNE_p(x) ∈ [2^(top-1), 2^top)` -/
def top (p man : Nat) (exp : Int) : Int := exp + ((bitlen man - p : Nat) : Int) + (bitlen (q1 p man) : Nat)

theorem q1_short {p man : Nat} (h : bitlen man ≤ p) : q1 p man = man := by
  unfold q1
  have : bitlen man - p = 0 := by omega
  rw [this, rneDiv_zero]

theorem q1_long {p man : Nat} (hp : 1 ≤ p) (h : p < bitlen man) : 2 ^ (p - 1) ≤ q1 p man ∧ q1 p man ≤ 2 ^ p := by
  have hm : man ≠ 0 := by intro h0; subst h0; simp [bitlen_zero] at h
  obtain ⟨b1, b2, b3⟩ := bitlen_bounds hm
  unfold q1
  constructor
  · apply rneDiv_ge_pow
    have : p - 1 + (bitlen man - p) = bitlen man - 1 := by omega
    rw [this]; exact b1
  · apply rneDiv_le_pow
    have : p + (bitlen man - p) = bitlen man := by omega
    rw [this]; omega

theorem q1_ne_zero {p man : Nat} (hp : 1 ≤ p) (hm : man ≠ 0) : q1 p man ≠ 0 := by
  by_cases h : bitlen man ≤ p
  · rw [q1_short h]; exact hm
  · have := (q1_long (man := man) hp (by omega)).1
    have := Nat.two_pow_pos (p - 1)
    omega

theorem normalize_n (s : Bool) {man : Nat} (exp : Int) {prec : Nat} (hm : man ≠ 0) (hp : 1 ≤ prec) :
    ∃ t : Nat, (normalize s man exp prec .n).sign = s ∧
      (normalize s man exp prec .n).man * 2 ^ t = q1 prec man ∧
      (normalize s man exp prec .n).exp = exp + ((bitlen man - prec : Nat) : Int) + (t : Int) ∧
      (normalize s man exp prec .n).bc = bitlen (normalize s man exp prec .n).man ∧
      (normalize s man exp prec .n).man % 2 = 1 := by
  have hq := q1_ne_zero hp hm
  have e : (if bitlen man - prec = 0 then man else shiftRnd Rnd.n s man (bitlen man - prec)) = q1 prec man := by
    unfold q1
    split
    · rename_i h; rw [h, rneDiv_zero]
    · rfl
  unfold normalize
  simp only [hm, if_false, e, hq]
  obtain ⟨a, b⟩ := tz_spec (q1 prec man) hq
  refine ⟨tz (q1 prec man), ?_, ?_, ?_, ?_, ?_⟩ <;> trivial

theorem shiftLoop_le {l m : Nat} (e : Int) (h : m ≤ l) : shiftLoop l m e = (m, e) := by
  rw [shiftLoop]
  have : ¬ l < m := by omega
  simp [this]

/-! scale invariance -/
theorem rne_scale (m t : Nat) (e g : Int) : rne (m * 2 ^ t) e g = rne m (e + t) g := by
  unfold rne
  by_cases h1 : g ≤ e
  · have h2 : g ≤ e + t := by omega
    simp only [h1, h2, if_true]
    have : (e + t - g).toNat = t + (e - g).toNat := by omega
    rw [this, Nat.pow_add]; ring
  · simp only [h1, if_false]
    by_cases h2 : g ≤ e + t
    · simp only [h2, if_true]
      have hd : t = (e + t - g).toNat + (g - e).toNat := by omega
      have : m * 2 ^ t = (m * 2 ^ (e + t - g).toNat) * 2 ^ (g - e).toNat := by
        conv_lhs => rw [hd, Nat.pow_add]
        ring
      rw [this, rneDiv_mul]
    · simp only [h2, if_false]
      have : (g - e).toNat = (g - (e + t)).toNat + t := by omega
      rw [this, rneDiv_scale]

theorem roundV_scale (f : Fmt) {m : Nat} (hm : m ≠ 0) (t : Nat) (e : Int) :
    roundV f (m * 2 ^ t) e = roundV f m (e + t) := by
  have h2 : m * 2 ^ t ≠ 0 := by
    have := Nat.two_pow_pos t
    exact Nat.mul_ne_zero hm (by omega)
  unfold roundV
  simp only [hm, h2, if_false]
  rw [bitlen_mul_pow hm, rne_scale]
  have : ((bitlen m + t : Nat) : Int) + e - f.p = (bitlen m : Int) + (e + t) - f.p := by push_cast; ring
  rw [this]

/-- a significand of at most `p` bits never carries -/
theorem rne_short_lt {p m : Nat} (hp : 1 ≤ p) (hm : m ≠ 0) (hs : bitlen m ≤ p) (e0 e : Int)
    (he : (bitlen m : Int) + e0 - p ≤ e) : rne m e0 e < 2 ^ p := by
  have hlt := lt_of_bitlen_le hs
  unfold rne
  split
  · rename_i h
    have h1 : (e0 - e).toNat ≤ p - bitlen m := by omega
    have := (bitlen_bounds hm).2.1
    calc m * 2 ^ (e0 - e).toNat < 2 ^ bitlen m * 2 ^ (e0 - e).toNat :=
          Nat.mul_lt_mul_of_pos_right this (Nat.two_pow_pos _)
      _ = 2 ^ (bitlen m + (e0 - e).toNat) := by rw [Nat.pow_add]
      _ ≤ 2 ^ p := Nat.pow_le_pow_right (by omega) (by omega)
  · rename_i h
    have hd : 1 ≤ (e - e0).toNat := by omega
    have : rneDiv m (e - e0).toNat ≤ 2 ^ (p - 1) := by
      apply rneDiv_le_pow
      have : 2 ^ p ≤ 2 ^ (p - 1 + (e - e0).toNat) := Nat.pow_le_pow_right (by omega) (by omega)
      omega
    have : 2 ^ (p - 1) < 2 ^ p := Nat.pow_lt_pow_right (by omega) (by omega)
    omega

theorem roundV_short (f : Fmt) (hp : 1 ≤ f.p) {m : Nat} (hm : m ≠ 0) (hs : bitlen m ≤ f.p) (e0 : Int) :
    roundV f m e0 =
      if f.emaxUlp < max ((bitlen m : Int) + e0 - f.p) f.emin then .inf
      else .fin (rne m e0 (max ((bitlen m : Int) + e0 - f.p) f.emin)) (max ((bitlen m : Int) + e0 - f.p) f.emin) := by
  have := rne_short_lt hp hm hs e0 (max ((bitlen m : Int) + e0 - f.p) f.emin) (by omega)
  unfold roundV
  simp only [hm, if_false]
  have hne : rne m e0 (max ((bitlen m : Int) + e0 - f.p) f.emin) ≠ 2 ^ f.p := by omega
  simp only [hne, if_false]

/-! ## mpf2float = two-step rounding -/

theorem norm_facts (s : Bool) {man : Nat} (exp : Int) {p : Nat} (hm : man ≠ 0) (hp : 1 ≤ p) :
    (normalize s man exp p .n).sign = s ∧ (normalize s man exp p .n).man ≠ 0 ∧
    bitlen (normalize s man exp p .n).man ≤ p ∧
    (normalize s man exp p .n).bc = bitlen (normalize s man exp p .n).man ∧
    (normalize s man exp p .n).exp + ((normalize s man exp p .n).bc : Int) = top p man exp ∧
    (∀ f : Fmt, roundV f (normalize s man exp p .n).man (normalize s man exp p .n).exp
        = roundV f (q1 p man) (exp + ((bitlen man - p : Nat) : Int))) := by
  obtain ⟨t, h1, h2, h3, h4, h5⟩ := normalize_n s exp hm hp
  generalize normalize s man exp p .n = r at *
  have hq := q1_ne_zero hp hm
  have hr : r.man ≠ 0 := by intro h0; rw [h0] at h5; omega
  have hb : bitlen (q1 p man) = bitlen r.man + t := by rw [← h2, bitlen_mul_pow hr]
  refine ⟨h1, hr, ?_, h4, ?_, ?_⟩
  · by_cases hs : bitlen man ≤ p
    · rw [q1_short hs] at hb; omega
    · obtain ⟨l1, l2⟩ := q1_long (man := man) hp (by omega)
      rcases Nat.lt_or_ge (q1 p man) (2 ^ p) with lt | ge
      · have := bitlen_le_of_lt lt; omega
      · have e : q1 p man = 2 ^ p := by omega
        have hb2 : bitlen (q1 p man) = p + 1 := by rw [e, bitlen_two_pow]
        have ht : t ≠ 0 := by
          intro h0
          rw [h0] at h2
          simp only [Nat.pow_zero, Nat.mul_one] at h2
          rw [h2, e] at h5
          have : p = (p - 1) + 1 := by omega
          rw [this, Nat.pow_succ] at h5
          omega
        omega
  · unfold top
    rw [h3, h4, hb]; push_cast; ring
  · intro f
    rw [← h2, roundV_scale f hr, h3]

theorem largest_ge {f : Fmt} : 2 ^ f.p - 1 ≤ largest f := by
  unfold largest
  have := Nat.two_pow_pos f.emaxUlp.toNat
  exact Nat.le_mul_of_pos_right _ this

theorem two_step' {f : Fmt} (v : Valid f) (fl : PyVal) (s : Bool) {man : Nat} (hm : man ≠ 0) (exp : Int) :
    mpf2float f fl (.fin s man exp) none .n =
      if top f.p man exp < (if fl.truthy then minexp f else subexp f) then .bits (signBits f s)
      else if maxexp f < top f.p man exp then .bits (signBits f s + f.infBits)
      else .bits (signBits f s + pack f (roundV f (q1 f.p man) (exp + ((bitlen man - f.p : Nat) : Int)))) := by
  have hp : 1 ≤ f.p := by have := v.p2; omega
  obtain ⟨h1, h2, h3, h4, h5, h6⟩ := norm_facts s exp hm hp
  obtain ⟨B, hB, b1, b2, b3, b4, b5⟩ := fmt_facts v
  unfold mpf2float
  simp only [Option.getD_none]
  rw [← h6 f, ← h5]
  generalize normalize s man exp f.p .n = r at *
  rw [h1]
  generalize (if fl.truthy = true then minexp f else subexp f) = z
  by_cases hz : r.exp + (r.bc : Int) < z
  · simp only [hz, if_true]
  · by_cases ho : maxexp f < r.exp + (r.bc : Int)
    · simp only [hz, ho, if_true, if_false]
    · simp only [hz, ho, if_false]
      have hlt := lt_of_bitlen_le h3
      have hle : r.man ≤ largest f := by have := @largest_ge f; omega
      rw [shiftLoop_le _ hle]
      have hc : convInt f r.man = some (.fin r.man 0) := by
        unfold convInt
        have : bitlen r.man ≤ 53 := by have := v.p53; omega
        simp only [h3, this, hle, and_self, if_true]
      simp only [hc, ldexpV, Int.zero_add]
      rw [roundV_short f hp h2 h3]
      have hmax : ¬ f.emaxUlp < max ((bitlen r.man : Int) + r.exp - f.p) f.emin := by
        unfold maxexp at ho
        rw [h4] at ho
        omega
      simp only [hmax, if_false]

/-! ## when the first rounding is harmless -/

theorem rne_le {man : Nat} {exp e : Int} {j : Nat} (h : (bitlen man : Int) + exp ≤ e + j) : rne man exp e ≤ 2 ^ j := by
  have hlt : man < 2 ^ bitlen man := lt_of_bitlen_le (Nat.le_refl _)
  unfold rne
  split
  · rename_i h1
    have : man * 2 ^ (exp - e).toNat < 2 ^ bitlen man * 2 ^ (exp - e).toNat :=
      Nat.mul_lt_mul_of_pos_right hlt (Nat.two_pow_pos _)
    rw [← Nat.pow_add] at this
    have : 2 ^ (bitlen man + (exp - e).toNat) ≤ 2 ^ j := Nat.pow_le_pow_right (by omega) (by omega)
    omega
  · rename_i h1
    apply rneDiv_le_pow
    have : 2 ^ bitlen man ≤ 2 ^ (j + (e - exp).toNat) := Nat.pow_le_pow_right (by omega) (by omega)
    omega

theorem rne_ge {man : Nat} (hm : man ≠ 0) {exp e : Int} {j : Nat} (h : e + j + 1 ≤ (bitlen man : Int) + exp) :
    2 ^ j ≤ rne man exp e := by
  obtain ⟨b1, b2, b3⟩ := bitlen_bounds hm
  unfold rne
  split
  · rename_i h1
    have : 2 ^ (bitlen man - 1) * 2 ^ (exp - e).toNat ≤ man * 2 ^ (exp - e).toNat := Nat.mul_le_mul_right _ b1
    rw [← Nat.pow_add] at this
    have : 2 ^ j ≤ 2 ^ (bitlen man - 1 + (exp - e).toNat) := Nat.pow_le_pow_right (by omega) (by omega)
    omega
  · rename_i h1
    apply rneDiv_ge_pow
    have : 2 ^ (j + (e - exp).toNat) ≤ 2 ^ (bitlen man - 1) := Nat.pow_le_pow_right (by omega) (by omega)
    omega

theorem top_short {p man : Nat} (exp : Int) (h : bitlen man ≤ p) : top p man exp = bitlen man + exp := by
  unfold top
  rw [q1_short h]
  have : bitlen man - p = 0 := by omega
  rw [this]; simp; ring

theorem top_long {p man : Nat} (hp : 1 ≤ p) (exp : Int) (h : p < bitlen man) :
    (q1 p man < 2 ^ p → top p man exp = bitlen man + exp) ∧ (q1 p man = 2 ^ p → top p man exp = bitlen man + exp + 1) := by
  obtain ⟨l1, l2⟩ := q1_long hp h
  unfold top
  constructor
  · intro hlt
    have : bitlen (q1 p man) = (p - 1) + 1 := bitlen_eq_of l1 (by rwa [show p - 1 + 1 = p by omega])
    rw [this]; push_cast; omega
  · intro he
    rw [he, bitlen_two_pow]; push_cast; omega

theorem top_bounds {p man : Nat} (hp : 1 ≤ p) (exp : Int) :
    (bitlen man : Int) + exp ≤ top p man exp ∧ top p man exp ≤ bitlen man + exp + 1 := by
  by_cases h : bitlen man ≤ p
  · rw [top_short exp h]; omega
  · obtain ⟨a, b⟩ := top_long hp exp (show p < bitlen man by omega)
    obtain ⟨l1, l2⟩ := q1_long (man := man) hp (by omega)
    rcases Nat.lt_or_ge (q1 p man) (2 ^ p) with lt | ge
    · rw [a lt]; omega
    · rw [b (by omega)]; omega

/-- rounding to `p` bits first is harmless whenever the format's quantum at `x` is the p-bit quantum
(`x ≥` smallest normal) or `x` already has at most `p` bits. -/
theorem round_two_step_eq {f : Fmt} (v : Valid f) {man : Nat} (hm : man ≠ 0) (exp : Int)
    (h : bitlen man ≤ f.p ∨ f.emin ≤ (bitlen man : Int) + exp - f.p) :
    roundV f (q1 f.p man) (exp + ((bitlen man - f.p : Nat) : Int)) = roundV f man exp := by
  have hp : 1 ≤ f.p := by have := v.p2; omega
  by_cases hs : bitlen man ≤ f.p
  · rw [q1_short hs]
    have : bitlen man - f.p = 0 := by omega
    rw [this]; simp
  · have h : f.emin ≤ (bitlen man : Int) + exp - f.p := by omega
    obtain ⟨l1, l2⟩ := q1_long (man := man) hp (by omega)
    have hq := q1_ne_zero hp hm
    have hn : ((bitlen man - f.p : Nat) : Int) = (bitlen man : Int) - f.p := by omega
    have hrne : rne man exp (exp + ((bitlen man - f.p : Nat) : Int)) = q1 f.p man := by
      unfold rne q1
      have : ¬ (exp + ((bitlen man - f.p : Nat) : Int) ≤ exp) := by omega
      simp only [this, if_false]
      congr 1
      omega
    rcases Nat.lt_or_ge (q1 f.p man) (2 ^ f.p) with lt | ge
    · have hb : bitlen (q1 f.p man) = f.p := by
        have := bitlen_eq_of l1 (by rwa [show f.p - 1 + 1 = f.p by omega])
        omega
      unfold roundV
      simp only [hm, hq, if_false, hb]
      have e1 : max ((f.p : Int) + (exp + ((bitlen man - f.p : Nat) : Int)) - f.p) f.emin = exp + ((bitlen man - f.p : Nat) : Int) := by omega
      have e2 : max ((bitlen man : Int) + exp - f.p) f.emin = exp + ((bitlen man - f.p : Nat) : Int) := by omega
      rw [e1, e2, hrne]
      have : rne (q1 f.p man) (exp + ((bitlen man - f.p : Nat) : Int)) (exp + ((bitlen man - f.p : Nat) : Int)) = q1 f.p man := by
        unfold rne; simp
      rw [this]
    · have he : q1 f.p man = 2 ^ f.p := by omega
      unfold roundV
      simp only [hm, if_false]
      have e2 : max ((bitlen man : Int) + exp - f.p) f.emin = exp + ((bitlen man - f.p : Nat) : Int) := by omega
      rw [e2, hrne, he]
      have h0 : (2 : Nat) ^ f.p ≠ 0 := by have := Nat.two_pow_pos f.p; omega
      simp only [h0, if_false, if_true, bitlen_two_pow]
      have e1 : max (((f.p + 1 : Nat) : Int) + (exp + ((bitlen man - f.p : Nat) : Int)) - f.p) f.emin
          = exp + ((bitlen man - f.p : Nat) : Int) + 1 := by push_cast; omega
      rw [e1]
      have hr : rne (2 ^ f.p) (exp + ((bitlen man - f.p : Nat) : Int)) (exp + ((bitlen man - f.p : Nat) : Int) + 1) = 2 ^ (f.p - 1) := by
        unfold rne
        have : ¬ (exp + ((bitlen man - f.p : Nat) : Int) + 1 ≤ exp + ((bitlen man - f.p : Nat) : Int)) := by omega
        simp only [this, if_false]
        have : (exp + ((bitlen man - f.p : Nat) : Int) + 1 - (exp + ((bitlen man - f.p : Nat) : Int))).toNat = 1 := by omega
        rw [this]
        have : 2 ^ f.p = 2 ^ (f.p - 1) * 2 ^ 1 := by rw [← Nat.pow_add]; congr 1; omega
        rw [this, rneDiv_mul]
      rw [hr]
      have hne : (2 : Nat) ^ (f.p - 1) ≠ 2 ^ f.p := by
        have : 2 ^ (f.p - 1) < 2 ^ f.p := Nat.pow_lt_pow_right (by omega) (by omega)
        omega
      simp only [hne, if_false]

/-! ## two-step characterisation and its consequences -/

theorem q1_inf {f : Fmt} (v : Valid f) {man : Nat} (hm : man ≠ 0) (exp : Int) (h : maxexp f < top f.p man exp) :
    roundV f (q1 f.p man) (exp + ((bitlen man - f.p : Nat) : Int)) = .inf := by
  have hp : 1 ≤ f.p := by have := v.p2; omega
  obtain ⟨h1, h2, h3, h4, h5, h6⟩ := norm_facts false exp hm hp
  rw [← h6 f, roundV_short f hp h2 h3]
  rw [← h5, h4] at h
  unfold maxexp at h
  have : f.emaxUlp < max ((bitlen (normalize false man exp f.p .n).man : Int) + (normalize false man exp f.p .n).exp - f.p) f.emin := by
    omega
  simp only [this, if_true]

theorem pack_inf (f : Fmt) : pack f .inf = f.infBits := rfl

/-- **two-step characterisation** of `mpf2float` on finite non-zero values, default precision, nearest. -/
theorem two_step'' {f : Fmt} (v : Valid f) (fl : PyVal) (s : Bool) {man : Nat} (hm : man ≠ 0) (exp : Int) :
    mpf2float f fl (.fin s man exp) none .n =
      if top f.p man exp < (if fl.truthy then minexp f else subexp f) then .bits (signBits f s)
      else .bits (signBits f s + roundBits f (q1 f.p man) (exp + ((bitlen man - f.p : Nat) : Int))) := by
  rw [two_step' v fl s hm exp]
  by_cases hz : top f.p man exp < (if fl.truthy then minexp f else subexp f)
  · simp only [hz, if_true]
  · simp only [hz, if_false]
    by_cases ho : maxexp f < top f.p man exp
    · simp only [ho, if_true]
      unfold roundBits
      rw [q1_inf v hm exp ho, pack_inf]
    · simp only [ho, if_false]
      rfl

theorem zexp_le_minexp {f : Fmt} (v : Valid f) (fl : PyVal) : (if fl.truthy then minexp f else subexp f) ≤ minexp f := by
  have := v.p2
  unfold minexp subexp
  split <;> omega

theorem ge_min_normal' {f : Fmt} (v : Valid f) (fl : PyVal) (s : Bool) {man : Nat} (hm : man ≠ 0) (exp : Int)
    (h : minexp f ≤ (bitlen man : Int) + exp) :
    mpf2float f fl (.fin s man exp) none .n = .bits (signBits f s + roundBits f man exp) := by
  have hp : 1 ≤ f.p := by have := v.p2; omega
  rw [two_step'' v fl s hm exp]
  have := zexp_le_minexp v fl
  have := (top_bounds (p := f.p) (man := man) hp exp).1
  have hz : ¬ top f.p man exp < (if fl.truthy then minexp f else subexp f) := by omega
  simp only [hz, if_false]
  unfold roundBits
  rw [round_two_step_eq v hm exp (Or.inr (by unfold minexp at h; omega))]

theorem representable' {f : Fmt} (v : Valid f) (fl : PyVal) (hfl : fl.truthy = false) (s : Bool) {man : Nat} (hm : man ≠ 0)
    (exp : Int) (hs : bitlen man ≤ f.p) (h : subexp f ≤ (bitlen man : Int) + exp) :
    mpf2float f fl (.fin s man exp) none .n = .bits (signBits f s + roundBits f man exp) := by
  rw [two_step'' v fl s hm exp, top_short exp hs]
  simp only [hfl]
  have hz : ¬ ((bitlen man : Int) + exp < subexp f) := by omega
  simp only [hz, if_false, Bool.false_eq_true]
  unfold roundBits
  rw [round_two_step_eq v hm exp (Or.inl hs)]

/-- the only place where a value below the smallest normal rounds (in the format) to a normal number -/
theorem edge_nat {p n j man : Nat} (hp : 2 ≤ p) (hn : 1 ≤ n) (hj : 1 ≤ j) (hl : man < 2 ^ (p + n))
    (h : 2 ^ (p - 1) ≤ rneDiv man (n + j)) :
    j = 1 ∧ (rneDiv man n = 2 ^ p - 1 ∨ rneDiv man n = 2 ^ p) := by
  have hj1 : j = 1 := by
    by_contra hne
    have : rneDiv man (n + j) ≤ 2 ^ (p - 2) := by
      apply rneDiv_le_pow
      have : 2 ^ (p + n) ≤ 2 ^ (p - 2 + (n + j)) := Nat.pow_le_pow_right (by omega) (by omega)
      omega
    have : 2 ^ (p - 2) < 2 ^ (p - 1) := Nat.pow_lt_pow_right (by omega) (by omega)
    omega
  refine ⟨hj1, ?_⟩
  subst hj1
  have hodd : (2 ^ (p - 1) - 1) % 2 = 1 := by
    have : 2 ^ (p - 1) = 2 * 2 ^ (p - 2) := by
      rw [show p - 1 = (p - 2) + 1 by omega, Nat.pow_succ]; ring
    have := Nat.two_pow_pos (p - 2)
    omega
  have hpos := Nat.two_pow_pos (p - 1)
  have h' : (2 ^ (p - 1) - 1) + 1 ≤ rneDiv man (n + 1) := by omega
  rw [rneDiv_ge_succ_odd (by omega) hodd] at h'
  have e1 : n + 1 - 1 = n := by omega
  rw [e1] at h'
  have hge : (2 ^ p - 1) * 2 ^ n ≤ man := by
    have : (2 ^ (p - 1) - 1) * 2 ^ (n + 1) + 2 ^ n = (2 ^ p - 1) * 2 ^ n := by
      have hp2 : 2 ^ p = 2 * 2 ^ (p - 1) := by
        rw [show p = (p - 1) + 1 by omega, Nat.pow_succ]; simp; ring
      rw [hp2, Nat.pow_succ]
      have : 1 ≤ 2 ^ (p - 1) := hpos
      obtain ⟨c, hc⟩ : ∃ c, 2 ^ (p - 1) = c + 1 := ⟨2 ^ (p - 1) - 1, by omega⟩
      rw [hc]
      simp only [Nat.add_sub_cancel]
      have : 2 * (c + 1) - 1 = 2 * c + 1 := by omega
      rw [this]; ring
    omega
  have lo : 2 ^ p - 1 ≤ rneDiv man n := by
    have := rneDiv_mono n hge
    rwa [rneDiv_mul] at this
  have hi : rneDiv man n ≤ 2 ^ p := rneDiv_le_pow (by omega)
  omega

/-! ## normal results -/

theorem pack_emin (f : Fmt) (q : Nat) : pack f (.fin q f.emin) = q := by
  unfold pack; simp

/-- below the top of the subnormal range the format's quantum is `emin` and nothing carries or overflows -/
theorem roundV_low {f : Fmt} (v : Valid f) {man : Nat} (hm : man ≠ 0) {exp : Int}
    (h : (bitlen man : Int) + exp ≤ f.emin + f.p - 1) :
    roundV f man exp = .fin (rne man exp f.emin) f.emin ∧ rne man exp f.emin ≤ 2 ^ (f.p - 1) := by
  obtain ⟨B, hB, b1, b2, b3, b4, b5⟩ := fmt_facts v
  have hp := v.p2
  have hle : rne man exp f.emin ≤ 2 ^ (f.p - 1) := rne_le (by omega)
  refine ⟨?_, hle⟩
  have hlt : 2 ^ (f.p - 1) < 2 ^ f.p := Nat.pow_lt_pow_right (by omega) (by omega)
  unfold roundV
  simp only [hm, if_false]
  have e : max ((bitlen man : Int) + exp - f.p) f.emin = f.emin := by omega
  rw [e]
  have hne : rne man exp f.emin ≠ 2 ^ f.p := by omega
  have hov : ¬ f.emaxUlp < f.emin := by omega
  simp only [hne, if_false, hov]

theorem rneDiv_half_top {p : Nat} (hp : 2 ≤ p) : rneDiv (2 ^ p - 1) 1 = 2 ^ (p - 1) := by
  have hpos := Nat.two_pow_pos (p - 2)
  have h1 : 2 ^ (p - 1) = 2 * 2 ^ (p - 2) := by
    rw [show p - 1 = (p - 2) + 1 by omega, Nat.pow_succ]; ring
  have h2 : 2 ^ p = 2 * 2 ^ (p - 1) := by
    rw [show p = (p - 1) + 1 by omega, Nat.pow_succ]; simp; ring
  have hodd : (2 ^ (p - 1) - 1) % 2 = 1 := by omega
  have lo : (2 ^ (p - 1) - 1) + 1 ≤ rneDiv (2 ^ p - 1) 1 := by
    rw [rneDiv_ge_succ_odd (by omega) hodd]
    simp only [Nat.sub_self, Nat.pow_zero, Nat.pow_one]
    omega
  have hi : rneDiv (2 ^ p - 1) 1 ≤ 2 ^ (p - 1) := by
    apply rneDiv_le_pow
    rw [show p - 1 + 1 = p by omega]; omega
  omega

theorem normal' {f : Fmt} (v : Valid f) (fl : PyVal) (hfl : fl.truthy = false) (s : Bool) {man : Nat} (hm : man ≠ 0)
    (exp : Int) (hn : f.minNormalBits ≤ roundBits f man exp) :
    mpf2float f fl (.fin s man exp) none .n = .bits (signBits f s + roundBits f man exp) := by
  obtain ⟨B, hB, b1, b2, b3, b4, b5⟩ := fmt_facts v
  have hp2 := v.p2
  have hp : 1 ≤ f.p := by omega
  have hmn : f.minNormalBits = 2 ^ (f.p - 1) := rfl
  have h2 : 2 ≤ 2 ^ (f.p - 1) := by
    have : 2 ^ 1 ≤ 2 ^ (f.p - 1) := Nat.pow_le_pow_right (by omega) (by omega)
    simpa using this
  rw [two_step'' v fl s hm exp]
  simp only [hfl, Bool.false_eq_true, if_false]
  have tb := top_bounds (p := f.p) (man := man) hp exp
  by_cases hA : bitlen man ≤ f.p ∨ f.emin ≤ (bitlen man : Int) + exp - f.p
  · -- the first rounding is harmless
    have hz : ¬ top f.p man exp < subexp f := by
      unfold subexp
      rcases hA with hs | hb
      · rw [top_short exp hs]
        intro hlt
        obtain ⟨r1, r2⟩ := roundV_low v hm (show (bitlen man : Int) + exp ≤ f.emin + f.p - 1 by omega)
        have : rne man exp f.emin ≤ 2 ^ 0 := rne_le (by push_cast; omega)
        unfold roundBits at hn
        rw [r1, pack_emin, hmn] at hn
        simp at this
        omega
      · omega
    simp only [hz, if_false]
    unfold roundBits
    rw [round_two_step_eq v hm exp hA]
  · -- the edge: x is below the smallest normal, has more than p bits, and rounds to the smallest normal
    have hl : f.p < bitlen man := by omega
    have hb : (bitlen man : Int) + exp - f.p < f.emin := by omega
    obtain ⟨r1, r2⟩ := roundV_low v hm (show (bitlen man : Int) + exp ≤ f.emin + f.p - 1 by omega)
    have hrb : roundBits f man exp = rne man exp f.emin := by unfold roundBits; rw [r1, pack_emin]
    rw [hrb, hmn] at hn
    have hrne : rne man exp f.emin = rneDiv man ((bitlen man - f.p) + (f.emin - (exp + ((bitlen man - f.p : Nat) : Int))).toNat) := by
      unfold rne
      have : ¬ f.emin ≤ exp := by omega
      simp only [this, if_false]
      congr 1; omega
    rw [hrne] at hn
    have hlt : man < 2 ^ (f.p + (bitlen man - f.p)) := by
      rw [show f.p + (bitlen man - f.p) = bitlen man by omega]
      exact lt_of_bitlen_le (Nat.le_refl _)
    obtain ⟨j1, hq⟩ := edge_nat hp2 (show 1 ≤ bitlen man - f.p by omega)
      (show 1 ≤ (f.emin - (exp + ((bitlen man - f.p : Nat) : Int))).toNat by omega) hlt hn
    have he1 : exp + ((bitlen man - f.p : Nat) : Int) = f.emin - 1 := by omega
    have hz : ¬ top f.p man exp < subexp f := by unfold subexp; omega
    simp only [hz, if_false]
    -- both sides are the smallest normal
    have hR : rne man exp f.emin = 2 ^ (f.p - 1) := by rw [hrne]; omega
    rw [hrb, hR, he1]
    have hq' : q1 f.p man = 2 ^ f.p - 1 ∨ q1 f.p man = 2 ^ f.p := hq
    have hpow : 2 ^ f.p = 2 * 2 ^ (f.p - 1) := by
      rw [show f.p = (f.p - 1) + 1 by omega, Nat.pow_succ]; simp; ring
    have goal : roundBits f (q1 f.p man) (f.emin - 1) = 2 ^ (f.p - 1) := by
      rcases hq' with e | e
      · rw [e]
        have hne : 2 ^ f.p - 1 ≠ 0 := by omega
        have hbl : bitlen (2 ^ f.p - 1) = (f.p - 1) + 1 := bitlen_eq_of (by omega) (by rw [show f.p - 1 + 1 = f.p by omega]; omega)
        obtain ⟨s1, s2⟩ := roundV_low v hne (exp := f.emin - 1) (by rw [hbl]; push_cast; omega)
        unfold roundBits
        rw [s1, pack_emin]
        unfold rne
        have : ¬ f.emin ≤ f.emin - 1 := by omega
        simp only [this, if_false]
        rw [show (f.emin - (f.emin - 1)).toNat = 1 by omega]
        exact rneDiv_half_top hp2
      · rw [e]
        unfold roundBits roundV
        have h0 : (2 : Nat) ^ f.p ≠ 0 := by omega
        simp only [h0, if_false, bitlen_two_pow]
        have e1 : max (((f.p + 1 : Nat) : Int) + (f.emin - 1) - f.p) f.emin = f.emin := by push_cast; omega
        rw [e1]
        have hr : rne (2 ^ f.p) (f.emin - 1) f.emin = 2 ^ (f.p - 1) := by
          unfold rne
          have : ¬ f.emin ≤ f.emin - 1 := by omega
          simp only [this, if_false]
          rw [show (f.emin - (f.emin - 1)).toNat = 1 by omega]
          have : 2 ^ f.p = 2 ^ (f.p - 1) * 2 ^ 1 := by rw [← Nat.pow_add]; congr 1; omega
          rw [this, rneDiv_mul]
        rw [hr]
        have hne : (2 : Nat) ^ (f.p - 1) ≠ 2 ^ f.p := by omega
        have hov : ¬ f.emaxUlp < f.emin := by omega
        simp only [hne, if_false, hov]
        exact pack_emin f _
    rw [goal]

/-! ## thresholds on exact dyadic values -/

/-- `m1·2^e1 ≤ m2·2^e2` on exact dyadic values (both sides scaled to the smaller exponent:
one of the two shifts is zero). -/
def dyLe (m1 : Nat) (e1 : Int) (m2 : Nat) (e2 : Int) : Prop :=
  m1 * 2 ^ (e1 - e2).toNat ≤ m2 * 2 ^ (e2 - e1).toNat

/-- `m1·2^e1 < m2·2^e2` on exact dyadic values. -/
def dyLt (m1 : Nat) (e1 : Int) (m2 : Nat) (e2 : Int) : Prop :=
  m1 * 2 ^ (e1 - e2).toNat < m2 * 2 ^ (e2 - e1).toNat

instance (m1 : Nat) (e1 : Int) (m2 : Nat) (e2 : Int) : Decidable (dyLe m1 e1 m2 e2) := by unfold dyLe; infer_instance
instance (m1 : Nat) (e1 : Int) (m2 : Nat) (e2 : Int) : Decidable (dyLt m1 e1 m2 e2) := by unfold dyLt; infer_instance

theorem dyLt_iff_not_dyLe (m1 : Nat) (e1 : Int) (m2 : Nat) (e2 : Int) : dyLt m1 e1 m2 e2 ↔ ¬ dyLe m2 e2 m1 e1 := by
  unfold dyLt dyLe; omega

private theorem pw {a b : Nat} (h : a ≤ b) : 2 ^ a ≤ 2 ^ b := Nat.pow_le_pow_right (by omega) h

/-- the p-bit rounding of `x = man·2^exp` reaches `2^K` exactly when `x ≥ (2^(p+1) - 1)·2^(K-p-1)`
(the midpoint between the largest p-bit number below `2^K` and `2^K`; the tie goes up, to the even `2^K`). -/
theorem top_gt_iff {p man : Nat} (hp : 1 ≤ p) (hm : man ≠ 0) (exp K : Int) :
    K < top p man exp ↔ dyLe (2 ^ (p + 1) - 1) (K - p - 1) man exp := by
  obtain ⟨b1, b2, b3⟩ := bitlen_bounds hm
  have tb := top_bounds (p := p) (man := man) hp exp
  have hP : 2 ^ (p + 1) = 2 * 2 ^ p := by rw [Nat.pow_succ]; ring
  have hPpos := Nat.two_pow_pos p
  unfold dyLe
  by_cases hab : K - p - 1 ≤ exp
  · -- threshold exponent below exp: compare (2^(p+1)-1) with man * 2^a
    obtain ⟨a, ha⟩ : ∃ a : Nat, exp = K - p - 1 + a := ⟨(exp - (K - p - 1)).toNat, by omega⟩
    have h1 : (K - p - 1 - exp).toNat = 0 := by omega
    have h2 : (exp - (K - p - 1)).toNat = a := by omega
    rw [h1, h2]
    simp only [Nat.pow_zero, Nat.mul_one]
    rcases Int.lt_trichotomy ((bitlen man : Int) + exp) K with lt | eq | gt
    · have : ¬ K < top p man exp := by omega
      simp only [this, false_iff]
      have : man * 2 ^ a < 2 ^ bitlen man * 2 ^ a := Nat.mul_lt_mul_of_pos_right b2 (Nat.two_pow_pos a)
      rw [← Nat.pow_add] at this
      have : 2 ^ (bitlen man + a) ≤ 2 ^ p := pw (by omega)
      omega
    · by_cases hs : bitlen man ≤ p
      · rw [top_short exp hs]
        have : ¬ K < (bitlen man : Int) + exp := by omega
        simp only [this, false_iff]
        have ha' : a = p + 1 - bitlen man := by omega
        have h3 : man * 2 ^ a ≤ (2 ^ bitlen man - 1) * 2 ^ a := Nat.mul_le_mul_right _ (by omega)
        have h4 : (2 ^ bitlen man - 1) * 2 ^ a = 2 ^ (p + 1) - 2 ^ a := by
          rw [Nat.sub_mul, ← Nat.pow_add, Nat.one_mul]
          congr 2; omega
        have h5 : 2 ^ 1 ≤ 2 ^ a := pw (by omega)
        simp only [Nat.pow_one] at h5
        have h6 : 2 ^ a ≤ 2 ^ (p + 1) := pw (by omega)
        omega
      · -- long: a = 0, n = 1
        have hl : p < bitlen man := by omega
        obtain ⟨t1, t2⟩ := top_long hp exp hl
        obtain ⟨l1, l2⟩ := q1_long hp hl
        have ha0 : a = 0 := by omega
        have hn : bitlen man - p = 1 := by omega
        subst ha0
        simp only [Nat.pow_zero, Nat.mul_one]
        have hodd : (2 ^ p - 1) % 2 = 1 := by
          have : 2 ^ p = 2 * 2 ^ (p - 1) := by rw [show p = (p - 1) + 1 by omega, Nat.pow_succ]; simp; ring
          have := Nat.two_pow_pos (p - 1)
          omega
        have key : (2 ^ p - 1) + 1 ≤ q1 p man ↔ (2 ^ p - 1) * 2 ^ 1 + 2 ^ (1 - 1) ≤ man := by
          unfold q1; rw [hn]; exact rneDiv_ge_succ_odd (by omega) hodd
        simp only [Nat.pow_one, Nat.sub_self, Nat.pow_zero] at key
        constructor
        · intro h
          have : q1 p man = 2 ^ p := by
            by_contra hne
            have := t1 (by omega)
            omega
          have := key.1 (by omega)
          omega
        · intro h
          have := key.2 (by omega)
          have := t2 (by omega)
          omega
    · have : K < top p man exp := by omega
      simp only [this, true_iff]
      have h3 : 2 ^ (bitlen man - 1) * 2 ^ a ≤ man * 2 ^ a := Nat.mul_le_mul_right _ b1
      rw [← Nat.pow_add] at h3
      have : 2 ^ (p + 1) ≤ 2 ^ (bitlen man - 1 + a) := pw (by omega)
      omega
  · -- threshold exponent above exp: compare (2^(p+1)-1) * 2^b with man
    obtain ⟨b, hb⟩ : ∃ b : Nat, K - p - 1 = exp + b ∧ 1 ≤ b := ⟨(K - p - 1 - exp).toNat, by omega, by omega⟩
    have h1 : (K - p - 1 - exp).toNat = b := by omega
    have h2 : (exp - (K - p - 1)).toNat = 0 := by omega
    rw [h1, h2]
    simp only [Nat.pow_zero, Nat.mul_one]
    have hbpos := Nat.two_pow_pos b
    have hmul : (2 ^ (p + 1) - 1) * 2 ^ b = 2 ^ (p + 1 + b) - 2 ^ b := by
      rw [Nat.sub_mul, ← Nat.pow_add, Nat.one_mul]
    rcases Int.lt_trichotomy ((bitlen man : Int) + exp) K with lt | eq | gt
    · have : ¬ K < top p man exp := by omega
      simp only [this, false_iff]
      have h3 : 2 ^ bitlen man ≤ 2 ^ (p + b) := pw (by omega)
      have h4 : 2 ^ (p + 1 + b) = 2 * 2 ^ (p + b) := by rw [show p + 1 + b = (p + b) + 1 by omega, Nat.pow_succ]; ring
      have h5 : 2 ^ b ≤ 2 ^ (p + b) := pw (by omega)
      omega
    · have hl : p < bitlen man := by omega
      obtain ⟨t1, t2⟩ := top_long hp exp hl
      obtain ⟨l1, l2⟩ := q1_long hp hl
      have hn : bitlen man - p = b + 1 := by omega
      have hodd : (2 ^ p - 1) % 2 = 1 := by
        have : 2 ^ p = 2 * 2 ^ (p - 1) := by rw [show p = (p - 1) + 1 by omega, Nat.pow_succ]; simp; ring
        have := Nat.two_pow_pos (p - 1)
        omega
      have key : (2 ^ p - 1) + 1 ≤ q1 p man ↔ (2 ^ p - 1) * 2 ^ (b + 1) + 2 ^ (b + 1 - 1) ≤ man := by
        unfold q1; rw [hn]; exact rneDiv_ge_succ_odd (by omega) hodd
      have hk : (2 ^ p - 1) * 2 ^ (b + 1) + 2 ^ (b + 1 - 1) = (2 ^ (p + 1) - 1) * 2 ^ b := by
        rw [hmul, Nat.sub_mul, ← Nat.pow_add, Nat.one_mul, show b + 1 - 1 = b by omega,
          show p + (b + 1) = p + 1 + b by omega]
        have h5 : 2 ^ (b + 1) = 2 * 2 ^ b := by rw [Nat.pow_succ]; ring
        have h6 : 2 ^ (b + 1) ≤ 2 ^ (p + 1 + b) := pw (by omega)
        omega
      rw [hk] at key
      constructor
      · intro h
        have : q1 p man = 2 ^ p := by
          by_contra hne
          have := t1 (by omega)
          omega
        exact key.1 (by omega)
      · intro h
        have := key.2 h
        have := t2 (by omega)
        omega
    · have : K < top p man exp := by omega
      simp only [this, true_iff]
      have h3 : 2 ^ (p + 1 + b) ≤ 2 ^ (bitlen man - 1) := pw (by omega)
      omega

/-! ## overflow, tiny, flush, zero threshold, dead loops -/

theorem dyLt_one_iff {man : Nat} (hm : man ≠ 0) (exp K : Int) : dyLt man exp 1 K ↔ (bitlen man : Int) + exp ≤ K := by
  obtain ⟨b1, b2, b3⟩ := bitlen_bounds hm
  unfold dyLt
  by_cases h : K ≤ exp
  · have h1 : (K - exp).toNat = 0 := by omega
    rw [h1]
    have := Nat.two_pow_pos (exp - K).toNat
    have : 1 ≤ man * 2 ^ (exp - K).toNat := Nat.mul_pos (by omega) this
    simp only [Nat.pow_zero, Nat.mul_one]
    omega
  · have h1 : (exp - K).toNat = 0 := by omega
    rw [h1]
    simp only [Nat.pow_zero, Nat.mul_one, Nat.one_mul]
    constructor
    · intro hlt
      have := bitlen_le_of_lt hlt
      omega
    · intro hle
      exact lt_of_bitlen_le (by omega)

theorem overflow' {f : Fmt} (v : Valid f) (fl : PyVal) (s : Bool) {man : Nat} (hm : man ≠ 0) (exp : Int)
    (h : dyLe (2 ^ (f.p + 1) - 1) (f.emaxUlp - 1) man exp) :
    mpf2float f fl (.fin s man exp) none .n = .bits (signBits f s + f.infBits) := by
  obtain ⟨B, hB, b1, b2, b3, b4, b5⟩ := fmt_facts v
  have hp : 1 ≤ f.p := by have := v.p2; omega
  have ht : maxexp f < top f.p man exp := by
    rw [top_gt_iff hp hm]
    have : maxexp f - f.p - 1 = f.emaxUlp - 1 := by unfold maxexp; omega
    rw [this]; exact h
  have hz := zexp_le_minexp v fl
  have : minexp f ≤ maxexp f := by unfold minexp maxexp; omega
  rw [two_step' v fl s hm exp]
  have h1 : ¬ top f.p man exp < (if fl.truthy then minexp f else subexp f) := by omega
  simp only [h1, ht, if_true, if_false]

theorem tiny' {f : Fmt} (v : Valid f) (fl : PyVal) (s : Bool) {man : Nat} (hm : man ≠ 0) (exp : Int)
    (h : dyLt man exp 1 (f.emin - 1)) :
    mpf2float f fl (.fin s man exp) none .n = .bits (signBits f s) := by
  have hp2 := v.p2
  have hp : 1 ≤ f.p := by omega
  rw [dyLt_one_iff hm] at h
  have tb := top_bounds (p := f.p) (man := man) hp exp
  rw [two_step'' v fl s hm exp]
  have : top f.p man exp < (if fl.truthy then minexp f else subexp f) := by
    unfold minexp subexp; split <;> omega
  simp only [this, if_true]

theorem flush_eq' {f : Fmt} (v : Valid f) (fl : PyVal) (hfl : fl.truthy = true) (s : Bool) {man : Nat} (hm : man ≠ 0) (exp : Int) :
    mpf2float f fl (.fin s man exp) none .n =
      if top f.p man exp < minexp f then .bits (signBits f s) else mpf2float f .false (.fin s man exp) none .n := by
  have hp2 := v.p2
  rw [two_step'' v fl s hm exp, two_step'' v .false s hm exp]
  have hF : PyVal.false.truthy = false := rfl
  simp only [hfl, if_true, hF, Bool.false_eq_true, if_false]
  by_cases h : top f.p man exp < minexp f
  · simp only [h, if_true]
  · have : ¬ top f.p man exp < subexp f := by unfold minexp subexp at *; omega
    simp only [h, this, if_false]

theorem flush_iff {f : Fmt} (v : Valid f) {man : Nat} (hm : man ≠ 0) (exp : Int) :
    top f.p man exp < minexp f ↔ dyLt man exp (2 ^ (f.p + 1) - 1) (f.emin - 2) := by
  have hp : 1 ≤ f.p := by have := v.p2; omega
  rw [dyLt_iff_not_dyLe]
  have := top_gt_iff hp hm exp (minexp f - 1)
  have e : minexp f - 1 - f.p - 1 = f.emin - 2 := by unfold minexp; omega
  rw [e] at this
  rw [← this]; omega

theorem zero_iff_top {f : Fmt} (v : Valid f) {man : Nat} (hm : man ≠ 0) (exp : Int) :
    top f.p man exp < subexp f ↔ dyLt man exp (2 ^ (f.p + 1) - 1) (f.emin - f.p - 1) := by
  have hp : 1 ≤ f.p := by have := v.p2; omega
  rw [dyLt_iff_not_dyLe]
  have := top_gt_iff hp hm exp f.emin
  rw [← this]; unfold subexp; omega

theorem pack_ge (f : Fmt) (q : Nat) (e : Int) : q ≤ pack f (.fin q e) := by
  show q ≤ (e - f.emin).toNat * 2 ^ f.fracBits + q
  omega

theorem roundBits_q1_pos {f : Fmt} (v : Valid f) {man : Nat} (hm : man ≠ 0) (exp : Int)
    (h : subexp f ≤ top f.p man exp) : 1 ≤ roundBits f (q1 f.p man) (exp + ((bitlen man - f.p : Nat) : Int)) := by
  obtain ⟨B, hB, b1, b2, b3, b4, b5⟩ := fmt_facts v
  have hp : 1 ≤ f.p := by have := v.p2; omega
  obtain ⟨h1, h2, h3, h4, h5, h6⟩ := norm_facts false exp hm hp
  unfold roundBits
  rw [← h6 f, roundV_short f hp h2 h3]
  rw [← h5, h4] at h
  generalize normalize false man exp f.p .n = r at *
  split
  · rw [pack_inf]
    unfold Fmt.infBits
    have := Nat.two_pow_pos f.fracBits
    have : 1 ≤ f.expMax := by omega
    exact Nat.mul_pos this (by omega)
  · have hq : 2 ^ 0 ≤ rne r.man r.exp (max ((bitlen r.man : Int) + r.exp - f.p) f.emin) := by
      by_cases hc : (bitlen r.man : Int) + r.exp - f.p ≤ f.emin
      · rw [show max ((bitlen r.man : Int) + r.exp - f.p) f.emin = f.emin by omega]
        apply rne_ge h2
        unfold subexp at h; push_cast; omega
      · rw [show max ((bitlen r.man : Int) + r.exp - f.p) f.emin = (bitlen r.man : Int) + r.exp - f.p by omega]
        have : 2 ^ 0 ≤ 2 ^ (f.p - 1) := Nat.pow_le_pow_right (by omega) (by omega)
        have := rne_ge (man := r.man) (exp := r.exp) (e := (bitlen r.man : Int) + r.exp - f.p) (j := f.p - 1) h2 (by omega)
        omega
    have := pack_ge f (rne r.man r.exp (max ((bitlen r.man : Int) + r.exp - f.p) f.emin)) (max ((bitlen r.man : Int) + r.exp - f.p) f.emin)
    simp only [Nat.pow_zero] at hq
    omega

theorem zero_iff' {f : Fmt} (v : Valid f) (fl : PyVal) (hfl : fl.truthy = false) (s : Bool) {man : Nat} (hm : man ≠ 0) (exp : Int) :
    mpf2float f fl (.fin s man exp) none .n = .bits (signBits f s) ↔ dyLt man exp (2 ^ (f.p + 1) - 1) (f.emin - f.p - 1) := by
  rw [← zero_iff_top v hm, two_step'' v fl s hm exp]
  simp only [hfl, Bool.false_eq_true, if_false]
  constructor
  · intro h
    by_contra hn
    simp only [hn, if_false] at h
    have := roundBits_q1_pos v hm exp (by omega)
    injection h with h
    omega
  · intro h
    simp only [h, if_true]

theorem loop_dead' {f : Fmt} (v : Valid f) (s : Bool) {man : Nat} (hm : man ≠ 0) (exp : Int) :
    shiftLoop (largest f) (normalize s man exp f.p .n).man (normalize s man exp f.p .n).exp
        = ((normalize s man exp f.p .n).man, (normalize s man exp f.p .n).exp) ∧
    convInt f (normalize s man exp f.p .n).man = some (.fin (normalize s man exp f.p .n).man 0) ∧
    ((normalize s man exp f.p .n).exp + ((normalize s man exp f.p .n).bc : Int) ≤ maxexp f →
      ldexpV f (.fin (normalize s man exp f.p .n).man 0) (normalize s man exp f.p .n).exp ≠ .inf) := by
  have hp : 1 ≤ f.p := by have := v.p2; omega
  obtain ⟨h1, h2, h3, h4, h5, h6⟩ := norm_facts s exp hm hp
  obtain ⟨B, hB, b1, b2, b3, b4, b5⟩ := fmt_facts v
  generalize normalize s man exp f.p .n = r at *
  have hlt := lt_of_bitlen_le h3
  have hle : r.man ≤ largest f := by have := @largest_ge f; omega
  refine ⟨shiftLoop_le _ hle, ?_, ?_⟩
  · unfold convInt
    have : bitlen r.man ≤ 53 := by have := v.p53; omega
    simp only [h3, this, hle, and_self, if_true]
  · intro ho
    simp only [ldexpV, Int.zero_add]
    rw [roundV_short f hp h2 h3]
    have hmax : ¬ f.emaxUlp < max ((bitlen r.man : Int) + r.exp - f.p) f.emin := by
      unfold maxexp at ho
      rw [h4] at ho
      omega
    simp only [hmax, if_false]
    intro hc; cases hc

/-! the three formats are valid -/
theorem valid16 : Valid binary16 := ⟨by decide, by decide, by decide, by decide⟩
theorem valid32 : Valid binary32 := ⟨by decide, by decide, by decide, by decide⟩
theorem valid64 : Valid binary64 := ⟨by decide, by decide, by decide, by decide⟩

/-! ## canonical results, exact overflow threshold -/

theorem zero' {f : Fmt} (v : Valid f) (fl : PyVal) (s : Bool) (exp : Int) :
    mpf2float f fl (.fin s 0 exp) none .n = .bits 0 := by
  obtain ⟨B, hB, b1, b2, b3, b4, b5⟩ := fmt_facts v
  have hp := v.p2
  have hc : convInt f 0 = some (.fin 0 0) := by
    unfold convInt; simp [bitlen_zero]
  have hs : shiftLoop (largest f) 0 0 = (0, 0) := shiftLoop_le 0 (Nat.zero_le _)
  have hr : roundV f 0 0 = .fin 0 f.emin := by unfold roundV; simp
  have hmax : ¬ maxexp f < 0 := by unfold maxexp; omega
  unfold mpf2float
  simp only [normalize, fzero, if_true, Int.zero_add, Nat.cast_zero, signBits, Bool.false_eq_true, if_false,
    hmax, hs, hc, ldexpV, hr, pack_emin, Nat.add_zero]
  split <;> simp only [ite_self]

theorem roundV_canonical' {f : Fmt} (v : Valid f) (man : Nat) (exp : Int) (q : Nat) (e : Int)
    (h : roundV f man exp = .fin q e) :
    q < 2 ^ f.p ∧ f.emin ≤ e ∧ e ≤ f.emaxUlp ∧ (2 ^ (f.p - 1) ≤ q ∨ e = f.emin) := by
  obtain ⟨B, hB, b1, b2, b3, b4, b5⟩ := fmt_facts v
  have hp := v.p2
  have hlt : 2 ^ (f.p - 1) < 2 ^ f.p := Nat.pow_lt_pow_right (by omega) (by omega)
  have hpos := Nat.two_pow_pos (f.p - 1)
  unfold roundV at h
  by_cases hm : man = 0
  · simp only [hm, if_true] at h
    injection h with h1 h2
    subst h1 h2
    exact ⟨Nat.two_pow_pos _, by omega, by omega, Or.inr rfl⟩
  · simp only [hm, if_false] at h
    generalize hg : max ((bitlen man : Int) + exp - f.p) f.emin = g at h
    have hq0 : rne man exp g ≤ 2 ^ f.p := rne_le (by omega)
    by_cases hc : rne man exp g = 2 ^ f.p
    · simp only [hc, if_true] at h
      split at h
      · cases h
      · injection h with h1 h2
        subst h1 h2
        exact ⟨hlt, by omega, by omega, Or.inl (Nat.le_refl _)⟩
    · simp only [hc, if_false] at h
      split at h
      · cases h
      · injection h with h1 h2
        subst h1 h2
        refine ⟨by omega, by omega, by omega, ?_⟩
        by_cases hge : g = f.emin
        · exact Or.inr hge
        · left
          exact rne_ge hm (by have : ((f.p - 1 : Nat) : Int) = (f.p : Int) - 1 := by omega
                              omega)

theorem pack_lt_inf {f : Fmt} (v : Valid f) {q : Nat} {e : Int} (hq : q < 2 ^ f.p) (h1 : f.emin ≤ e) (h2 : e ≤ f.emaxUlp) :
    pack f (.fin q e) < f.infBits := by
  obtain ⟨B, hB, b1, b2, b3, b4, b5⟩ := fmt_facts v
  have hp := v.p2
  show (e - f.emin).toNat * 2 ^ f.fracBits + q < f.expMax * 2 ^ f.fracBits
  unfold Fmt.fracBits
  have hP : 2 ^ f.p = 2 * 2 ^ (f.p - 1) := by rw [show f.p = (f.p - 1) + 1 by omega, Nat.pow_succ]; simp; ring
  have hk : (e - f.emin).toNat + 2 ≤ f.expMax := by omega
  have := Nat.mul_le_mul_right (2 ^ (f.p - 1)) hk
  rw [Nat.add_mul] at this
  omega

theorem roundBits_lt_inf {f : Fmt} (v : Valid f) (man : Nat) (exp : Int) :
    roundBits f man exp = f.infBits ↔ roundV f man exp = .inf := by
  unfold roundBits
  constructor
  · intro h
    cases hr : roundV f man exp with
    | inf => rfl
    | fin q e =>
      rw [hr] at h
      obtain ⟨c1, c2, c3, c4⟩ := roundV_canonical' v man exp q e hr
      have := pack_lt_inf v c1 c2 c3
      omega
  · intro h; rw [h]; rfl

theorem infBits_pos {f : Fmt} (v : Valid f) : 0 < f.infBits := by
  obtain ⟨B, hB, b1, b2, b3, b4, b5⟩ := fmt_facts v
  unfold Fmt.infBits
  exact Nat.mul_pos (by omega) (Nat.two_pow_pos _)

theorem q1_inf_iff {f : Fmt} (v : Valid f) {man : Nat} (hm : man ≠ 0) (exp : Int) :
    roundV f (q1 f.p man) (exp + ((bitlen man - f.p : Nat) : Int)) = .inf ↔ maxexp f < top f.p man exp := by
  refine ⟨?_, q1_inf v hm exp⟩
  obtain ⟨B, hB, b1, b2, b3, b4, b5⟩ := fmt_facts v
  have hp : 1 ≤ f.p := by have := v.p2; omega
  obtain ⟨h1, h2, h3, h4, h5, h6⟩ := norm_facts false exp hm hp
  rw [← h6 f, roundV_short f hp h2 h3, ← h5, h4]
  generalize normalize false man exp f.p .n = r at *
  intro h
  split at h
  · unfold maxexp; omega
  · cases h

theorem overflow_iff' {f : Fmt} (v : Valid f) (fl : PyVal) (s : Bool) {man : Nat} (hm : man ≠ 0) (exp : Int) :
    mpf2float f fl (.fin s man exp) none .n = .bits (signBits f s + f.infBits) ↔
      dyLe (2 ^ (f.p + 1) - 1) (f.emaxUlp - 1) man exp := by
  refine ⟨?_, overflow' v fl s hm exp⟩
  have hp : 1 ≤ f.p := by have := v.p2; omega
  intro h
  rw [two_step'' v fl s hm exp] at h
  have hi := infBits_pos v
  have e : f.emaxUlp - 1 = maxexp f - f.p - 1 := by unfold maxexp; omega
  rw [e, ← top_gt_iff hp hm]
  generalize (if fl.truthy = true then minexp f else subexp f) = z at h
  by_cases hz : top f.p man exp < z
  · simp only [hz, if_true] at h
    injection h with h; omega
  · simp only [hz, if_false] at h
    injection h with h
    have : roundBits f (q1 f.p man) (exp + ((bitlen man - f.p : Nat) : Int)) = f.infBits := by omega
    rw [roundBits_lt_inf v] at this
    exact (q1_inf_iff v hm exp).1 this

theorem roundV_inf_iff' {f : Fmt} (v : Valid f) {man : Nat} (hm : man ≠ 0) (exp : Int) :
    roundV f man exp = .inf ↔ dyLe (2 ^ (f.p + 1) - 1) (f.emaxUlp - 1) man exp := by
  obtain ⟨B, hB, b1, b2, b3, b4, b5⟩ := fmt_facts v
  have hp : 1 ≤ f.p := by have := v.p2; omega
  have tb := top_bounds (p := f.p) (man := man) hp exp
  have key : minexp f ≤ (bitlen man : Int) + exp →
      (roundV f man exp = .inf ↔ dyLe (2 ^ (f.p + 1) - 1) (f.emaxUlp - 1) man exp) := by
    intro hge
    rw [← overflow_iff' v .false false hm exp, ge_min_normal' v .false false hm exp hge, ← roundBits_lt_inf v]
    constructor
    · intro h; rw [h]
    · intro h; injection h with h; omega
  constructor
  · intro h
    have hge : minexp f ≤ (bitlen man : Int) + exp := by
      unfold roundV at h
      simp only [hm, if_false] at h
      unfold minexp
      generalize hg : max ((bitlen man : Int) + exp - f.p) f.emin = g at h
      by_cases hc : rne man exp g = 2 ^ f.p
      · simp only [hc, if_true] at h
        by_cases ho : f.emaxUlp < g + 1
        · omega
        · simp only [ho, if_false] at h; cases h
      · simp only [hc, if_false] at h
        by_cases ho : f.emaxUlp < g
        · omega
        · simp only [ho, if_false] at h; cases h
    exact (key hge).1 h
  · intro h
    have hge : minexp f ≤ (bitlen man : Int) + exp := by
      have e : f.emaxUlp - 1 = maxexp f - f.p - 1 := by unfold maxexp; omega
      rw [e, ← top_gt_iff hp hm] at h
      unfold minexp maxexp at *; omega
    exact (key hge).2 h

/-! ## the reference rounding is a nearest representable value, ties to even -/

/-- the value `m·2^e` in units of `2^E` (meaningful for `E ≤ e`) -/
def dyVal (m : Nat) (e E : Int) : Int := (m : Int) * 2 ^ (e - E).toNat

theorem dyVal_nat (m : Nat) (e E : Int) : dyVal m e E = ((m * 2 ^ (e - E).toNat : Nat) : Int) := by
  unfold dyVal; push_cast; rfl

theorem isRNE_scale {m D q K : Nat} (hk : 0 < K) (h : IsRNE m D q) : IsRNE (m * K) (D * K) q := by
  unfold IsRNE at *
  obtain ⟨a1, a2, a3, a4⟩ := h
  have e1 : 2 * (q * (D * K)) = (2 * (q * D)) * K := by ring
  have e2 : 2 * (m * K) + D * K = (2 * m + D) * K := by ring
  have e3 : 2 * (m * K) = (2 * m) * K := by ring
  have e4 : 2 * (q * (D * K)) + D * K = (2 * (q * D) + D) * K := by ring
  refine ⟨?_, ?_, ?_, ?_⟩
  · rw [e1, e2]; exact Nat.mul_le_mul_right K a1
  · rw [e3, e4]; exact Nat.mul_le_mul_right K a2
  · rw [e3, e4]; intro h; exact a3 (Nat.eq_of_mul_eq_mul_right hk h)
  · rw [e1, e2]; intro h; exact a4 (Nat.eq_of_mul_eq_mul_right hk h)

theorem rne_isRNE (man : Nat) {exp g E : Int} (h1 : E ≤ exp) (h2 : E ≤ g) :
    IsRNE (man * 2 ^ (exp - E).toNat) (2 ^ (g - E).toNat) (rne man exp g) := by
  unfold rne
  split
  · rename_i h
    have : man * 2 ^ (exp - E).toNat = (man * 2 ^ (exp - g).toNat) * 2 ^ (g - E).toNat := by
      rw [Nat.mul_assoc, ← Nat.pow_add]; congr 2; omega
    rw [this]
    have := Nat.two_pow_pos (g - E).toNat
    unfold IsRNE
    refine ⟨by omega, by omega, by omega, by omega⟩
  · rename_i h
    have := isRNE_scale (Nat.two_pow_pos (exp - E).toNat) (rneDiv_spec man (g - exp).toNat)
    rw [← Nat.pow_add] at this
    rwa [show (g - exp).toNat + (exp - E).toNat = (g - E).toNat by omega] at this

theorem core_grid {X U q0 k : Nat} (hU : 0 < U) (h : IsRNE X U q0) :
    ((X : Int) - ((q0 * U : Nat) : Int)).natAbs ≤ ((X : Int) - ((k * U : Nat) : Int)).natAbs ∧
    (((X : Int) - ((q0 * U : Nat) : Int)).natAbs = ((X : Int) - ((k * U : Nat) : Int)).natAbs → k ≠ q0 → q0 % 2 = 0) := by
  unfold IsRNE at h
  obtain ⟨a1, a2, a3, a4⟩ := h
  rcases Nat.lt_trichotomy k q0 with lt | eq | gt
  · have : (k + 1) * U ≤ q0 * U := Nat.mul_le_mul_right U lt
    rw [Nat.add_mul, Nat.one_mul] at this
    constructor
    · omega
    · intro he _
      apply a4; omega
  · subst eq
    exact ⟨Nat.le_refl _, fun _ hne => absurd rfl hne⟩
  · have : (q0 + 1) * U ≤ k * U := Nat.mul_le_mul_right U gt
    rw [Nat.add_mul, Nat.one_mul] at this
    constructor
    · omega
    · intro he _
      apply a3; omega

theorem core_below {X U H q0 A R' : Nat} (hU : U = 2 * H) (hH : 0 < H) (hX : A ≤ X) (hR : R' + H ≤ A)
    (hq : q0 * U = A ∨ A + U ≤ q0 * U) (h : IsRNE X U q0) :
    ((X : Int) - ((q0 * U : Nat) : Int)).natAbs ≤ ((X : Int) - (R' : Int)).natAbs ∧
    (((X : Int) - ((q0 * U : Nat) : Int)).natAbs = ((X : Int) - (R' : Int)).natAbs → False) := by
  unfold IsRNE at h
  obtain ⟨a1, a2, a3, a4⟩ := h
  constructor
  · omega
  · intro he
    omega

theorem roundV_nearest_aux {f : Fmt} (v : Valid f) (man : Nat) (exp : Int) (q : Nat) (e : Int)
    (h : roundV f man exp = .fin q e) (m' : Nat) (e' : Int) (hm' : m' < 2 ^ f.p) (he' : f.emin ≤ e')
    (E : Int) (h1 : E ≤ exp) (h2 : E < e) (h3 : E ≤ e') :
    (dyVal man exp E - dyVal q e E).natAbs ≤ (dyVal man exp E - dyVal m' e' E).natAbs ∧
    ((dyVal man exp E - dyVal q e E).natAbs = (dyVal man exp E - dyVal m' e' E).natAbs →
      dyVal q e E ≠ dyVal m' e' E → q % 2 = 0) := by
  obtain ⟨B, hB, b1, b2, b3, b4, b5⟩ := fmt_facts v
  have hp := v.p2
  by_cases hm : man = 0
  · subst hm
    unfold roundV at h
    simp only [if_true] at h
    injection h with h1' h2'
    subst h1' h2'
    simp only [dyVal, Nat.cast_zero, Int.zero_mul, Int.sub_zero, Int.natAbs_zero, Nat.zero_le, true_and]
    intro _ _; trivial
  · unfold roundV at h
    simp only [hm, if_false] at h
    generalize hg : max ((bitlen man : Int) + exp - f.p) f.emin = g at h
    -- the value of the result in units of 2^E is q0 * U, and q is even when q0 is
    have hval : E ≤ g ∧ dyVal q e E = ((rne man exp g * 2 ^ (g - E).toNat : Nat) : Int) ∧ (rne man exp g % 2 = 0 → q % 2 = 0) := by
      by_cases hc : rne man exp g = 2 ^ f.p
      · simp only [hc, if_true] at h
        split at h
        · cases h
        · injection h with h1' h2'
          subst h1' h2'
          refine ⟨by omega, ?_, ?_⟩
          · rw [dyVal_nat, hc]
            congr 1
            rw [show (g + 1 - E).toNat = (g - E).toNat + 1 by omega, Nat.pow_succ,
              show f.p = (f.p - 1) + 1 by omega, Nat.pow_succ, show f.p - 1 + 1 - 1 = f.p - 1 by omega]
            ring
          · intro _
            rw [show f.p - 1 = (f.p - 2) + 1 by omega, Nat.pow_succ]; omega
      · simp only [hc, if_false] at h
        split at h
        · cases h
        · injection h with h1' h2'
          subst h1' h2'
          exact ⟨by omega, dyVal_nat _ _ _, fun h => h⟩
    obtain ⟨hEg, hv, hev⟩ := hval
    have hI := rne_isRNE man h1 hEg
    have hUpos := Nat.two_pow_pos (g - E).toNat
    rw [hv, dyVal_nat man exp E]
    by_cases hge : g ≤ e'
    · -- the candidate lies on the grid of the result
      have : dyVal m' e' E = (((m' * 2 ^ (e' - g).toNat) * 2 ^ (g - E).toNat : Nat) : Int) := by
        rw [dyVal_nat, Nat.mul_assoc, ← Nat.pow_add]
        congr 3; omega
      rw [this]
      obtain ⟨c1, c2⟩ := core_grid (k := m' * 2 ^ (e' - g).toNat) hUpos hI
      refine ⟨c1, ?_⟩
      intro he hne
      apply hev
      apply c2 he
      intro hk
      apply hne
      rw [hk]
    · -- the candidate has a finer quantum: it lies below the binade of x
      have hgL : g = (bitlen man : Int) + exp - f.p := by omega
      obtain ⟨l1, l2, l3⟩ := bitlen_bounds hm
      have hU : 2 ^ (g - E).toNat = 2 * 2 ^ ((g - E).toNat - 1) := by
        rw [show (g - E).toNat = ((g - E).toNat - 1) + 1 by omega, Nat.pow_succ]; simp; ring
      have hHpos := Nat.two_pow_pos ((g - E).toNat - 1)
      have hX : 2 ^ (f.p - 1) * 2 ^ (g - E).toNat ≤ man * 2 ^ (exp - E).toNat := by
        have : 2 ^ (bitlen man - 1) * 2 ^ (exp - E).toNat ≤ man * 2 ^ (exp - E).toNat := Nat.mul_le_mul_right _ l1
        rw [← Nat.pow_add] at this ⊢
        rwa [show f.p - 1 + (g - E).toNat = bitlen man - 1 + (exp - E).toNat by omega]
      have hR : m' * 2 ^ (e' - E).toNat + 2 ^ ((g - E).toNat - 1) ≤ 2 ^ (f.p - 1) * 2 ^ (g - E).toNat := by
        have s1 : m' * 2 ^ (e' - E).toNat ≤ (2 ^ f.p - 1) * 2 ^ (e' - E).toNat := Nat.mul_le_mul_right _ (by omega)
        have s2 : 2 ^ (e' - E).toNat ≤ 2 ^ ((g - E).toNat - 1) := Nat.pow_le_pow_right (by omega) (by omega)
        have s3 : (2 ^ f.p - 1) * 2 ^ (e' - E).toNat ≤ (2 ^ f.p - 1) * 2 ^ ((g - E).toNat - 1) := Nat.mul_le_mul_left _ s2
        have s4 : (2 ^ f.p - 1) * 2 ^ ((g - E).toNat - 1) + 2 ^ ((g - E).toNat - 1) = 2 ^ (f.p - 1) * 2 ^ (g - E).toNat := by
          rw [hU]
          have : 2 ^ f.p = 2 * 2 ^ (f.p - 1) := by rw [show f.p = (f.p - 1) + 1 by omega, Nat.pow_succ]; simp; ring
          rw [this]
          have := Nat.two_pow_pos (f.p - 1)
          obtain ⟨c, hc⟩ : ∃ c, 2 * 2 ^ (f.p - 1) = c + 1 := ⟨2 * 2 ^ (f.p - 1) - 1, by omega⟩
          rw [hc, Nat.add_sub_cancel]
          have : 2 ^ (f.p - 1) * (2 * 2 ^ ((g - E).toNat - 1)) = (c + 1) * 2 ^ ((g - E).toNat - 1) := by
            rw [← hc]; ring
          rw [this]; ring
        omega
      have hq0 : 2 ^ (f.p - 1) ≤ rne man exp g := rne_ge hm (by
        have : ((f.p - 1 : Nat) : Int) = (f.p : Int) - 1 := by omega
        omega)
      have hq : rne man exp g * 2 ^ (g - E).toNat = 2 ^ (f.p - 1) * 2 ^ (g - E).toNat ∨
          2 ^ (f.p - 1) * 2 ^ (g - E).toNat + 2 ^ (g - E).toNat ≤ rne man exp g * 2 ^ (g - E).toNat := by
        rcases Nat.eq_or_lt_of_le hq0 with eq | lt
        · left; rw [← eq]
        · right
          have : (2 ^ (f.p - 1) + 1) * 2 ^ (g - E).toNat ≤ rne man exp g * 2 ^ (g - E).toNat :=
            Nat.mul_le_mul_right (2 ^ (g - E).toNat) lt
          rwa [Nat.add_mul, Nat.one_mul] at this
      rw [dyVal_nat m' e' E]
      obtain ⟨c1, c2⟩ := core_below hU hHpos hX hR hq hI
      exact ⟨c1, fun he _ => (c2 he).elim⟩

/-! ## bit patterns: decode ∘ pack, identity -/

theorem roundV_nearest' {f : Fmt} (v : Valid f) (man : Nat) (exp : Int) (q : Nat) (e : Int)
    (h : roundV f man exp = .fin q e) (m' : Nat) (e' : Int) (hm' : m' < 2 ^ f.p) (he' : f.emin ≤ e')
    (E : Int) (h1 : E ≤ exp) (h2 : E < e) (h3 : E ≤ e') :
    (dyVal man exp E - dyVal q e E).natAbs ≤ (dyVal man exp E - dyVal m' e' E).natAbs :=
  (roundV_nearest_aux v man exp q e h m' e' hm' he' E h1 h2 h3).1

theorem roundV_tie_even' {f : Fmt} (v : Valid f) (man : Nat) (exp : Int) (q : Nat) (e : Int)
    (h : roundV f man exp = .fin q e) (m' : Nat) (e' : Int) (hm' : m' < 2 ^ f.p) (he' : f.emin ≤ e')
    (E : Int) (h1 : E ≤ exp) (h2 : E < e) (h3 : E ≤ e')
    (hd : (dyVal man exp E - dyVal q e E).natAbs = (dyVal man exp E - dyVal m' e' E).natAbs)
    (hne : dyVal q e E ≠ dyVal m' e' E) : q % 2 = 0 :=
  (roundV_nearest_aux v man exp q e h m' e' hm' he' E h1 h2 h3).2 hd hne

/-! bit patterns -/
theorem signBit_eq (f : Fmt) (hp : 1 ≤ f.p) : f.signBit = 2 ^ f.ew * 2 ^ f.fracBits := by
  unfold Fmt.signBit Fmt.width Fmt.fracBits
  rw [← Nat.pow_add]; congr 1; omega

theorem fields_of {f : Fmt} (hp : 1 ≤ f.p) (s : Bool) {E M : Nat} (hE : E < 2 ^ f.ew) (hM : M < 2 ^ f.fracBits) :
    fields f ((if s then f.signBit else 0) + E * 2 ^ f.fracBits + M) = ⟨s, E, M⟩ := by
  have hW := signBit_eq f hp
  have hP := Nat.two_pow_pos f.fracBits
  have hlt : E * 2 ^ f.fracBits + M < f.signBit := by
    rw [hW]
    have : (E + 1) * 2 ^ f.fracBits ≤ 2 ^ f.ew * 2 ^ f.fracBits := Nat.mul_le_mul_right _ hE
    rw [Nat.add_mul] at this; omega
  have hWpos : 0 < f.signBit := by omega
  unfold fields
  have e1 : ((if s then f.signBit else 0) + E * 2 ^ f.fracBits + M) / 2 ^ f.fracBits % 2 ^ f.ew = E := by
    cases s
    · simp only [Bool.false_eq_true, if_false, Nat.zero_add]
      rw [Nat.mul_comm, Nat.mul_add_div hP, Nat.div_eq_of_lt hM, Nat.add_zero, Nat.mod_eq_of_lt hE]
    · simp only [if_true]
      have : f.signBit + E * 2 ^ f.fracBits + M = 2 ^ f.fracBits * (2 ^ f.ew + E) + M := by rw [hW]; ring
      rw [this, Nat.mul_add_div hP, Nat.div_eq_of_lt hM,
        Nat.add_zero, Nat.add_mod_left, Nat.mod_eq_of_lt hE]
  have e2 : ((if s then f.signBit else 0) + E * 2 ^ f.fracBits + M) % 2 ^ f.fracBits = M := by
    cases s
    · simp only [Bool.false_eq_true, if_false, Nat.zero_add]
      rw [Nat.mul_comm, Nat.mul_add_mod, Nat.mod_eq_of_lt hM]
    · simp only [if_true]
      have : f.signBit + E * 2 ^ f.fracBits + M = 2 ^ f.fracBits * (2 ^ f.ew + E) + M := by rw [hW]; ring
      rw [this, Nat.mul_add_mod, Nat.mod_eq_of_lt hM]
  have e3 : (decide (((if s then f.signBit else 0) + E * 2 ^ f.fracBits + M) / f.signBit % 2 = 1)) = s := by
    cases s
    · simp only [Bool.false_eq_true, if_false, Nat.zero_add]
      rw [Nat.div_eq_of_lt hlt]; rfl
    · simp only [if_true]
      rw [Nat.add_assoc, Nat.add_div_left _ hWpos, Nat.div_eq_of_lt hlt]; rfl
  rw [e1, e2, e3]

theorem decode_pack' {f : Fmt} (v : Valid f) (q : Nat) (e : Int)
    (hq : q < 2 ^ f.p) (he : f.emin ≤ e) (he2 : e ≤ f.emaxUlp) (hc : 2 ^ (f.p - 1) ≤ q ∨ e = f.emin) :
    decode f (pack f (.fin q e)) = .fin false q e := by
  obtain ⟨B, hB, b1, b2, b3, b4, b5⟩ := fmt_facts v
  have hp := v.p2
  have hp1 : 1 ≤ f.p := by omega
  have hP : 2 ^ f.p = 2 * 2 ^ f.fracBits := by
    unfold Fmt.fracBits; rw [show f.p = (f.p - 1) + 1 by omega, Nat.pow_succ]; simp; ring
  have hew : 2 ^ f.ew = 2 * B := by
    rw [hB, show f.ew = (f.ew - 1) + 1 by have := v.ew2; omega, Nat.pow_succ]; simp; ring
  have hfb : f.fracBits = f.p - 1 := rfl
  show decode f ((e - f.emin).toNat * 2 ^ f.fracBits + q) = _
  by_cases hs : q < 2 ^ f.fracBits
  · have he' : e = f.emin := by rcases hc with h | h; (rw [← hfb] at h; omega); exact h
    subst he'
    have : (f.emin - f.emin).toNat * 2 ^ f.fracBits + q = (if false then f.signBit else 0) + 0 * 2 ^ f.fracBits + q := by simp
    unfold decode
    rw [this, fields_of hp1 false (Nat.two_pow_pos _) hs]
    have : (0 : Nat) ≠ f.expMax := by omega
    simp [this]
  · have hk : (e - f.emin).toNat + 1 < 2 ^ f.ew := by omega
    have hM : q - 2 ^ f.fracBits < 2 ^ f.fracBits := by omega
    have : (e - f.emin).toNat * 2 ^ f.fracBits + q
        = (if false then f.signBit else 0) + ((e - f.emin).toNat + 1) * 2 ^ f.fracBits + (q - 2 ^ f.fracBits) := by
      simp only [Bool.false_eq_true, if_false, Nat.zero_add, Nat.add_mul, Nat.one_mul]; omega
    unfold decode
    rw [this, fields_of hp1 false hk hM]
    have h1 : (e - f.emin).toNat + 1 ≠ f.expMax := by omega
    have h2 : (e - f.emin).toNat + 1 ≠ 0 := by omega
    simp only [h1, h2, if_false]
    congr 1
    · omega
    · omega

theorem fields_decomp {f : Fmt} (hp : 1 ≤ f.p) {b : Nat} (hb : b < 2 ^ f.width) :
    ∃ (sgn : Bool) (E M : Nat), E < 2 ^ f.ew ∧ M < 2 ^ f.fracBits ∧
      b = (if sgn then f.signBit else 0) + E * 2 ^ f.fracBits + M := by
  have hW := signBit_eq f hp
  have hP := Nat.two_pow_pos f.fracBits
  have hWpos : 0 < f.signBit := by rw [hW]; exact Nat.mul_pos (Nat.two_pow_pos _) hP
  have hw2 : 2 ^ f.width = 2 * f.signBit := by
    unfold Fmt.signBit Fmt.width
    rw [show f.ew + f.p = (f.ew + f.p - 1) + 1 by omega, Nat.pow_succ]; simp; ring
  have hdm := Nat.div_add_mod b f.signBit
  have hr := Nat.mod_lt b hWpos
  have hq : b / f.signBit < 2 := by
    rw [Nat.div_lt_iff_lt_mul hWpos]; omega
  have hdm2 := Nat.div_add_mod (b % f.signBit) (2 ^ f.fracBits)
  have hr2 := Nat.mod_lt (b % f.signBit) hP
  have hE : b % f.signBit / 2 ^ f.fracBits < 2 ^ f.ew := by
    rw [Nat.div_lt_iff_lt_mul hP, ← hW]; exact hr
  refine ⟨decide (b / f.signBit = 1), b % f.signBit / 2 ^ f.fracBits, b % f.signBit % 2 ^ f.fracBits, hE, hr2, ?_⟩
  rw [Nat.mul_comm] at hdm2
  have : b / f.signBit = 0 ∨ b / f.signBit = 1 := by
    generalize b / f.signBit = t at hq
    omega
  rcases this with h0 | h1
  · rw [h0] at hdm
    have hs : decide (b / f.signBit = 1) = false := by rw [h0]; rfl
    rw [hs]
    simp only [Bool.false_eq_true, if_false]
    omega
  · rw [h1] at hdm
    have hs : decide (b / f.signBit = 1) = true := by rw [h1]; rfl
    rw [hs]
    simp only [if_true]
    omega

theorem roundV_id {f : Fmt} (v : Valid f) {q : Nat} {e : Int} (hq0 : q ≠ 0)
    (hq : q < 2 ^ f.p) (he : f.emin ≤ e) (he2 : e ≤ f.emaxUlp) (hc : 2 ^ (f.p - 1) ≤ q ∨ e = f.emin) :
    roundV f q e = .fin q e := by
  have hp := v.p2
  have hb : bitlen q ≤ f.p := bitlen_le_of_lt hq
  rw [roundV_short f (by omega) hq0 hb]
  have hg : max ((bitlen q : Int) + e - f.p) f.emin = e := by
    rcases hc with h | h
    · have : bitlen q = (f.p - 1) + 1 := bitlen_eq_of h (by rwa [show f.p - 1 + 1 = f.p by omega])
      omega
    · omega
  rw [hg]
  have : ¬ f.emaxUlp < e := by omega
  simp only [this, if_false]
  congr 1
  unfold rne; simp

theorem identity' {f : Fmt} (v : Valid f) (kw : Option PyVal) (dflt : PyVal) (hfl : effectiveFlush kw dflt = false)
    (b : Nat) (hb : b < 2 ^ f.width) (s : Bool) (m : Nat) (e : Int) (hd : decode f b = .fin s m e) (hm : m ≠ 0) :
    call f kw dflt 0 1 0 .id b 0 = some (.bits b) := by
  obtain ⟨B, hB, b1, b2, b3, b4, b5⟩ := fmt_facts v
  have hp := v.p2
  have hp1 : 1 ≤ f.p := by omega
  have hP : 2 ^ f.p = 2 * 2 ^ f.fracBits := by
    unfold Fmt.fracBits; rw [show f.p = (f.p - 1) + 1 by omega, Nat.pow_succ]; simp; ring
  have hew : 2 ^ f.ew = 2 * B := by
    rw [hB, show f.ew = (f.ew - 1) + 1 by have := v.ew2; omega, Nat.pow_succ]; simp; ring
  have hfb : 2 ^ f.fracBits = 2 ^ (f.p - 1) := rfl
  obtain ⟨sgn, E, M, hE, hM, hbe⟩ := fields_decomp hp1 hb
  -- read (s, m, e) off the fields
  have key : s = sgn ∧ m < 2 ^ f.p ∧ f.emin ≤ e ∧ e ≤ f.emaxUlp ∧ (2 ^ (f.p - 1) ≤ m ∨ e = f.emin) ∧
      pack f (.fin m e) = E * 2 ^ f.fracBits + M := by
    unfold decode at hd
    rw [hbe, fields_of hp1 sgn hE hM] at hd
    simp only at hd
    by_cases h1 : E = f.expMax
    · simp only [h1, if_true] at hd
      split at hd <;> cases hd
    · simp only [h1, if_false] at hd
      by_cases h0 : E = 0
      · simp only [h0, if_true] at hd
        injection hd with d1 d2 d3
        subst d1 d2 d3
        refine ⟨rfl, by omega, by omega, by omega, Or.inr rfl, ?_⟩
        rw [pack_emin, h0]; simp
      · simp only [h0, if_false] at hd
        injection hd with d1 d2 d3
        subst d1 d2 d3
        refine ⟨rfl, by omega, by omega, by omega, Or.inl (by rw [← hfb]; omega), ?_⟩
        show ((E : Int) - 1 + f.emin - f.emin).toNat * 2 ^ f.fracBits + (M + 2 ^ f.fracBits) = _
        rw [show ((E : Int) - 1 + f.emin - f.emin).toNat = E - 1 by omega]
        obtain ⟨c, hc⟩ : ∃ c, E = c + 1 := ⟨E - 1, by omega⟩
        rw [hc, Nat.add_sub_cancel, Nat.add_mul, Nat.one_mul]; omega
  obtain ⟨k1, k2, k3, k4, k5, k6⟩ := key
  subst k1
  have hfl' : (initFlush kw dflt).truthy = false := hfl
  have hbl : bitlen m ≤ f.p := bitlen_le_of_lt k2
  have hb1 := (bitlen_bounds hm).2.2
  have hex : ¬ (extraPrec f.p 0 1 0 < 0) := by unfold extraPrec; simp
  unfold call
  simp only [hex, if_false, evalFn, float2mpf, hd, hm]
  rw [representable' v _ hfl' s hm e hbl (by unfold subexp; omega)]
  unfold roundBits
  rw [roundV_id v hm k2 k3 k4 k5, k6, hbe]
  unfold signBits
  rw [Nat.add_assoc]

/-! ## regression: the flag handling before /repo commit 724e786 -/

/-- `vectorize_with_mpmath.__init__` BEFORE the fix 724e786 (`... if flush_subnormals is UNSPECIFIED else ...`):
kept only to state the regression witnesses of Props/C15. -/
def initFlushPre724e786 (kw : Option PyVal) (dflt : PyVal) : PyVal :=
  let fs := kw.getD .unspecified
  if fs.isUnspecified then fs else dflt

end FAVerif.Mpf
