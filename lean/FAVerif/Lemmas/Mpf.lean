import FAVerif.Models.Mpf
namespace FAVerif.Mpf
end FAVerif.Mpf
