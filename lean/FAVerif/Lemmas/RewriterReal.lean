/-
C04 — a concrete interpretation: exact real arithmetic over ℝ with `Real.sqrt`, the named
constants being those of NumPy's float32 (`numpy.finfo(numpy.float32)`, `float32(pi)`).
It shows that the hypotheses of the soundness theorems are satisfiable (non-vacuity).
-/
import Mathlib.Analysis.Real.Sqrt
import FAVerif.Lemmas.Rewriter

set_option linter.unusedSectionVars false
set_option linter.unusedVariables false
set_option linter.unusedSimpArgs false

namespace FAVerif.Rewriter
open FAVerif.FP FAVerif.SignAbs

/-- value of a named constant in dtype `t`, as an extended rational -/
def namedQ (t : FTag) (s : String) : Option ExtQ := (namedBits t s).map (extOfBits t.fmt)

noncomputable def realSem (t : FTag) : Sem ℝ where
  rnd := id
  ok := fun _ => true
  sqrt := Real.sqrt
  up := id
  down := id
  fn1 := fun n x =>
    if (n = "log" ∨ n = "log2" ∨ n = "log10") ∧ x = 1 then some 0
    else if n = "log1p" ∧ x = 0 then some 0 else some x
  fn2 := fun _ x _ => some x
  named := fun s => (namedQ t s).bind extK

theorem q_eps : namedQ .f32 "eps" = some (.fin (1/8388608)) := by decide +kernel
theorem q_smallest : namedQ .f32 "smallest" = some (.fin (1/85070591730234615865843651857942052864)) := by decide +kernel
theorem q_ssub : namedQ .f32 "smallest_subnormal" = some (.fin (1/713623846352979940529142984724747568191373312)) := by
  decide +kernel
theorem q_largest : namedQ .f32 "largest" = some (.fin 340282346638528859811704183484516925440) := by decide +kernel
theorem q_pi : namedQ .f32 "pi" = some (.fin (13176795/4194304)) := by decide +kernel
theorem q_posinf : namedQ .f32 "posinf" = some .pinf := by decide +kernel
theorem q_neginf : namedQ .f32 "neginf" = some .ninf := by decide +kernel
theorem q_nan : namedQ .f32 "nan" = some .nan := by decide +kernel
theorem q_undefined : namedQ .f32 "undefined" = some .nan := by decide +kernel

theorem namedQ_unknown (t : FTag) (s : String) (h : namedKnown s = false) : namedQ t s = none := by
  simp only [namedKnown, knownNames, List.contains_cons, List.contains_nil, Bool.or_false, Bool.or_eq_false_iff,
    beq_eq_false_iff_ne, ne_eq] at h
  obtain ⟨h1, h2, h3, h4, h5, h6, h7, h8, h9⟩ := h
  simp [namedQ, namedBits, h1, h2, h3, h4, h5, h6, h7, h8, h9]

theorem realSem_laws : (realSem .f32).Laws where
  mono := fun a b h => h
  idem := fun a => rfl
  odd := fun a => rfl
  rnd_one := rfl
  ok_zero := rfl
  ok_one := rfl
  ok_neg := fun a => rfl
  nz := fun z _ h => h
  sqrt_nonneg := fun a _ => Real.sqrt_nonneg a
  sqrt_pos := fun a h => Real.sqrt_pos.2 h
  sqrt_sq := fun r h => Real.sqrt_mul_self h
  sqrt_mul_self := fun a h => Real.mul_self_sqrt h
  fn1_rep := fun n a b _ => rfl
  fn2_rep := fun n a b c _ => rfl
  log_one := by simp [realSem]
  log1p_zero := by simp [realSem]
  up_rep := fun a _ => rfl
  down_rep := fun a => rfl
  down_up := fun a _ => rfl
  named_posinf := by simp [realSem, q_posinf, extK]
  named_neginf := by simp [realSem, q_neginf, extK]
  named_nan := by simp [realSem, q_nan, q_undefined, extK]
  named_unknown := fun s h => by simp [realSem, namedQ_unknown _ s h]
  named_fin := by
    intro s hk h1 h2 h3 h4
    simp only [namedKnown, knownNames, List.contains_cons, List.contains_nil, Bool.or_false, Bool.or_eq_true,
      beq_iff_eq] at hk
    rcases hk with rfl | rfl | rfl | rfl | rfl | rfl | rfl | rfl | rfl
    · exact ⟨((1/8388608 : ℚ) : ℝ), by simp only [realSem, q_eps, Option.bind_some, extK], by norm_num, by norm_num, rfl⟩
    · exact absurd rfl h1
    · exact absurd rfl h2
    · exact ⟨((1/85070591730234615865843651857942052864 : ℚ) : ℝ), by simp only [realSem, q_smallest, Option.bind_some, extK], by norm_num, by norm_num, rfl⟩
    · exact ⟨((340282346638528859811704183484516925440 : ℚ) : ℝ), by simp only [realSem, q_largest, Option.bind_some, extK], by norm_num, by norm_num, rfl⟩
    · exact ⟨((1/713623846352979940529142984724747568191373312 : ℚ) : ℝ), by simp only [realSem, q_ssub, Option.bind_some, extK], by norm_num, by norm_num, rfl⟩
    · exact ⟨((13176795/4194304 : ℚ) : ℝ), by simp only [realSem, q_pi, Option.bind_some, extK], by norm_num, by norm_num, rfl⟩
    · exact absurd rfl h4
    · exact absurd rfl h3

/-- the named points of float32 -/
noncomputable def nc32 : NC ℝ where
  a := ((1/713623846352979940529142984724747568191373312 : ℚ) : ℝ)
  b := ((1/85070591730234615865843651857942052864 : ℚ) : ℝ)
  c := ((1/8388608 : ℚ) : ℝ)
  d := ((340282346638528859811704183484516925440 : ℚ) : ℝ)
  h := by norm_num

theorem realSem_nc :
    (realSem .f32).named "smallest_subnormal" = some (.fin nc32.a) ∧ (realSem .f32).named "smallest" = some (.fin nc32.b) ∧
    (realSem .f32).named "eps" = some (.fin nc32.c) ∧ (realSem .f32).named "largest" = some (.fin nc32.d) := by
  simp only [realSem, q_ssub, q_smallest, q_eps, q_largest, Option.bind_some, extK, nc32, and_self]

theorem realSem_ofExt (t : FTag) (x : ExtQ) : (realSem t).ofExt x = extK x := by
  cases x <;> simp [Sem.ofExt, extK, Sem.arith, realSem]

theorem realSem_named (t s : _) (b : Nat) (w : FTag) (hw : some w = some t) (h : namedBits t s = some b) :
    (realSem w).named s = (realSem w).ofExt (extOfBits t.fmt b) := by
  cases hw
  rw [realSem_ofExt]
  simp [realSem, namedQ, h]

end FAVerif.Rewriter
