/-
End-to-end: 2Sum / Fast2Sum on BIT PATTERNS.  The softfloat operations are correctly rounded
(`SoftOps`), `rne` is a round-to-nearest (`RNE`), so the abstract exactness theorems apply to
the bit-exact evaluation of the traced programs whenever no intermediate result overflows.
-/
import FAVerif.Lemmas.SoftOps
import FAVerif.Lemmas.EFT

namespace FAVerif.SoftRound
open FAVerif.FP FAVerif.FPQ FAVerif.IR FAVerif.Spec

lemma finite_decode (f : Fmt) (b : Nat) (h : isFiniteBits f b = true) : ∃ s m e, decode f b = .fin s m e := by
  unfold isFiniteBits at h
  have hne : (fields f b).e ≠ f.expMax := by simpa using h
  unfold decode
  simp only [hne, if_false]
  split_ifs <;> exact ⟨_, _, _, rfl⟩

lemma toQ_fin (f : Fmt) (b : Nat) (s : Bool) (m : Nat) (e : Int) (h : decode f b = .fin s m e) :
    toQ f b = some (valQ s m e) := by unfold toQ; rw [h, toRat_fin]

/-- every finite pattern denotes a representable rational -/
lemma rep_of_decode (f : Fmt) (h : WF f) (b : Nat) (s : Bool) (m : Nat) (e : Int) (hd : decode f b = .fin s m e) :
    Rep (qf f h.hp) (valQ s m e) := by
  -- from the shape of `decode`: m < 2^p and e ≥ emin
  have hfb : f.fracBits + 1 = f.p := by simp [Fmt.fracBits]; have := h.hp; omega
  have hpp : (2 : ℕ) ^ f.p = 2 * 2 ^ f.fracBits := by rw [← hfb, pow_succ]; ring
  have hmlt : (fields f b).m < 2 ^ f.fracBits := by
    unfold fields; exact Nat.mod_lt _ (by positivity)
  unfold decode at hd
  simp only at hd
  have key : m < 2 ^ f.p ∧ f.emin ≤ e := by
    split_ifs at hd with h1 h2 h3
    · cases hd; exact ⟨by omega, le_refl _⟩
    · cases hd
      constructor
      · omega
      · have : 1 ≤ (fields f b).e := Nat.pos_of_ne_zero h3
        omega
  refine ⟨if s then -(m : ℤ) else m, e, ?_, ?_, key.2⟩
  · cases s <;> simp [valQ]
  · have : |(if s then -(m : ℤ) else (m : ℤ))| = (m : ℤ) := by cases s <;> simp
    rw [this]; exact_mod_cast key.1

/-- **2Sum on bit patterns** (any format with p ≥ 2, ew ≥ 2; binary16/32/64 are instances):
finite operands, no overflow in the six operations ⇒ the returned pair is exact. -/
theorem twosum_bits (f : Fmt) (h : WF f) (x y : Nat)
    (hx : isFiniteBits f x = true) (hy : isFiniteBits f y = true) :
    let S := FP.add f y x
    let Z := FP.sub f S x
    let A := FP.sub f y Z
    let B := FP.sub f S Z
    let C := FP.sub f x B
    let T := FP.add f A C
    isFiniteBits f S = true → isFiniteBits f Z = true → isFiniteBits f A = true →
    isFiniteBits f B = true → isFiniteBits f C = true → isFiniteBits f T = true →
    ∃ qx qy qs qt : ℚ, toQ f x = some qx ∧ toQ f y = some qy ∧ toQ f S = some qs ∧ toQ f T = some qt ∧
      qs = rne (qf f h.hp) (qx + qy) ∧ qs + qt = qx + qy := by
  intro S Z A B C T hS hZ hA hB hC hT
  obtain ⟨sx, mx, ex, dx⟩ := finite_decode f x hx
  obtain ⟨sy, my, ey, dy⟩ := finite_decode f y hy
  obtain ⟨sS, mS, eS, dS⟩ := finite_decode f S hS
  obtain ⟨sZ, mZ, eZ, dZ⟩ := finite_decode f Z hZ
  obtain ⟨sA, mA, eA, dA⟩ := finite_decode f A hA
  obtain ⟨sB, mB, eB, dB⟩ := finite_decode f B hB
  obtain ⟨sC, mC, eC, dC⟩ := finite_decode f C hC
  set r := rne (qf f h.hp) with hr
  have hrn : IsRN (qf f h.hp) r := isRN_rne _
  set qx := valQ sx mx ex with hqx
  set qy := valQ sy my ey with hqy
  have vS : toQ f S = some (r (qy + qx)) := add_correct f h y x sy sx my mx ey ex dy dx hS
  have eS' : valQ sS mS eS = r (qy + qx) := by
    have := toQ_fin f S sS mS eS dS; rw [vS] at this; exact (Option.some.inj this).symm
  have vZ : toQ f Z = some (r (valQ sS mS eS - qx)) := sub_correct f h S x sS sx mS mx eS ex dS dx hZ
  have eZ' : valQ sZ mZ eZ = r (r (qy + qx) - qx) := by
    have := toQ_fin f Z sZ mZ eZ dZ; rw [vZ, eS'] at this; exact (Option.some.inj this).symm
  have vA : toQ f A = some (r (qy - valQ sZ mZ eZ)) := sub_correct f h y Z sy sZ my mZ ey eZ dy dZ hA
  have eA' : valQ sA mA eA = r (qy - r (r (qy + qx) - qx)) := by
    have := toQ_fin f A sA mA eA dA; rw [vA, eZ'] at this; exact (Option.some.inj this).symm
  have vB : toQ f B = some (r (valQ sS mS eS - valQ sZ mZ eZ)) := sub_correct f h S Z sS sZ mS mZ eS eZ dS dZ hB
  have eB' : valQ sB mB eB = r (r (qy + qx) - r (r (qy + qx) - qx)) := by
    have := toQ_fin f B sB mB eB dB; rw [vB, eS', eZ'] at this; exact (Option.some.inj this).symm
  have vC : toQ f C = some (r (qx - valQ sB mB eB)) := sub_correct f h x B sx sB mx mB ex eB dx dB hC
  have eC' : valQ sC mC eC = r (qx - r (r (qy + qx) - r (r (qy + qx) - qx))) := by
    have := toQ_fin f C sC mC eC dC; rw [vC, eB'] at this; exact (Option.some.inj this).symm
  have vT : toQ f T = some (r (valQ sA mA eA + valQ sC mC eC)) := add_correct f h A C sA sC mA mC eA eC dA dC hT
  refine ⟨qx, qy, r (qy + qx), r (valQ sA mA eA + valQ sC mC eC), toQ_fin f x sx mx ex dx, toQ_fin f y sy my ey dy, vS, vT,
    by rw [add_comm], ?_⟩
  have hexact : r (qx + qy) + r (r (qx - r (r (qx + qy) - r (r (qx + qy) - qx))) + r (qy - r (r (qx + qy) - qx))) = qx + qy :=
    twosum_exact hrn (rep_of_decode f h x sx mx ex dx) (rep_of_decode f h y sy my ey dy)
  rw [eA', eC', add_comm qy qx, add_comm (r (qy - _))]
  exact hexact

/-- **Fast2Sum on bit patterns**: finite operands with |value x| ≥ |value y|, no overflow ⇒ exact. -/
theorem fast2sum_bits (f : Fmt) (h : WF f) (x y : Nat)
    (hx : isFiniteBits f x = true) (hy : isFiniteBits f y = true) :
    let S := FP.add f y x
    let Z := FP.sub f S x
    let T := FP.sub f y Z
    isFiniteBits f S = true → isFiniteBits f Z = true → isFiniteBits f T = true →
    ∃ qx qy qs qt : ℚ, toQ f x = some qx ∧ toQ f y = some qy ∧ toQ f S = some qs ∧ toQ f T = some qt ∧
      (|qy| ≤ |qx| → qs = rne (qf f h.hp) (qx + qy) ∧ qs + qt = qx + qy) := by
  intro S Z T hS hZ hT
  obtain ⟨sx, mx, ex, dx⟩ := finite_decode f x hx
  obtain ⟨sy, my, ey, dy⟩ := finite_decode f y hy
  obtain ⟨sS, mS, eS, dS⟩ := finite_decode f S hS
  obtain ⟨sZ, mZ, eZ, dZ⟩ := finite_decode f Z hZ
  set r := rne (qf f h.hp) with hr
  have hrn : IsRN (qf f h.hp) r := isRN_rne _
  set qx := valQ sx mx ex with hqx
  set qy := valQ sy my ey with hqy
  have vS : toQ f S = some (r (qy + qx)) := add_correct f h y x sy sx my mx ey ex dy dx hS
  have eS' : valQ sS mS eS = r (qy + qx) := by
    have := toQ_fin f S sS mS eS dS; rw [vS] at this; exact (Option.some.inj this).symm
  have vZ : toQ f Z = some (r (valQ sS mS eS - qx)) := sub_correct f h S x sS sx mS mx eS ex dS dx hZ
  have eZ' : valQ sZ mZ eZ = r (r (qy + qx) - qx) := by
    have := toQ_fin f Z sZ mZ eZ dZ; rw [vZ, eS'] at this; exact (Option.some.inj this).symm
  have vT : toQ f T = some (r (qy - valQ sZ mZ eZ)) := sub_correct f h y Z sy sZ my mZ ey eZ dy dZ hT
  refine ⟨qx, qy, r (qy + qx), r (qy - valQ sZ mZ eZ), toQ_fin f x sx mx ex dx, toQ_fin f y sy my ey dy, vS, vT, ?_⟩
  intro hxy
  have hexact : r (qx + qy) + r (qy - r (r (qx + qy) - qx)) = qx + qy :=
    (fast2sum_exact hrn (rep_of_decode f h x sx mx ex dx) (rep_of_decode f h y sy my ey dy) hxy).2
  refine ⟨by rw [add_comm], ?_⟩
  rw [eZ', add_comm qy qx]
  exact hexact

end FAVerif.SoftRound
