/-
Helper lemmas for C13, part 4: numerator/denominator of a dyadic rational, and the
fraction round trip `fraction2float (float2fraction b)`.
-/
import FAVerif.Lemmas.ConvMpf
import Mathlib.Data.Nat.Prime.Basic

namespace FAVerif.Conv
open FAVerif.FP

/-- value of a finite float as a rational -/
def valQ (s : Bool) (m : Nat) (e : Int) : Rat := (if s then -1 else 1) * (m : Rat) * pow2 e

theorem valQ_eq (s : Bool) (m : Nat) (e : Int) (hm : m ≠ 0) :
    valQ s m e = ((if s then (-1:Int) else 1) * (oddPart m : Int) : Int) * (2:ℚ) ^ (e + tz m) := by
  unfold valQ
  rw [pow2_eq_zpow]
  have h2 : (2:ℚ) ≠ 0 := by norm_num
  have hm' : (m : ℚ) = (oddPart m : ℚ) * (2:ℚ) ^ (tz m : ℤ) := by
    rw [zpow_natCast]
    have := oddPart_mul m
    exact_mod_cast this.symm
  rw [hm', zpow_add₀ h2]
  cases s <;> simp <;> ring

/-- numerator and denominator (lowest terms) of the value of a finite float -/
theorem valQ_num_den (s : Bool) (m : Nat) (e : Int) (hm : m ≠ 0) :
    (0 ≤ e + tz m → (valQ s m e).num = (if s then (-1:Int) else 1) * ((oddPart m * 2 ^ (e + tz m).toNat : Nat) : Int)
        ∧ (valQ s m e).den = 1) ∧
    (e + tz m < 0 → (valQ s m e).num = (if s then (-1:Int) else 1) * (oddPart m : Int)
        ∧ (valQ s m e).den = 2 ^ (-(e + tz m)).toNat) := by
  rw [valQ_eq s m e hm]
  constructor
  · intro h
    have hk : e + tz m = ((e + tz m).toNat : ℤ) := by omega
    generalize (e + tz m).toNat = k at hk ⊢
    rw [hk, zpow_natCast]
    have : (((if s then (-1:Int) else 1) * (oddPart m : Int) : Int) : ℚ) * (2:ℚ) ^ k
        = (((if s then (-1:Int) else 1) * ((oddPart m * 2 ^ k : Nat) : Int) : Int) : ℚ) := by
      push_cast; ring
    rw [this]
    exact ⟨Rat.num_intCast _, Rat.den_intCast _⟩
  · intro h
    have hk : e + tz m = -((-(e + tz m)).toNat : ℤ) := by omega
    generalize (-(e + tz m)).toNat = k at hk ⊢
    rw [hk, zpow_neg, zpow_natCast]
    have : (((if s then (-1:Int) else 1) * (oddPart m : Int) : Int) : ℚ) * ((2:ℚ) ^ k)⁻¹
        = (((if s then (-1:Int) else 1) * (oddPart m : Int) : Int) : ℚ) / (((2 ^ k : Nat) : Int) : ℚ) := by
      push_cast; rw [div_eq_mul_inv]
    rw [this]
    have hpos : (0:Int) < ((2 ^ k : Nat) : Int) := by exact_mod_cast Nat.two_pow_pos k
    have hcop : Nat.Coprime ((if s then (-1:Int) else 1) * (oddPart m : Int)).natAbs (((2 ^ k : Nat) : Int)).natAbs := by
      have h1 : ((if s then (-1:Int) else 1) * (oddPart m : Int)).natAbs = oddPart m := by
        cases s <;> simp
      rw [h1, Int.natAbs_natCast]
      apply Nat.Coprime.pow_right
      rw [Nat.coprime_two_right]
      exact Nat.odd_iff.mpr (oddPart_odd m hm)
    refine ⟨Rat.num_div_eq_of_coprime hpos hcop, ?_⟩
    have := Rat.den_div_eq_of_coprime hpos hcop
    exact_mod_cast this

theorem toRat_fin (s : Bool) (m : Nat) (e : Int) : (V.fin s m e).toRat? = some (valQ s m e) := rfl

theorem sgnNat_le (s : Bool) : sgnNat s ≤ 1 := by cases s <;> simp [sgnNat]

theorem fromInt_exact (s : Bool) (n : Nat) (hn : n ≠ 0) :
    fromInt ((if s then (-1:Int) else 1) * (n : Int)) 0 = canonT (sgnNat s) n 0 := by
  have hnat : ((if s then (-1:Int) else 1) * (n : Int)).natAbs = n := by cases s <;> simp
  unfold fromInt
  rw [fromManExp_signed s _ hn, hnat]
  simp only [if_true]
  exact normalize_exact _ _ _ _ (sigBits_le_bitLen _)

/-- `mpmath.mp.mpf(num) / denom` at any precision `≥ p` reproduces the canonical tuple of a float value. -/
theorem mpfOfFraction_valQ (f : Fmt) (prec : Nat) (s : Bool) (m : Nat) (e : Int) (hm : m ≠ 0)
    (hprec : sigBits m ≤ prec) :
    mpfOfFraction prec (valQ s m e).num (valQ s m e).den = some (canonT (sgnNat s) m e) := by
  have hnd := valQ_num_den s m e hm
  have hodd := oddPart_ne_zero m hm
  have hidem := oddPart_idem m hm
  have hsig' : sigBits (oddPart m) = sigBits m := by unfold sigBits; rw [hidem.1]
  unfold mpfOfFraction
  by_cases hc : 0 ≤ e + tz m
  · obtain ⟨hn, hd⟩ := hnd.1 hc
    rw [hn, hd]
    generalize hk : (e + tz m).toNat = k at *
    have hkk : e + tz m = (k : Int) := by omega
    have hne : oddPart m * 2 ^ k ≠ 0 := by
      have := Nat.two_pow_pos k
      intro hz; rcases Nat.mul_eq_zero.mp hz with h' | h' <;> omega
    have hs1 : sigBits (oddPart m * 2 ^ k) = sigBits m := by
      unfold sigBits; rw [(tz_mul_pow _ k hodd).2, hidem.1]
    -- from_int(num)
    have h1 : fromInt ((if s then (-1:Int) else 1) * ((oddPart m * 2 ^ k : Nat) : Int)) 0 = canonT (sgnNat s) m e := by
      rw [fromInt_exact s _ hne, canonT_shift _ _ _ _ hodd]
      have : (0:Int) + (k:Int) = e + tz m := by omega
      rw [this]
      exact canonT_oddPart _ m e hm
    rw [h1]
    have h2 : fromInt ((1:Nat):Int) 0 = ⟨0, 1, 0, 1⟩ := by decide +kernel
    rw [h2]
    have hcf := canonT_fields (sgnNat s) m e hm
    have h3 : mpfPos prec (canonT (sgnNat s) m e) = canonT (sgnNat s) m e := by
      unfold mpfPos MpfT.isSpecial
      rw [hcf]
      simp only [hodd, beq_iff_eq, Bool.false_and, Bool.false_eq_true, if_false]
      have : sigBits (oddPart m) ≤ prec := by rw [hsig']; exact hprec
      rw [normalize_exact _ _ _ _ this, canonT_fields _ _ _ hodd, hidem.1, hidem.2, hsig']
      simp
    rw [h3, hcf]
    unfold mpfDiv
    have hsl := sgnNat_le s
    simp only [hodd, one_ne_zero, or_self, if_false, if_true]
    have hsg : (if sgnNat s = 0 then 0 else 1) = sgnNat s := by
      cases s <;> simp [sgnNat]
    rw [hsg]
    have : sigBits (oddPart m) ≤ prec := by rw [hsig']; exact hprec
    rw [normalize_exact _ _ _ _ this, canonT_fields _ _ _ hodd, hidem.1, hidem.2, hsig']
    simp
  · have hc' : e + tz m < 0 := by omega
    obtain ⟨hn, hd⟩ := hnd.2 hc'
    rw [hn, hd]
    generalize hk : (-(e + tz m)).toNat = k at *
    have hkk : e + tz m = -(k : Int) := by omega
    have h1 : fromInt ((if s then (-1:Int) else 1) * (oddPart m : Int)) 0 = canonT (sgnNat s) (oddPart m) 0 :=
      fromInt_exact s _ hodd
    rw [h1]
    have h2 : fromInt ((2 ^ k : Nat) : Int) 0 = ⟨0, 1, k, 1⟩ := by
      unfold fromInt
      simp only [if_true]
      have hpos : ¬ (((2 ^ k : Nat) : Int) < 0) := by
        have : (0:Int) ≤ ((2 ^ k : Nat) : Int) := Int.natCast_nonneg _
        omega
      unfold fromManExp
      simp only [hpos, if_false, Int.natAbs_natCast]
      have hs : sigBits (2 ^ k) ≤ bitLen (2 ^ k) := sigBits_le_bitLen _
      rw [normalize_exact _ _ _ _ hs]
      have hf := tz_of_factor 1 k (by norm_num)
      simp only [Nat.one_mul] at hf
      unfold canonT sigBits
      have : 2 ^ k ≠ 0 := by have := Nat.two_pow_pos k; omega
      simp only [this, if_false, hf.1, hf.2, bitLen_one]
      simp
    rw [h2]
    have hcf := canonT_fields (sgnNat s) (oddPart m) 0 hodd
    have h3 : mpfPos prec (canonT (sgnNat s) (oddPart m) 0) = ⟨sgnNat s, oddPart m, 0, sigBits m⟩ := by
      unfold mpfPos MpfT.isSpecial
      rw [hcf, hidem.1, hidem.2, hsig']
      simp only [hodd, beq_iff_eq, Bool.false_and, Bool.false_eq_true, if_false]
      have : sigBits (oddPart m) ≤ prec := by rw [hsig']; exact hprec
      rw [normalize_exact _ _ _ _ this, canonT_fields _ _ _ hodd, hidem.1, hidem.2, hsig']
      simp
    rw [h3]
    unfold mpfDiv
    simp only [hodd, one_ne_zero, or_self, if_false, if_true]
    have hsg : (if sgnNat s = 0 then 0 else 1) = sgnNat s := by
      cases s <;> simp [sgnNat]
    rw [hsg]
    have : sigBits (oddPart m) ≤ prec := by rw [hsig']; exact hprec
    rw [normalize_exact _ _ _ _ this, canonT_fields _ _ _ hodd, canonT_fields _ _ _ hm, hidem.1, hidem.2, hsig']
    congr 1
    simp; omega

theorem emaxUlp_maxexp (f : Fmt) (hew : 2 ≤ f.ew) (hp : 1 ≤ f.p) : f.emaxUlp = (maxexp f : Int) - f.p := by
  have hK := two_pow_ew_pos f hew
  have hemin := emin_eq f
  have hfb : f.fracBits = f.p - 1 := rfl
  have hemax := emaxUlp_eq f hew
  have hexpMax : (f.expMax : Int) = 2 * ((2 ^ (f.ew - 1) : Nat) : Int) - 1 := by
    unfold Fmt.expMax
    have : f.ew = (f.ew - 1) + 1 := by omega
    conv_lhs => rw [this, Nat.pow_succ]
    have := Nat.two_pow_pos (f.ew - 1)
    omega
  have hmaxexp : maxexp f = 2 ^ (f.ew - 1) := rfl
  generalize 2 ^ (f.ew - 1) = K at *
  rw [hemax, hemin, hexpMax, hfb, hmaxexp]; omega

/-- **fraction round trip**: `fraction2float (float2fraction b) = b` for every finite pattern, up to the sign of zero. -/
theorem q2f_f2q' (f : Fmt) (b : Nat) (hew : 2 ≤ f.ew) (hp : 1 ≤ f.p) (hpm : f.p ≤ 2 ^ (f.ew - 1))
    (hb : b < 2 ^ f.width) (hfin : isFiniteBits f b = true) :
    fraction2float f (float2fraction f b) = if isZerob f b then 0 else b := by
  obtain ⟨m, e, hd, hwf, hpack, hz⟩ := finite_view f b hew hp hb hfin
  have hq := f2q_value' f b hew hp hfin
  rw [hd, toRat_fin] at hq
  have hq' : float2fraction f b = valQ (fields f b).sign m e := (Option.some.inj hq).symm
  rw [hq']
  generalize (fields f b).sign = s at *
  unfold fraction2float
  by_cases hm : m = 0
  · have hzb : isZerob f b = true := hz.mp hm
    subst hm
    have : valQ s 0 e = 0 := by unfold valQ; simp
    rw [this, hzb]; simp
  · have hzb : isZerob f b = false := by
      cases h : isZerob f b
      · rfl
      · exact absurd (hz.mpr h) hm
    rw [hzb]
    simp only [Bool.false_eq_true, if_false]
    have hnd := valQ_num_den s m e hm
    have hodd := oddPart_ne_zero m hm
    have hbl := bitLen_eq_sigBits_add_tz m hm
    have hblm : bitLen m ≤ f.p := bitLen_le_of_lt _ _ hwf.lt
    have hnum0 : (valQ s m e).num ≠ 0 := by
      by_cases hc : 0 ≤ e + tz m
      · rw [(hnd.1 hc).1]
        have : oddPart m * 2 ^ (e + tz m).toNat ≠ 0 := by
          have := Nat.two_pow_pos (e + tz m).toNat
          intro hz; rcases Nat.mul_eq_zero.mp hz with h' | h' <;> omega
        cases s <;> simp <;> omega
      · rw [(hnd.2 (by omega)).1]
        cases s <;> simp <;> omega
    have hbig : ¬ ((valQ s m e).den = 1 ∧ (valQ s m e).num.natAbs ≥ 2 ^ maxexp f) := by
      intro ⟨hden, hge⟩
      by_cases hc : 0 ≤ e + tz m
      · rw [(hnd.1 hc).1] at hge
        generalize hk : (e + tz m).toNat = k at *
        have hnat : ∀ n : Nat, ((if s then (-1:Int) else 1) * (n : Int)).natAbs = n := by
          intro n; cases s <;> simp
        rw [hnat] at hge
        have h1 := lt_pow_bitLen (oddPart m * 2 ^ k)
        rw [bitLen_mul_pow _ _ hodd] at h1
        have h2 : bitLen (oddPart m) + k ≤ maxexp f := by
          have := hwf.le
          rw [emaxUlp_maxexp f hew hp] at this
          have hs : bitLen (oddPart m) = sigBits m := rfl
          omega
        have := Nat.pow_le_pow_right (by omega : 2 > 0) h2
        omega
      · have := (hnd.2 (by omega)).2
        rw [hden] at this
        have hpos : 0 < (-(e + tz m)).toNat := by omega
        have : 2 ≤ 2 ^ (-(e + tz m)).toNat := by
          calc 2 = 2 ^ 1 := by norm_num
            _ ≤ 2 ^ (-(e + tz m)).toNat := Nat.pow_le_pow_right (by omega) hpos
        omega
    simp only [hnum0, if_false, hbig]
    have hsig : sigBits m ≤ f.p + 10 := by have := sigBits_le_bitLen m; omega
    rw [mpfOfFraction_valQ f _ s m e hm hsig]
    simp only
    rw [mpf2floatC_canon f hew hp hpm s m e hwf hm]
    exact hpack.symm

end FAVerif.Conv
