/-
`is_power_of_two(x)`:  L = RN(P·x), R = RN(Q·x), D = RN(L − R) with Q = 2^(p-1), P = Q + 1;
D = x  iff  x is a power of two — for every precision p ≥ 2, any round-to-nearest, every
x = ±k·2^e with 2^(p-1) ≤ k < 2^p (normal numbers, and subnormals written in normalised form,
as long as e + p − 1 ≥ emin), overflow excluded.
-/
import FAVerif.Lemmas.NextAfter

namespace FAVerif.FPQ

variable {f : QFmt} {r : ℚ → ℚ}

theorem is_pow2_pos (hr : IsRN f r) {n : ℕ} (hn : f.p = n + 1) {k : ℤ} {e : ℤ} (hk1 : 2 ^ n ≤ k) (hk2 : k < 2 ^ f.p)
    (he : f.emin ≤ e + n) :
    r (r ((2 ^ n + 1) * ((k : ℚ) * 2 ^ e)) - r (2 ^ n * ((k : ℚ) * 2 ^ e))) = (k : ℚ) * 2 ^ e ↔ k = 2 ^ n := by
  set x : ℚ := (k : ℚ) * 2 ^ e with hx
  set L := r ((2 ^ n + 1) * x) with hLdef
  set R := r (2 ^ n * x) with hRdef
  have hp := f.hp
  have hn1 : 1 ≤ n := by omega
  have hk2' : k < 2 * 2 ^ n := by rw [hn, pow_succ] at hk2; linarith
  -- the grid G = 2^(n+e)
  set G : ℚ := 2 ^ ((n : ℤ) + e) with hG
  have hGpos : 0 < G := two_zpow_pos _
  have hue := two_zpow_pos e
  have hGe : G = 2 ^ n * 2 ^ e := by rw [hG, zpow_add₀ (by norm_num : (2 : ℚ) ≠ 0), zpow_natCast]
  have hkq1 : (2 : ℚ) ^ n ≤ k := by exact_mod_cast hk1
  have hkq2 : (k : ℚ) < 2 * 2 ^ n := by exact_mod_cast hk2'
  have hxG1 : G ≤ x := by rw [hGe, hx]; exact mul_le_mul_of_nonneg_right hkq1 hue.le
  have hxG2 : x < 2 * G := by rw [hGe, hx]; nlinarith
  have h2n : (0 : ℚ) < 2 ^ n := by positivity
  have hP : (2 : ℚ) ^ f.p = 2 * 2 ^ n := by rw [hn, pow_succ]; ring
  -- R = k·G exactly
  have hRval : (2 : ℚ) ^ n * x = (k : ℚ) * G := by rw [hGe, hx]; ring
  have hemG : f.emin ≤ (n : ℤ) + e := by omega
  have hRrep : Rep f ((k : ℚ) * G) := by
    apply rep_of_mult_le hemG ⟨k, rfl⟩
    rw [abs_mul, abs_of_pos hGpos, abs_of_pos (by linarith : (0 : ℚ) < k), hP]
    exact mul_le_mul_of_nonneg_right hkq2.le hGpos.le
  have hR : R = (k : ℚ) * G := by rw [hRdef, hRval]; exact rn_id hr hRrep
  -- P·x = R + x lies in [R + G, R + 2G)
  have hPx : ((2 : ℚ) ^ n + 1) * x = (k : ℚ) * G + x := by rw [← hRval]; ring
  -- multiples j·G with small |j| are representable
  have hrepj : ∀ j : ℤ, |j| ≤ 2 * 2 ^ n → Rep f ((j : ℚ) * G) := by
    intro j hj
    apply rep_of_mult_le hemG ⟨j, rfl⟩
    rw [abs_mul, abs_of_pos hGpos, hP]
    exact mul_le_mul_of_nonneg_right (by exact_mod_cast hj) hGpos.le
  have hkpos : 0 < k := lt_of_lt_of_le (by positivity) hk1
  -- lower bound L ≥ (k+1)·G
  have hLlo : ((k + 1 : ℤ) : ℚ) * G ≤ L := by
    apply rn_ge_of_rep hr (hrepj (k + 1) (by rw [abs_of_pos (by omega)]; omega))
    rw [hPx]; push_cast; linarith
  -- upper bound L ≤ (k+3)·G  ((k+2)·G or (k+3)·G is representable)
  have hLhi : L ≤ ((k + 3 : ℤ) : ℚ) * G := by
    have hxle : ((2 : ℚ) ^ n + 1) * x ≤ ((k + 2 : ℤ) : ℚ) * G := by rw [hPx]; push_cast; linarith
    rcases lt_or_ge (k + 2) (2 * 2 ^ n + 1) with hlt | hge
    · have := rn_le_of_rep hr (hrepj (k + 2) (by rw [abs_of_pos (by omega)]; omega)) hxle
      calc L ≤ ((k + 2 : ℤ) : ℚ) * G := this
        _ ≤ ((k + 3 : ℤ) : ℚ) * G := by push_cast; nlinarith
    · -- k = 2^p − 1: (k+3)·G = (2^n + 1)·2G is representable
      have hk3 : k + 3 = (2 ^ n + 1) * 2 := by omega
      have hrep3 : Rep f (((k + 3 : ℤ) : ℚ) * G) := by
        have h2G : ((k + 3 : ℤ) : ℚ) * G = ((2 ^ n + 1 : ℤ) : ℚ) * 2 ^ ((n : ℤ) + e + 1) := by
          rw [hk3, hG, zpow_add₀ (by norm_num : (2 : ℚ) ≠ 0) ((n : ℤ) + e) 1]; push_cast; ring
        rw [h2G]
        apply rep_of_mult_le (by omega) ⟨2 ^ n + 1, rfl⟩
        have hpos2 := two_zpow_pos ((n : ℤ) + e + 1)
        rw [abs_mul, abs_of_pos hpos2, hP]
        refine mul_le_mul_of_nonneg_right ?_ hpos2.le
        have : (1 : ℚ) ≤ 2 ^ n := one_le_pow₀ (by norm_num)
        rw [abs_of_pos (by push_cast; positivity)]; push_cast; linarith
      apply rn_le_of_rep hr hrep3
      calc ((2 : ℚ) ^ n + 1) * x ≤ ((k + 2 : ℤ) : ℚ) * G := hxle
        _ ≤ ((k + 3 : ℤ) : ℚ) * G := by push_cast; nlinarith
  -- L is a multiple of G
  have hLmult : Mult ((n : ℤ) + e) L := by
    have hG2 : G = 2 * 2 ^ ((n : ℤ) + e - 1) := by
      rw [hG, show (n : ℤ) + e = ((n : ℤ) + e - 1) + 1 by ring, zpow_add₀ (by norm_num : (2 : ℚ) ≠ 0)]; simp; ring
    have hLpos : 0 < L := lt_of_lt_of_le (by push_cast; positivity) hLlo
    have hLbig : (2 : ℚ) ^ f.p * 2 ^ ((n : ℤ) + e - 1) ≤ |L| := by
      rw [abs_of_pos hLpos, hP]
      have h1 : (2 : ℚ) ^ n * G ≤ ((k + 1 : ℤ) : ℚ) * G := by
        push_cast; nlinarith
      calc 2 * 2 ^ n * 2 ^ ((n : ℤ) + e - 1) = 2 ^ n * G := by rw [hG2]; ring
        _ ≤ ((k + 1 : ℤ) : ℚ) * G := h1
        _ ≤ L := hLlo
    have := mult_succ_of_rep_ge (hr.rep _) hLbig
    simpa using this
  obtain ⟨jL, hjL⟩ := hLmult
  -- so L − R = j·G with 1 ≤ j ≤ 3, representable, hence D = L − R
  have hLR : L - R = ((jL - k : ℤ) : ℚ) * G := by rw [hR, hjL, ← hG]; push_cast; ring
  have hj1 : 1 ≤ jL - k := by
    have : ((k + 1 : ℤ) : ℚ) * G ≤ (jL : ℚ) * G := by rw [hG, ← hjL]; exact hLlo
    have := le_of_mul_le_mul_right this hGpos
    have : k + 1 ≤ jL := by exact_mod_cast this
    omega
  have hj3 : jL - k ≤ 3 := by
    have : (jL : ℚ) * G ≤ ((k + 3 : ℤ) : ℚ) * G := by rw [hG, ← hjL]; exact hLhi
    have := le_of_mul_le_mul_right this hGpos
    have : jL ≤ k + 3 := by exact_mod_cast this
    omega
  have h2n' : (2 : ℤ) ≤ 2 ^ n := by
    calc (2 : ℤ) = 2 ^ 1 := by norm_num
      _ ≤ 2 ^ n := pow_le_pow_right₀ (by norm_num) hn1
  have hD : r (L - R) = ((jL - k : ℤ) : ℚ) * G := by
    rw [hLR]; exact rn_id hr (hrepj (jL - k) (by rw [abs_of_pos (by omega)]; omega))
  rw [hD]
  constructor
  · intro h
    -- j·2^n·2^e = k·2^e ⇒ k = j·2^n ⇒ j = 1
    have : ((jL - k : ℤ) : ℚ) * 2 ^ n = k := by
      have h' : ((jL - k : ℤ) : ℚ) * (2 ^ n * 2 ^ e) = (k : ℚ) * 2 ^ e := by rw [← hGe]; exact h
      have := mul_right_cancel₀ hue.ne' (by linarith : ((jL - k : ℤ) : ℚ) * 2 ^ n * 2 ^ e = (k : ℚ) * 2 ^ e)
      exact this
    have hz : (jL - k) * 2 ^ n = k := by exact_mod_cast this
    have : jL - k = 1 := by
      by_contra hne
      have : 2 ≤ jL - k := by omega
      nlinarith
    rw [this] at hz; omega
  · intro hk
    -- k = 2^n: P·x is representable, L = P·x, j = 1
    have hkq : (k : ℚ) = 2 ^ n := by exact_mod_cast hk
    have hPxrep : Rep f (((2 : ℚ) ^ n + 1) * x) := by
      have : ((2 : ℚ) ^ n + 1) * x = ((2 ^ n + 1 : ℤ) : ℚ) * G := by
        rw [hx, hGe, hkq]; push_cast; ring
      rw [this]
      exact hrepj (2 ^ n + 1) (by rw [abs_of_pos (by positivity)]; omega)
    have hL : L = ((2 : ℚ) ^ n + 1) * x := rn_id hr hPxrep
    have : L - R = x := by rw [hL, hR, hPx]; ring
    rw [← hLR, this]

end FAVerif.FPQ
