/-
Helper lemmas for C13 (conversions), part 1: bit length, trailing zeros, `_normalize` on
mantissas that fit the precision, fields of a bit pattern.
-/
import FAVerif.Models.Conv
import Mathlib.Tactic.Ring
import Mathlib.Tactic.Linarith

namespace FAVerif.Conv
open FAVerif.FP

/-! ### bitLen -/

theorem bitLen_zero : bitLen 0 = 0 := by simp [bitLen]

theorem bitLen_step (n : Nat) (h : n ≠ 0) : bitLen n = bitLen (n / 2) + 1 := by
  cases n with
  | zero => exact absurd rfl h
  | succ k => simp [bitLen]

theorem lt_pow_bitLen (n : Nat) : n < 2 ^ bitLen n := by
  induction n using Nat.strongRecOn with
  | _ n ih =>
    by_cases h : n = 0
    · subst h; simp [bitLen_zero]
    · rw [bitLen_step n h, Nat.pow_succ]
      have := ih (n / 2) (by omega)
      omega

theorem bitLen_le_of_lt : ∀ (k n : Nat), n < 2 ^ k → bitLen n ≤ k := by
  intro k
  induction k with
  | zero => intro n h; have : n = 0 := by simpa using h
            subst this; simp [bitLen_zero]
  | succ k ih =>
    intro n h
    by_cases h0 : n = 0
    · subst h0; simp [bitLen_zero]
    · rw [bitLen_step n h0]
      have : n / 2 < 2 ^ k := by rw [Nat.pow_succ] at h; omega
      have := ih _ this
      omega

theorem pow_bitLen_le (n : Nat) (h : n ≠ 0) : 2 ^ (bitLen n - 1) ≤ n := by
  induction n using Nat.strongRecOn with
  | _ n ih =>
    rw [bitLen_step n h]
    by_cases h2 : n / 2 = 0
    · rw [h2, bitLen_zero]; simp; omega
    · have := ih (n / 2) (by omega) h2
      have hb : bitLen (n / 2) ≠ 0 := by
        rw [bitLen_step _ h2]; omega
      have e : bitLen (n / 2) + 1 - 1 = (bitLen (n / 2) - 1) + 1 := by omega
      rw [e, Nat.pow_succ]
      omega

theorem bitLen_pos (n : Nat) (h : n ≠ 0) : 1 ≤ bitLen n := by
  rw [bitLen_step n h]; omega

theorem bitLen_unique (n L : Nat) (hL : 1 ≤ L) (h1 : 2 ^ (L - 1) ≤ n) (h2 : n < 2 ^ L) : bitLen n = L := by
  have hn : n ≠ 0 := by
    intro h; subst h
    have := Nat.two_pow_pos (L - 1); omega
  have a := bitLen_le_of_lt L n h2
  rcases Nat.lt_or_ge (bitLen n) L with hlt | hge
  · exfalso
    have := lt_pow_bitLen n
    have : 2 ^ bitLen n ≤ 2 ^ (L - 1) := Nat.pow_le_pow_right (by omega) (by omega)
    omega
  · omega

theorem bitLen_mul_pow (n k : Nat) (h : n ≠ 0) : bitLen (n * 2 ^ k) = bitLen n + k := by
  apply bitLen_unique
  · have := bitLen_pos n h; omega
  · have := pow_bitLen_le n h
    have e : bitLen n + k - 1 = (bitLen n - 1) + k := by have := bitLen_pos n h; omega
    rw [e, Nat.pow_add]
    exact Nat.mul_le_mul_right _ this
  · rw [Nat.pow_add]
    exact Nat.mul_lt_mul_of_lt_of_le (lt_pow_bitLen n) (Nat.le_refl _) (Nat.two_pow_pos k)

theorem bitLen_mono {a b : Nat} (h : a ≤ b) : bitLen a ≤ bitLen b :=
  bitLen_le_of_lt _ _ (Nat.lt_of_le_of_lt h (lt_pow_bitLen b))

theorem bitLen_one : bitLen 1 = 1 := by simp [bitLen]

theorem bitLen_two_pow (k : Nat) : bitLen (2 ^ k) = k + 1 := by
  have := bitLen_mul_pow 1 k (by omega)
  simpa [bitLen_one, Nat.add_comm] using this

/-! ### trailing zeros -/

/-- number of trailing zero bits (`0` for `0`) -/
def tz : Nat → Nat
  | 0 => 0
  | n + 1 => if (n + 1) % 2 = 0 then tz ((n + 1) / 2) + 1 else 0
decreasing_by omega

def oddPart (n : Nat) : Nat := n / 2 ^ tz n
/-- number of significant bits: bit length of the odd part -/
def sigBits (n : Nat) : Nat := bitLen (oddPart n)

theorem tz_even (n : Nat) (h0 : n ≠ 0) (h : n % 2 = 0) : tz n = tz (n / 2) + 1 := by
  cases n with
  | zero => exact absurd rfl h0
  | succ k => rw [tz]; simp [h]

theorem tz_odd (n : Nat) (h : n % 2 = 1) : tz n = 0 := by
  cases n with
  | zero => simp at h
  | succ k => rw [tz]; simp [h]

theorem tz_dvd (n : Nat) : 2 ^ tz n ∣ n := by
  induction n using Nat.strongRecOn with
  | _ n ih =>
    by_cases h0 : n = 0
    · subst h0; simp
    · by_cases h : n % 2 = 0
      · rw [tz_even n h0 h, Nat.pow_succ]
        obtain ⟨c, hc⟩ := ih (n / 2) (by omega)
        refine ⟨c, ?_⟩
        have h2 : n = 2 * (n / 2) := by omega
        generalize tz (n / 2) = t at hc ⊢
        calc n = 2 * (n / 2) := h2
          _ = 2 * (2 ^ t * c) := by rw [← hc]
          _ = 2 ^ t * 2 * c := by ring
      · rw [tz_odd n (by omega)]; simp

theorem oddPart_mul (n : Nat) : oddPart n * 2 ^ tz n = n := Nat.div_mul_cancel (tz_dvd n)

theorem oddPart_odd (n : Nat) (h0 : n ≠ 0) : oddPart n % 2 = 1 := by
  induction n using Nat.strongRecOn with
  | _ n ih =>
    by_cases h : n % 2 = 0
    · have := ih (n / 2) (by omega) (by omega)
      unfold oddPart at this ⊢
      rw [tz_even n h0 h, Nat.pow_succ, Nat.mul_comm, ← Nat.div_div_eq_div_mul]
      exact this
    · unfold oddPart; rw [tz_odd n (by omega)]; simp; omega

theorem oddPart_ne_zero (n : Nat) (h0 : n ≠ 0) : oddPart n ≠ 0 := by
  have := oddPart_odd n h0; omega

theorem stripTZ_eq (m : Nat) (e : Int) (h : m ≠ 0) : stripTZ m e = (oddPart m, e + tz m) := by
  induction m using Nat.strongRecOn generalizing e with
  | _ m ih =>
    cases m with
    | zero => exact absurd rfl h
    | succ k =>
      rw [stripTZ]
      by_cases hk : (k + 1) % 2 = 0
      · simp only [hk, if_true]
        rw [ih ((k + 1) / 2) (by omega) _ (by omega)]
        unfold oddPart
        rw [tz_even (k + 1) (by omega) hk, Nat.pow_succ, Nat.mul_comm (2 ^ _) 2, ← Nat.div_div_eq_div_mul]
        simp only [Prod.mk.injEq, true_and]
        push_cast; ring
      · simp only [hk, if_false]
        unfold oddPart
        rw [tz_odd (k + 1) (by omega)]; simp

/-- odd part and trailing zeros are determined by a factorisation `n = a * 2^k`, `a` odd -/
theorem tz_of_factor (a k : Nat) (ha : a % 2 = 1) : tz (a * 2 ^ k) = k ∧ oddPart (a * 2 ^ k) = a := by
  induction k with
  | zero => simp [tz_odd a ha, oddPart]
  | succ k ih =>
    have hne : a * 2 ^ (k + 1) ≠ 0 := by
      have := Nat.two_pow_pos (k + 1)
      intro h; rcases Nat.mul_eq_zero.mp h with h | h <;> omega
    have hev : a * 2 ^ (k + 1) % 2 = 0 := by rw [Nat.pow_succ, ← Nat.mul_assoc]; omega
    have hdiv : a * 2 ^ (k + 1) / 2 = a * 2 ^ k := by
      rw [Nat.pow_succ, ← Nat.mul_assoc]; exact Nat.mul_div_cancel _ (by omega)
    have t : tz (a * 2 ^ (k + 1)) = k + 1 := by rw [tz_even _ hne hev, hdiv, ih.1]
    refine ⟨t, ?_⟩
    unfold oddPart; rw [t]; exact Nat.mul_div_cancel _ (Nat.two_pow_pos _)

theorem tz_mul_pow (n k : Nat) (h : n ≠ 0) : tz (n * 2 ^ k) = tz n + k ∧ oddPart (n * 2 ^ k) = oddPart n := by
  have e : n * 2 ^ k = oddPart n * 2 ^ (tz n + k) := by
    rw [Nat.pow_add, ← Nat.mul_assoc, oddPart_mul]
  rw [e]
  exact tz_of_factor _ _ (oddPart_odd n h)

theorem sigBits_le_bitLen (n : Nat) : sigBits n ≤ bitLen n :=
  bitLen_mono (Nat.div_le_self _ _)

theorem bitLen_eq_sigBits_add_tz (n : Nat) (h : n ≠ 0) : bitLen n = sigBits n + tz n := by
  have := bitLen_mul_pow (oddPart n) (tz n) (oddPart_ne_zero n h)
  rw [oddPart_mul] at this
  exact this

/-- if `2^t ∣ n` then the significant bits of `n` fit in the bit length of `n / 2^t` -/
theorem sigBits_le_of_dvd (n t : Nat) (h : 2 ^ t ∣ n) : sigBits n ≤ bitLen (n / 2 ^ t) := by
  by_cases h0 : n = 0
  · subst h0; simp [sigBits, oddPart, bitLen_zero]
  · obtain ⟨c, hc⟩ := h
    have hc0 : c ≠ 0 := by intro h; subst h; simp at hc; exact h0 hc
    have : n / 2 ^ t = c := by rw [hc]; exact Nat.mul_div_cancel_left _ (Nat.two_pow_pos _)
    rw [this]
    have : sigBits n = sigBits c := by
      unfold sigBits
      rw [hc, Nat.mul_comm, (tz_mul_pow c t hc0).2]
    rw [this]
    exact sigBits_le_bitLen c

/-! ### `_normalize` without rounding -/

theorem rshiftRNE_exact (man n : Nat) (hn : 0 < n) (h : 2 ^ n ∣ man) : rshiftRNE man n = man / 2 ^ n := by
  obtain ⟨c, hc⟩ := h
  unfold rshiftRNE
  have e1 : man / 2 ^ (n - 1) = 2 * c := by
    have : 2 ^ n = 2 ^ (n - 1) * 2 := by rw [← Nat.pow_succ]; congr 1; omega
    rw [hc, this, Nat.mul_assoc]
    exact Nat.mul_div_cancel_left _ (Nat.two_pow_pos _)
  have e2 : man / 2 ^ n = c := by rw [hc]; exact Nat.mul_div_cancel_left _ (Nat.two_pow_pos _)
  simp only [e1, e2]
  have : 2 * c % 2 = 0 := by omega
  simp [this]

/-- The canonical raw tuple of the dyadic number `(-1)^sign * man * 2^exp`. -/
def canonT (sign man : Nat) (exp : Int) : MpfT :=
  if man = 0 then fzero else ⟨sign, oddPart man, exp + tz man, sigBits man⟩

/-- `_normalize` is exact (only strips trailing zeros) when the significant bits fit the precision. -/
theorem normalize_exact (sign man : Nat) (exp : Int) (prec : Nat) (h : sigBits man ≤ prec) :
    normalize sign man exp prec = canonT sign man exp := by
  unfold normalize canonT
  by_cases h0 : man = 0
  · simp [h0]
  · simp only [h0, if_false]
    by_cases hb : bitLen man > prec
    · simp only [hb, if_true]
      -- the dropped bits are trailing zeros
      have hbl := bitLen_eq_sigBits_add_tz man h0
      have hn : bitLen man - prec ≤ tz man := by omega
      have hnpos : 0 < bitLen man - prec := by omega
      have hd : 2 ^ (bitLen man - prec) ∣ man :=
        Nat.dvd_trans (Nat.pow_dvd_pow 2 hn) (tz_dvd man)
      rw [rshiftRNE_exact man _ hnpos hd]
      have hq0 : man / 2 ^ (bitLen man - prec) ≠ 0 := by
        intro hz
        have := Nat.div_mul_cancel hd
        rw [hz] at this; omega
      rw [stripTZ_eq _ _ hq0]
      -- man = q * 2^n
      have hq : man = (man / 2 ^ (bitLen man - prec)) * 2 ^ (bitLen man - prec) := (Nat.div_mul_cancel hd).symm
      have key := tz_mul_pow (man / 2 ^ (bitLen man - prec)) (bitLen man - prec) hq0
      rw [← hq] at key
      simp only [sigBits]
      rw [← key.2]
      congr 1
      rw [key.1]; push_cast; omega
    · simp only [hb, if_false]
      rw [stripTZ_eq _ _ h0]
      rfl

theorem canonT_shift (sign man k : Nat) (exp : Int) (h : man ≠ 0) :
    canonT sign (man * 2 ^ k) exp = canonT sign man (exp + k) := by
  unfold canonT
  have hne : man * 2 ^ k ≠ 0 := by
    have := Nat.two_pow_pos k
    intro hz; rcases Nat.mul_eq_zero.mp hz with h' | h' <;> omega
  simp only [h, hne, if_false]
  have key := tz_mul_pow man k h
  simp only [sigBits]
  rw [key.2, key.1]
  congr 1
  push_cast; ring

end FAVerif.Conv
