/-
The softfloat primitives on an infinite operand, for the limit clauses: comparisons of |x| with +inf, |x| / inf = +0.
-/
import FAVerif.Lemmas.SoftCongr
import FAVerif.Lemmas.Ulp
import FAVerif.Lemmas.EFTSoft

namespace FAVerif.SoftInf
open FAVerif.FP FAVerif.SoftRound FAVerif.EFT

variable (f : Fmt) (h : SoftRound.WF f)

omit h in
lemma abs_eq_mag (x : Nat) : FP.abs f x = magBits f x := rfl

include h in
lemma abs_lt_sign (x : Nat) : FP.abs f x < f.signBit := Ulp.magBits_lt f ⟨h.hp, h.hew⟩ x

include h in
lemma infBits_lt_sign : f.infBits < f.signBit := by
  have := Ulp.infBits_add f ⟨h.hp, h.hew⟩
  have := Ulp.F_pos f
  omega

include h in
lemma ord_abs (x : Nat) : ord f (FP.abs f x) = (FP.abs f x : Int) := by
  have hl := abs_lt_sign f h x
  unfold ord
  rw [Ulp.sign_of_lt f _ hl, Ulp.magBits_of_lt f _ hl]; simp

include h in
lemma ord_inf : ord f f.infBits = (f.infBits : Int) := by
  have hl := infBits_lt_sign f h
  unfold ord
  rw [Ulp.sign_of_lt f _ hl, Ulp.magBits_of_lt f _ hl]; simp

include h in
lemma decode_inf : decode f f.infBits = .inf false := by
  have hl := infBits_lt_sign f h
  have hF := Ulp.F_pos f
  have hE := Ulp.E_ge4 f ⟨h.hp, h.hew⟩
  have he : (fields f f.infBits).e = f.expMax := by
    rw [Ulp.fields_e f ⟨h.hp, h.hew⟩, Ulp.magBits_of_lt f _ hl]
    unfold Fmt.infBits; rw [Nat.mul_div_cancel _ hF]
  have hm : (fields f f.infBits).m = 0 := by
    unfold fields Fmt.infBits; simp
  unfold decode
  simp only [he, hm, if_true, Ulp.sign_of_lt f _ hl]

include h in
lemma isNaN_inf : isNaNBits f f.infBits = false := by
  unfold isNaNBits; rw [decode_inf f h]; rfl

include h in
/-- |x| of a finite x is below the pattern of +inf -/
lemma abs_fin_lt (x : Nat) (hx : isFiniteBits f x = true) : FP.abs f x < f.infBits :=
  (Ulp.finite_iff f ⟨h.hp, h.hew⟩ x).1 hx

include h in
/-- |x| of an infinite x is the pattern of +inf -/
lemma abs_inf_eq (x : Nat) (hn : isNaNBits f x = false) (hx : isFiniteBits f x = false) : FP.abs f x = f.infBits := by
  have hw : Ulp.WF f := ⟨h.hp, h.hew⟩
  have hF := Ulp.F_pos f
  have he : (fields f x).e = f.expMax := by
    unfold isFiniteBits at hx; simpa using hx
  have hm : (fields f x).m = 0 := by
    unfold isNaNBits decode at hn
    simp only [he, if_true] at hn
    by_contra hne
    simp [hne, V.isNaN] at hn
  have hl := Ulp.magBits_lt f hw x
  rw [Ulp.signBit_eq f hw] at hl
  have e1 : magBits f x / 2 ^ f.fracBits = f.expMax := by rw [← Ulp.fields_e f hw x]; exact he
  have e2 : magBits f x % 2 ^ f.fracBits = 0 := by
    have : (fields f x).m = magBits f x % 2 ^ f.fracBits := by
      unfold fields magBits; simp only
      rw [Ulp.signBit_eq f hw, Nat.mod_mul_right_mod]
    rw [← this]; exact hm
  show magBits f x = f.infBits
  have := Nat.div_add_mod (magBits f x) (2 ^ f.fracBits)
  rw [e1, e2] at this
  unfold Fmt.infBits; rw [Nat.mul_comm]; omega

include h in
lemma lt_abs_inf (x : Nat) (hn : isNaNBits f x = false) : FP.lt f (FP.abs f x) f.infBits = isFiniteBits f x := by
  unfold FP.lt
  rw [isNaN_abs f h x, hn, isNaN_inf f h, ord_abs f h, ord_inf f h]
  simp only [Bool.not_false, Bool.true_and]
  cases hx : isFiniteBits f x
  · have := abs_inf_eq f h x hn hx; simp [this]
  · have := abs_fin_lt f h x hx; simpa using this

include h in
lemma lt_inf_abs (x : Nat) (hn : isNaNBits f x = false) : FP.lt f f.infBits (FP.abs f x) = false := by
  unfold FP.lt
  rw [isNaN_abs f h x, hn, isNaN_inf f h, ord_abs f h, ord_inf f h]
  simp only [Bool.not_false, Bool.true_and, decide_eq_false_iff_not, not_lt]
  cases hx : isFiniteBits f x
  · have := abs_inf_eq f h x hn hx; rw [this]
  · have := abs_fin_lt f h x hx; exact_mod_cast this.le

include h in
lemma eq_abs_inf (x : Nat) (hn : isNaNBits f x = false) : FP.eq f (FP.abs f x) f.infBits = !isFiniteBits f x := by
  unfold FP.eq
  rw [isNaN_abs f h x, hn, isNaN_inf f h, ord_abs f h, ord_inf f h]
  simp only [Bool.not_false, Bool.true_and]
  cases hx : isFiniteBits f x
  · have := abs_inf_eq f h x hn hx; simp [this]
  · have := abs_fin_lt f h x hx
    simp only [Bool.not_true, decide_eq_false_iff_not]
    intro hc; have : FP.abs f x = f.infBits := by exact_mod_cast hc
    omega

include h in
/-- |x| / inf = +0 for finite x -/
lemma div_abs_inf (x : Nat) (hx : isFiniteBits f x = true) : FP.div f (FP.abs f x) f.infBits = 0 := by
  have hfa : isFiniteBits f (FP.abs f x) = true := by
    have := Ulp.finite_abs f ⟨h.hp, h.hew⟩ x
    unfold Ulp.absBits at this
    rw [abs_eq_mag f, this]; exact hx
  obtain ⟨s, m, e, d⟩ := finite_decode f _ hfa
  have hs : s = false := by
    have hl := abs_lt_sign f h x
    have := Ulp.sign_of_lt f _ hl
    unfold decode at d
    simp only at d
    split_ifs at d <;> simp_all
  subst hs
  unfold FP.div
  rw [d, decode_inf f h]
  simp [Fmt.zeroBits]

/-! ### a zero operand -/

include h in
lemma isNaN_zero : isNaNBits f 0 = false := by
  have := decode_zeroBits f h false
  simp only [Fmt.zeroBits, Bool.false_eq_true, if_false] at this
  unfold isNaNBits; rw [this]; rfl

include h in
lemma ord_zero : ord f 0 = 0 := by
  have hs : (0 : Nat) < f.signBit := by
    have := infBits_lt_sign f h; omega
  unfold ord
  rw [Ulp.sign_of_lt f _ hs, Ulp.magBits_of_lt f _ hs]; simp

include h in
lemma lt_zero_abs (x : Nat) (hn : isNaNBits f x = false) (h0 : FP.abs f x ≠ 0) : FP.lt f 0 (FP.abs f x) = true := by
  unfold FP.lt
  rw [isNaN_abs f h x, hn, isNaN_zero f h, ord_abs f h, ord_zero f h]
  simp only [Bool.not_false, Bool.true_and, decide_eq_true_eq]
  have : 0 < FP.abs f x := Nat.pos_of_ne_zero h0
  exact_mod_cast this

include h in
lemma lt_abs_zero (x : Nat) (hn : isNaNBits f x = false) : FP.lt f (FP.abs f x) 0 = false := by
  unfold FP.lt
  rw [isNaN_abs f h x, hn, isNaN_zero f h, ord_abs f h, ord_zero f h]
  simp

include h in
lemma eq_zero_abs (x : Nat) (hn : isNaNBits f x = false) (h0 : FP.abs f x ≠ 0) : FP.eq f 0 (FP.abs f x) = false := by
  unfold FP.eq
  rw [isNaN_abs f h x, hn, isNaN_zero f h, ord_abs f h, ord_zero f h]
  simp only [Bool.not_false, Bool.true_and, decide_eq_false_iff_not]
  intro hc; exact h0 (by exact_mod_cast hc.symm)

include h in
/-- +0 / |x| = +0 for every non-NaN x with |x| ≠ 0 (finite or infinite) -/
lemma div_zero_abs (x : Nat) (hn : isNaNBits f x = false) (h0 : FP.abs f x ≠ 0) : FP.div f 0 (FP.abs f x) = 0 := by
  have hz := decode_zeroBits f h false
  simp only [Fmt.zeroBits, Bool.false_eq_true, if_false] at hz
  have hl := abs_lt_sign f h x
  have hsgn := Ulp.sign_of_lt f _ hl
  cases hx : isFiniteBits f x
  · rw [abs_inf_eq f h x hn hx]
    unfold FP.div; rw [hz, decode_inf f h]; simp [Fmt.zeroBits]
  · have hfa : isFiniteBits f (FP.abs f x) = true := by
      have := Ulp.finite_abs f ⟨h.hp, h.hew⟩ x
      unfold Ulp.absBits at this
      rw [abs_eq_mag f, this]; exact hx
    obtain ⟨s, m, e, d⟩ := finite_decode f _ hfa
    have hm : m ≠ 0 := by
      intro hm0
      -- a finite pattern below the sign bit with significand 0 is the pattern 0
      apply h0
      have hw : Ulp.WF f := ⟨h.hp, h.hew⟩
      have hF := Ulp.F_pos f
      unfold decode at d
      simp only at d
      by_cases hE : (fields f (FP.abs f x)).e = f.expMax
      · simp only [hE, if_true] at d
        split_ifs at d
      · by_cases hE0 : (fields f (FP.abs f x)).e = 0
        · have h0e : ¬ ((0 : Nat) = f.expMax) := by rw [← hE0]; exact hE
          simp only [hE0, h0e, if_false, if_true, V.fin.injEq] at d
          have hmf : (fields f (FP.abs f x)).m = 0 := by rw [d.2.1]; exact hm0
          have e1 : magBits f (FP.abs f x) / 2 ^ f.fracBits = 0 := by rw [← Ulp.fields_e f hw]; exact hE0
          have hfm : (fields f (FP.abs f x)).m = FP.abs f x % 2 ^ f.fracBits := by unfold fields; rfl
          rw [Ulp.magBits_of_lt f _ hl] at e1
          have := Nat.div_add_mod (FP.abs f x) (2 ^ f.fracBits)
          rw [e1, ← hfm, hmf] at this; omega
        · simp only [hE, hE0, if_false, V.fin.injEq] at d
          have := d.2.1; omega
    have hs : s = false := by
      unfold decode at d
      simp only at d
      split_ifs at d <;> simp_all
    subst hs
    unfold FP.div; rw [hz, d]
    simp [hm, Fmt.zeroBits]

end FAVerif.SoftInf
