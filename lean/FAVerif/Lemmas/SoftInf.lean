/-
The softfloat primitives on an infinite operand, for the limit clauses: comparisons of |x| with +inf, |x| / inf = +0.
-/
import FAVerif.Lemmas.SoftCongr
import FAVerif.Lemmas.Ulp
import FAVerif.Lemmas.EFTSoft

namespace FAVerif.SoftInf
open FAVerif.FP FAVerif.SoftRound FAVerif.EFT

variable (f : Fmt) (h : SoftRound.WF f)

omit h in
lemma abs_eq_mag (x : Nat) : FP.abs f x = magBits f x := rfl

include h in
lemma abs_lt_sign (x : Nat) : FP.abs f x < f.signBit := Ulp.magBits_lt f ⟨h.hp, h.hew⟩ x

include h in
lemma infBits_lt_sign : f.infBits < f.signBit := by
  have := Ulp.infBits_add f ⟨h.hp, h.hew⟩
  have := Ulp.F_pos f
  omega

include h in
lemma ord_abs (x : Nat) : ord f (FP.abs f x) = (FP.abs f x : Int) := by
  have hl := abs_lt_sign f h x
  unfold ord
  rw [Ulp.sign_of_lt f _ hl, Ulp.magBits_of_lt f _ hl]; simp

include h in
lemma ord_inf : ord f f.infBits = (f.infBits : Int) := by
  have hl := infBits_lt_sign f h
  unfold ord
  rw [Ulp.sign_of_lt f _ hl, Ulp.magBits_of_lt f _ hl]; simp

include h in
lemma decode_inf : decode f f.infBits = .inf false := by
  have hl := infBits_lt_sign f h
  have hF := Ulp.F_pos f
  have hE := Ulp.E_ge4 f ⟨h.hp, h.hew⟩
  have he : (fields f f.infBits).e = f.expMax := by
    rw [Ulp.fields_e f ⟨h.hp, h.hew⟩, Ulp.magBits_of_lt f _ hl]
    unfold Fmt.infBits; rw [Nat.mul_div_cancel _ hF]
  have hm : (fields f f.infBits).m = 0 := by
    unfold fields Fmt.infBits; simp
  unfold decode
  simp only [he, hm, if_true, Ulp.sign_of_lt f _ hl]

include h in
lemma isNaN_inf : isNaNBits f f.infBits = false := by
  unfold isNaNBits; rw [decode_inf f h]; rfl

include h in
/-- |x| of a finite x is below the pattern of +inf -/
lemma abs_fin_lt (x : Nat) (hx : isFiniteBits f x = true) : FP.abs f x < f.infBits :=
  (Ulp.finite_iff f ⟨h.hp, h.hew⟩ x).1 hx

include h in
/-- |x| of an infinite x is the pattern of +inf -/
lemma abs_inf_eq (x : Nat) (hn : isNaNBits f x = false) (hx : isFiniteBits f x = false) : FP.abs f x = f.infBits := by
  have hw : Ulp.WF f := ⟨h.hp, h.hew⟩
  have hF := Ulp.F_pos f
  have he : (fields f x).e = f.expMax := by
    unfold isFiniteBits at hx; simpa using hx
  have hm : (fields f x).m = 0 := by
    unfold isNaNBits decode at hn
    simp only [he, if_true] at hn
    by_contra hne
    simp [hne, V.isNaN] at hn
  have hl := Ulp.magBits_lt f hw x
  rw [Ulp.signBit_eq f hw] at hl
  have e1 : magBits f x / 2 ^ f.fracBits = f.expMax := by rw [← Ulp.fields_e f hw x]; exact he
  have e2 : magBits f x % 2 ^ f.fracBits = 0 := by
    have : (fields f x).m = magBits f x % 2 ^ f.fracBits := by
      unfold fields magBits; simp only
      rw [Ulp.signBit_eq f hw, Nat.mod_mul_right_mod]
    rw [← this]; exact hm
  show magBits f x = f.infBits
  have := Nat.div_add_mod (magBits f x) (2 ^ f.fracBits)
  rw [e1, e2] at this
  unfold Fmt.infBits; rw [Nat.mul_comm]; omega

include h in
lemma lt_abs_inf (x : Nat) (hn : isNaNBits f x = false) : FP.lt f (FP.abs f x) f.infBits = isFiniteBits f x := by
  unfold FP.lt
  rw [isNaN_abs f h x, hn, isNaN_inf f h, ord_abs f h, ord_inf f h]
  simp only [Bool.not_false, Bool.true_and]
  cases hx : isFiniteBits f x
  · have := abs_inf_eq f h x hn hx; simp [this]
  · have := abs_fin_lt f h x hx; simpa using this

include h in
lemma lt_inf_abs (x : Nat) (hn : isNaNBits f x = false) : FP.lt f f.infBits (FP.abs f x) = false := by
  unfold FP.lt
  rw [isNaN_abs f h x, hn, isNaN_inf f h, ord_abs f h, ord_inf f h]
  simp only [Bool.not_false, Bool.true_and, decide_eq_false_iff_not, not_lt]
  cases hx : isFiniteBits f x
  · have := abs_inf_eq f h x hn hx; rw [this]
  · have := abs_fin_lt f h x hx; exact_mod_cast this.le

include h in
lemma eq_abs_inf (x : Nat) (hn : isNaNBits f x = false) : FP.eq f (FP.abs f x) f.infBits = !isFiniteBits f x := by
  unfold FP.eq
  rw [isNaN_abs f h x, hn, isNaN_inf f h, ord_abs f h, ord_inf f h]
  simp only [Bool.not_false, Bool.true_and]
  cases hx : isFiniteBits f x
  · have := abs_inf_eq f h x hn hx; simp [this]
  · have := abs_fin_lt f h x hx
    simp only [Bool.not_true, decide_eq_false_iff_not]
    intro hc; have : FP.abs f x = f.infBits := by exact_mod_cast hc
    omega

include h in
/-- |x| / inf = +0 for finite x -/
lemma div_abs_inf (x : Nat) (hx : isFiniteBits f x = true) : FP.div f (FP.abs f x) f.infBits = 0 := by
  have hfa : isFiniteBits f (FP.abs f x) = true := by
    have := Ulp.finite_abs f ⟨h.hp, h.hew⟩ x
    unfold Ulp.absBits at this
    rw [abs_eq_mag f, this]; exact hx
  obtain ⟨s, m, e, d⟩ := finite_decode f _ hfa
  have hs : s = false := by
    have hl := abs_lt_sign f h x
    have := Ulp.sign_of_lt f _ hl
    unfold decode at d
    simp only at d
    split_ifs at d <;> simp_all
  subst hs
  unfold FP.div
  rw [d, decode_inf f h]
  simp [Fmt.zeroBits]

end FAVerif.SoftInf
