import Mathlib.Analysis.Real.Sqrt
import FAVerif.Lemmas.Hypot
/-
Non-vacuity of the square-root specification `SqrtOK`: such an oracle exists for every format.
-/
namespace FAVerif.FPQ

/-- a square root meeting `SqrtOK` exists for every format (a rational within relative u of the real √t) -/
theorem sqrtOK_exists (f : QFmt) (hp : 1 ≤ f.p) : ∃ S : ℚ → ℚ, SqrtOK f S := by
  have hu0 : 0 < uro f := uro_pos
  have hu1 : uro f < 1 := by
    unfold uro
    have : (2 : ℚ) ^ 1 ≤ 2 ^ f.p := pow_le_pow_right₀ (by norm_num) hp
    rw [div_lt_one (by positivity)]; linarith
  have key : ∀ t : ℚ, ∃ s : ℚ, 0 ≤ t → (0 ≤ s ∧ (1 - uro f) ^ 2 * t ≤ s ^ 2 ∧ s ^ 2 ≤ (1 + uro f) ^ 2 * t) := by
    intro t
    by_cases ht : 0 ≤ t
    · rcases eq_or_lt_of_le ht with h0 | hpos
      · exact ⟨0, fun _ => by simp [← h0]⟩
      · have hsq : 0 < Real.sqrt t := Real.sqrt_pos.mpr (by exact_mod_cast hpos)
        have hlt : Real.sqrt t * (1 - (uro f : ℝ)) < Real.sqrt t * (1 + (uro f : ℝ)) := by
          have : (0 : ℝ) < uro f := by exact_mod_cast hu0
          nlinarith
        obtain ⟨s, hs1, hs2⟩ := exists_rat_btwn hlt
        refine ⟨s, fun _ => ?_⟩
        have hu1' : (0 : ℝ) < 1 - (uro f : ℝ) := by have : ((uro f : ℚ) : ℝ) < 1 := by exact_mod_cast hu1
                                                    linarith
        have hs0 : (0 : ℝ) < s := lt_trans (by positivity) hs1
        have hss : Real.sqrt t ^ 2 = (t : ℝ) := Real.sq_sqrt (by exact_mod_cast ht)
        refine ⟨by exact_mod_cast hs0.le, ?_, ?_⟩
        · have : ((1 - uro f) ^ 2 * t : ℝ) ≤ (s : ℝ) ^ 2 := by
            have h := pow_le_pow_left₀ (by positivity) hs1.le 2
            calc ((1 - uro f) ^ 2 * t : ℝ) = (Real.sqrt t * (1 - uro f)) ^ 2 := by rw [mul_pow, hss]; ring
              _ ≤ (s : ℝ) ^ 2 := h
          exact_mod_cast this
        · have : (s : ℝ) ^ 2 ≤ ((1 + uro f) ^ 2 * t : ℝ) := by
            have h := pow_le_pow_left₀ hs0.le hs2.le 2
            calc (s : ℝ) ^ 2 ≤ (Real.sqrt t * (1 + uro f)) ^ 2 := h
              _ = ((1 + uro f) ^ 2 * t : ℝ) := by rw [mul_pow, hss]; ring
          exact_mod_cast this
    · exact ⟨0, fun h => absurd h ht⟩
  choose S hS using key
  exact ⟨S, ⟨fun t ht => (hS t ht).1, fun t ht => (hS t ht).2.1, fun t ht => (hS t ht).2.2⟩⟩

end FAVerif.FPQ
