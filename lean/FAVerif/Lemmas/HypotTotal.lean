/-
`hypot` on bit patterns WITHOUT a no-overflow assumption: on the explicit input box
2^(emin+p) ≤ max(|x|,|y|) ≤ Lmax/2 every node of the ℚ-run stays within ±Lmax, so the forward refinement theorem
(`fwdS`) yields the bit-exact run, finite everywhere, and the accuracy theorem applies to its output.
-/
import FAVerif.Lemmas.HypotBits
import FAVerif.Lemmas.RefineFwd

namespace FAVerif.EFT
open FAVerif.IR FAVerif.FPQ FAVerif.Spec FAVerif.FP

set_option maxHeartbeats 1000000 in
theorem evalNodesQS_hypot_env (fm : Fmt) (r S : ℚ → ℚ) (s2b oneb zb twob : Nat) (σ2 : ℚ)
    (hC : (decode fm s2b).toRat? = some σ2) (h1 : (decode fm oneb).toRat? = some 1)
    (h0 : (decode fm zb).toRat? = some 0) (h2 : (decode fm twob).toRat? = some 2) (x y : ℚ)
    (hmx0 : ¬ max |x| |y| = 0)
    (ht : ¬ r (1 + r (r (min |x| |y| / max |x| |y|) * r (min |x| |y| / max |x| |y|))) < 0) :
    ∃ mx mn q rr t s : ℚ, mx = max |x| |y| ∧ mn = min |x| |y| ∧ q = r (mn / mx) ∧ rr = r (q * q) ∧ t = r (1 + rr) ∧ s = S t ∧
    evalNodesQS fm r S [x, y] (hypotNodes s2b oneb zb twob) [] = some
      [x, |x|, y, |y|, mn, mx, q2b (decide (mn = mx)), σ2, r (σ2 * mx), 1, q, rr, t, s,
       q2b (decide (1 = s)), 0, q2b (decide (0 < rr)), q2b (decide (q2b (decide (1 = s)) ≠ 0 ∧ q2b (decide (0 < rr)) ≠ 0)),
       r (mx * rr), 2, r (r (mx * rr) / 2), r (r (r (mx * rr) / 2) + mx), r (s * mx),
       (if q2b (decide (q2b (decide (1 = s)) ≠ 0 ∧ q2b (decide (0 < rr)) ≠ 0)) ≠ 0 then r (r (r (mx * rr) / 2) + mx) else r (s * mx)),
       (if q2b (decide (mn = mx)) ≠ 0 then r (σ2 * mx) else
         (if q2b (decide (q2b (decide (1 = s)) ≠ 0 ∧ q2b (decide (0 < rr)) ≠ 0)) ≠ 0 then r (r (r (mx * rr) / 2) + mx) else r (s * mx)))] := by
  refine ⟨_, _, _, _, _, _, rfl, rfl, rfl, rfl, rfl, rfl, ?_⟩
  have e : hypotNodes s2b oneb zb twob = (hypotNodes s2b oneb zb twob).take 11 ++ (hypotNodes s2b oneb zb twob).drop 11 := by
    simp [hypotNodes]
  rw [e, evalNodesQS_append]
  have s1 : evalNodesQS fm r S [x, y] ((hypotNodes s2b oneb zb twob).take 11) [] = some
      [x, |x|, y, |y|, min |x| |y|, max |x| |y|, q2b (decide (min |x| |y| = max |x| |y|)), σ2,
        r (σ2 * max |x| |y|), 1, r (min |x| |y| / max |x| |y|)] := by
    simp only [evalNodesQS, evalNodeQS, evalNodeQ, hypotNodes, hC, h1, List.take,
      List.getElem?_cons_zero, List.getElem?_cons_succ, List.nil_append, List.cons_append,
      Option.bind_eq_bind, Option.bind_some, Option.bind_some,
      abs_ite, min_ite, max_ite, hmx0, if_false]
  rw [s1]
  generalize r (min |x| |y| / max |x| |y|) = q at *
  generalize max |x| |y| = mx at *
  generalize min |x| |y| = mn at *
  simp only [Option.bind_some, hypotNodes, List.drop]
  have e2 : ∀ l : List Node, l = l.take 3 ++ l.drop 3 := fun l => (List.take_append_drop 3 l).symm
  rw [e2 [_, _, _, _, _, _, _, _, _, _, _, _, _, _], evalNodesQS_append]
  have s2 : evalNodesQS fm r S [x, y] (List.take 3
                  [{ op := Op.mul, args := [10, 10] }, { op := Op.add, args := [9, 11] },
                    { op := Op.sqrt, args := [12] }, { op := Op.eq, args := [9, 13] }, { op := Op.const, imm := zb },
                    { op := Op.gt, args := [11, 15] }, { op := Op.and, args := [14, 16] },
                    { op := Op.mul, args := [5, 11] }, { op := Op.const, imm := twob },
                    { op := Op.div, args := [18, 19] }, { op := Op.add, args := [20, 5] },
                    { op := Op.mul, args := [13, 5] }, { op := Op.select, args := [17, 21, 22] },
                    { op := Op.select, args := [6, 8, 23] }])
                [x, |x|, y, |y|, mn, mx, q2b (decide (mn = mx)), σ2, r (σ2 * mx), 1, q] = some
      [x, |x|, y, |y|, mn, mx, q2b (decide (mn = mx)), σ2, r (σ2 * mx), 1, q, r (q * q), r (1 + r (q * q)), S (r (1 + r (q * q)))] := by
    simp only [evalNodesQS, evalNodeQS, evalNodeQ, List.take,
      List.getElem?_cons_zero, List.getElem?_cons_succ, List.nil_append, List.cons_append,
      Option.bind_eq_bind, Option.bind_some, ht, if_false]
  rw [s2]
  generalize S (r (1 + r (q * q))) = s at *
  generalize r (q * q) = rr at *
  simp only [Option.bind_some, List.drop]
  simp only [evalNodesQS, evalNodeQS, evalNodeQ, h0, h2,
      List.getElem?_cons_zero, List.getElem?_cons_succ, List.nil_append, List.cons_append,
      Option.bind_eq_bind, Option.bind_some, Option.pure_def, two_ne_zero, if_false]

end FAVerif.EFT

namespace FAVerif.Refine
open FAVerif.IR FAVerif.FP FAVerif.FPQ FAVerif.SoftRound FAVerif.Spec FAVerif.EFT

lemma rep_abs {q : QFmt} {x : ℚ} (h : Rep q x) : Rep q |x| := by
  rcases le_total 0 x with h0 | h0
  · rwa [abs_of_nonneg h0]
  · rw [abs_of_nonpos h0]
    obtain ⟨m, e, h1, h2, h3⟩ := h
    exact ⟨-m, e, by rw [h1]; push_cast; ring, by rwa [abs_neg], h3⟩

lemma rep_small_int {q : QFmt} (hem : q.emin + 2 * q.p + 2 ≤ 0) (k : ℕ) (hk : k ≤ 2) : Rep q (k : ℚ) := by
  refine ⟨(k : ℤ) * 2 ^ (q.p - 2), 2 - (q.p : ℤ), ?_, ?_, by omega⟩
  · have hp := q.hp
    push_cast
    rw [mul_assoc, ← zpow_natCast, ← zpow_add₀ (by norm_num : (2 : ℚ) ≠ 0)]
    have : ((q.p - 2 : ℕ) : ℤ) + (2 - (q.p : ℤ)) = 0 := by omega
    rw [this]; simp
  · have hp := q.hp
    have h1 : (2 : ℤ) ^ q.p = 4 * 2 ^ (q.p - 2) := by
      rw [show q.p = (q.p - 2) + 2 by omega, pow_add]; simp; ring
    have h2 : (0 : ℤ) < 2 ^ (q.p - 2) := by positivity
    rw [abs_of_nonneg (by positivity), h1]
    have : (k : ℤ) ≤ 2 := by exact_mod_cast hk
    nlinarith

/-- every entry of the ℚ-run of hypot stays within [0, B] — or is an input, within [−B, B] -/
lemma hypot_env_bounds {q0 : QFmt} {r S : ℚ → ℚ} (hr : IsRN q0 r) (hS : SqrtOK q0 S) (hem : q0.emin + 2 * q0.p + 2 ≤ 0)
    (hu : uro q0 ≤ 1 / 256) {B : ℚ} (hB4 : 4 ≤ B) (hBrep : Rep q0 B)
    {σ2 x y mx mn : ℚ} (hσ0 : 0 ≤ σ2) (hσhi : σ2 ^ 2 ≤ (1 + uro q0) ^ 2 * 2)
    (hmx : mx = max |x| |y|) (hmn : mn = min |x| |y|) (hmxpos : 0 < mx) (hmxB : mx ≤ B / 2) (hmxrep : Rep q0 mx)
    {q rr t s : ℚ} (hq : q = r (mn / mx)) (hrr : rr = r (q * q)) (ht : t = r (1 + rr)) (hs : s = S t) (ht0 : 0 ≤ t) :
    ∀ z ∈ [x, |x|, y, |y|, mn, mx, q2b (decide (mn = mx)), σ2, r (σ2 * mx), 1, q, rr, t, s,
       q2b (decide (1 = s)), 0, q2b (decide (0 < rr)), q2b (decide (q2b (decide (1 = s)) ≠ 0 ∧ q2b (decide (0 < rr)) ≠ 0)),
       r (mx * rr), 2, r (r (mx * rr) / 2), r (r (r (mx * rr) / 2) + mx), r (s * mx),
       (if q2b (decide (q2b (decide (1 = s)) ≠ 0 ∧ q2b (decide (0 < rr)) ≠ 0)) ≠ 0 then r (r (r (mx * rr) / 2) + mx) else r (s * mx)),
       (if q2b (decide (mn = mx)) ≠ 0 then r (σ2 * mx) else
         (if q2b (decide (q2b (decide (1 = s)) ≠ 0 ∧ q2b (decide (0 < rr)) ≠ 0)) ≠ 0 then r (r (r (mx * rr) / 2) + mx) else r (s * mx)))],
      |z| ≤ B := by
  have hu0 : 0 < uro q0 := uro_pos
  have hxm : |x| ≤ mx := by rw [hmx]; exact le_max_left _ _
  have hym : |y| ≤ mx := by rw [hmx]; exact le_max_right _ _
  have hmn0 : 0 ≤ mn := by rw [hmn]; exact le_min (abs_nonneg _) (abs_nonneg _)
  have hmnx : mn ≤ mx := by rw [hmn, hmx]; exact le_trans (min_le_left _ _) (le_max_left _ _)
  have hmxB' : mx ≤ B := by linarith
  have h1rep : Rep q0 1 := by simpa using rep_small_int hem 1 (by norm_num)
  have h2rep : Rep q0 2 := by simpa using rep_small_int hem 2 (by norm_num)
  have hq2b : ∀ b : Bool, |q2b b| ≤ B := by
    intro b; cases b <;> simp [q2b] <;> linarith
  have hw0 : 0 ≤ mn / mx := div_nonneg hmn0 hmxpos.le
  have hw1 : mn / mx ≤ 1 := by rw [div_le_one hmxpos]; exact hmnx
  have hq0 : 0 ≤ q := by rw [hq]; exact rn_nonneg' hr hw0
  have hq1 : q ≤ 1 := by rw [hq]; exact rn_le_of_rep hr h1rep hw1
  have hqq : q * q ≤ 1 := by nlinarith
  have hrr0 : 0 ≤ rr := by rw [hrr]; exact rn_nonneg' hr (mul_nonneg hq0 hq0)
  have hrr1 : rr ≤ 1 := by rw [hrr]; exact rn_le_of_rep hr h1rep hqq
  have ht2 : t ≤ 2 := by rw [ht]; exact rn_le_of_rep hr h2rep (by linarith)
  have hs0 : 0 ≤ s := by rw [hs]; exact hS.nonneg t ht0
  have hs2 : s ≤ 2 := by
    have h := hS.hi t ht0
    rw [← hs] at h
    by_contra hc
    push Not at hc
    have : (4 : ℚ) < s ^ 2 := by nlinarith
    have h3 : (1 + uro q0) ^ 2 * t ≤ (1 + 1 / 256) ^ 2 * 2 := by
      apply mul_le_mul _ ht2 ht0 (by positivity)
      exact pow_le_pow_left₀ (by linarith) (by linarith) 2
    norm_num at h3
    linarith
  have hσ32 : σ2 ≤ 3 / 2 := by
    by_contra hc
    push Not at hc
    have : (9 : ℚ) / 4 < σ2 ^ 2 := by nlinarith
    have h3 : (1 + uro q0) ^ 2 * 2 ≤ (1 + 1 / 256) ^ 2 * 2 := by
      apply mul_le_mul_of_nonneg_right _ (by norm_num)
      exact pow_le_pow_left₀ (by linarith) (by linarith) 2
    norm_num at h3
    linarith
  have hh1a : 0 ≤ r (σ2 * mx) := rn_nonneg' hr (by positivity)
  have hh1b : r (σ2 * mx) ≤ B := rn_le_of_rep hr hBrep (by nlinarith)
  have hp1a : 0 ≤ r (mx * rr) := rn_nonneg' hr (by positivity)
  have hp1b : r (mx * rr) ≤ mx := rn_le_of_rep hr hmxrep (by nlinarith)
  have hp2a : 0 ≤ r (r (mx * rr) / 2) := rn_nonneg' hr (by positivity)
  have hp2b : r (r (mx * rr) / 2) ≤ mx := rn_le_of_rep hr hmxrep (by linarith)
  have hAa : 0 ≤ r (r (r (mx * rr) / 2) + mx) := rn_nonneg' hr (by linarith)
  have hAb : r (r (r (mx * rr) / 2) + mx) ≤ B := rn_le_of_rep hr hBrep (by linarith)
  have hBa : 0 ≤ r (s * mx) := rn_nonneg' hr (by positivity)
  have hBb : r (s * mx) ≤ B := rn_le_of_rep hr hBrep (by nlinarith)
  have nn : ∀ {z : ℚ}, 0 ≤ z → z ≤ B → |z| ≤ B := fun h0 h1 => by rwa [abs_of_nonneg h0]
  intro z hz
  simp only [List.mem_cons, List.mem_nil_iff, or_false] at hz
  rcases hz with h | h | h | h | h | h | h | h | h | h | h | h | h | h | h | h | h | h | h | h | h | h | h | h | h <;> subst h
  · exact le_trans hxm hmxB'
  · rw [abs_abs]; exact le_trans hxm hmxB'
  · exact le_trans hym hmxB'
  · rw [abs_abs]; exact le_trans hym hmxB'
  · exact nn hmn0 (le_trans hmnx hmxB')
  · exact nn hmxpos.le hmxB'
  · exact hq2b _
  · exact nn hσ0 (by linarith)
  · exact nn hh1a hh1b
  · exact nn (by norm_num) (by linarith)
  · exact nn hq0 (by linarith)
  · exact nn hrr0 (by linarith)
  · exact nn ht0 (by linarith)
  · exact nn hs0 (by linarith)
  · exact hq2b _
  · simp; linarith
  · exact hq2b _
  · exact hq2b _
  · exact nn hp1a (by linarith)
  · exact nn (by norm_num) (by linarith)
  · exact nn hp2a (by linarith)
  · exact nn hAa hAb
  · exact nn hBa hBb
  · split
    · exact nn hAa hAb
    · exact nn hBa hBb
  · split
    · exact nn hh1a hh1b
    · split
      · exact nn hAa hAb
      · exact nn hBa hBb

end FAVerif.Refine

namespace FAVerif.Refine
open FAVerif.IR FAVerif.FP FAVerif.FPQ FAVerif.SoftRound FAVerif.Spec FAVerif.EFT

/-- **hypot on bit patterns, unconditional on an explicit box**: finite operands with
2^(emin+p) ≤ max(|x|,|y|) ≤ Lmax/2.  The run exists, every float node is finite, and the output is accurate. -/
theorem hypot_total_of (p : Prog) (hf : WF p.fmt) (hp : 8 ≤ p.fmt.p) (hem : p.fmt.emin + 2 * p.fmt.p + 2 ≤ 0) (hL : 4 ≤ Lmax p.fmt)
    (s2b oneb zb twob : Nat) (σ2 : ℚ) (hn : p.nodes = hypotNodes s2b oneb zb twob) (hpo : p.outs = hypotOuts)
    (hk : kindsOfS p.nodes [] = some hypotKinds)
    (hC : (decode p.fmt s2b).toRat? = some σ2) (h1 : (decode p.fmt oneb).toRat? = some 1)
    (h0 : (decode p.fmt zb).toRat? = some 0) (h2 : (decode p.fmt twob).toRat? = some 2)
    (hσ0 : 0 ≤ σ2) (hσlo : (1 - uro (qf p.fmt hf.hp)) ^ 2 * 2 ≤ σ2 ^ 2) (hσhi : σ2 ^ 2 ≤ (1 + uro (qf p.fmt hf.hp)) ^ 2 * 2)
    (lib : Libm) (x y : Nat) (qx qy : ℚ) (hx : isFiniteBits p.fmt x = true) (hy : isFiniteBits p.fmt y = true)
    (vx : toQ p.fmt x = some qx) (vy : toQ p.fmt y = some qy)
    (hlo : 2 ^ (p.fmt.emin + (p.fmt.p : ℤ)) ≤ max |qx| |qy|) (hhi : max |qx| |qy| ≤ Lmax p.fmt / 2) :
    ∃ (o : Nat) (H : ℚ), p.eval lib [x, y] = some [o] ∧ isFiniteBits p.fmt o = true ∧ toQ p.fmt o = some H ∧ 0 ≤ H ∧
      (1 - uro (qf p.fmt hf.hp)) ^ 7 * (qx ^ 2 + qy ^ 2) ≤ H ^ 2 ∧ H ^ 2 ≤ (1 + uro (qf p.fmt hf.hp)) ^ 7 * (qx ^ 2 + qy ^ 2) := by
  obtain ⟨S0, hS0⟩ := sqrtOK_exists (qf p.fmt hf.hp) (by have := hf.hp; show 1 ≤ p.fmt.p; omega)
  have hS := ssoft_ok hf hem S0 hS0
  have hr := isRN_rne (qf p.fmt hf.hp)
  set r := rne (qf p.fmt hf.hp) with hrdef
  set S := Ssoft p.fmt S0 with hSdef
  have hmn0 : 0 ≤ min |qx| |qy| := le_min (abs_nonneg _) (abs_nonneg _)
  have hmnx : min |qx| |qy| ≤ max |qx| |qy| := le_trans (min_le_left _ _) (le_max_left _ _)
  have hmxpos : 0 < max |qx| |qy| := lt_of_lt_of_le (by positivity) hlo
  obtain ⟨ht0, -, -, -⟩ := hypot_core hr hS hp hem hσ0 hσlo hσhi hmn0 hmnx hlo (hypotQ r S σ2 (max |qx| |qy|) (min |qx| |qy|)) rfl
  obtain ⟨mx, mn, q, rr, t, s, emx, emn, eq, err, et, es, henv⟩ :=
    evalNodesQS_hypot_env p.fmt r S s2b oneb zb twob σ2 hC h1 h0 h2 qx qy hmxpos.ne' (not_lt.mpr ht0)
  have hu : uro (qf p.fmt hf.hp) ≤ 1 / 256 := (fmt_facts (f := qf p.fmt hf.hp) hp hem).1
  -- mx is representable
  have hmxrep : Rep (qf p.fmt hf.hp) mx := by
    obtain ⟨sx, mmx, ex, dx⟩ := finite_decode p.fmt x hx
    obtain ⟨sy, mmy, ey, dy⟩ := finite_decode p.fmt y hy
    have rx := rep_of_decode p.fmt hf x sx mmx ex dx
    have ry := rep_of_decode p.fmt hf y sy mmy ey dy
    rw [toQ_fin p.fmt x sx mmx ex dx] at vx; rw [toQ_fin p.fmt y sy mmy ey dy] at vy
    cases vx; cases vy
    rw [emx]
    rcases le_total |valQ sx mmx ex| |valQ sy mmy ey| with h | h
    · rw [max_eq_right h]; exact rep_abs ry
    · rw [max_eq_left h]; exact rep_abs rx
  have ht0' : 0 ≤ t := by rw [et, err, eq, emn, emx]; exact ht0
  have hbounds := hypot_env_bounds hr hS hem hu hL (Lmax_rep p.fmt hf) hσ0 hσhi emx emn (by rw [emx]; exact hmxpos) (by rw [emx]; exact hhi)
    hmxrep eq err et es ht0'
  have hinv0 : Inv p.fmt [] #[] [] := ⟨rfl, rfl, fun i k hk => by simp at hk⟩
  rw [← hn] at henv
  obtain ⟨envF, he, hinv⟩ := fwdS hf hL S0 lib [x, y] [qx, qy] (insRel2 hx hy vx vy) p.nodes [] hypotKinds #[] [] _ hinv0 hk henv
    (fun i z hz _ => hbounds z (List.mem_of_getElem? hz))
  have hfin := inv_finite hinv
  -- the output
  obtain ⟨o, qo, eo, -, -⟩ := hinv.rel 24 false (by decide)
  have ho : p.eval lib [x, y] = some [o] := by
    unfold Prog.eval
    simp only [he, Option.bind_eq_bind, Option.bind_some, hpo, hypotOuts, List.mapM_cons, List.mapM_nil, eo, Option.pure_def]
  obtain ⟨H, a, b, c, d, e⟩ := hypot_bits_of p hf hp hem s2b oneb zb twob σ2 hn hpo hk hC h1 h0 h2 hσ0 hσlo hσhi lib x y qx qy hx hy vx vy hlo
    envF he hfin o ho
  exact ⟨o, H, ho, a, b, c, d, e⟩

end FAVerif.Refine
