/-
Soundness of the overflow analyser (Models/Overflow.lean) and the resulting unconditional refinement theorem.
-/
import FAVerif.Models.Overflow
import FAVerif.Lemmas.RefineFwd

namespace FAVerif.Ovf
open FAVerif.IR FAVerif.FP FAVerif.FPQ FAVerif.SoftRound FAVerif.Refine

variable {f : Fmt}

/-- invariant: every value of the ℚ-environment is within the computed exponent bounds -/
structure BRel (f : Fmt) (b : B) (q : ℚ) : Prop where
  hi : |q| ≤ 2 ^ b.hi
  ge : f.emin ≤ b.hi
  lo : ∀ kl, b.lo = some kl → (2 : ℚ) ^ kl ≤ |q|
  fin : b.fin = true → |q| ≤ Lmax f
  nn : b.nn = true → 0 ≤ q
  tv : ∀ t, b.tv = some t → q = q2b t

structure BInv (f : Fmt) (st : List B) (envQ : List ℚ) : Prop where
  len : st.length = envQ.length
  rel : ∀ (i : Nat) (b : B), st[i]? = some b → ∃ q, envQ[i]? = some q ∧ BRel f b q

/-- relation for a node without side information -/
lemma BRel.plain {f : Fmt} {k : Int} {q : ℚ} (h1 : |q| ≤ 2 ^ k) (h2 : f.emin ≤ k) : BRel f { hi := k } q :=
  ⟨h1, h2, (fun kl h => by cases h), (fun h => by cases h), (fun h => by cases h), (fun t h => by cases h)⟩

lemma clamp_ge (f : Fmt) (k : Int) : f.emin ≤ clamp f k := le_max_right _ _
lemma pow_clamp (f : Fmt) (k : Int) : (2 : ℚ) ^ k ≤ 2 ^ clamp f k := zpow_le_zpow_right₀ (by norm_num) (le_max_left _ _)

lemma rep_pow {q : QFmt} {k : ℤ} (hk : q.emin ≤ k) : Rep q ((2 : ℚ) ^ k) :=
  ⟨1, k, by simp, by simpa using one_lt_pow₀ (by norm_num : (1 : ℤ) < 2) (by have := q.hp; omega), hk⟩

lemma rep_neg_pow {q : QFmt} {k : ℤ} (hk : q.emin ≤ k) : Rep q (-(2 : ℚ) ^ k) :=
  ⟨-1, k, by simp, by simpa using one_lt_pow₀ (by norm_num : (1 : ℤ) < 2) (by have := q.hp; omega), hk⟩

/-- rounding never raises a power-of-two bound -/
lemma abs_rn_le_pow {q : QFmt} {r : ℚ → ℚ} (hr : IsRN q r) {k : ℤ} (hk : q.emin ≤ k) {z : ℚ} (hz : |z| ≤ 2 ^ k) : |r z| ≤ 2 ^ k := by
  have h := abs_le.mp hz
  rw [abs_le]
  exact ⟨rn_ge_of_rep hr (rep_neg_pow hk) h.1, rn_le_of_rep hr (rep_pow hk) h.2⟩

lemma argB_rel {st : List B} {envQ : List ℚ} (hinv : BInv f st envQ) {args : List Nat} {i : Nat} {b : B}
    (h : argB st args i = some b) :
    ∃ q, (args[i]? >>= fun j => envQ[j]?) = some q ∧ BRel f b q := by
  unfold argB at h
  cases hj : args[i]? with
  | none => simp [hj] at h
  | some j =>
    simp only [hj] at h
    obtain ⟨q, h1, h2⟩ := hinv.rel j b h
    exact ⟨q, by simp [h1], h2⟩

lemma q2b_le (b : Bool) : |q2b b| ≤ (2 : ℚ) ^ clamp f 0 := by
  have : (1 : ℚ) ≤ 2 ^ clamp f 0 := by
    have := pow_clamp f 0; simpa using this
  cases b
  · simp only [q2b, Bool.false_eq_true, if_false, abs_zero]; positivity
  · simp only [q2b, if_true, abs_one]; exact this

lemma ltTv_sound {a b : B} {qa qb : ℚ} (ha : BRel f a qa) (hb : BRel f b qb) :
    ∀ t, ltTv a b = some t → q2b (decide (qa < qb)) = q2b t := by
  intro t ht
  unfold ltTv at ht
  by_cases h1 : ltFalse a b = true
  · simp only [h1, if_true, Option.some.injEq] at ht
    subst ht
    unfold ltFalse at h1
    rw [Bool.and_eq_true] at h1
    obtain ⟨hn, hl⟩ := h1
    cases hlo : a.lo with
    | none => simp [hlo] at hl
    | some kl =>
      simp only [hlo, decide_eq_true_eq] at hl
      have h0 := ha.nn hn
      have h2 := ha.lo kl hlo
      rw [abs_of_nonneg h0] at h2
      have h3 : (2 : ℚ) ^ b.hi ≤ 2 ^ kl := zpow_le_zpow_right₀ (by norm_num) hl
      have h4 := le_trans (le_abs_self qb) hb.hi
      have : ¬ qa < qb := by push Not; linarith
      simp [this]
  · simp only [h1, Bool.false_eq_true, if_false] at ht
    by_cases h2 : ltTrue a b = true
    · simp only [h2, if_true, Option.some.injEq] at ht
      subst ht
      unfold ltTrue at h2
      rw [Bool.and_eq_true] at h2
      obtain ⟨hn, hl⟩ := h2
      cases hlo : b.lo with
      | none => simp [hlo] at hl
      | some kb =>
        simp only [hlo, decide_eq_true_eq] at hl
        have h0 := hb.nn hn
        have h3 := hb.lo kb hlo
        rw [abs_of_nonneg h0] at h3
        have h4 : (2 : ℚ) ^ a.hi < 2 ^ kb := zpow_lt_zpow_right₀ (by norm_num) hl
        have h5 := le_trans (le_abs_self qa) ha.hi
        have : qa < qb := by linarith
        simp [this]
    · simp [h2] at ht

set_option maxHeartbeats 1000000 in
/-- one node of the analyser is sound -/
theorem stepB_sound (hf : WF f) {r : ℚ → ℚ} (hr : IsRN (qf f hf.hp) r) (E : List Int) (EL : List (Option Int)) (insQ : List ℚ)
    (hE : ∀ (i : Nat) (k : Int), E[i]? = some k → ∃ q, insQ[i]? = some q ∧ |q| ≤ 2 ^ k)
    (hEL : ∀ (i : Nat) (k : Int), EL[i]? = some (some k) → ∀ q, insQ[i]? = some q → (2 : ℚ) ^ k ≤ |q|)
    (st : List B) (envQ : List ℚ) (hinv : BInv f st envQ) (n : Node) (b : B) (hb : stepB f E EL st n = some b) :
    ∃ q, evalNodeQ f r insQ envQ n = some q ∧ BRel f b q := by
  have hemq : (qf f hf.hp).emin = f.emin := rfl
  unfold stepB at hb
  unfold evalNodeQ
  cases hop : n.op <;> simp only [hop] at hb ⊢
  case input =>
    cases hk : E[n.imm]? with
    | none => simp [hk] at hb
    | some k =>
      simp only [hk, Option.map_some, Option.some.injEq] at hb
      subst hb
      obtain ⟨q, h1, h2⟩ := hE n.imm k hk
      refine ⟨q, h1, ⟨le_trans h2 (pow_clamp f k), clamp_ge f k, ?_, (fun h => by cases h), (fun h => by cases h), (fun t h => by cases h)⟩⟩
      intro kl hkl
      have : EL[n.imm]? = some (some kl) := by
        cases h : EL[n.imm]? with
        | none => simp [h] at hkl
        | some o => simp [h] at hkl; subst hkl; rfl
      exact hEL n.imm kl this q h1
  case const =>
    cases hd : decode f n.imm with
    | nan => simp [hd] at hb
    | inf s => simp [hd] at hb
    | fin s m e =>
      simp only [hd] at hb
      refine ⟨valQ s m e, by rw [toRat_fin], ?_⟩
      have h2e : (0 : ℚ) < 2 ^ e := by positivity
      have habs : |valQ s m e| = (m : ℚ) * 2 ^ e := by
        cases s <;> simp [valQ, abs_mul, abs_of_pos h2e]
      have hfinL : |valQ s m e| ≤ Lmax f := by rw [habs]; exact decode_le_Lmax f hf n.imm s m e hd
      have hnn : (!s) = true → 0 ≤ valQ s m e := by
        intro hs
        have : s = false := by cases s <;> simp_all
        subst this
        simp only [valQ, Bool.false_eq_true, if_false]
        positivity
      by_cases hm : m = 0
      · simp only [hm, if_true, Option.some.injEq] at hb
        subst hb
        refine ⟨by rw [habs, hm]; simp; positivity, le_refl _, (fun kl h => by cases h), (fun _ => hfinL), ?_, (fun t h => by cases h)⟩
        intro _
        have : valQ s m e = 0 := by rw [hm]; cases s <;> simp [valQ]
        rw [this]
      · simp only [hm, if_false, Option.some.injEq] at hb
        subst hb
        obtain ⟨h1, h2, h3⟩ := bitLen_bounds (Nat.pos_of_ne_zero hm)
        refine ⟨?_, clamp_ge f _, ?_, (fun _ => hfinL), hnn, (fun t h => by cases h)⟩
        · rw [habs]
          refine le_trans ?_ (pow_clamp f _)
          unfold constHi
          split
          · rename_i hpow
            rw [show e + (bitLen m : ℤ) - 1 = e + ((bitLen m - 1 : ℕ) : ℤ) by omega,
              zpow_add₀ (by norm_num : (2 : ℚ) ≠ 0), zpow_natCast, mul_comm ((2 : ℚ) ^ e)]
            apply mul_le_mul_of_nonneg_right _ h2e.le
            have : (m : ℚ) = 2 ^ (bitLen m - 1) := by exact_mod_cast hpow
            rw [← this]
          · rw [zpow_add₀ (by norm_num : (2 : ℚ) ≠ 0), zpow_natCast, mul_comm ((2 : ℚ) ^ e)]
            apply mul_le_mul_of_nonneg_right _ h2e.le
            exact_mod_cast h2.le
        · intro kl hkl
          simp only [Option.some.injEq] at hkl
          subst hkl
          rw [habs, show e + (bitLen m : ℤ) - 1 = e + ((bitLen m - 1 : ℕ) : ℤ) by omega,
            zpow_add₀ (by norm_num : (2 : ℚ) ≠ 0), zpow_natCast, mul_comm ((2 : ℚ) ^ e)]
          apply mul_le_mul_of_nonneg_right _ h2e.le
          exact_mod_cast h1
  case bconst =>
    split at hb
    · cases hb
      exact ⟨_, rfl, BRel.plain (q2b_le _) (clamp_ge f 0)⟩
    · cases hb
  case add =>
    cases ha : argB st n.args 0 with
    | none => simp [ha] at hb
    | some a =>
      cases hbb : argB st n.args 1 with
      | none => simp [ha, hbb] at hb
      | some b' =>
        simp only [ha, hbb, Option.some.injEq] at hb
        subst hb
        obtain ⟨qa, e1, ra⟩ := argB_rel hinv ha
        obtain ⟨qb, e2, rb⟩ := argB_rel hinv hbb
        have h1 := ra.hi; have h2 := rb.hi
        simp only [e1, e2, Option.bind_eq_bind, Option.bind_some]
        refine ⟨_, rfl, BRel.plain ?_ (clamp_ge f _)⟩
        apply abs_rn_le_pow hr (clamp_ge f _)
        refine le_trans ?_ (pow_clamp f _)
        have hm1 : (2 : ℚ) ^ a.hi ≤ 2 ^ max a.hi b'.hi := zpow_le_zpow_right₀ (by norm_num) (le_max_left _ _)
        have hm2 : (2 : ℚ) ^ b'.hi ≤ 2 ^ max a.hi b'.hi := zpow_le_zpow_right₀ (by norm_num) (le_max_right _ _)
        rw [zpow_add₀ (by norm_num : (2 : ℚ) ≠ 0)]
        calc |qa + qb| ≤ |qa| + |qb| := abs_add_le _ _
          _ ≤ 2 ^ max a.hi b'.hi * 2 ^ (1 : ℤ) := by norm_num; linarith
  case sub =>
    cases ha : argB st n.args 0 with
    | none => simp [ha] at hb
    | some a =>
      cases hbb : argB st n.args 1 with
      | none => simp [ha, hbb] at hb
      | some b' =>
        simp only [ha, hbb, Option.some.injEq] at hb
        subst hb
        obtain ⟨qa, e1, ra⟩ := argB_rel hinv ha
        obtain ⟨qb, e2, rb⟩ := argB_rel hinv hbb
        have h1 := ra.hi; have h2 := rb.hi
        simp only [e1, e2, Option.bind_eq_bind, Option.bind_some]
        refine ⟨_, rfl, BRel.plain ?_ (clamp_ge f _)⟩
        apply abs_rn_le_pow hr (clamp_ge f _)
        refine le_trans ?_ (pow_clamp f _)
        have hm1 : (2 : ℚ) ^ a.hi ≤ 2 ^ max a.hi b'.hi := zpow_le_zpow_right₀ (by norm_num) (le_max_left _ _)
        have hm2 : (2 : ℚ) ^ b'.hi ≤ 2 ^ max a.hi b'.hi := zpow_le_zpow_right₀ (by norm_num) (le_max_right _ _)
        rw [zpow_add₀ (by norm_num : (2 : ℚ) ≠ 0)]
        calc |qa - qb| ≤ |qa| + |qb| := abs_sub _ _
          _ ≤ 2 ^ max a.hi b'.hi * 2 ^ (1 : ℤ) := by norm_num; linarith
  case mul =>
    cases ha : argB st n.args 0 with
    | none => simp [ha] at hb
    | some a =>
      cases hbb : argB st n.args 1 with
      | none => simp [ha, hbb] at hb
      | some b' =>
        simp only [ha, hbb, Option.some.injEq] at hb
        subst hb
        obtain ⟨qa, e1, ra⟩ := argB_rel hinv ha
        obtain ⟨qb, e2, rb⟩ := argB_rel hinv hbb
        have h1 := ra.hi; have h2 := rb.hi
        simp only [e1, e2, Option.bind_eq_bind, Option.bind_some]
        refine ⟨_, rfl, BRel.plain ?_ (clamp_ge f _)⟩
        apply abs_rn_le_pow hr (clamp_ge f _)
        refine le_trans ?_ (pow_clamp f _)
        rw [abs_mul, zpow_add₀ (by norm_num : (2 : ℚ) ≠ 0)]
        exact mul_le_mul h1 h2 (abs_nonneg _) (by positivity)
  case div =>
    cases ha : argB st n.args 0 with
    | none => simp [ha] at hb
    | some a =>
      cases hbb : argB st n.args 1 with
      | none => simp [ha, hbb] at hb
      | some b' =>
        simp only [ha, hbb] at hb
        cases hlo : b'.lo with
        | none => simp [hlo] at hb
        | some kl =>
          simp only [hlo, Option.map_some, Option.some.injEq] at hb
          subst hb
          obtain ⟨qa, e1, ra⟩ := argB_rel hinv ha
          obtain ⟨qb, e2, rb⟩ := argB_rel hinv hbb
          have h1 := ra.hi
          have hl := rb.lo kl hlo
          have hqb : qb ≠ 0 := by
            intro h0; rw [h0] at hl; simp at hl
            exact absurd hl (not_le.mpr (by positivity))
          simp only [e1, e2, Option.bind_eq_bind, Option.bind_some, hqb, if_false]
          refine ⟨_, rfl, BRel.plain ?_ (clamp_ge f _)⟩
          apply abs_rn_le_pow hr (clamp_ge f _)
          refine le_trans ?_ (pow_clamp f _)
          rw [abs_div, zpow_sub₀ (by norm_num : (2 : ℚ) ≠ 0)]
          exact div_le_div₀ (by positivity) h1 (by positivity) hl
  case neg =>
    cases ha : argB st n.args 0 with
    | none => simp [ha] at hb
    | some a =>
      simp only [ha, Option.map_some, Option.some.injEq] at hb
      subst hb
      obtain ⟨qa, e1, ra⟩ := argB_rel hinv ha
      simp only [e1, Option.bind_eq_bind, Option.bind_some]
      exact ⟨_, rfl, ⟨by rw [abs_neg]; exact ra.hi, ra.ge, (fun kl h => by rw [abs_neg]; exact ra.lo kl h),
        (fun h => by rw [abs_neg]; exact ra.fin h), (fun h => by cases h), (fun t h => by cases h)⟩⟩
  case abs =>
    cases ha : argB st n.args 0 with
    | none => simp [ha] at hb
    | some a =>
      simp only [ha, Option.map_some, Option.some.injEq] at hb
      subst hb
      obtain ⟨qa, e1, ra⟩ := argB_rel hinv ha
      simp only [e1, Option.bind_eq_bind, Option.bind_some]
      have e : |if qa < 0 then -qa else qa| = |qa| := by split <;> simp
      exact ⟨_, rfl, ⟨by rw [e]; exact ra.hi, ra.ge, (fun kl h => by rw [e]; exact ra.lo kl h),
        (fun h => by rw [e]; exact ra.fin h), (fun _ => by split <;> linarith), (fun t h => by cases h)⟩⟩
  case pymax =>
    cases ha : argB st n.args 0 with
    | none => simp [ha] at hb
    | some a =>
      cases hbb : argB st n.args 1 with
      | none => simp [ha, hbb] at hb
      | some b' =>
        simp only [ha, hbb, Option.some.injEq] at hb
        subst hb
        obtain ⟨qa, e1, ra⟩ := argB_rel hinv ha
        obtain ⟨qb, e2, rb⟩ := argB_rel hinv hbb
        have h1 := ra.hi; have h2 := rb.hi
        simp only [e1, e2, Option.bind_eq_bind, Option.bind_some]
        have hm1 : (2 : ℚ) ^ a.hi ≤ 2 ^ max a.hi b'.hi := zpow_le_zpow_right₀ (by norm_num) (le_max_left _ _)
        have hm2 : (2 : ℚ) ^ b'.hi ≤ 2 ^ max a.hi b'.hi := zpow_le_zpow_right₀ (by norm_num) (le_max_right _ _)
        refine ⟨_, rfl, ⟨?_, le_trans ra.ge (le_max_left _ _), (fun kl h => by cases h), ?_, (fun h => by cases h), (fun t h => by cases h)⟩⟩
        · split <;> linarith
        · intro hfin
          have hfin' : a.fin = true ∧ b'.fin = true := by simpa [Bool.and_eq_true] using hfin
          split
          · first | exact rb.fin hfin'.2 | exact ra.fin hfin'.1
          · first | exact ra.fin hfin'.1 | exact rb.fin hfin'.2
  case pymin =>
    cases ha : argB st n.args 0 with
    | none => simp [ha] at hb
    | some a =>
      cases hbb : argB st n.args 1 with
      | none => simp [ha, hbb] at hb
      | some b' =>
        simp only [ha, hbb, Option.some.injEq] at hb
        subst hb
        obtain ⟨qa, e1, ra⟩ := argB_rel hinv ha
        obtain ⟨qb, e2, rb⟩ := argB_rel hinv hbb
        have h1 := ra.hi; have h2 := rb.hi
        simp only [e1, e2, Option.bind_eq_bind, Option.bind_some]
        have hm1 : (2 : ℚ) ^ a.hi ≤ 2 ^ max a.hi b'.hi := zpow_le_zpow_right₀ (by norm_num) (le_max_left _ _)
        have hm2 : (2 : ℚ) ^ b'.hi ≤ 2 ^ max a.hi b'.hi := zpow_le_zpow_right₀ (by norm_num) (le_max_right _ _)
        refine ⟨_, rfl, ⟨?_, le_trans ra.ge (le_max_left _ _), (fun kl h => by cases h), ?_, (fun h => by cases h), (fun t h => by cases h)⟩⟩
        · split <;> linarith
        · intro hfin
          have hfin' : a.fin = true ∧ b'.fin = true := by simpa [Bool.and_eq_true] using hfin
          split
          · first | exact rb.fin hfin'.2 | exact ra.fin hfin'.1
          · first | exact ra.fin hfin'.1 | exact rb.fin hfin'.2
  case lt =>
    cases ha : argB st n.args 0 with
    | none => simp [ha] at hb
    | some a =>
      cases hbb : argB st n.args 1 with
      | none => simp [ha, hbb] at hb
      | some b' =>
        simp only [ha, hbb, Option.some.injEq] at hb
        subst hb
        obtain ⟨qa, e1, ra⟩ := argB_rel hinv ha
        obtain ⟨qb, e2, rb⟩ := argB_rel hinv hbb
        simp only [e1, e2, Option.bind_eq_bind, Option.bind_some]
        exact ⟨_, rfl, ⟨q2b_le _, clamp_ge f 0, (fun kl h => by cases h), (fun h => by cases h), (fun h => by cases h), ltTv_sound ra rb⟩⟩
  case gt =>
    cases ha : argB st n.args 0 with
    | none => simp [ha] at hb
    | some a =>
      cases hbb : argB st n.args 1 with
      | none => simp [ha, hbb] at hb
      | some b' =>
        simp only [ha, hbb, Option.some.injEq] at hb
        subst hb
        obtain ⟨qa, e1, ra⟩ := argB_rel hinv ha
        obtain ⟨qb, e2, rb⟩ := argB_rel hinv hbb
        simp only [e1, e2, Option.bind_eq_bind, Option.bind_some]
        exact ⟨_, rfl, ⟨q2b_le _, clamp_ge f 0, (fun kl h => by cases h), (fun h => by cases h), (fun h => by cases h), ltTv_sound rb ra⟩⟩
  case select =>
    cases hc : argB st n.args 0 with
    | none => simp [hc] at hb
    | some c =>
      cases ha : argB st n.args 1 with
      | none => simp [hc, ha] at hb
      | some a =>
        cases hbb : argB st n.args 2 with
        | none => simp [hc, ha, hbb] at hb
        | some b' =>
          simp only [hc, ha, hbb] at hb
          obtain ⟨qc, e0, rc⟩ := argB_rel hinv hc
          obtain ⟨qa, e1, ra⟩ := argB_rel hinv ha
          obtain ⟨qb, e2, rb⟩ := argB_rel hinv hbb
          have h1 := ra.hi; have h2 := rb.hi
          simp only [e0, e1, e2, Option.bind_eq_bind, Option.bind_some]
          cases htv : c.tv with
          | none =>
            simp only [htv, Option.some.injEq] at hb
            subst hb
            have hm1 : (2 : ℚ) ^ a.hi ≤ 2 ^ max a.hi b'.hi := zpow_le_zpow_right₀ (by norm_num) (le_max_left _ _)
            have hm2 : (2 : ℚ) ^ b'.hi ≤ 2 ^ max a.hi b'.hi := zpow_le_zpow_right₀ (by norm_num) (le_max_right _ _)
            refine ⟨_, rfl, ⟨?_, le_trans ra.ge (le_max_left _ _), (fun kl h => by cases h), ?_, (fun h => by cases h), (fun t h => by cases h)⟩⟩
            · split <;> linarith
            · intro hfin
              have hfin' : a.fin = true ∧ b'.fin = true := by simpa [Bool.and_eq_true] using hfin
              split
              · exact ra.fin hfin'.1
              · exact rb.fin hfin'.2
          | some t =>
            have hqc := rc.tv t htv
            cases t with
            | true =>
              simp only [htv, Option.some.injEq] at hb
              subst hb
              have : qc ≠ 0 := by rw [hqc]; simp [q2b]
              simp only [this, ne_eq, not_false_eq_true, if_true]
              exact ⟨_, rfl, ⟨ra.hi, ra.ge, ra.lo, ra.fin, ra.nn, (fun t h => by cases h)⟩⟩
            | false =>
              simp only [htv, Option.some.injEq] at hb
              subst hb
              have : qc = 0 := by rw [hqc]; simp [q2b]
              simp only [this, ne_eq, not_true_eq_false, if_false]
              exact ⟨_, rfl, ⟨rb.hi, rb.ge, rb.lo, rb.fin, rb.nn, (fun t h => by cases h)⟩⟩
  case not =>
    cases ha : argB st n.args 0 with
    | none => simp [ha] at hb
    | some a =>
      simp only [ha, Option.map_some, Option.some.injEq] at hb
      subst hb
      obtain ⟨qa, e1, -⟩ := argB_rel hinv ha
      simp only [e1, Option.bind_eq_bind, Option.bind_some]
      exact ⟨_, rfl, BRel.plain (q2b_le _) (clamp_ge f 0)⟩
  case isfinite =>
    cases ha : argB st n.args 0 with
    | none => simp [ha] at hb
    | some a =>
      simp only [ha, Option.map_some, Option.some.injEq] at hb
      subst hb
      obtain ⟨qa, e1, -⟩ := argB_rel hinv ha
      simp only [e1, Option.bind_eq_bind, Option.bind_some]
      exact ⟨_, rfl, BRel.plain (q2b_le _) (clamp_ge f 0)⟩
  all_goals first
    | (cases ha : argB st n.args 0 with
        | none => simp [ha] at hb
        | some a =>
          cases hbb : argB st n.args 1 with
          | none => simp [ha, hbb] at hb
          | some b' =>
            simp only [ha, hbb, Option.some.injEq] at hb
            subst hb
            obtain ⟨qa, e1, -⟩ := argB_rel hinv ha
            obtain ⟨qb, e2, -⟩ := argB_rel hinv hbb
            simp only [e1, e2, Option.bind_eq_bind, Option.bind_some]
            exact ⟨_, rfl, BRel.plain (q2b_le _) (clamp_ge f 0)⟩)
    | (cases hb)

end FAVerif.Ovf

namespace FAVerif.Ovf
open FAVerif.IR FAVerif.FP FAVerif.FPQ FAVerif.SoftRound FAVerif.Refine

variable {f : Fmt}

lemma binv_push {st : List B} {envQ : List ℚ} (hinv : BInv f st envQ) {b : B} {q : ℚ} (h : BRel f b q) :
    BInv f (st ++ [b]) (envQ ++ [q]) := by
  refine ⟨by simp [hinv.len], ?_⟩
  intro i b' hb'
  by_cases hi : i < st.length
  · rw [List.getElem?_append_left hi] at hb'
    obtain ⟨q0, e1, r⟩ := hinv.rel i b' hb'
    have hi2 : i < envQ.length := by rw [← hinv.len]; exact hi
    exact ⟨q0, by rw [List.getElem?_append_left hi2]; exact e1, r⟩
  · have hge : st.length ≤ i := by omega
    rw [List.getElem?_append_right hge] at hb'
    have hi0 : i - st.length = 0 := by
      by_contra hne
      have : 1 ≤ i - st.length := by omega
      rw [List.getElem?_eq_none (by simpa using this)] at hb'; cases hb'
    rw [hi0] at hb'
    simp only [List.getElem?_cons_zero, Option.some.injEq] at hb'
    subst hb'
    have hiq : i = envQ.length := by have := hinv.len; omega
    exact ⟨q, by rw [hiq]; simp, h⟩

/-- the analyser is sound on node lists: the ℚ-run is defined and within the computed bounds -/
theorem boundsOf_sound (hf : WF f) {r : ℚ → ℚ} (hr : IsRN (qf f hf.hp) r) (E : List Int) (EL : List (Option Int)) (insQ : List ℚ)
    (hE : ∀ (i : Nat) (k : Int), E[i]? = some k → ∃ q, insQ[i]? = some q ∧ |q| ≤ 2 ^ k)
    (hEL : ∀ (i : Nat) (k : Int), EL[i]? = some (some k) → ∀ q, insQ[i]? = some q → (2 : ℚ) ^ k ≤ |q|) :
    ∀ (nodes : List Node) (st stF : List B) (envQ : List ℚ), BInv f st envQ → boundsOfL f E EL nodes st = some stF →
      ∃ envQF, evalNodesQ f r insQ nodes envQ = some envQF ∧ BInv f stF envQF := by
  intro nodes
  induction nodes with
  | nil =>
    intro st stF envQ hinv h
    simp only [boundsOfL, Option.some.injEq] at h
    subst h
    exact ⟨envQ, rfl, hinv⟩
  | cons n ns ih =>
    intro st stF envQ hinv h
    simp only [boundsOfL, Option.bind_eq_bind] at h
    cases hb : stepB f E EL st n with
    | none => simp [hb] at h
    | some b =>
      simp only [hb, Option.bind_some] at h
      obtain ⟨q, hq, hr1⟩ := stepB_sound hf hr E EL insQ hE hEL st envQ hinv n b hb
      obtain ⟨envQF, h1, h2⟩ := ih _ _ _ (binv_push hinv hr1) h
      exact ⟨envQF, by simp only [evalNodesQ, hq, Option.bind_eq_bind, Option.bind_some]; exact h1, h2⟩

lemma stepB_no_sqrt {E : List Int} {EL : List (Option Int)} {st : List B} {n : Node} {b : B} (h : stepB f E EL st n = some b) : n.op ≠ .sqrt := by
  intro hop; unfold stepB at h; simp [hop] at h

/-- on programs the analyser accepts (no sqrt), the evaluator with a square-root oracle is the plain one -/
lemma evalNodesQS_eq_of_bounds (r S : ℚ → ℚ) (E : List Int) (EL : List (Option Int)) (insQ : List ℚ) :
    ∀ (nodes : List Node) (st stF : List B) (envQ : List ℚ), boundsOfL f E EL nodes st = some stF →
      (evalNodesQ f r insQ nodes envQ).isSome → evalNodesQS f r S insQ nodes envQ = evalNodesQ f r insQ nodes envQ := by
  intro nodes
  induction nodes with
  | nil => intro st stF envQ _ _; rfl
  | cons n ns ih =>
    intro st stF envQ h hsome
    simp only [boundsOfL, Option.bind_eq_bind] at h
    cases hb : stepB f E EL st n with
    | none => simp [hb] at h
    | some b =>
      simp only [hb, Option.bind_some] at h
      simp only [evalNodesQS, evalNodesQ, evalNodeQS_of_ne _ _ _ _ _ (stepB_no_sqrt hb), Option.bind_eq_bind]
      cases hq : evalNodeQ f r insQ envQ n with
      | none => rfl
      | some q =>
        simp only [Option.bind_some]
        apply ih _ _ _ h
        simpa [evalNodesQ, hq] using hsome

lemma pow_kmax_le_Lmax (f : Fmt) (hf : WF f) : (2 : ℚ) ^ kmax f ≤ Lmax f := by
  unfold kmax Lmax
  have hp := hf.hp
  rw [show f.emaxUlp + (f.p : ℤ) - 1 = ((f.p - 1 : ℕ) : ℤ) + f.emaxUlp by omega, zpow_add₀ (by norm_num : (2 : ℚ) ≠ 0), zpow_natCast]
  apply mul_le_mul_of_nonneg_right _ (by positivity)
  have h1 : (2 : ℚ) ^ f.p = 2 * 2 ^ (f.p - 1) := by
    rw [show f.p = (f.p - 1) + 1 by omega, pow_succ]; simp; ring
  have h2 : (1 : ℚ) ≤ 2 ^ (f.p - 1) := one_le_pow₀ (by norm_num)
  linarith

/-- **Unconditional refinement from the overflow analysis.**  If the analyser accepts the program for the input exponents
`E` (a decidable check), then for all finite input patterns whose values are within 2^E the bit-exact run exists, every
float node is finite, the ℚ-run (round-to-nearest-even, unbounded exponent range) exists, and the two are related node by
node. -/
theorem overflow_free_refinesL (hf : WF f) (hL : 4 ≤ Lmax f) (nodes : List Node) (kinds : List Bool) (hk : kindsOfS nodes [] = some kinds)
    (E : List Int) (EL : List (Option Int)) (hchk : overflowFreeL f E EL nodes = true)
    (lib : Libm) (ins : List Nat) (insQ : List ℚ) (hins : InsRel f ins insQ)
    (hE : ∀ (i : Nat) (k : Int), E[i]? = some k → ∃ q, insQ[i]? = some q ∧ |q| ≤ 2 ^ k)
    (hEL : ∀ (i : Nat) (k : Int), EL[i]? = some (some k) → ∀ q, insQ[i]? = some q → (2 : ℚ) ^ k ≤ |q|) :
    ∃ (env : Array Nat) (envQ : List ℚ), evalNodes f lib ins nodes #[] = some env ∧
      evalNodesQ f (rne (qf f hf.hp)) insQ nodes [] = some envQ ∧ Inv f kinds env envQ ∧
      (∀ (i : Nat) (v : Nat), env[i]? = some v → kinds[i]? = some false → isFiniteBits f v = true) := by
  unfold overflowFreeL at hchk
  cases hb : boundsOfL f E EL nodes [] with
  | none => simp [hb] at hchk
  | some st =>
    simp only [hb, List.all_eq_true] at hchk
    have hb0 : BInv f [] [] := ⟨rfl, fun i b h => by simp at h⟩
    obtain ⟨envQ, hq, hbinv⟩ := boundsOf_sound hf (isRN_rne (qf f hf.hp)) E EL insQ hE hEL nodes [] st [] hb0 hb
    have hS0 : ∀ S0 : ℚ → ℚ, evalNodesQS f (rne (qf f hf.hp)) (Ssoft f S0) insQ nodes [] = some envQ := by
      intro S0
      rw [evalNodesQS_eq_of_bounds _ _ E EL insQ nodes [] st [] hb (by rw [hq]; rfl), hq]
    have hbd : ∀ (i : Nat) (q : ℚ), envQ[i]? = some q → kinds[i]? = some false → |q| ≤ Lmax f := by
      intro i q hi _
      have hlt : i < st.length := by
        rw [hbinv.len]
        by_contra hc; push Not at hc
        rw [List.getElem?_eq_none hc] at hi; cases hi
      obtain ⟨q', e1, rq⟩ := hbinv.rel i st[i] (List.getElem?_eq_getElem hlt)
      have h1 := rq.hi; have hfin1 := rq.fin
      rw [hi] at e1; cases e1
      have h2 := hchk st[i] (List.getElem_mem hlt)
      rcases Bool.or_eq_true _ _ |>.mp h2 with hf1 | hf2
      · exact hfin1 hf1
      · have h3 : st[i].hi ≤ kmax f := by simpa using hf2
        calc |q| ≤ 2 ^ st[i].hi := h1
          _ ≤ 2 ^ kmax f := zpow_le_zpow_right₀ (by norm_num) h3
          _ ≤ Lmax f := pow_kmax_le_Lmax f hf
    have hinv0 : Inv f [] #[] [] := ⟨rfl, rfl, fun i k hk => by simp at hk⟩
    obtain ⟨env, he, hinv⟩ := fwdS hf hL (fun t => t) lib ins insQ hins nodes [] kinds #[] [] envQ hinv0 hk (hS0 _) hbd
    exact ⟨env, envQ, he, hq, hinv, inv_finite hinv⟩

lemma hEL_nil {insQ : List ℚ} : ∀ (i : Nat) (k : Int), ([] : List (Option Int))[i]? = some (some k) → ∀ q, insQ[i]? = some q → (2 : ℚ) ^ k ≤ |q| := by
  intro i k h; simp at h

theorem overflow_free_refines (hf : WF f) (hL : 4 ≤ Lmax f) (nodes : List Node) (kinds : List Bool) (hk : kindsOfS nodes [] = some kinds)
    (E : List Int) (hchk : overflowFree f E nodes = true)
    (lib : Libm) (ins : List Nat) (insQ : List ℚ) (hins : InsRel f ins insQ)
    (hE : ∀ (i : Nat) (k : Int), E[i]? = some k → ∃ q, insQ[i]? = some q ∧ |q| ≤ 2 ^ k) :
    ∃ (env : Array Nat) (envQ : List ℚ), evalNodes f lib ins nodes #[] = some env ∧
      evalNodesQ f (rne (qf f hf.hp)) insQ nodes [] = some envQ ∧ Inv f kinds env envQ ∧
      (∀ (i : Nat) (v : Nat), env[i]? = some v → kinds[i]? = some false → isFiniteBits f v = true) :=
  overflow_free_refinesL hf hL nodes kinds hk E [] hchk lib ins insQ hins hE hEL_nil

end FAVerif.Ovf

namespace FAVerif.Ovf
open FAVerif.IR FAVerif.FP FAVerif.FPQ FAVerif.SoftRound FAVerif.Refine

lemma mapM_rel_rev {f : Fmt} {kinds : List Bool} {env : Array Nat} {envQ : List ℚ} (hinv : Inv f kinds env envQ) :
    ∀ (outs : List Nat) (qs : List ℚ), outs.mapM (fun k => envQ[k]?) = some qs →
      ∃ vs, outs.mapM (fun k => env[k]?) = some vs ∧
        List.Forall₂ (fun (kv : Nat × Nat) (q : ℚ) => ∃ k, kinds[kv.1]? = some k ∧ Rv f k kv.2 q) (outs.zip vs) qs := by
  intro outs
  induction outs with
  | nil => intro qs h; simp at h; subst h; exact ⟨[], by simp, by simp⟩
  | cons j js ih =>
    intro qs h
    simp only [List.mapM_cons, Option.bind_eq_bind] at h
    cases hv : envQ[j]? with
    | none => simp [hv] at h
    | some q =>
      cases hr : js.mapM (fun k => envQ[k]?) with
      | none => simp [hv, hr] at h
      | some r =>
        simp [hv, hr] at h
        subst h
        obtain ⟨vs, hvs, hall⟩ := ih r hr
        have hj : j < envQ.length := by
          by_contra hc; push Not at hc
          rw [List.getElem?_eq_none hc] at hv; cases hv
        have hjk : j < kinds.length := by rw [hinv.len1, ← hinv.len2]; exact hj
        obtain ⟨v0, q0, e1, e2, rr⟩ := hinv.rel j kinds[j] (List.getElem?_eq_getElem hjk)
        rw [hv] at e2; cases e2
        refine ⟨v0 :: vs, ?_, ?_⟩
        · simp only [List.mapM_cons, e1, hvs, Option.bind_eq_bind, Option.bind_some]; rfl
        · simp only [List.zip_cons_cons]
          exact List.Forall₂.cons ⟨kinds[j], List.getElem?_eq_getElem hjk, rr⟩ hall

/-- **Unconditional run of a program the analyser accepts**: the bit-exact run exists, is finite everywhere, and its
outputs denote the outputs of the ℚ-run. -/
theorem total_runL (p : Prog) (hf : WF p.fmt) (hL : 4 ≤ Lmax p.fmt) (kinds : List Bool) (hk : kindsOfS p.nodes [] = some kinds)
    (E : List Int) (EL : List (Option Int)) (hchk : overflowFreeL p.fmt E EL p.nodes = true)
    (lib : Libm) (ins : List Nat) (insQ : List ℚ) (hins : InsRel p.fmt ins insQ)
    (hE : ∀ (i : Nat) (k : Int), E[i]? = some k → ∃ q, insQ[i]? = some q ∧ |q| ≤ 2 ^ k)
    (hEL : ∀ (i : Nat) (k : Int), EL[i]? = some (some k) → ∀ q, insQ[i]? = some q → (2 : ℚ) ^ k ≤ |q|)
    (qs : List ℚ) (hq : p.evalQ (rne (qf p.fmt hf.hp)) insQ = some qs) :
    ∃ (env : Array Nat) (outs : List Nat), evalNodes p.fmt lib ins p.nodes #[] = some env ∧ p.eval lib ins = some outs ∧
      (∀ (i : Nat) (v : Nat), env[i]? = some v → kinds[i]? = some false → isFiniteBits p.fmt v = true) ∧
      List.Forall₂ (fun (kv : Nat × Nat) (q : ℚ) => ∃ k, kinds[kv.1]? = some k ∧ Rv p.fmt k kv.2 q) (p.outs.zip outs) qs := by
  obtain ⟨env, envQ, he, hq', hinv, hfin⟩ := overflow_free_refinesL hf hL p.nodes kinds hk E EL hchk lib ins insQ hins hE hEL
  unfold Prog.evalQ evalQ at hq
  simp only [hq', Option.bind_eq_bind, Option.bind_some] at hq
  obtain ⟨vs, hvs, hall⟩ := mapM_rel_rev hinv p.outs qs hq
  refine ⟨env, vs, he, ?_, hfin, hall⟩
  unfold Prog.eval
  simp only [he, Option.bind_eq_bind, Option.bind_some]
  exact hvs

theorem total_run (p : Prog) (hf : WF p.fmt) (hL : 4 ≤ Lmax p.fmt) (kinds : List Bool) (hk : kindsOfS p.nodes [] = some kinds)
    (E : List Int) (hchk : overflowFree p.fmt E p.nodes = true)
    (lib : Libm) (ins : List Nat) (insQ : List ℚ) (hins : InsRel p.fmt ins insQ)
    (hE : ∀ (i : Nat) (k : Int), E[i]? = some k → ∃ q, insQ[i]? = some q ∧ |q| ≤ 2 ^ k)
    (qs : List ℚ) (hq : p.evalQ (rne (qf p.fmt hf.hp)) insQ = some qs) :
    ∃ (env : Array Nat) (outs : List Nat), evalNodes p.fmt lib ins p.nodes #[] = some env ∧ p.eval lib ins = some outs ∧
      (∀ (i : Nat) (v : Nat), env[i]? = some v → kinds[i]? = some false → isFiniteBits p.fmt v = true) ∧
      List.Forall₂ (fun (kv : Nat × Nat) (q : ℚ) => ∃ k, kinds[kv.1]? = some k ∧ Rv p.fmt k kv.2 q) (p.outs.zip outs) qs :=
  total_runL p hf hL kinds hk E [] hchk lib ins insQ hins hE hEL_nil qs hq

lemma hEL_two {a b : Int} {qx qy : ℚ} (hx : (2 : ℚ) ^ a ≤ |qx|) (hy : (2 : ℚ) ^ b ≤ |qy|) :
    ∀ (i : Nat) (k : Int), [some a, some b][i]? = some (some k) → ∀ q, [qx, qy][i]? = some q → (2 : ℚ) ^ k ≤ |q| := by
  intro i k h q hq
  match i with
  | 0 => simp at h hq; subst h; subst hq; exact hx
  | 1 => simp at h hq; subst h; subst hq; exact hy
  | (j + 2) => simp at h

lemma hEL_one {a : Int} {qx : ℚ} (hx : (2 : ℚ) ^ a ≤ |qx|) :
    ∀ (i : Nat) (k : Int), [some a][i]? = some (some k) → ∀ q, [qx][i]? = some q → (2 : ℚ) ^ k ≤ |q| := by
  intro i k h q hq
  match i with
  | 0 => simp at h hq; subst h; subst hq; exact hx
  | (j + 1) => simp at h

lemma hE_two {a b : Int} {qx qy : ℚ} (hx : |qx| ≤ 2 ^ a) (hy : |qy| ≤ 2 ^ b) :
    ∀ (i : Nat) (k : Int), [a, b][i]? = some k → ∃ q, [qx, qy][i]? = some q ∧ |q| ≤ 2 ^ k := by
  intro i k h
  match i with
  | 0 => simp at h; subst h; exact ⟨qx, rfl, hx⟩
  | 1 => simp at h; subst h; exact ⟨qy, rfl, hy⟩
  | (j + 2) => simp at h

lemma hE_one {a : Int} {qx : ℚ} (hx : |qx| ≤ 2 ^ a) :
    ∀ (i : Nat) (k : Int), [a][i]? = some k → ∃ q, [qx][i]? = some q ∧ |q| ≤ 2 ^ k := by
  intro i k h
  match i with
  | 0 => simp at h; subst h; exact ⟨qx, rfl, hx⟩
  | (j + 1) => simp at h

end FAVerif.Ovf

namespace FAVerif.Ovf
open FAVerif.IR FAVerif.FP FAVerif.FPQ FAVerif.SoftRound FAVerif.Refine

/-- two float outputs of an accepted program -/
theorem total2L (p : Prog) (hf : WF p.fmt) (hL : 4 ≤ Lmax p.fmt) (kinds : List Bool) (hk : kindsOfS p.nodes [] = some kinds)
    (hko : ∀ o ∈ p.outs, kinds[o]? = some false)
    (E : List Int) (EL : List (Option Int)) (hchk : overflowFreeL p.fmt E EL p.nodes = true)
    (lib : Libm) (ins : List Nat) (insQ : List ℚ) (hins : InsRel p.fmt ins insQ)
    (hE : ∀ (i : Nat) (k : Int), E[i]? = some k → ∃ q, insQ[i]? = some q ∧ |q| ≤ 2 ^ k)
    (hEL : ∀ (i : Nat) (k : Int), EL[i]? = some (some k) → ∀ q, insQ[i]? = some q → (2 : ℚ) ^ k ≤ |q|)
    (a b : ℚ) (hq : p.evalQ (rne (qf p.fmt hf.hp)) insQ = some [a, b]) :
    ∃ h l : Nat, p.eval lib ins = some [h, l] ∧ isFiniteBits p.fmt h = true ∧ isFiniteBits p.fmt l = true ∧
      toQ p.fmt h = some a ∧ toQ p.fmt l = some b := by
  obtain ⟨env, outs, he, ho, hfin, hall⟩ := total_runL p hf hL kinds hk E EL hchk lib ins insQ hins hE hEL [a, b] hq
  have hlen : p.outs.length = 2 := by
    unfold Prog.evalQ evalQ at hq
    cases hq' : evalNodesQ p.fmt (rne (qf p.fmt hf.hp)) insQ p.nodes [] with
    | none => simp [hq'] at hq
    | some envQ =>
      simp only [hq', Option.bind_eq_bind, Option.bind_some] at hq
      have : ∀ (l : List Nat) (r : List ℚ), l.mapM (fun k => envQ[k]?) = some r → l.length = r.length := by
        intro l
        induction l with
        | nil => intro r h; simp at h; subst h; rfl
        | cons k ks ih =>
          intro r h
          simp only [List.mapM_cons, Option.bind_eq_bind] at h
          cases hk : envQ[k]? with
          | none => simp [hk] at h
          | some w =>
            cases hr : ks.mapM (fun k => envQ[k]?) with
            | none => simp [hk, hr] at h
            | some r0 => simp [hk, hr] at h; subst h; simp [ih r0 hr]
      simpa using this p.outs [a, b] hq
  match hpo : p.outs, hlen with
  | [o1, o2], _ =>
    rw [hpo] at hall hko
    have hol : outs.length = 2 := by
      have h1 := ho
      unfold Prog.eval at h1
      simp only [he, Option.bind_eq_bind, Option.bind_some, hpo] at h1
      have := mapM_length [o1, o2] outs h1
      simpa using this.symm
    match outs, hol with
    | [h, l], _ =>
      simp only [List.zip_cons_cons, List.zip_nil_right] at hall
      cases hall with
      | cons r1 rest =>
        cases rest with
        | cons r2 _ =>
          obtain ⟨k1, hk1, rv1⟩ := r1
          obtain ⟨k2, hk2, rv2⟩ := r2
          rw [hko o1 (by simp)] at hk1; rw [hko o2 (by simp)] at hk2
          cases hk1; cases hk2
          exact ⟨h, l, ho, (rv_float rv1).1, (rv_float rv2).1, (rv_float rv1).2, (rv_float rv2).2⟩

theorem total2 (p : Prog) (hf : WF p.fmt) (hL : 4 ≤ Lmax p.fmt) (kinds : List Bool) (hk : kindsOfS p.nodes [] = some kinds)
    (hko : ∀ o ∈ p.outs, kinds[o]? = some false)
    (E : List Int) (hchk : overflowFree p.fmt E p.nodes = true)
    (lib : Libm) (ins : List Nat) (insQ : List ℚ) (hins : InsRel p.fmt ins insQ)
    (hE : ∀ (i : Nat) (k : Int), E[i]? = some k → ∃ q, insQ[i]? = some q ∧ |q| ≤ 2 ^ k)
    (a b : ℚ) (hq : p.evalQ (rne (qf p.fmt hf.hp)) insQ = some [a, b]) :
    ∃ h l : Nat, p.eval lib ins = some [h, l] ∧ isFiniteBits p.fmt h = true ∧ isFiniteBits p.fmt l = true ∧
      toQ p.fmt h = some a ∧ toQ p.fmt l = some b :=
  total2L p hf hL kinds hk hko E [] hchk lib ins insQ hins hE hEL_nil a b hq

/-- one float output of an accepted program -/
theorem total1 (p : Prog) (hf : WF p.fmt) (hL : 4 ≤ Lmax p.fmt) (kinds : List Bool) (hk : kindsOfS p.nodes [] = some kinds)
    (o : Nat) (hpo : p.outs = [o]) (hko : kinds[o]? = some false)
    (E : List Int) (hchk : overflowFree p.fmt E p.nodes = true)
    (lib : Libm) (ins : List Nat) (insQ : List ℚ) (hins : InsRel p.fmt ins insQ)
    (hE : ∀ (i : Nat) (k : Int), E[i]? = some k → ∃ q, insQ[i]? = some q ∧ |q| ≤ 2 ^ k)
    (a : ℚ) (hq : p.evalQ (rne (qf p.fmt hf.hp)) insQ = some [a]) :
    ∃ h : Nat, p.eval lib ins = some [h] ∧ isFiniteBits p.fmt h = true ∧ toQ p.fmt h = some a := by
  obtain ⟨env, outs, he, ho, hfin, hall⟩ := total_run p hf hL kinds hk E hchk lib ins insQ hins hE [a] hq
  rw [hpo] at hall
  have hol : outs.length = 1 := by
    have h1 := ho
    unfold Prog.eval at h1
    simp only [he, Option.bind_eq_bind, Option.bind_some, hpo] at h1
    have := mapM_length [o] outs h1
    simpa using this.symm
  match outs, hol with
  | [h], _ =>
    simp only [List.zip_cons_cons, List.zip_nil_right] at hall
    cases hall with
    | cons r1 _ =>
      obtain ⟨k1, hk1, rv1⟩ := r1
      rw [hko] at hk1; cases hk1
      exact ⟨h, ho, (rv_float rv1).1, (rv_float rv1).2⟩

end FAVerif.Ovf

namespace FAVerif.Ovf
open FAVerif.IR FAVerif.FP FAVerif.FPQ FAVerif.SoftRound FAVerif.Refine

lemma hEL_two' {a b : Option Int} {qx qy : ℚ} (hx : ∀ k, a = some k → (2 : ℚ) ^ k ≤ |qx|) (hy : ∀ k, b = some k → (2 : ℚ) ^ k ≤ |qy|) :
    ∀ (i : Nat) (k : Int), [a, b][i]? = some (some k) → ∀ q, [qx, qy][i]? = some q → (2 : ℚ) ^ k ≤ |q| := by
  intro i k h q hq
  match i with
  | 0 => simp at h hq; subst hq; exact hx k h
  | 1 => simp at h hq; subst hq; exact hy k h
  | (j + 2) => simp at h

lemma hEL_one' {a : Option Int} {qx : ℚ} (hx : ∀ k, a = some k → (2 : ℚ) ^ k ≤ |qx|) :
    ∀ (i : Nat) (k : Int), [a][i]? = some (some k) → ∀ q, [qx][i]? = some q → (2 : ℚ) ^ k ≤ |q| := by
  intro i k h q hq
  match i with
  | 0 => simp at h hq; subst hq; exact hx k h
  | (j + 1) => simp at h

/-- two operands, two float outputs, the clamp/scale idiom: the four boxes (|v| ≤ 1 or 1 ≤ |v| ≤ 2^K per operand) cover
every pair with |x|, |y| ≤ 2^K (K ≥ 0) -/
theorem total2_boxes (p : Prog) (hf : WF p.fmt) (hL : 4 ≤ Lmax p.fmt) (kinds : List Bool) (hk : kindsOfS p.nodes [] = some kinds)
    (hko : ∀ o ∈ p.outs, kinds[o]? = some false) (K : Int)
    (c00 : overflowFreeL p.fmt [0, 0] [none, none] p.nodes = true) (c10 : overflowFreeL p.fmt [K, 0] [some 0, none] p.nodes = true)
    (c01 : overflowFreeL p.fmt [0, K] [none, some 0] p.nodes = true) (c11 : overflowFreeL p.fmt [K, K] [some 0, some 0] p.nodes = true)
    (lib : Libm) (x y : Nat) (qx qy : ℚ) (hins : InsRel p.fmt [x, y] [qx, qy]) (bx : |qx| ≤ 2 ^ K) (bY : |qy| ≤ 2 ^ K)
    (a b : ℚ) (hq : p.evalQ (rne (qf p.fmt hf.hp)) [qx, qy] = some [a, b]) :
    ∃ h l : Nat, p.eval lib [x, y] = some [h, l] ∧ isFiniteBits p.fmt h = true ∧ isFiniteBits p.fmt l = true ∧
      toQ p.fmt h = some a ∧ toQ p.fmt l = some b := by
  have one : ((2 : ℚ) ^ (0 : ℤ)) = 1 := by norm_num
  by_cases hx1 : |qx| ≤ 1 <;> by_cases hy1 : |qy| ≤ 1
  · exact total2L p hf hL kinds hk hko [0, 0] [none, none] c00 lib [x, y] [qx, qy] hins (hE_two (by rw [one]; exact hx1) (by rw [one]; exact hy1))
      (hEL_two' (fun k h => by cases h) (fun k h => by cases h)) a b hq
  · exact total2L p hf hL kinds hk hko [0, K] [none, some 0] c01 lib [x, y] [qx, qy] hins (hE_two (by rw [one]; exact hx1) bY)
      (hEL_two' (fun k h => by cases h) (fun k h => by cases h; rw [one]; exact (not_le.mp hy1).le)) a b hq
  · exact total2L p hf hL kinds hk hko [K, 0] [some 0, none] c10 lib [x, y] [qx, qy] hins (hE_two bx (by rw [one]; exact hy1))
      (hEL_two' (fun k h => by cases h; rw [one]; exact (not_le.mp hx1).le) (fun k h => by cases h)) a b hq
  · exact total2L p hf hL kinds hk hko [K, K] [some 0, some 0] c11 lib [x, y] [qx, qy] hins (hE_two bx bY)
      (hEL_two' (fun k h => by cases h; rw [one]; exact (not_le.mp hx1).le) (fun k h => by cases h; rw [one]; exact (not_le.mp hy1).le)) a b hq

/-- one operand, two float outputs -/
theorem total2_boxes1 (p : Prog) (hf : WF p.fmt) (hL : 4 ≤ Lmax p.fmt) (kinds : List Bool) (hk : kindsOfS p.nodes [] = some kinds)
    (hko : ∀ o ∈ p.outs, kinds[o]? = some false) (K : Int)
    (c0 : overflowFreeL p.fmt [0] [none] p.nodes = true) (c1 : overflowFreeL p.fmt [K] [some 0] p.nodes = true)
    (lib : Libm) (x : Nat) (qx : ℚ) (hins : InsRel p.fmt [x] [qx]) (bx : |qx| ≤ 2 ^ K)
    (a b : ℚ) (hq : p.evalQ (rne (qf p.fmt hf.hp)) [qx] = some [a, b]) :
    ∃ h l : Nat, p.eval lib [x] = some [h, l] ∧ isFiniteBits p.fmt h = true ∧ isFiniteBits p.fmt l = true ∧
      toQ p.fmt h = some a ∧ toQ p.fmt l = some b := by
  have one : ((2 : ℚ) ^ (0 : ℤ)) = 1 := by norm_num
  by_cases hx1 : |qx| ≤ 1
  · exact total2L p hf hL kinds hk hko [0] [none] c0 lib [x] [qx] hins (hE_one (by rw [one]; exact hx1))
      (hEL_one' (fun k h => by cases h)) a b hq
  · exact total2L p hf hL kinds hk hko [K] [some 0] c1 lib [x] [qx] hins (hE_one bx)
      (hEL_one' (fun k h => by cases h; rw [one]; exact (not_le.mp hx1).le)) a b hq

end FAVerif.Ovf
