/-
Division of the softfloat is correctly rounded: the sticky-bit path of `roundCore`.
For a positive real x with m·2^e < x < (m+1)·2^e and m of at least p+2 bits, `roundCore f m e true`
is the round-to-nearest-even of x; `FP.div` feeds it the truncated quotient and the remainder flag.
-/
import FAVerif.Lemmas.SoftOps

namespace FAVerif.SoftRound
open FAVerif.FP FAVerif.FPQ

/-- sticky rounding of (m + σ)/2^k, 0 < σ < 1, k ≥ 1: the decision never sees a tie -/
lemma rne_div_sticky (m k : Nat) (hk : 0 < k) (σ : ℚ) (h0 : 0 < σ) (h1 : σ < 1) :
    let q0 := m / 2 ^ k
    let rem := m % 2 ^ k
    let half := 2 ^ (k - 1)
    let up : Bool := if rem > half then true else if rem = half then (true || q0 % 2 = 1) else false
    let n : Nat := if up then q0 + 1 else q0
    |((n : ℤ) : ℚ) - ((m : ℚ) + σ) / 2 ^ k| < 1 / 2 := by
  intro q0 rem half up n
  have hpow : (2 : ℕ) ^ k = 2 * 2 ^ (k - 1) := by
    obtain ⟨j, rfl⟩ : ∃ j, k = j + 1 := ⟨k - 1, by omega⟩
    simp [pow_succ]; ring
  have hdm : m = q0 * 2 ^ k + rem := by
    have := Nat.div_add_mod m (2 ^ k); simp only [q0, rem]; linarith [Nat.mul_comm (2 ^ k) (m / 2 ^ k)]
  have hrem : rem < 2 ^ k := Nat.mod_lt _ (by positivity)
  have hK : (0 : ℚ) < 2 ^ k := by positivity
  have hKq : ((2 : ℚ) ^ k) = 2 * (half : ℚ) := by
    have : ((2 ^ k : ℕ) : ℚ) = ((2 * 2 ^ (k - 1) : ℕ) : ℚ) := by rw [hpow]
    push_cast at this; simpa [half] using this
  have ht : ((m : ℚ) + σ) / 2 ^ k = (q0 : ℚ) + ((rem : ℚ) + σ) / 2 ^ k := by
    rw [hdm]; push_cast; field_simp; ring
  have hremq : (rem : ℚ) + 1 ≤ 2 ^ k := by exact_mod_cast hrem
  have hr0 : (0 : ℚ) ≤ rem := by positivity
  have hhalfpos : (0 : ℚ) < half := by simp only [half]; positivity
  have hfr_lt1 : ((rem : ℚ) + σ) / 2 ^ k < 1 := by rw [div_lt_one hK]; linarith
  have hfr_pos : 0 < ((rem : ℚ) + σ) / 2 ^ k := by positivity
  rcases Nat.lt_or_ge rem half with hlt | hge
  · have hup : up = false := by simp only [up]; rw [if_neg (by omega), if_neg (by omega)]
    have hn : n = q0 := by simp only [n, hup]; rfl
    have hfrac : ((rem : ℚ) + σ) / 2 ^ k < 1 / 2 := by
      rw [div_lt_iff₀ hK, hKq]
      have : (rem : ℚ) + 1 ≤ half := by exact_mod_cast hlt
      linarith
    rw [hn, ht, abs_of_nonpos (by push_cast; linarith)]; push_cast; linarith
  · have hup : up = true := by
      simp only [up]
      rcases Nat.lt_or_ge half rem with h | h
      · rw [if_pos h]
      · have : rem = half := by omega
        rw [if_neg (by omega), if_pos this]; simp
    have hn : n = q0 + 1 := by simp only [n, hup]; rfl
    have hfrac : 1 / 2 < ((rem : ℚ) + σ) / 2 ^ k := by
      rw [lt_div_iff₀ hK, hKq]
      have : (half : ℚ) ≤ rem := by exact_mod_cast hge
      linarith
    rw [hn, ht]; push_cast; rw [abs_of_nonneg (by linarith)]; linarith

/-- **sticky path**: `roundCore f m e true` is the RNE of any x strictly between m·2^e and (m+1)·2^e,
provided m has at least p + 2 bits. -/
theorem roundCore_isRNE_sticky (f : Fmt) (hp : 2 ≤ f.p) (m : Nat) (e : Int) (hlen : f.p + 2 ≤ bitLen m)
    (x : ℚ) (hx1 : (m : ℚ) * 2 ^ e < x) (hx2 : x < ((m : ℚ) + 1) * 2 ^ e) :
    IsRNE (qf f hp) x ((roundCore f m e true).1 : ℤ) (roundCore f m e true).2 := by
  have hm : 0 < m := by
    by_contra h0; have : m = 0 := by omega
    subst this; simp [bitLen] at hlen
  obtain ⟨hl1, hl2, hl3⟩ := bitLen_bounds hm
  set l := bitLen m with hl
  set et : Int := max (e + (l : Int) - (f.p : Int)) f.emin with het
  have hu := zpow_two_pos et
  have hue := zpow_two_pos e
  have hmq1 : (2 : ℚ) ^ ((l : ℤ) - 1) ≤ m := by
    have : ((2 ^ (l - 1) : ℕ) : ℚ) ≤ m := by exact_mod_cast hl1
    rw [show ((l : ℤ) - 1) = ((l - 1 : ℕ) : ℤ) by omega, zpow_natCast]; exact_mod_cast this
  have hmq2 : (m : ℚ) + 1 ≤ 2 ^ (l : ℤ) := by
    rw [zpow_natCast]; exact_mod_cast hl2
  have hemin : f.emin ≤ et := le_max_right _ _
  have hsh : 2 ≤ et - e := by have := le_max_left (e + (l : Int) - (f.p : Int)) f.emin; omega
  have htop : x < 2 ^ f.p * 2 ^ et := by
    have h1 : (l : ℤ) + e ≤ (f.p : ℤ) + et := by have := le_max_left (e + (l : Int) - (f.p : Int)) f.emin; omega
    calc x < ((m : ℚ) + 1) * 2 ^ e := hx2
      _ ≤ 2 ^ (l : ℤ) * 2 ^ e := mul_le_mul_of_nonneg_right hmq2 hue.le
      _ = 2 ^ ((l : ℤ) + e) := by rw [zpow_add₀ (by norm_num : (2 : ℚ) ≠ 0)]
      _ ≤ 2 ^ ((f.p : ℤ) + et) := zpow_le_zpow_right₀ (by norm_num) h1
      _ = 2 ^ f.p * 2 ^ et := by rw [zpow_add₀ (by norm_num : (2 : ℚ) ≠ 0), zpow_natCast]
  have hbot : et = f.emin ∨ (2 : ℚ) ^ (f.p - 1) * 2 ^ et ≤ x := by
    rcases le_total (e + (l : Int) - (f.p : Int)) f.emin with h | h
    · left; exact max_eq_right h
    · right
      have hetv : et = e + (l : Int) - (f.p : Int) := max_eq_left h
      have : (2 : ℚ) ^ (f.p - 1) * 2 ^ et = 2 ^ ((l : ℤ) - 1) * 2 ^ e := by
        rw [hetv, ← zpow_natCast, ← zpow_add₀ (by norm_num : (2 : ℚ) ≠ 0), ← zpow_add₀ (by norm_num : (2 : ℚ) ≠ 0)]
        congr 1
        push_cast [Nat.cast_sub (by omega : 1 ≤ f.p)]
        ring
      rw [this]
      exact le_trans (mul_le_mul_of_nonneg_right hmq1 hue.le) hx1.le
  obtain ⟨k, hk⟩ : ∃ k : ℕ, et = e + k := ⟨(et - e).toNat, by omega⟩
  have hkpos : 0 < k := by omega
  have hkn : (et - e).toNat = k := by omega
  have hrc : roundCore f m e true =
      ((if (if m % 2 ^ k > 2 ^ (k - 1) then true else if m % 2 ^ k = 2 ^ (k - 1) then (true || m / 2 ^ k % 2 = 1) else false)
        then m / 2 ^ k + 1 else m / 2 ^ k), et) := by
    have : ¬ (et - e ≤ 0) := by omega
    simp only [roundCore, ← hl, ← het, this, if_false, hkn]
  rw [hrc]
  -- σ := x / 2^e − m ∈ (0, 1)
  set σ : ℚ := x / 2 ^ e - m with hσ
  have hσ0 : 0 < σ := by rw [hσ, sub_pos, lt_div_iff₀ hue]; exact hx1
  have hσ1 : σ < 1 := by rw [hσ, sub_lt_iff_lt_add, div_lt_iff₀ hue]; linarith
  have hxe : x = ((m : ℚ) + σ) * 2 ^ e := by rw [hσ]; field_simp; ring
  have hxt : x = (((m : ℚ) + σ) / 2 ^ k) * 2 ^ et := by
    rw [hxe, hk, zpow_add₀ (by norm_num : (2 : ℚ) ≠ 0), zpow_natCast]; field_simp
  have hstrict := rne_div_sticky m k hkpos σ hσ0 hσ1
  simp only at hstrict
  refine ⟨hemin, htop, hbot, ?_, ?_⟩
  · show |_ * (2 : ℚ) ^ et - x| ≤ 2 ^ et / 2
    rw [hxt, ← sub_mul, abs_mul, abs_of_pos hu]
    nlinarith
  · intro h
    exfalso
    change |_ * (2 : ℚ) ^ et - x| = 2 ^ et / 2 at h
    rw [hxt, ← sub_mul, abs_mul, abs_of_pos hu] at h
    nlinarith

end FAVerif.SoftRound

namespace FAVerif.SoftRound
open FAVerif.FP FAVerif.FPQ

/-- canonical-form facts from the RNE relation alone -/
theorem canon_of_isRNE (f : Fmt) (h : WF f) {x : ℚ} (hx : 0 < x) {n : ℕ} {et : ℤ}
    (hr : IsRNE (qf f h.hp) x (n : ℤ) et) :
    n ≤ 2 ^ f.p ∧ f.emin ≤ et ∧ (n < 2 ^ f.fracBits → et = f.emin) := by
  obtain ⟨hb0, hb1⟩ := hr.bounds hx
  refine ⟨by exact_mod_cast hb1, hr.emin_le, ?_⟩
  intro hlt
  rcases hr.ge_bot with h0 | h0
  · exact h0
  · exfalso
    have hu := zpow_two_pos et
    have hnear := hr.near
    have hq : ((n : ℤ) : ℚ) ≤ 2 ^ (f.p - 1) - 1 := by
      have h1 : n + 1 ≤ 2 ^ f.fracBits := hlt
      have : ((n + 1 : ℕ) : ℚ) ≤ ((2 ^ f.fracBits : ℕ) : ℚ) := by exact_mod_cast h1
      push_cast at this
      simp only [Fmt.fracBits] at this
      push_cast; linarith
    have h0' : (2 : ℚ) ^ (f.p - 1) * 2 ^ et ≤ x := h0
    have := abs_le.1 hnear
    nlinarith

/-- value of `roundFin` from the RNE relation of its core (any sticky flag) -/
theorem roundFin_value_of_isRNE (f : Fmt) (h : WF f) (s : Bool) (m : Nat) (hm : m ≠ 0) (e : Int) (st : Bool)
    {x : ℚ} (hx : 0 < x)
    (hrne : IsRNE (qf f h.hp) x ((roundCore f m e st).1 : ℤ) (roundCore f m e st).2)
    (hfin : isFiniteBits f (roundFin f s m e st) = true) :
    ∃ q et, decode f (roundFin f s m e st) = .fin s q et ∧ (q : ℚ) * 2 ^ et = rne (qf f h.hp) x := by
  obtain ⟨hc1, hc2, hc3⟩ := canon_of_isRNE f h hx hrne
  have hval : (((roundCore f m e st).1 : ℤ) : ℚ) * 2 ^ (roundCore f m e st).2 = rne (qf f h.hp) x := (rne_pos hx hrne).symm
  set r := roundCore f m e st with hr
  have hp := h.hp
  have hfb : f.fracBits + 1 = f.p := by simp [Fmt.fracBits]; omega
  have hpp : (2 : ℕ) ^ f.p = 2 * 2 ^ f.fracBits := by rw [← hfb, pow_succ]; ring
  unfold roundFin at hfin ⊢
  simp only [hm, if_false, ← hr] at hfin ⊢
  by_cases htop : r.1 = 2 ^ f.p
  · simp only [htop, if_true] at hfin ⊢
    have hnsub : ¬ (2 ^ f.fracBits < 2 ^ f.fracBits) := lt_irrefl _
    have hexp : r.2 + 1 - f.emin + 1 < (f.expMax : Int) := by
      by_contra hc
      push Not at hc
      rw [isFinite_packFin_overflow f h s _ _ hnsub hc] at hfin
      exact absurd hfin (by decide)
    have hcan : Canon f (2 ^ f.fracBits) (r.2 + 1) :=
      ⟨by rw [hpp]; have : 0 < 2 ^ f.fracBits := by positivity
          omega, by omega, fun hh => absurd hh hnsub, hexp⟩
    refine ⟨_, _, decode_packFin f h s _ _ hcan, ?_⟩
    have hppq : (2 : ℚ) ^ f.p = 2 * 2 ^ f.fracBits := by exact_mod_cast hpp
    rw [← hval, htop]
    push_cast
    rw [zpow_add₀ (by norm_num : (2 : ℚ) ≠ 0), hppq]; ring
  · simp only [htop, if_false] at hfin ⊢
    have hlt : r.1 < 2 ^ f.p := lt_of_le_of_ne hc1 htop
    have hexp : r.2 - f.emin + 1 < (f.expMax : Int) ∨ r.1 < 2 ^ f.fracBits := by
      by_cases hsub : r.1 < 2 ^ f.fracBits
      · exact Or.inr hsub
      · left
        by_contra hc
        push Not at hc
        rw [isFinite_packFin_overflow f h s _ _ hsub hc] at hfin
        exact absurd hfin (by decide)
    have hx2 : (2 : ℤ) ≤ f.expMax := by
      have : 2 ^ 2 ≤ 2 ^ f.ew := Nat.pow_le_pow_right (by norm_num) h.hew
      have h2 : 2 ^ f.ew - 1 = f.expMax := rfl
      omega
    have hcan : Canon f r.1 r.2 := by
      refine ⟨hlt, hc2, hc3, ?_⟩
      rcases hexp with h1 | h1
      · exact h1
      · rw [hc3 h1]; omega
    refine ⟨_, _, decode_packFin f h s _ _ hcan, ?_⟩
    rw [← hval]; push_cast; ring

/-- **division is correctly rounded**: finite operands, non-zero divisor, finite result ⇒ value = rne (x / y). -/
theorem div_correct (f : Fmt) (h : WF f) (a b : Nat) (s t : Bool) (m n : Nat) (e e' : Int)
    (ha : decode f a = .fin s m e) (hb : decode f b = .fin t n e') (hn : n ≠ 0)
    (hfin : isFiniteBits f (FP.div f a b) = true) :
    toQ f (FP.div f a b) = some (rne (qf f h.hp) (valQ s m e / valQ t n e')) := by
  by_cases hm : m = 0
  · -- 0 / y = signed zero
    have hdiv : FP.div f a b = f.zeroBits (s != t) := by simp [FP.div, ha, hb, hn, hm]
    rw [hdiv]; unfold toQ
    rw [decode_zeroBits f h, toRat_fin]
    simp [valQ, hm, rne_zero]
  · set k := f.p + 2 + bitLen n - bitLen m with hk
    set num := m * 2 ^ k with hnum
    have hdiv : FP.div f a b = roundFin f (s != t) (num / n) (e - e' - (k : Int)) (num % n != 0) := by
      simp [FP.div, ha, hb, hn, hm, ← hk, ← hnum]
    rw [hdiv] at hfin ⊢
    have hmpos : 0 < m := Nat.pos_of_ne_zero hm
    have hnpos : 0 < n := Nat.pos_of_ne_zero hn
    obtain ⟨hm1, hm2, hm3⟩ := bitLen_bounds hmpos
    obtain ⟨hn1, hn2, hn3⟩ := bitLen_bounds hnpos
    -- the quotient has at least p + 2 bits
    have hqbig : 2 ^ (f.p + 1) ≤ num / n := by
      rw [Nat.le_div_iff_mul_le hnpos]
      have hk' : f.p + 2 + bitLen n ≤ bitLen m + k := by omega
      calc 2 ^ (f.p + 1) * n ≤ 2 ^ (f.p + 1) * 2 ^ bitLen n := Nat.mul_le_mul_left _ hn2.le
        _ = 2 ^ (f.p + 1 + bitLen n) := (pow_add 2 (f.p + 1) (bitLen n)).symm
        _ ≤ 2 ^ (bitLen m - 1 + k) := Nat.pow_le_pow_right (by norm_num) (by omega)
        _ = 2 ^ (bitLen m - 1) * 2 ^ k := pow_add 2 (bitLen m - 1) k
        _ ≤ m * 2 ^ k := Nat.mul_le_mul_right _ hm1
    have hqpos : 0 < num / n := lt_of_lt_of_le (by positivity) hqbig
    have hq0 : num / n ≠ 0 := by omega
    have hlen : f.p + 2 ≤ bitLen (num / n) := by
      have : (num / n).log2 ≥ f.p + 1 := (Nat.le_log2 hq0).2 hqbig
      simp only [bitLen, hq0, if_false]; omega
    -- exact value
    have hue := zpow_two_pos (e - e' - (k : Int))
    have hnq : (0 : ℚ) < n := by exact_mod_cast hnpos
    set x : ℚ := ((num : ℚ) / n) * 2 ^ (e - e' - (k : Int)) with hxdef
    have hxpos : 0 < x := by
      have : (0 : ℚ) < num := by simp only [hnum]; positivity
      positivity
    have hquot : valQ s m e / valQ t n e' = (if (s != t) then -1 else 1) * x := by
      have hk2 : (2 : ℚ) ^ (e - e' - (k : Int)) = 2 ^ e / 2 ^ e' / 2 ^ k := by
        rw [zpow_sub₀ (by norm_num : (2 : ℚ) ≠ 0), zpow_sub₀ (by norm_num : (2 : ℚ) ≠ 0), zpow_natCast]
      have hne' := (zpow_two_pos e').ne'
      rw [hxdef, hk2, hnum]
      push_cast
      cases s <;> cases t <;> simp [valQ] <;> field_simp
    have hdm : num = (num / n) * n + num % n := by
      have := Nat.div_add_mod num n; rw [Nat.mul_comm] at this; omega
    have hrem : num % n < n := Nat.mod_lt _ hnpos
    have hrne : IsRNE (qf f h.hp) x ((roundCore f (num / n) (e - e' - k) (num % n != 0)).1 : ℤ)
        (roundCore f (num / n) (e - e' - k) (num % n != 0)).2 := by
      by_cases hr0 : num % n = 0
      · have hst : (num % n != 0) = false := by simp [hr0]
        rw [hst]
        have hx' : x = ((num / n : ℕ) : ℚ) * 2 ^ (e - e' - (k : Int)) := by
          rw [hxdef]; congr 1
          have : (num : ℚ) = ((num / n : ℕ) : ℚ) * n := by
            have := hdm; rw [hr0, Nat.add_zero] at this
            exact_mod_cast this
          rw [this]; field_simp
        rw [hx']
        exact roundCore_isRNE f h.hp (num / n) hqpos _
      · have hst : (num % n != 0) = true := by simp [hr0]
        rw [hst]
        have hnumq : (num : ℚ) = ((num / n : ℕ) : ℚ) * n + ((num % n : ℕ) : ℚ) := by exact_mod_cast hdm
        have hr1 : (0 : ℚ) < ((num % n : ℕ) : ℚ) := by exact_mod_cast Nat.pos_of_ne_zero hr0
        have hr2 : ((num % n : ℕ) : ℚ) < n := by exact_mod_cast hrem
        apply roundCore_isRNE_sticky f h.hp (num / n) _ hlen x
        · rw [hxdef]; apply mul_lt_mul_of_pos_right _ hue
          rw [lt_div_iff₀ hnq, hnumq]; linarith
        · rw [hxdef]; apply mul_lt_mul_of_pos_right _ hue
          rw [div_lt_iff₀ hnq, hnumq]; nlinarith
    obtain ⟨q, et, hdec, hval⟩ := roundFin_value_of_isRNE f h (s != t) (num / n) hq0 _ _ hxpos hrne hfin
    unfold toQ
    rw [hdec, toRat_fin, hquot]
    congr 1
    cases hst : (s != t)
    · simp only [valQ, Bool.false_eq_true, if_false, one_mul]; rw [hval]
    · simp only [valQ, if_true]
      rw [show (-1 : ℚ) * (q : ℚ) * 2 ^ et = -((q : ℚ) * 2 ^ et) by ring, hval,
        show (-1 : ℚ) * x = -x by ring, rne_neg]

end FAVerif.SoftRound
