/-
Flocq-style floating-point theory over ℚ, generic in the format (precision p ≥ 2, gradual
underflow at emin, overflow excluded by hypothesis) and in the rounding function (any
round-to-nearest, ties arbitrary).  Ported from the round-0 spike.

  * add_err_rep     : the rounding error of a sum of two floats is a float
  * fast2sum_z_rep  : core lemma (a multiple of 2^e, |b| < 2^p 2^e ⇒ r(a+b) − a representable)
  * fast2sum_exact  : Fast2Sum is exact when |b| ≤ |a|
  * twosum_exact    : 2Sum (as coded in add_2sum(fast=False)) is exact, no ordering
-/
import Mathlib.Tactic
import Mathlib.Algebra.Order.Field.Power

namespace FAVerif.FPQ
open scoped BigOperators

structure QFmt where
  p : ℕ
  emin : ℤ
  hp : 2 ≤ p

variable (f : QFmt)

def Rep (x : ℚ) : Prop := ∃ m e : ℤ, x = m * (2:ℚ) ^ e ∧ |m| < 2 ^ f.p ∧ f.emin ≤ e
def Mult (e : ℤ) (x : ℚ) : Prop := ∃ k : ℤ, x = k * (2:ℚ) ^ e

structure IsRN (r : ℚ → ℚ) : Prop where
  rep : ∀ x, Rep f (r x)
  near : ∀ x y, Rep f y → |r x - x| ≤ |y - x|

variable {f}

lemma two_zpow_pos (e : ℤ) : (0:ℚ) < 2 ^ e := zpow_pos (by norm_num) e

lemma Mult.mono {e e' : ℤ} {x : ℚ} (h : e ≤ e') (hx : Mult e' x) : Mult e x := by
  obtain ⟨k, rfl⟩ := hx
  obtain ⟨d, rfl⟩ : ∃ d : ℕ, e' = e + d := ⟨(e' - e).toNat, by omega⟩
  refine ⟨k * 2 ^ d, ?_⟩
  rw [zpow_add₀ (by norm_num : (2:ℚ) ≠ 0), zpow_natCast]; push_cast; ring

lemma Mult.add {e : ℤ} {x y : ℚ} (hx : Mult e x) (hy : Mult e y) : Mult e (x + y) := by
  obtain ⟨k, rfl⟩ := hx; obtain ⟨l, rfl⟩ := hy; exact ⟨k + l, by push_cast; ring⟩

lemma Mult.neg {e : ℤ} {x : ℚ} (hx : Mult e x) : Mult e (-x) := by
  obtain ⟨k, rfl⟩ := hx; exact ⟨-k, by push_cast; ring⟩

lemma Mult.sub {e : ℤ} {x y : ℚ} (hx : Mult e x) (hy : Mult e y) : Mult e (x - y) := by
  rw [sub_eq_add_neg]; exact hx.add hy.neg

/-- criterion: a multiple of 2^e (e ≥ emin) of magnitude ≤ 2^p·2^e is representable -/
lemma rep_of_mult_le {e : ℤ} {x : ℚ} (he : f.emin ≤ e) (hx : Mult e x)
    (hb : |x| ≤ 2 ^ f.p * 2 ^ e) : Rep f x := by
  obtain ⟨k, rfl⟩ := hx
  have h2 := two_zpow_pos e
  have hk : |k| ≤ 2 ^ f.p := by
    rw [abs_mul, abs_of_pos h2] at hb
    have := le_of_mul_le_mul_right hb h2
    exact_mod_cast this
  rcases lt_or_eq_of_le hk with h | h
  · exact ⟨k, e, rfl, h, he⟩
  · obtain ⟨q, hq⟩ : ∃ q, f.p = q + 1 := ⟨f.p - 1, by have := f.hp; omega⟩
    have hk2 : |k| = 2 * 2 ^ q := by rw [h, hq, pow_succ]; ring
    rcases abs_cases k with ⟨hk', _⟩ | ⟨hk', _⟩
    · refine ⟨2 ^ q, e + 1, ?_, ?_, by omega⟩
      · have : k = 2 * 2 ^ q := by rw [← hk', hk2]
        rw [this, zpow_add₀ (by norm_num : (2:ℚ) ≠ 0)]; push_cast; ring
      · rw [abs_of_pos (by positivity), hq]; exact pow_lt_pow_right₀ (by norm_num) (by omega)
    · refine ⟨-2 ^ q, e + 1, ?_, ?_, by omega⟩
      · have : k = -(2 * 2 ^ q) := by rw [← hk2, hk']; ring
        rw [this, zpow_add₀ (by norm_num : (2:ℚ) ≠ 0)]; push_cast; ring
      · rw [abs_neg, abs_of_pos (by positivity), hq]; exact pow_lt_pow_right₀ (by norm_num) (by omega)

/-- a representable number of magnitude ≥ 2^p·2^e is a multiple of 2^(e+1) -/
lemma mult_succ_of_rep_ge {e : ℤ} {y : ℚ} (hy : Rep f y) (hb : 2 ^ f.p * 2 ^ e ≤ |y|) :
    Mult (e + 1) y := by
  obtain ⟨m, e', rfl, hm, _⟩ := hy
  have h2 := two_zpow_pos e'
  have hlt : (2:ℚ) ^ f.p * 2 ^ e < 2 ^ f.p * 2 ^ e' := by
    calc (2:ℚ) ^ f.p * 2 ^ e ≤ |(m:ℚ) * 2 ^ e'| := hb
      _ = |(m:ℚ)| * 2 ^ e' := by rw [abs_mul, abs_of_pos h2]
      _ < 2 ^ f.p * 2 ^ e' := by
          apply mul_lt_mul_of_pos_right _ h2
          exact_mod_cast hm
  have hpp : (0:ℚ) < 2 ^ f.p := by positivity
  have : (2:ℚ) ^ e < 2 ^ e' := lt_of_mul_lt_mul_left hlt hpp.le
  have hee : e < e' := (zpow_lt_zpow_iff_right₀ (by norm_num : (1:ℚ) < 2)).mp this
  exact Mult.mono (by omega) ⟨m, rfl⟩

variable {r : ℚ → ℚ} (hr : IsRN f r)
include hr

lemma rn_id {x : ℚ} (hx : Rep f x) : r x = x := by
  have := hr.near x x hx
  simp at this
  linarith [sub_eq_zero.mp this]

lemma rn_ge_of_rep {x y : ℚ} (hy : Rep f y) (h : y ≤ x) : y ≤ r x := by
  by_contra hc
  push Not at hc
  have := hr.near x y hy
  rw [abs_of_nonpos (by linarith), abs_of_nonpos (by linarith)] at this
  linarith

lemma rn_le_of_rep {x y : ℚ} (hy : Rep f y) (h : x ≤ y) : r x ≤ y := by
  by_contra hc
  push Not at hc
  have := hr.near x y hy
  rw [abs_of_nonneg (by linarith), abs_of_nonneg (by linarith)] at this
  linarith

/-- the bound 2^p·2^e is itself representable -/
lemma rep_bound {e : ℤ} (he : f.emin ≤ e) : Rep f (2 ^ f.p * 2 ^ e) := by
  apply rep_of_mult_le he ⟨2 ^ f.p, by push_cast; ring⟩
  rw [abs_of_pos (by have := two_zpow_pos e; positivity)]

lemma rep_neg' {x : ℚ} (h : Rep f x) : Rep f (-x) := by
  obtain ⟨m, e, rfl, hm, he⟩ := h
  exact ⟨-m, e, by push_cast; ring, by simpa using hm, he⟩

/-- |x| ≥ B with B representable ⇒ |r x| ≥ B -/
lemma abs_rn_ge {e : ℤ} {x : ℚ} (he : f.emin ≤ e) (hx : 2 ^ f.p * 2 ^ e ≤ |x|) :
    2 ^ f.p * 2 ^ e ≤ |r x| := by
  have hB := rep_bound hr he
  rcases le_or_gt 0 x with h0 | h0
  · rw [abs_of_nonneg h0] at hx
    exact le_trans (rn_ge_of_rep hr hB hx) (le_abs_self _)
  · rw [abs_of_neg h0] at hx
    have : r x ≤ -(2 ^ f.p * 2 ^ e) := rn_le_of_rep hr (rep_neg' hr hB) (by linarith)
    calc (2:ℚ) ^ f.p * 2 ^ e ≤ -(r x) := by linarith
      _ ≤ |r x| := neg_le_abs _

/-- rounding a multiple of 2^e yields a multiple of 2^e -/
lemma mult_rn {e : ℤ} {x : ℚ} (he : f.emin ≤ e) (hx : Mult e x) : Mult e (r x) := by
  rcases le_or_gt |x| (2 ^ f.p * 2 ^ e) with h | h
  · rw [rn_id hr (rep_of_mult_le he hx h)]; exact hx
  · exact Mult.mono (by omega) (mult_succ_of_rep_ge (hr.rep x) (abs_rn_ge hr he h.le))

/-- the rounding error of a sum of two representable numbers is representable -/
lemma add_err_rep {a b : ℚ} (ha : Rep f a) (hb : Rep f b) : Rep f (a + b - r (a + b)) := by
  obtain ⟨ma, ea, rfl, hma, hea⟩ := ha
  obtain ⟨mb, eb, rfl, hmb, heb⟩ := hb
  set a : ℚ := ma * 2 ^ ea with ha
  set b : ℚ := mb * 2 ^ eb with hb
  have hRa : Rep f a := ⟨ma, ea, rfl, hma, hea⟩
  have hRb : Rep f b := ⟨mb, eb, rfl, hmb, heb⟩
  have na := hr.near (a + b) a hRa
  have nb := hr.near (a + b) b hRb
  have e1 : |a + b - r (a + b)| ≤ |b| := by
    rw [abs_sub_comm]; calc _ ≤ |a - (a + b)| := na
      _ = |b| := by rw [show a - (a + b) = -b by ring, abs_neg]
  have e2 : |a + b - r (a + b)| ≤ |a| := by
    rw [abs_sub_comm]; calc _ ≤ |b - (a + b)| := nb
      _ = |a| := by rw [show b - (a + b) = -a by ring, abs_neg]
  rcases le_total ea eb with h | h
  · -- scale ea
    have hM : Mult ea (a + b) := Mult.add ⟨ma, rfl⟩ (Mult.mono h ⟨mb, rfl⟩)
    apply rep_of_mult_le hea (hM.sub (mult_rn hr hea hM))
    refine le_trans e2 ?_
    rw [ha, abs_mul, abs_of_pos (two_zpow_pos ea)]
    exact mul_le_mul_of_nonneg_right (by exact_mod_cast hma.le) (two_zpow_pos ea).le
  · have hM : Mult eb (a + b) := Mult.add (Mult.mono h ⟨ma, rfl⟩) ⟨mb, rfl⟩
    apply rep_of_mult_le heb (hM.sub (mult_rn hr heb hM))
    refine le_trans e1 ?_
    rw [hb, abs_mul, abs_of_pos (two_zpow_pos eb)]
    exact mul_le_mul_of_nonneg_right (by exact_mod_cast hmb.le) (two_zpow_pos eb).le


/-- core of Fast2Sum: if a is a multiple of 2^e and b lives at scale e, then r(a+b) - a is representable -/
lemma fast2sum_z_rep {a b : ℚ} {e : ℤ} (he : f.emin ≤ e) (ha : Rep f a) (hb : Rep f b)
    (hMa : Mult e a) (hMb : Mult e b) (hbb : |b| < 2 ^ f.p * 2 ^ e) :
    Rep f (r (a + b) - a) := by
  have h2 := two_zpow_pos e
  have hMs : Mult e (r (a + b)) := mult_rn hr he (hMa.add hMb)
  have hnear : |r (a + b) - (a + b)| ≤ |b| := by
    calc _ ≤ |a - (a + b)| := hr.near (a + b) a ha
      _ = |b| := by rw [show a - (a + b) = -b by ring, abs_neg]
  rcases le_or_gt |a + b| (2 ^ f.p * 2 ^ e) with hexact | hbig
  · -- a + b representable: s = a + b, s - a = b
    rw [rn_id hr (rep_of_mult_le he (hMa.add hMb) hexact)]
    simpa using hb
  · have hs_big : 2 ^ f.p * 2 ^ e ≤ |r (a + b)| := abs_rn_ge hr he hbig.le
    have hMs1 : Mult (e + 1) (r (a + b)) := mult_succ_of_rep_ge (hr.rep _) hs_big
    have h2e1 : (2:ℚ) ^ (e + 1) = 2 * 2 ^ e := by
      rw [zpow_add₀ (by norm_num : (2:ℚ) ≠ 0)]; ring
    obtain ⟨ma, ea, hae, hma, hea⟩ := ha
    rcases le_or_gt (e + 1) ea with hea1 | hea1
    · -- B1: a multiple of 2^(e+1)
      have hMa1 : Mult (e + 1) a := Mult.mono hea1 ⟨ma, hae⟩
      apply rep_of_mult_le (by omega) (hMs1.sub hMa1)
      have : |r (a + b) - a| ≤ |r (a + b) - (a + b)| + |b| := by
        calc |r (a + b) - a| = |(r (a + b) - (a + b)) + b| := by ring_nf
          _ ≤ _ := abs_add_le _ _
      rw [h2e1]; nlinarith [abs_nonneg b]
    · -- B2: |a| < 2^p 2^e, so |a+b| < 2^(p+1) 2^e and s is within 2^e of a+b
      have hae' : (2:ℚ) ^ ea ≤ 2 ^ e := zpow_le_zpow_right₀ (by norm_num) (by omega)
      have ha_lt : |a| < 2 ^ f.p * 2 ^ e := by
        rw [hae, abs_mul, abs_of_pos (two_zpow_pos ea)]
        have hm' : |(ma:ℚ)| < 2 ^ f.p := by exact_mod_cast hma
        have hpp : (0:ℚ) < 2 ^ f.p := by positivity
        calc |(ma:ℚ)| * 2 ^ ea < 2 ^ f.p * 2 ^ ea := mul_lt_mul_of_pos_right hm' (two_zpow_pos ea)
          _ ≤ 2 ^ f.p * 2 ^ e := mul_le_mul_of_nonneg_left hae' hpp.le
      have hab_lt : |a + b| < 2 ^ f.p * 2 ^ (e + 1) := by
        rw [h2e1]; calc |a + b| ≤ |a| + |b| := abs_add_le _ _
          _ < _ := by linarith
      -- s within 2^e of a+b
      obtain ⟨k, hk⟩ := hMa.add hMb
      have hdist : |r (a + b) - (a + b)| ≤ 2 ^ e := by
        rcases Int.even_or_odd k with ⟨j, hj⟩ | ⟨j, hj⟩
        · -- a+b multiple of 2^(e+1), representable
          have hM1 : Mult (e + 1) (a + b) := ⟨j, by rw [hk, hj, h2e1]; push_cast; ring⟩
          rw [rn_id hr (rep_of_mult_le (by omega) hM1 hab_lt.le)]; simp [h2.le]
        · -- neighbours (k±1) 2^e
          have hup : Rep f (a + b + 2 ^ e) := by
            apply rep_of_mult_le (e := e + 1) (by omega) ⟨j + 1, by rw [hk, hj, h2e1]; push_cast; ring⟩
            -- |a+b+2^e| ≤ 2^p 2^(e+1): a+b = k 2^e with |k| < 2^(p+1), k odd ⇒ |k+1| ≤ 2^(p+1)
            have hkq : |(k:ℚ)| < 2 ^ f.p * 2 := by
              have := hab_lt; rw [hk, abs_mul, abs_of_pos h2, h2e1] at this
              have h3 : |(k:ℚ)| * 2 ^ e < (2 ^ f.p * 2) * 2 ^ e := by linarith
              exact lt_of_mul_lt_mul_right h3 h2.le
            have hki : |k| < 2 ^ f.p * 2 := by exact_mod_cast hkq
            have hk1 : |k + 1| ≤ 2 ^ f.p * 2 := by
              have := abs_add_le k 1; simp at this; omega
            have : a + b + 2 ^ e = ((k + 1 : ℤ) : ℚ) * 2 ^ e := by rw [hk]; push_cast; ring
            rw [this, abs_mul, abs_of_pos h2, h2e1]
            have hk1q : |((k + 1 : ℤ) : ℚ)| ≤ 2 ^ f.p * 2 := by exact_mod_cast hk1
            nlinarith
          have := hr.near (a + b) (a + b + 2 ^ e) hup
          simpa [abs_of_pos h2] using this
      apply rep_of_mult_le he (hMs.sub hMa)
      -- |s - a| ≤ 2^e + |b| < 2^e + 2^p 2^e, and it is a multiple of 2^e ⇒ ≤ 2^p 2^e
      obtain ⟨K, hK⟩ := hMs.sub hMa
      have hlt : |r (a + b) - a| < 2 ^ e + 2 ^ f.p * 2 ^ e := by
        calc |r (a + b) - a| = |(r (a + b) - (a + b)) + b| := by ring_nf
          _ ≤ |r (a + b) - (a + b)| + |b| := abs_add_le _ _
          _ < _ := by linarith
      rw [hK, abs_mul, abs_of_pos h2] at hlt ⊢
      have hKq : |(K:ℚ)| < 1 + 2 ^ f.p := by
        have : |(K:ℚ)| * 2 ^ e < (1 + 2 ^ f.p) * 2 ^ e := by linarith
        exact lt_of_mul_lt_mul_right this h2.le
      have hKi : |K| < 1 + 2 ^ f.p := by exact_mod_cast hKq
      have hKle : |K| ≤ 2 ^ f.p := by omega
      have : |(K:ℚ)| ≤ 2 ^ f.p := by exact_mod_cast hKle
      exact mul_le_mul_of_nonneg_right this h2.le

/-- **Fast2Sum** for any precision, any round-to-nearest, gradual underflow, no overflow:
    with |b| ≤ |a|, the computed pair is exact. -/
theorem fast2sum_exact {a b : ℚ} (ha : Rep f a) (hb : Rep f b) (hab : |b| ≤ |a|) :
    let s := r (a + b); let z := r (s - a); let t := r (b - z)
    s = r (a + b) ∧ s + t = a + b := by
  intro s z t
  refine ⟨rfl, ?_⟩
  -- choose the scale: a representation exponent of whichever is smaller
  obtain ⟨ma, ea, hae, hma, hea⟩ := ha
  obtain ⟨mb, eb, hbe, hmb, heb⟩ := hb
  have hRa : Rep f a := ⟨ma, ea, hae, hma, hea⟩
  have hRb : Rep f b := ⟨mb, eb, hbe, hmb, heb⟩
  have key : ∃ e, f.emin ≤ e ∧ Mult e a ∧ Mult e b ∧ |b| < 2 ^ f.p * 2 ^ e := by
    rcases le_total eb ea with h | h
    · refine ⟨eb, heb, Mult.mono h ⟨ma, hae⟩, ⟨mb, hbe⟩, ?_⟩
      rw [hbe, abs_mul, abs_of_pos (two_zpow_pos eb)]
      exact mul_lt_mul_of_pos_right (by exact_mod_cast hmb) (two_zpow_pos eb)
    · refine ⟨ea, hea, ⟨ma, hae⟩, Mult.mono h ⟨mb, hbe⟩, ?_⟩
      refine lt_of_le_of_lt hab ?_
      rw [hae, abs_mul, abs_of_pos (two_zpow_pos ea)]
      exact mul_lt_mul_of_pos_right (by exact_mod_cast hma) (two_zpow_pos ea)
  obtain ⟨e, he, hMa, hMb, hbb⟩ := key
  have hz : z = s - a := rn_id hr (fast2sum_z_rep hr he hRa hRb hMa hMb hbb)
  have ht : t = a + b - s := by
    have : b - z = a + b - s := by rw [hz]; ring
    show r (b - z) = _
    rw [this]; exact rn_id hr (add_err_rep hr hRa hRb)
  rw [ht]; ring


/-- **2Sum** (Knuth/Møller) as coded in `add_2sum(fast=False)`:
    s = x+y; z = s-x; t = (x-(s-z)) + (y-z), every operation rounded to nearest.
    Exact for any precision, any tie rule, gradual underflow, no ordering hypothesis. -/
theorem twosum_exact {a b : ℚ} (ha : Rep f a) (hb : Rep f b) :
    let s := r (a + b); let z := r (s - a)
    let t := r (r (a - r (s - z)) + r (b - z))
    s + t = a + b := by
  intro s z t
  have herr : Rep f (a + b - s) := add_err_rep hr ha hb
  have hRs : Rep f s := hr.rep _
  rcases le_or_gt |b| |a| with hab | hab
  · -- case |b| ≤ |a| : reduces to Fast2Sum
    obtain ⟨ma, ea, hae, hma, hea⟩ := ha
    obtain ⟨mb, eb, hbe, hmb, heb⟩ := hb
    have hRa : Rep f a := ⟨ma, ea, hae, hma, hea⟩
    have hRb : Rep f b := ⟨mb, eb, hbe, hmb, heb⟩
    have key : ∃ e, f.emin ≤ e ∧ Mult e a ∧ Mult e b ∧ |b| < 2 ^ f.p * 2 ^ e := by
      rcases le_total eb ea with h | h
      · refine ⟨eb, heb, Mult.mono h ⟨ma, hae⟩, ⟨mb, hbe⟩, ?_⟩
        rw [hbe, abs_mul, abs_of_pos (two_zpow_pos eb)]
        exact mul_lt_mul_of_pos_right (by exact_mod_cast hmb) (two_zpow_pos eb)
      · refine ⟨ea, hea, ⟨ma, hae⟩, Mult.mono h ⟨mb, hbe⟩, ?_⟩
        refine lt_of_le_of_lt hab ?_
        rw [hae, abs_mul, abs_of_pos (two_zpow_pos ea)]
        exact mul_lt_mul_of_pos_right (by exact_mod_cast hma) (two_zpow_pos ea)
    obtain ⟨e, he, hMa, hMb, hbb⟩ := key
    have hz : z = s - a := rn_id hr (fast2sum_z_rep hr he hRa hRb hMa hMb hbb)
    have h1 : r (s - z) = a := by rw [hz, show s - (s - a) = a by ring]; exact rn_id hr hRa
    have h2 : r (a - r (s - z)) = 0 := by rw [h1, sub_self]; exact rn_id hr ⟨0, f.emin, by simp, by positivity, le_refl _⟩
    have h3 : r (b - z) = a + b - s := by
      rw [hz, show b - (s - a) = a + b - s by ring]; exact rn_id hr herr
    show s + r (r (a - r (s - z)) + r (b - z)) = a + b
    rw [h2, h3, zero_add, rn_id hr herr]; ring
  · -- case |a| < |b|
    obtain ⟨ma, ea, hae, hma, hea⟩ := ha
    obtain ⟨mb, eb, hbe, hmb, heb⟩ := hb
    have hRa : Rep f a := ⟨ma, ea, hae, hma, hea⟩
    have hRb : Rep f b := ⟨mb, eb, hbe, hmb, heb⟩
    have ha_lt : |a| < 2 ^ f.p * 2 ^ ea := by
      rw [hae, abs_mul, abs_of_pos (two_zpow_pos ea)]
      exact mul_lt_mul_of_pos_right (by exact_mod_cast hma) (two_zpow_pos ea)
    have hb_lt : |b| < 2 ^ f.p * 2 ^ eb := by
      rw [hbe, abs_mul, abs_of_pos (two_zpow_pos eb)]
      exact mul_lt_mul_of_pos_right (by exact_mod_cast hmb) (two_zpow_pos eb)
    -- common scale e = min ea eb : everything is a multiple of 2^e and |a| < 2^p 2^e
    have key : ∃ e, f.emin ≤ e ∧ Mult e a ∧ Mult e b ∧ |a| < 2 ^ f.p * 2 ^ e := by
      rcases le_total ea eb with h | h
      · exact ⟨ea, hea, ⟨ma, hae⟩, Mult.mono h ⟨mb, hbe⟩, ha_lt⟩
      · exact ⟨eb, heb, Mult.mono h ⟨ma, hae⟩, ⟨mb, hbe⟩, lt_trans hab hb_lt⟩
    obtain ⟨e, he, hMa, hMb, haa⟩ := key
    have hMs : Mult e s := mult_rn hr he (hMa.add hMb)
    have e1 : |a + b - s| ≤ |a| := by
      rw [abs_sub_comm]; calc _ ≤ |b - (a + b)| := hr.near (a + b) b hRb
        _ = |a| := by rw [show b - (a + b) = -a by ring, abs_neg]
    -- (ii) s - z representable : z = r (s + (-a))
    have hii : Rep f (s - z) := by
      have := fast2sum_z_rep hr he hRs (rep_neg' hr hRa) hMs hMa.neg (by rwa [abs_neg])
      have h' : Rep f (-(r (s + -a) - s)) := rep_neg' hr this
      have : -(r (s + -a) - s) = s - z := by show _ = s - r (s - a); rw [sub_eq_add_neg s a]; ring
      rwa [this] at h'
    -- (i) b - z representable : z = r (b + (-(a+b-s)))
    have hzb : s - a = b + -(a + b - s) := by ring
    have hi : Rep f (b - z) := by
      have hlt : |-(a + b - s)| < 2 ^ f.p * 2 ^ e := by rw [abs_neg]; exact lt_of_le_of_lt e1 haa
      have := fast2sum_z_rep hr he hRb (rep_neg' hr herr) hMb ((hMa.add hMb).sub hMs).neg hlt
      have h' : Rep f (-(r (b + -(a + b - s)) - b)) := rep_neg' hr this
      have : -(r (b + -(a + b - s)) - b) = b - z := by show _ = b - r (s - a); rw [hzb]; ring
      rwa [this] at h'
    -- (iii) (a+b-s) - (b - z) representable : error of rounding b + (-(a+b-s))
    have hiii : Rep f (a - (s - z)) := by
      have := add_err_rep hr hRb (rep_neg' hr herr)
      have h2 : b + -(a + b - s) - r (b + -(a + b - s)) = -(a - (s - z)) := by
        show _ = -(a - (s - r (s - a))); rw [hzb]; ring
      rw [h2] at this
      simpa using rep_neg' hr this
    show s + r (r (a - r (s - z)) + r (b - z)) = a + b
    rw [rn_id hr hii, rn_id hr hiii, rn_id hr hi,
      show a - (s - z) + (b - z) = a + b - s by ring, rn_id hr herr]; ring

end FAVerif.FPQ
