/-
Helper lemmas for C19, part 5: statements that hold for every input (no subnormals unless requested,
strictly increasing when unique), recursion depth, and the absence of the model artefact `Err.fuel`.
-/
import FAVerif.Lemmas.SamplesUnbounded
namespace FAVerif.Samples

/-! ### statements for every input -/

theorem map_ok_inv {α β ε} (x : Except ε α) (f : α → β) (y : β) (h : x.map f = .ok y) : ∃ r, x = .ok r ∧ y = f r := by
  cases x with
  | error e => simp [Except.map] at h
  | ok r => simp [Except.map] at h; exact ⟨r, rfl, h.symm⟩

/-- shape of a successful call -/
theorem rsF_inv (c : Cfg) (k : Nat) (p : Params) (L : List Nat) (h : realSamplesF c (k + 1) p = .ok L) :
    L = [(resolveBounds c p).1] ∨
    (p.userBounds = false ∧ unbounded c p (resolveBounds c p).1 (resolveBounds c p).2 = .ok L) ∨
    (p.userBounds = true ∧ ∃ r, L = finish c p r) := by
  rw [realSamplesF] at h
  split at h
  · left; injection h with h; exact h.symm
  · split at h
    · cases h
    · split at h
      · rename_i hub
        right; left
        exact ⟨by simpa using hub, h⟩
      · rename_i hub
        have hub : p.userBounds = true := by simpa using hub
        right; right
        refine ⟨hub, ?_⟩
        split at h
        · obtain ⟨r, _, e⟩ := map_ok_inv _ _ _ h; exact ⟨r, e⟩
        · split at h
          · obtain ⟨r, _, e⟩ := map_ok_inv _ _ _ h; exact ⟨r, e⟩
          · split at h
            · cases h
            · split at h
              · cases h
              · injection h with h; exact ⟨_, h.symm⟩

theorem finish_strict (c : Cfg) (p : Params) (r : List Nat) (hu : p.unique = true) : StrictSorted c (finish c p r) := by
  rw [finish_eq, hu]; exact strict_uniq c _

theorem unbounded_strict (c : Cfg) (p : Params) (lo hi : Nat) (L : List Nat) (h : unbounded c p lo hi = .ok L)
    (hu : p.unique = true) : StrictSorted c L := by
  unfold unbounded at h
  split at h
  · cases h
  · split at h
    · cases h
    · injection h with h
      rw [← h]; exact strict_uniq c _

theorem sorted_unique_all (c : Cfg) (k : Nat) (p : Params) (L : List Nat) (h : realSamplesF c (k + 1) p = .ok L)
    (hu : p.unique = true) : StrictSorted c L := by
  rcases rsF_inv c k p L h with e | ⟨_, e⟩ | ⟨_, r, e⟩
  · rw [e]; simp [StrictSorted]
  · exact unbounded_strict c p _ _ L e hu
  · rw [e]; exact finish_strict c p r hu

theorem finish_no_sub (c : Cfg) (hwf : c.WF) (p : Params) (r : List Nat) (hs : p.includeSubnormal = false) :
    ∀ x ∈ finish c p r, isSubnormal c x = false := by
  intro x hx
  rw [finish_eq] at hx
  have hx : x ∈ r.map (fl c p) := mem_result_sub c _ _ hx
  obtain ⟨y, _, rfl⟩ := List.mem_map.1 hx
  unfold fl; rw [hs]; simp only [Bool.false_eq_true, if_false]
  exact flush1_not_subnormal c hwf y

theorem no_subnormal_all (c : Cfg) (hwf : c.WF) (k : Nat) (p : Params) (L : List Nat) (h : realSamplesF c (k + 1) p = .ok L)
    (hs : p.includeSubnormal = false) : ∀ x ∈ L, isSubnormal c x = false := by
  have := hwf.mn_inf; have := hwf.inf_sb; have := hwf.mn_pos; have := hwf.nan_sb
  rcases rsF_inv c k p L h with e | ⟨hub, _⟩ | ⟨_, r, e⟩
  · rw [e]
    intro x hx
    simp only [List.mem_singleton] at hx
    rw [hx]
    have := adjustLo_fl c hwf p (defaultMin c p)
    rw [fl_eq_self_iff, hs] at this
    simpa [resolveBounds] using this
  · by_cases hn : 2 ≤ numOf c p
    · obtain ⟨L', e', hw, _⟩ := unbounded_spec c hwf k p hub hn
      rw [h] at e'; injection e' with e'; subst e'
      intro x hx
      have hmp : minPos c p = c.mn := by simp [minPos, hs]
      rcases hw x hx with he | ⟨h1, _, _⟩
      · rcases extras_facts c p he with ⟨rfl, _⟩ | ⟨rfl, _⟩ | ⟨rfl, _⟩ | ⟨rfl, _⟩
        · obtain ⟨_, e2⟩ := negB_facts c (by omega : c.inf < c.sb)
          simp [isSubnormal, e2]; omega
        · simp [isSubnormal, mag]
        · have : c.inf < c.sb := by omega
          simp [isSubnormal, mag, this]; omega
        · have : c.qnan < c.sb := by unfold Cfg.qnan; omega
          simp only [isSubnormal, mag, this, if_true]; unfold Cfg.qnan; simp; omega
      · rw [hmp] at h1
        simp only [isSubnormal]; simp; omega
    · rw [rsF_unbounded c hwf k p hub, unbounded_err c p _ _ (by omega)] at h
      cases h
  · rw [e]; exact finish_no_sub c hwf p r hs


/-! ### recursion depth -/

theorem negHi_facts (c : Cfg) (hwf : c.WF) (p : Params) (lo : Nat) :
    negHi c p lo < 2 * c.sb ∧ fl c p (negHi c p lo) = negHi c p lo ∧ fle c (negHi c p lo) c.negZero = true := by
  obtain ⟨m1, m2, m3, m4, m5⟩ := minPos_facts c hwf p
  have := hwf.mn_inf; have := hwf.inf_sb
  have z := skey_negZero c hwf
  unfold negHi
  split
  · rw [m5] at m4 ⊢
    refine ⟨by omega, m4, ?_⟩
    rw [fle_iff]
    exact ⟨isNaN_false_neg c (by omega) (by omega), isNaN_false_neg c (Nat.le_refl _) (by unfold Cfg.negZero; omega),
      by unfold Cfg.negZero; rw [z, skey_neg' c (by omega) (by omega)]; omega⟩
  · refine ⟨by unfold Cfg.negZero; omega, (fl_zero c hwf p).2, ?_⟩
    rw [fle_iff]
    exact ⟨isNaN_false_neg c (Nat.le_refl _) (by unfold Cfg.negZero; omega), isNaN_false_neg c (Nat.le_refl _) (by unfold Cfg.negZero; omega),
      Int.le_refl _⟩

theorem posLo_facts (c : Cfg) (hwf : c.WF) (p : Params) (hi : Nat) :
    posLo c p hi < 2 * c.sb ∧ fl c p (posLo c p hi) = posLo c p hi ∧ fle c 0 (posLo c p hi) = true := by
  obtain ⟨m1, m2, m3, m4, m5⟩ := minPos_facts c hwf p
  have := hwf.mn_inf; have := hwf.inf_sb
  have hi' : c.inf < c.sb := by omega
  have z := skey_zero c hwf
  unfold posLo
  split
  · refine ⟨by omega, m3, ?_⟩
    rw [fle_iff]
    exact ⟨isNaN_false_pos c hi' (by omega), isNaN_false_pos c hi' (by omega),
      by rw [z, skey_pos' c hi' (by omega)]; omega⟩
  · refine ⟨by omega, (fl_zero c hwf p).1, ?_⟩
    rw [fle_iff]
    exact ⟨isNaN_false_pos c hi' (by omega), isNaN_false_pos c hi' (by omega), Int.le_refl _⟩

/-- a call whose resolved lower bound is `≥ +0` or whose resolved upper bound is `≤ -0` does not recurse -/
theorem rsF_norec (c : Cfg) (k : Nat) (q : Params)
    (hq : fle c 0 (resolveBounds c q).1 = true ∨ fle c (resolveBounds c q).2 c.negZero = true) :
    realSamplesF c (k + 1) q = realSamplesF c 1 q := by
  rw [realSamplesF, realSamplesF]
  split
  · rfl
  · split
    · rfl
    · split
      · rfl
      · split
        · rfl
        · split
          · rfl
          · rename_i h1 h2
            rcases hq with hq | hq
            · exact absurd hq h1
            · exact absurd hq h2

theorem negCall_norec (c : Cfg) (hwf : c.WF) (p : Params) (lo hi : Nat) :
    fle c (resolveBounds c (negCall c p lo hi)).2 c.negZero = true := by
  obtain ⟨n1, n2, n3⟩ := negHi_facts c hwf p lo
  have hinc : (negCall c p lo hi).includeSubnormal = p.includeSubnormal := rfl
  have hfl : fl c (negCall c p lo hi) = fl c p := funext (fl_congr c p _ hinc)
  have d : defaultMax c (negCall c p lo hi) (defaultMin c (negCall c p lo hi)) = negHi c p lo := rfl
  unfold resolveBounds
  simp only []
  rw [d, adjustHi_of_fl c hwf _ _ n1 (by rw [hfl]; exact n2)]
  exact n3

theorem posCall_norec (c : Cfg) (hwf : c.WF) (p : Params) (lo hi : Nat) :
    fle c 0 (resolveBounds c (posCall c p lo hi)).1 = true := by
  obtain ⟨n1, n2, n3⟩ := posLo_facts c hwf p hi
  have hinc : (posCall c p lo hi).includeSubnormal = p.includeSubnormal := rfl
  have hfl : fl c (posCall c p lo hi) = fl c p := funext (fl_congr c p _ hinc)
  have d : defaultMin c (posCall c p lo hi) = posLo c p hi := rfl
  unfold resolveBounds
  simp only []
  rw [d, adjustLo_of_fl c hwf _ _ n1 (by rw [hfl]; exact n2)]
  exact n3

/-- one unfolding of `realSamplesF`, the recursive calls abstracted -/
def rsBody (c : Cfg) (rec : Params → Except Err (List Nat)) (p : Params) : Except Err (List Nat) :=
  let lo := (resolveBounds c p).1
  let hi := (resolveBounds c p).2
  if feq c lo hi then .ok [lo]
  else if fle c hi lo then .error .value
  else if !p.userBounds then unbounded c p lo hi
  else if fle c 0 lo then (sameSignPos c lo hi (numOf c p)).map (finish c p)
  else if fle c hi c.negZero then (sameSignNeg c lo hi (numOf c p)).map (finish c p)
  else
    match rec (negCall c p lo hi) with
    | .error e => .error e
    | .ok negPart =>
      match rec (posCall c p lo hi) with
      | .error e => .error e
      | .ok posPart =>
        .ok (finish c p (if p.includeZero then negPart ++ [0] ++ posPart else negPart ++ posPart))

theorem rsF_succ (c : Cfg) (k : Nat) (p : Params) : realSamplesF c (k + 1) p = rsBody c (realSamplesF c k) p := by
  rw [realSamplesF]; rfl

/-- every fuel ≥ 2 gives the same result: `real_samples` recurses at most one level deep -/
theorem fuel_enough' (c : Cfg) (hwf : c.WF) (k : Nat) (p : Params) : realSamplesF c (k + 2) p = realSamplesF c 2 p := by
  rw [show k + 2 = (k + 1) + 1 from rfl, rsF_succ, show (2 : Nat) = 1 + 1 from rfl, rsF_succ]
  unfold rsBody
  simp only [rsF_norec c k _ (Or.inr (negCall_norec c hwf p _ _)), rsF_norec c k _ (Or.inl (posCall_norec c hwf p _ _))]

theorem stepVals_no_fuel (c : Cfg) (a b : Nat) (n : Int) : stepVals c a b n ≠ .error .fuel := by
  unfold stepVals; split
  · simp
  · split <;> simp

theorem rsF1_no_fuel (c : Cfg) (q : Params)
    (hq : fle c 0 (resolveBounds c q).1 = true ∨ fle c (resolveBounds c q).2 c.negZero = true) :
    realSamplesF c 1 q ≠ .error .fuel := by
  rw [show (1 : Nat) = 0 + 1 from rfl, realSamplesF]
  have hs := stepVals_no_fuel c
  split
  · simp
  · split
    · simp
    · split
      · unfold unbounded
        split
        · rename_i e he; intro h; injection h with h; subst h; exact hs _ _ _ he
        · split <;> simp
      · split
        · unfold sameSignPos
          split
          · rename_i e he; intro h; simp [Except.map] at h; subst h; exact hs _ _ _ he
          · split <;> simp [Except.map]
        · split
          · unfold sameSignNeg
            split
            · rename_i e he; intro h; simp [Except.map] at h; subst h; exact hs _ _ _ he
            · split <;> simp [Except.map]
          · rename_i h1 h2
            rcases hq with hq | hq
            · exact absurd hq h1
            · exact absurd hq h2

/-- the model artefact `Err.fuel` is never returned -/
theorem no_fuel_error (c : Cfg) (hwf : c.WF) (p : Params) : realSamplesF c 2 p ≠ .error .fuel := by
  rw [show (2 : Nat) = 1 + 1 from rfl, realSamplesF]
  have hs := stepVals_no_fuel c
  have hN := rsF1_no_fuel c _ (Or.inr (negCall_norec c hwf p (resolveBounds c p).1 (resolveBounds c p).2))
  have hP := rsF1_no_fuel c _ (Or.inl (posCall_norec c hwf p (resolveBounds c p).1 (resolveBounds c p).2))
  split
  · simp
  · split
    · simp
    · split
      · unfold unbounded
        split
        · rename_i e he; intro h; injection h with h; subst h; exact hs _ _ _ he
        · split <;> simp
      · split
        · unfold sameSignPos
          split
          · rename_i e he; intro h; simp [Except.map] at h; subst h; exact hs _ _ _ he
          · split <;> simp [Except.map]
        · split
          · unfold sameSignNeg
            split
            · rename_i e he; intro h; simp [Except.map] at h; subst h; exact hs _ _ _ he
            · split <;> simp [Except.map]
          · split
            · rename_i e he; intro h; injection h with h; subst h; exact hN he
            · split
              · rename_i e he; intro h; injection h with h; subst h; exact hP he
              · simp


end FAVerif.Samples
